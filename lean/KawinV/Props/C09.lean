/-
C09 — thermodynamic queries are pure: history, caching, batching change nothing; the composition
cache of the diffusion models is sound.

Property theorems about three hand models tied to /repo by tools/corr/C09.py:
  `KawinV.HashCache`   (HashTable of kawin/diffusion/DiffusionParameters.py),
  `KawinV.Broadcast`   (kawin/thermo/utils.py broadcasting + how array queries are assembled),
  `KawinV.CompSetCache` (cache state machine of kawin/thermo/Thermodynamics.py, MultiTherm.py,
                         LocalEquilibrium.py with pycalphad as a parameter).
Theorems about `Cfg.fixed` speak about the repaired code; the `shipped_…` theorems prove, on concrete
witnesses, that the same clauses were false of the shipped code (see known_findings.txt).
-/
import KawinV.Model.HashCache
import KawinV.Model.Broadcast
import KawinV.Model.CompSetCache
import Mathlib.Data.List.Induction
import Mathlib.Tactic.NormNum
import Mathlib.Tactic.Linarith

set_option linter.unusedSectionVars false
set_option linter.unusedVariables false
set_option linter.unusedSimpArgs false
set_option linter.unusedDecidableInType false

namespace KawinV.Props.C09

/-! ## 1. the composition cache of the diffusion models (HashTable) -/
section hash
open KawinV.HashCache

variable {α κ ν : Type} [DecidableEq κ]

/-- operations that empty the table (in the repaired code `setHashSensitivity` is one of them) -/
def isReset : Op α ν → Bool
  | .clear => true
  | .setSens _ => true
  | _ => false

theorem lookup_mem {k : κ} {v : ν} : ∀ {l : List (κ × ν)}, lookup k l = some v → (k, v) ∈ l
  | [], h => by simp [lookup] at h
  | (k', v') :: r, h => by
    unfold lookup at h
    split at h
    · next hk => cases h; subst hk; exact List.mem_cons_self
    · exact List.mem_cons_of_mem _ (lookup_mem h)

theorem run_snoc (cfg : Cfg) (key : Nat → List α → α → κ) (t : Table κ ν) (ops : List (Op α ν)) (o : Op α ν) :
    run cfg key t (ops ++ [o]) = step cfg key (run cfg key t ops) o := by
  simp [run, List.foldl_append]

/-- no reset among the operations: the sensitivity is what it was -/
theorem sens_of_no_reset (key : Nat → List α → α → κ) (t : Table κ ν) :
    ∀ ops : List (Op α ν), (∀ o ∈ ops, isReset o = false) → (run Cfg.fixed key t ops).sens = t.sens := by
  intro ops
  induction ops using List.reverseRecOn with
  | nil => intro _; rfl
  | append_singleton l o ih =>
    intro h
    rw [run_snoc]
    have hl : ∀ o' ∈ l, isReset o' = false := fun o' ho' => h o' (List.mem_append_left _ ho')
    have ho : isReset o = false := h o (by simp)
    rw [← ih hl]
    cases o <;> simp [step, isReset] at ho ⊢
    split <;> rfl

/-- provenance of every entry: it was put there by an `add` executed while caching was on, its key is
the key of that `add` at the sensitivity in force then, and nothing has emptied the table or changed
the sensitivity since. -/
theorem entry_provenance (key : Nat → List α → α → κ) (ops : List (Op α ν)) :
    ∀ k v, (k, v) ∈ (run Cfg.fixed key (init : Table κ ν) ops).data →
      ∃ pre x' T' post, ops = pre ++ Op.add x' T' v :: post ∧
        key (run Cfg.fixed key (init : Table κ ν) pre).sens x' T' = k ∧
        (run Cfg.fixed key (init : Table κ ν) pre).flag = true ∧
        ∀ o ∈ post, isReset o = false := by
  induction ops using List.reverseRecOn with
  | nil => intro k v h; simp [run, init] at h
  | append_singleton l o ih =>
    intro k v h
    rw [run_snoc] at h
    -- an entry that was already there before `o`, and `o` is not a reset
    have old : (k, v) ∈ (run Cfg.fixed key (init : Table κ ν) l).data → isReset o = false →
        ∃ pre x' T' post, l ++ [o] = pre ++ Op.add x' T' v :: post ∧
          key (run Cfg.fixed key (init : Table κ ν) pre).sens x' T' = k ∧
          (run Cfg.fixed key (init : Table κ ν) pre).flag = true ∧
          ∀ o ∈ post, isReset o = false := by
      intro hm ho
      obtain ⟨pre, x', T', post, hl, hk, hf, hp⟩ := ih k v hm
      refine ⟨pre, x', T', post ++ [o], by simp [hl], hk, hf, ?_⟩
      intro o' ho'
      rcases List.mem_append.mp ho' with h1 | h1
      · exact hp o' h1
      · simp at h1; subst h1; exact ho
    cases o with
    | enable b => exact old (by simpa [step] using h) rfl
    | clear => simp [step] at h
    | setSens s => simp [step, Cfg.fixed] at h
    | retrieve x T => exact old (by simpa [step] using h) rfl
    | add x T w =>
      simp only [step] at h
      split at h
      · next hon =>
        simp only [List.mem_cons, Prod.mk.injEq] at h
        rcases h with ⟨hk, hv⟩ | h
        · subst hv
          refine ⟨l, x, T, [], by simp, hk.symm, ?_, by simp⟩
          simpa [isOn, Cfg.fixed] using hon
        · exact old h rfl
      · exact old h rfl

/-- **reuse only on equal key** (repaired code, every key function, every operation sequence):
`retrieve` returns `some v` only if an earlier `add`, executed while caching was on, stored `v` under
the same key at the same sensitivity, and neither `clearCache` nor `setHashSensitivity` ran since. -/
theorem reuse_only_on_equal_key (key : Nat → List α → α → κ) (ops : List (Op α ν))
    (x : List α) (T : α) (v : ν)
    (h : retrieve Cfg.fixed key (run Cfg.fixed key (init : Table κ ν) ops) x T = some v) :
    ∃ pre x' T' post, ops = pre ++ Op.add x' T' v :: post ∧
      (run Cfg.fixed key (init : Table κ ν) pre).sens = (run Cfg.fixed key (init : Table κ ν) ops).sens ∧
      key (run Cfg.fixed key (init : Table κ ν) pre).sens x' T'
        = key (run Cfg.fixed key (init : Table κ ν) ops).sens x T ∧
      (run Cfg.fixed key (init : Table κ ν) pre).flag = true ∧
      ∀ o ∈ post, isReset o = false := by
  unfold retrieve at h
  split at h
  · obtain ⟨pre, x', T', post, hl, hk, hf, hp⟩ := entry_provenance key ops _ v (lookup_mem h)
    refine ⟨pre, x', T', post, hl, ?_, hk, hf, hp⟩
    subst hl
    have : run Cfg.fixed key (init : Table κ ν) (pre ++ Op.add x' T' v :: post)
        = run Cfg.fixed key (step Cfg.fixed key (run Cfg.fixed key (init : Table κ ν) pre) (Op.add x' T' v)) post := by
      simp [run, List.foldl_append]
    rw [this, sens_of_no_reset key _ post hp]
    simp only [step]; split <;> rfl
  · cases h

/-- **switch off, retrieve**: with caching off nothing is returned -/
theorem off_retrieve (key : Nat → List α → α → κ) (t : Table κ ν) (h : t.flag = false) (x : List α) (T : α) :
    retrieve Cfg.fixed key t x T = none := by
  simp [retrieve, isOn, Cfg.fixed, h]

/-- **switch off, add**: with caching off `add` changes nothing -/
theorem off_add (key : Nat → List α → α → κ) (t : Table κ ν) (h : t.flag = false) (x : List α) (T : α) (v : ν) :
    step Cfg.fixed key t (Op.add x T v) = t := by
  simp [step, isOn, Cfg.fixed, h]

/-- **switch off, whole histories**: after `enableCaching(False)`, as long as caching is not switched
on again, every `retrieve` answers `none` and the stored data never changes except by being emptied. -/
theorem switch_off (key : Nat → List α → α → κ) (t : Table κ ν) :
    ∀ ops : List (Op α ν), (∀ o ∈ ops, o ≠ Op.enable true) →
      outputs Cfg.fixed key (step Cfg.fixed key t (Op.enable false)) ops = ops.map (fun _ => none) ∧
      (run Cfg.fixed key (step Cfg.fixed key t (Op.enable false)) ops).flag = false ∧
      ((run Cfg.fixed key (step Cfg.fixed key t (Op.enable false)) ops).data = t.data ∨
       (run Cfg.fixed key (step Cfg.fixed key t (Op.enable false)) ops).data = []) := by
  suffices H : ∀ (ops : List (Op α ν)) (u : Table κ ν), u.flag = false → (∀ o ∈ ops, o ≠ Op.enable true) →
      outputs Cfg.fixed key u ops = ops.map (fun _ => none) ∧
      (run Cfg.fixed key u ops).flag = false ∧
      ((run Cfg.fixed key u ops).data = u.data ∨ (run Cfg.fixed key u ops).data = []) by
    intro ops h
    exact H ops _ (by simp [step]) h
  intro ops
  induction ops with
  | nil => intro u hu _; simp [outputs, run, hu]
  | cons o r ih =>
    intro u hu h
    have hr : ∀ o' ∈ r, o' ≠ Op.enable true := fun o' ho' => h o' (List.mem_cons_of_mem _ ho')
    have ho : o ≠ Op.enable true := h o List.mem_cons_self
    have hstep : (step Cfg.fixed key u o).flag = false ∧
        ((step Cfg.fixed key u o).data = u.data ∨ (step Cfg.fixed key u o).data = []) := by
      cases o with
      | enable b => cases b <;> simp_all [step]
      | clear => simp [step, hu]
      | setSens s => simp [step, hu, Cfg.fixed]
      | add x T v => rw [off_add key u hu]; simp [hu]
      | retrieve x T => simp [step, hu]
    have hout : output Cfg.fixed key u o = none := by
      cases o <;> simp [output, off_retrieve key u hu]
    obtain ⟨h1, h2, h3⟩ := ih (step Cfg.fixed key u o) hstep.1 hr
    refine ⟨by simp [outputs, hout, h1], by simpa [run] using h2, ?_⟩
    have : run Cfg.fixed key u (o :: r) = run Cfg.fixed key (step Cfg.fixed key u o) r := by simp [run]
    rw [this]
    rcases h3 with h3 | h3
    · rcases hstep.2 with h4 | h4
      · left; rw [h3, h4]
      · right; rw [h3, h4]
    · right; exact h3

/-! ### the idiom "retrieve, else compute and add" is sound -/

/-- every stored value is `f` of some argument whose key (at the current sensitivity) is the stored key -/
def Sound (key : Nat → List α → α → κ) (f : List α → α → ν) (t : Table κ ν) : Prop :=
  ∀ k v, (k, v) ∈ t.data → ∃ x' T', v = f x' T' ∧ key t.sens x' T' = k

theorem sound_init (key : Nat → List α → α → κ) (f : List α → α → ν) : Sound key f (init : Table κ ν) := by
  intro k v h; simp [init] at h

theorem sound_ctl (key : Nat → List α → α → κ) (f : List α → α → ν) (t : Table κ ν) (h : Sound key f t)
    (o : Op α ν) (ho : ∀ x T v, o ≠ Op.add x T v) : Sound key f (step Cfg.fixed key t o) := by
  cases o with
  | enable b => simpa [step, Sound] using h
  | clear => intro k v hm; simp [step] at hm
  | setSens s => intro k v hm; simp [step, Cfg.fixed] at hm
  | retrieve x T => simpa [step, Sound] using h
  | add x T v => exact absurd rfl (ho x T v)

/-- one cached query: the value returned is `f` at an argument with the SAME key as the one asked for
(at the configured sensitivity) — and the table stays sound. -/
theorem cachedQuery_sound (key : Nat → List α → α → κ) (f : List α → α → ν) (t : Table κ ν)
    (h : Sound key f t) (x : List α) (T : α) :
    (∃ x' T', (cachedQuery Cfg.fixed key f t x T).1 = f x' T' ∧ key t.sens x' T' = key t.sens x T) ∧
    Sound key f (cachedQuery Cfg.fixed key f t x T).2 := by
  unfold cachedQuery
  split
  · next v hv =>
    refine ⟨?_, h⟩
    unfold retrieve at hv
    split at hv
    · obtain ⟨x', T', h1, h2⟩ := h _ v (lookup_mem hv)
      exact ⟨x', T', h1, h2⟩
    · cases hv
  · refine ⟨⟨x, T, rfl, rfl⟩, ?_⟩
    simp only [step]
    split
    · intro k v hm
      simp only [List.mem_cons, Prod.mk.injEq] at hm
      rcases hm with ⟨hk, hv⟩ | hm
      · exact ⟨x, T, hv, hk.symm⟩
      · exact h k v hm
    · exact h

/-- with caching off a cached query is exactly the computation -/
theorem cachedQuery_off (key : Nat → List α → α → κ) (f : List α → α → ν) (t : Table κ ν)
    (h : t.flag = false) (x : List α) (T : α) :
    cachedQuery Cfg.fixed key f t x T = (f x T, t) := by
  simp [cachedQuery, off_retrieve key t h, off_add key t h]

/-! ### the node loop of the diffusion models (`SinglePhaseModel._getFluxes`, `computeMobility`): one cached query per node -/

/-- **cache off**: with the cache switched off the node loop evaluates `f` (the thermodynamics) at EVERY node's own
composition and temperature — no value of a neighbouring (or any other) node is used, however close the nodes are -/
theorem node_loop_off_own_values (key : Nat → List α → α → κ) (f : List α → α → ν) :
    ∀ (nodes : List (List α × α)) (t : Table κ ν), t.flag = false →
      (runEvs Cfg.fixed key f t (nodes.map (fun n => Ev.query n.1 n.2))).2 = nodes.map (fun n => f n.1 n.2) := by
  intro nodes
  induction nodes with
  | nil => intro t _; rfl
  | cons n r ih =>
    intro t h
    simp only [List.map_cons, runEvs, cachedQuery_off key f t h]
    rw [ih t h]

/-- a node whose key is not in the table gets its own value (and stores it) -/
theorem node_miss_own_value (key : Nat → List α → α → κ) (f : List α → α → ν) (t : Table κ ν) (x : List α) (T : α)
    (h : lookup (key t.sens x T) t.data = none) : (cachedQuery Cfg.fixed key f t x T).1 = f x T := by
  unfold cachedQuery retrieve
  split
  · next v hv =>
    split at hv
    · rw [h] at hv; cases hv
    · cases hv
  · rfl

/-- the seeded shortcut: a node that is `same` (np.allclose) as its predecessor copies the predecessor's value, ahead of
the table — it ignores the switch and the precision, and it chains -/
def nodeLoopNeighbour {γ : Type} (same : γ → γ → Bool) (f : γ → ν) : Option (γ × ν) → List γ → List ν
  | _, [] => []
  | none, n :: r => f n :: nodeLoopNeighbour same f (some (n, f n)) r
  | some (m, v), n :: r =>
    if same m n then v :: nodeLoopNeighbour same f (some (n, v)) r
    else f n :: nodeLoopNeighbour same f (some (n, f n)) r

/-- witness: three nodes 10, 11, 12 (neighbours within 1 of each other), cache OFF: the code's loop gives every node its own
value, the neighbour-copying variant gives all three the value of the first node -/
theorem neighbour_copy_variant_chains :
    (runEvs Cfg.fixed (fun (_ : Nat) (x : List Nat) (T : Nat) => x ++ [T]) (fun x _ => x.sum)
      (⟨false, 4, []⟩ : Table (List Nat) Nat) ([[10], [11], [12]].map (fun x => Ev.query x 0))).2 = [10, 11, 12] ∧
    nodeLoopNeighbour (fun a b : Nat => decide (b ≤ a + 1)) (fun x => x) none [10, 11, 12] = [10, 10, 10] := by
  decide

/-- non-vacuity of `node_loop_off_own_values`: a switched-off table -/
example : (step Cfg.fixed (fun (_ : Nat) (x : List Nat) (T : Nat) => x ++ [T]) (init : Table (List Nat) Nat) (.enable false)).flag = false := rfl

theorem runEvs_sound (key : Nat → List α → α → κ) (f : List α → α → ν) :
    ∀ (evs : List (Ev α)) (t : Table κ ν), Sound key f t → Sound key f (runEvs Cfg.fixed key f t evs).1 := by
  intro evs
  induction evs with
  | nil => intro t h; simpa [runEvs] using h
  | cons e r ih =>
    intro t h
    cases e with
    | query x T => simpa [runEvs] using ih _ (cachedQuery_sound key f t h x T).2
    | enable b => simpa [runEvs] using ih _ (sound_ctl key f t h (Op.enable b) (by intros; simp))
    | clear => simpa [runEvs] using ih _ (sound_ctl key f t h Op.clear (by intros; simp))
    | setSens s => simpa [runEvs] using ih _ (sound_ctl key f t h (Op.setSens s) (by intros; simp))

/-- **the diffusion cache is sound, for every history** of control calls (enable/disable, clear,
change of sensitivity) and queries: the next query at (x, T) returns `f` evaluated at some (x', T')
that has the same key as (x, T) at the configured sensitivity; with caching off it returns `f x T`. -/
theorem cache_sound_after_any_history (key : Nat → List α → α → κ) (f : List α → α → ν)
    (evs : List (Ev α)) (x : List α) (T : α) :
    let t := (runEvs Cfg.fixed key f (init : Table κ ν) evs).1
    (∃ x' T', (cachedQuery Cfg.fixed key f t x T).1 = f x' T' ∧ key t.sens x' T' = key t.sens x T) ∧
    (t.flag = false → (cachedQuery Cfg.fixed key f t x T).1 = f x T) := by
  intro t
  refine ⟨(cachedQuery_sound key f t (runEvs_sound key f evs _ (sound_init key f)) x T).1, ?_⟩
  intro h; rw [cachedQuery_off key f t h]

/-! ### the integer key -/

/-- the W-bit cast is the identity on representable values -/
theorem castBits_id (w : Nat) (z : Int) (h : -(2 ^ (w - 1) : Int) ≤ z ∧ z < (2 ^ (w - 1) : Int)) :
    castBits w (some z) = z := by
  simp [castBits, h]

/-- int64 covers every `|v·10^s| ≤ B·10^s` with `B·10^s < 2^63`
(e.g. B = 9 000 000 K and s = 12, see the example below) -/
theorem int64_covers (B s : Nat) (hB : B * 10 ^ s < 2 ^ 63) (z : Int) (hz : z.natAbs ≤ B * 10 ^ s) :
    castBits 64 (some z) = z := by
  apply castBits_id
  have h1 : z.natAbs < 2 ^ 63 := lt_of_le_of_lt hz hB
  simp only [show (64 - 1 : Nat) = 63 by rfl]
  constructor <;> omega

example : 9000000 * 10 ^ 12 < 2 ^ 63 := by norm_num

section faithful
variable {β : Type} [KeyScalar β]

/-- all components representable in W bits -/
def InRange (w s : Nat) (x : List β) (T : β) : Prop :=
  ∀ o ∈ keyExact s x T, ∃ z, o = some z ∧ -(2 ^ (w - 1) : Int) ≤ z ∧ z < (2 ^ (w - 1) : Int)

theorem keyCast_eq_map (w s : Nat) (x : List β) (T : β) :
    keyCast w s x T = (keyExact s x T).map (castBits w) := by
  simp [keyCast, keyExact, List.map_map, Function.comp_def]

theorem map_castBits_inj (w : Nat) : ∀ (a b : List (Option Int)),
    (∀ o ∈ a, ∃ z, o = some z ∧ -(2 ^ (w - 1) : Int) ≤ z ∧ z < (2 ^ (w - 1) : Int)) →
    (∀ o ∈ b, ∃ z, o = some z ∧ -(2 ^ (w - 1) : Int) ≤ z ∧ z < (2 ^ (w - 1) : Int)) →
    a.map (castBits w) = b.map (castBits w) → a = b
  | [], [], _, _, _ => rfl
  | [], _ :: _, _, _, h => by simp at h
  | _ :: _, [], _, _, h => by simp at h
  | p :: a, q :: b, ha, hb, h => by
    simp only [List.map_cons, List.cons.injEq] at h
    obtain ⟨zp, rfl, hp⟩ := ha p List.mem_cons_self
    obtain ⟨zq, rfl, hq⟩ := hb q List.mem_cons_self
    rw [castBits_id w zp hp, castBits_id w zq hq] at h
    rw [h.1, map_castBits_inj w a b (fun o ho => ha o (List.mem_cons_of_mem _ ho))
      (fun o ho => hb o (List.mem_cons_of_mem _ ho)) h.2]

/-- **the cast key is faithful inside the representable range**: two arguments whose scaled
components all fit into W bits get the same W-bit key iff they round to the same (unbounded) key. -/
theorem keyCast_faithful (w s : Nat) (x x' : List β) (T T' : β)
    (h : InRange w s x T) (h' : InRange w s x' T') :
    keyCast w s x T = keyCast w s x' T' ↔ keyExact s x T = keyExact s x' T' := by
  rw [keyCast_eq_map, keyCast_eq_map]
  exact ⟨map_castBits_inj w _ _ h h', fun e => by rw [e]⟩

end faithful

/-! ### witnesses: the shipped code violated the clauses (exact decimal scalars, evaluated by `decide`) -/

/-- D-C09-int32: at sensitivity 10 the int32 keys of (x = 0.3, T = 1000) and (x = 0.9, T = 1500)
coincide (every component collapses to −2³¹) although the two do not round to the same key. -/
theorem shipped_int32_collision :
    keyCast 32 10 [(⟨3, 1⟩ : Dec)] ⟨1000, 0⟩ = keyCast 32 10 [(⟨9, 1⟩ : Dec)] ⟨1500, 0⟩ ∧
    keyExact 10 [(⟨3, 1⟩ : Dec)] ⟨1000, 0⟩ ≠ keyExact 10 [(⟨9, 1⟩ : Dec)] ⟨1500, 0⟩ := by
  decide

/-- … so the shipped table hands the value stored for (0.3, 1000) to a query at (0.9, 1500) … -/
theorem shipped_int32_wrong_reuse :
    outputs Cfg.shipped (keyCast 32) (init : Table (List Int) Nat)
      [Op.setSens 10, Op.add [(⟨3, 1⟩ : Dec)] ⟨1000, 0⟩ 7, Op.retrieve [(⟨9, 1⟩ : Dec)] ⟨1500, 0⟩]
      = [none, none, some 7] := by
  decide

/-- … while the repaired key (int64) keeps them apart. -/
theorem fixed_int64_no_reuse :
    outputs Cfg.fixed (keyCast 64) (init : Table (List Int) Nat)
      [Op.setSens 10, Op.add [(⟨3, 1⟩ : Dec)] ⟨1000, 0⟩ 7, Op.retrieve [(⟨9, 1⟩ : Dec)] ⟨1500, 0⟩]
      = [none, none, none] := by
  decide

/-- what remains after the repair: beyond 2⁶³ (here T·10¹⁶ ≥ 10¹⁹) the int64 cast collapses too -/
theorem int64_residual_collision :
    keyCast 64 16 [(⟨3, 1⟩ : Dec)] ⟨1000, 0⟩ = keyCast 64 16 [(⟨3, 1⟩ : Dec)] ⟨1500, 0⟩ ∧
    keyExact 16 [(⟨3, 1⟩ : Dec)] ⟨1000, 0⟩ ≠ keyExact 16 [(⟨3, 1⟩ : Dec)] ⟨1500, 0⟩ := by
  decide

/-- D-C09-cache-off: in the shipped code `enableCaching(False)` did not switch the cache off -/
theorem shipped_cannot_switch_off :
    outputs Cfg.shipped (keyCast 32) (init : Table (List Int) Nat)
      [Op.enable false, Op.add [(⟨3, 1⟩ : Dec)] ⟨1000, 0⟩ 7, Op.retrieve [(⟨3, 1⟩ : Dec)] ⟨1000, 0⟩]
      = [none, none, some 7] := by
  decide

/-- D-C09-sens-stale: the shipped `setHashSensitivity` kept the old entries, so a value stored for
(x = 0.3, T = 2000) at sensitivity 0 was returned for (x = 0.05, T = 200) at sensitivity 1, although
at the configured sensitivity 1 the two have different keys. -/
theorem shipped_sensitivity_stale :
    outputs Cfg.shipped (keyCast 64) (init : Table (List Int) Nat)
      [Op.setSens 0, Op.add [(⟨3, 1⟩ : Dec)] ⟨2000, 0⟩ 7, Op.setSens 1, Op.retrieve [(⟨5, 2⟩ : Dec)] ⟨200, 0⟩]
      = [none, none, none, some 7] ∧
    keyExact 1 [(⟨3, 1⟩ : Dec)] ⟨2000, 0⟩ ≠ keyExact 1 [(⟨5, 2⟩ : Dec)] ⟨200, 0⟩ := by
  decide

/-- the repaired code on the same sequence -/
theorem fixed_sensitivity_fresh :
    outputs Cfg.fixed (keyCast 64) (init : Table (List Int) Nat)
      [Op.setSens 0, Op.add [(⟨3, 1⟩ : Dec)] ⟨2000, 0⟩ 7, Op.setSens 1, Op.retrieve [(⟨5, 2⟩ : Dec)] ⟨200, 0⟩]
      = [none, none, none, none] := by
  decide

/-- non-vacuity: a hit does occur (same key, caching on) -/
example :
    outputs Cfg.fixed (keyCast 64) (init : Table (List Int) Nat)
      [Op.add [(⟨30001, 5⟩ : Dec)] ⟨1000, 0⟩ 7, Op.retrieve [(⟨30004, 5⟩ : Dec)] ⟨1000, 0⟩]
      = [none, some 7] := by
  decide

end hash

/-! ## 2. batching: the broadcasting helpers and the assembly of array queries -/
section broadcast
open KawinV.Broadcast

variable {α β γ ρ : Type}

/-- **equal lengths pass unchanged** -/
theorem matchLengths_eq (a : List β) (b : List γ) (h : a.length = b.length) :
    matchLengths a b = .ok (a, b) := by
  simp [matchLengths, h]

/-- **a singleton first argument is repeated** to the length of the second -/
theorem matchLengths_left (a0 : β) (b : List γ) (h : b.length ≠ 1) :
    matchLengths [a0] b = .ok (List.replicate b.length a0, b) := by
  have : ¬ ([a0].length = b.length) := by simpa using fun e => h e.symm
  unfold matchLengths
  rw [if_neg this]

/-- **a singleton second argument is repeated** to the length of the first -/
theorem matchLengths_right (a : List β) (b0 : γ) (h : a.length ≠ 1) :
    matchLengths a [b0] = .ok (a, List.replicate a.length b0) := by
  unfold matchLengths
  have h1 : ¬ (a.length = [b0].length) := by simpa using h
  rw [if_neg h1]
  match a, h with
  | [], _ => rfl
  | [_], h => simp at h
  | _ :: _ :: _, _ => rfl

/-- **unequal lengths, neither a singleton: rejected** — and only then -/
theorem matchLengths_error_iff (a : List β) (b : List γ) :
    (∃ e, matchLengths a b = .error e) ↔ a.length ≠ b.length ∧ a.length ≠ 1 ∧ b.length ≠ 1 := by
  unfold matchLengths
  by_cases h : a.length = b.length
  · simp [h]
  · rw [if_neg h]
    match a, b, h with
    | [a0], b, h => simp
    | [], [b0], h => simp
    | a0 :: a1 :: r, [b0], h => simp
    | [], [], h => simp at h
    | [], b0 :: b1 :: r, h => simp
    | a0 :: a1 :: r, [], h => simp
    | a0 :: a1 :: r, b0 :: b1 :: r', h => simpa using h

/-- **broadcasting yields equal lengths** -/
theorem matchLengths_lengths (a : List β) (b : List γ) (a' : List β) (b' : List γ)
    (h : matchLengths a b = .ok (a', b')) : a'.length = b'.length := by
  unfold matchLengths at h
  by_cases e : a.length = b.length
  · rw [if_pos e] at h; cases h; exact e
  · rw [if_neg e] at h
    match a, b, e, h with
    | [a0], b, e, h => simp at h; obtain ⟨rfl, rfl⟩ := h; simp
    | [], [b0], e, h => simp at h; obtain ⟨rfl, rfl⟩ := h; simp
    | a0 :: a1 :: r, [b0], e, h => simp at h; obtain ⟨rfl, rfl⟩ := h; simp
    | [], [], e, h => simp at e
    | [], b0 :: b1 :: r, e, h => simp at h
    | a0 :: a1 :: r, [], e, h => simp at h
    | a0 :: a1 :: r, b0 :: b1 :: r', e, h => simp at h

theorem processXT_lengths (x T : Arg α) (bin : Bool) (xs : List (List α)) (Ts : List α)
    (h : processXT x T bin = .ok (xs, Ts)) : xs.length = Ts.length := by
  unfold processXT at h
  cases hT : atleast1d T with
  | error e => simp [hT, bind, Except.bind] at h
  | ok T1 =>
    simp only [hT, bind, Except.bind] at h
    exact matchLengths_lengths _ _ _ _ h

theorem processTG_lengths (T g : Arg α) (Ts gs : List α)
    (h : processTG T g = .ok (Ts, gs)) : Ts.length = gs.length := by
  unfold processTG at h
  cases hT : atleast1d T with
  | error e => simp [hT, bind, Except.bind] at h
  | ok T1 =>
    cases hg : atleast1d g with
    | error e => simp [hT, hg, bind, Except.bind] at h
    | ok g1 =>
      simp only [hT, hg, bind, Except.bind] at h
      exact matchLengths_lengths _ _ _ _ h

/-- **every (x, T) array query is `map single` over the broadcast pairs** -/
theorem batchXT_eq_map (single : List α → α → ρ) (x T : Arg α) (bin : Bool)
    (xs : List (List α)) (Ts : List α) (h : processXT x T bin = .ok (xs, Ts)) :
    batchXT single x T bin = .ok ((xs.zip Ts).map (fun p => single p.1 p.2)) ∧
    ((xs.zip Ts).map (fun p => single p.1 p.2)).length = xs.length := by
  have hl := processXT_lengths x T bin xs Ts h
  simp [batchXT, h, bind, Except.bind, pure, Except.pure, hl]

/-- a point evaluated **alone** (one row, one temperature) … -/
theorem batchXT_alone (single : List α → α → ρ) (row : List α) (t : α) :
    batchXT single (.mat [row]) (.vec [t]) false = .ok [single row t] := by
  simp [batchXT, processXT, atleast2d, atleast1d, matchLengths, bind, Except.bind, pure, Except.pure]

/-- … and the same point **inside an array**: the i-th entry of the array answer is `single` at the
i-th broadcast pair, i.e. exactly what the point gives alone. -/
theorem batchXT_inside (single : List α → α → ρ) (x T : Arg α) (bin : Bool)
    (xs : List (List α)) (Ts : List α) (h : processXT x T bin = .ok (xs, Ts))
    (rs : List ρ) (hr : batchXT single x T bin = .ok rs) (i : Nat) (hi : i < xs.length) :
    ∃ (hi' : i < rs.length) (hT : i < Ts.length),
      batchXT single (.mat [xs[i]]) (.vec [Ts[i]]) false = .ok [rs[i]] := by
  have hl := processXT_lengths x T bin xs Ts h
  obtain ⟨h1, h2⟩ := batchXT_eq_map single x T bin xs Ts h
  rw [h1] at hr
  cases hr
  refine ⟨by rw [h2]; exact hi, by omega, ?_⟩
  rw [batchXT_alone]
  simp

/-- the same for a (T, gExtra) array query evaluated pair by pair -/
theorem batchTG_eq_map (single : α → α → ρ) (T g : Arg α) (Ts gs : List α)
    (h : processTG T g = .ok (Ts, gs)) :
    batchTG single T g = .ok ((Ts.zip gs).map (fun p => single p.1 p.2)) := by
  simp [batchTG, h, bind, Except.bind, pure, Except.pure]

/-- **stateful array query** (the caches are threaded through the points in order): if every single
query, from every state satisfying an invariant, returns `pureF` of its point and re-establishes the
invariant, the array answer is `map pureF` over the broadcast pairs — whatever the state was. -/
theorem batchXTState_pure {σ : Type} (single : σ → List α → α → ρ × σ) (Inv : σ → Prop)
    (pureF : List α → α → ρ)
    (hs : ∀ s a t, Inv s → (single s a t).1 = pureF a t ∧ Inv (single s a t).2)
    (s : σ) (hI : Inv s) (x T : Arg α) (bin : Bool) (xs : List (List α)) (Ts : List α)
    (h : processXT x T bin = .ok (xs, Ts)) :
    ∃ s', batchXTState single s x T bin = .ok ((xs.zip Ts).map (fun p => pureF p.1 p.2), s') ∧ Inv s' := by
  have key : ∀ (ps : List (List α × α)) (acc : List ρ) (s : σ), Inv s →
      ∃ s', ps.foldl (fun (acc : List ρ × σ) p =>
          let r := single acc.2 p.1 p.2; (acc.1 ++ [r.1], r.2)) (acc, s)
        = (acc ++ ps.map (fun p => pureF p.1 p.2), s') ∧ Inv s' := by
    intro ps
    induction ps with
    | nil => intro acc s hI; exact ⟨s, by simp, hI⟩
    | cons p r ih =>
      intro acc s hI
      obtain ⟨h1, h2⟩ := hs s p.1 p.2 hI
      obtain ⟨s', h3, h4⟩ := ih (acc ++ [pureF p.1 p.2]) (single s p.1 p.2).2 h2
      refine ⟨s', ?_, h4⟩
      simp only [List.foldl_cons, h1]
      rw [h3]; simp
  obtain ⟨s', h1, h2⟩ := key (xs.zip Ts) [] s hI
  refine ⟨s', ?_, h2⟩
  simp only [batchXTState, h, bind, Except.bind, pure, Except.pure]
  rw [h1]; simp

/-- `_process_x`: only the leading (reference) entry is ever dropped, and only for a full-length vector -/
theorem processX_spec (l : List α) (n : Nat) :
    processX (.vec l) n = .ok (if l.length = n then l.drop 1 else l) := by
  simp [processX, atleast1d, bind, Except.bind, pure, Except.pure]

/-- observation (not a purity issue): the hand-rolled broadcasting of
MulticomponentThermodynamics.getInterfacialComposition does NOT reject unequal lengths — a longer
temperature array is silently cut to the length of `gExtra`. -/
theorem multiIC_cuts_longer_T :
    multiICPairs (.vec [1, 2, 3]) (.vec [10, 20]) = (.ok [(1, 10), (2, 20)] : Except BErr (List (Nat × Nat))) := by
  decide

/-! ### arguments are not modified -/

/-- **the repaired `getInterfacialComposition` leaves the caller's `gExtra` untouched** -/
theorem binaryIC_arg_unchanged [Add α] [BEq α] (off : α) (T g : Arg α)
    (r : List (α × List α) × Arg α) (h : binaryIC false off T g = .ok r) : r.2 = g := by
  unfold binaryIC at h
  cases hT : atleast1d T with
  | error e => simp [hT, bind, Except.bind] at h
  | ok T1 =>
    cases hg : atleast1d g with
    | error e => simp [hT, hg, bind, Except.bind] at h
    | ok g1 =>
      cases hm : matchLengths T1 g1 with
      | error e => simp [hT, hg, hm, bind, Except.bind] at h
      | ok pr =>
        obtain ⟨Ts, gs⟩ := pr
        simp only [hT, hg, hm, bind, Except.bind, pure, Except.pure] at h
        cases Ts with
        | nil => simp at h; rw [← h]
        | cons t0 r0 =>
          simp only at h
          split at h
          · cases g <;> simp at h <;> rw [← h]
          · simp at h; rw [← h]

/-- D-C09-gextra: the shipped code added the offset to the caller's array, so repeating the call with
the same array object asked pycalphad for different GE values (0,100 → 1,101 the first time,
2,102 the second). -/
theorem shipped_gextra_in_place :
    binaryIC true 1 (.scalar 700) (.vec [0, 100])
      = (.ok ([(700, [1, 101])], .vec [1, 101]) : Except BErr (List (Nat × List Nat) × Arg Nat)) ∧
    binaryIC true 1 (.scalar 700) (.vec [1, 101])
      = (.ok ([(700, [2, 102])], .vec [2, 102]) : Except BErr (List (Nat × List Nat) × Arg Nat)) := by
  decide

/-- the repaired code on the same call -/
theorem fixed_gextra_copy :
    binaryIC false 1 (.scalar 700) (.vec [0, 100])
      = (.ok ([(700, [1, 101])], .vec [0, 100]) : Except BErr (List (Nat × List Nat) × Arg Nat)) := by
  decide

/-! ### the isothermal shortcut of BinaryThermodynamics.getInterfacialComposition -/

/-- the (T, GE) points a list of `_interfacialComposition` calls evaluates -/
def pointsOf {α : Type} (calls : List (α × List α)) : List (α × α) :=
  calls.flatMap (fun c => c.2.map (fun g => (c.1, g)))

theorem zip_const {α : Type} (t0 : α) : ∀ (Ts gs : List α), (∀ t ∈ Ts, t = t0) → Ts.length = gs.length →
    Ts.zip gs = gs.map (fun g => (t0, g))
  | [], [], _, _ => rfl
  | [], _ :: _, _, h => by simp at h
  | _ :: _, [], _, h => by simp at h
  | t :: Ts, g :: gs, ha, hl => by
    simp only [List.zip_cons_cons, List.map_cons]
    rw [ha t List.mem_cons_self, zip_const t0 Ts gs (fun u hu => ha u (List.mem_cons_of_mem _ hu)) (by simpa using hl)]

theorem pointsOf_singletons {α : Type} (f : α → α) : ∀ (ps : List (α × α)),
    pointsOf (ps.map (fun p => (p.1, [f p.2]))) = ps.map (fun p => (p.1, f p.2))
  | [] => rfl
  | q :: ps => by
    have ih := pointsOf_singletons f ps
    unfold pointsOf at ih ⊢
    simp only [List.map_cons, List.flatMap_cons, List.map_nil, List.singleton_append]
    rw [ih]

section shortcut
variable [Add α] [BEq α] [LawfulBEq α]

/-- what `binaryIC` does once the arguments are broadcast to `Ts`, `gs` -/
theorem binaryIC_unfold (ip : Bool) (off : α) (T g : Arg α) (Ts gs : List α)
    (hp : processTG T g = .ok (Ts, gs)) (r : List (α × List α) × Arg α) (h : binaryIC ip off T g = .ok r) :
    r.1 = match Ts with
      | [] => []
      | t0 :: _ => if Ts.all (fun t => t == t0) then [(t0, gs.map (· + off))]
                   else (Ts.zip gs).map (fun p => (p.1, [p.2 + off])) := by
  unfold processTG at hp
  unfold binaryIC at h
  cases hT : atleast1d T with
  | error e => simp [hT, bind, Except.bind] at hp
  | ok T1 =>
    cases hg : atleast1d g with
    | error e => simp [hT, hg, bind, Except.bind] at hp
    | ok g1 =>
      simp only [hT, hg, bind, Except.bind] at hp h
      rw [hp] at h
      simp only [pure, Except.pure] at h
      cases Ts with
      | nil => simp at h; rw [← h]
      | cons t0 rest =>
        simp only at h ⊢
        split at h
        · next hall => simp at h; rw [← h]; simp only [hall, if_true]
        · next hall => simp at h; rw [← h]; simp only [hall]; rfl

/-- **shortcut taken iff all temperatures are equal** (1): with one common temperature — however the
array is written: all equal, length 1, a scalar — there is ONE call, at that temperature, with the
whole GE array -/
theorem binaryIC_isothermal (ip : Bool) (off : α) (T g : Arg α) (t0 : α) (rest gs : List α)
    (hp : processTG T g = .ok (t0 :: rest, gs)) (hall : ∀ t ∈ rest, t = t0)
    (r : List (α × List α) × Arg α) (h : binaryIC ip off T g = .ok r) :
    r.1 = [(t0, gs.map (· + off))] := by
  rw [binaryIC_unfold ip off T g _ gs hp r h]
  have : (t0 :: rest).all (fun t => t == t0) = true := by
    simp only [List.all_cons, beq_self_eq_true, Bool.true_and, List.all_eq_true]
    intro t ht; rw [hall t ht]; exact beq_self_eq_true t0
  simp only [this, if_true]

/-- (2): as soon as ONE temperature differs from the first — wherever it sits, e.g. first = last ≠
middle — every point is evaluated on its own, at its own temperature -/
theorem binaryIC_nonisothermal (ip : Bool) (off : α) (T g : Arg α) (t0 : α) (rest gs : List α)
    (hp : processTG T g = .ok (t0 :: rest, gs)) (t : α) (ht : t ∈ rest) (hne : t ≠ t0)
    (r : List (α × List α) × Arg α) (h : binaryIC ip off T g = .ok r) :
    r.1 = ((t0 :: rest).zip gs).map (fun p => (p.1, [p.2 + off])) := by
  rw [binaryIC_unfold ip off T g _ gs hp r h]
  have : ¬ ((t0 :: rest).all (fun t => t == t0) = true) := by
    simp only [List.all_cons, beq_self_eq_true, Bool.true_and, List.all_eq_true, not_forall]
    exact ⟨t, ht, by simpa using hne⟩
  simp only [this, if_false]
  rfl

/-- **the shortcut equals the general path**: either way the (T, GE) points evaluated are exactly the
broadcast pairs, each GE shifted by the offset — so a point gives the same value alone and inside
an array, whatever the pattern of the temperature array -/
theorem binaryIC_points (ip : Bool) (off : α) (T g : Arg α) (Ts gs : List α)
    (hp : processTG T g = .ok (Ts, gs)) (r : List (α × List α) × Arg α) (h : binaryIC ip off T g = .ok r) :
    pointsOf r.1 = (Ts.zip gs).map (fun p => (p.1, p.2 + off)) := by
  have hl := processTG_lengths T g Ts gs hp
  rw [binaryIC_unfold ip off T g Ts gs hp r h]
  cases Ts with
  | nil => simp [pointsOf]
  | cons t0 rest =>
    simp only
    split
    · next hall =>
      have hall' : ∀ t ∈ t0 :: rest, t = t0 := by
        intro t ht
        have := List.all_eq_true.mp hall t ht
        exact eq_of_beq this
      rw [zip_const t0 _ gs hall' hl]
      simp [pointsOf, List.map_map, Function.comp_def]
    · exact pointsOf_singletons (· + off) _

end shortcut

/-- the temperature pattern of the seeded change: first = last ≠ middle is NOT isothermal -/
example : (binaryIC false 1 (.vec [673, 723, 673]) (.scalar 5000)).map (·.1)
    = (.ok [(673, [5001]), (723, [5001]), (673, [5001])] : Except BErr (List (Nat × List Nat))) := by decide
example : (binaryIC false 1 (.vec [673, 673, 673]) (.vec [0, 100, 500])).map (·.1)
    = (.ok [(673, [1, 101, 501])] : Except BErr (List (Nat × List Nat))) := by decide

/-- non-vacuity of the broadcasting hypotheses -/
example : processXT (.vec [1, 2]) (.vec [5, 6, 7]) false
    = (.ok ([[1, 2], [1, 2], [1, 2]], [5, 6, 7]) : Except BErr (List (List Nat) × List Nat)) := by decide
example : processXT (.vec [1, 2, 3]) (.scalar 5) true
    = (.ok ([[1], [2], [3]], [5, 5, 5]) : Except BErr (List (List Nat) × List Nat)) := by decide
example : processXT (.mat [[1, 2], [3, 4]]) (.vec [5, 6, 7]) false
    = (.error .lengthMismatch : Except BErr (List (List Nat) × List Nat)) := by decide

end broadcast

/-! ## 3. the cache state machine of the thermodynamics classes -/
section compset
open KawinV.CompSetCache

variable {Ph C β σ ρ τ π χ δ V D κ : Type} [DecidableEq Ph] [DecidableEq τ]
variable (E : Env Ph C β σ ρ τ π χ δ V D κ)

/-- a logged solver call is fine when every composition set handed to the solver carries the state
variables of the conditions of THAT call -/
def Refreshed (e : C × Option (List (CS β σ))) : Prop :=
  ∀ st, e.2 = some st → ∀ cs ∈ st, cs.sv = E.svOf e.1

def GoodCalls (s : St Ph C β σ τ π κ) : Prop := ∀ e ∈ s.calls, Refreshed E e
/-- sampled points were only ever used at the temperature they are tagged with -/
def GoodUsed (s : St Ph C β σ τ π κ) : Prop := ∀ u ∈ s.used, u.1 = u.2
/-- stored samples are the samples of their tag at the CURRENT sampling density -/
def PointsOK (s : St Ph C β σ τ π κ) : Prop :=
  ∀ p tag pts, s.points p = some (tag, pts) → pts = E.sample tag s.dens p

structure Inv (s : St Ph C β σ τ π κ) : Prop where
  calls : GoodCalls E s
  used : GoodUsed s
  points : PointsOK E s

/-- `s'` comes from `s` by steps that keep the sampling density and the invariant -/
def Pres (s s' : St Ph C β σ τ π κ) : Prop := s'.dens = s.dens ∧ (Inv E s → Inv E s')

theorem Pres.refl (s : St Ph C β σ τ π κ) : Pres E s s := ⟨rfl, id⟩

theorem Pres.trans {a b c : St Ph C β σ τ π κ} (h1 : Pres E a b) (h2 : Pres E b c) : Pres E a c :=
  ⟨h2.1.trans h1.1, fun h => h2.2 (h1.2 h)⟩

/-- updates of cache slots (and emptying of sample slots) keep everything -/
theorem pres_slots {s s' : St Ph C β σ τ π κ} (hc : s'.calls = s.calls) (hu : s'.used = s.used)
    (hd : s'.dens = s.dens) (hp : ∀ p, s'.points p = s.points p ∨ s'.points p = none) : Pres E s s' := by
  refine ⟨hd, fun h => ⟨?_, ?_, ?_⟩⟩
  · intro e he; rw [hc] at he; exact h.calls e he
  · intro u hu'; rw [hu] at hu'; exact h.used u hu'
  · intro p tag pts hpt
    rcases hp p with h1 | h1
    · rw [h1] at hpt; rw [hd]; exact h.points p tag pts hpt
    · rw [h1] at hpt; cases hpt

theorem inv_fresh (d : Nat) : Inv E (fresh d : St Ph C β σ τ π κ) :=
  ⟨by intro e he; simp [fresh] at he, by intro u hu; simp [fresh] at hu,
   by intro p tag pts h; simp [fresh] at h⟩

theorem pres_callSolve_none (s : St Ph C β σ τ π κ) (c : C) : Pres E s (callSolve E s c none).2 := by
  refine ⟨rfl, fun h => ⟨?_, h.used, h.points⟩⟩
  intro e he
  simp only [callSolve, List.mem_append, List.mem_singleton] at he
  rcases he with he | rfl
  · exact h.calls e he
  · intro st hst; cases hst

/-- **state variables refreshed** (one call): `local_equilibrium` hands the solver only composition
sets whose state variables are those of the current conditions -/
theorem pres_localEq (s : St Ph C β σ τ π κ) (c : C) (cached : Option (List (CS β σ))) :
    Pres E s (localEq E s c cached).2 := by
  refine ⟨rfl, fun h => ⟨?_, h.used, h.points⟩⟩
  intro e he
  simp only [localEq, callSolve, List.mem_append, List.mem_singleton] at he
  rcases he with he | rfl
  · exact h.calls e he
  · intro st hst cs hcs
    cases cached with
    | none => simp at hst
    | some sets =>
      simp only [Option.map_some, Option.some.injEq] at hst
      subst hst
      simp only [List.mem_map] at hcs
      obtain ⟨cs0, _, rfl⟩ := hcs
      rfl

/-- **sample cache coherence** (one use): points are reused only under their own tag, and what is
stored is the sample set of the tag at the current density -/
theorem pres_getSamples (s : St Ph C β σ τ π κ) (p : Ph) (T : τ) : Pres E s (getSamples E s p T).2 := by
  have fresh_case : Pres E s
      { s with points := upd s.points p (some (T, E.sample T s.dens p)), used := s.used ++ [(T, T)],
               sampled := s.sampled ++ [(T, s.dens)] } := by
    refine ⟨rfl, fun h => ⟨h.calls, ?_, ?_⟩⟩
    · intro u hu
      simp only [List.mem_append, List.mem_singleton] at hu
      rcases hu with hu | rfl
      · exact h.used u hu
      · rfl
    · intro q tag pts hq
      simp only [upd] at hq
      split at hq
      · next e => cases hq; subst e; rfl
      · exact h.points q tag pts hq
  unfold getSamples
  split
  · next tag pts hpt =>
    split
    · next e =>
      refine ⟨rfl, fun h => ⟨h.calls, ?_, h.points⟩⟩
      intro u hu
      simp only [List.mem_append, List.mem_singleton] at hu
      rcases hu with hu | rfl
      · exact h.used u hu
      · exact e
    · exact fresh_case
  · exact fresh_case

theorem pres_sampleDF (s : St Ph C β σ τ π κ) (p : Ph) (T : τ) (mu : ρ) : Pres E s (sampleDF E s p T mu).2 :=
  pres_getSamples E s p T

theorem pres_resetDF (s : St Ph C β σ τ π κ) (p : Ph) (rm : Bool) : Pres E s (resetDF s p rm) := by
  unfold resetDF
  split
  · refine pres_slots E rfl rfl rfl (fun q => ?_)
    simp only [upd]; split
    · right; rfl
    · left; rfl
  · exact Pres.refl E s

theorem pres_matrixEq (s : St Ph C β σ τ π κ) (x : χ) (T : τ) : Pres E s (matrixEq E s x T).2 :=
  (pres_localEq E s _ _).trans E (pres_slots E rfl rfl rfl (fun _ => Or.inl rfl))

theorem pres_dfSampling (s : St Ph C β σ τ π κ) (x : χ) (T : τ) (p : Ph) (rm : Bool) :
    Pres E s (dfSampling E s x T p rm).2 := by
  unfold dfSampling
  dsimp only
  split
  · exact ((pres_matrixEq E s x T).trans E (pres_sampleDF E _ p T _)).trans E (pres_resetDF E _ p rm)
  · exact pres_matrixEq E s x T

theorem pres_slot_df (u : St Ph C β σ τ π κ) (p : Ph) (c : Option (List (CS β σ))) :
    Pres E u { u with dfCache := upd u.dfCache p c } :=
  pres_slots E rfl rfl rfl (fun _ => Or.inl rfl)

theorem pres_ensurePrecSet (s : St Ph C β σ τ π κ) (p : Ph) (T : τ) (mu : ρ) :
    Pres E s (ensurePrecSet E s p T mu) := by
  unfold ensurePrecSet
  split
  · exact Pres.refl E s
  · exact (pres_sampleDF E s p T mu).trans E (pres_slot_df E _ p _)

theorem pres_dfTangentTail (s : St Ph C β σ τ π κ) (r : Res ρ β σ) (x : χ) (T : τ) (p : Ph) (rm : Bool) :
    Pres E s (dfTangentTail E s r x T p rm).2 := by
  have h1 := pres_ensurePrecSet E s p T r.out
  have h2 := pres_localEq E (ensurePrecSet E s p T r.out) (E.condMu T r.out p)
    ((ensurePrecSet E s p T r.out).dfCache p)
  have h3 := (h1.trans E h2).trans E (pres_slot_df E _ p (some
    (localEq E (ensurePrecSet E s p T r.out) (E.condMu T r.out p)
      ((ensurePrecSet E s p T r.out).dfCache p)).1.sets))
  unfold dfTangentTail
  dsimp only
  split
  · split
    · exact (h3.trans E (pres_slot_df E _ p none)).trans E (pres_dfSampling E _ x T p rm)
    · exact h3.trans E (pres_resetDF E _ p rm)
  · exact h3

theorem pres_dfTangent (s : St Ph C β σ τ π κ) (x : χ) (T : τ) (p : Ph) (rm : Bool) :
    Pres E s (dfTangent E s x T p rm).2 := by
  unfold dfTangent
  dsimp only
  split
  · exact (pres_matrixEq E s x T).trans E (pres_dfTangentTail E _ _ x T p rm)
  · exact pres_matrixEq E s x T

variable (cfg : Cfg)

theorem pres_updateSets (s : St Ph C β σ τ π κ) (x : χ) (T : τ) (p : Ph) (sets : List (CS β σ)) :
    Pres E s (updateSets E cfg s x T p sets).2 := pres_localEq E s _ _

theorem pres_compSetsTail (r : Res ρ β σ) (s : St Ph C β σ τ π κ) (x : χ) (T : τ) (p : Ph) :
    Pres E s (compSetsTail E cfg r s x T p).2 := by
  unfold compSetsTail
  dsimp only
  split
  · split
    · split
      · exact pres_updateSets E cfg s x T p _
      · exact Pres.refl E s
    · exact Pres.refl E s
  · exact Pres.refl E s

theorem pres_compSetsHead (s : St Ph C β σ τ π κ) (x : χ) (T : τ) (p : Ph) (cached : Option (List (CS β σ))) :
    Pres E s (compSetsHead E cfg s x T p cached).2 := by
  cases cached with
  | none => exact pres_callSolve_none E s _
  | some sets => exact pres_updateSets E cfg s x T p sets

theorem pres_compSetsEq (s : St Ph C β σ τ π κ) (x : χ) (T : τ) (p : Ph) (cached : Option (List (CS β σ))) :
    Pres E s (compSetsEq E cfg s x T p cached).2.1 :=
  (pres_compSetsHead E cfg s x T p cached).trans E (pres_compSetsTail E cfg _ _ x T p)

theorem pres_search (x : χ) (T : τ) (p : Ph) (dir : χ) :
    ∀ (n : Nat) (cur : χ) (s : St Ph C β σ τ π κ), Pres E s (search E cfg x T p dir n cur s).2
  | 0, _, s => Pres.refl E s
  | n + 1, cur, s => by
    have h0 := pres_compSetsEq E cfg s cur T p none
    unfold search
    dsimp only
    split
    · exact h0
    · exact h0
    · exact h0.trans E (pres_search x T p dir n _ _)
    · exact h0.trans E (pres_search x T p dir n _ _)

theorem pres_curvInvalid (s : St Ph C β σ τ π κ) (p : Ph) (rm : Bool) : Pres E s (curvInvalid s p rm).2 := by
  have : Pres E s (if rm = true then { s with curvCache := upd s.curvCache p none } else s) := by
    split
    · exact pres_slots E rfl rfl rfl (fun _ => Or.inl rfl)
    · exact Pres.refl E s
  unfold curvInvalid
  dsimp only
  split <;> exact this

theorem pres_curvFinish (s : St Ph C β σ τ π κ) (p : Ph) (rm : Bool) (mu : ρ) (m pr : CS β σ) :
    Pres E s (curvFinish E s p rm mu m pr).2 :=
  pres_slots E rfl rfl rfl (fun _ => Or.inl rfl)

theorem pres_aliasCurv (s : St Ph C β σ τ π κ) (p : Ph) (l : Option (List (CS β σ))) :
    Pres E s (aliasCurv s p l) := by
  cases l with
  | none => exact Pres.refl E s
  | some l => exact pres_slots E rfl rfl rfl (fun _ => Or.inl rfl)

theorem pres_curvature (s : St Ph C β σ τ π κ) (x : χ) (T : τ) (p : Ph) (rm : Bool) (dir : Option χ) :
    Pres E s (curvature E cfg s x T p rm dir).2 := by
  have h0 := (pres_compSetsEq E cfg s x T p (s.curvCache p)).trans E
    (pres_aliasCurv E _ p (compSetsEq E cfg s x T p (s.curvCache p)).2.2)
  unfold curvature
  dsimp only
  split
  · exact h0.trans E (pres_curvInvalid E _ p rm)
  · exact h0.trans E (pres_curvFinish E _ p rm _ _ _)
  · split
    · exact h0.trans E (pres_curvInvalid E _ p rm)
    · split
      · exact (h0.trans E (pres_search E cfg x T p _ _ _ _)).trans E (pres_curvInvalid E _ p rm)
      · exact (h0.trans E (pres_search E cfg x T p _ _ _ _)).trans E (pres_curvFinish E _ p rm _ _ _)

theorem pres_dfEqBased (approx : Bool) (s : St Ph C β σ τ π κ) (x : χ) (T : τ) (p : Ph) (rm : Bool) :
    Pres E s (dfEqBased E cfg approx s x T p rm).2 := by
  have h0 := pres_compSetsEq E cfg s x T p (s.dfCache p)
  unfold dfEqBased
  dsimp only
  split
  · split
    · split
      · exact ((h0.trans E (pres_slot_df E _ p _)).trans E (pres_matrixEq E _ x T)).trans E (pres_resetDF E _ p rm)
      · exact (h0.trans E (pres_slot_df E _ p _)).trans E (pres_matrixEq E _ x T)
    · exact (h0.trans E (pres_slot_df E _ p _)).trans E (pres_resetDF E _ p rm)
  · exact (h0.trans E (pres_slot_df E _ p _)).trans E (pres_dfSampling E _ x T p rm)

theorem pres_diffSingle (post : Res ρ β σ → D) (s : St Ph C β σ τ π κ) (x : χ) (T : τ) (ph : Ph) (rm : Bool) :
    Pres E s (diffSingle E post s x T ph rm).2 :=
  (pres_localEq E s _ _).trans E (pres_slots E rfl rfl rfl (fun _ => Or.inl rfl))

theorem pres_drivingForce (m : DFMethod) (s : St Ph C β σ τ π κ) (x : χ) (T : τ) (p : Ph) (rm : Bool) :
    Pres E s (drivingForce E cfg m s x T p rm).2 := by
  cases m
  · exact pres_dfTangent E s x T p rm
  · exact pres_dfSampling E s x T p rm
  · exact pres_dfEqBased E cfg true s x T p rm
  · exact pres_dfEqBased E cfg false s x T p rm

/-- every public call keeps the invariant (changing the sampling density empties the sample cache,
which is what keeps `PointsOK` true at the new density) -/
theorem inv_runQuery (ip tp : Res ρ β σ → D) (s : St Ph C β σ τ π κ) (h : Inv E s) (q : Query Ph τ χ) :
    Inv E (runQuery E cfg ip tp s q).2 := by
  cases q with
  | interdiff x T ph rm => exact (pres_diffSingle E ip s x T ph rm).2 h
  | tracer x T ph rm => exact (pres_diffSingle E tp s x T ph rm).2 h
  | df m x T p rm => exact (pres_drivingForce E cfg m s x T p rm).2 h
  | curv x T p rm dir => exact (pres_curvature E cfg s x T p rm dir).2 h
  | ic x T ge p => exact (pres_callSolve_none E s _).2 h
  | setDens d =>
    exact ⟨h.calls, h.used, by intro p tag pts hp; simp [runQuery, setDens] at hp⟩
  | clear =>
    exact ⟨h.calls, h.used, by intro p tag pts hp; simp [runQuery, clearCache] at hp⟩
  | setMethod => exact ⟨h.calls, h.used, h.points⟩

theorem inv_runAll (ip tp : Res ρ β σ → D) :
    ∀ (hist : List (Query Ph τ χ)) (s : St Ph C β σ τ π κ), Inv E s → Inv E (runAll E cfg ip tp s hist)
  | [], s, h => h
  | q :: r, s, h => inv_runAll ip tp r _ (inv_runQuery E cfg ip tp s h q)

/-- **state variables refreshed — every history**: in every sequence of public calls on a new object,
every solver call that received cached composition sets received them with the state variables
(GE, N, P, T) of its own conditions. -/
theorem calls_refreshed_for_every_history (ip tp : Res ρ β σ → D) (d : Nat) (hist : List (Query Ph τ χ)) :
    ∀ e ∈ (runAll E cfg ip tp (fresh d) hist).calls, ∀ st, e.2 = some st → ∀ cs ∈ st, cs.sv = E.svOf e.1 :=
  (inv_runAll E cfg ip tp hist _ (inv_fresh E d)).calls

/-- **sample cache coherence — every history**: whenever sampled points were used, their tag was the
temperature of the query; and the stored points are always those of the current density. -/
theorem samples_coherent_for_every_history (ip tp : Res ρ β σ → D) (d : Nat) (hist : List (Query Ph τ χ)) :
    (∀ u ∈ (runAll E cfg ip tp (fresh d) hist).used, u.1 = u.2) ∧
    PointsOK E (runAll E cfg ip tp (fresh d) hist) :=
  ⟨(inv_runAll E cfg ip tp hist _ (inv_fresh E d)).used, (inv_runAll E cfg ip tp hist _ (inv_fresh E d)).points⟩

/-- **changing the sampling density empties the sample cache** -/
theorem setDens_empties (s : St Ph C β σ τ π κ) (d : Nat) (p : Ph) :
    (setDens s d).points p = none ∧ (setDens s d).dens = d := ⟨rfl, rfl⟩

end compset

/-! ### conditional purity: if the solver does not depend on its starting point … -/
section purity
open KawinV.CompSetCache

variable {Ph C β σ ρ τ π χ δ V D κ : Type} [DecidableEq Ph] [DecidableEq τ]
variable (E : Env Ph C β σ ρ τ π χ δ V D κ)

/-! what each query computes when every equilibrium is computed without a supplied start: functions
of the arguments (and of the configured sampling density `d`) only -/

def matrixPure (x : χ) (T : τ) : Res ρ β σ := E.solve (E.condLocal x T E.matrix) none

def dfSamplingPure (d : Nat) (x : χ) (T : τ) (p : Ph) : Option V :=
  if E.valid (matrixPure E x T).out then
    some (E.dfOfSample (E.pick (E.sample T d p) (matrixPure E x T).out T).1
                       (E.pick (E.sample T d p) (matrixPure E x T).out T).2)
  else none

def dfTangentPure (d : Nat) (x : χ) (T : τ) (p : Ph) : Option V :=
  if E.valid (matrixPure E x T).out then
    if E.valid (E.solve (E.condMu T (matrixPure E x T).out p) none).out then
      if E.degenerate (E.solve (E.condMu T (matrixPure E x T).out p) none).sets (matrixPure E x T).sets then
        dfSamplingPure E d x T p
      else some (E.dfOfTangent (E.solve (E.condMu T (matrixPure E x T).out p) none))
    else none
  else none

def compSetsPure (x : χ) (T : τ) (p : Ph) : Option (ρ × Option (CS β σ) × Option (CS β σ)) :=
  if E.valid (E.solve (E.condEq x T p true) none).out then
    some ((E.solve (E.condEq x T p true) none).out,
          (E.split (E.solve (E.condEq x T p true) none).sets p).1,
          (E.split (E.solve (E.condEq x T p true) none).sets p).2.1)
  else none

def searchPure (x : χ) (T : τ) (p : Ph) (dir : χ) : Nat → χ → Option (ρ × CS β σ × CS β σ)
  | 0, _ => none
  | n + 1, cur =>
    match compSetsPure E cur T p with
    | none => none
    | some (mu, some m, some pr) => some (mu, m, pr)
    | some (_, _, none) => searchPure x T p dir n (E.mid cur dir)
    | some (_, none, some _) => searchPure x T p dir n (E.mid cur x)

def curvaturePure (x : χ) (T : τ) (p : Ph) (dir : Option χ) : Option κ :=
  match compSetsPure E x T p with
  | none => none
  | some (mu, some m, some pr) => some (E.curvOf mu m pr none)
  | some (_, _, _) =>
    match dir with
    | none => none
    | some d =>
      match searchPure E x T p d 15 (E.mid x d) with
      | none => none
      | some (mu, m, pr) => some (E.curvOf mu m pr none)

def dfEqBasedPure (approx : Bool) (d : Nat) (x : χ) (T : τ) (p : Ph) : Option V :=
  match compSetsPure E x T p with
  | some (mu, some m, some pr) =>
    if approx then
      if E.valid (matrixPure E x T).out then some (E.dfOfApprox pr (matrixPure E x T).out mu) else none
    else some (E.dfOfCurv x mu m pr)
  | _ => dfSamplingPure E d x T p

def drivingForcePure (m : DFMethod) (d : Nat) (x : χ) (T : τ) (p : Ph) : Option V :=
  match m with
  | .tangent => dfTangentPure E d x T p
  | .sampling => dfSamplingPure E d x T p
  | .approximate => dfEqBasedPure E true d x T p
  | .curvature => dfEqBasedPure E false d x T p

/-- the hypothesis (never an axiom): the solver's answer does not depend on the start it is given -/
def StartIndependent : Prop := ∀ c a b, E.solve c a = E.solve c b

variable (hs : StartIndependent E)
include hs

theorem localEq_res (s : St Ph C β σ τ π κ) (c : C) (cached : Option (List (CS β σ))) :
    (localEq E s c cached).1 = E.solve c none := hs c _ _

theorem matrixEq_res (s : St Ph C β σ τ π κ) (x : χ) (T : τ) : (matrixEq E s x T).1 = matrixPure E x T :=
  hs _ _ _

omit hs in
theorem getSamples_res (s : St Ph C β σ τ π κ) (h : PointsOK E s) (p : Ph) (T : τ) :
    (getSamples E s p T).1 = E.sample T s.dens p := by
  unfold getSamples
  split
  · next tag pts hpt =>
    split
    · next e => subst e; exact h p tag pts hpt
    · rfl
  · rfl

theorem dfSampling_res (s : St Ph C β σ τ π κ) (h : Inv E s) (x : χ) (T : τ) (p : Ph) (rm : Bool) :
    (dfSampling E s x T p rm).1 = dfSamplingPure E s.dens x T p := by
  have hm := pres_matrixEq E s x T
  have hp := getSamples_res E (matrixEq E s x T).2 (hm.2 h).points p T
  unfold dfSampling dfSamplingPure
  dsimp only
  rw [matrixEq_res E hs]
  split
  · simp only [sampleDF, hp, hm.1, matrixEq_res E hs]
  · rfl

omit hs in
theorem ensurePrecSet_dens (s : St Ph C β σ τ π κ) (p : Ph) (T : τ) (mu : ρ) :
    (ensurePrecSet E s p T mu).dens = s.dens := (pres_ensurePrecSet E s p T mu).1

theorem dfSampling_res' (s : St Ph C β σ τ π κ) (h : Inv E s) (d : Nat) (hd : s.dens = d)
    (x : χ) (T : τ) (p : Ph) (rm : Bool) :
    (dfSampling E s x T p rm).1 = dfSamplingPure E d x T p := by
  rw [dfSampling_res E hs s h, hd]

theorem dfTangentTail_res (s : St Ph C β σ τ π κ) (h : Inv E s) (x : χ) (T : τ) (p : Ph) (rm : Bool) :
    (dfTangentTail E s (matrixPure E x T) x T p rm).1 =
      if E.valid (E.solve (E.condMu T (matrixPure E x T).out p) none).out then
        if E.degenerate (E.solve (E.condMu T (matrixPure E x T).out p) none).sets (matrixPure E x T).sets then
          dfSamplingPure E s.dens x T p
        else some (E.dfOfTangent (E.solve (E.condMu T (matrixPure E x T).out p) none))
      else none := by
  have h1 := pres_ensurePrecSet E s p T (matrixPure E x T).out
  have h2 := pres_localEq E (ensurePrecSet E s p T (matrixPure E x T).out)
    (E.condMu T (matrixPure E x T).out p) ((ensurePrecSet E s p T (matrixPure E x T).out).dfCache p)
  have h12 := h1.trans E h2
  unfold dfTangentTail
  dsimp only
  rw [localEq_res E hs]
  split
  · split
    · apply dfSampling_res' E hs
      · refine (Pres.trans E h12 ?_).2 h
        exact pres_slots E rfl rfl rfl (fun _ => Or.inl rfl)
      · refine (Pres.trans E h12 ?_).1
        exact pres_slots E rfl rfl rfl (fun _ => Or.inl rfl)
    · rfl
  · rfl

theorem dfTangent_res (s : St Ph C β σ τ π κ) (h : Inv E s) (x : χ) (T : τ) (p : Ph) (rm : Bool) :
    (dfTangent E s x T p rm).1 = dfTangentPure E s.dens x T p := by
  have hm := pres_matrixEq E s x T
  unfold dfTangent dfTangentPure
  dsimp only
  rw [matrixEq_res E hs]
  split
  · rw [dfTangentTail_res E hs _ (hm.2 h), hm.1]
  · rfl

theorem compSetsHead_res (s : St Ph C β σ τ π κ) (x : χ) (T : τ) (p : Ph) (cached : Option (List (CS β σ))) :
    (compSetsHead E Cfg.fixed s x T p cached).1 = E.solve (E.condEq x T p true) none := by
  cases cached with
  | none => rfl
  | some sets => exact hs _ _ _

theorem compSetsTail_res (s : St Ph C β σ τ π κ) (x : χ) (T : τ) (p : Ph) :
    (compSetsTail E Cfg.fixed (E.solve (E.condEq x T p true) none) s x T p).1 = compSetsPure E x T p := by
  unfold compSetsTail compSetsPure
  dsimp only
  split
  · split
    · next m pr h1 h2 =>
      split
      · have : (updateSets E Cfg.fixed s x T p [m, pr]).1 = E.solve (E.condEq x T p true) none := hs _ _ _
        rw [this]
      · rw [h1, h2]
    · rfl
  · rfl

theorem compSetsEq_res (s : St Ph C β σ τ π κ) (x : χ) (T : τ) (p : Ph) (cached : Option (List (CS β σ))) :
    (compSetsEq E Cfg.fixed s x T p cached).1 = compSetsPure E x T p := by
  unfold compSetsEq
  dsimp only
  rw [compSetsHead_res E hs, compSetsTail_res E hs]

theorem search_res (x : χ) (T : τ) (p : Ph) (dir : χ) :
    ∀ (n : Nat) (cur : χ) (s : St Ph C β σ τ π κ),
      (search E Cfg.fixed x T p dir n cur s).1 = searchPure E x T p dir n cur
  | 0, _, _ => rfl
  | n + 1, cur, s => by
    unfold search searchPure
    dsimp only
    rw [compSetsEq_res E hs]
    rcases compSetsPure E cur T p with _ | ⟨mu, m, pr⟩
    · rfl
    · cases m <;> cases pr <;> first | rfl | exact search_res x T p dir n _ _

theorem dfEqBased_res (approx : Bool) (s : St Ph C β σ τ π κ) (h : Inv E s) (x : χ) (T : τ) (p : Ph) (rm : Bool) :
    (dfEqBased E Cfg.fixed approx s x T p rm).1 = dfEqBasedPure E approx s.dens x T p := by
  have h0 := pres_compSetsEq E Cfg.fixed s x T p (s.dfCache p)
  have hsamp := dfSampling_res' E hs _ ((h0.trans E (pres_slot_df E _ p none)).2 h) _
      (h0.trans E (pres_slot_df E _ p none)).1 x T p rm
  unfold dfEqBased dfEqBasedPure
  dsimp only
  rw [compSetsEq_res E hs]
  rcases compSetsPure E x T p with _ | ⟨mu, m, pr⟩
  · exact hsamp
  · cases m with
    | none => exact hsamp
    | some m =>
      cases pr with
      | none => exact hsamp
      | some pr =>
        dsimp only
        cases approx
        · rfl
        · simp only [if_true]
          rw [matrixEq_res E hs]
          split <;> rfl

theorem drivingForce_res (m : DFMethod) (s : St Ph C β σ τ π κ) (h : Inv E s) (x : χ) (T : τ) (p : Ph) (rm : Bool) :
    (drivingForce E Cfg.fixed m s x T p rm).1 = drivingForcePure E m s.dens x T p := by
  cases m
  · exact dfTangent_res E hs s h x T p rm
  · exact dfSampling_res E hs s h x T p rm
  · exact dfEqBased_res E hs true s h x T p rm
  · exact dfEqBased_res E hs false s h x T p rm

theorem diffSingle_res (post : Res ρ β σ → D) (s : St Ph C β σ τ π κ) (x : χ) (T : τ) (ph : Ph) (rm : Bool) :
    (diffSingle E post s x T ph rm).1 = post (E.solve (E.condLocal x T ph) none) := by
  unfold diffSingle
  dsimp only
  rw [localEq_res E hs]

/-! frame: the equilibrium helpers never touch the curvature slots -/

/-- the curvature slots are untouched -/
def SameCurv (s s' : St Ph C β σ τ π κ) : Prop := s'.curvCache = s.curvCache ∧ s'.curvOut = s.curvOut

omit hs in
theorem SameCurv.trans {a b c : St Ph C β σ τ π κ} (h1 : SameCurv a b) (h2 : SameCurv b c) : SameCurv a c :=
  ⟨h2.1.trans h1.1, h2.2.trans h1.2⟩

omit hs in
theorem sameCurv_compSetsTail (cfg : Cfg) (r : Res ρ β σ) (s : St Ph C β σ τ π κ) (x : χ) (T : τ) (p : Ph) :
    SameCurv s (compSetsTail E cfg r s x T p).2 := by
  unfold compSetsTail
  dsimp only
  split
  · split
    · split
      · exact ⟨rfl, rfl⟩
      · exact ⟨rfl, rfl⟩
    · exact ⟨rfl, rfl⟩
  · exact ⟨rfl, rfl⟩

omit hs in
theorem compSetsEq_frame (cfg : Cfg) (s : St Ph C β σ τ π κ) (x : χ) (T : τ) (p : Ph) (cached : Option (List (CS β σ))) :
    (compSetsEq E cfg s x T p cached).2.1.curvCache = s.curvCache ∧
    (compSetsEq E cfg s x T p cached).2.1.curvOut = s.curvOut := by
  have h1 : SameCurv s (compSetsHead E cfg s x T p cached).2 := by
    cases cached <;> exact ⟨rfl, rfl⟩
  exact h1.trans (sameCurv_compSetsTail E cfg _ _ x T p)

omit hs in
theorem search_frame (cfg : Cfg) (x : χ) (T : τ) (p : Ph) (dir : χ) :
    ∀ (n : Nat) (cur : χ) (s : St Ph C β σ τ π κ),
      (search E cfg x T p dir n cur s).2.curvCache = s.curvCache ∧
      (search E cfg x T p dir n cur s).2.curvOut = s.curvOut
  | 0, _, _ => ⟨rfl, rfl⟩
  | n + 1, cur, s => by
    have h0 := compSetsEq_frame E cfg s cur T p none
    unfold search
    dsimp only
    split
    · exact h0
    · exact h0
    · have := search_frame cfg x T p dir n (E.mid cur dir) (compSetsEq E cfg s cur T p none).2.1
      exact ⟨this.1.trans h0.1, this.2.trans h0.2⟩
    · have := search_frame cfg x T p dir n (E.mid cur x) (compSetsEq E cfg s cur T p none).2.1
      exact ⟨this.1.trans h0.1, this.2.trans h0.2⟩

omit hs in
theorem aliasCurv_slots (u s : St Ph C β σ τ π κ) (p : Ph) (l : Option (List (CS β σ)))
    (hu : u.curvCache = s.curvCache ∧ u.curvOut = s.curvOut) (hl : l.isSome = (s.curvCache p).isSome) :
    (aliasCurv u p l).curvOut = s.curvOut ∧
    ((aliasCurv u p l).curvCache p = none ↔ s.curvCache p = none) := by
  cases l with
  | none =>
    simp only [aliasCurv, hu.1, hu.2, true_and]
  | some l =>
    simp only [aliasCurv, hu.2, true_and, upd, if_true]
    cases h : s.curvCache p with
    | none => simp [h] at hl
    | some _ => simp

omit hs in
/-- the answer of `curvInvalid` in terms of the slots -/
theorem curvInvalid_res (s : St Ph C β σ τ π κ) (p : Ph) (rm : Bool) :
    (curvInvalid s p rm).1 = if rm = true ∨ s.curvCache p = none then none else s.curvOut p := by
  unfold curvInvalid
  dsimp only
  cases rm
  · simp only [Bool.false_eq_true, if_false, false_or]
    cases h : s.curvCache p <;> simp
  · simp [upd]

/-- **curvature factors, exact characterisation** (repaired code, start-independent solver, and
`curvOf` not depending on the previous output, i.e. the impingement sum is not exactly 0):
whenever the equilibrium at the arguments yields a two-phase result the answer is a function of the
arguments only; when it does not, the answer is `none` on a new object or with removeCache, but the
PREVIOUS output on an object that still holds a cached equilibrium (kawin's documented fallback —
finding `curvature-fallback`). -/
theorem curvature_res (hb : ∀ mu m pr a b, E.curvOf mu m pr a = E.curvOf mu m pr b)
    (s : St Ph C β σ τ π κ) (x : χ) (T : τ) (p : Ph) (rm : Bool) (dir : Option χ) :
    (curvature E Cfg.fixed s x T p rm dir).1 =
      match curvaturePure E x T p dir with
      | some k => some k
      | none => if rm = true ∨ s.curvCache p = none then none else s.curvOut p := by
  have hal := aliasCurv_slots (compSetsEq E Cfg.fixed s x T p (s.curvCache p)).2.1 s p
    (compSetsEq E Cfg.fixed s x T p (s.curvCache p)).2.2
    (compSetsEq_frame E Cfg.fixed s x T p (s.curvCache p))
    (by cases h : s.curvCache p <;> simp [compSetsEq, h])
  unfold curvature curvaturePure
  dsimp only
  rw [compSetsEq_res E hs]
  have hinv : (curvInvalid (aliasCurv (compSetsEq E Cfg.fixed s x T p (s.curvCache p)).2.1 p
        (compSetsEq E Cfg.fixed s x T p (s.curvCache p)).2.2) p rm).1
      = if rm = true ∨ s.curvCache p = none then none else s.curvOut p := by
    rw [curvInvalid_res, hal.1]
    simp only [hal.2]
  rcases compSetsPure E x T p with _ | ⟨mu, m, pr⟩
  · exact hinv
  · have tail : ∀ (d : χ),
        (match (search E Cfg.fixed x T p d 15 (E.mid x d)
            (aliasCurv (compSetsEq E Cfg.fixed s x T p (s.curvCache p)).2.1 p
              (compSetsEq E Cfg.fixed s x T p (s.curvCache p)).2.2)).1 with
          | none => curvInvalid (search E Cfg.fixed x T p d 15 (E.mid x d)
              (aliasCurv (compSetsEq E Cfg.fixed s x T p (s.curvCache p)).2.1 p
                (compSetsEq E Cfg.fixed s x T p (s.curvCache p)).2.2)).2 p rm
          | some (mu, m, pr) => curvFinish E (search E Cfg.fixed x T p d 15 (E.mid x d)
              (aliasCurv (compSetsEq E Cfg.fixed s x T p (s.curvCache p)).2.1 p
                (compSetsEq E Cfg.fixed s x T p (s.curvCache p)).2.2)).2 p rm mu m pr).1
        = match (match searchPure E x T p d 15 (E.mid x d) with
            | none => none
            | some (mu, m, pr) => some (E.curvOf mu m pr none)) with
          | some k => some k
          | none => if rm = true ∨ s.curvCache p = none then none else s.curvOut p := by
      intro d
      have hsf := search_frame E Cfg.fixed x T p d 15 (E.mid x d)
        (aliasCurv (compSetsEq E Cfg.fixed s x T p (s.curvCache p)).2.1 p
          (compSetsEq E Cfg.fixed s x T p (s.curvCache p)).2.2)
      rw [search_res E hs]
      rcases searchPure E x T p d 15 (E.mid x d) with _ | ⟨mu', m', pr'⟩
      · dsimp only
        rw [curvInvalid_res, hsf.2, hal.1, hsf.1]
        simp only [hal.2]
      · dsimp only [curvFinish]
        rw [hb _ _ _ _ none]
    cases m with
    | none =>
      cases dir with
      | none => exact hinv
      | some d => exact tail d
    | some m =>
      cases pr with
      | none =>
        cases dir with
        | none => exact hinv
        | some d => exact tail d
      | some pr =>
        dsimp only [curvFinish]
        rw [hb _ _ _ _ none]

end purity

/-! ### the clauses for whole histories -/
section final
open KawinV.CompSetCache KawinV.Broadcast

variable {Ph C β σ ρ τ π χ δ V D κ : Type} [DecidableEq Ph] [DecidableEq τ]
variable (E : Env Ph C β σ ρ τ π χ δ V D κ)

/-- **conditional purity, every query history** (repaired code).  IF the solver's answer does not
depend on the starting point it is given (hypothesis `hs`; for the real pycalphad this is the monitored
part) and `curvOf` does not use the previous output (`hb`: impingement sum ≠ 0), THEN after ANY
sequence of public calls — any orders, repetitions, temperature jumps, removeCache on or off, density
changes, clearCache — the next call returns exactly what it returns on a new object with the same
sampling density: interdiffusivity, tracer diffusivity, driving force (all four methods),
multicomponent interfacial composition, and the curvature factors whenever the equilibrium at the
arguments gives a two-phase result or removeCache is set (the remaining case is kawin's
previous-output fallback, see `curvature_res` and `curvature_fallback_depends_on_history`). -/
theorem purity_for_every_history (hs : StartIndependent E)
    (hb : ∀ mu m pr a b, E.curvOf mu m pr a = E.curvOf mu m pr b)
    (ip tp : Res ρ β σ → D) (d : Nat) (hist : List (Query Ph τ χ)) (q : Query Ph τ χ)
    (hq : ∀ x T p rm dir, q = .curv x T p rm dir → rm = true ∨ (curvaturePure E x T p dir).isSome) :
    (runQuery E Cfg.fixed ip tp (runAll E Cfg.fixed ip tp (fresh d) hist) q).1 =
    (runQuery E Cfg.fixed ip tp (fresh (runAll E Cfg.fixed ip tp (fresh d) hist).dens) q).1 := by
  have hw := inv_runAll E Cfg.fixed ip tp hist _ (inv_fresh E d)
  have hf := inv_fresh (κ := κ) E (runAll E Cfg.fixed ip tp (fresh d) hist).dens
  cases q with
  | interdiff x T ph rm =>
    show Ans.diff _ = Ans.diff _
    rw [diffSingle_res E hs, diffSingle_res E hs]
  | tracer x T ph rm =>
    show Ans.diff _ = Ans.diff _
    rw [diffSingle_res E hs, diffSingle_res E hs]
  | df m x T p rm =>
    show Ans.df _ = Ans.df _
    rw [drivingForce_res E hs m _ hw, drivingForce_res E hs m _ hf]
    rfl
  | curv x T p rm dir =>
    show Ans.curv _ = Ans.curv _
    rw [curvature_res E hs hb, curvature_res E hs hb]
    rcases hq x T p rm dir rfl with h | h
    · subst h; cases curvaturePure E x T p dir <;> simp
    · cases hc : curvaturePure E x T p dir with
      | none => simp [hc] at h
      | some k => rfl
  | ic x T ge p => rfl
  | setDens d' => rfl
  | clear => rfl
  | setMethod => rfl

/-- … and the values themselves are the explicit functions of the arguments defined above -/
theorem query_values (hs : StartIndependent E) (ip tp : Res ρ β σ → D) (d : Nat) (hist : List (Query Ph τ χ)) :
    let w := runAll E Cfg.fixed ip tp (fresh d) hist
    (∀ x T ph rm, (diffSingle E ip w x T ph rm).1 = ip (E.solve (E.condLocal x T ph) none)) ∧
    (∀ x T ph rm, (diffSingle E tp w x T ph rm).1 = tp (E.solve (E.condLocal x T ph) none)) ∧
    (∀ m x T p rm, (drivingForce E Cfg.fixed m w x T p rm).1 = drivingForcePure E m w.dens x T p) ∧
    (∀ x T ge p, (interfacialMulti E w x T ge p).1 = E.solve (E.condIC x T ge p) none) := by
  intro w
  have hw : Inv E w := inv_runAll E Cfg.fixed ip tp hist _ (inv_fresh E d)
  exact ⟨fun x T ph rm => diffSingle_res E hs ip w x T ph rm, fun x T ph rm => diffSingle_res E hs tp w x T ph rm,
    fun m x T p rm => drivingForce_res E hs m w hw x T p rm, fun _ _ _ _ => rfl⟩

/-! ### removeCache -/

/-- **removeCache, diffusivities**: after an interdiffusivity / tracer query with `removeCache = True`
the diffusivity cache of that phase holds nothing -/
theorem removeCache_diff (post : Res ρ β σ → D) (s : St Ph C β σ τ π κ) (x : χ) (T : τ) (ph : Ph) :
    (diffSingle E post s x T ph true).2.diffCache ph = none := by
  simp [diffSingle, upd]

/-- the driving-force caches of `p` are empty -/
def DFCleared (s : St Ph C β σ τ π κ) (p : Ph) : Prop :=
  s.dfCache p = none ∧ s.matrixCs = none ∧ s.points p = none

theorem resetDF_true (s : St Ph C β σ τ π κ) (p : Ph) : DFCleared (resetDF s p true) p := by
  simp [DFCleared, resetDF, upd]

theorem removeCache_dfSampling (s : St Ph C β σ τ π κ) (x : χ) (T : τ) (p : Ph) (v : V)
    (h : (dfSampling E s x T p true).1 = some v) : DFCleared (dfSampling E s x T p true).2 p := by
  unfold dfSampling at h ⊢
  dsimp only at h ⊢
  split
  · exact resetDF_true _ p
  · next hv => rw [if_neg hv] at h; cases h

theorem removeCache_dfTangent (s : St Ph C β σ τ π κ) (x : χ) (T : τ) (p : Ph) (v : V)
    (h : (dfTangent E s x T p true).1 = some v) : DFCleared (dfTangent E s x T p true).2 p := by
  unfold dfTangent at h ⊢
  dsimp only at h ⊢
  split
  · next hv =>
    rw [if_pos hv] at h
    unfold dfTangentTail at h ⊢
    dsimp only at h ⊢
    split
    · next hv2 =>
      rw [if_pos hv2] at h
      split
      · next hd => rw [if_pos hd] at h; exact removeCache_dfSampling E _ x T p v h
      · exact resetDF_true _ p
    · next hv2 => rw [if_neg hv2] at h; cases h
  · next hv => rw [if_neg hv] at h; cases h

theorem removeCache_dfEqBased (cfg : Cfg) (approx : Bool) (s : St Ph C β σ τ π κ) (x : χ) (T : τ) (p : Ph) (v : V)
    (h : (dfEqBased E cfg approx s x T p true).1 = some v) : DFCleared (dfEqBased E cfg approx s x T p true).2 p := by
  unfold dfEqBased at h ⊢
  dsimp only at h ⊢
  split
  · next mu m pr he =>
    simp only [he] at h
    cases approx
    · exact resetDF_true _ p
    · simp only [if_true] at h ⊢
      split
      · exact resetDF_true _ p
      · next hv => rw [if_neg hv] at h; cases h
  · next hne =>
    split at h
    · next mu m pr he => exact absurd he (hne mu m pr)
    · exact removeCache_dfSampling E _ x T p v h

/-- **removeCache, driving force**: after a driving-force query with `removeCache = True` that
returned a value, the caches it touches — `_compset_cache_df[prec]`, `_matrix_cs`,
`_points_cache[prec]` — hold nothing.  (A query that returns `None` because an equilibrium did not
converge returns early, before `_resetDrivingForceCache`; `_matrix_cs` then still holds the failed
composition sets.) -/
theorem removeCache_df (cfg : Cfg) (m : DFMethod) (s : St Ph C β σ τ π κ) (x : χ) (T : τ) (p : Ph) (v : V)
    (h : (drivingForce E cfg m s x T p true).1 = some v) : DFCleared (drivingForce E cfg m s x T p true).2 p := by
  cases m
  · exact removeCache_dfTangent E s x T p v h
  · exact removeCache_dfSampling E s x T p v h
  · exact removeCache_dfEqBased E cfg true s x T p v h
  · exact removeCache_dfEqBased E cfg false s x T p v h

/-! ### which precipitate entry each branch of the tangent method leaves behind -/

theorem getSamples_dfCache (s : St Ph C β σ τ π κ) (p : Ph) (T : τ) :
    (getSamples E s p T).2.dfCache = s.dfCache := by
  unfold getSamples
  split
  · split <;> rfl
  · rfl

theorem dfSampling_keeps_empty (s : St Ph C β σ τ π κ) (x : χ) (T : τ) (p : Ph) (rm : Bool)
    (h : s.dfCache p = none) : (dfSampling E s x T p rm).2.dfCache p = none := by
  have h1 : (sampleDF E (matrixEq E s x T).2 p T (matrixEq E s x T).1.out).2.dfCache p = none := by
    show (getSamples E (matrixEq E s x T).2 p T).2.dfCache p = none
    rw [getSamples_dfCache]; exact h
  unfold dfSampling
  dsimp only
  split
  · unfold resetDF
    split
    · simp [upd]
    · exact h1
  · exact h

/-- **collapsed branch** (the precipitate found by the parallel tangent is the matrix composition,
Thermodynamics.py 896-899): the precipitate entry is EMPTY afterwards — the collapsed composition set
is not kept as the starting point of later queries — whatever `removeCache` is -/
theorem tangent_collapsed_leaves_empty (s : St Ph C β σ τ π κ) (r : Res ρ β σ) (x : χ) (T : τ) (p : Ph) (rm : Bool)
    (hv : E.valid (localEq E (ensurePrecSet E s p T r.out) (E.condMu T r.out p)
      ((ensurePrecSet E s p T r.out).dfCache p)).1.out = true)
    (hd : E.degenerate (localEq E (ensurePrecSet E s p T r.out) (E.condMu T r.out p)
      ((ensurePrecSet E s p T r.out).dfCache p)).1.sets r.sets = true) :
    (dfTangentTail E s r x T p rm).2.dfCache p = none := by
  unfold dfTangentTail
  dsimp only
  rw [if_pos hv, if_pos hd]
  exact dfSampling_keeps_empty E _ x T p rm (by simp [upd])

/-- **converged branch**: the solved precipitate set is kept (or dropped with `removeCache`) -/
theorem tangent_converged_leaves (s : St Ph C β σ τ π κ) (r : Res ρ β σ) (x : χ) (T : τ) (p : Ph) (rm : Bool)
    (hv : E.valid (localEq E (ensurePrecSet E s p T r.out) (E.condMu T r.out p)
      ((ensurePrecSet E s p T r.out).dfCache p)).1.out = true)
    (hd : ¬ E.degenerate (localEq E (ensurePrecSet E s p T r.out) (E.condMu T r.out p)
      ((ensurePrecSet E s p T r.out).dfCache p)).1.sets r.sets = true) :
    (dfTangentTail E s r x T p rm).2.dfCache p =
      if rm = true then none else some (localEq E (ensurePrecSet E s p T r.out) (E.condMu T r.out p)
        ((ensurePrecSet E s p T r.out).dfCache p)).1.sets := by
  unfold dfTangentTail
  dsimp only
  rw [if_pos hv, if_neg hd]
  unfold resetDF
  cases rm <;> simp [upd]

/-- **unconverged branch**: early return; the (in place updated) list stays -/
theorem tangent_unconverged_leaves (s : St Ph C β σ τ π κ) (r : Res ρ β σ) (x : χ) (T : τ) (p : Ph) (rm : Bool)
    (hv : ¬ E.valid (localEq E (ensurePrecSet E s p T r.out) (E.condMu T r.out p)
      ((ensurePrecSet E s p T r.out).dfCache p)).1.out = true) :
    (dfTangentTail E s r x T p rm).2.dfCache p =
      some (localEq E (ensurePrecSet E s p T r.out) (E.condMu T r.out p)
        ((ensurePrecSet E s p T r.out).dfCache p)).1.sets := by
  unfold dfTangentTail
  dsimp only
  rw [if_neg hv]
  simp [upd]

theorem curvInvalid_true (s : St Ph C β σ τ π κ) (p : Ph) : (curvInvalid s p true).2.curvCache p = none := by
  unfold curvInvalid
  dsimp only
  split <;> simp [upd]

/-- **removeCache, curvature factors**: after `curvatureFactor(..., removeCache=True)` — whatever it
returned — the cached equilibrium of that precipitate is gone -/
theorem removeCache_curvature (cfg : Cfg) (s : St Ph C β σ τ π κ) (x : χ) (T : τ) (p : Ph) (dir : Option χ) :
    (curvature E cfg s x T p true dir).2.curvCache p = none := by
  unfold curvature
  dsimp only
  split
  · exact curvInvalid_true _ p
  · simp [curvFinish, upd]
  · split
    · exact curvInvalid_true _ p
    · split
      · exact curvInvalid_true _ p
      · simp [curvFinish, upd]

/-- `_process_invalid_eq` with `removeCache = True` answers `None`, never the stored output -/
theorem curvInvalid_true_none (s : St Ph C β σ τ π κ) (p : Ph) : (curvInvalid s p true).1 = none := by
  simp [curvInvalid, upd]

/-- **removeCache = True, curvature factors (incl. the invalid-equilibrium helper branch)**: whatever the history — in
particular after earlier queries that KEPT their equilibrium (`removeCache = False`) — a `curvatureFactor(...,
removeCache=True)` query leaves the cached equilibrium of that precipitate empty, and its answer is either `None` or
factors newly computed by `_curvatureFactorFromEq`; the stored output of an earlier call is never handed out -/
theorem removeCache_true_leaves_empty_and_fresh (cfg : Cfg) (s : St Ph C β σ τ π κ) (x : χ) (T : τ) (p : Ph) (dir : Option χ) :
    (curvature E cfg s x T p true dir).2.curvCache p = none ∧
    ((curvature E cfg s x T p true dir).1 = none ∨
      ∃ mu m pr prev, (curvature E cfg s x T p true dir).1 = some (E.curvOf mu m pr prev)) := by
  refine ⟨removeCache_curvature E cfg s x T p dir, ?_⟩
  unfold curvature
  dsimp only
  split
  · left; exact curvInvalid_true_none _ p
  · right; exact ⟨_, _, _, _, rfl⟩
  · split
    · left; exact curvInvalid_true_none _ p
    · split
      · left; exact curvInvalid_true_none _ p
      · right; exact ⟨_, _, _, _, rfl⟩

/-- **'solves-but-unstable' and 'unconverged' branch of `_getCompositionSetsForDF`** ('approximate' / 'curvature'
driving force): when the two-phase equilibrium at (x, T) does not yield a stable matrix AND a stable precipitate, the
driving-force cache entry of that precipitate is EMPTY after the query (the list that was updated in place — and may
have lost its precipitate set — is not kept as the start of later queries), whatever `removeCache` is -/
theorem unstable_branch_leaves_empty (cfg : Cfg) (approx : Bool) (s : St Ph C β σ τ π κ) (x : χ) (T : τ) (p : Ph) (rm : Bool)
    (h : ∀ mu m pr, (compSetsEq E cfg s x T p (s.dfCache p)).1 ≠ some (mu, some m, some pr)) :
    (dfEqBased E cfg approx s x T p rm).2.dfCache p = none := by
  unfold dfEqBased
  dsimp only
  split
  · next mu m pr he => exact absurd he (h mu m pr)
  · exact dfSampling_keeps_empty E _ x T p rm (by simp [upd])

end final


/-! ### every cache is keyed by the phase it belongs to

Two statements, for every query that takes a phase argument (`phase=` of the diffusivity getters,
`precPhase=` of the driving-force / curvature getters):
  * **writes** (`Kept`): the query changes no cache entry of any OTHER phase;
  * **reads** (`Agree` / `Sim`): its result, and the entries of its own phase afterwards, are
    determined by the entries of its own phase (and the shared `_matrix_cs`, sampling density) —
    whatever the entries of the other phases hold.
Together: a query for phase p never reads an entry written for a phase q ≠ p. -/
section phasekeys
open KawinV.CompSetCache

variable {Ph C β σ ρ τ π χ δ V D κ : Type} [DecidableEq Ph] [DecidableEq τ]
variable (E : Env Ph C β σ ρ τ π χ δ V D κ)

/-- `s'` has the same entries as `s` for every precipitate phase outside `P` and every diffusivity
phase outside `Dp` -/
def Kept (P Dp : Ph → Prop) (s s' : St Ph C β σ τ π κ) : Prop :=
  (∀ q, ¬ P q → s'.dfCache q = s.dfCache q ∧ s'.points q = s.points q ∧
      s'.curvCache q = s.curvCache q ∧ s'.curvOut q = s.curvOut q) ∧
  (∀ q, ¬ Dp q → s'.diffCache q = s.diffCache q)

theorem Kept.refl (P Dp : Ph → Prop) (s : St Ph C β σ τ π κ) : Kept P Dp s s :=
  ⟨fun _ _ => ⟨rfl, rfl, rfl, rfl⟩, fun _ _ => rfl⟩

theorem Kept.trans {P Dp : Ph → Prop} {a b c : St Ph C β σ τ π κ} (h1 : Kept P Dp a b) (h2 : Kept P Dp b c) :
    Kept P Dp a c :=
  ⟨fun q hq => ⟨((h2.1 q hq).1).trans (h1.1 q hq).1, ((h2.1 q hq).2.1).trans (h1.1 q hq).2.1,
      ((h2.1 q hq).2.2.1).trans (h1.1 q hq).2.2.1, ((h2.1 q hq).2.2.2).trans (h1.1 q hq).2.2.2⟩,
   fun q hq => (h2.2 q hq).trans (h1.2 q hq)⟩

/-- a state that differs from `s` only in slots of phases inside `P` / `Dp` (and in shared or ghost
fields) -/
theorem kept_of {P Dp : Ph → Prop} {s s' : St Ph C β σ τ π κ}
    (h1 : ∀ q, ¬ P q → s'.dfCache q = s.dfCache q) (h2 : ∀ q, ¬ P q → s'.points q = s.points q)
    (h3 : ∀ q, ¬ P q → s'.curvCache q = s.curvCache q) (h4 : ∀ q, ¬ P q → s'.curvOut q = s.curvOut q)
    (h5 : ∀ q, ¬ Dp q → s'.diffCache q = s.diffCache q) : Kept P Dp s s' :=
  ⟨fun q hq => ⟨h1 q hq, h2 q hq, h3 q hq, h4 q hq⟩, h5⟩

theorem upd_other {γ : Type} (f : Ph → γ) (p q : Ph) (v : γ) (h : ¬ q = p) : upd f p v q = f q := by
  simp [upd, h]

variable (p : Ph) (Dp : Ph → Prop)

/-- the relation used for a query about precipitate phase `p`: only entries of `p` may change -/
abbrev KeptP (s s' : St Ph C β σ τ π κ) : Prop := Kept (fun q => q = p) Dp s s'

theorem keptP_nop {s s' : St Ph C β σ τ π κ} (h1 : s'.dfCache = s.dfCache) (h2 : s'.points = s.points)
    (h3 : s'.curvCache = s.curvCache) (h4 : s'.curvOut = s.curvOut) (h5 : s'.diffCache = s.diffCache) :
    KeptP p Dp s s' :=
  kept_of (fun _ _ => by rw [h1]) (fun _ _ => by rw [h2]) (fun _ _ => by rw [h3]) (fun _ _ => by rw [h4])
    (fun _ _ => by rw [h5])

theorem keptP_df (u : St Ph C β σ τ π κ) (c : Option (List (CS β σ))) :
    KeptP p Dp u { u with dfCache := upd u.dfCache p c } :=
  kept_of (fun q hq => upd_other _ p q c hq) (fun _ _ => rfl) (fun _ _ => rfl) (fun _ _ => rfl) (fun _ _ => rfl)

theorem keptP_callSolve (s : St Ph C β σ τ π κ) (c : C) (st : Option (List (CS β σ))) :
    KeptP p Dp s (callSolve E s c st).2 := keptP_nop p Dp rfl rfl rfl rfl rfl

theorem keptP_localEq (s : St Ph C β σ τ π κ) (c : C) (st : Option (List (CS β σ))) :
    KeptP p Dp s (localEq E s c st).2 := keptP_nop p Dp rfl rfl rfl rfl rfl

theorem keptP_getSamples (s : St Ph C β σ τ π κ) (T : τ) : KeptP p Dp s (getSamples E s p T).2 := by
  have fresh_case : KeptP p Dp s
      { s with points := upd s.points p (some (T, E.sample T s.dens p)), used := s.used ++ [(T, T)],
               sampled := s.sampled ++ [(T, s.dens)] } :=
    kept_of (fun _ _ => rfl) (fun q hq => upd_other _ p q _ hq) (fun _ _ => rfl) (fun _ _ => rfl) (fun _ _ => rfl)
  unfold getSamples
  split
  · split
    · exact keptP_nop p Dp rfl rfl rfl rfl rfl
    · exact fresh_case
  · exact fresh_case

theorem keptP_resetDF (s : St Ph C β σ τ π κ) (rm : Bool) : KeptP p Dp s (resetDF s p rm) := by
  unfold resetDF
  split
  · exact kept_of (fun q hq => upd_other _ p q _ hq) (fun q hq => upd_other _ p q _ hq) (fun _ _ => rfl)
      (fun _ _ => rfl) (fun _ _ => rfl)
  · exact Kept.refl _ _ s

theorem keptP_matrixEq (s : St Ph C β σ τ π κ) (x : χ) (T : τ) : KeptP p Dp s (matrixEq E s x T).2 :=
  keptP_nop p Dp rfl rfl rfl rfl rfl

theorem keptP_dfSampling (s : St Ph C β σ τ π κ) (x : χ) (T : τ) (rm : Bool) :
    KeptP p Dp s (dfSampling E s x T p rm).2 := by
  unfold dfSampling
  dsimp only
  split
  · exact ((keptP_matrixEq E p Dp s x T).trans (keptP_getSamples E p Dp _ T)).trans (keptP_resetDF p Dp _ rm)
  · exact keptP_matrixEq E p Dp s x T

theorem keptP_ensurePrecSet (s : St Ph C β σ τ π κ) (T : τ) (mu : ρ) :
    KeptP p Dp s (ensurePrecSet E s p T mu) := by
  unfold ensurePrecSet
  split
  · exact Kept.refl _ _ s
  · exact (keptP_getSamples E p Dp s T).trans (keptP_df p Dp _ _)

theorem keptP_dfTangentTail (s : St Ph C β σ τ π κ) (r : Res ρ β σ) (x : χ) (T : τ) (rm : Bool) :
    KeptP p Dp s (dfTangentTail E s r x T p rm).2 := by
  have h3 := ((keptP_ensurePrecSet E p Dp s T r.out).trans
    (keptP_localEq E p Dp (ensurePrecSet E s p T r.out) (E.condMu T r.out p)
      ((ensurePrecSet E s p T r.out).dfCache p))).trans (keptP_df p Dp _ (some
    (localEq E (ensurePrecSet E s p T r.out) (E.condMu T r.out p)
      ((ensurePrecSet E s p T r.out).dfCache p)).1.sets))
  unfold dfTangentTail
  dsimp only
  split
  · split
    · exact (h3.trans (keptP_df p Dp _ none)).trans (keptP_dfSampling E p Dp _ x T rm)
    · exact h3.trans (keptP_resetDF p Dp _ rm)
  · exact h3

theorem keptP_dfTangent (s : St Ph C β σ τ π κ) (x : χ) (T : τ) (rm : Bool) :
    KeptP p Dp s (dfTangent E s x T p rm).2 := by
  unfold dfTangent
  dsimp only
  split
  · exact (keptP_matrixEq E p Dp s x T).trans (keptP_dfTangentTail E p Dp _ _ x T rm)
  · exact keptP_matrixEq E p Dp s x T

variable (cfg : Cfg)

theorem keptP_compSetsTail (r : Res ρ β σ) (s : St Ph C β σ τ π κ) (x : χ) (T : τ) :
    KeptP p Dp s (compSetsTail E cfg r s x T p).2 := by
  unfold compSetsTail
  dsimp only
  split
  · split
    · split
      · exact keptP_localEq E p Dp s _ _
      · exact Kept.refl _ _ s
    · exact Kept.refl _ _ s
  · exact Kept.refl _ _ s

theorem keptP_compSetsEq (s : St Ph C β σ τ π κ) (x : χ) (T : τ) (cached : Option (List (CS β σ))) :
    KeptP p Dp s (compSetsEq E cfg s x T p cached).2.1 := by
  have h1 : KeptP p Dp s (compSetsHead E cfg s x T p cached).2 := by
    cases cached
    · exact keptP_callSolve E p Dp s _ _
    · exact keptP_localEq E p Dp s _ _
  exact h1.trans (keptP_compSetsTail E p Dp cfg _ _ x T)

theorem keptP_search (x : χ) (T : τ) (dir : χ) :
    ∀ (n : Nat) (cur : χ) (s : St Ph C β σ τ π κ), KeptP p Dp s (search E cfg x T p dir n cur s).2
  | 0, _, s => Kept.refl _ _ s
  | n + 1, cur, s => by
    have h0 := keptP_compSetsEq E p Dp cfg s cur T none
    unfold search
    dsimp only
    split
    · exact h0
    · exact h0
    · exact h0.trans (keptP_search x T dir n _ _)
    · exact h0.trans (keptP_search x T dir n _ _)

theorem keptP_curvSlots (u : St Ph C β σ τ π κ) (c : Option (List (CS β σ))) (k : Option κ) :
    KeptP p Dp u { u with curvCache := upd u.curvCache p c, curvOut := upd u.curvOut p k } :=
  kept_of (fun _ _ => rfl) (fun _ _ => rfl) (fun q hq => upd_other _ p q c hq) (fun q hq => upd_other _ p q k hq)
    (fun _ _ => rfl)

theorem keptP_curvSlot (u : St Ph C β σ τ π κ) (c : Option (List (CS β σ))) :
    KeptP p Dp u { u with curvCache := upd u.curvCache p c } :=
  kept_of (fun _ _ => rfl) (fun _ _ => rfl) (fun q hq => upd_other _ p q c hq) (fun _ _ => rfl) (fun _ _ => rfl)

theorem keptP_curvInvalid (s : St Ph C β σ τ π κ) (rm : Bool) : KeptP p Dp s (curvInvalid s p rm).2 := by
  have : KeptP p Dp s (if rm = true then { s with curvCache := upd s.curvCache p none } else s) := by
    split
    · exact keptP_curvSlot p Dp s none
    · exact Kept.refl _ _ s
  unfold curvInvalid
  dsimp only
  split <;> exact this

theorem keptP_aliasCurv (s : St Ph C β σ τ π κ) (l : Option (List (CS β σ))) : KeptP p Dp s (aliasCurv s p l) := by
  cases l with
  | none => exact Kept.refl _ _ s
  | some l => exact keptP_curvSlot p Dp s (some l)

/-- **writes, curvature factors**: `curvatureFactor(…, precPhase = p)` changes no entry of another phase -/
theorem keptP_curvature (s : St Ph C β σ τ π κ) (x : χ) (T : τ) (rm : Bool) (dir : Option χ) :
    KeptP p Dp s (curvature E cfg s x T p rm dir).2 := by
  have h0 := (keptP_compSetsEq E p Dp cfg s x T (s.curvCache p)).trans
    (keptP_aliasCurv p Dp _ (compSetsEq E cfg s x T p (s.curvCache p)).2.2)
  unfold curvature
  dsimp only
  split
  · exact h0.trans (keptP_curvInvalid p Dp _ rm)
  · exact h0.trans (keptP_curvSlots p Dp _ _ _)
  · split
    · exact h0.trans (keptP_curvInvalid p Dp _ rm)
    · split
      · exact (h0.trans (keptP_search E p Dp cfg x T _ _ _ _)).trans (keptP_curvInvalid p Dp _ rm)
      · exact (h0.trans (keptP_search E p Dp cfg x T _ _ _ _)).trans (keptP_curvSlots p Dp _ _ _)

theorem keptP_dfEqBased (approx : Bool) (s : St Ph C β σ τ π κ) (x : χ) (T : τ) (rm : Bool) :
    KeptP p Dp s (dfEqBased E cfg approx s x T p rm).2 := by
  have h0 := keptP_compSetsEq E p Dp cfg s x T (s.dfCache p)
  unfold dfEqBased
  dsimp only
  split
  · split
    · split
      · exact ((h0.trans (keptP_df p Dp _ _)).trans (keptP_matrixEq E p Dp _ x T)).trans (keptP_resetDF p Dp _ rm)
      · exact (h0.trans (keptP_df p Dp _ _)).trans (keptP_matrixEq E p Dp _ x T)
    · exact (h0.trans (keptP_df p Dp _ _)).trans (keptP_resetDF p Dp _ rm)
  · exact (h0.trans (keptP_df p Dp _ _)).trans (keptP_dfSampling E p Dp _ x T rm)

/-- **writes, driving force**: `getDrivingForce(…, precPhase = p)` (any method) changes no entry of
another precipitate phase and no diffusivity entry at all -/
theorem kept_drivingForce (m : DFMethod) (s : St Ph C β σ τ π κ) (x : χ) (T : τ) (rm : Bool) :
    Kept (fun q => q = p) (fun _ => False) s (drivingForce E cfg m s x T p rm).2 := by
  cases m
  · exact keptP_dfTangent E p _ s x T rm
  · exact keptP_dfSampling E p _ s x T rm
  · exact keptP_dfEqBased E p _ cfg true s x T rm
  · exact keptP_dfEqBased E p _ cfg false s x T rm

/-- **writes, diffusivities**: `getInterdiffusivity / getTracerDiffusivity(…, phase = ph)` change
`_diffusivity_cache[ph]` and nothing else -/
theorem kept_diffSingle (post : Res ρ β σ → D) (s : St Ph C β σ τ π κ) (x : χ) (T : τ) (ph : Ph) (rm : Bool) :
    Kept (fun _ => False) (fun q => q = ph) s (diffSingle E post s x T ph rm).2 :=
  kept_of (fun _ _ => rfl) (fun _ _ => rfl) (fun _ _ => rfl) (fun _ _ => rfl)
    (fun q hq => upd_other _ ph q _ hq)


/-! reads -/

/-- two states hold the same entries for precipitate phase `p`, diffusivity phase `ph`, the shared
`_matrix_cs` and the sampling density — the entries of all OTHER phases (and the ghost logs) are arbitrary -/
structure Agree (p ph : Ph) (s s' : St Ph C β σ τ π κ) : Prop where
  df : s.dfCache p = s'.dfCache p
  mat : s.matrixCs = s'.matrixCs
  pts : s.points p = s'.points p
  dens : s.dens = s'.dens
  diff : s.diffCache ph = s'.diffCache ph
  cc : s.curvCache p = s'.curvCache p
  co : s.curvOut p = s'.curvOut p

/-- same answer, and the own-phase entries agree afterwards -/
def Sim {α : Type} (p ph : Ph) (a b : α × St Ph C β σ τ π κ) : Prop := a.1 = b.1 ∧ Agree p ph a.2 b.2

variable (ph : Ph) {s s' : St Ph C β σ τ π κ}

theorem agree_callSolve (h : Agree p ph s s') (c : C) (st : Option (List (CS β σ))) :
    Sim p ph (callSolve E s c st) (callSolve E s' c st) :=
  ⟨rfl, ⟨h.df, h.mat, h.pts, h.dens, h.diff, h.cc, h.co⟩⟩

theorem agree_localEq (h : Agree p ph s s') (c : C) (st : Option (List (CS β σ))) :
    Sim p ph (localEq E s c st) (localEq E s' c st) :=
  ⟨rfl, ⟨h.df, h.mat, h.pts, h.dens, h.diff, h.cc, h.co⟩⟩

theorem agree_getSamples (h : Agree p ph s s') (T : τ) :
    Sim p ph (getSamples E s p T) (getSamples E s' p T) := by
  unfold getSamples
  rw [h.pts, h.dens]
  split
  · split
    · exact ⟨rfl, ⟨h.df, h.mat, h.pts, rfl, h.diff, h.cc, h.co⟩⟩
    · exact ⟨rfl, ⟨h.df, h.mat, by simp [upd], rfl, h.diff, h.cc, h.co⟩⟩
  · exact ⟨rfl, ⟨h.df, h.mat, by simp [upd], rfl, h.diff, h.cc, h.co⟩⟩

theorem agree_sampleDF (h : Agree p ph s s') (T : τ) (mu : ρ) :
    Sim p ph (sampleDF E s p T mu) (sampleDF E s' p T mu) := by
  obtain ⟨h1, h2⟩ := agree_getSamples E p ph h T
  exact ⟨by simp only [sampleDF, h1], h2⟩

theorem agree_resetDF (h : Agree p ph s s') (rm : Bool) : Agree p ph (resetDF s p rm) (resetDF s' p rm) := by
  unfold resetDF
  split
  · exact ⟨by simp [upd], rfl, by simp [upd], h.dens, h.diff, h.cc, h.co⟩
  · exact h

theorem agree_df_slot (h : Agree p ph s s') (c : Option (List (CS β σ))) :
    Agree p ph { s with dfCache := upd s.dfCache p c } { s' with dfCache := upd s'.dfCache p c } :=
  ⟨by simp [upd], h.mat, h.pts, h.dens, h.diff, h.cc, h.co⟩

theorem agree_matrixEq (h : Agree p ph s s') (x : χ) (T : τ) :
    Sim p ph (matrixEq E s x T) (matrixEq E s' x T) := by
  unfold matrixEq
  dsimp only
  rw [h.mat]
  exact ⟨rfl, ⟨h.df, rfl, h.pts, h.dens, h.diff, h.cc, h.co⟩⟩

theorem agree_dfSampling (h : Agree p ph s s') (x : χ) (T : τ) (rm : Bool) :
    Sim p ph (dfSampling E s x T p rm) (dfSampling E s' x T p rm) := by
  obtain ⟨h1, h2⟩ := agree_matrixEq E p ph h x T
  obtain ⟨h3, h4⟩ := agree_sampleDF E p ph h2 T (matrixEq E s' x T).1.out
  unfold dfSampling
  dsimp only
  rw [h1]
  by_cases hv : E.valid (matrixEq E s' x T).1.out = true
  · simp only [hv, if_true]
    exact ⟨by rw [h3], agree_resetDF p ph h4 rm⟩
  · simp only [hv, if_false]
    exact ⟨rfl, h2⟩

theorem agree_ensurePrecSet (h : Agree p ph s s') (T : τ) (mu : ρ) :
    Agree p ph (ensurePrecSet E s p T mu) (ensurePrecSet E s' p T mu) := by
  obtain ⟨h1, h2⟩ := agree_sampleDF E p ph h T mu
  unfold ensurePrecSet
  rw [← h.df]
  split
  · exact h
  · dsimp only
    rw [h1]
    exact agree_df_slot p ph h2 _

theorem agree_dfTangentTail (h : Agree p ph s s') (r : Res ρ β σ) (x : χ) (T : τ) (rm : Bool) :
    Sim p ph (dfTangentTail E s r x T p rm) (dfTangentTail E s' r x T p rm) := by
  have h1 := agree_ensurePrecSet E p ph h T r.out
  obtain ⟨h2, h3⟩ := agree_localEq E p ph h1 (E.condMu T r.out p) ((ensurePrecSet E s' p T r.out).dfCache p)
  unfold dfTangentTail
  dsimp only
  rw [h1.df, h2]
  have h4 := agree_df_slot p ph h3 (some (localEq E (ensurePrecSet E s' p T r.out) (E.condMu T r.out p)
    ((ensurePrecSet E s' p T r.out).dfCache p)).1.sets)
  by_cases hv : E.valid (localEq E (ensurePrecSet E s' p T r.out) (E.condMu T r.out p)
      ((ensurePrecSet E s' p T r.out).dfCache p)).1.out = true
  · simp only [hv, if_true]
    by_cases hd : E.degenerate (localEq E (ensurePrecSet E s' p T r.out) (E.condMu T r.out p)
        ((ensurePrecSet E s' p T r.out).dfCache p)).1.sets r.sets = true
    · simp only [hd, if_true]
      exact agree_dfSampling E p ph (agree_df_slot p ph h4 none) x T rm
    · simp only [hd, if_false]
      exact ⟨rfl, agree_resetDF p ph h4 rm⟩
  · simp only [hv, if_false]
    exact ⟨rfl, h4⟩

theorem agree_dfTangent (h : Agree p ph s s') (x : χ) (T : τ) (rm : Bool) :
    Sim p ph (dfTangent E s x T p rm) (dfTangent E s' x T p rm) := by
  obtain ⟨h1, h2⟩ := agree_matrixEq E p ph h x T
  unfold dfTangent
  dsimp only
  rw [h1]
  by_cases hv : E.valid (matrixEq E s' x T).1.out = true
  · simp only [hv, if_true]
    exact agree_dfTangentTail E p ph h2 _ x T rm
  · simp only [hv, if_false]
    exact ⟨rfl, h2⟩

theorem agree_compSetsTail (h : Agree p ph s s') (r : Res ρ β σ) (x : χ) (T : τ) :
    Sim p ph (compSetsTail E cfg r s x T p) (compSetsTail E cfg r s' x T p) := by
  unfold compSetsTail
  dsimp only
  split
  · split
    · split
      · exact ⟨rfl, (agree_localEq E p ph h _ _).2⟩
      · exact ⟨rfl, h⟩
    · exact ⟨rfl, h⟩
  · exact ⟨rfl, h⟩

theorem agree_compSetsEq (h : Agree p ph s s') (x : χ) (T : τ) (cached : Option (List (CS β σ))) :
    (compSetsEq E cfg s x T p cached).1 = (compSetsEq E cfg s' x T p cached).1 ∧
    Agree p ph (compSetsEq E cfg s x T p cached).2.1 (compSetsEq E cfg s' x T p cached).2.1 ∧
    (compSetsEq E cfg s x T p cached).2.2 = (compSetsEq E cfg s' x T p cached).2.2 := by
  have h1 : Sim p ph (compSetsHead E cfg s x T p cached) (compSetsHead E cfg s' x T p cached) := by
    cases cached
    · exact agree_callSolve E p ph h _ _
    · exact agree_localEq E p ph h _ _
  unfold compSetsEq
  dsimp only
  rw [h1.1]
  obtain ⟨h2, h3⟩ := agree_compSetsTail E p cfg ph h1.2 (compSetsHead E cfg s' x T p cached).1 x T
  exact ⟨h2, h3, rfl⟩

theorem agree_search (x : χ) (T : τ) (dir : χ) :
    ∀ (n : Nat) (cur : χ) (s s' : St Ph C β σ τ π κ), Agree p ph s s' →
      Sim p ph (search E cfg x T p dir n cur s) (search E cfg x T p dir n cur s')
  | 0, _, _, _, h => ⟨rfl, h⟩
  | n + 1, cur, s, s', h => by
    obtain ⟨h1, h2, _⟩ := agree_compSetsEq E p cfg ph h cur T none
    unfold search
    dsimp only
    rw [h1]
    rcases (compSetsEq E cfg s' cur T p none).1 with _ | ⟨mu, m, pr⟩
    · exact ⟨rfl, h2⟩
    · cases m <;> cases pr
      · exact agree_search x T dir n _ _ _ h2
      · exact agree_search x T dir n _ _ _ h2
      · exact agree_search x T dir n _ _ _ h2
      · exact ⟨rfl, h2⟩

theorem agree_curvInvalid (h : Agree p ph s s') (rm : Bool) :
    Sim p ph (curvInvalid s p rm) (curvInvalid s' p rm) := by
  unfold curvInvalid
  dsimp only
  cases rm
  · simp only [Bool.false_eq_true, if_false]
    rw [h.cc, h.co]
    split <;> exact ⟨rfl, h⟩
  · have e : ∀ f : Ph → Option (List (CS β σ)), upd f p none p = none := fun f => by simp [upd]
    simp only [if_true, e]
    exact ⟨rfl, ⟨h.df, h.mat, h.pts, h.dens, h.diff, by simp [upd], h.co⟩⟩

theorem agree_curvFinish (h : Agree p ph s s') (rm : Bool) (mu : ρ) (m pr : CS β σ) :
    Sim p ph (curvFinish E s p rm mu m pr) (curvFinish E s' p rm mu m pr) := by
  unfold curvFinish
  dsimp only
  rw [h.co]
  exact ⟨rfl, ⟨h.df, h.mat, h.pts, h.dens, h.diff, by simp [upd], by simp [upd]⟩⟩

theorem agree_aliasCurv (h : Agree p ph s s') (l : Option (List (CS β σ))) :
    Agree p ph (aliasCurv s p l) (aliasCurv s' p l) := by
  cases l with
  | none => exact h
  | some l => exact ⟨h.df, h.mat, h.pts, h.dens, h.diff, by simp [aliasCurv, upd], h.co⟩

/-- **reads, curvature factors**: the answer of `curvatureFactor(…, precPhase = p)` and the entries of
`p` afterwards do not depend on what the entries of the other phases hold -/
theorem agree_curvature (h : Agree p ph s s') (x : χ) (T : τ) (rm : Bool) (dir : Option χ) :
    Sim p ph (curvature E cfg s x T p rm dir) (curvature E cfg s' x T p rm dir) := by
  obtain ⟨h1, h2, h3⟩ := agree_compSetsEq E p cfg ph h x T (s'.curvCache p)
  unfold curvature
  dsimp only
  rw [h.cc, h1, h3]
  have ha := agree_aliasCurv p ph h2 (compSetsEq E cfg s' x T p (s'.curvCache p)).2.2
  rcases (compSetsEq E cfg s' x T p (s'.curvCache p)).1 with _ | ⟨mu, m, pr⟩
  · exact agree_curvInvalid p ph ha rm
  · have tail : ∀ d : χ,
        Sim p ph
          (match (search E cfg x T p d 15 (E.mid x d) (aliasCurv (compSetsEq E cfg s x T p (s'.curvCache p)).2.1 p
              (compSetsEq E cfg s' x T p (s'.curvCache p)).2.2)).1 with
            | none => curvInvalid (search E cfg x T p d 15 (E.mid x d) (aliasCurv (compSetsEq E cfg s x T p (s'.curvCache p)).2.1 p
                (compSetsEq E cfg s' x T p (s'.curvCache p)).2.2)).2 p rm
            | some (mu, m, pr) => curvFinish E (search E cfg x T p d 15 (E.mid x d) (aliasCurv (compSetsEq E cfg s x T p (s'.curvCache p)).2.1 p
                (compSetsEq E cfg s' x T p (s'.curvCache p)).2.2)).2 p rm mu m pr)
          (match (search E cfg x T p d 15 (E.mid x d) (aliasCurv (compSetsEq E cfg s' x T p (s'.curvCache p)).2.1 p
              (compSetsEq E cfg s' x T p (s'.curvCache p)).2.2)).1 with
            | none => curvInvalid (search E cfg x T p d 15 (E.mid x d) (aliasCurv (compSetsEq E cfg s' x T p (s'.curvCache p)).2.1 p
                (compSetsEq E cfg s' x T p (s'.curvCache p)).2.2)).2 p rm
            | some (mu, m, pr) => curvFinish E (search E cfg x T p d 15 (E.mid x d) (aliasCurv (compSetsEq E cfg s' x T p (s'.curvCache p)).2.1 p
                (compSetsEq E cfg s' x T p (s'.curvCache p)).2.2)).2 p rm mu m pr) := by
      intro d
      obtain ⟨g1, g2⟩ := agree_search E p cfg ph x T d 15 (E.mid x d) _ _ ha
      rw [g1]
      rcases (search E cfg x T p d 15 (E.mid x d) (aliasCurv (compSetsEq E cfg s' x T p (s'.curvCache p)).2.1 p
          (compSetsEq E cfg s' x T p (s'.curvCache p)).2.2)).1 with _ | ⟨mu', m', pr'⟩
      · exact agree_curvInvalid p ph g2 rm
      · exact agree_curvFinish E p ph g2 rm mu' m' pr'
    cases m with
    | none =>
      cases dir with
      | none => exact agree_curvInvalid p ph ha rm
      | some d => exact tail d
    | some m =>
      cases pr with
      | none =>
        cases dir with
        | none => exact agree_curvInvalid p ph ha rm
        | some d => exact tail d
      | some pr => exact agree_curvFinish E p ph ha rm mu m pr

theorem agree_dfEqBased (h : Agree p ph s s') (approx : Bool) (x : χ) (T : τ) (rm : Bool) :
    Sim p ph (dfEqBased E cfg approx s x T p rm) (dfEqBased E cfg approx s' x T p rm) := by
  obtain ⟨h1, h2, _⟩ := agree_compSetsEq E p cfg ph h x T (s'.dfCache p)
  have hsamp := agree_dfSampling E p ph (agree_df_slot p ph h2 none) x T rm
  unfold dfEqBased
  dsimp only
  rw [h.df, h1]
  rcases (compSetsEq E cfg s' x T p (s'.dfCache p)).1 with _ | ⟨mu, m, pr⟩
  · exact hsamp
  · cases m with
    | none => exact hsamp
    | some m =>
      cases pr with
      | none => exact hsamp
      | some pr =>
        dsimp only
        have hs := agree_df_slot p ph h2 (some [m, pr])
        cases approx
        · simp only [Bool.false_eq_true, if_false]
          exact ⟨rfl, agree_resetDF p ph hs rm⟩
        · simp only [if_true]
          obtain ⟨g1, g2⟩ := agree_matrixEq E p ph hs x T
          rw [g1]
          by_cases hv : E.valid (matrixEq E { (compSetsEq E cfg s' x T p (s'.dfCache p)).2.1 with
              dfCache := upd (compSetsEq E cfg s' x T p (s'.dfCache p)).2.1.dfCache p (some [m, pr]) } x T).1.out = true
          · simp only [hv, if_true]
            exact ⟨rfl, agree_resetDF p ph g2 rm⟩
          · simp only [hv, if_false]
            exact ⟨rfl, g2⟩

/-- **reads, driving force**: the answer of `getDrivingForce(…, precPhase = p)` (any method) and the
entries of `p` afterwards do not depend on the entries of the other phases -/
theorem agree_drivingForce (h : Agree p ph s s') (m : DFMethod) (x : χ) (T : τ) (rm : Bool) :
    Sim p ph (drivingForce E cfg m s x T p rm) (drivingForce E cfg m s' x T p rm) := by
  cases m
  · exact agree_dfTangent E p ph h x T rm
  · exact agree_dfSampling E p ph h x T rm
  · exact agree_dfEqBased E p cfg ph h true x T rm
  · exact agree_dfEqBased E p cfg ph h false x T rm

/-- **reads, diffusivities**: `getInterdiffusivity / getTracerDiffusivity(…, phase = ph)` read
`_diffusivity_cache[ph]` only -/
theorem agree_diffSingle (h : Agree p ph s s') (post : Res ρ β σ → D) (x : χ) (T : τ) (rm : Bool) :
    Sim p ph (diffSingle E post s x T ph rm) (diffSingle E post s' x T ph rm) := by
  unfold diffSingle
  dsimp only
  rw [h.diff]
  exact ⟨rfl, ⟨h.df, h.mat, h.pts, h.dens, by simp [upd, localEq, callSolve], h.cc, h.co⟩⟩

/-- **a query for phase p never reads an entry written for a phase q ≠ p**: overwrite, in any way,
the entries of any other phases (`s'` agrees with `s` on the own-phase entries only) — every
public query gives the same answer. -/
theorem query_ignores_other_phases (ip tp : Res ρ β σ → D) (h : Agree p ph s s') :
    (∀ x T rm, (runQuery E cfg ip tp s (.interdiff x T ph rm)).1 = (runQuery E cfg ip tp s' (.interdiff x T ph rm)).1) ∧
    (∀ x T rm, (runQuery E cfg ip tp s (.tracer x T ph rm)).1 = (runQuery E cfg ip tp s' (.tracer x T ph rm)).1) ∧
    (∀ m x T rm, (runQuery E cfg ip tp s (.df m x T p rm)).1 = (runQuery E cfg ip tp s' (.df m x T p rm)).1) ∧
    (∀ x T rm dir, (runQuery E cfg ip tp s (.curv x T p rm dir)).1 = (runQuery E cfg ip tp s' (.curv x T p rm dir)).1) := by
  refine ⟨fun x T rm => ?_, fun x T rm => ?_, fun m x T rm => ?_, fun x T rm dir => ?_⟩
  · show Ans.diff _ = Ans.diff _
    rw [(agree_diffSingle E p ph h ip x T rm).1]
  · show Ans.diff _ = Ans.diff _
    rw [(agree_diffSingle E p ph h tp x T rm).1]
  · show Ans.df _ = Ans.df _
    rw [(agree_drivingForce E p cfg ph h m x T rm).1]
  · show Ans.curv _ = Ans.curv _
    rw [(agree_curvature E p cfg ph h x T rm dir).1]

/-- the seeded scenario in model terms: a diffusivity query for another phase `q` — cache kept or
not — does not change what the next diffusivity query for `ph` returns, for ANY solver -/
theorem diffusivity_unaffected_by_other_phase (post post' : Res ρ β σ → D) (s : St Ph C β σ τ π κ)
    (q : Ph) (hq : ph ≠ q) (x' : χ) (T' : τ) (rm' : Bool) (x : χ) (T : τ) (rm : Bool) :
    (diffSingle E post (diffSingle E post' s x' T' q rm').2 x T ph rm).1 = (diffSingle E post s x T ph rm).1 :=
  (agree_diffSingle E ph ph (s := (diffSingle E post' s x' T' q rm').2) (s' := s)
    ⟨rfl, rfl, rfl, rfl, upd_other _ q ph _ hq, rfl, rfl⟩ post x T rm).1

/-- non-vacuity: a state and the same state with another phase's diffusivity entry overwritten agree on `ph` -/
example (s : St Ph C β σ τ π κ) (q : Ph) (hq : q ≠ ph) (v : Option (List (CS β σ))) :
    Agree p ph s { s with diffCache := upd s.diffCache q v } :=
  ⟨rfl, rfl, rfl, rfl, by simp [upd, hq.symm], rfl, rfl⟩

end phasekeys

/-! ### array queries of the thermodynamics classes (compositions are lists, temperatures scalars) -/
section arrays
open KawinV.CompSetCache KawinV.Broadcast

variable {Ph C β σ ρ τ π δ V D κ : Type} [DecidableEq Ph] [DecidableEq τ]
variable (E : Env Ph C β σ ρ τ π (List τ) δ V D κ)

/-- **batching, diffusivities**: `getInterdiffusivity(x, T)` / `getTracerDiffusivity(x, T)` on arrays is
`map` of the single-point function over the broadcast pairs, from every reachable state — so a point
gives the same value alone or inside an array (given a start-independent solver). -/
theorem array_diffusivity_pure (hs : StartIndependent E) (post : Res ρ β σ → D) (ph : Ph) (rm : Bool)
    (s : St Ph C β σ τ π κ) (h : Inv E s) (x T : Arg τ) (bin : Bool) (xs : List (List τ)) (Ts : List τ)
    (hx : processXT x T bin = .ok (xs, Ts)) :
    ∃ s', batchXTState (fun s x T => diffSingle E post s x T ph rm) s x T bin
        = .ok ((xs.zip Ts).map (fun p => post (E.solve (E.condLocal p.1 p.2 ph) none)), s') ∧ Inv E s' :=
  batchXTState_pure _ (Inv E) _
    (fun s a t hI => ⟨diffSingle_res E hs post s a t ph rm, (pres_diffSingle E post s a t ph rm).2 hI⟩)
    s h x T bin xs Ts hx

/-- **batching, driving force**: the same for `getDrivingForce(x, T)` with any of the four methods -/
theorem array_drivingForce_pure (hs : StartIndependent E) (m : DFMethod) (p : Ph) (rm : Bool)
    (s : St Ph C β σ τ π κ) (h : Inv E s) (x T : Arg τ) (bin : Bool) (xs : List (List τ)) (Ts : List τ)
    (hx : processXT x T bin = .ok (xs, Ts)) :
    ∃ s', batchXTState (fun s x T => drivingForce E Cfg.fixed m s x T p rm) s x T bin
        = .ok ((xs.zip Ts).map (fun q => drivingForcePure E m s.dens q.1 q.2 p), s') ∧ Inv E s' := by
  obtain ⟨s', h1, h2⟩ := batchXTState_pure (fun s x T => drivingForce E Cfg.fixed m s x T p rm)
    (fun u => Inv E u ∧ u.dens = s.dens) (fun a t => drivingForcePure E m s.dens a t p)
    (fun u a t hI => ⟨by rw [drivingForce_res E hs m u hI.1, hI.2],
      (pres_drivingForce E Cfg.fixed m u a t p rm).2 hI.1,
      (pres_drivingForce E Cfg.fixed m u a t p rm).1.trans hI.2⟩)
    s ⟨h, rfl⟩ x T bin xs Ts hx
  exact ⟨s', h1, h2.1⟩

end arrays

/-! ### witnesses on a toy solver that IS start-independent -/
section witnesses
open KawinV.CompSetCache

/-- conditions are numbers; the solver echoes them, finds two phases except at `bad`; the two-phase
condition with the offset is `x + 100`, without it `x` -/
def toyEnv (bad : Nat) : Env Unit Nat Unit Nat Nat Nat Unit Nat Nat Nat Nat Nat where
  solve c _ := ⟨c, if c = bad then [] else [⟨(), 0⟩, ⟨(), 0⟩]⟩
  svOf c := c
  matrix := ()
  condLocal x _ _ := x
  condMu _ mu _ := mu
  condEq x _ _ b := if b then x + 100 else x
  condIC x _ _ _ := x
  valid _ := true
  sample _ _ _ := ()
  pick _ mu _ := (mu, ⟨(), 0⟩)
  degenerate _ _ := false
  split sets _ := (sets[0]?, sets[1]?, false)
  mid a _ := a
  dfOfSample d _ := d
  dfOfTangent r := r.out
  dfOfApprox _ a _ := a
  dfOfCurv _ mu _ _ := mu
  curvOf mu _ _ _ := mu

theorem toy_startIndependent (bad : Nat) : StartIndependent (toyEnv bad) := fun _ _ _ => rfl

/-- non-vacuity of the hypotheses of `purity_for_every_history` -/
example : StartIndependent (toyEnv 0) ∧
    (∀ mu m pr a b, (toyEnv 0).curvOf mu m pr a = (toyEnv 0).curvOf mu m pr b) :=
  ⟨toy_startIndependent 0, fun _ _ _ _ _ => rfl⟩

/-- D-C09-goffset: in the shipped code the cached path of `_getCompositionSetsEq` dropped the
1 J/mol offset that the fresh path applies, so even with a start-independent solver the second
identical `curvatureFactor` call (warmed object) solved DIFFERENT conditions than the first. -/
theorem shipped_goffset_history_dependent :
    (curvature (toyEnv 0) Cfg.shipped (fresh 0) 5 0 () false none).1 = some 105 ∧
    (curvature (toyEnv 0) Cfg.shipped
      (curvature (toyEnv 0) Cfg.shipped (fresh 0) 5 0 () false none).2 5 0 () false none).1 = some 5 := by
  decide

/-- the repaired code on the same two calls -/
theorem fixed_goffset_same :
    (curvature (toyEnv 0) Cfg.fixed (fresh 0) 5 0 () false none).1 = some 105 ∧
    (curvature (toyEnv 0) Cfg.fixed
      (curvature (toyEnv 0) Cfg.fixed (fresh 0) 5 0 () false none).2 5 0 () false none).1 = some 105 := by
  decide

/-- finding `curvature-fallback` (kept in the code, by design): where the equilibrium at the
arguments gives no two-phase result, a new object answers `None` but an object that holds a cached
equilibrium answers with the output of its PREVIOUS query. -/
theorem curvature_fallback_depends_on_history :
    (curvature (toyEnv 101) Cfg.fixed (fresh 0) 1 0 () false none).1 = none ∧
    (curvature (toyEnv 101) Cfg.fixed
      (curvature (toyEnv 101) Cfg.fixed (fresh 0) 5 0 () false none).2 1 0 () false none).1 = some 105 := by
  decide

/-- a LOCAL toy solver: like `toyEnv`, but started from a list that lacks a phase it cannot re-add it
(pycalphad's `Solver.solve` on given composition sets) -/
def toyLocalEnv (bad : Nat) : Env Unit Nat Unit Nat Nat Nat Unit Nat Nat Nat Nat Nat :=
  { toyEnv bad with
    solve := fun c start => match start with
      | some l => if l.length < 2 then ⟨c, l⟩ else (toyEnv bad).solve c start
      | none => (toyEnv bad).solve c none }

/-- seeded variant of `_getCompositionSetsForDF`: the 'solves-but-unstable' branch KEEPS the list (updated in place) -/
def dfEqBasedKeep {Ph C β σ ρ τ π χ δ V D κ : Type} [DecidableEq Ph] [DecidableEq τ]
    (E : Env Ph C β σ ρ τ π χ δ V D κ) (cfg : Cfg) (approx : Bool) (s : St Ph C β σ τ π κ) (x : χ) (T : τ) (p : Ph) (rm : Bool) :
    Option V × St Ph C β σ τ π κ :=
  let e := compSetsEq E cfg s x T p (s.dfCache p)
  match e.1 with
  | some (mu, some m, some pr) =>
    let s1 : St Ph C β σ τ π κ := { e.2.1 with dfCache := upd e.2.1.dfCache p (some [m, pr]) }
    if approx then
      let r := matrixEq E s1 x T
      if E.valid r.1.out then (some (E.dfOfApprox pr r.1.out mu), resetDF r.2 p rm) else (none, r.2)
    else (some (E.dfOfCurv x mu m pr), resetDF s1 p rm)
  | none => dfSampling E { e.2.1 with dfCache := upd e.2.1.dfCache p none } x T p rm
  | some _ =>
    dfSampling E (match e.2.2 with
      | some l => { e.2.1 with dfCache := upd e.2.1.dfCache p (some l) }
      | none => e.2.1) x T p rm

/-- the hypothesis of `unstable_branch_leaves_empty` is met by a concrete query (non-vacuity): warmed object, point 1 -/
example : ∀ mu m pr, (compSetsEq (toyLocalEnv 101) Cfg.fixed
      (dfEqBased (toyLocalEnv 101) Cfg.fixed false (fresh 0) 5 0 () false).2 1 0 ()
      ((dfEqBased (toyLocalEnv 101) Cfg.fixed false (fresh 0) 5 0 () false).2.dfCache ())).1 ≠ some (mu, some m, some pr) := by
  intro mu m pr h
  have : (compSetsEq (toyLocalEnv 101) Cfg.fixed
      (dfEqBased (toyLocalEnv 101) Cfg.fixed false (fresh 0) 5 0 () false).2 1 0 ()
      ((dfEqBased (toyLocalEnv 101) Cfg.fixed false (fresh 0) 5 0 () false).2.dfCache ())).1.bind (fun t => t.2.2.map (fun _ => ())) = none := by
    decide
  rw [h] at this
  cases this

/-- history two-phase point (5) → matrix-only point (1) → the same two-phase point (5), 'curvature' method, cache kept:
the code answers 105 again and the slot is empty after the matrix-only query; the variant that keeps the list starts the
third query from a list without precipitate, finds it "unstable" again and answers with the sampling value 5 -/
theorem unstable_branch_keeping_variant_history_dependent :
    (dfEqBased (toyLocalEnv 101) Cfg.fixed false (fresh 0) 5 0 () false).1 = some 105 ∧
    ((dfEqBased (toyLocalEnv 101) Cfg.fixed false
      (dfEqBased (toyLocalEnv 101) Cfg.fixed false (fresh 0) 5 0 () false).2 1 0 () false).2.dfCache ()).isNone = true ∧
    (dfEqBased (toyLocalEnv 101) Cfg.fixed false
      (dfEqBased (toyLocalEnv 101) Cfg.fixed false
        (dfEqBased (toyLocalEnv 101) Cfg.fixed false (fresh 0) 5 0 () false).2 1 0 () false).2 5 0 () false).1 = some 105 ∧
    ((dfEqBasedKeep (toyLocalEnv 101) Cfg.fixed false
      (dfEqBasedKeep (toyLocalEnv 101) Cfg.fixed false (fresh 0) 5 0 () false).2 1 0 () false).2.dfCache ()).isSome = true ∧
    (dfEqBasedKeep (toyLocalEnv 101) Cfg.fixed false
      (dfEqBasedKeep (toyLocalEnv 101) Cfg.fixed false
        (dfEqBasedKeep (toyLocalEnv 101) Cfg.fixed false (fresh 0) 5 0 () false).2 1 0 () false).2 5 0 () false).1 = some 5 := by
  decide

/-- seeded variant of `_process_invalid_eq`: no reset under `removeCache` -/
def curvInvalidKeep {Ph C β σ τ π κ : Type} (s : St Ph C β σ τ π κ) (p : Ph) : Option κ × St Ph C β σ τ π κ :=
  match s.curvCache p with
  | none => (none, s)
  | some _ => (s.curvOut p, s)

/-- MIXED removeCache usage: after a successful `removeCache = False` query (point 5), a `removeCache = True` query at a
single-phase point (1, no searchDir) answers `None` in the code; without the reset in the helper it answers with the
output 105 of the EARLIER call and leaves the cached equilibrium in place -/
theorem removeCache_true_variant_returns_earlier_output :
    (curvature (toyEnv 101) Cfg.fixed
      (curvature (toyEnv 101) Cfg.fixed (fresh 0) 5 0 () false none).2 1 0 () true none).1 = none ∧
    (curvInvalid (curvature (toyEnv 101) Cfg.fixed (fresh 0) 5 0 () false none).2 () true).1 = none ∧
    (curvInvalidKeep (curvature (toyEnv 101) Cfg.fixed (fresh 0) 5 0 () false none).2 ()).1 = some 105 ∧
    ((curvInvalidKeep (curvature (toyEnv 101) Cfg.fixed (fresh 0) 5 0 () false none).2 ()).2.curvCache ()).isSome = true := by
  decide

end witnesses

end KawinV.Props.C09
