/-
C09 — property theorems (stub; nothing proved yet).
-/
namespace KawinV.Props.C09
end KawinV.Props.C09
