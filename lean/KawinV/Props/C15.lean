/-
C15 — property theorems (stub; nothing proved yet).
-/
namespace KawinV.Props.C15
end KawinV.Props.C15
