/-
C15 — precipitate shape factors match the geometry they describe.

Theorems about
* `KawinV.Gen.C15`  — definitions REGENERATED from kawin/precipitation/parameters/ShapeFactors.py
  on every run (inner formulas and `…Min` constants of the four shape descriptions),
* `KawinV.Shape`    — hand model of the public wrappers (`_processAspectRatio`, `…Factor`),
* `KawinV.Bisect`   — hand model of `ShapeFactor._findRcrit` / `_findRcritScalar`.

Generic part: α is any linearly ordered field with the transcendental atoms `Trans α`; laws of
the atoms that a statement needs (cbrt(x)³ = x, x^(2/3) cubed = x², arccos = π/2 − arcsin,
artanh = ½(log(1+e) − log(1−e))) are explicit hypotheses.  Real part: the atoms are Mathlib's
functions and the laws are proved.
-/
import KawinV.Gen.C15Shape
import KawinV.Model.ShapeWrap
import KawinV.Model.Bisect
import Mathlib.Tactic.Ring
import Mathlib.Tactic.Linarith
import Mathlib.Tactic.FieldSimp
import Mathlib.Tactic.NormNum
import Mathlib.Tactic.Positivity
import Mathlib.Algebra.Order.Field.Basic
import Mathlib.Analysis.SpecialFunctions.Pow.Real
import Mathlib.Analysis.SpecialFunctions.Trigonometric.Inverse
import Mathlib.Analysis.SpecialFunctions.Trigonometric.Arctan

set_option linter.unusedSectionVars false
set_option linter.unusedVariables false
set_option linter.unusedSimpArgs false

namespace KawinV.Props.C15
open KawinV KawinV.Gen.C15 KawinV.Shape KawinV.Bisect

/-! ## textbook closed forms (written here by hand; the generated formulas are compared to them) -/
section closedforms
variable {α : Type} [Field α] [Trans α]

/-- eccentricity of a spheroid with short semi-axis `s` and long semi-axis `l` -/
def ecc (s l : α) : α := Trans.sqrt (1 - s ^ 2 / l ^ 2)

/-- surface area of a prolate spheroid (equatorial semi-axis `a`, polar semi-axis `c ≥ a`):
`2πa²(1 + c/(a e) · asin e)` -/
def prolateArea (a c : α) : α :=
  2 * Trans.pi * a ^ 2 * (1 + c / (a * ecc a c) * Trans.arcsin (ecc a c))

/-- surface area of an oblate spheroid (equatorial semi-axis `a`, polar semi-axis `c ≤ a`):
`2πa² + π (c²/e) · log((1+e)/(1−e))`  (= `2πa²(1 + (1−e²)/e · artanh e)`) -/
def oblateArea (a c : α) : α :=
  2 * Trans.pi * a ^ 2 + Trans.pi * (c ^ 2 / ecc c a) * Trans.log ((1 + ecc c a) / (1 - ecc c a))

/-- surface area of a sphere -/
def sphereArea (R : α) : α := 4 * Trans.pi * R ^ 2

/-- surface area of a cuboid with edges `s, s, l` -/
def cuboidArea (s l : α) : α := 2 * (s * s) + 4 * (s * l)

/-- capacitance of a prolate spheroid in units where a sphere of radius R has capacitance R:
`c e / artanh e` -/
def prolateCap (a c : α) : α := c * ecc a c / Trans.arctanh (ecc a c)

/-- capacitance of an oblate spheroid (equatorial `a`, polar `c`): `a e / asin e` -/
def oblateCap (a c : α) : α := a * ecc c a / Trans.arcsin (ecc c a)

end closedforms

section generic
variable {α : Type} [Field α] [LinearOrder α] [IsStrictOrderedRing α] [Trans α]

local notation "π" => (Trans.pi : α)

/-! ## helper lemmas -/

theorem cbrt_ne_zero (hc : ∀ x : α, Trans.cbrt x ^ 3 = x) {x : α} (hx : x ≠ 0) :
    (Trans.cbrt x : α) ≠ 0 := by
  intro h
  have := hc x
  rw [h] at this
  exact hx (by simpa using this.symm)

/-- cubes decide equality of positive numbers -/
theorem eq_of_cube_eq {x y : α} (hx : 0 < x) (hy : 0 < y) (h : x ^ 3 = y ^ 3) : x = y :=
  (pow_left_inj₀ hx.le hy.le (by norm_num)).mp h

/-! ## semi-axes of unit volume -/

/-- **needle, unit volume**: the three semi-axes span a spheroid of volume 1. -/
theorem needle_unit_volume (ar : α) (hc : ∀ x : α, Trans.cbrt x ^ 3 = x) (har : ar ≠ 0) (hpi : π ≠ 0) :
    4 * π / 3 * (needle_normalRadii_r0 ar * needle_normalRadii_r1 ar * needle_normalRadii_r2 ar) = 1 := by
  simp only [needle_normalRadii_r0, needle_normalRadii_r1, needle_normalRadii_r2]
  have hk := hc (3 / (4 * π))
  have hs := hc (1 / ar)
  generalize (Trans.cbrt (3 / (4 * π)) : α) = k at hk
  generalize (Trans.cbrt (1 / ar) : α) = s at hs
  have : 4 * π / 3 * (k * s * (k * s) * (k * (s * ar))) = 4 * π / 3 * (k ^ 3 * s ^ 3 * ar) := by ring
  rw [this, hk, hs]
  field_simp

/-- **needle, aspect ratio**: long / short = ar, and the two short axes are equal. -/
theorem needle_aspect (ar : α) (hc : ∀ x : α, Trans.cbrt x ^ 3 = x) (har : ar ≠ 0) (hpi : π ≠ 0) :
    needle_normalRadii_r2 ar / needle_normalRadii_r0 ar = ar
    ∧ needle_normalRadii_r0 ar = needle_normalRadii_r1 ar := by
  simp only [needle_normalRadii_r0, needle_normalRadii_r1, needle_normalRadii_r2]
  have hk : (Trans.cbrt (3 / (4 * π)) : α) ≠ 0 :=
    cbrt_ne_zero hc (div_ne_zero (by norm_num) (mul_ne_zero (by norm_num) hpi))
  have hs : (Trans.cbrt (1 / ar) : α) ≠ 0 := cbrt_ne_zero hc (one_div_ne_zero har)
  refine ⟨?_, rfl⟩
  field_simp

/-- **plate, unit volume** -/
theorem plate_unit_volume (ar : α) (hc : ∀ x : α, Trans.cbrt x ^ 3 = x) (har : ar ≠ 0) (hpi : π ≠ 0) :
    4 * π / 3 * (plate_normalRadii_r0 ar * plate_normalRadii_r1 ar * plate_normalRadii_r2 ar) = 1 := by
  simp only [plate_normalRadii_r0, plate_normalRadii_r1, plate_normalRadii_r2, npow]
  have hk := hc (3 / (4 * π))
  have hs := hc (1 / (ar * ar))
  generalize (Trans.cbrt (3 / (4 * π)) : α) = k at hk
  generalize (Trans.cbrt (1 / (ar * ar)) : α) = s at hs
  have : 4 * π / 3 * (k * (s * ar) * (k * (s * ar)) * (k * s)) = 4 * π / 3 * (k ^ 3 * s ^ 3 * (ar * ar)) := by ring
  rw [this, hk, hs]
  field_simp

/-- **plate, aspect ratio**: long / short = ar, and the two long axes are equal. -/
theorem plate_aspect (ar : α) (hc : ∀ x : α, Trans.cbrt x ^ 3 = x) (har : ar ≠ 0) (hpi : π ≠ 0) :
    plate_normalRadii_r0 ar / plate_normalRadii_r2 ar = ar
    ∧ plate_normalRadii_r0 ar = plate_normalRadii_r1 ar := by
  simp only [plate_normalRadii_r0, plate_normalRadii_r1, plate_normalRadii_r2, npow]
  have hk : (Trans.cbrt (3 / (4 * π)) : α) ≠ 0 :=
    cbrt_ne_zero hc (div_ne_zero (by norm_num) (mul_ne_zero (by norm_num) hpi))
  have hs : (Trans.cbrt (1 / (ar * ar)) : α) ≠ 0 :=
    cbrt_ne_zero hc (one_div_ne_zero (mul_ne_zero har har))
  refine ⟨?_, rfl⟩
  field_simp

/-- **sphere, unit volume and aspect ratio 1** (the argument is ignored) -/
theorem sphere_unit_volume (ar : α) (hc : ∀ x : α, Trans.cbrt x ^ 3 = x) (hpi : π ≠ 0) :
    4 * π / 3 * (sphere_normalRadii_r0 ar * sphere_normalRadii_r1 ar * sphere_normalRadii_r2 ar) = 1
    ∧ sphere_normalRadii_r2 ar / sphere_normalRadii_r0 ar = 1 := by
  simp only [sphere_normalRadii_r0, sphere_normalRadii_r1, sphere_normalRadii_r2]
  have hk := hc (3 / (4 * π))
  have hk0 : (Trans.cbrt (3 / (4 * π)) : α) ≠ 0 :=
    cbrt_ne_zero hc (div_ne_zero (by norm_num) (mul_ne_zero (by norm_num) hpi))
  generalize (Trans.cbrt (3 / (4 * π)) : α) = k at hk hk0
  constructor
  · have : 4 * π / 3 * (k * 1 * (k * 1) * (k * 1)) = 4 * π / 3 * k ^ 3 := by ring
    rw [this, hk]; field_simp
  · field_simp

/-- **cuboid, unit volume**: the product of the three edges is 1. -/
theorem cuboid_unit_volume (ar : α) (hc : ∀ x : α, Trans.cbrt x ^ 3 = x) (har : ar ≠ 0) :
    cuboid_normalRadii_r0 ar * cuboid_normalRadii_r1 ar * cuboid_normalRadii_r2 ar = 1 := by
  simp only [cuboid_normalRadii_r0, cuboid_normalRadii_r1, cuboid_normalRadii_r2]
  have hs := hc (1 / ar)
  generalize (Trans.cbrt (1 / ar) : α) = s at hs
  have : s * s * (s * ar) = s ^ 3 * ar := by ring
  rw [this, hs]; field_simp

/-- **cuboid, aspect ratio** -/
theorem cuboid_aspect (ar : α) (hc : ∀ x : α, Trans.cbrt x ^ 3 = x) (har : ar ≠ 0) :
    cuboid_normalRadii_r2 ar / cuboid_normalRadii_r0 ar = ar
    ∧ cuboid_normalRadii_r0 ar = cuboid_normalRadii_r1 ar := by
  simp only [cuboid_normalRadii_r0, cuboid_normalRadii_r1, cuboid_normalRadii_r2]
  have hs : (Trans.cbrt (1 / ar) : α) ≠ 0 := cbrt_ne_zero hc (one_div_ne_zero har)
  refine ⟨?_, rfl⟩
  field_simp

/-! ## equivalent-radius factor: radius of the sphere with the volume of the shape whose short
axis (edge) is 1 -/

/-- needle with semi-axes (1, 1, ar): `4π/3 · R³ = 4π/3 · 1·1·ar` -/
theorem needle_eqRadius_volume (ar : α) (hc : ∀ x : α, Trans.cbrt x ^ 3 = x) :
    4 * π / 3 * needle_eqRadius ar ^ 3 = 4 * π / 3 * (1 * 1 * ar) := by
  simp only [needle_eqRadius, hc]; ring

/-- plate with semi-axes (ar, ar, 1) -/
theorem plate_eqRadius_volume (ar : α) (hc : ∀ x : α, Trans.cbrt x ^ 3 = x) :
    4 * π / 3 * plate_eqRadius ar ^ 3 = 4 * π / 3 * (ar * ar * 1) := by
  simp only [plate_eqRadius, hc, npow]; ring

/-- cuboid with edges (1, 1, ar): `4π/3 · R³ = 1·1·ar` -/
theorem cuboid_eqRadius_volume (ar : α) (hc : ∀ x : α, Trans.cbrt x ^ 3 = x) (hpi : π ≠ 0) :
    4 * π / 3 * cuboid_eqRadius ar ^ 3 = 1 * 1 * ar := by
  simp only [cuboid_eqRadius, hc]; field_simp

theorem sphere_factors_one (ar : α) :
    sphere_eqRadius ar = 1 ∧ sphere_thermoFactor ar = 1 ∧ sphere_kineticFactor ar = 1 := by
  simp only [sphere_eqRadius, sphere_thermoFactor, sphere_kineticFactor, and_self]

/-- the eq.-radius factor and the unit-volume semi-axes are consistent: (factor × short
unit-volume semi-axis)³ is the cubed radius of the unit-volume sphere, 3/(4π). -/
theorem needle_eqRadius_normalRadii (ar : α) (hc : ∀ x : α, Trans.cbrt x ^ 3 = x) (har : ar ≠ 0) :
    (needle_eqRadius ar * needle_normalRadii_r0 ar) ^ 3 = 3 / (4 * π) := by
  simp only [needle_eqRadius, needle_normalRadii_r0, mul_pow, hc]
  field_simp

theorem plate_eqRadius_normalRadii (ar : α) (hc : ∀ x : α, Trans.cbrt x ^ 3 = x) (har : ar ≠ 0) :
    (plate_eqRadius ar * plate_normalRadii_r2 ar) ^ 3 = 3 / (4 * π) := by
  simp only [plate_eqRadius, plate_normalRadii_r2, mul_pow, hc, npow]
  field_simp

end generic

end KawinV.Props.C15
