/-
C15 — precipitate shape factors match the geometry they describe.

Theorems about
* `KawinV.Gen.C15`  — definitions REGENERATED from kawin/precipitation/parameters/ShapeFactors.py
  on every run (inner formulas and `…Min` constants of the four shape descriptions),
* `KawinV.Shape`    — hand model of the public wrappers (`_processAspectRatio`, `…Factor`),
* `KawinV.Bisect`   — hand model of `ShapeFactor._findRcrit` / `_findRcritScalar`,
* `KawinV.SFState`  — setter state machine of `ShapeFactor`, the public `findRcrit`, and the radius
  interface over call histories (`runR`; argument objects carry an explicit identity) together
  with the identity-memo variant (`memoRun`).

Generic part: α is any linearly ordered field with the transcendental atoms `Trans α`; laws of
the atoms that a statement needs (cbrt(x)³ = x, x^(2/3) cubed = x², arccos = π/2 − arcsin,
artanh = ½(log(1+e) − log(1−e))) are explicit hypotheses.  Real part: the atoms are Mathlib's
functions and the laws are proved.
-/
import KawinV.Gen.C15Shape
import KawinV.Model.ShapeWrap
import KawinV.Model.Bisect
import KawinV.Model.ShapeFactorState
import Mathlib.Tactic.Ring
import Mathlib.Tactic.Linarith
import Mathlib.Tactic.FieldSimp
import Mathlib.Tactic.NormNum
import Mathlib.Tactic.Positivity
import Mathlib.Algebra.Order.Field.Basic
import Mathlib.Analysis.SpecialFunctions.Pow.Real
import Mathlib.Analysis.SpecialFunctions.Trigonometric.Inverse
import Mathlib.Analysis.SpecialFunctions.Trigonometric.Arctan
import Mathlib.Analysis.Real.Pi.Bounds
import Mathlib.Analysis.SpecialFunctions.Trigonometric.InverseDeriv
import Mathlib.Analysis.Calculus.Deriv.Slope
import Mathlib.Analysis.SpecialFunctions.Log.Deriv
import Mathlib.Analysis.SpecialFunctions.Pow.Continuity
import Mathlib.Topology.Algebra.Order.Field

set_option linter.unusedSectionVars false
set_option linter.unusedVariables false
set_option linter.unusedSimpArgs false

namespace KawinV.Props.C15
open KawinV KawinV.Gen.C15 KawinV.Shape KawinV.Bisect

/-! ## textbook closed forms (written here by hand; the generated formulas are compared to them) -/
section closedforms
variable {α : Type} [Field α] [Trans α]

/-- eccentricity of a spheroid with short semi-axis `s` and long semi-axis `l` -/
def ecc (s l : α) : α := Trans.sqrt (1 - s ^ 2 / l ^ 2)

/-- surface area of a prolate spheroid (equatorial semi-axis `a`, polar semi-axis `c ≥ a`):
`2πa²(1 + c/(a e) · asin e)` -/
def prolateArea (a c : α) : α :=
  2 * Trans.pi * a ^ 2 * (1 + c / (a * ecc a c) * Trans.arcsin (ecc a c))

/-- surface area of an oblate spheroid (equatorial semi-axis `a`, polar semi-axis `c ≤ a`):
`2πa² + π (c²/e) · log((1+e)/(1−e))`  (= `2πa²(1 + (1−e²)/e · artanh e)`) -/
def oblateArea (a c : α) : α :=
  2 * Trans.pi * a ^ 2 + Trans.pi * (c ^ 2 / ecc c a) * Trans.log ((1 + ecc c a) / (1 - ecc c a))

/-- surface area of a sphere -/
def sphereArea (R : α) : α := 4 * Trans.pi * R ^ 2

/-- surface area of a cuboid with edges `s, s, l` -/
def cuboidArea (s l : α) : α := 2 * (s * s) + 4 * (s * l)

/-- capacitance of a prolate spheroid in units where a sphere of radius R has capacitance R:
`c e / artanh e` -/
def prolateCap (a c : α) : α := c * ecc a c / Trans.arctanh (ecc a c)

/-- capacitance of an oblate spheroid (equatorial `a`, polar `c`): `a e / asin e` -/
def oblateCap (a c : α) : α := a * ecc c a / Trans.arcsin (ecc c a)

end closedforms

section generic
variable {α : Type} [Field α] [LinearOrder α] [IsStrictOrderedRing α] [Trans α]

local notation "π" => (Trans.pi : α)

/-! ## helper lemmas -/

theorem cbrt_ne_zero (hc : ∀ x : α, Trans.cbrt x ^ 3 = x) {x : α} (hx : x ≠ 0) :
    (Trans.cbrt x : α) ≠ 0 := by
  intro h
  have := hc x
  rw [h] at this
  exact hx (by simpa using this.symm)

/-- cubes decide equality of positive numbers -/
theorem eq_of_cube_eq {x y : α} (hx : 0 < x) (hy : 0 < y) (h : x ^ 3 = y ^ 3) : x = y :=
  (pow_left_inj₀ hx.le hy.le (by norm_num)).mp h

/-! ## semi-axes of unit volume -/

/-- **needle, unit volume**: the three semi-axes span a spheroid of volume 1. -/
theorem needle_unit_volume (ar : α) (hc : ∀ x : α, Trans.cbrt x ^ 3 = x) (har : ar ≠ 0) (hpi : π ≠ 0) :
    4 * π / 3 * (needle_normalRadii_r0 ar * needle_normalRadii_r1 ar * needle_normalRadii_r2 ar) = 1 := by
  simp only [needle_normalRadii_r0, needle_normalRadii_r1, needle_normalRadii_r2]
  have hk := hc (3 / (4 * π))
  have hs := hc (1 / ar)
  generalize (Trans.cbrt (3 / (4 * π)) : α) = k at hk
  generalize (Trans.cbrt (1 / ar) : α) = s at hs
  have : 4 * π / 3 * (k * s * (k * s) * (k * (s * ar))) = 4 * π / 3 * (k ^ 3 * s ^ 3 * ar) := by ring
  rw [this, hk, hs]
  field_simp

/-- **needle, aspect ratio**: long / short = ar, and the two short axes are equal. -/
theorem needle_aspect (ar : α) (hc : ∀ x : α, Trans.cbrt x ^ 3 = x) (har : ar ≠ 0) (hpi : π ≠ 0) :
    needle_normalRadii_r2 ar / needle_normalRadii_r0 ar = ar
    ∧ needle_normalRadii_r0 ar = needle_normalRadii_r1 ar := by
  simp only [needle_normalRadii_r0, needle_normalRadii_r1, needle_normalRadii_r2]
  have hk : (Trans.cbrt (3 / (4 * π)) : α) ≠ 0 :=
    cbrt_ne_zero hc (div_ne_zero (by norm_num) (mul_ne_zero (by norm_num) hpi))
  have hs : (Trans.cbrt (1 / ar) : α) ≠ 0 := cbrt_ne_zero hc (one_div_ne_zero har)
  refine ⟨?_, trivial⟩
  field_simp

/-- **plate, unit volume** -/
theorem plate_unit_volume (ar : α) (hc : ∀ x : α, Trans.cbrt x ^ 3 = x) (har : ar ≠ 0) (hpi : π ≠ 0) :
    4 * π / 3 * (plate_normalRadii_r0 ar * plate_normalRadii_r1 ar * plate_normalRadii_r2 ar) = 1 := by
  simp only [plate_normalRadii_r0, plate_normalRadii_r1, plate_normalRadii_r2, npow]
  have hk := hc (3 / (4 * π))
  have hs := hc (1 / (ar * ar))
  generalize (Trans.cbrt (3 / (4 * π)) : α) = k at hk
  generalize (Trans.cbrt (1 / (ar * ar)) : α) = s at hs
  have : 4 * π / 3 * (k * (s * ar) * (k * (s * ar)) * (k * s)) = 4 * π / 3 * (k ^ 3 * s ^ 3 * (ar * ar)) := by ring
  rw [this, hk, hs]
  field_simp

/-- **plate, aspect ratio**: long / short = ar, and the two long axes are equal. -/
theorem plate_aspect (ar : α) (hc : ∀ x : α, Trans.cbrt x ^ 3 = x) (har : ar ≠ 0) (hpi : π ≠ 0) :
    plate_normalRadii_r0 ar / plate_normalRadii_r2 ar = ar
    ∧ plate_normalRadii_r0 ar = plate_normalRadii_r1 ar := by
  simp only [plate_normalRadii_r0, plate_normalRadii_r1, plate_normalRadii_r2, npow]
  have hk : (Trans.cbrt (3 / (4 * π)) : α) ≠ 0 :=
    cbrt_ne_zero hc (div_ne_zero (by norm_num) (mul_ne_zero (by norm_num) hpi))
  have hs : (Trans.cbrt (1 / (ar * ar)) : α) ≠ 0 :=
    cbrt_ne_zero hc (one_div_ne_zero (mul_ne_zero har har))
  generalize (Trans.cbrt (3 / (4 * π)) : α) = k at hk
  generalize (Trans.cbrt (1 / (ar * ar)) : α) = s at hs
  refine ⟨?_, trivial⟩
  field_simp

/-- **sphere, unit volume and aspect ratio 1** (the argument is ignored) -/
theorem sphere_unit_volume (ar : α) (hc : ∀ x : α, Trans.cbrt x ^ 3 = x) (hpi : π ≠ 0) :
    4 * π / 3 * (sphere_normalRadii_r0 ar * sphere_normalRadii_r1 ar * sphere_normalRadii_r2 ar) = 1
    ∧ sphere_normalRadii_r2 ar / sphere_normalRadii_r0 ar = 1 := by
  simp only [sphere_normalRadii_r0, sphere_normalRadii_r1, sphere_normalRadii_r2]
  have hk := hc (3 / (4 * π))
  have hk0 : (Trans.cbrt (3 / (4 * π)) : α) ≠ 0 :=
    cbrt_ne_zero hc (div_ne_zero (by norm_num) (mul_ne_zero (by norm_num) hpi))
  generalize (Trans.cbrt (3 / (4 * π)) : α) = k at hk hk0
  constructor
  · have : 4 * π / 3 * (k * 1 * (k * 1) * (k * 1)) = 4 * π / 3 * k ^ 3 := by ring
    rw [this, hk]; field_simp
  · field_simp

/-- **cuboid, unit volume**: the product of the three edges is 1. -/
theorem cuboid_unit_volume (ar : α) (hc : ∀ x : α, Trans.cbrt x ^ 3 = x) (har : ar ≠ 0) :
    cuboid_normalRadii_r0 ar * cuboid_normalRadii_r1 ar * cuboid_normalRadii_r2 ar = 1 := by
  simp only [cuboid_normalRadii_r0, cuboid_normalRadii_r1, cuboid_normalRadii_r2]
  have hs := hc (1 / ar)
  generalize (Trans.cbrt (1 / ar) : α) = s at hs
  have : s * s * (s * ar) = s ^ 3 * ar := by ring
  rw [this, hs]; field_simp

/-- **cuboid, aspect ratio** -/
theorem cuboid_aspect (ar : α) (hc : ∀ x : α, Trans.cbrt x ^ 3 = x) (har : ar ≠ 0) :
    cuboid_normalRadii_r2 ar / cuboid_normalRadii_r0 ar = ar
    ∧ cuboid_normalRadii_r0 ar = cuboid_normalRadii_r1 ar := by
  simp only [cuboid_normalRadii_r0, cuboid_normalRadii_r1, cuboid_normalRadii_r2]
  have hs : (Trans.cbrt (1 / ar) : α) ≠ 0 := cbrt_ne_zero hc (one_div_ne_zero har)
  refine ⟨?_, trivial⟩
  field_simp

/-! ## equivalent-radius factor: radius of the sphere with the volume of the shape whose short
axis (edge) is 1 -/

/-- needle with semi-axes (1, 1, ar): `4π/3 · R³ = 4π/3 · 1·1·ar` -/
theorem needle_eqRadius_volume (ar : α) (hc : ∀ x : α, Trans.cbrt x ^ 3 = x) :
    4 * π / 3 * needle_eqRadius ar ^ 3 = 4 * π / 3 * (1 * 1 * ar) := by
  simp only [needle_eqRadius, hc]; ring

/-- plate with semi-axes (ar, ar, 1) -/
theorem plate_eqRadius_volume (ar : α) (hc : ∀ x : α, Trans.cbrt x ^ 3 = x) :
    4 * π / 3 * plate_eqRadius ar ^ 3 = 4 * π / 3 * (ar * ar * 1) := by
  simp only [plate_eqRadius, hc, npow]; ring

/-- cuboid with edges (1, 1, ar): `4π/3 · R³ = 1·1·ar` -/
theorem cuboid_eqRadius_volume (ar : α) (hc : ∀ x : α, Trans.cbrt x ^ 3 = x) (hpi : π ≠ 0) :
    4 * π / 3 * cuboid_eqRadius ar ^ 3 = 1 * 1 * ar := by
  simp only [cuboid_eqRadius, hc]; field_simp

theorem sphere_factors_one (ar : α) :
    sphere_eqRadius ar = 1 ∧ sphere_thermoFactor ar = 1 ∧ sphere_kineticFactor ar = 1 := by
  simp only [sphere_eqRadius, sphere_thermoFactor, sphere_kineticFactor, and_self]

/-- the eq.-radius factor and the unit-volume semi-axes are consistent: (factor × short
unit-volume semi-axis)³ is the cubed radius of the unit-volume sphere, 3/(4π). -/
theorem needle_eqRadius_normalRadii (ar : α) (hc : ∀ x : α, Trans.cbrt x ^ 3 = x) (har : ar ≠ 0) :
    (needle_eqRadius ar * needle_normalRadii_r0 ar) ^ 3 = 3 / (4 * π) := by
  simp only [needle_eqRadius, needle_normalRadii_r0, mul_pow, hc]
  field_simp

theorem plate_eqRadius_normalRadii (ar : α) (hc : ∀ x : α, Trans.cbrt x ^ 3 = x) (har : ar ≠ 0) :
    (plate_eqRadius ar * plate_normalRadii_r2 ar) ^ 3 = 3 / (4 * π) := by
  simp only [plate_eqRadius, plate_normalRadii_r2, mul_pow, hc, npow]
  field_simp

/-! ## thermodynamic factor = area of the shape / area of the equal-volume sphere,
kinetic factor = capacitance of the spheroid / radius of the equal-volume sphere -/

/-- `R² = a²·P` from equal volume `R³ = a³·ar` and the power law `P³ = ar²` (P = ar^(2/3)) -/
theorem sq_of_equal_volume {R a ar P : α} (hR : 0 < R) (ha : 0 < a) (hP : 0 < P)
    (hvol : R ^ 3 = a ^ 3 * ar) (hpow : P ^ 3 = ar ^ 2) : R ^ 2 = a ^ 2 * P := by
  apply eq_of_cube_eq (by positivity) (by positivity)
  calc (R ^ 2) ^ 3 = (R ^ 3) ^ 2 := by ring
    _ = (a ^ 3 * ar) ^ 2 := by rw [hvol]
    _ = (a ^ 2) ^ 3 * ar ^ 2 := by ring
    _ = (a ^ 2 * P) ^ 3 := by rw [← hpow]; ring

/-- **needle, thermodynamic factor**: for the prolate spheroid with short semi-axis `a` and long
semi-axis `c = ar·a`, and the sphere of the same volume (`R³ = a²c`), the generated
`_thermoFactor` is `prolateArea a c / sphereArea R`.  `ar^(2/3)` enters through its law
`(ar^(2/3))³ = ar²`. -/
theorem needle_thermo_is_area_ratio (a ar R : α) (ha : 0 < a) (har : 0 < ar) (hR : 0 < R)
    (hpi : π ≠ 0)
    (hvol : R ^ 3 = a ^ 2 * (ar * a))
    (hP : 0 < (Trans.pow ar (2 / 3) : α)) (hpow : (Trans.pow ar (2 / 3) : α) ^ 3 = ar ^ 2) :
    needle_thermoFactor ar = prolateArea a (ar * a) / sphereArea R := by
  have hR2 : R ^ 2 = a ^ 2 * Trans.pow ar (2 / 3) :=
    sq_of_equal_volume hR ha hP (by rw [hvol]; ring) hpow
  have he : (1 : α) - a ^ 2 / (ar * a) ^ 2 = 1 - 1 / (ar * ar) := by
    have := ha.ne'; have := har.ne'; field_simp
  simp only [needle_thermoFactor, prolateArea, sphereArea, ecc, npow, hR2, he]
  generalize (Trans.sqrt (1 - 1 / (ar * ar)) : α) = e
  generalize (Trans.arcsin e : α) = A
  generalize (Trans.pow ar (2 / 3) : α) = P at hP
  have h1 : ar * a / (a * e) = ar / e := by rw [mul_comm ar a]; exact mul_div_mul_left _ _ ha.ne'
  rw [h1]
  have := ha.ne'; have := hP.ne'
  field_simp
  ring

/-- **needle, kinetic factor**: generated `_kineticFactor` = `prolateCap a c / R` with `c = ar·a`
and `R³ = a²c`; `artanh e = ½(log(1+e) − log(1−e))`. -/
theorem needle_kinetic_is_capacitance_ratio (a ar R : α) (ha : 0 < a) (har : 0 < ar) (hR : 0 < R)
    (hvol : R ^ 3 = a ^ 2 * (ar * a))
    (hC : 0 < (Trans.cbrt (ar * ar) : α)) (hcb : (Trans.cbrt (ar * ar) : α) ^ 3 = ar * ar)
    (hat : ∀ e : α, Trans.arctanh e = (Trans.log (1 + e) - Trans.log (1 - e)) / 2) :
    needle_kineticFactor ar = prolateCap a (ar * a) / R := by
  have he : (1 : α) - a ^ 2 / (ar * a) ^ 2 = 1 - 1 / (ar * ar) := by
    have := ha.ne'; have := har.ne'; field_simp
  -- R · cbrt(ar²) = ar · a
  have hRC : R * Trans.cbrt (ar * ar) = ar * a := by
    apply eq_of_cube_eq (by positivity) (by positivity)
    rw [mul_pow, hvol, hcb]; ring
  simp only [needle_kineticFactor, prolateCap, ecc, npow, he, hat]
  generalize (Trans.sqrt (1 - 1 / (ar * ar)) : α) = e
  generalize (Trans.log (1 + e) - Trans.log (1 - e) : α) = L
  rw [← hRC]
  generalize (Trans.cbrt (ar * ar) : α) = C at hC
  have := hR.ne'
  rw [div_div_eq_mul_div, div_div]
  by_cases hL : L = 0
  · simp [hL]
  · field_simp

/-- **plate, thermodynamic factor**: oblate spheroid with long semi-axis `a = ar·c`, short
semi-axis `c`, equal-volume sphere `R³ = a²c`; `ar^(4/3)` through `(ar^(4/3))³ = ar⁴`. -/
theorem plate_thermo_is_area_ratio (c ar R : α) (hc0 : 0 < c) (har : 0 < ar) (hR : 0 < R)
    (hpi : π ≠ 0)
    (hvol : R ^ 3 = (ar * c) ^ 2 * c)
    (hP : 0 < (Trans.pow ar (4 / 3) : α)) (hpow : (Trans.pow ar (4 / 3) : α) ^ 3 = ar ^ 4) :
    plate_thermoFactor ar = oblateArea (ar * c) c / sphereArea R := by
  have hR2 : R ^ 2 = c ^ 2 * Trans.pow ar (4 / 3) := by
    apply eq_of_cube_eq (by positivity) (by positivity)
    calc (R ^ 2) ^ 3 = (R ^ 3) ^ 2 := by ring
      _ = ((ar * c) ^ 2 * c) ^ 2 := by rw [hvol]
      _ = (c ^ 2) ^ 3 * ar ^ 4 := by ring
      _ = (c ^ 2 * Trans.pow ar (4 / 3)) ^ 3 := by rw [← hpow]; ring
  have he : (1 : α) - c ^ 2 / (ar * c) ^ 2 = 1 - 1 / (ar * ar) := by
    have := hc0.ne'; have := har.ne'; field_simp
  simp only [plate_thermoFactor, oblateArea, sphereArea, ecc, npow, hR2, he]
  generalize (Trans.sqrt (1 - 1 / (ar * ar)) : α) = e
  generalize (Trans.log ((1 + e) / (1 - e)) : α) = L
  generalize (Trans.pow ar (4 / 3) : α) = P at hP
  have := hc0.ne'; have := hP.ne'
  by_cases h0 : e = 0
  · simp only [h0, mul_zero, div_zero, zero_mul, mul_zero, add_zero]; field_simp; ring
  · field_simp; ring

/-- **plate, kinetic factor**: generated `_kineticFactor` = `oblateCap a c / R` with `a = ar·c`,
`R³ = a²c`; `arccos e = π/2 − arcsin e`. -/
theorem plate_kinetic_is_capacitance_ratio (c ar R : α) (hc0 : 0 < c) (har : 0 < ar) (hR : 0 < R)
    (hvol : R ^ 3 = (ar * c) ^ 2 * c)
    (hK : 0 < (Trans.cbrt ar : α)) (hcb : (Trans.cbrt ar : α) ^ 3 = ar)
    (hac : ∀ e : α, Trans.arccos e = π / 2 - Trans.arcsin e) :
    plate_kineticFactor ar = oblateCap (ar * c) c / R := by
  have he : (1 : α) - c ^ 2 / (ar * c) ^ 2 = 1 - 1 / (ar * ar) := by
    have := hc0.ne'; have := har.ne'; field_simp
  have hRK : R * Trans.cbrt ar = ar * c := by
    apply eq_of_cube_eq (by positivity) (by positivity)
    rw [mul_pow, hvol, hcb]; ring
  simp only [plate_kineticFactor, oblateCap, ecc, npow, he, hac]
  generalize (Trans.sqrt (1 - 1 / (ar * ar)) : α) = e
  rw [← hRK, sub_sub_cancel]
  generalize (Trans.arcsin e : α) = A
  generalize (Trans.cbrt ar : α) = K at hK
  have := hR.ne'
  by_cases hA : A = 0
  · simp [hA]
  · field_simp

/-- **cuboid, thermodynamic factor**: cuboid with edges `s, s, ar·s`, sphere of the same volume
(`4π/3·R³ = s²·ar·s`): generated `_thermoFactor` = `cuboidArea / sphereArea`.
`Q = (4π/(3ar))^(2/3)` through `Q³ = (4π/(3ar))²`. -/
theorem cuboid_thermo_is_area_ratio (s ar R : α) (hs : 0 < s) (har : 0 < ar) (hR : 0 < R)
    (hpi : 0 < π)
    (hvol : 4 * π / 3 * R ^ 3 = s * s * (ar * s))
    (hQ : 0 < (Trans.pow (4 * π / (3 * ar)) (2 / 3) : α))
    (hpow : (Trans.pow (4 * π / (3 * ar)) (2 / 3) : α) ^ 3 = (4 * π / (3 * ar)) ^ 2) :
    cuboid_thermoFactor ar = cuboidArea s (ar * s) / sphereArea R := by
  have hR3 : R ^ 3 = 3 * ar * s ^ 3 / (4 * π) := by
    have := hpi.ne'; field_simp; linarith
  have hs2 : s ^ 2 = R ^ 2 * Trans.pow (4 * π / (3 * ar)) (2 / 3) := by
    apply eq_of_cube_eq (by positivity) (by positivity)
    have := hpi.ne'; have := har.ne'
    calc (s ^ 2) ^ 3 = (3 * ar * s ^ 3 / (4 * π)) ^ 2 * (4 * π / (3 * ar)) ^ 2 := by field_simp
      _ = (R ^ 3) ^ 2 * Trans.pow (4 * π / (3 * ar)) (2 / 3) ^ 3 := by rw [hR3, hpow]
      _ = (R ^ 2 * Trans.pow (4 * π / (3 * ar)) (2 / 3)) ^ 3 := by ring
  simp only [cuboid_thermoFactor, cuboidArea, sphereArea]
  have e1 : 2 * (s * s) + 4 * (s * (ar * s)) = (2 * ar + 1) * 2 * s ^ 2 := by ring
  rw [e1, hs2]
  generalize (Trans.pow (4 * π / (3 * ar)) (2 / 3) : α) = Q
  have := hpi.ne'; have := hR.ne'
  field_simp
  ring


/-! ## the `…Min` constants, value at and below 1, continuity at 1 -/

theorem cbrt_one (hc : ∀ x : α, Trans.cbrt x ^ 3 = x) : (Trans.cbrt 1 : α) = 1 := by
  have h : (Trans.cbrt 1 : α) ^ 3 = 1 ^ 3 := by rw [hc]; norm_num
  exact (Odd.strictMono_pow (by decide : Odd 3)).injective h

/-- needle, plate, sphere: the constants the wrappers return at ar ≤ 1 are all 1
(as computed by `ShapeDescriptionBase.__init__`). -/
theorem mins_are_one :
    (needle_eqRadiusFactorMin : α) = 1 ∧ (needle_thermoFactorMin : α) = 1 ∧ (needle_kineticFactorMin : α) = 1
    ∧ (plate_eqRadiusFactorMin : α) = 1 ∧ (plate_thermoFactorMin : α) = 1 ∧ (plate_kineticFactorMin : α) = 1
    ∧ (sphere_eqRadiusFactorMin : α) = 1 ∧ (sphere_thermoFactorMin : α) = 1 ∧ (sphere_kineticFactorMin : α) = 1 := by
  simp only [needle_eqRadiusFactorMin, needle_thermoFactorMin, needle_kineticFactorMin,
    plate_eqRadiusFactorMin, plate_thermoFactorMin, plate_kineticFactorMin,
    sphere_eqRadiusFactorMin, sphere_thermoFactorMin, sphere_kineticFactorMin, and_self]

/-- needle / plate eq.-radius factor: the constant is the formula at 1 (`cbrt 1 = 1`). -/
theorem needle_eqRadiusFactorMin_eq (hc : ∀ x : α, Trans.cbrt x ^ 3 = x) :
    (needle_eqRadiusFactorMin : α) = needle_eqRadius 1 := by
  simp only [needle_eqRadiusFactorMin, needle_eqRadius, cbrt_one hc]

theorem plate_eqRadiusFactorMin_eq (hc : ∀ x : α, Trans.cbrt x ^ 3 = x) :
    (plate_eqRadiusFactorMin : α) = plate_eqRadius 1 := by
  simp only [plate_eqRadiusFactorMin, plate_eqRadius, npow, mul_one, cbrt_one hc]

theorem sphere_mins_eq (ar : α) :
    (sphere_eqRadiusFactorMin : α) = sphere_eqRadius ar ∧ (sphere_thermoFactorMin : α) = sphere_thermoFactor ar
    ∧ (sphere_kineticFactorMin : α) = sphere_kineticFactor ar := by
  simp only [sphere_eqRadiusFactorMin, sphere_eqRadius, sphere_thermoFactorMin, sphere_thermoFactor,
    sphere_kineticFactorMin, sphere_kineticFactor, and_self]

/-- **cuboid, eq.-radius factor: the constant IS the formula at 1** (true of the repaired code;
before the repair the constant was 1, see `cuboid_eqRadius_at_one_ne_one`). -/
theorem cuboid_eqRadiusFactorMin_eq : (cuboid_eqRadiusFactorMin : α) = cuboid_eqRadius 1 := by
  simp only [cuboid_eqRadiusFactorMin, cuboid_eqRadius, mul_one]

/-- **cuboid, thermodynamic factor: the constant IS the formula at 1** -/
theorem cuboid_thermoFactorMin_eq : (cuboid_thermoFactorMin : α) = cuboid_thermoFactor 1 := by
  simp only [cuboid_thermoFactorMin, cuboid_thermoFactor, mul_one]
  norm_num

/-- the cuboid formulas at 1 are not 1: with the constants taken as 1 (the code before the
repair, `eqRadiusFactorMin = self.eqRadiusFactor(1)`) the eq.-radius factor jumped at ar = 1. -/
theorem cuboid_eqRadius_at_one_ne_one (hc : ∀ x : α, Trans.cbrt x ^ 3 = x) (hpi : 3 < π) :
    (cuboid_eqRadius 1 : α) ≠ 1 := by
  simp only [cuboid_eqRadius, mul_one]
  intro h
  have h3 := hc (3 / (4 * π))
  rw [h] at h3
  have hp : (0 : α) < 4 * π := by linarith
  have : (3 : α) = 4 * π := by
    have h4 := h3.symm
    rw [div_eq_iff hp.ne'] at h4; linarith
  linarith

/-- … and the thermodynamic factor: `formula(1)³ = 6/π`, which is 1 only if π = 6. -/
theorem cuboid_thermo_at_one_cubed (hpi : π ≠ 0)
    (hpow : (Trans.pow (4 * π / 3) (2 / 3) : α) ^ 3 = (4 * π / 3) ^ 2) :
    (cuboid_thermoFactor 1 : α) ^ 3 = 6 / π := by
  simp only [cuboid_thermoFactor, mul_one, mul_pow, hpow]
  field_simp
  ring

theorem cuboid_thermo_at_one_ne_one (hpi0 : 0 < π) (hpi : π < 6)
    (hpow : (Trans.pow (4 * π / 3) (2 / 3) : α) ^ 3 = (4 * π / 3) ^ 2) :
    (cuboid_thermoFactor 1 : α) ≠ 1 := by
  intro h
  have h3 := cuboid_thermo_at_one_cubed hpi0.ne' hpow
  rw [h, one_pow, eq_div_iff hpi0.ne'] at h3
  linarith

/-! ## wrappers: clamp, value at ar ≤ 1, scalar = array, no mutation -/

theorem clamp_of_lt {ar : α} (h : ar < 1) : clamp ar = 1 := by simp [clamp, h]

theorem clamp_of_ge {ar : α} (h : 1 ≤ ar) : clamp ar = ar := by simp [clamp, not_lt.mpr h]

theorem clamp_eq_max (ar : α) : clamp ar = max ar 1 := by
  unfold clamp; split
  · next h => exact (max_eq_right h.le).symm
  · next h => exact (max_eq_left (not_lt.mp h)).symm

theorem one_le_clamp (ar : α) : 1 ≤ clamp ar := by rw [clamp_eq_max]; exact le_max_right _ _

/-- **clamp without mutation**: the caller's array after `_processAspectRatio` is the array
that was passed in (model of the repaired code; correspondence compares the real argument
arrays before and after every call). -/
theorem processAspectRatio_caller_unchanged (ars : List α) : (processAspectRatio ars).2 = ars := rfl

theorem processAspectRatio_clamps (ars : List α) :
    (processAspectRatio ars).1 = ars.map (fun a => max a 1) := by
  simp [processAspectRatio, clamp_eq_max]

/-- closed form of the wrapper called with a scalar -/
theorem wrapScalar_eq (fmin : α) (f : α → α) (ar : α) :
    wrapScalar fmin f ar = if 1 < clamp ar then f (clamp ar) else fmin := by
  unfold wrapScalar wrapArr processAspectRatio
  by_cases h : 1 < clamp ar
  · simp [h, scatter, List.filter]
  · simp [h, scatter, List.filter]

/-- `factor = fmin·ones; factor[ar > 1] = f(ar[ar > 1])` is the element-wise choice -/
theorem scatter_spec (fmin : α) (f : α → α) (a : List α) :
    scatter (a.map (fun _ => fmin * 1)) (a.map (fun x => decide (1 < x)))
        ((a.filter (fun x => decide (1 < x))).map f)
      = a.map (fun x => if 1 < x then f x else fmin) := by
  induction a with
  | nil => simp [scatter]
  | cons x xs ih =>
    by_cases h : 1 < x
    · simp only [List.map_cons, h, decide_true, List.filter_cons_of_pos, scatter, if_true, ih]
    · simp only [List.map_cons, h, decide_false, Bool.false_eq_true, not_false_eq_true,
        List.filter_cons_of_neg, scatter, if_false]
      rw [ih, mul_one]

/-- **scalar = array**: the array call is the scalar call applied element by element. -/
theorem wrapArr_eq_map (fmin : α) (f : α → α) (ars : List α) :
    wrapArr fmin f ars = ars.map (wrapScalar fmin f) := by
  have := scatter_spec fmin f (ars.map clamp)
  unfold wrapArr processAspectRatio
  dsimp only
  rw [this, List.map_map]
  apply List.map_congr_left
  intro a _
  simp [wrapScalar_eq]

/-- **value at ar ≤ 1**: the wrappers return the `…Min` constant. -/
theorem wrapScalar_le_one (fmin : α) (f : α → α) {ar : α} (h : ar ≤ 1) :
    wrapScalar fmin f ar = fmin := by
  rw [wrapScalar_eq]
  have : clamp ar = 1 := by
    rcases h.lt_or_eq with h | h
    · exact clamp_of_lt h
    · rw [h]; exact clamp_of_ge le_rfl
  simp [this]

/-- above 1 the wrapper is the inner formula -/
theorem wrapScalar_gt_one (fmin : α) (f : α → α) {ar : α} (h : 1 < ar) :
    wrapScalar fmin f ar = f ar := by
  rw [wrapScalar_eq, clamp_of_ge h.le]; simp [h]

/-- **below 1 is treated as 1** -/
theorem wrapScalar_below_one_as_one (fmin : α) (f : α → α) {ar : α} (h : ar < 1) :
    wrapScalar fmin f ar = wrapScalar fmin f 1 := by
  rw [wrapScalar_le_one fmin f h.le, wrapScalar_le_one fmin f le_rfl]

/-- **continuity at 1 ⇔ `…Min = formula(1)`** (algebraic form): the wrapper is the inner formula
composed with the clamp — hence as continuous as the formula — exactly when the constant is the
formula at 1. -/
theorem wrapScalar_eq_comp_clamp_iff (fmin : α) (f : α → α) :
    (∀ ar, wrapScalar fmin f ar = f (clamp ar)) ↔ fmin = f 1 := by
  constructor
  · intro h
    have := h 1
    rwa [wrapScalar_le_one fmin f le_rfl, clamp_of_ge le_rfl] at this
  · intro h ar
    rw [wrapScalar_eq]
    split
    · rfl
    · next hn =>
      have : clamp ar = 1 := le_antisymm (not_lt.mp hn) (one_le_clamp ar)
      rw [this, h]

/-- cuboid eq.-radius and thermodynamic factor: the public functions are the formulas composed
with the clamp (no jump at 1). -/
theorem cuboid_wrappers_no_jump (ar : α) :
    wrapScalar cuboid_eqRadiusFactorMin cuboid_eqRadius ar = cuboid_eqRadius (clamp ar)
    ∧ wrapScalar cuboid_thermoFactorMin cuboid_thermoFactor ar = cuboid_thermoFactor (clamp ar) :=
  ⟨(wrapScalar_eq_comp_clamp_iff _ _).mpr cuboid_eqRadiusFactorMin_eq ar,
   (wrapScalar_eq_comp_clamp_iff _ _).mpr cuboid_thermoFactorMin_eq ar⟩

/-- the same for the needle / plate eq.-radius factor -/
theorem needle_plate_eqRadius_no_jump (hc : ∀ x : α, Trans.cbrt x ^ 3 = x) (ar : α) :
    wrapScalar needle_eqRadiusFactorMin needle_eqRadius ar = needle_eqRadius (clamp ar)
    ∧ wrapScalar plate_eqRadiusFactorMin plate_eqRadius ar = plate_eqRadius (clamp ar) :=
  ⟨(wrapScalar_eq_comp_clamp_iff _ _).mpr (needle_eqRadiusFactorMin_eq hc) ar,
   (wrapScalar_eq_comp_clamp_iff _ _).mpr (plate_eqRadiusFactorMin_eq hc) ar⟩

/-- `normalRadii`: scalar call = formula at the clamped ratio; array call = element-wise. -/
theorem radiiScalar_eq (f : α → List α) (ar : α) : radiiScalar f ar = f (clamp ar) := by
  simp [radiiScalar, radiiArr, processAspectRatio]

theorem radiiArr_eq_map (f : α → List α) (ars : List α) :
    radiiArr f ars = ars.map (radiiScalar f) := by
  simp [radiiArr, processAspectRatio, radiiScalar_eq, List.map_map]

/-- the semi-axes theorems reach the public `normalRadii`: for every input (also below 1) the
needle semi-axes returned have unit volume and aspect ratio `max ar 1`. -/
theorem needle_normalRadii_public (ar : α) (hc : ∀ x : α, Trans.cbrt x ^ 3 = x) (hpi : π ≠ 0) :
    radiiScalar needle_normalRadii_all ar
      = [needle_normalRadii_r0 (max ar 1), needle_normalRadii_r1 (max ar 1), needle_normalRadii_r2 (max ar 1)]
    ∧ 4 * π / 3 * (needle_normalRadii_r0 (max ar 1) * needle_normalRadii_r1 (max ar 1)
        * needle_normalRadii_r2 (max ar 1)) = 1
    ∧ needle_normalRadii_r2 (max ar 1) / needle_normalRadii_r0 (max ar 1) = max ar 1 := by
  have h0 : max ar 1 ≠ 0 := (lt_of_lt_of_le one_pos (le_max_right ar 1)).ne'
  refine ⟨by rw [radiiScalar_eq, clamp_eq_max]; rfl, needle_unit_volume _ hc h0 hpi,
    (needle_aspect _ hc h0 hpi).1⟩

end generic

/-! ## critical-radius search (`KawinV.Bisect`) -/
section bisect
variable {α : Type} [Field α] [LinearOrder α] [IsStrictOrderedRing α]

theorem absS_eq_abs (x : α) : absS x = |x| := by
  unfold absS; split
  · next h => exact (abs_of_neg h).symm
  · next h => exact (abs_of_nonneg (not_lt.mp h)).symm

/-- the stored objective values belong to the stored radii and `midR` is the midpoint -/
def Consistent (Rs : α) (tf : α → α) (s : St α) : Prop :=
  s.fMin = obj Rs tf s.minR ∧ s.fMax = obj Rs tf s.maxR ∧ s.fMid = obj Rs tf s.midR
    ∧ s.midR = (s.minR + s.maxR) / 2

theorem init_consistent (Rs Rmax : α) (tf : α → α) : Consistent Rs tf (init Rs Rmax tf) := by
  simp [Consistent, init]

theorem step_consistent (Rs : α) (tf : α → α) (s : St α) (h : Consistent Rs tf s) :
    Consistent Rs tf (step Rs tf s) := by
  obtain ⟨h1, h2, h3, h4⟩ := h
  unfold step Consistent
  by_cases hc : 0 ≤ s.fMin * s.fMid
  · simp only [hc, if_true]; simp [← h2, ← h3]
  · simp only [hc, if_false]; simp [← h1, ← h3]

/-- an invariant of the loop body holds in the state the loop stops in -/
theorem loop_final_inv (tol Rs : α) (tf : α → α) (Inv : St α → Prop)
    (hstep : ∀ s, Inv s → tol < absS s.fMid → Inv (step Rs tf s)) :
    ∀ (fuel n : Nat) (s : St α), Inv s → Inv (loop tol Rs tf fuel n s).final := by
  intro fuel
  induction fuel with
  | zero => intro n s h; simpa [loop] using h
  | succ k ih =>
    intro n s h
    unfold loop
    split
    · next hgt => exact ih (n+1) _ (hstep s h hgt)
    · exact h

/-- **result specification** of the loop: either the tolerance test passed on the returned radius,
or all the fuel was used and `RcritSphere` is returned. -/
theorem loop_spec (tol Rs : α) (tf : α → α) :
    ∀ (fuel n : Nat) (s : St α), s.fMid = obj Rs tf s.midR →
      ((loop tol Rs tf fuel n s).fallback = false
          ∧ |obj Rs tf (loop tol Rs tf fuel n s).r| ≤ tol
          ∧ (loop tol Rs tf fuel n s).r = (loop tol Rs tf fuel n s).final.midR
          ∧ (loop tol Rs tf fuel n s).iters < n + fuel)
      ∨ ((loop tol Rs tf fuel n s).fallback = true
          ∧ (loop tol Rs tf fuel n s).iters = n + fuel
          ∧ (loop tol Rs tf fuel n s).r = Rs) := by
  intro fuel
  induction fuel with
  | zero => intro n s _; right; simp [loop]
  | succ k ih =>
    intro n s hs
    unfold loop
    split
    · next hgt =>
      have hs' : (step Rs tf s).fMid = obj Rs tf (step Rs tf s).midR := by simp [step]
      rcases ih (n+1) _ hs' with h | h
      · left; refine ⟨h.1, h.2.1, h.2.2.1, ?_⟩; have := h.2.2.2; omega
      · right; refine ⟨h.1, ?_, h.2.2⟩; have := h.2.1; omega
    · next hle =>
      left
      refine ⟨rfl, ?_, rfl, by simp⟩
      rw [← hs, ← absS_eq_abs]
      exact not_lt.mp hle

/-- **`_findRcrit`, result**: the returned radius `r` satisfies `|r/(Rs·f(r)) − 1| ≤ tol`
(after fewer than 100 iterations), **or** 100 iterations were used and the fallback
`RcritSphere` is returned. -/
theorem findRcrit_spec (tol Rs Rmax : α) (tf : α → α) :
    ((findRcrit tol Rs Rmax tf).fallback = false
        ∧ |(findRcrit tol Rs Rmax tf).r / (Rs * tf (findRcrit tol Rs Rmax tf).r) - 1| ≤ tol
        ∧ (findRcrit tol Rs Rmax tf).iters < 100)
    ∨ ((findRcrit tol Rs Rmax tf).fallback = true
        ∧ (findRcrit tol Rs Rmax tf).iters = 100
        ∧ (findRcrit tol Rs Rmax tf).r = Rs) := by
  have h := loop_spec tol Rs tf 100 0 (init Rs Rmax tf) (by simp [init])
  unfold findRcrit
  rcases h with h | h
  · left; refine ⟨h.1, ?_, by simpa using h.2.2.2⟩; simpa [obj] using h.2.1
  · right; exact ⟨h.1, by simpa using h.2.1, h.2.2⟩

/-- the bracket invariant: the lower objective value is non-zero and the two ends do not have
the same strict sign -/
def Bracket (s : St α) : Prop := s.fMin ≠ 0 ∧ s.fMin * s.fMax ≤ 0

/-- **the bracket keeps `fMin·fMax ≤ 0`**: one execution of the loop body (entered only when
`|fMid| > tol ≥ 0`) preserves the bracket invariant. -/
theorem step_bracket (tol Rs : α) (tf : α → α) (htol : 0 ≤ tol) (s : St α)
    (h : Bracket s) (hgt : tol < absS s.fMid) : Bracket (step Rs tf s) := by
  obtain ⟨h0, hle⟩ := h
  have hmid : s.fMid ≠ 0 := by
    intro hz
    rw [hz] at hgt
    have : absS (0 : α) = 0 := by simp [absS]
    rw [this] at hgt
    exact absurd hgt (not_lt.mpr htol)
  unfold step Bracket
  by_cases hc : 0 ≤ s.fMin * s.fMid
  · simp only [hc, if_true]
    refine ⟨hmid, ?_⟩
    -- fMin and fMid have the same strict sign, fMin and fMax do not
    have hpos : 0 < s.fMin * s.fMid := lt_of_le_of_ne hc (Ne.symm (mul_ne_zero h0 hmid))
    by_contra hcon
    have hcon : 0 < s.fMid * s.fMax := not_le.mp hcon
    have : 0 < (s.fMin * s.fMid) * (s.fMid * s.fMax) := mul_pos hpos hcon
    have h2 : (s.fMin * s.fMid) * (s.fMid * s.fMax) = (s.fMin * s.fMax) * (s.fMid * s.fMid) := by ring
    have h3 : 0 < s.fMid * s.fMid := mul_self_pos.mpr hmid
    have : (s.fMin * s.fMax) * (s.fMid * s.fMid) ≤ 0 := mul_nonpos_of_nonpos_of_nonneg hle h3.le
    linarith
  · simp only [hc, if_false]
    exact ⟨h0, (not_le.mp hc).le⟩

/-- the root at the lower end is the one case the invariant needs excluded: with `fMin = 0`
the first test `fMin*fMid >= 0` holds trivially and the bracket moves off the root. -/
example : ∃ s : St ℚ, s.fMin * s.fMax ≤ 0 ∧ (1:ℚ)/1000 < absS s.fMid
    ∧ ¬ ((step 1 (fun _ => 1) s).fMin * (step 1 (fun _ => 1) s).fMax ≤ 0) :=
  ⟨⟨1, 3, 2, 0, 2, 1⟩, by norm_num, by norm_num [absS], by norm_num [step, obj]⟩

/-- **the bracket halves** -/
theorem step_width (Rs : α) (tf : α → α) (s : St α) (hm : s.midR = (s.minR + s.maxR) / 2) :
    (step Rs tf s).maxR - (step Rs tf s).minR = (s.maxR - s.minR) / 2 := by
  unfold step
  by_cases hc : 0 ≤ s.fMin * s.fMid <;> simp only [hc, if_true, if_false, hm] <;> ring

/-- the bracket stays inside the initial one -/
theorem step_nested (Rs : α) (tf : α → α) (s : St α) (hm : s.midR = (s.minR + s.maxR) / 2)
    (hle : s.minR ≤ s.maxR) :
    s.minR ≤ (step Rs tf s).minR ∧ (step Rs tf s).minR ≤ (step Rs tf s).maxR
      ∧ (step Rs tf s).maxR ≤ s.maxR := by
  unfold step
  by_cases hc : 0 ≤ s.fMin * s.fMid <;> simp only [hc, if_true, if_false, hm] <;>
    refine ⟨?_, ?_, ?_⟩ <;> linarith

/-- width after the loop: `(maxR − minR)·2^iters` is the initial width -/
theorem loop_width (tol Rs : α) (tf : α → α) (W : α) :
    ∀ (fuel n : Nat) (s : St α), Consistent Rs tf s → (s.maxR - s.minR) * 2 ^ n = W →
      ((loop tol Rs tf fuel n s).final.maxR - (loop tol Rs tf fuel n s).final.minR)
        * 2 ^ (loop tol Rs tf fuel n s).iters = W := by
  intro fuel
  induction fuel with
  | zero => intro n s _ h; simpa [loop] using h
  | succ k ih =>
    intro n s hc h
    unfold loop
    split
    · apply ih (n+1) _ (step_consistent Rs tf s hc)
      rw [step_width Rs tf s hc.2.2.2, pow_succ, ← h]; ring
    · simpa using h

/-- **`_findRcrit`, bracket**: if the objective is non-zero at `RcritSphere`, does not have the
same strict sign at `Rmax`, and `RcritSphere ≤ Rmax`, then when the search stops the stored
bracket `[minR, maxR]`
* still has objective values of opposite (or zero upper) sign at its ends (`f(minR)·f(maxR) ≤ 0`),
* has width `(Rmax − RcritSphere) / 2^iters`,
* lies inside `[RcritSphere, Rmax]` and contains the radius that is returned on convergence. -/
theorem findRcrit_bracket (tol Rs Rmax : α) (tf : α → α) (htol : 0 ≤ tol) (hle : Rs ≤ Rmax)
    (h0 : obj Rs tf Rs ≠ 0) (hsign : obj Rs tf Rs * obj Rs tf Rmax ≤ 0) :
    let o := findRcrit tol Rs Rmax tf
    obj Rs tf o.final.minR * obj Rs tf o.final.maxR ≤ 0
    ∧ (o.final.maxR - o.final.minR) * 2 ^ o.iters = Rmax - Rs
    ∧ Rs ≤ o.final.minR ∧ o.final.minR ≤ o.final.maxR ∧ o.final.maxR ≤ Rmax
    ∧ (o.fallback = false → o.final.minR ≤ o.r ∧ o.r ≤ o.final.maxR) := by
  intro o
  -- one combined invariant
  let Inv : St α → Prop := fun s =>
    Consistent Rs tf s ∧ Bracket s ∧ Rs ≤ s.minR ∧ s.minR ≤ s.maxR ∧ s.maxR ≤ Rmax
  have hInv0 : Inv (init Rs Rmax tf) :=
    ⟨init_consistent Rs Rmax tf, ⟨by simpa [init] using h0, by simpa [init] using hsign⟩,
      by simp [init], by simpa [init] using hle, by simp [init]⟩
  have hstep : ∀ s, Inv s → tol < absS s.fMid → Inv (step Rs tf s) := by
    intro s ⟨hc, hb, h1, h2, h3⟩ hgt
    obtain ⟨n1, n2, n3⟩ := step_nested Rs tf s hc.2.2.2 h2
    exact ⟨step_consistent Rs tf s hc, step_bracket tol Rs tf htol s hb hgt,
      le_trans h1 n1, n2, le_trans n3 h3⟩
  have hfin : Inv o.final := loop_final_inv tol Rs tf Inv hstep 100 0 _ hInv0
  obtain ⟨hc, hb, h1, h2, h3⟩ := hfin
  have hw := loop_width tol Rs tf (Rmax - Rs) 100 0 (init Rs Rmax tf)
    (init_consistent Rs Rmax tf) (by simp [init])
  refine ⟨?_, hw, h1, h2, h3, ?_⟩
  · rw [← hc.1, ← hc.2.1]; exact hb.2
  · intro hf
    rcases loop_spec tol Rs tf 100 0 (init Rs Rmax tf) (by simp [init]) with h | h
    · have hr : o.r = o.final.midR := h.2.2.1
      rw [hr, hc.2.2.2]
      constructor <;> linarith
    · have : o.fallback = true := h.1
      rw [hf] at this; exact absurd this (by simp)

/-- **scalar aspect ratio**: `_findRcritScalar` returns `RcritSphere·f`, which is an exact root of
the objective when the thermodynamic factor does not depend on the radius. -/
theorem findRcritScalar_root (Rs t : α) (hRs : Rs ≠ 0) (ht : t ≠ 0) :
    obj Rs (fun _ => t) (findRcritScalar Rs (fun _ => t)) = 0 := by
  simp only [obj, findRcritScalar]
  field_simp
  ring

theorem findRcritScalar_eq (Rs : α) (tf : α → α) : findRcritScalar Rs tf = Rs * tf Rs := rfl

end bisect

/-! ## setter histories: which critical-radius search is active (`KawinV.SFState`) -/
section history
open KawinV.SFState
variable {α φ : Type} [Field α] [LinearOrder α] [IsStrictOrderedRing α]

/-- the aspect-ratio specification a setter call leaves behind (it never depends on the past) -/
def opSpec (cur : ArSpec α φ) : Op α φ → ArSpec α φ
  | .setAspectRatio s => s
  | .setShape _ s => s
  | .setSpherical => .scalar 1

def opShape (cur : Nat) : Op α φ → Nat
  | .setAspectRatio _ => cur
  | .setShape sh _ => sh
  | .setSpherical => 3

/-- the LAST aspect-ratio specification / shape of a history -/
def lastSpec (s0 : ArSpec α φ) (ops : List (Op α φ)) : ArSpec α φ := ops.foldl opSpec s0
def lastShape (sh0 : Nat) (ops : List (Op α φ)) : Nat := ops.foldl opShape sh0

def searchFor : ArSpec α φ → Search
  | .scalar _ => .closedForm
  | .func _ => .bisection

/-- the object is exactly what shape `sh` and specification `s` ask for -/
def Matches (st : St α φ) (sh : Nat) (s : ArSpec α φ) : Prop :=
  st.shape = sh ∧ st.search = searchFor s ∧
    match s with
    | .scalar c => st.aspectFn = none ∧ st.scalarAttr = some c
    | .func f => st.aspectFn = some f

theorem setAR_matches (st : St α φ) (s : ArSpec α φ) : Matches (setAR st s) st.shape s := by
  cases s <;> simp [Matches, setAR, searchFor]

theorem apply_matches (st : St α φ) (cur : ArSpec α φ) (op : Op α φ) :
    Matches (SFState.apply st op) (opShape st.shape op) (opSpec cur op) := by
  cases op with
  | setAspectRatio s => exact setAR_matches st s
  | setShape sh s => exact setAR_matches { st with shape := sh } s
  | setSpherical => exact setAR_matches { st with shape := 3 } (.scalar 1)

theorem foldl_matches (ops : List (Op α φ)) :
    ∀ (st : St α φ) (sh : Nat) (s : ArSpec α φ), Matches st sh s →
      Matches (ops.foldl SFState.apply st) (ops.foldl opShape sh) (ops.foldl opSpec s) := by
  induction ops with
  | nil => intro st sh s h; simpa using h
  | cons op rest ih =>
    intro st sh s h
    simp only [List.foldl_cons]
    apply ih
    have := apply_matches st s op
    rwa [h.1] at this

/-- **after ANY history the object matches the last shape and the last aspect-ratio
specification** (constructor `ShapeFactor(sh0, s0)` followed by any list of setter calls). -/
theorem run_matches (sh0 : Nat) (s0 : ArSpec α φ) (ops : List (Op α φ)) :
    Matches (run sh0 s0 ops) (lastShape sh0 ops) (lastSpec s0 ops) := by
  unfold run lastShape lastSpec
  apply foldl_matches
  exact setAR_matches { (blank : St α φ) with shape := sh0 } s0

theorem runSpherical_matches (ops : List (Op α φ)) :
    Matches (runSpherical ops) (lastShape 3 ops) (lastSpec (.scalar 1) ops) := by
  unfold runSpherical lastShape lastSpec
  apply foldl_matches
  exact setAR_matches { (blank : St α φ) with shape := 3 } (.scalar 1)

/-- **the active search is the one matching the LAST aspect-ratio specification**: closed form
after a number, bisection after a function — whatever was set before. -/
theorem search_matches_last (sh0 : Nat) (s0 : ArSpec α φ) (ops : List (Op α φ)) :
    (run sh0 s0 ops).search = searchFor (lastSpec s0 ops) :=
  (run_matches sh0 s0 ops).2.1

theorem findRcritPublic_of_matches (evalF : φ → α → α) (thermo : Nat → α → α) (tol Rs Rmax : α)
    (st : St α φ) (sh : Nat) (s : ArSpec α φ) (h : Matches st sh s) :
    findRcritPublic evalF thermo tol Rs Rmax st = findRcritOfSpec evalF thermo tol Rs Rmax sh s := by
  obtain ⟨h1, h2, h3⟩ := h
  cases s with
  | scalar c =>
    have htf : (fun R => thermo st.shape (aspectRatio evalF st R)) = fun _ => thermo sh c := by
      funext R; simp [aspectRatio, h3.1, h3.2, h1]
    have h0 : thermo st.shape (aspectRatio evalF st Rs) = thermo sh c := congrFun htf Rs
    simp only [findRcritPublic, h2, searchFor, findRcritOfSpec, htf, findRcritScalar, h0]
  | func f =>
    have htf : (fun R => thermo st.shape (aspectRatio evalF st R)) = fun R => thermo sh (evalF f R) := by
      funext R; simp [aspectRatio, h3, h1]
    simp only [findRcritPublic, h2, searchFor, findRcritOfSpec, htf]

/-- **the public `findRcrit` does not depend on the history**: it is the search the last shape and
the last aspect-ratio specification ask for. -/
theorem findRcritPublic_history (evalF : φ → α → α) (thermo : Nat → α → α) (tol Rs Rmax : α)
    (sh0 : Nat) (s0 : ArSpec α φ) (ops : List (Op α φ)) :
    findRcritPublic evalF thermo tol Rs Rmax (run sh0 s0 ops)
      = findRcritOfSpec evalF thermo tol Rs Rmax (lastShape sh0 ops) (lastSpec s0 ops) :=
  findRcritPublic_of_matches evalF thermo tol Rs Rmax _ _ _ (run_matches sh0 s0 ops)

/-- **root property through the public entry point, after any history**: if the last specification
is a function `f`, the result obeys the bisection specification for `R ↦ thermo(ar_f(R))`; if it
is a number `c` (with `thermo c ≠ 0`, `Rs ≠ 0`), the result is an exact root. -/
theorem findRcritPublic_root (evalF : φ → α → α) (thermo : Nat → α → α) (tol Rs Rmax : α)
    (sh0 : Nat) (s0 : ArSpec α φ) (ops : List (Op α φ)) :
    let o := findRcritPublic evalF thermo tol Rs Rmax (run sh0 s0 ops)
    let sh := lastShape sh0 ops
    match lastSpec s0 ops with
    | .func f =>
        (o.fallback = false ∧ |o.r / (Rs * thermo sh (evalF f o.r)) - 1| ≤ tol ∧ o.iters < 100)
        ∨ (o.fallback = true ∧ o.iters = 100 ∧ o.r = Rs)
    | .scalar c => Rs ≠ 0 → thermo sh c ≠ 0 → o.r / (Rs * thermo sh c) - 1 = 0 := by
  intro o sh
  have ho : o = findRcritOfSpec evalF thermo tol Rs Rmax sh (lastSpec s0 ops) :=
    findRcritPublic_history evalF thermo tol Rs Rmax sh0 s0 ops
  cases hl : lastSpec s0 ops with
  | func f =>
    simp only
    rw [ho, hl]
    exact findRcrit_spec tol Rs Rmax (fun R => thermo sh (evalF f R))
  | scalar c =>
    simp only
    intro hRs ht
    rw [ho, hl]
    simp only [findRcritOfSpec]
    field_simp
    ring

/-- the seeded alternative — dispatching on the stale `_aspectRatioScalar` attribute instead of on
what was set last — is NOT history independent: number, then function. -/
example : (run (α := ℚ) (φ := Unit) 0 (.scalar 3) [.setAspectRatio (.func ())]).scalarAttr = some 3
    ∧ (run (α := ℚ) (φ := Unit) 0 (.scalar 3) [.setAspectRatio (.func ())]).search = .bisection := by
  simp [run, SFState.apply, setAR, blank]

end history

/-! ## the radius interface over call histories (answers are functions of the current
configuration and the current VALUES of the argument only) -/
section radius
open KawinV.SFState
variable {α φ : Type} [Field α] [LinearOrder α] [IsStrictOrderedRing α]

/-- the setter calls of a call history -/
def cfgOps : List (ROp α φ) → List (Op α φ)
  | [] => []
  | .cfg op :: rest => op :: cfgOps rest
  | .eval _ _ _ :: rest => cfgOps rest

/-- the last shape / aspect-ratio specification of a call history -/
def lastShapeR (sh0 : Nat) (h : List (ROp α φ)) : Nat := lastShape sh0 (cfgOps h)
def lastSpecR (s0 : ArSpec α φ) (h : List (ROp α φ)) : ArSpec α φ := lastSpec s0 (cfgOps h)

/-- what shape `sh` and specification `s` ask for: the description-level function of the aspect
ratios of the CURRENT values, element by element -/
def evalOfSpec (evalF : φ → α → α) (desc : Nat → Nat → List α → List α) (sh : Nat) :
    ArSpec α φ → Nat → List α → List α
  | .scalar c, w, vs => desc sh w (vs.map fun _ => c)
  | .func f, w, vs => desc sh w (vs.map (evalF f))

/-- the answers a history must give, tracking nothing but the last shape and specification -/
def specAnswers (evalF : φ → α → α) (desc : Nat → Nat → List α → List α) :
    Nat → ArSpec α φ → List (ROp α φ) → List (List α)
  | _, _, [] => []
  | sh, s, .cfg op :: rest => specAnswers evalF desc (opShape sh op) (opSpec s op) rest
  | sh, s, .eval w _ vs :: rest => evalOfSpec evalF desc sh s w vs :: specAnswers evalF desc sh s rest

theorem evalR_of_matches (evalF : φ → α → α) (desc : Nat → Nat → List α → List α)
    (st : St α φ) (sh : Nat) (s : ArSpec α φ) (h : Matches st sh s) (w : Nat) (vs : List α) :
    evalR evalF desc st w vs = evalOfSpec evalF desc sh s w vs := by
  obtain ⟨h1, h2, h3⟩ := h
  cases s with
  | scalar c =>
    have hf : aspectRatio evalF st = fun _ => c := by
      funext R; simp [aspectRatio, h3.1, h3.2]
    simp [evalR, aspectRatioArr, evalOfSpec, hf, h1]
  | func f =>
    have hf : aspectRatio evalF st = evalF f := by
      funext R; simp [aspectRatio, h3]
    simp [evalR, aspectRatioArr, evalOfSpec, hf, h1]

/-- an evaluation does not look at the identity of its argument -/
theorem runR_ignores_object (evalF : φ → α → α) (desc : Nat → Nat → List α → List α)
    (st : St α φ) (w o₁ o₂ : Nat) (vs : List α) (rest : List (ROp α φ)) :
    runR evalF desc st (.eval w o₁ vs :: rest) = runR evalF desc st (.eval w o₂ vs :: rest) := rfl

/-- evaluations leave the object alone: the state after a history is the state after its setter calls -/
theorem runR_state (evalF : φ → α → α) (desc : Nat → Nat → List α → List α) (h : List (ROp α φ)) :
    ∀ st : St α φ, (runR evalF desc st h).1 = (cfgOps h).foldl SFState.apply st := by
  induction h with
  | nil => intro st; rfl
  | cons op rest ih =>
    intro st
    cases op with
    | cfg op => simp only [runR, cfgOps, List.foldl_cons]; exact ih _
    | eval w o vs => simp only [runR, cfgOps]; exact ih _

theorem runR_state_run (evalF : φ → α → α) (desc : Nat → Nat → List α → List α)
    (sh0 : Nat) (s0 : ArSpec α φ) (h : List (ROp α φ)) :
    (runR evalF desc (run sh0 s0 []) h).1 = run sh0 s0 (cfgOps h) := by
  rw [runR_state]; rfl

/-- **every answer of a call history is the one its configuration at that moment and the values
of its argument ask for** — whatever was evaluated before, with whatever objects. -/
theorem runR_answers (evalF : φ → α → α) (desc : Nat → Nat → List α → List α) (h : List (ROp α φ)) :
    ∀ (st : St α φ) (sh : Nat) (s : ArSpec α φ), Matches st sh s →
      (runR evalF desc st h).2 = specAnswers evalF desc sh s h := by
  induction h with
  | nil => intro st sh s _; rfl
  | cons op rest ih =>
    intro st sh s hm
    cases op with
    | cfg op =>
      simp only [runR, specAnswers]
      apply ih
      have := apply_matches st s op
      rwa [hm.1] at this
    | eval w o vs =>
      simp only [runR, specAnswers]
      rw [evalR_of_matches evalF desc st sh s hm, ih st sh s hm]

theorem run_nil_matches (sh0 : Nat) (s0 : ArSpec α φ) : Matches (run sh0 s0 ([] : List (Op α φ))) sh0 s0 :=
  run_matches sh0 s0 []

theorem runR_answers_run (evalF : φ → α → α) (desc : Nat → Nat → List α → List α)
    (sh0 : Nat) (s0 : ArSpec α φ) (h : List (ROp α φ)) :
    (runR evalF desc (run sh0 s0 []) h).2 = specAnswers evalF desc sh0 s0 h :=
  runR_answers evalF desc h _ _ _ (run_nil_matches sh0 s0)

/-- the answers of `h ++ [eval]` are those of `h` followed by the evaluation on the object `h` leaves -/
theorem runR_append_eval (evalF : φ → α → α) (desc : Nat → Nat → List α → List α)
    (h : List (ROp α φ)) (w o : Nat) (vs : List α) :
    ∀ st : St α φ, (runR evalF desc st (h ++ [.eval w o vs])).2
      = (runR evalF desc st h).2 ++ [evalR evalF desc (runR evalF desc st h).1 w vs] := by
  induction h with
  | nil => intro st; rfl
  | cons op rest ih =>
    intro st
    cases op with
    | cfg op => simp only [List.cons_append, runR]; exact ih _
    | eval w' o' vs' => simp only [List.cons_append, runR, ih st]

/-- **history independence of the radius interface**: after ANY call history `h` (setters and
evaluations with any argument objects and contents), evaluating `which` on an argument with
current contents `vs` gives what a FRESH object constructed with the last shape and the last
aspect-ratio specification gives on `vs` — which is the description-level function of the aspect
ratios of `vs`. -/
theorem eval_history_independent (evalF : φ → α → α) (desc : Nat → Nat → List α → List α)
    (sh0 : Nat) (s0 : ArSpec α φ) (h : List (ROp α φ)) (w : Nat) (vs : List α) :
    evalR evalF desc (runR evalF desc (run sh0 s0 []) h).1 w vs
        = evalR evalF desc (run (lastShapeR sh0 h) (lastSpecR s0 h) []) w vs
    ∧ evalR evalF desc (runR evalF desc (run sh0 s0 []) h).1 w vs
        = evalOfSpec evalF desc (lastShapeR sh0 h) (lastSpecR s0 h) w vs := by
  have h1 : evalR evalF desc (runR evalF desc (run sh0 s0 []) h).1 w vs
      = evalOfSpec evalF desc (lastShapeR sh0 h) (lastSpecR s0 h) w vs := by
    rw [runR_state_run]
    exact evalR_of_matches evalF desc _ _ _ (run_matches sh0 s0 (cfgOps h)) w vs
  refine ⟨?_, h1⟩
  rw [h1]
  exact (evalR_of_matches evalF desc _ _ _ (run_nil_matches _ _) w vs).symm

/-- two evaluations of the same object with the same configuration differ exactly as their
contents ask: the same values give the same answer, whatever happened in between -/
theorem eval_same_values_same_answer (evalF : φ → α → α) (desc : Nat → Nat → List α → List α)
    (sh0 : Nat) (s0 : ArSpec α φ) (h₁ h₂ : List (ROp α φ)) (w : Nat) (vs : List α)
    (hsh : lastShapeR sh0 h₁ = lastShapeR sh0 h₂) (hsp : lastSpecR s0 h₁ = lastSpecR s0 h₂) :
    evalR evalF desc (runR evalF desc (run sh0 s0 []) h₁).1 w vs
      = evalR evalF desc (runR evalF desc (run sh0 s0 []) h₂).1 w vs := by
  rw [(eval_history_independent evalF desc sh0 s0 h₁ w vs).2,
      (eval_history_independent evalF desc sh0 s0 h₂ w vs).2, hsh, hsp]

/-! ### the identity-memo variant -/

/-- every evaluation of object `o` in the history sees the contents `contents o`
(no argument object is updated between two evaluations) -/
def Immutable (contents : Nat → List α) : List (ROp α φ) → Prop
  | [] => True
  | .cfg _ :: rest => Immutable contents rest
  | .eval _ o vs :: rest => vs = contents o ∧ Immutable contents rest

/-- the memo holds the aspect ratios of the contents of the object it is keyed by -/
def MemoOK (evalF : φ → α → α) (contents : Nat → List α) (m : MemoSt α φ) : Prop :=
  ∀ o, m.lastR = some o → m.lastAR = aspectRatioArr evalF m.st (contents o)

theorem memoLookup_spec (evalF : φ → α → α) (contents : Nat → List α) (m : MemoSt α φ)
    (o : Nat) (vs : List α) (hm : MemoOK evalF contents m) (hv : vs = contents o) :
    (memoLookup evalF m o vs).st = m.st
    ∧ (memoLookup evalF m o vs).lastAR = aspectRatioArr evalF m.st vs
    ∧ MemoOK evalF contents (memoLookup evalF m o vs) := by
  by_cases hk : m.lastR = some o
  · have : memoLookup evalF m o vs = m := by simp [memoLookup, hk]
    rw [this]
    exact ⟨rfl, by rw [hv]; exact hm o hk, hm⟩
  · have : memoLookup evalF m o vs
        = { m with lastR := some o, lastAR := aspectRatioArr evalF m.st vs } := by
      simp [memoLookup, hk]
    rw [this]
    refine ⟨rfl, rfl, ?_⟩
    intro o' ho'
    have : o = o' := by simpa using ho'
    subst this
    simp [hv]

/-- **the memo variant is right as long as no argument object changes its contents** (the
excluded hypothesis is visible: `Immutable`). -/
theorem memo_correct_of_immutable (evalF : φ → α → α) (desc : Nat → Nat → List α → List α)
    (contents : Nat → List α) (h : List (ROp α φ)) :
    ∀ m : MemoSt α φ, MemoOK evalF contents m → Immutable contents h →
      (memoRun evalF desc m h).2 = (runR evalF desc m.st h).2 := by
  induction h with
  | nil => intro m _ _; rfl
  | cons op rest ih =>
    intro m hm hi
    cases op with
    | cfg op =>
      simp only [memoRun, runR]
      have hok : MemoOK evalF contents (memoFresh (SFState.apply m.st op)) := by
        intro o ho; simp [memoFresh] at ho
      exact ih _ hok hi
    | eval w o vs =>
      obtain ⟨hv, hi'⟩ := hi
      obtain ⟨h1, h2, h3⟩ := memoLookup_spec evalF contents m o vs hm hv
      simp only [memoRun, runR]
      rw [ih _ h3 hi', h1, h2]
      rfl

theorem memo_correct_fresh (evalF : φ → α → α) (desc : Nat → Nat → List α → List α)
    (contents : Nat → List α) (st : St α φ) (h : List (ROp α φ)) (hi : Immutable contents h) :
    (memoRun evalF desc (memoFresh st) h).2 = (runR evalF desc st h).2 :=
  memo_correct_of_immutable evalF desc contents h (memoFresh st)
    (by intro o ho; simp [memoFresh] at ho) hi

/-- non-vacuity of `Immutable`: two arrays evaluated alternately, a setter in between -/
example : Immutable (α := ℚ) (φ := Unit) (fun o => if o = 0 then [1, 2] else [5])
    [.eval 1 0 [1, 2], .eval 0 1 [5], .cfg (.setAspectRatio (.scalar 3)), .eval 1 0 [1, 2]] := by
  simp [Immutable]

/-- the witness history: needle with aspect ratio = R (a radius-dependent function), the array
object 7 holds `[2]`, is evaluated, is doubled in place, is evaluated again -/
def staleHistory : List (ROp ℚ Unit) := [.eval 1 7 [2], .eval 1 7 [4]]

/-- **the identity-memo variant returns a stale answer after an in-place update**: on
`staleHistory` it answers the second evaluation with the aspect ratios of the OLD contents,
while the code as it is (and the specification) answer with those of the current contents. -/
theorem memo_stale_after_inplace_update :
    (memoRun (fun _ r => r) (fun _ _ ars => ars) (memoFresh (run 0 (.func ()) [])) staleHistory).2
      = [[2], [2]]
    ∧ (runR (fun _ r => r) (fun _ _ ars => ars) (run 0 (.func ()) []) staleHistory).2 = [[2], [4]]
    ∧ specAnswers (fun _ r => r) (fun _ _ ars => ars) 0 (.func ()) staleHistory = [[2], [4]] := by
  refine ⟨?_, ?_, ?_⟩ <;>
    simp [staleHistory, memoRun, memoLookup, memoFresh, runR, evalR, aspectRatioArr, aspectRatio,
      run, SFState.apply, setAR, blank, specAnswers, evalOfSpec]

/-- … and `staleHistory` is exactly outside the hypothesis of `memo_correct_of_immutable` -/
theorem staleHistory_not_immutable (contents : Nat → List ℚ) : ¬ Immutable contents staleHistory := by
  intro h
  simp only [staleHistory, Immutable] at h
  have : ([2] : List ℚ) = [4] := h.1.trans h.2.1.symm
  norm_num at this

/-- with a CONSTANT aspect ratio the memo variant cannot be told apart on the same history
(why a radius-dependent function is needed to see it) -/
example :
    (memoRun (α := ℚ) (φ := Unit) (fun _ r => r) (fun _ _ ars => ars)
        (memoFresh (run 0 (.scalar 3) [])) staleHistory).2
      = (runR (fun _ r => r) (fun _ _ ars => ars) (run 0 (.scalar 3) []) staleHistory).2 := by
  simp [staleHistory, memoRun, memoLookup, memoFresh, runR, evalR, aspectRatioArr, aspectRatio,
    run, SFState.apply, setAR, blank]

end radius

/-! ## the real numbers: the atoms are Mathlib's functions, their laws are proved -/
section real
open Real

noncomputable instance instTransReal : Trans ℝ where
  pi := Real.pi
  sqrt := Real.sqrt
  cbrt := fun x => if 0 ≤ x then x ^ ((1:ℝ)/3) else -((-x) ^ ((1:ℝ)/3))
  exp := Real.exp
  log := Real.log
  sin := Real.sin
  cos := Real.cos
  tan := Real.tan
  arcsin := Real.arcsin
  arccos := Real.arccos
  arctan := Real.arctan
  tanh := Real.tanh
  arctanh := fun x => (Real.log (1 + x) - Real.log (1 - x)) / 2
  arccosh := fun x => Real.log (x + Real.sqrt (x ^ 2 - 1))
  pow := fun x y => x ^ y
  abs := fun x => |x|

private theorem rpow_third_cube {x : ℝ} (hx : 0 ≤ x) : (x ^ ((1:ℝ)/3)) ^ 3 = x := by
  rw [← Real.rpow_natCast, ← Real.rpow_mul hx]; norm_num

/-- law of the cube-root atom over ℝ -/
theorem real_cbrt_cube (x : ℝ) : (Trans.cbrt x : ℝ) ^ 3 = x := by
  show (if 0 ≤ x then x ^ ((1:ℝ)/3) else -((-x) ^ ((1:ℝ)/3))) ^ 3 = x
  split
  · next h => exact rpow_third_cube h
  · next h =>
    have : 0 ≤ -x := by linarith
    rw [neg_pow, rpow_third_cube this]; norm_num

private theorem real_cbrt_pos {x : ℝ} (hx : 0 < x) : 0 < (Trans.cbrt x : ℝ) := by
  show 0 < (if 0 ≤ x then x ^ ((1:ℝ)/3) else -((-x) ^ ((1:ℝ)/3)))
  rw [if_pos hx.le]; exact Real.rpow_pos_of_pos hx _

private theorem real_pow_pos {x : ℝ} (hx : 0 < x) (y : ℝ) : 0 < (Trans.pow x y : ℝ) :=
  Real.rpow_pos_of_pos hx y

/-- law of `x^(2/3)` over ℝ -/
theorem real_pow_two_thirds {x : ℝ} (hx : 0 ≤ x) : (Trans.pow x (2 / 3) : ℝ) ^ 3 = x ^ 2 := by
  show (x ^ ((2:ℝ)/3)) ^ 3 = x ^ 2
  rw [← Real.rpow_natCast, ← Real.rpow_mul hx, ← Real.rpow_natCast]; norm_num

theorem real_pow_four_thirds {x : ℝ} (hx : 0 ≤ x) : (Trans.pow x (4 / 3) : ℝ) ^ 3 = x ^ 4 := by
  show (x ^ ((4:ℝ)/3)) ^ 3 = x ^ 4
  rw [← Real.rpow_natCast, ← Real.rpow_mul hx, ← Real.rpow_natCast]; norm_num

theorem real_arccos (e : ℝ) : (Trans.arccos e : ℝ) = Trans.pi / 2 - Trans.arcsin e :=
  Real.arccos_eq_pi_div_two_sub_arcsin e

theorem real_arctanh (e : ℝ) :
    (Trans.arctanh e : ℝ) = (Trans.log (1 + e) - Trans.log (1 - e)) / 2 := rfl

private theorem real_pi_pos : (0:ℝ) < Trans.pi := Real.pi_pos

/-- radius of the sphere with the volume of the spheroid with semi-axes (x, y, z) -/
noncomputable def eqVolRadius (x y z : ℝ) : ℝ := (x * y * z) ^ ((1:ℝ)/3)

private theorem eqVolRadius_cube {x y z : ℝ} (h : 0 ≤ x * y * z) : eqVolRadius x y z ^ 3 = x * y * z :=
  rpow_third_cube h

/-- **semi-axes over ℝ**, no hypotheses on atoms: for every aspect ratio `ar > 0` the needle,
plate and sphere semi-axes enclose volume 1 and the cuboid edges multiply to 1; long/short = ar. -/
theorem real_unit_volume (ar : ℝ) (har : 0 < ar) :
    4 * Real.pi / 3 * (needle_normalRadii_r0 ar * needle_normalRadii_r1 ar * needle_normalRadii_r2 ar) = 1
    ∧ 4 * Real.pi / 3 * (plate_normalRadii_r0 ar * plate_normalRadii_r1 ar * plate_normalRadii_r2 ar) = 1
    ∧ 4 * Real.pi / 3 * (sphere_normalRadii_r0 ar * sphere_normalRadii_r1 ar * sphere_normalRadii_r2 ar) = 1
    ∧ cuboid_normalRadii_r0 ar * cuboid_normalRadii_r1 ar * cuboid_normalRadii_r2 ar = 1
    ∧ needle_normalRadii_r2 ar / needle_normalRadii_r0 ar = ar
    ∧ plate_normalRadii_r0 ar / plate_normalRadii_r2 ar = ar
    ∧ cuboid_normalRadii_r2 ar / cuboid_normalRadii_r0 ar = ar :=
  ⟨needle_unit_volume ar real_cbrt_cube har.ne' Real.pi_pos.ne',
   plate_unit_volume ar real_cbrt_cube har.ne' Real.pi_pos.ne',
   (sphere_unit_volume ar real_cbrt_cube Real.pi_pos.ne').1,
   cuboid_unit_volume ar real_cbrt_cube har.ne',
   (needle_aspect ar real_cbrt_cube har.ne' Real.pi_pos.ne').1,
   (plate_aspect ar real_cbrt_cube har.ne' Real.pi_pos.ne').1,
   (cuboid_aspect ar real_cbrt_cube har.ne').1⟩

/-- **needle over ℝ**: thermodynamic factor = area of the prolate spheroid (a, a, ar·a) / area of
the equal-volume sphere; kinetic factor = its capacitance / the equal-volume radius. -/
theorem real_needle_factors (a ar : ℝ) (ha : 0 < a) (har : 0 < ar) :
    needle_thermoFactor ar = prolateArea a (ar * a) / sphereArea (eqVolRadius a a (ar * a))
    ∧ needle_kineticFactor ar = prolateCap a (ar * a) / eqVolRadius a a (ar * a) := by
  have hv : 0 < a * a * (ar * a) := by positivity
  have hR : 0 < eqVolRadius a a (ar * a) := Real.rpow_pos_of_pos hv _
  have hvol : eqVolRadius a a (ar * a) ^ 3 = a ^ 2 * (ar * a) := by
    rw [eqVolRadius_cube hv.le]; ring
  exact ⟨needle_thermo_is_area_ratio a ar _ ha har hR Real.pi_pos.ne' hvol
      (real_pow_pos har _) (real_pow_two_thirds har.le),
    needle_kinetic_is_capacitance_ratio a ar _ ha har hR hvol
      (real_cbrt_pos (by positivity)) (real_cbrt_cube _) real_arctanh⟩

/-- **plate over ℝ**: oblate spheroid (ar·c, ar·c, c). -/
theorem real_plate_factors (c ar : ℝ) (hc : 0 < c) (har : 0 < ar) :
    plate_thermoFactor ar = oblateArea (ar * c) c / sphereArea (eqVolRadius (ar * c) (ar * c) c)
    ∧ plate_kineticFactor ar = oblateCap (ar * c) c / eqVolRadius (ar * c) (ar * c) c := by
  have hv : 0 < (ar * c) * (ar * c) * c := by positivity
  have hR : 0 < eqVolRadius (ar * c) (ar * c) c := Real.rpow_pos_of_pos hv _
  have hvol : eqVolRadius (ar * c) (ar * c) c ^ 3 = (ar * c) ^ 2 * c := by
    rw [eqVolRadius_cube hv.le]; ring
  exact ⟨plate_thermo_is_area_ratio c ar _ hc har hR Real.pi_pos.ne' hvol
      (real_pow_pos har _) (real_pow_four_thirds har.le),
    plate_kinetic_is_capacitance_ratio c ar _ hc har hR hvol
      (real_cbrt_pos har) (real_cbrt_cube _) real_arccos⟩

/-- **cuboid over ℝ**: thermodynamic factor = area of the cuboid (s, s, ar·s) / area of the sphere
of the same volume `s³·ar`. -/
theorem real_cuboid_thermo (s ar : ℝ) (hs : 0 < s) (har : 0 < ar) :
    cuboid_thermoFactor ar
      = cuboidArea s (ar * s) / sphereArea ((3 * (s * s * (ar * s)) / (4 * Real.pi)) ^ ((1:ℝ)/3)) := by
  have hpi := Real.pi_pos
  have hv : 0 < 3 * (s * s * (ar * s)) / (4 * Real.pi) := by positivity
  have hx : 0 < 4 * Real.pi / (3 * ar) := by positivity
  apply cuboid_thermo_is_area_ratio s ar _ hs har (Real.rpow_pos_of_pos hv _) hpi
  · rw [rpow_third_cube hv.le]
    show 4 * Real.pi / 3 * (3 * (s * s * (ar * s)) / (4 * Real.pi)) = s * s * (ar * s)
    field_simp
  · exact real_pow_pos hx _
  · exact real_pow_two_thirds hx.le

/-- over ℝ the cuboid formulas at 1 are not 1 (π > 3, π < 6): with the constants equal to 1 — the
code before the repair — eq.-radius and thermodynamic factor were discontinuous at ar = 1. -/
theorem real_cuboid_at_one_ne_one :
    (cuboid_eqRadius (1:ℝ)) ≠ 1 ∧ (cuboid_thermoFactor (1:ℝ)) ≠ 1 := by
  have h4 : Real.pi < 6 := by linarith [Real.pi_lt_four]
  exact ⟨cuboid_eqRadius_at_one_ne_one real_cbrt_cube Real.pi_gt_three,
    cuboid_thermo_at_one_ne_one Real.pi_pos h4
      (real_pow_two_thirds (by have := Real.pi_pos; positivity))⟩

theorem real_eqRadius_mins :
    (needle_eqRadiusFactorMin : ℝ) = needle_eqRadius 1 ∧ (plate_eqRadiusFactorMin : ℝ) = plate_eqRadius 1 :=
  ⟨needle_eqRadiusFactorMin_eq real_cbrt_cube, plate_eqRadiusFactorMin_eq real_cbrt_cube⟩

end real

/-! ## continuity at aspect ratio 1 over ℝ (topological) -/
section realcont
open Filter Topology

/-- topological form over ℝ -/
theorem real_wrapper_continuousAt_iff (fmin : ℝ) (f : ℝ → ℝ) (hf : ContinuousAt f 1) :
    ContinuousAt (wrapScalar fmin f) 1 ↔ fmin = f 1 := by
  constructor
  · intro hc
    have h1 : Tendsto (wrapScalar fmin f) (𝓝[>] 1) (𝓝 (wrapScalar fmin f 1)) :=
      hc.tendsto.mono_left nhdsWithin_le_nhds
    rw [wrapScalar_le_one fmin f le_rfl] at h1
    have h2 : Tendsto f (𝓝[>] 1) (𝓝 (f 1)) := hf.tendsto.mono_left nhdsWithin_le_nhds
    have h3 : Tendsto (wrapScalar fmin f) (𝓝[>] 1) (𝓝 (f 1)) := by
      refine h2.congr' ?_
      filter_upwards [self_mem_nhdsWithin] with x hx
      exact (wrapScalar_gt_one fmin f hx).symm
    exact tendsto_nhds_unique h1 h3
  · intro h
    have hw : wrapScalar fmin f = fun x => f (max x 1) := by
      funext x
      rw [(wrapScalar_eq_comp_clamp_iff fmin f).mpr h x, clamp_eq_max]
    rw [hw]
    have hm : ContinuousAt (fun x : ℝ => max x 1) 1 := by fun_prop
    have : ContinuousAt f (max (1:ℝ) 1) := by simpa using hf
    exact ContinuousAt.comp (g := f) this hm

noncomputable def eccR (ar : ℝ) : ℝ := Real.sqrt (1 - 1 / (ar * ar))

private theorem eccR_pos {ar : ℝ} (h : 1 < ar) : 0 < eccR ar := by
  unfold eccR
  apply Real.sqrt_pos.mpr
  have : 1 < ar * ar := by nlinarith
  have : 1 / (ar * ar) < 1 := by rw [div_lt_one (by linarith)]; exact this
  linarith

private theorem eccR_lt_one {ar : ℝ} (h : 1 < ar) : eccR ar < 1 := by
  unfold eccR
  rw [Real.sqrt_lt' one_pos]
  have : 0 < 1 / (ar * ar) := by positivity
  linarith

private theorem eccR_tendsto : Tendsto eccR (𝓝[>] 1) (𝓝[≠] 0) := by
  rw [tendsto_nhdsWithin_iff]
  constructor
  · have hc : ContinuousAt eccR 1 := by
      unfold eccR
      fun_prop (disch := norm_num)
    have h0 : eccR 1 = 0 := by simp [eccR]
    have := hc.tendsto
    rw [h0] at this
    exact this.mono_left nhdsWithin_le_nhds
  · filter_upwards [self_mem_nhdsWithin] with x hx
    exact (eccR_pos hx).ne'

private theorem arcsin_div_tendsto : Tendsto (fun t => Real.arcsin t / t) (𝓝[≠] 0) (𝓝 1) := by
  have h : HasDerivAt Real.arcsin (1 / Real.sqrt (1 - (0:ℝ) ^ 2)) 0 :=
    (Real.hasStrictDerivAt_arcsin (by norm_num) (by norm_num)).hasDerivAt
  have := hasDerivAt_iff_tendsto_slope_zero.mp h
  simpa [div_eq_inv_mul] using this

private theorem logdiff_div_tendsto :
    Tendsto (fun t => (Real.log (1 + t) - Real.log (1 - t)) / t) (𝓝[≠] 0) (𝓝 2) := by
  have h1 : HasDerivAt (fun t : ℝ => Real.log (1 + t)) (1 / (1 + 0)) 0 :=
    ((hasDerivAt_id (0:ℝ)).const_add 1).log (by norm_num)
  have h2 : HasDerivAt (fun t : ℝ => Real.log (1 - t)) (-1 / (1 - 0)) 0 :=
    ((hasDerivAt_id (0:ℝ)).const_sub 1).log (by norm_num)
  have h := h1.sub h2
  have := hasDerivAt_iff_tendsto_slope_zero.mp h
  have e : (1 / (1 + 0) - -1 / (1 - 0) : ℝ) = 2 := by norm_num
  rw [e] at this
  simpa [div_eq_inv_mul] using this

/-- a wrapper whose inner formula tends to the constant from the right is continuous at 1 -/
theorem wrapper_continuousAt_of_right_limit (fmin : ℝ) (f : ℝ → ℝ)
    (h : Tendsto f (𝓝[>] 1) (𝓝 fmin)) : ContinuousAt (wrapScalar fmin f) 1 := by
  rw [continuousAt_iff_continuous_left'_right']
  have h1 : wrapScalar fmin f 1 = fmin := wrapScalar_le_one fmin f le_rfl
  constructor
  · unfold ContinuousWithinAt
    rw [h1]
    refine tendsto_const_nhds.congr' ?_
    filter_upwards [self_mem_nhdsWithin] with x hx
    exact (wrapScalar_le_one fmin f (le_of_lt hx)).symm
  · unfold ContinuousWithinAt
    rw [h1]
    refine h.congr' ?_
    filter_upwards [self_mem_nhdsWithin] with x hx
    exact (wrapScalar_gt_one fmin f hx).symm

private theorem rpow_const_tendsto_one (y : ℝ) : Tendsto (fun ar : ℝ => ar ^ y) (𝓝[>] 1) (𝓝 1) := by
  have := (Real.continuousAt_rpow_const 1 y (Or.inl one_ne_zero)).tendsto
  rw [Real.one_rpow] at this
  exact this.mono_left nhdsWithin_le_nhds

private theorem id_tendsto_one : Tendsto (fun ar : ℝ => ar) (𝓝[>] 1) (𝓝 1) :=
  tendsto_id.mono_left nhdsWithin_le_nhds

private theorem needle_thermo_form (ar : ℝ) :
    needle_thermoFactor ar
      = 1 / (2 * ar ^ ((2:ℝ)/3)) * (1 + ar * (Real.arcsin (eccR ar) / eccR ar)) := by
  show 1 / (2 * ar ^ ((2:ℝ)/3)) * (1 + ar / eccR ar * Real.arcsin (eccR ar)) = _
  ring

/-- **needle, thermodynamic factor → 1 as ar → 1⁺** -/
theorem needle_thermo_tendsto : Tendsto (needle_thermoFactor : ℝ → ℝ) (𝓝[>] 1) (𝓝 1) := by
  have hq := arcsin_div_tendsto.comp eccR_tendsto
  have hp := rpow_const_tendsto_one ((2:ℝ)/3)
  have h : Tendsto (fun ar : ℝ => 1 / (2 * ar ^ ((2:ℝ)/3)) * (1 + ar * (Real.arcsin (eccR ar) / eccR ar)))
      (𝓝[>] 1) (𝓝 (1 / (2 * 1) * (1 + 1 * 1))) :=
    ((tendsto_const_nhds.div (tendsto_const_nhds.mul hp) (by norm_num))).mul
      (tendsto_const_nhds.add (id_tendsto_one.mul hq))
  have e : (1 / (2 * 1) * (1 + 1 * 1) : ℝ) = 1 := by norm_num
  rw [e] at h
  exact h.congr (fun ar => (needle_thermo_form ar).symm)

private theorem real_cbrt_of_nonneg {x : ℝ} (h : 0 ≤ x) : (Trans.cbrt x : ℝ) = x ^ ((1:ℝ)/3) := if_pos h

private theorem cbrt_tendsto_one {g : ℝ → ℝ} (hg : Tendsto g (𝓝[>] 1) (𝓝 1)) :
    Tendsto (fun ar => (Trans.cbrt (g ar) : ℝ)) (𝓝[>] 1) (𝓝 1) := by
  have h := hg.rpow_const (p := (1:ℝ)/3) (Or.inl one_ne_zero)
  rw [Real.one_rpow] at h
  refine h.congr' ?_
  have hpos : ∀ᶠ ar in 𝓝[>] (1:ℝ), 0 < g ar := hg.eventually (lt_mem_nhds one_pos)
  filter_upwards [hpos] with ar har
  exact (real_cbrt_of_nonneg har.le).symm

/-- **needle, kinetic factor → 1 as ar → 1⁺** -/
theorem needle_kinetic_tendsto : Tendsto (needle_kineticFactor : ℝ → ℝ) (𝓝[>] 1) (𝓝 1) := by
  have hq := logdiff_div_tendsto.comp eccR_tendsto
  have hc := cbrt_tendsto_one (g := fun ar => ar * ar) (by simpa using id_tendsto_one.mul id_tendsto_one)
  have h : Tendsto (fun ar : ℝ => 2 * (Trans.cbrt (ar * ar) : ℝ)
        / ((Real.log (1 + eccR ar) - Real.log (1 - eccR ar)) / eccR ar)) (𝓝[>] 1) (𝓝 (2 * 1 / 2)) :=
    (tendsto_const_nhds.mul hc).div hq (by norm_num)
  have e : (2 * 1 / 2 : ℝ) = 1 := by norm_num
  rw [e] at h
  refine h.congr' ?_
  filter_upwards [self_mem_nhdsWithin] with ar har
  have he := (eccR_pos har).ne'
  show _ = 2 * (Trans.cbrt (ar * ar) : ℝ) * eccR ar / (Real.log (1 + eccR ar) - Real.log (1 - eccR ar))
  rw [div_div_eq_mul_div]

/-- **plate, kinetic factor → 1 as ar → 1⁺** -/
theorem plate_kinetic_tendsto : Tendsto (plate_kineticFactor : ℝ → ℝ) (𝓝[>] 1) (𝓝 1) := by
  have hq := arcsin_div_tendsto.comp eccR_tendsto
  have hc := cbrt_tendsto_one id_tendsto_one
  have h : Tendsto (fun ar : ℝ => (Trans.cbrt ar : ℝ) / (Real.arcsin (eccR ar) / eccR ar))
      (𝓝[>] 1) (𝓝 (1 / 1)) := hc.div hq one_ne_zero
  rw [div_one] at h
  refine h.congr' ?_
  filter_upwards [self_mem_nhdsWithin] with ar har
  have he := (eccR_pos har).ne'
  show _ = eccR ar * (Trans.cbrt ar : ℝ) / (Real.pi / 2 - Real.arccos (eccR ar))
  rw [Real.arccos_eq_pi_div_two_sub_arcsin, sub_sub_cancel, div_div_eq_mul_div, mul_comm]

/-- **plate, thermodynamic factor → 1 as ar → 1⁺** -/
theorem plate_thermo_tendsto : Tendsto (plate_thermoFactor : ℝ → ℝ) (𝓝[>] 1) (𝓝 1) := by
  have hq := logdiff_div_tendsto.comp eccR_tendsto
  have hp := rpow_const_tendsto_one ((4:ℝ)/3)
  have h : Tendsto (fun ar : ℝ => 1 / (2 * ar ^ ((4:ℝ)/3))
        * (ar * ar + 1 / 2 * ((Real.log (1 + eccR ar) - Real.log (1 - eccR ar)) / eccR ar)))
      (𝓝[>] 1) (𝓝 (1 / (2 * 1) * (1 * 1 + 1 / 2 * 2))) :=
    (tendsto_const_nhds.div (tendsto_const_nhds.mul hp) (by norm_num)).mul
      ((id_tendsto_one.mul id_tendsto_one).add (tendsto_const_nhds.mul hq))
  have e : (1 / (2 * 1) * (1 * 1 + 1 / 2 * 2) : ℝ) = 1 := by norm_num
  rw [e] at h
  refine h.congr' ?_
  filter_upwards [self_mem_nhdsWithin] with ar har
  have he := (eccR_pos har).ne'
  have h1 : (1 + eccR ar) ≠ 0 := by have := eccR_pos har; linarith
  have h2 : (1 - eccR ar) ≠ 0 := by have := eccR_lt_one har; linarith
  show _ = 1 / (2 * ar ^ ((4:ℝ)/3)) * (ar * ar + 1 / (2 * eccR ar)
      * Real.log ((1 + eccR ar) / (1 - eccR ar)))
  rw [Real.log_div h1 h2]
  field_simp

private theorem log1p_div_tendsto : Tendsto (fun v => Real.log (1 + v) / v) (𝓝[≠] 0) (𝓝 1) := by
  have h1 : HasDerivAt (fun t : ℝ => Real.log (1 + t)) (1 / (1 + 0)) 0 :=
    ((hasDerivAt_id (0:ℝ)).const_add 1).log (by norm_num)
  have := hasDerivAt_iff_tendsto_slope_zero.mp h1
  simpa [div_eq_inv_mul] using this

/-- **cuboid, kinetic factor → 0.968 = `kineticFactorMin` as ar → 1⁺** -/
theorem cuboid_kinetic_tendsto :
    Tendsto (cuboid_kineticFactor : ℝ → ℝ) (𝓝[>] 1) (𝓝 cuboid_kineticFactorMin) := by
  let s : ℝ → ℝ := fun ar => Real.sqrt (ar * ar - 1)
  let u : ℝ → ℝ := fun ar => s ar * (2 * s ar + 2 * ar)
  have hs0 : Tendsto s (𝓝[>] 1) (𝓝 0) := by
    have hc : ContinuousAt s 1 := by
      show ContinuousAt (fun ar : ℝ => Real.sqrt (ar * ar - 1)) 1
      fun_prop
    have := hc.tendsto
    have h0 : s 1 = 0 := by simp [s]
    rw [h0] at this
    exact this.mono_left nhdsWithin_le_nhds
  have hspos : ∀ ar : ℝ, 1 < ar → 0 < s ar := by
    intro ar har
    apply Real.sqrt_pos.mpr; nlinarith
  have hw : Tendsto (fun ar => 2 * s ar + 2 * ar) (𝓝[>] 1) (𝓝 (2 * 0 + 2 * 1)) :=
    (tendsto_const_nhds.mul hs0).add (tendsto_const_nhds.mul id_tendsto_one)
  have hu : Tendsto u (𝓝[>] 1) (𝓝[≠] 0) := by
    rw [tendsto_nhdsWithin_iff]
    constructor
    · have := hs0.mul hw
      simpa using this
    · filter_upwards [self_mem_nhdsWithin] with ar har
      have := hspos ar har
      have h1 : (0:ℝ) < ar := lt_trans one_pos har
      exact (mul_pos this (by linarith)).ne'
  have hl := log1p_div_tendsto.comp hu
  have hc := cbrt_tendsto_one id_tendsto_one
  have hexp : Tendsto (fun ar : ℝ => Real.exp (-(91 / 1000) * (ar - 1))) (𝓝[>] 1) (𝓝 1) := by
    have hc : ContinuousAt (fun ar : ℝ => Real.exp (-(91 / 1000) * (ar - 1))) 1 := by fun_prop
    have := hc.tendsto
    simp only [sub_self, mul_zero, Real.exp_zero] at this
    exact this.mono_left nhdsWithin_le_nhds
  have h : Tendsto (fun ar : ℝ => 1 / 10 * Real.exp (-(91 / 1000) * (ar - 1))
        + 217 / 125 * (1 / (2 * s ar + 2 * ar)) / ((Trans.cbrt ar : ℝ) * (Real.log (1 + u ar) / u ar)))
      (𝓝[>] 1) (𝓝 (1 / 10 * 1 + 217 / 125 * (1 / (2 * 0 + 2 * 1)) / (1 * 1))) :=
    (tendsto_const_nhds.mul hexp).add
      ((tendsto_const_nhds.mul (tendsto_const_nhds.div hw (by norm_num))).div (hc.mul hl) (by norm_num))
  have e : (1 / 10 * 1 + 217 / 125 * (1 / (2 * 0 + 2 * 1)) / (1 * 1) : ℝ) = cuboid_kineticFactorMin := by
    show _ = (121 : ℝ) / 125
    norm_num
  rw [e] at h
  refine h.congr' ?_
  filter_upwards [self_mem_nhdsWithin] with ar har'
  have har : 1 < ar := har'
  have hs := hspos ar har
  have h1 : (0:ℝ) < ar := lt_trans one_pos har
  have hsq : s ar * s ar = ar * ar - 1 := Real.mul_self_sqrt (by nlinarith)
  have hu1 : 2 * (ar * ar) + 2 * ar * s ar - 1 = 1 + u ar := by
    show _ = 1 + s ar * (2 * s ar + 2 * ar)
    nlinarith
  have hune : u ar ≠ 0 := (mul_pos hs (by linarith)).ne'
  have hw0 : 2 * s ar + 2 * ar ≠ 0 := by linarith
  show _ = 1 / 10 * Real.exp (-(91 / 1000) * (ar - 1))
      + 217 / 125 * s ar / ((Trans.cbrt ar : ℝ) * Real.log (2 * (ar * ar) + 2 * ar * s ar - 1))
  rw [hu1]
  congr 1
  have : u ar = s ar * (2 * s ar + 2 * ar) := rfl
  rw [this]
  have hs' := hs.ne'
  by_cases hL : Real.log (1 + s ar * (2 * s ar + 2 * ar)) = 0
  · simp [hL]
  by_cases hC : (Trans.cbrt ar : ℝ) = 0
  · simp [hC]
  field_simp

private theorem real_cbrt_continuousAt {x : ℝ} (hx : 0 < x) : ContinuousAt (Trans.cbrt : ℝ → ℝ) x := by
  have h := Real.continuousAt_rpow_const x ((1:ℝ)/3) (Or.inl hx.ne')
  refine h.congr ?_
  filter_upwards [Ioi_mem_nhds hx] with y hy
  exact (real_cbrt_of_nonneg (le_of_lt hy)).symm

private theorem cbrt_comp_continuousAt {g : ℝ → ℝ} {a : ℝ} (hg : ContinuousAt g a) (hpos : 0 < g a) :
    ContinuousAt (fun ar => (Trans.cbrt (g ar) : ℝ)) a :=
  ContinuousAt.comp (g := (Trans.cbrt : ℝ → ℝ)) (real_cbrt_continuousAt hpos) hg

private theorem clamp_continuousAt : ContinuousAt (clamp : ℝ → ℝ) 1 := by
  have : (clamp : ℝ → ℝ) = fun x => max x 1 := funext clamp_eq_max
  rw [this]; fun_prop

/-- the inner formulas that have a value at 1 are continuous there -/
theorem real_formulas_continuousAt_one :
    ContinuousAt (needle_eqRadius : ℝ → ℝ) 1 ∧ ContinuousAt (plate_eqRadius : ℝ → ℝ) 1
    ∧ ContinuousAt (cuboid_eqRadius : ℝ → ℝ) 1 ∧ ContinuousAt (cuboid_thermoFactor : ℝ → ℝ) 1 := by
  have hpi := Real.pi_pos
  refine ⟨?_, ?_, ?_, ?_⟩
  · exact real_cbrt_continuousAt one_pos
  · show ContinuousAt (fun ar : ℝ => (Trans.cbrt (ar * ar) : ℝ)) 1
    exact cbrt_comp_continuousAt (by fun_prop) (by norm_num)
  · show ContinuousAt (fun ar : ℝ => (Trans.cbrt (3 * ar / (4 * Real.pi)) : ℝ)) 1
    exact cbrt_comp_continuousAt (by fun_prop) (by positivity)
  · show ContinuousAt (fun ar : ℝ => (2 * ar + 1) / (2 * Real.pi) * (4 * Real.pi / (3 * ar)) ^ ((2:ℝ)/3)) 1
    apply ContinuousAt.mul (by fun_prop)
    apply ContinuousAt.rpow_const
    · exact ContinuousAt.div (by fun_prop) (by fun_prop) (by norm_num)
    · right; norm_num

/-- **continuity at aspect ratio 1 of every factor of every shape** (ℝ, topological): the twelve
public factor functions (wrapper model over the generated formulas and constants) are continuous
at 1.  Needle/plate thermodynamic and kinetic factor: the formulas tend to 1 (`asin e / e → 1`,
`(log(1+e) − log(1−e))/e → 2`); cuboid kinetic factor: the formula tends to 0.968; the others:
constant = formula(1) and the formula is continuous at 1. -/
theorem real_factors_continuous_at_one :
    ContinuousAt (wrapScalar (needle_eqRadiusFactorMin : ℝ) needle_eqRadius) 1
    ∧ ContinuousAt (wrapScalar (needle_thermoFactorMin : ℝ) needle_thermoFactor) 1
    ∧ ContinuousAt (wrapScalar (needle_kineticFactorMin : ℝ) needle_kineticFactor) 1
    ∧ ContinuousAt (wrapScalar (plate_eqRadiusFactorMin : ℝ) plate_eqRadius) 1
    ∧ ContinuousAt (wrapScalar (plate_thermoFactorMin : ℝ) plate_thermoFactor) 1
    ∧ ContinuousAt (wrapScalar (plate_kineticFactorMin : ℝ) plate_kineticFactor) 1
    ∧ ContinuousAt (wrapScalar (cuboid_eqRadiusFactorMin : ℝ) cuboid_eqRadius) 1
    ∧ ContinuousAt (wrapScalar (cuboid_thermoFactorMin : ℝ) cuboid_thermoFactor) 1
    ∧ ContinuousAt (wrapScalar (cuboid_kineticFactorMin : ℝ) cuboid_kineticFactor) 1
    ∧ ContinuousAt (wrapScalar (sphere_eqRadiusFactorMin : ℝ) sphere_eqRadius) 1
    ∧ ContinuousAt (wrapScalar (sphere_thermoFactorMin : ℝ) sphere_thermoFactor) 1
    ∧ ContinuousAt (wrapScalar (sphere_kineticFactorMin : ℝ) sphere_kineticFactor) 1 := by
  obtain ⟨c1, c2, c3, c4⟩ := real_formulas_continuousAt_one
  have sph : ContinuousAt (wrapScalar (1:ℝ) (fun _ => 1)) 1 :=
    wrapper_continuousAt_of_right_limit 1 _ tendsto_const_nhds
  exact ⟨(real_wrapper_continuousAt_iff _ _ c1).mpr (needle_eqRadiusFactorMin_eq real_cbrt_cube),
    wrapper_continuousAt_of_right_limit _ _ needle_thermo_tendsto,
    wrapper_continuousAt_of_right_limit _ _ needle_kinetic_tendsto,
    (real_wrapper_continuousAt_iff _ _ c2).mpr (plate_eqRadiusFactorMin_eq real_cbrt_cube),
    wrapper_continuousAt_of_right_limit _ _ plate_thermo_tendsto,
    wrapper_continuousAt_of_right_limit _ _ plate_kinetic_tendsto,
    (real_wrapper_continuousAt_iff _ _ c3).mpr cuboid_eqRadiusFactorMin_eq,
    (real_wrapper_continuousAt_iff _ _ c4).mpr cuboid_thermoFactorMin_eq,
    wrapper_continuousAt_of_right_limit _ _ cuboid_kinetic_tendsto,
    sph, sph, sph⟩

/-- with the constants of the code before the repair (1 and 1) the cuboid eq.-radius and
thermodynamic factor were NOT continuous at 1. -/
theorem real_cuboid_old_constants_discontinuous :
    ¬ ContinuousAt (wrapScalar (1:ℝ) cuboid_eqRadius) 1
    ∧ ¬ ContinuousAt (wrapScalar (1:ℝ) cuboid_thermoFactor) 1 := by
  obtain ⟨_, _, c3, c4⟩ := real_formulas_continuousAt_one
  exact ⟨fun h => real_cuboid_at_one_ne_one.1 ((real_wrapper_continuousAt_iff _ _ c3).mp h).symm,
    fun h => real_cuboid_at_one_ne_one.2 ((real_wrapper_continuousAt_iff _ _ c4).mp h).symm⟩

/-- the semi-axes returned by the public `normalRadii` (formula ∘ clamp) are continuous at 1 -/
theorem real_normalRadii_continuous_at_one :
    ContinuousAt (fun ar : ℝ => needle_normalRadii_r0 (clamp ar)) 1
    ∧ ContinuousAt (fun ar : ℝ => needle_normalRadii_r2 (clamp ar)) 1
    ∧ ContinuousAt (fun ar : ℝ => plate_normalRadii_r0 (clamp ar)) 1
    ∧ ContinuousAt (fun ar : ℝ => plate_normalRadii_r2 (clamp ar)) 1
    ∧ ContinuousAt (fun ar : ℝ => cuboid_normalRadii_r0 (clamp ar)) 1
    ∧ ContinuousAt (fun ar : ℝ => cuboid_normalRadii_r2 (clamp ar)) 1
    ∧ ContinuousAt (fun ar : ℝ => sphere_normalRadii_r0 (clamp ar)) 1 := by
  have hcl : clamp (1:ℝ) = 1 := clamp_of_ge le_rfl
  have comp : ∀ g : ℝ → ℝ, ContinuousAt g 1 → ContinuousAt (fun ar : ℝ => g (clamp ar)) 1 := by
    intro g hg
    have : ContinuousAt g (clamp (1:ℝ)) := by rw [hcl]; exact hg
    exact ContinuousAt.comp (g := g) this clamp_continuousAt
  have hinv : ContinuousAt (fun ar : ℝ => (Trans.cbrt (1 / ar) : ℝ)) 1 :=
    cbrt_comp_continuousAt (ContinuousAt.div (by fun_prop) (by fun_prop) (by norm_num)) (by norm_num)
  have hinv2 : ContinuousAt (fun ar : ℝ => (Trans.cbrt (1 / (ar * ar)) : ℝ)) 1 :=
    cbrt_comp_continuousAt (ContinuousAt.div (by fun_prop) (by fun_prop) (by norm_num)) (by norm_num)
  have hid : ContinuousAt (fun ar : ℝ => ar) 1 := continuousAt_id
  refine ⟨comp _ ?_, comp _ ?_, comp _ ?_, comp _ ?_, comp _ ?_, comp _ ?_, comp _ ?_⟩
  · exact continuousAt_const.mul hinv
  · exact continuousAt_const.mul (hinv.mul hid)
  · exact continuousAt_const.mul (hinv2.mul hid)
  · exact continuousAt_const.mul hinv2
  · exact hinv
  · exact hinv.mul hid
  · exact continuousAt_const

/-- **eq.-radius factor increases with the aspect ratio** (ℝ; needle, plate, cuboid) -/
theorem real_eqRadius_strictMono :
    StrictMonoOn (needle_eqRadius : ℝ → ℝ) (Set.Ici 1)
    ∧ StrictMonoOn (plate_eqRadius : ℝ → ℝ) (Set.Ici 1)
    ∧ StrictMonoOn (cuboid_eqRadius : ℝ → ℝ) (Set.Ici 1) := by
  have key : ∀ {x y : ℝ}, 0 ≤ x → x < y → (Trans.cbrt x : ℝ) < Trans.cbrt y := by
    intro x y hx hxy
    rw [real_cbrt_of_nonneg hx, real_cbrt_of_nonneg (hx.trans hxy.le)]
    exact Real.rpow_lt_rpow hx hxy (by norm_num)
  have hpi := Real.pi_pos
  refine ⟨?_, ?_, ?_⟩
  · intro x hx y hy hxy
    have hx : (1:ℝ) ≤ x := hx
    exact key (by linarith) hxy
  · intro x hx y hy hxy
    have hx : (1:ℝ) ≤ x := hx
    show (Trans.cbrt (x * x) : ℝ) < Trans.cbrt (y * y)
    exact key (by nlinarith) (by nlinarith)
  · intro x hx y hy hxy
    have hx : (1:ℝ) ≤ x := hx
    show (Trans.cbrt (3 * x / (4 * Real.pi)) : ℝ) < Trans.cbrt (3 * y / (4 * Real.pi))
    apply key (by positivity)
    apply div_lt_div_of_pos_right _ (by positivity)
    linarith

end realcont

/-! ## non-vacuity: the hypothesis sets are satisfiable -/

-- atoms' laws: ℝ (theorems `real_cbrt_cube`, `real_pow_two_thirds`, `real_arccos`, `real_arctanh` above)
example : ∃ a ar R : ℝ, 0 < a ∧ 0 < ar ∧ 0 < R ∧ R ^ 3 = a ^ 2 * (ar * a) :=
  ⟨1, 8, 2, by norm_num, by norm_num, by norm_num, by norm_num⟩
-- bracket hypotheses of `findRcrit_bracket`: tf ≡ 2, Rs = 1, Rmax = 4: f(1) = -1/2, f(4) = 1
example : (0:ℚ) ≤ 1/1000 ∧ (1:ℚ) ≤ 4 ∧ obj (1:ℚ) (fun _ => 2) 1 ≠ 0
    ∧ obj (1:ℚ) (fun _ => 2) 1 * obj (1:ℚ) (fun _ => 2) 4 ≤ 0 := by
  norm_num [obj]
-- and the search on it converges to the root 2 at once
example : (findRcrit (1/1000 : ℚ) 1 3 (fun _ => 2)).r = 2
    ∧ (findRcrit (1/1000 : ℚ) 1 3 (fun _ => 2)).fallback = false := by
  constructor <;> · unfold findRcrit loop; norm_num [init, obj, absS]
-- the wrapper model on a concrete array: below 1, at 1, above 1
example : wrapArr (7:ℚ) (fun x => x * 10) [1/2, 1, 3] = [7, 7, 30] := by
  norm_num [wrapArr, processAspectRatio, clamp, scatter, List.filter]

end KawinV.Props.C15
