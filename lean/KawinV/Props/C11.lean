/-
C11 — property theorems (stub; nothing proved yet).
-/
namespace KawinV.Props.C11
end KawinV.Props.C11
