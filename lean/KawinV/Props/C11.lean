/-
C11 — results are equivariant under reordering of elements and of phases.

Property theorems about `KawinV.Permute` (the sortIndices / unsortIndices wrappers of
kawin/thermo/Thermodynamics.py, MultiTherm.py, diffusion/DiffusionParameters.py) and `KawinV.DtRules`
(the per-phase loops of Constraints.computeDTfrom…, PrecipitateModel.getDt and _calcNucleationSites);
both models are tied to the source by tools/corr/C11.py.

* inverse permutation: `unsort_take_sort`, `sort_take_unsort`, `unsort_rows_cols`
* element equivariance for an ARBITRARY backend: `wrapVec_equivariant`, `wrapMat_equivariant` (P·D·Pᵀ),
  `wrapVecRef_equivariant`, `wrapVecFull_equivariant` (reference element in front), `byName_equivariant`,
  `matVec_equivariant` (D·∇x commutes with a re-listing); key lemmas `unsort_eq_rank`, `unsort_take`,
  `sorted_data_invariant`
* per-phase step-size rules under `List.Perm` of the phase list: `dtPSD_perm`, `dtNuc_perm`, `dtRcrit_perm`,
  `dtVolume_perm` (repaired code), `dtVolume_le`; the code as it WAS: `dtVolumeOld_order_dependent` (negative
  witness), `dtVolumeOld_last`, `dtVolumeOld_partial`
* per-phase update `updateAll_perm`, `updateAll_equivariant`, `getDt_updateAll_perm`; the dedented form
  `updateDedented_order_dependent` (counter-example)
* per-phase set-up `setupAll_perm`, `setupAll_equivariant`, `setupAll_single`; the late-binding closure form
  `setupLateBound_order_dependent` (counter-example), `setupLateBound_partial`
* `getDt_perm`, site competition `calcSites_perm` / `calcSites_others`, whole step `stepSummary_perm`,
  `stepSummary_equivariant`

Keys are any linear order, scalars any linearly ordered field.  Floating point and pycalphad are monitored
by the oracle only (see META in tools/corr/C11.py).
-/
import KawinV.Model.Permute
import KawinV.Model.DtRules
import Mathlib.Data.List.Sort
import Mathlib.Data.List.Perm.Basic
import Mathlib.Data.List.Range
import Mathlib.Data.List.Nodup
import Mathlib.Order.Basic
import Mathlib.Tactic.Ring
import Mathlib.Tactic.Linarith
import Mathlib.Tactic.NormNum
import Mathlib.Algebra.Order.Field.Basic
import Mathlib.Algebra.BigOperators.Group.List.Basic
import Mathlib.Algebra.Order.Ring.Rat

set_option linter.unusedSectionVars false
set_option linter.unusedVariables false
set_option linter.unusedSimpArgs false

namespace KawinV.Props.C11
open KawinV.Permute
open scoped List

/-! ## fancy indexing -/
section take
variable {α β : Type} [Inhabited α] [Inhabited β]

theorem take_length (idx : List Nat) (a : List α) : (take idx a).length = idx.length := by
  simp [take]

theorem take_getElem (idx : List Nat) (a : List α) (i : Nat) (hi : i < (take idx a).length) :
    (take idx a)[i] = a.getD (idx[i]'(by simpa [take] using hi)) default := by
  simp [take]

/-- `a[range n] = a` -/
theorem take_range (a : List α) : take (List.range a.length) a = a := by
  apply List.ext_getElem
  · simp [take]
  · intro i h1 h2
    simp [take, h2]

/-- `a[s][u] = a[s[u]]` when the entries of `u` index into `s` -/
theorem take_take (u s : List Nat) (a : List α) (hu : ∀ i ∈ u, i < s.length) :
    take u (take s a) = take (take u s) a := by
  unfold take
  rw [List.map_map]
  apply List.map_congr_left
  intro i hi
  have := hu i hi
  simp [this]

/-- `f(a)[idx] = f(a[idx])` elementwise, for in-range indices -/
theorem take_map (idx : List Nat) (a : List α) (f : α → β) (h : ∀ i ∈ idx, i < a.length) :
    take idx (a.map f) = (take idx a).map f := by
  unfold take
  rw [List.map_map]
  apply List.map_congr_left
  intro i hi
  have := h i hi
  simp [this]

/-- indexing with a permutation of `range n` permutes -/
theorem take_perm (p : List Nat) (a : List α) (hp : p ~ List.range a.length) : take p a ~ a := by
  have h := hp.map (fun i => a.getD i default)
  have h2 : (List.range a.length).map (fun i => a.getD i default) = a := take_range a
  rw [h2] at h
  exact h

theorem mem_lt_of_perm_range {p : List Nat} {n : Nat} (hp : p ~ List.range n) : ∀ i ∈ p, i < n := by
  intro i hi
  exact List.mem_range.mp (hp.mem_iff.mp hi)

/-- two in-range index lists that pick the same entries from a duplicate-free list are equal -/
theorem take_inj (ks : List α) (hnd : ks.Nodup) (w s : List Nat)
    (hw : ∀ i ∈ w, i < ks.length) (hs : ∀ i ∈ s, i < ks.length)
    (h : take w ks = take s ks) : w = s := by
  have hlen : w.length = s.length := by
    have := congrArg List.length h
    simpa [take] using this
  apply List.ext_getElem hlen
  intro i h1 h2
  have e1 := take_getElem w ks i (by simpa [take] using h1)
  have e2 := take_getElem s ks i (by simpa [take] using h2)
  have hw' := hw _ (List.getElem_mem h1)
  have hs' := hs _ (List.getElem_mem h2)
  have : (take w ks)[i]'(by simpa [take] using h1) = (take s ks)[i]'(by simpa [take] using h2) := by
    simp only [h]
  rw [e1, e2] at this
  simp only [List.getD_eq_getElem?_getD, List.getElem?_eq_getElem hw', List.getElem?_eq_getElem hs',
    Option.getD_some] at this
  exact (hnd.getElem_inj_iff).mp this

end take

/-! ## argsort -/
section argsort
variable {κ : Type} [LinearOrder κ]

theorem keyLe_iff (a b : κ × Nat) : keyLe a b = true ↔ a.1 ≤ b.1 := by
  simp [keyLe]

theorem sortedPairs_perm (ks : List κ) : sortedPairs ks ~ ks.zipIdx :=
  List.mergeSort_perm _ _

theorem sortedPairs_pairwise (ks : List κ) : (sortedPairs ks).Pairwise (fun a b => a.1 ≤ b.1) := by
  have h := List.pairwise_mergeSort (le := (keyLe : κ × Nat → κ × Nat → Bool))
    (by intro a b c; simp only [keyLe_iff]; exact le_trans)
    (by intro a b; simp only [Bool.or_eq_true, keyLe_iff]; exact le_total _ _) ks.zipIdx
  unfold sortedPairs
  exact h.imp (fun {a b} hab => (keyLe_iff a b).mp hab)

/-- every (key, position) pair of the sorted list is a pair of the input: `ks[position] = key` -/
theorem sortedPairs_mem (ks : List κ) (p : κ × Nat) (hp : p ∈ sortedPairs ks) : ks[p.2]? = some p.1 := by
  have := (sortedPairs_perm ks).mem_iff.mp hp
  rcases p with ⟨k, i⟩
  simpa [List.mem_zipIdx_iff_getElem?] using this

theorem argsort_length (ks : List κ) : (argsort ks).length = ks.length := by
  simp [argsort, sortedPairs]

/-- `argsort` returns a permutation of `0..n-1` -/
theorem argsort_perm_range (ks : List κ) : argsort ks ~ List.range ks.length := by
  have h := (sortedPairs_perm ks).map Prod.snd
  have h2 : ks.zipIdx.map Prod.snd = List.range ks.length := by
    apply List.ext_getElem <;> simp
  rw [h2] at h
  exact h

theorem sortedKeys_perm (ks : List κ) : sortedKeys ks ~ ks := by
  have h := (sortedPairs_perm ks).map Prod.fst
  have h2 : ks.zipIdx.map Prod.fst = ks := by
    apply List.ext_getElem <;> simp
  rw [h2] at h
  exact h

theorem sortedKeys_sorted (ks : List κ) : (sortedKeys ks).Pairwise (· ≤ ·) := by
  unfold sortedKeys
  rw [List.pairwise_map]
  exact sortedPairs_pairwise ks

/-- the sorted list depends on the multiset of keys only -/
theorem sortedKeys_congr {ks ks' : List κ} (h : ks' ~ ks) : sortedKeys ks' = sortedKeys ks :=
  List.Perm.eq_of_pairwise (le := (· ≤ ·)) (fun a b _ _ h1 h2 => le_antisymm h1 h2)
    (sortedKeys_sorted ks') (sortedKeys_sorted ks)
    ((sortedKeys_perm ks').trans (h.trans (sortedKeys_perm ks).symm))

variable {α : Type} [Inhabited α]

/-- `a[argsort ks]` lists the entries of `a` in ascending order of their keys -/
theorem take_argsort (ks : List κ) (a : List α) :
    take (argsort ks) a = (sortedPairs ks).map (fun p => a.getD p.2 default) := by
  simp [take, argsort, List.map_map, Function.comp_def]

/-- `ks[argsort ks] = sorted ks` -/
theorem take_argsort_self [Inhabited κ] (ks : List κ) : take (argsort ks) ks = sortedKeys ks := by
  rw [take_argsort]
  unfold sortedKeys
  apply List.map_congr_left
  intro p hp
  simp [sortedPairs_mem ks p hp]

end argsort

/-! ## inverse permutation -/
section inverse
variable {κ : Type} [LinearOrder κ] {α : Type} [Inhabited α]

/-- a sorted permutation of `0..n-1` is `0..n-1` -/
theorem sortedKeys_of_perm_range (s : List Nat) (n : Nat) (hs : s ~ List.range n) :
    sortedKeys s = List.range n :=
  List.Perm.eq_of_pairwise (le := (· ≤ ·)) (fun a b _ _ h1 h2 => le_antisymm h1 h2)
    (sortedKeys_sorted s) (by
      rw [List.pairwise_iff_getElem]
      intro i j hi hj hij
      simp only [List.getElem_range]
      exact hij.le)
    ((sortedKeys_perm s).trans hs)

/-- `s[argsort s] = range n` for a permutation `s` of `0..n-1`: `argsort s` is the inverse permutation -/
theorem take_argsort_perm (s : List Nat) (hs : s ~ List.range s.length) :
    take (argsort s) s = List.range s.length := by
  rw [take_argsort_self, sortedKeys_of_perm_range s _ hs]

/-- **inverse permutation** (vectors): `a[sortIndices][unsortIndices] = a`, for ANY key list (distinct
or not) and any `a` of the same length. -/
theorem unsort_take_sort (ks : List κ) (a : List α) (ha : a.length = ks.length) :
    take (argsort (argsort ks)) (take (argsort ks) a) = a := by
  have hs := argsort_perm_range ks
  have hlen := argsort_length ks
  have hu : argsort (argsort ks) ~ List.range (argsort ks).length := argsort_perm_range _
  rw [take_take _ _ _ (mem_lt_of_perm_range hu)]
  rw [take_argsort_perm _ (by rw [hlen]; exact hs), hlen, ← ha]
  exact take_range a

/-- the same in the model's names -/
theorem unsortIdx_sortIdx (ks : List κ) (a : List α) (ha : a.length = ks.length) :
    take (unsortIdx ks) (take (sortIdx ks) a) = a :=
  unsort_take_sort ks a ha

/-- **inverse permutation** (matrices): rows∘columns.  `M[s,:][:,s]` then `[u,:][:,u]` gives `M` back
for an n×n matrix. -/
theorem unsort_rows_cols (ks : List κ) (m : List (List α)) (hm : m.length = ks.length)
    (hrow : ∀ r ∈ m, r.length = ks.length) :
    permMat (argsort (argsort ks)) (permMat (argsort ks) m) = m := by
  have hs := argsort_perm_range ks
  have hlen := argsort_length ks
  have hu : argsort (argsort ks) ~ List.range (argsort ks).length := argsort_perm_range _
  have hu' : ∀ i ∈ argsort (argsort ks), i < (argsort ks).length := mem_lt_of_perm_range hu
  unfold permMat takeCols takeRows
  rw [take_map _ _ _ (by simpa [take_length] using hu')]
  rw [unsort_take_sort ks m hm, List.map_map]
  conv_rhs => rw [← List.map_id m]
  apply List.map_congr_left
  intro r hr
  exact unsort_take_sort ks r (hrow r hr)

/-- the other direction: `a[unsortIndices][sortIndices] = a` -/
theorem sort_take_unsort (ks : List κ) (a : List α) (ha : a.length = ks.length) :
    take (argsort ks) (take (argsort (argsort ks)) a) = a := by
  have hs := argsort_perm_range ks
  have hlen := argsort_length ks
  have hu : argsort (argsort ks) ~ List.range (argsort ks).length := argsort_perm_range _
  have hulen : (argsort (argsort ks)).length = ks.length := by rw [argsort_length, hlen]
  have hs' : ∀ i ∈ argsort ks, i < (argsort (argsort ks)).length := by
    rw [hulen]; exact mem_lt_of_perm_range hs
  rw [take_take _ _ _ hs']
  -- w = u[s] satisfies s[w] = s, hence w = range n
  have hw : take (argsort ks) (argsort (argsort ks)) = List.range ks.length := by
    apply take_inj (argsort ks) (hs.nodup_iff.mpr List.nodup_range)
    · intro i hi
      simp only [take, List.mem_map] at hi
      obtain ⟨j, hj, rfl⟩ := hi
      have hj' : j < (argsort (argsort ks)).length := hs' j hj
      rw [List.getD_eq_getElem?_getD, List.getElem?_eq_getElem hj', Option.getD_some]
      exact mem_lt_of_perm_range hu _ (List.getElem_mem hj')
    · intro i hi; rw [hlen]; exact List.mem_range.mp hi
    · rw [← take_take _ _ _ hs']
      rw [take_argsort_perm _ (by rw [hlen]; exact hs), hlen]
      have h1 : take (argsort ks) (List.range ks.length) = argsort ks := by
        apply List.ext_getElem
        · simp [take]
        · intro i h1 h2
          have : (argsort ks)[i] < ks.length := mem_lt_of_perm_range hs _ (List.getElem_mem h2)
          simp [take, this]
      rw [h1, ← hlen]
      exact (take_range _).symm
  rw [hw, ← ha]
  exact take_range a

end inverse

/-! ## element equivariance -/
section equivariance
variable {κ : Type} [LinearOrder κ] [Inhabited κ] {α β : Type} [Inhabited α] [Inhabited β]

/-- `unsortIndices[i]` is the alphabetical RANK of the name at user position `i` (distinct names) -/
theorem unsort_eq_rank (ks : List κ) (hnd : ks.Nodup) :
    unsortIdx ks = ks.map (fun k => (sortedKeys ks).idxOf k) := by
  have hu : argsort (argsort ks) ~ List.range (argsort ks).length := argsort_perm_range _
  have hlen := argsort_length ks
  have hulen : (argsort (argsort ks)).length = ks.length := by rw [argsort_length, hlen]
  have hskl : (sortedKeys ks).length = ks.length := (sortedKeys_perm ks).length_eq
  have hsnd : (sortedKeys ks).Nodup := (sortedKeys_perm ks).nodup_iff.mpr hnd
  -- sorted[u] = ks
  have key : take (argsort (argsort ks)) (sortedKeys ks) = ks := by
    rw [← take_argsort_self]; exact unsort_take_sort ks ks rfl
  unfold unsortIdx
  apply List.ext_getElem
  · simp [hulen]
  · intro i h1 h2
    have hi : i < ks.length := by simpa using h2
    have hui : (argsort (argsort ks))[i] < (sortedKeys ks).length := by
      rw [hskl, ← hlen]; exact mem_lt_of_perm_range hu _ (List.getElem_mem h1)
    have e := take_getElem (argsort (argsort ks)) (sortedKeys ks) i (by simpa [take_length] using h1)
    simp only [key] at e
    rw [List.getD_eq_getElem?_getD, List.getElem?_eq_getElem hui, Option.getD_some] at e
    simp only [List.getElem_map]
    rw [e]
    exact (hsnd.idxOf_getElem _ hui).symm

/-- re-listing the names with a permutation `p` of the positions -/
theorem take_names_perm (ks : List κ) (p : List Nat) (hp : p ~ List.range ks.length) : take p ks ~ ks :=
  take_perm p ks hp

/-- **ranks move with the names**: `unsortIndices` of the re-listed names is the re-listed `unsortIndices` -/
theorem unsort_take (ks : List κ) (hnd : ks.Nodup) (p : List Nat) (hp : p ~ List.range ks.length) :
    unsortIdx (take p ks) = take p (unsortIdx ks) := by
  have hperm := take_names_perm ks p hp
  have hnd' : (take p ks).Nodup := hperm.nodup_iff.mpr hnd
  rw [unsort_eq_rank _ hnd', unsort_eq_rank _ hnd, sortedKeys_congr hperm]
  exact (take_map p ks _ (mem_lt_of_perm_range hp)).symm

/-- **the backend sees the same data**: values aligned with the sorted names do not depend on the
order in which names and values were listed -/
theorem sorted_data_invariant (ks : List κ) (hnd : ks.Nodup) (p : List Nat) (hp : p ~ List.range ks.length)
    (x : List α) :
    take (sortIdx (take p ks)) (take p x) = take (sortIdx ks) x := by
  unfold sortIdx
  have hperm := take_names_perm ks p hp
  have hplen : p.length = ks.length := by simpa using hp.length_eq
  have hs' : argsort (take p ks) ~ List.range p.length := by
    have := argsort_perm_range (take p ks); rwa [take_length] at this
  have hin : ∀ i ∈ argsort (take p ks), i < p.length := mem_lt_of_perm_range hs'
  rw [take_take _ _ _ hin]
  congr 1
  -- both index lists pick the sorted names out of ks
  apply take_inj ks hnd
  · intro i hi
    simp only [take, List.mem_map] at hi
    obtain ⟨j, hj, rfl⟩ := hi
    have hj' := hin j hj
    rw [List.getD_eq_getElem?_getD, List.getElem?_eq_getElem hj', Option.getD_some]
    exact mem_lt_of_perm_range hp _ (List.getElem_mem hj')
  · exact mem_lt_of_perm_range (argsort_perm_range ks)
  · rw [← take_take _ _ _ hin, take_argsort_self, take_argsort_self, sortedKeys_congr hperm]

theorem sorted_names_invariant (ks : List κ) (p : List Nat) (hp : p ~ List.range ks.length) :
    take (sortIdx (take p ks)) (take p ks) = take (sortIdx ks) ks := by
  unfold sortIdx
  rw [take_argsort_self, take_argsort_self, sortedKeys_congr (take_names_perm ks p hp)]

/-- **element equivariance, vector results**: for every permutation `p` of the listed names and an
ARBITRARY backend, listing names and inputs in the order `p` returns the result in the order `p`:
`wrapper (names∘p) (x∘p) = (wrapper names x)∘p`. -/
theorem wrapVec_equivariant (backend : List κ → List α → List β) (names : List κ) (hnd : names.Nodup)
    (p : List Nat) (hp : p ~ List.range names.length) (x : List α) :
    wrapVec backend (take p names) (take p x) = take p (wrapVec backend names x) := by
  unfold wrapVec
  rw [sorted_names_invariant names p hp, sorted_data_invariant names hnd p hp x, unsort_take names hnd p hp]
  have hulen : (unsortIdx names).length = names.length := by
    unfold unsortIdx; rw [argsort_length, argsort_length]
  rw [← take_take _ _ _ (by rw [hulen]; exact mem_lt_of_perm_range hp)]

/-- `M[q,:][:,q]` with `q = u[p]` is `(M[u,:][:,u])[p,:][:,p]` -/
theorem permMat_take (p u : List Nat) (m : List (List β)) (hp : ∀ i ∈ p, i < u.length) :
    permMat (take p u) m = permMat p (permMat u m) := by
  unfold permMat takeCols takeRows
  rw [← take_take _ _ _ hp, take_map p (take u m) _ (by simpa [take_length] using hp), List.map_map]
  apply List.map_congr_left
  intro r _
  simp only [Function.comp]
  exact (take_take _ _ _ hp).symm

/-- **element equivariance, matrix results** (`Dnkj`, `Gba`): the result for the re-listed names is
`P·D·Pᵀ`, rows and columns re-listed the same way, for an ARBITRARY backend. -/
theorem wrapMat_equivariant (backend : List κ → List α → List (List β)) (names : List κ)
    (hnd : names.Nodup) (p : List Nat) (hp : p ~ List.range names.length) (x : List α) :
    wrapMat backend (take p names) (take p x) = permMat p (wrapMat backend names x) := by
  unfold wrapMat
  rw [sorted_names_invariant names p hp, sorted_data_invariant names hnd p hp x, unsort_take names hnd p hp]
  have hulen : (unsortIdx names).length = names.length := by
    unfold unsortIdx; rw [argsort_length, argsort_length]
  exact permMat_take p _ _ (by rw [hulen]; exact mem_lt_of_perm_range hp)

/-- positions of `ref :: solutes` when the solutes are re-listed with `p` -/
def liftPerm (p : List Nat) : List Nat := 0 :: p.map (· + 1)

theorem liftPerm_perm (p : List Nat) (n : Nat) (hp : p ~ List.range n) :
    liftPerm p ~ List.range (n + 1) := by
  unfold liftPerm
  rw [List.range_succ_eq_map]
  exact List.Perm.cons 0 (hp.map _)

theorem take_liftPerm (p : List Nat) (a : α) (as : List α) :
    take (liftPerm p) (a :: as) = a :: take p as := by
  simp [take, liftPerm, List.map_map, Function.comp_def]

theorem tail_take_liftPerm (p : List Nat) (u : List Nat) (hu : u ≠ []) :
    (take (liftPerm p) u).tail = take p u.tail := by
  cases u with
  | nil => exact absurd rfl hu
  | cons a as => rw [take_liftPerm]; rfl

/-- **element equivariance with a reference element** (driving-force precipitate composition
`xb[unsortIndices[1:]]`): re-listing the SOLUTES re-lists the result the same way; the reference element
stays in front and the backend (which answers for all components alphabetically) is arbitrary. -/
theorem wrapVecRef_equivariant (backend : List κ → List κ → List α → List β) (ref : κ) (solutes : List κ)
    (hnd : (ref :: solutes).Nodup) (p : List Nat) (hp : p ~ List.range solutes.length) (x : List α) :
    wrapVecRef backend ref (take p solutes) (take p x) = take p (wrapVecRef backend ref solutes x) := by
  unfold wrapVecRef
  have hnds : solutes.Nodup := (List.nodup_cons.mp hnd).2
  have hlp : liftPerm p ~ List.range (ref :: solutes).length := liftPerm_perm p _ hp
  have hcons : ref :: take p solutes = take (liftPerm p) (ref :: solutes) := (take_liftPerm p ref solutes).symm
  rw [sorted_names_invariant solutes p hp, sorted_data_invariant solutes hnds p hp x, hcons,
    sortedKeys_congr (take_names_perm _ _ hlp), unsort_take _ hnd _ hlp]
  have hulen : (unsortIdx (ref :: solutes)).length = solutes.length + 1 := by
    unfold unsortIdx; rw [argsort_length, argsort_length]; rfl
  have hne : unsortIdx (ref :: solutes) ≠ [] := by
    intro h; rw [h] at hulen; simp at hulen
  rw [tail_take_liftPerm p _ hne]
  rw [← take_take _ _ _ (by
    intro i hi
    have := mem_lt_of_perm_range hp i hi
    rw [List.length_tail, hulen]; omega)]

/-- the same with the reference entry kept (tracer diffusivities, mobilities, interfacial compositions over
`elements[:-1]`): entry 0 (reference element) is unchanged, the solute entries are re-listed. -/
theorem wrapVecFull_equivariant (backend : List κ → List κ → List α → List β) (ref : κ) (solutes : List κ)
    (hnd : (ref :: solutes).Nodup) (p : List Nat) (hp : p ~ List.range solutes.length) (x : List α) :
    wrapVecFull backend ref (take p solutes) (take p x)
      = take (liftPerm p) (wrapVecFull backend ref solutes x) := by
  unfold wrapVecFull
  have hnds : solutes.Nodup := (List.nodup_cons.mp hnd).2
  have hlp : liftPerm p ~ List.range (ref :: solutes).length := liftPerm_perm p _ hp
  have hcons : ref :: take p solutes = take (liftPerm p) (ref :: solutes) := (take_liftPerm p ref solutes).symm
  rw [sorted_names_invariant solutes p hp, sorted_data_invariant solutes hnds p hp x, hcons,
    sortedKeys_congr (take_names_perm _ _ hlp), unsort_take _ hnd _ hlp]
  have hulen : (unsortIdx (ref :: solutes)).length = (ref :: solutes).length := by
    unfold unsortIdx; rw [argsort_length, argsort_length]
  rw [← take_take _ _ _ (by rw [hulen]; exact mem_lt_of_perm_range hlp)]

/-- rows filled by name (composition profiles, boundary conditions) follow the listed order -/
theorem byName_equivariant {γ : Type} [Inhabited γ] (table : κ → γ) (names : List κ) (p : List Nat)
    (hp : p ~ List.range names.length) :
    byName table (take p names) = take p (byName table names) := by
  unfold byName
  exact (take_map p names table (mem_lt_of_perm_range hp)).symm

end equivariance

/-! ## per-phase step-size rules -/
section steps
open KawinV.DtRules
variable {α : Type} [Field α] [LinearOrder α] [IsStrictOrderedRing α]

theorem foldl_minS_spec (xs : List α) (a : α) :
    (xs.foldl minS a = a ∨ xs.foldl minS a ∈ xs) ∧ xs.foldl minS a ≤ a ∧ ∀ x ∈ xs, xs.foldl minS a ≤ x := by
  induction xs generalizing a with
  | nil => simp
  | cons y ys ih =>
    simp only [List.foldl_cons, List.mem_cons]
    obtain ⟨h1, h2, h3⟩ := ih (minS a y)
    have hle : minS a y ≤ a ∧ minS a y ≤ y ∧ (minS a y = a ∨ minS a y = y) := by
      unfold minS; split
      · next h => exact ⟨h.le, le_refl _, Or.inr rfl⟩
      · next h => exact ⟨le_refl _, not_lt.mp h, Or.inl rfl⟩
    refine ⟨?_, h2.trans hle.1, ?_⟩
    · rcases h1 with h1 | h1
      · rcases hle.2.2 with e | e
        · left; rw [h1, e]
        · right; left; rw [h1, e]
      · right; right; exact h1
    · intro x hx
      rcases hx with rfl | hx
      · exact h2.trans hle.2.1
      · exact h3 x hx

/-- `np.amin` returns an entry of the list … -/
theorem minList_mem (l : List α) (h : l ≠ []) : minList l ∈ l := by
  cases l with
  | nil => exact absurd rfl h
  | cons x xs =>
    show xs.foldl minS x ∈ x :: xs
    rcases (foldl_minS_spec xs x).1 with e | e
    · rw [e]; exact List.mem_cons_self
    · exact List.mem_cons_of_mem _ e

/-- … that is below every entry -/
theorem minList_le (l : List α) (x : α) (hx : x ∈ l) : minList l ≤ x := by
  cases l with
  | nil => simp at hx
  | cons y ys =>
    show ys.foldl minS y ≤ x
    obtain ⟨_, h2, h3⟩ := foldl_minS_spec ys y
    rcases List.mem_cons.mp hx with rfl | h
    · exact h2
    · exact h3 x h

/-- **min is symmetric**: `np.amin` does not depend on the order of the entries -/
theorem minList_perm {l l' : List α} (h : l ~ l') : minList l = minList l' := by
  by_cases hl : l = []
  · subst hl; rw [List.nil_perm.mp h]
  · have hl' : l' ≠ [] := fun e => hl (by subst e; exact List.perm_nil.mp h)
    apply le_antisymm
    · exact minList_le l _ (h.mem_iff.mpr (minList_mem l' hl'))
    · exact minList_le l' _ (h.mem_iff.mp (minList_mem l hl))

theorem sumL_eq_sum (l : List α) : DtRules.sumL l = l.sum := by
  induction l with
  | nil => rfl
  | cons x xs ih => simp [DtRules.sumL, ih]

/-- **sums over phases commute** -/
theorem sumL_perm {l l' : List α} (h : l ~ l') : DtRules.sumL l = DtRules.sumL l' := by
  rw [sumL_eq_sum, sumL_eq_sum]; exact h.sum_eq

variable {phases phases' : List (Phase α)}

/-- `computeDTfromPSD` does not depend on the order of the phases -/
theorem dtPSD_perm (c : Cfg α) (n : Nat) (Tp Tc dtMax : α) (h : phases ~ phases') :
    dtPSD c n Tp Tc dtMax phases = dtPSD c n Tp Tc dtMax phases' := by
  unfold dtPSD
  split
  · apply minList_perm
    apply List.Perm.cons
    split
    · exact h.map _
    · exact List.Perm.refl _
  · rfl

/-- `computeDTfromNucleationRate` does not depend on the order of the phases -/
theorem dtNuc_perm [Trans α] (c : Cfg α) (n : Nat) (dtPrev dtMax : α) (h : phases ~ phases') :
    dtNuc c n dtPrev dtMax phases = dtNuc c n dtPrev dtMax phases' := by
  unfold dtNuc
  split
  · exact minList_perm (h.map _)
  · rfl

theorem all_perm {β : Type} (f : β → Bool) {l l' : List β} (h : l ~ l') : l.all f = l'.all f := by
  rw [Bool.eq_iff_iff, List.all_eq_true, List.all_eq_true]
  exact ⟨fun H x hx => H x (h.mem_iff.mpr hx), fun H x hx => H x (h.mem_iff.mp hx)⟩

/-- `computeDTfromRcrit` does not depend on the order of the phases -/
theorem dtRcrit_perm (c : Cfg α) (n : Nat) (dtPrev dtMax : α) (h : phases ~ phases') :
    dtRcrit c n dtPrev dtMax phases = dtRcrit c n dtPrev dtMax phases' := by
  unfold dtRcrit
  rw [all_perm rcQuiet h]
  split
  · split
    · exact minList_perm (h.map _)
    · exact minList_perm (h.map _)
  · rfl

/-- `computeDTfromVolume` (repaired code) does not depend on the order of the phases -/
theorem dtVolume_perm (c : Cfg α) (vmAlpha dtMax : α) (h : phases ~ phases') :
    dtVolume c vmAlpha dtMax phases = dtVolume c vmAlpha dtMax phases' := by
  unfold dtVolume
  split
  · exact minList_perm (h.map _)
  · rfl

/-- the repaired rule respects the estimate of EVERY phase, wherever it is listed -/
theorem dtVolume_le (c : Cfg α) (vmAlpha dtMax : α) (ph : Phase α) (hph : ph ∈ phases)
    (hc : c.checkVol = true) (hnz : dVPhase vmAlpha ph ≠ 0) :
    dtVolume c vmAlpha dtMax phases ≤ c.maxVolChange / (2 * |dVPhase vmAlpha ph|) := by
  unfold dtVolume
  rw [if_pos hc]
  have hmem : dtVolPhase c vmAlpha dtMax ph ∈ phases.map (dtVolPhase c vmAlpha dtMax) :=
    List.mem_map_of_mem hph
  have := minList_le _ _ hmem
  have e : dtVolPhase c vmAlpha dtMax ph = c.maxVolChange / (2 * |dVPhase vmAlpha ph|) := by
    unfold dtVolPhase
    have hz : nz (dVPhase vmAlpha ph) := lt_or_gt_of_ne hnz
    simp only [hz, if_true]
    congr 2
    unfold DtRules.absS
    split
    · next h => exact (abs_of_neg h).symm
    · next h => exact (abs_of_nonneg (not_lt.mp h)).symm
  rwa [e] at this

/-! ### the rule before the repair (D-C11-dtvolume) -/

/-- before the repair only the LAST listed phase entered the limit -/
theorem dtVolumeOld_last (c : Cfg α) (vmAlpha dtMax : α) (init : List (Phase α)) (last : Phase α)
    (hc : c.checkVol = true) :
    dtVolumeOld c vmAlpha dtMax (init ++ [last])
      = if nz (dVPhase vmAlpha last) then c.maxVolChange / (2 * DtRules.absS (dVPhase vmAlpha last)) else dtMax := by
  unfold dtVolumeOld
  rw [if_pos hc]
  simp only [List.getLast?_append, List.getLast?_singleton, Option.some_or]
  have hne : (init ++ [last]).map (fun _ => if nz (dVPhase vmAlpha last) then
      c.maxVolChange / (2 * DtRules.absS (dVPhase vmAlpha last)) else dtMax) ≠ [] := by simp
  have := minList_mem _ hne
  simp only [List.mem_map] at this
  obtain ⟨_, _, e⟩ := this
  exact e.symm

/-- what did hold before the repair: re-listings that keep the same phase LAST -/
theorem dtVolumeOld_partial (c : Cfg α) (vmAlpha dtMax : α) (h : phases ~ phases')
    (hlast : phases.getLast? = phases'.getLast?) :
    dtVolumeOld c vmAlpha dtMax phases = dtVolumeOld c vmAlpha dtMax phases' := by
  unfold dtVolumeOld
  rw [hlast]
  split
  · cases phases'.getLast? with
    | none => rfl
    | some l => exact minList_perm (h.map _)
  · rfl

def cfgQ : Cfg ℚ :=
  { checkPSD := true, checkNuc := true, checkTemp := true, checkRcrit := true, checkVol := true,
    minNucRate := 0, maxNucChange := 1, maxNonIsoDT := 1, maxRcritChange := 1, maxVolChange := 1,
    dtScale := 0, binRatio := 1 }

/-- one size class holding `dens` particles of radius 1, both faces growing at rate 1 -/
def phQ (id : Nat) (dens : ℚ) : Phase ℚ :=
  { id := id, site := .bulk, psd := [dens], size := [1], bounds := [0, 2], growth := [1, 1], dissIdx := 0,
    nucPrev := 0, nucCur := 0, rcPrev := 0, rcCur := 0, dG := 0, Rnuc := 0,
    vmBeta := 1, areaFactor := 1, volumeFactor := 1, gbRemoval := 0, gbk := 0, parents := [], x := [dens] }

/-- **negative witness for the code as it was** (D-C11-dtvolume): two phases whose estimated volume
changes are 1 and 3; listed (A, B) the old rule returns 1/6, listed (B, A) it returns 1/2. -/
theorem dtVolumeOld_order_dependent :
    dtVolumeOld cfgQ 1 10 [phQ 0 1, phQ 1 3] = 1 / 6 ∧ dtVolumeOld cfgQ 1 10 [phQ 1 3, phQ 0 1] = 1 / 2 ∧
    [phQ 0 1, phQ 1 3] ~ [phQ 1 3, phQ 0 1] := by
  refine ⟨?_, ?_, List.Perm.swap _ _ _⟩ <;>
    norm_num [dtVolumeOld, cfgQ, phQ, dVPhase, dVi, DtRules.sumL, minList, minS, DtRules.absS, npow, nz]

/-- the repaired rule on the same two listings: 1/6 both times (the larger estimate limits the step) -/
example : dtVolume cfgQ 1 10 [phQ 0 1, phQ 1 3] = 1 / 6 ∧ dtVolume cfgQ 1 10 [phQ 1 3, phQ 0 1] = 1 / 6 := by
  constructor <;>
    norm_num [dtVolume, dtVolPhase, cfgQ, phQ, dVPhase, dVi, DtRules.sumL, minList, minS, DtRules.absS, npow, nz]

end steps

/-! ## getDt, site competition, whole step -/
section wholestep
open KawinV.DtRules
variable {α : Type} [Field α] [LinearOrder α] [IsStrictOrderedRing α] [Trans α]
variable {phases phases' : List (Phase α)}

/-- `getDt` with any order-independent volume rule does not depend on the order of the phases -/
theorem getDtWith_perm (vol : Cfg α → α → α → List (Phase α) → α)
    (hvol : ∀ c v m, vol c v m phases = vol c v m phases')
    (c : Cfg α) (s : StepIn α) (h : phases ~ phases') :
    getDtWith vol c s phases = getDtWith vol c s phases' := by
  unfold getDtWith limits
  simp only [dtPSD_perm c s.n s.Tprev s.Tcur _ h, dtNuc_perm c s.n _ _ h, dtRcrit_perm c s.n _ _ h, hvol]

/-- **time step**: `getDt` of the repaired code returns the same step for every listing of the phases -/
theorem getDt_perm (c : Cfg α) (s : StepIn α) (h : phases ~ phases') :
    getDt c s phases = getDt c s phases' :=
  getDtWith_perm dtVolume (fun c v m => dtVolume_perm c v m h) c s h

/-- occupied sites: a sum over the phases of one kind -/
theorem occupied_perm (pred : Site → Bool) (w : Phase α → α) (h : phases ~ phases') :
    occupied pred w phases = occupied pred w phases' := by
  unfold occupied
  exact sumL_perm ((h.filter _).map _)

theorem find_perm_of_unique {β : Type} (q : β → Bool) {l l' : List β} (h : l ~ l')
    (huniq : ∀ a ∈ l, ∀ b ∈ l, q a = true → q b = true → a = b) : l.find? q = l'.find? q := by
  cases h1 : l.find? q with
  | none =>
    rw [List.find?_eq_none] at h1
    symm; rw [List.find?_eq_none]
    intro x hx; exact h1 x (h.mem_iff.mpr hx)
  | some a =>
    have ha := List.mem_of_find?_eq_some h1
    have hqa := List.find?_some h1
    cases h2 : l'.find? q with
    | none =>
      rw [List.find?_eq_none] at h2
      exact absurd hqa (h2 a (h.mem_iff.mp ha))
    | some b =>
      have hb := h.mem_iff.mpr (List.mem_of_find?_eq_some h2)
      have hqb := List.find?_some h2
      rw [huniq a ha b hb hqa hqb]

/-- sites on parent precipitates: parents are found by NAME, so the listing order is irrelevant
(phase names are distinct) -/
theorem parentSites_perm (NA : α) (parents : List Nat) (h : phases ~ phases')
    (hid : (phases.map (·.id)).Nodup) :
    parentSites NA phases parents = parentSites NA phases' parents := by
  unfold parentSites
  congr 1
  apply List.map_congr_left
  intro q _
  rw [find_perm_of_unique (fun ph => ph.id == q) h]
  intro a ha b hb hqa hqb
  have e : a.id = b.id := by
    rw [beq_iff_eq] at hqa hqb; rw [hqa, hqb]
  exact List.inj_on_of_nodup_map hid ha hb e

/-- **site competition**: the nucleation sites available to phase `p` do not depend on the order in
which the phases (the others and `p` itself) are listed. -/
theorem calcSites_perm (sc : SiteCfg α) (p : Phase α) (h : phases ~ phases')
    (hid : (phases.map (·.id)).Nodup) :
    calcSites sc phases p = calcSites sc phases' p := by
  unfold calcSites
  simp only [parentSites_perm sc.NA p.parents h hid, occupied_perm _ _ h]

/-- in particular under a re-listing of the OTHER phases only -/
theorem calcSites_others (sc : SiteCfg α) (p : Phase α) (pre post others' : List (Phase α))
    (h : pre ++ post ~ others') (hid : ((pre ++ p :: post).map (·.id)).Nodup) :
    calcSites sc (pre ++ p :: post) p = calcSites sc (p :: others') p := by
  apply calcSites_perm sc p _ hid
  exact (List.perm_middle).trans (List.Perm.cons p h)

/-- **whole step, as far as the model goes**: for a re-listing of the phases the time step is the
same and every phase is assigned the number of sites it had in the original listing. -/
theorem stepSummary_perm (c : Cfg α) (sc : SiteCfg α) (s : StepIn α) (h : phases ~ phases')
    (hid : (phases.map (·.id)).Nodup) :
    stepSummary c sc s phases' = ((stepSummary c sc s phases).1, phases'.map (calcSites sc phases)) := by
  unfold stepSummary
  simp only [getDt_perm c s h]
  congr 1
  apply List.map_congr_left
  intro p _
  exact (calcSites_perm sc p h hid).symm

instance : Inhabited (Phase α) :=
  ⟨{ id := 0, site := .bulk, psd := [], size := [], bounds := [], growth := [], dissIdx := 0,
     nucPrev := 0, nucCur := 0, rcPrev := 0, rcCur := 0, dG := 0, Rnuc := 0, vmBeta := 0, areaFactor := 0,
     volumeFactor := 0, gbRemoval := 0, gbk := 0, parents := [], x := [] }⟩

/-- the same in index form: `step (phases∘π) = (dt, sites∘π)` -/
theorem stepSummary_equivariant [Inhabited α] (c : Cfg α) (sc : SiteCfg α) (s : StepIn α) (phases : List (Phase α))
    (hid : (phases.map (·.id)).Nodup) (p : List Nat) (hp : p ~ List.range phases.length) :
    stepSummary c sc s (take p phases)
      = ((stepSummary c sc s phases).1, take p (stepSummary c sc s phases).2) := by
  rw [stepSummary_perm c sc s (take_perm p phases hp).symm hid]
  congr 1
  simp only [stepSummary]
  exact (take_map p phases _ (mem_lt_of_perm_range hp)).symm

end wholestep

/-! ## the per-phase update of a step (`_updateParticleSizeDistribution`) -/
section update
open KawinV.DtRules
variable {α : Type} [Field α] [LinearOrder α] [IsStrictOrderedRing α] [Trans α]

/-- a loop whose body touches only phase p is `map`: it sends a re-listing to the same re-listing -/
theorem updateAll_perm (body : Phase α → Phase α) (diss : Phase α → Nat) {phases phases' : List (Phase α)}
    (h : phases ~ phases') : updateAll body diss phases ~ updateAll body diss phases' :=
  h.map _

/-- index form: `update (phases∘π) = (update phases)∘π` -/
theorem updateAll_equivariant (body : Phase α → Phase α) (diss : Phase α → Nat) (phases : List (Phase α))
    (p : List Nat) (hp : p ~ List.range phases.length) :
    updateAll body diss (take p phases) = take p (updateAll body diss phases) := by
  unfold updateAll
  exact (take_map p phases _ (mem_lt_of_perm_range hp)).symm

/-- every phase ends in the state it reaches when it is the only phase of the model -/
theorem updateAll_single (body : Phase α → Phase α) (diss : Phase α → Nat) (phases : List (Phase α))
    (ph : Phase α) (h : ph ∈ phases) :
    updateAll body diss [ph] = [updatePhase body diss ph] ∧ updatePhase body diss ph ∈ updateAll body diss phases :=
  ⟨rfl, List.mem_map_of_mem h⟩

/-- **update then step size**: the time step computed from the updated per-phase state does not depend on the
listing of the phases -/
theorem getDt_updateAll_perm (body : Phase α → Phase α) (diss : Phase α → Nat) (c : Cfg α) (s : StepIn α)
    {phases phases' : List (Phase α)} (h : phases ~ phases') :
    getDt c s (updateAll body diss phases) = getDt c s (updateAll body diss phases') :=
  getDt_perm c s (updateAll_perm body diss h)

/-- two classes of width 1 holding one particle each; the first face dissolves at rate `g0`, the others at rate 1 -/
def phD (id : Nat) (g0 : ℚ) : Phase ℚ :=
  { id := id, site := .bulk, psd := [1, 1], size := [1/2, 3/2], bounds := [0, 1, 2], growth := [-g0, -1, -1],
    dissIdx := 0, nucPrev := 0, nucCur := 0, rcPrev := 0, rcCur := 0, dG := 0, Rnuc := 0,
    vmBeta := 1, areaFactor := 1, volumeFactor := 1, gbRemoval := 0, gbk := 0, parents := [], x := [1, 1] }

/-- **counter-example: the dedented form.**  With the refresh of the dissolution index outside the loop, phase 0
keeps index 0 when it is listed first and gets index 1 when it is listed last; the PSD step limit that follows
is 1/10 in one listing and 1 in the other. -/
theorem updateDedented_order_dependent :
    (updateDedented id (fun _ => 1) [phD 0 10, phD 1 1]).map (fun p => (p.id, p.dissIdx)) = [(0, 0), (1, 1)] ∧
    (updateDedented id (fun _ => 1) [phD 1 1, phD 0 10]).map (fun p => (p.id, p.dissIdx)) = [(1, 0), (0, 1)] ∧
    dtPSD cfgQ 1 0 0 100 (updateDedented id (fun _ => 1) [phD 0 10, phD 1 1]) = 1 / 10 ∧
    dtPSD cfgQ 1 0 0 100 (updateDedented id (fun _ => 1) [phD 1 1, phD 0 10]) = 1 := by
  refine ⟨by simp [updateDedented, phD], by simp [updateDedented, phD], ?_, ?_⟩ <;>
    norm_num [updateDedented, phD, dtPSD, cfgQ, sameT, DtRules.ne, pbmDt, PBM.getDT, PBM.dtFilter, PBM.maxList, PBM.absS,
      DtRules.fn, minList, minS, List.range, List.range.loop, List.filter]

/-- the code as it is, on the same two listings: index 1 for both phases, limit 1 both times -/
example :
    (updateAll id (fun _ => 1) [phD 0 10, phD 1 1]).map (fun p => (p.id, p.dissIdx)) = [(0, 1), (1, 1)] ∧
    dtPSD cfgQ 1 0 0 100 (updateAll id (fun _ => 1) [phD 0 10, phD 1 1]) = 1 ∧
    dtPSD cfgQ 1 0 0 100 (updateAll id (fun _ => 1) [phD 1 1, phD 0 10]) = 1 := by
  refine ⟨by simp [updateAll, updatePhase, phD], ?_, ?_⟩ <;>
    norm_num [updateAll, updatePhase, phD, dtPSD, cfgQ, sameT, DtRules.ne, pbmDt, PBM.getDT, PBM.dtFilter, PBM.maxList, PBM.absS,
      DtRules.fn, minList, minS, List.range, List.range.loop, List.filter]

end update

/-! ## what `setup()` establishes per phase -/
section setup
open KawinV.DtRules
variable {π σ : Type}

/-- set-up is `map` of a per-phase function: a re-listing of the phases gives the same re-listing of the
per-phase set-up state (tables and installed functions alike) -/
theorem setupAll_perm (mk : π → σ) {phases phases' : List π} (h : phases ~ phases') :
    setupAll mk phases ~ setupAll mk phases' :=
  h.map _

theorem setupAll_equivariant [Inhabited π] [Inhabited σ] (mk : π → σ) (phases : List π) (p : List Nat)
    (hp : p ~ List.range phases.length) : setupAll mk (take p phases) = take p (setupAll mk phases) := by
  unfold setupAll
  exact (take_map p phases _ (mem_lt_of_perm_range hp)).symm

/-- every phase is set up as it is when it is the only phase of the model -/
theorem setupAll_single (mk : π → σ) (phases : List π) (ph : π) (h : ph ∈ phases) :
    setupAll mk [ph] = [mk ph] ∧ mk ph ∈ setupAll mk phases :=
  ⟨rfl, List.mem_map_of_mem h⟩

/-- before any step: update after set-up, then the step size — invariant under a re-listing -/
theorem getDt_after_setup_perm {α : Type} [Field α] [LinearOrder α] [IsStrictOrderedRing α] [Trans α]
    (mk : π → Phase α) (c : Cfg α) (s : StepIn α) {phases phases' : List π} (h : phases ~ phases') :
    getDt c s (setupAll mk phases) = getDt c s (setupAll mk phases') :=
  getDt_perm c s (setupAll_perm mk h)

/-- **counter-example: the late-binding form.**  Phases are (name, calculateAspectRatio); `mk` is the phase's own
table (its name).  Listed (needle 1, sphere 2) the needle evaluates the table of phase 2; listed (sphere 2, needle 1)
it evaluates its own. -/
theorem setupLateBound_order_dependent :
    setupLateBound (fun ph : Nat × Bool => ph.2) (fun ph => ph.1) [(1, true), (2, false)] = [2, 2] ∧
    setupLateBound (fun ph : Nat × Bool => ph.2) (fun ph => ph.1) [(2, false), (1, true)] = [2, 1] ∧
    setupAll (fun ph : Nat × Bool => ph.1) [(1, true), (2, false)] = [1, 2] ∧
    setupAll (fun ph : Nat × Bool => ph.1) [(2, false), (1, true)] = [2, 1] := by
  decide

/-- what did hold for the late-binding form: listings that keep the same phase last -/
theorem setupLateBound_partial (isCalc : π → Bool) (mk : π → σ) {phases phases' : List π} (h : phases ~ phases')
    (hlast : phases.getLast? = phases'.getLast?) :
    setupLateBound isCalc mk phases ~ setupLateBound isCalc mk phases' := by
  unfold setupLateBound
  rw [hlast]
  cases phases'.getLast? with
  | none => exact List.Perm.refl _
  | some l => exact h.map _

end setup

/-! ## diffusion step: `D·∇x` commutes with a re-listing of the independent elements -/
section diffusion
variable {α : Type} [Field α] [Inhabited α]

theorem psumL_eq_sum (l : List α) : Permute.sumL l = l.sum := by
  induction l with
  | nil => rfl
  | cons x xs ih => simp [Permute.sumL, ih]

theorem zipWith_take (f : α → α → α) (p : List Nat) (r x : List α) (hr : ∀ i ∈ p, i < r.length)
    (hx : ∀ i ∈ p, i < x.length) :
    List.zipWith f (take p r) (take p x) = take p (List.zipWith f r x) := by
  unfold take
  rw [List.zipWith_map_left, List.zipWith_map_right, List.zipWith_self]
  apply List.map_congr_left
  intro i hi
  have h1 := hr i hi
  have h2 := hx i hi
  have h3 : i < (List.zipWith f r x).length := by simp [h1, h2]
  simp [h1, h2]

/-- a row·vector product does not depend on the common listing order of the two factors -/
theorem dot_take (p : List Nat) (r x : List α) (hlen : r.length = x.length)
    (hp : p ~ List.range r.length) : dot (take p r) (take p x) = dot r x := by
  unfold dot
  have hin := mem_lt_of_perm_range hp
  rw [zipWith_take _ p r x hin (by rw [← hlen]; exact hin), psumL_eq_sum, psumL_eq_sum]
  apply List.Perm.sum_eq
  apply take_perm
  simpa [hlen] using hp

/-- **diffusion profiles**: with the diffusivity matrix re-listed as `P·D·Pᵀ` and the gradients re-listed
the same way, the fluxes `D·∇x` come out re-listed the same way — the explicit diffusion step commutes
with a permutation of the independent elements. -/
theorem matVec_equivariant (p : List Nat) (d : List (List α)) (x : List α) (hd : d.length = x.length)
    (hrow : ∀ r ∈ d, r.length = x.length) (hp : p ~ List.range x.length) :
    matVec (permMat p d) (take p x) = take p (matVec d x) := by
  unfold matVec permMat takeCols takeRows
  have hin : ∀ i ∈ p, i < d.length := by rw [hd]; exact mem_lt_of_perm_range hp
  rw [take_map p d _ hin, List.map_map]
  apply List.map_congr_left
  intro r hr
  have hrd : r ∈ d := (take_perm p d (by rw [hd]; exact hp)).mem_iff.mp hr
  simp only [Function.comp]
  exact dot_take p r x (hrow r hrd) (by rw [hrow r hrd]; exact hp)

end diffusion

/-! ## non-vacuity: concrete instances of the hypotheses, evaluated on the model -/
section examples

/-- evaluate the model on literals -/
macro "ev" : tactic => `(tactic| simp [argsort, unsortIdx, sortIdx, sortedPairs, sortedKeys, List.mergeSort,
  List.zipIdx, keyLe, List.MergeSort.Internal.splitInTwo, take, wrapVec, wrapMat, wrapVecRef, permMat, takeRows,
  takeCols])

-- the ternary listings used by the tests: NI first, solutes in either order
example : argsort ["NI", "CR", "AL"] = [2, 1, 0] ∧ unsortIdx ["NI", "CR", "AL"] = [2, 1, 0] := by ev
example : argsort ["NI", "AL", "CR"] = [1, 2, 0] ∧ unsortIdx ["NI", "AL", "CR"] = [2, 0, 1] := by ev
-- a 3-cycle is NOT its own inverse: sortIndices ≠ unsortIndices, so exchanging them is visible
example : argsort ["CR", "NI", "AL"] = [2, 0, 1] ∧ unsortIdx ["CR", "NI", "AL"] = [1, 2, 0] := by ev
example : take (unsortIdx ["CR", "NI", "AL"]) (take (sortIdx ["CR", "NI", "AL"]) [10, 20, 30]) = [10, 20, 30] := by ev
example : take (sortIdx ["CR", "NI", "AL"]) (take (sortIdx ["CR", "NI", "AL"]) [10, 20, 30]) ≠ [10, 20, 30] := by ev
-- the hypotheses of the equivariance theorems: distinct names, a permutation of the positions
example : ["NI", "CR", "AL"].Nodup ∧ [1, 0] ~ List.range ["CR", "AL"].length := by
  refine ⟨by decide, List.Perm.swap _ _ _⟩
-- wrapper with the identity backend on the solutes of a ternary: the composition comes back as listed
example : wrapVec (fun _ v => v) ["CR", "AL"] [8, 10] = [8, 10] := by ev
-- the matrix wrapper puts the alphabetical backend answer into the listed order: P·D·Pᵀ
example : wrapMat (fun _ _ => [[11, 12], [21, 22]]) ["CR", "AL"] [8, 10] = [[22, 21], [12, 11]] := by ev
-- driving-force composition with the reference element: backend answers (AL, CR, NI), user listed (NI; CR, AL)
example : wrapVecRef (fun _ _ _ => [1, 2, 3]) "NI" ["CR", "AL"] [8, 10] = [2, 1] := by ev
-- phase hypotheses: distinct phase names, a re-listing
example : (([phQ 0 1, phQ 1 3] : List (DtRules.Phase ℚ)).map (·.id)).Nodup := by decide

end examples

end KawinV.Props.C11
