/-
C16 — elastic strain energy is a positive, volume-proportional quadratic form.

Theorems about
* `KawinV.Gen.C16`   — definitions REGENERATED from kawin/precipitation/parameters/ElasticFactors.py
  on every run (the 15 input-pair branches of moduliToC, Khachaturyan sphere/cube, the constant
  description, the Cramer 3x3 inverse, `_beta`, `_n`),
* `KawinV.Elastic`   — hand model of the tensor utilities, the Eshelby energy over an arbitrary node
  list and the StrainEnergy setter state machine (tied to the code by tools/corr/C16.py).

α is any linearly ordered field with the transcendental atoms `Trans α`; the laws of sqrt that a
statement needs are explicit hypotheses, discharged for ℝ at the end.
-/
import KawinV.Gen.C16Elastic
import KawinV.Model.Elastic
import Mathlib.Tactic.Ring
import Mathlib.Algebra.BigOperators.Fin
import Mathlib.Tactic.Linarith
import Mathlib.Tactic.FieldSimp
import Mathlib.Tactic.NormNum
import Mathlib.Tactic.FinCases
import Mathlib.Tactic.LinearCombination
import Mathlib.Algebra.Order.Field.Basic
import Mathlib.Analysis.SpecialFunctions.Pow.Real
import Mathlib.Analysis.SpecialFunctions.Trigonometric.Inverse
import Mathlib.Analysis.SpecialFunctions.Trigonometric.Arctan

set_option linter.unusedSectionVars false
set_option linter.unusedVariables false
set_option linter.unusedSimpArgs false
set_option linter.unusedTactic false
set_option linter.unreachableTactic false
set_option linter.unnecessarySeqFocus false

namespace KawinV.Props.C16
open KawinV KawinV.Gen.C16 KawinV.Elastic

/-! ## rank conversions round-trip (finite index reasoning) -/
section rank
variable {α : Type}

theorem voigt_pair (I : Fin 6) : voigt (pairFst I) (pairSnd I) = I := by
  revert I; decide

theorem pair_voigt (i j : Fin 3) :
    (pairFst (voigt i j) = i ∧ pairSnd (voigt i j) = j) ∨
    (pairFst (voigt i j) = j ∧ pairSnd (voigt i j) = i) := by
  revert i j; decide

theorem voigt_symm (i j : Fin 3) : voigt i j = voigt j i := by
  revert i j; decide

/-- a 4th-rank tensor has the minor symmetries: c_ijkl = c_jikl = c_ijlk -/
def MinorSym (c : T4 α) : Prop := ∀ i j k l, c i j k l = c j i k l ∧ c i j k l = c i j l k

/-- **6x6 → 3x3x3x3 → 6x6** is the identity for every 6x6 array -/
theorem convert4To2_convert2To4 (c : M6 α) : convert4To2 (convert2To4 c) = c := by
  funext I J
  simp only [convert4To2, convert2To4, voigt_pair]

/-- the image of `convert2To4` has the minor symmetries -/
theorem convert2To4_minorSym (c : M6 α) : MinorSym (convert2To4 c) := by
  intro i j k l
  simp only [convert2To4]
  exact ⟨by rw [voigt_symm i j], by rw [voigt_symm k l]⟩

/-- **3x3x3x3 → 6x6 → 3x3x3x3** is the identity for every tensor with the minor symmetries -/
theorem convert2To4_convert4To2 (c : T4 α) (h : MinorSym c) : convert2To4 (convert4To2 c) = c := by
  funext i j k l
  simp only [convert2To4, convert4To2]
  rcases pair_voigt i j with ⟨h1, h2⟩ | ⟨h1, h2⟩ <;> rcases pair_voigt k l with ⟨h3, h4⟩ | ⟨h3, h4⟩ <;>
    rw [h1, h2, h3, h4]
  · exact ((h i j k l).2).symm
  · exact ((h i j k l).1).symm
  · rw [(h i j k l).1, (h j i k l).2]

/-- without the minor symmetries the round trip loses information: witness -/
theorem convert_roundtrip_needs_symmetry :
    ∃ c : T4 ℚ, convert2To4 (convert4To2 c) ≠ c := by
  refine ⟨fun i j _ _ => if i = 1 ∧ j = 0 then 1 else 0, ?_⟩
  intro h
  have := congrFun (congrFun (congrFun (congrFun h 1) 0) 0) 0
  simp [convert2To4, convert4To2, voigt, pairFst, pairSnd] at this

/-- strain/stress vector ↔ symmetric 3x3 tensor -/
theorem rank2ToVec_vecTo2 (v : V6 α) : rank2ToVec (vecTo2 v) = v := by
  funext I; simp only [rank2ToVec, vecTo2, voigt_pair]

theorem vecTo2_rank2ToVec (c : T2 α) (h : ∀ i j, c i j = c j i) : vecTo2 (rank2ToVec c) = c := by
  funext i j
  simp only [vecTo2, rank2ToVec]
  rcases pair_voigt i j with ⟨h1, h2⟩ | ⟨h1, h2⟩ <;> rw [h1, h2]
  exact h j i

end rank

/-! ## rotation keeps the minor symmetries (so `update()` loses nothing in cMatrix_2nd) -/
section rotation
variable {α : Type} [Field α]

@[simp] theorem voigt00 : voigt 0 0 = 0 := rfl
@[simp] theorem voigt11 : voigt 1 1 = 1 := rfl
@[simp] theorem voigt22 : voigt 2 2 = 2 := rfl
@[simp] theorem voigt12 : voigt 1 2 = 3 := rfl
@[simp] theorem voigt21 : voigt 2 1 = 3 := rfl
@[simp] theorem voigt02 : voigt 0 2 = 4 := rfl
@[simp] theorem voigt20 : voigt 2 0 = 4 := rfl
@[simp] theorem voigt01 : voigt 0 1 = 5 := rfl
@[simp] theorem voigt10 : voigt 1 0 = 5 := rfl

/-- `rotateRank4Tensor` is R R R R T: out[p,q,u,v] = Σ r[p,i] r[q,j] r[u,k] r[v,l] t[i,j,k,l] -/
theorem rotate4_formula (r : T2 α) (t : T4 α) (p q u v : Fin 3) :
    rotate4 r t p q u v =
      sum3 fun i => sum3 fun j => sum3 fun k => sum3 fun l => r p i * r q j * r u k * r v l * t i j k l := by
  simp only [rotate4, tdot13, sum3]; ring

/-- `rotateRank2Tensor` is R T Rᵀ -/
theorem rotate2_formula (r t : T2 α) (a b : Fin 3) :
    rotate2 r t a b = sum3 fun i => sum3 fun j => r a i * t i j * r b j := by
  simp only [rotate2, sum3]; ring

theorem rotate4_minorSym (r : T2 α) (t : T4 α) (h : MinorSym t) : MinorSym (rotate4 r t) := by
  rw [← convert2To4_convert4To2 t h]
  generalize convert4To2 t = c
  intro p q u v
  constructor <;>
  · simp only [rotate4_formula, sum3, convert2To4, voigt00, voigt11, voigt22, voigt12, voigt21, voigt02,
      voigt20, voigt01, voigt10]
    ring

/-- hence the 6x6 form written by `update()` determines the rotated 4th-rank tensor -/
theorem rotate4_roundtrip (r : T2 α) (t : T4 α) (h : MinorSym t) :
    convert2To4 (convert4To2 (rotate4 r t)) = rotate4 r t :=
  convert2To4_convert4To2 _ (rotate4_minorSym r t h)

end rotation

/-! ## the 3x3 inverse -/
section inverse3
variable {α : Type} [Field α]

/-- the determinant as the code writes it: a·A + b·B + c·C -/
def det3 (m : T2 α) : α :=
  m 0 0 * (m 1 1 * m 2 2 - m 1 2 * m 2 1) + m 0 1 * (m 1 2 * m 2 0 - m 1 0 * m 2 2) +
    m 0 2 * (m 1 0 * m 2 1 - m 1 1 * m 2 0)

def transpose3 (m : T2 α) : T2 α := fun i j => m j i

/-- the traced `_ohm_quickInverse` is the hand model `cramer3` entry by entry -/
theorem quickInverse_eq_cramer3 [Trans α] (m : T2 α) :
    quickInverse_all (m 0 0) (m 0 1) (m 0 2) (m 1 0) (m 1 1) (m 1 2) (m 2 0) (m 2 1) (m 2 2) =
      [cramer3 m 0 0, cramer3 m 0 1, cramer3 m 0 2, cramer3 m 1 0, cramer3 m 1 1, cramer3 m 1 2,
       cramer3 m 2 0, cramer3 m 2 1, cramer3 m 2 2] := by
  rfl

theorem mul3_assoc (x y z : T2 α) : mul3 (mul3 x y) z = mul3 x (mul3 y z) := by
  funext i j; simp only [mul3, sum3]; ring

theorem mul3_one3 (x : T2 α) : mul3 x one3 = x := by
  funext i j; fin_cases j <;> simp [mul3, one3, sum3]

theorem one3_mul3 (x : T2 α) : mul3 one3 x = x := by
  funext i j; fin_cases i <;> simp [mul3, one3, sum3]

theorem cramer3_00 (m : T2 α) : cramer3 m 0 0 = (m 1 1 * m 2 2 - m 1 2 * m 2 1) / det3 m := rfl
theorem cramer3_01 (m : T2 α) : cramer3 m 0 1 = (m 1 2 * m 2 0 - m 1 0 * m 2 2) / det3 m := rfl
theorem cramer3_02 (m : T2 α) : cramer3 m 0 2 = (m 1 0 * m 2 1 - m 1 1 * m 2 0) / det3 m := rfl
theorem cramer3_10 (m : T2 α) : cramer3 m 1 0 = (m 0 2 * m 2 1 - m 0 1 * m 2 2) / det3 m := rfl
theorem cramer3_11 (m : T2 α) : cramer3 m 1 1 = (m 0 0 * m 2 2 - m 0 2 * m 2 0) / det3 m := rfl
theorem cramer3_12 (m : T2 α) : cramer3 m 1 2 = (m 0 1 * m 2 0 - m 0 0 * m 2 1) / det3 m := rfl
theorem cramer3_20 (m : T2 α) : cramer3 m 2 0 = (m 0 1 * m 1 2 - m 0 2 * m 1 1) / det3 m := rfl
theorem cramer3_21 (m : T2 α) : cramer3 m 2 1 = (m 0 2 * m 1 0 - m 0 0 * m 1 2) / det3 m := rfl
theorem cramer3_22 (m : T2 α) : cramer3 m 2 2 = (m 0 0 * m 1 1 - m 0 1 * m 1 0) / det3 m := rfl

/-- **Cramer**: what `_ohm_quickInverse` returns is cofactor/det, i.e. the TRANSPOSE of the inverse:
(quickInverse m)ᵀ · m = 1 whenever det m ≠ 0 … -/
theorem cramer3_transpose_mul (m : T2 α) (h : det3 m ≠ 0) : mul3 (transpose3 (cramer3 m)) m = one3 := by
  funext i j
  fin_cases i <;> fin_cases j <;>
    simp [mul3, one3, sum3, transpose3, cramer3_00, cramer3_01, cramer3_02, cramer3_10, cramer3_11,
      cramer3_12, cramer3_20, cramer3_21, cramer3_22] <;> field_simp <;> unfold det3 <;> ring

/-- … and m · (quickInverse m)ᵀ = 1 -/
theorem cramer3_mul_transpose (m : T2 α) (h : det3 m ≠ 0) : mul3 m (transpose3 (cramer3 m)) = one3 := by
  funext i j
  fin_cases i <;> fin_cases j <;>
    simp [mul3, one3, sum3, transpose3, cramer3_00, cramer3_01, cramer3_02, cramer3_10, cramer3_11,
      cramer3_12, cramer3_20, cramer3_21, cramer3_22] <;> field_simp <;> unfold det3 <;> ring

/-- for a symmetric matrix (the Ohm kernel C_iklj n_k n_l of a stiffness with the major symmetry)
the routine returns a symmetric matrix, hence the inverse itself -/
theorem cramer3_symm (m : T2 α) (hs : ∀ i j, m i j = m j i) : transpose3 (cramer3 m) = cramer3 m := by
  have h10 := hs 1 0; have h20 := hs 2 0; have h21 := hs 2 1
  funext i j
  fin_cases i <;> fin_cases j <;>
    simp [transpose3, det3, cramer3_00, cramer3_01, cramer3_02, cramer3_10, cramer3_11,
      cramer3_12, cramer3_20, cramer3_21, cramer3_22, h10, h20, h21] <;> ring

theorem cramer3_mul_of_symm (m : T2 α) (hs : ∀ i j, m i j = m j i) (h : det3 m ≠ 0) :
    mul3 (cramer3 m) m = one3 ∧ mul3 m (cramer3 m) = one3 := by
  have := cramer3_symm m hs
  exact ⟨this ▸ cramer3_transpose_mul m h, this ▸ cramer3_mul_transpose m h⟩

/-- **both inversion routines compute the same matrix**: any left inverse of m (what `np.linalg.inv`
returns) equals the transposed Cramer matrix, and the Cramer matrix itself when m is symmetric -/
theorem inverse3_unique (m x : T2 α) (h : det3 m ≠ 0) (hx : mul3 x m = one3) :
    x = transpose3 (cramer3 m) := by
  calc x = mul3 x one3 := (mul3_one3 x).symm
    _ = mul3 x (mul3 m (transpose3 (cramer3 m))) := by rw [cramer3_mul_transpose m h]
    _ = mul3 (mul3 x m) (transpose3 (cramer3 m)) := (mul3_assoc _ _ _).symm
    _ = transpose3 (cramer3 m) := by rw [hx, one3_mul3]

theorem inverse3_unique_symm (m x : T2 α) (hs : ∀ i j, m i j = m j i) (h : det3 m ≠ 0)
    (hx : mul3 x m = one3) : x = cramer3 m :=
  (inverse3_unique m x h hx).trans (cramer3_symm m hs)

/-- on a non-symmetric matrix the routine is NOT the inverse (its docstring shows the transposed
layout): witness -/
theorem cramer3_not_inverse_general :
    ∃ m : T2 ℚ, det3 m ≠ 0 ∧ mul3 (cramer3 m) m ≠ one3 := by
  refine ⟨fun i j => if i = j then 1 else if i = 0 ∧ j = 1 then 1 else 0, ?_, ?_⟩
  · simp [det3]
  · intro h
    have := congrFun (congrFun h 1) 0
    simp [mul3, one3, sum3, cramer3] at this

/-- the Ohm kernel is symmetric when the stiffness has the major and minor symmetries -/
theorem invOhm_symm (c : T4 α) (n : V3 α) (hminor : MinorSym c)
    (hmajor : ∀ i j k l, c i j k l = c k l i j) (i j : Fin 3) : invOhm c n i j = invOhm c n j i := by
  have e : ∀ k l, c i k l j = c j l k i := fun k l => by
    rw [hmajor i k l j, (hminor l j i k).1, (hminor j l i k).2]
  simp only [invOhm, sum3, e]; ring

end inverse3

/-! ## moduliToC: every input pair gives the compliance of the same (E, ν, G) -/
section moduli
variable {α : Type} [Field α] [CharZero α] [Trans α]

/-- textbook definitions of the isotropic moduli in terms of Young's modulus and Poisson's ratio -/
def gOf (E ν : α) : α := E / (2 * (1 + ν))
def lamOf (E ν : α) : α := E * ν / ((1 + ν) * (1 - 2 * ν))
def kOf (E ν : α) : α := E / (3 * (1 - 2 * ν))
def mOf (E ν : α) : α := E * (1 - ν) / ((1 + ν) * (1 - 2 * ν))

/-- what every branch must hand to `np.linalg.inv`: s11 = 1/E, s12 = -ν/E, s44 = 1/G -/
def IsCompliance (E ν s11 s12 s44 : α) : Prop := s11 = 1 / E ∧ s12 = -ν / E ∧ s44 = 1 / gOf E ν

variable {E ν : α}

theorem gOf_ne (hE : E ≠ 0) (h1 : 1 + ν ≠ 0) : gOf E ν ≠ 0 := by
  unfold gOf; exact div_ne_zero hE (mul_ne_zero two_ne_zero h1)
theorem kOf_ne (hE : E ≠ 0) (h2 : 1 - 2 * ν ≠ 0) : kOf E ν ≠ 0 := by
  unfold kOf; exact div_ne_zero hE (mul_ne_zero three_ne_zero h2)
theorem lamOf_ne (hE : E ≠ 0) (hν : ν ≠ 0) (h1 : 1 + ν ≠ 0) (h2 : 1 - 2 * ν ≠ 0) : lamOf E ν ≠ 0 := by
  unfold lamOf; exact div_ne_zero (mul_ne_zero hE hν) (mul_ne_zero h1 h2)
theorem mOf_ne (hE : E ≠ 0) (h3 : 1 - ν ≠ 0) (h1 : 1 + ν ≠ 0) (h2 : 1 - 2 * ν ≠ 0) : mOf E ν ≠ 0 := by
  unfold mOf; exact div_ne_zero (mul_ne_zero hE h3) (mul_ne_zero h1 h2)
/-- `field_simp` writes 1 - 2ν as 1 - ν·2 -/
theorem ne_comm2 (h2 : 1 - 2 * ν ≠ 0) : 1 - ν * 2 ≠ 0 := by rwa [mul_comm] at h2

/-- closes one entry of `IsCompliance` once the compound denominators have been rewritten to their
closed forms: unfold the moduli, clear denominators, normalise -/
macro "moduli_close" : tactic => `(tactic|
  ((try simp only [gOf, lamOf, kOf, mOf]) <;> (try field_simp) <;> (try ring)))

theorem moduli_E_nu_spec (hE : E ≠ 0) (h1 : 1 + ν ≠ 0) :
    IsCompliance E ν (moduli_E_nu_s11 E ν) (moduli_E_nu_s12 E ν) (moduli_E_nu_s44 E ν) := by
  refine ⟨?_, ?_, ?_⟩ <;> simp only [moduli_E_nu_s11, moduli_E_nu_s12, moduli_E_nu_s44, npow] <;> moduli_close

theorem moduli_E_G_spec (hE : E ≠ 0) (h1 : 1 + ν ≠ 0) :
    IsCompliance E ν (moduli_E_G_s11 E (gOf E ν)) (moduli_E_G_s12 E (gOf E ν)) (moduli_E_G_s44 E (gOf E ν)) := by
  refine ⟨?_, ?_, ?_⟩ <;> simp only [moduli_E_G_s11, moduli_E_G_s12, moduli_E_G_s44, npow] <;> moduli_close

theorem moduli_E_K_spec (hE : E ≠ 0) (h1 : 1 + ν ≠ 0) (h2 : 1 - 2 * ν ≠ 0) :
    IsCompliance E ν (moduli_E_K_s11 E (kOf E ν)) (moduli_E_K_s12 E (kOf E ν)) (moduli_E_K_s44 E (kOf E ν)) := by
  have h2' := ne_comm2 h2
  have e0 : 9 * kOf E ν - E = 2 * E * (1 + ν) / (1 - 2 * ν) := by
    simp only [gOf, lamOf, kOf, mOf]; field_simp; ring
  refine ⟨?_, ?_, ?_⟩ <;> simp only [moduli_E_K_s11, moduli_E_K_s12, moduli_E_K_s44, npow, e0] <;> moduli_close

theorem moduli_nu_G_spec (hE : E ≠ 0) (h1 : 1 + ν ≠ 0) :
    IsCompliance E ν (moduli_nu_G_s11 ν (gOf E ν)) (moduli_nu_G_s12 ν (gOf E ν)) (moduli_nu_G_s44 ν (gOf E ν)) := by
  refine ⟨?_, ?_, ?_⟩ <;> simp only [moduli_nu_G_s11, moduli_nu_G_s12, moduli_nu_G_s44, npow] <;> moduli_close

theorem moduli_nu_lam_spec (hE : E ≠ 0) (hν : ν ≠ 0) (h1 : 1 + ν ≠ 0) (h2 : 1 - 2 * ν ≠ 0) :
    IsCompliance E ν (moduli_nu_lam_s11 ν (lamOf E ν)) (moduli_nu_lam_s12 ν (lamOf E ν)) (moduli_nu_lam_s44 ν (lamOf E ν)) := by
  have h2' := ne_comm2 h2
  refine ⟨?_, ?_, ?_⟩ <;> simp only [moduli_nu_lam_s11, moduli_nu_lam_s12, moduli_nu_lam_s44, npow] <;> moduli_close

theorem moduli_nu_K_spec (hE : E ≠ 0) (h1 : 1 + ν ≠ 0) (h2 : 1 - 2 * ν ≠ 0) :
    IsCompliance E ν (moduli_nu_K_s11 ν (kOf E ν)) (moduli_nu_K_s12 ν (kOf E ν)) (moduli_nu_K_s44 ν (kOf E ν)) := by
  have h2' := ne_comm2 h2
  refine ⟨?_, ?_, ?_⟩ <;> simp only [moduli_nu_K_s11, moduli_nu_K_s12, moduli_nu_K_s44, npow] <;> moduli_close

theorem moduli_nu_M_spec (hE : E ≠ 0) (h3 : 1 - ν ≠ 0) (h1 : 1 + ν ≠ 0) (h2 : 1 - 2 * ν ≠ 0) :
    IsCompliance E ν (moduli_nu_M_s11 ν (mOf E ν)) (moduli_nu_M_s12 ν (mOf E ν)) (moduli_nu_M_s44 ν (mOf E ν)) := by
  have h2' := ne_comm2 h2
  refine ⟨?_, ?_, ?_⟩ <;> simp only [moduli_nu_M_s11, moduli_nu_M_s12, moduli_nu_M_s44, npow] <;> moduli_close

theorem moduli_G_lam_spec (hE : E ≠ 0) (h1 : 1 + ν ≠ 0) (h2 : 1 - 2 * ν ≠ 0) :
    IsCompliance E ν (moduli_G_lam_s11 (gOf E ν) (lamOf E ν)) (moduli_G_lam_s12 (gOf E ν) (lamOf E ν)) (moduli_G_lam_s44 (gOf E ν) (lamOf E ν)) := by
  have h2' := ne_comm2 h2
  have e0 : lamOf E ν + gOf E ν = E / (2 * (1 + ν) * (1 - 2 * ν)) := by
    simp only [gOf, lamOf, kOf, mOf]; field_simp; ring
  have e1 : 3 * lamOf E ν + 2 * gOf E ν = E / (1 - 2 * ν) := by
    simp only [gOf, lamOf, kOf, mOf]; field_simp; ring
  refine ⟨?_, ?_, ?_⟩ <;> simp only [moduli_G_lam_s11, moduli_G_lam_s12, moduli_G_lam_s44, npow, e0, e1] <;> moduli_close

theorem moduli_G_K_spec (hE : E ≠ 0) (h1 : 1 + ν ≠ 0) (h2 : 1 - 2 * ν ≠ 0) :
    IsCompliance E ν (moduli_G_K_s11 (gOf E ν) (kOf E ν)) (moduli_G_K_s12 (gOf E ν) (kOf E ν)) (moduli_G_K_s44 (gOf E ν) (kOf E ν)) := by
  have h2' := ne_comm2 h2
  have e0 : 3 * kOf E ν + gOf E ν = 3 * E / (2 * (1 + ν) * (1 - 2 * ν)) := by
    simp only [gOf, lamOf, kOf, mOf]; field_simp; ring
  refine ⟨?_, ?_, ?_⟩ <;> simp only [moduli_G_K_s11, moduli_G_K_s12, moduli_G_K_s44, npow, e0] <;> moduli_close

theorem moduli_G_M_spec (hE : E ≠ 0) (h1 : 1 + ν ≠ 0) (h2 : 1 - 2 * ν ≠ 0) :
    IsCompliance E ν (moduli_G_M_s11 (gOf E ν) (mOf E ν)) (moduli_G_M_s12 (gOf E ν) (mOf E ν)) (moduli_G_M_s44 (gOf E ν) (mOf E ν)) := by
  have h2' := ne_comm2 h2
  have e0 : mOf E ν - gOf E ν = E / (2 * (1 + ν) * (1 - 2 * ν)) := by
    simp only [gOf, lamOf, kOf, mOf]; field_simp; ring
  have e1 : 2 * mOf E ν - 2 * gOf E ν = E / ((1 + ν) * (1 - 2 * ν)) := by
    simp only [gOf, lamOf, kOf, mOf]; field_simp; ring
  have e2 : 3 * mOf E ν - 4 * gOf E ν = E / (1 - 2 * ν) := by
    simp only [gOf, lamOf, kOf, mOf]; field_simp; ring
  refine ⟨?_, ?_, ?_⟩ <;> simp only [moduli_G_M_s11, moduli_G_M_s12, moduli_G_M_s44, npow, e0, e1, e2] <;> moduli_close

theorem moduli_lam_K_spec (hE : E ≠ 0) (h1 : 1 + ν ≠ 0) (h2 : 1 - 2 * ν ≠ 0) :
    IsCompliance E ν (moduli_lam_K_s11 (lamOf E ν) (kOf E ν)) (moduli_lam_K_s12 (lamOf E ν) (kOf E ν)) (moduli_lam_K_s44 (lamOf E ν) (kOf E ν)) := by
  have h2' := ne_comm2 h2
  have e0 : 3 * kOf E ν - lamOf E ν = E / ((1 + ν) * (1 - 2 * ν)) := by
    simp only [gOf, lamOf, kOf, mOf]; field_simp; ring
  have e1 : kOf E ν - lamOf E ν = E / (3 * (1 + ν)) := by
    simp only [gOf, lamOf, kOf, mOf]; field_simp; ring
  refine ⟨?_, ?_, ?_⟩ <;> simp only [moduli_lam_K_s11, moduli_lam_K_s12, moduli_lam_K_s44, npow, e0, e1] <;> moduli_close

theorem moduli_lam_M_spec (hE : E ≠ 0) (h1 : 1 + ν ≠ 0) (h2 : 1 - 2 * ν ≠ 0) :
    IsCompliance E ν (moduli_lam_M_s11 (lamOf E ν) (mOf E ν)) (moduli_lam_M_s12 (lamOf E ν) (mOf E ν)) (moduli_lam_M_s44 (lamOf E ν) (mOf E ν)) := by
  have h2' := ne_comm2 h2
  have e0 : mOf E ν + lamOf E ν = E / ((1 + ν) * (1 - 2 * ν)) := by
    simp only [gOf, lamOf, kOf, mOf]; field_simp; ring
  have e1 : mOf E ν - lamOf E ν = E / (1 + ν) := by
    simp only [gOf, lamOf, kOf, mOf]; field_simp; ring
  have e2 : mOf E ν + 2 * lamOf E ν = E / (1 - 2 * ν) := by
    simp only [gOf, lamOf, kOf, mOf]; field_simp; ring
  refine ⟨?_, ?_, ?_⟩ <;> simp only [moduli_lam_M_s11, moduli_lam_M_s12, moduli_lam_M_s44, npow, e0, e1, e2] <;> moduli_close

theorem moduli_K_M_spec (hE : E ≠ 0) (h1 : 1 + ν ≠ 0) (h2 : 1 - 2 * ν ≠ 0) :
    IsCompliance E ν (moduli_K_M_s11 (kOf E ν) (mOf E ν)) (moduli_K_M_s12 (kOf E ν) (mOf E ν)) (moduli_K_M_s44 (kOf E ν) (mOf E ν)) := by
  have h2' := ne_comm2 h2
  have e0 : 3 * kOf E ν + mOf E ν = 2 * E / ((1 + ν) * (1 - 2 * ν)) := by
    simp only [gOf, lamOf, kOf, mOf]; field_simp; ring
  have e1 : mOf E ν - kOf E ν = 2 * E / (3 * (1 + ν)) := by
    simp only [gOf, lamOf, kOf, mOf]; field_simp; ring
  refine ⟨?_, ?_, ?_⟩ <;> simp only [moduli_K_M_s11, moduli_K_M_s12, moduli_K_M_s44, npow, e0, e1] <;> moduli_close

end moduli

/-! ## the two branches with a square root (E, λ) and (E, M): the radicand is a perfect square -/
section moduliSqrt
variable {α : Type} [Field α] [LinearOrder α] [IsStrictOrderedRing α] [Trans α]
variable {E ν : α}

/-- **(E, λ)**: E² + 9λ² + 2Eλ = (E(1+2ν²)/((1+ν)(1−2ν)))²; for E > 0 and −1 < ν < 1/2 the root is
taken with the right sign and the branch returns the compliance of (E, ν) -/
theorem moduli_E_lam_spec (hsq : ∀ x : α, 0 ≤ x → Trans.sqrt (x * x) = x)
    (hE : 0 < E) (h1 : 0 < 1 + ν) (h2 : 0 < 1 - 2 * ν) :
    IsCompliance E ν (moduli_E_lam_s11 E (lamOf E ν)) (moduli_E_lam_s12 E (lamOf E ν))
      (moduli_E_lam_s44 E (lamOf E ν)) := by
  have hE' := hE.ne'; have h1' := h1.ne'; have h2' := h2.ne'
  have h2c := ne_comm2 h2'
  have hy : 0 ≤ E * (1 + 2 * ν * ν) / ((1 + ν) * (1 - 2 * ν)) :=
    div_nonneg (mul_nonneg hE.le (by nlinarith [mul_self_nonneg ν])) (mul_pos h1 h2).le
  have hrad : E * E + 9 * (lamOf E ν * lamOf E ν) + 2 * E * lamOf E ν =
      (E * (1 + 2 * ν * ν) / ((1 + ν) * (1 - 2 * ν))) * (E * (1 + 2 * ν * ν) / ((1 + ν) * (1 - 2 * ν))) := by
    simp only [lamOf]; field_simp; ring
  have e0 : E + lamOf E ν + E * (1 + 2 * ν * ν) / ((1 + ν) * (1 - 2 * ν)) =
      2 * E / ((1 + ν) * (1 - 2 * ν)) := by simp only [lamOf]; field_simp; ring
  have e1 : E - 3 * lamOf E ν + E * (1 + 2 * ν * ν) / ((1 + ν) * (1 - 2 * ν)) = 2 * E / (1 + ν) := by
    simp only [lamOf]; field_simp; ring
  refine ⟨?_, ?_, ?_⟩ <;>
    simp only [moduli_E_lam_s11, moduli_E_lam_s12, moduli_E_lam_s44, npow, hrad, hsq _ hy, e0, e1] <;>
    moduli_close

/-- **(E, M)**: E² + 9M² − 10EM = (2Eν(2−ν)/((1+ν)(1−2ν)))²; for E > 0 and 0 ≤ ν < 1/2 the branch
returns the compliance of (E, ν) -/
theorem moduli_E_M_spec (hsq : ∀ x : α, 0 ≤ x → Trans.sqrt (x * x) = x)
    (hE : 0 < E) (hν : 0 ≤ ν) (h2 : 0 < 1 - 2 * ν) :
    IsCompliance E ν (moduli_E_M_s11 E (mOf E ν)) (moduli_E_M_s12 E (mOf E ν))
      (moduli_E_M_s44 E (mOf E ν)) := by
  have h1 : 0 < 1 + ν := by linarith
  have h3 : 0 < 1 - ν := by linarith
  have hE' := hE.ne'; have h1' := h1.ne'; have h2' := h2.ne'; have h3' := h3.ne'
  have h2c := ne_comm2 h2'
  have hM := mOf_ne hE' h3' h1' h2'
  have hy : 0 ≤ 2 * E * ν * (2 - ν) / ((1 + ν) * (1 - 2 * ν)) :=
    div_nonneg (mul_nonneg (mul_nonneg (mul_nonneg zero_le_two hE.le) hν) (by linarith)) (mul_pos h1 h2).le
  have hrad : E * E + 9 * (mOf E ν * mOf E ν) - 10 * E * mOf E ν =
      (2 * E * ν * (2 - ν) / ((1 + ν) * (1 - 2 * ν))) * (2 * E * ν * (2 - ν) / ((1 + ν) * (1 - 2 * ν))) := by
    simp only [mOf]; field_simp; ring
  have e0 : 3 * mOf E ν + E - 2 * E * ν * (2 - ν) / ((1 + ν) * (1 - 2 * ν)) = 4 * E / (1 + ν) := by
    simp only [mOf]; field_simp; ring
  have e1 : E - mOf E ν + 2 * E * ν * (2 - ν) / ((1 + ν) * (1 - 2 * ν)) =
      4 * E * ν * (1 - ν) / ((1 + ν) * (1 - 2 * ν)) := by simp only [mOf]; field_simp; ring
  refine ⟨?_, ?_, ?_⟩ <;>
    simp only [moduli_E_M_s11, moduli_E_M_s12, moduli_E_M_s44, npow, hrad, hsq _ hy, e0, e1] <;>
    moduli_close

/-- **(E, M) with a negative Poisson ratio**: (E, M) does not determine ν; the code takes the
non-negative root, so for −1 < ν < 0 it returns Poisson's ratio −ν/(1−ν) instead of ν
(s12 = −ν'/E with ν' = −ν/(1−ν)).  The hypothesis `0 ≤ ν` of `moduli_E_M_spec` is needed. -/
theorem moduli_E_M_negative (hsq : ∀ x : α, 0 ≤ x → Trans.sqrt (x * x) = x)
    (hE : 0 < E) (hν : ν < 0) (h1 : 0 < 1 + ν) :
    moduli_E_M_s12 E (mOf E ν) = -(-ν / (1 - ν)) / E := by
  have h2 : 0 < 1 - 2 * ν := by linarith
  have h3 : 0 < 1 - ν := by linarith
  have hE' := hE.ne'; have h1' := h1.ne'; have h2' := h2.ne'; have h3' := h3.ne'
  have h2c := ne_comm2 h2'
  have hM := mOf_ne hE' h3' h1' h2'
  have hy : 0 ≤ 2 * E * (-ν) * (2 - ν) / ((1 + ν) * (1 - 2 * ν)) :=
    div_nonneg (mul_nonneg (mul_nonneg (mul_nonneg zero_le_two hE.le) (by linarith)) (by linarith))
      (mul_pos h1 h2).le
  have hrad : E * E + 9 * (mOf E ν * mOf E ν) - 10 * E * mOf E ν =
      (2 * E * (-ν) * (2 - ν) / ((1 + ν) * (1 - 2 * ν))) * (2 * E * (-ν) * (2 - ν) / ((1 + ν) * (1 - 2 * ν))) := by
    simp only [mOf]; field_simp; ring
  have e1 : E - mOf E ν + 2 * E * (-ν) * (2 - ν) / ((1 + ν) * (1 - 2 * ν)) =
      -4 * E * ν / ((1 + ν) * (1 - 2 * ν)) := by simp only [mOf]; field_simp; ring
  simp only [moduli_E_M_s12, npow, hrad, hsq _ hy, e1]
  moduli_close

theorem moduli_E_M_negative_ne {ν : α} (hν : ν < 0) (h1 : 0 < 1 + ν) : -ν / (1 - ν) ≠ ν := by
  have h3 : 0 < 1 - ν := by linarith
  intro h
  rw [div_eq_iff h3.ne'] at h
  nlinarith

end moduliSqrt

/-! ## from the compliance to the stiffness -/
section stiffness
variable {α : Type} [Field α] [CharZero α] [Trans α]

/-- the closed-form inverse used by the model for `np.linalg.inv(s)`: on the 3x3 block
[[s11,s12,s12],[s12,s11,s12],[s12,s12,s11]] · [[c11,c12,c12],…] = 1, and c44 · s44 = 1 -/
theorem isoInverse_spec (s11 s12 s44 : α) (hd1 : s11 - s12 ≠ 0) (hd2 : s11 + 2 * s12 ≠ 0) (h4 : s44 ≠ 0) :
    let c := isoInverse s11 s12 s44
    s11 * c.1 + s12 * c.2.1 + s12 * c.2.1 = 1 ∧
    s12 * c.1 + s11 * c.2.1 + s12 * c.2.1 = 0 ∧
    s44 * c.2.2 = 1 := by
  have hd2' : s11 + s12 * 2 ≠ 0 := by rwa [mul_comm] at hd2
  simp only [isoInverse]
  refine ⟨?_, ?_, ?_⟩ <;> field_simp <;> ring

/-- the stiffness returned for the compliance of (E, ν): c11 = λ + 2G = M, c12 = λ, c44 = G -/
theorem isoInverse_compliance {E ν : α} (hE : E ≠ 0) (h1 : 1 + ν ≠ 0) (h2 : 1 - 2 * ν ≠ 0) :
    isoInverse (1 / E) (-ν / E) (1 / gOf E ν) = (mOf E ν, lamOf E ν, gOf E ν) := by
  have h2c := ne_comm2 h2
  have hG := gOf_ne hE h1
  have e0 : 1 / E - -ν / E = (1 + ν) / E := by field_simp; ring
  have e1 : 1 / E + 2 * (-ν / E) = (1 - 2 * ν) / E := by field_simp; ring
  simp only [isoInverse, e0, e1, Prod.mk.injEq]
  refine ⟨?_, ?_, ?_⟩ <;> moduli_close

theorem mOf_eq (E ν : α) (h1 : 1 + ν ≠ 0) (h2 : 1 - 2 * ν ≠ 0) : mOf E ν = lamOf E ν + 2 * gOf E ν := by
  have h2c := ne_comm2 h2
  simp only [mOf, lamOf, gOf]; field_simp; ring

end stiffness

/-! ## Khachaturyan's approximation and the constant description -/
section khachaturyan
variable {α : Type} [Field α] [CharZero α] [Trans α]

/-- volume of the ellipsoid as the code writes it -/
def vol (r0 r1 r2 : α) : α := 4 * Trans.pi / 3 * (r0 * r1 * r2)

/-- **isotropic constants**: with c11 − c12 − 2c44 = 0 both anisotropy terms vanish for ANY shape
integrals I1, I2 and the energy is 2G(1+ν)/(1−ν) · ε² · V
(c44 = G, c12 = λ = 2Gν/(1−2ν), c11 = λ + 2G) -/
theorem khachaturyan_isotropic (G ν ε I1 I2 r0 r1 r2 : α) (hG : G ≠ 0) (h1 : 1 + ν ≠ 0)
    (h2 : 1 - 2 * ν ≠ 0) (h3 : 1 - ν ≠ 0) :
    khachaturyan (2 * G * ν / (1 - 2 * ν) + 2 * G) (2 * G * ν / (1 - 2 * ν)) G ε I1 I2 r0 r1 r2 =
      2 * G * (1 + ν) / (1 - ν) * (ε * ε) * vol r0 r1 r2 := by
  have h2c := ne_comm2 h2
  have hc11 : 2 * G * ν / (1 - 2 * ν) + 2 * G = 2 * G * (1 - ν) / (1 - 2 * ν) := by field_simp; ring
  have hz : 2 * G * (1 - ν) / (1 - 2 * ν) - 2 * G * ν / (1 - 2 * ν) - 2 * G = 0 := by field_simp; ring
  have hs : 2 * G * (1 - ν) / (1 - 2 * ν) + 2 * (2 * G * ν / (1 - 2 * ν)) = 2 * G * (1 + ν) / (1 - 2 * ν) := by
    field_simp; ring
  have hd : 2 * G * (1 - ν) / (1 - 2 * ν) - 2 * G * ν / (1 - 2 * ν) = 2 * G := by field_simp; ring
  simp only [khachaturyan, npow, vol, hc11, hz, hs, hd, mul_zero, zero_mul, zero_div, sub_zero, add_zero]
  field_simp
  ring

theorem khach_sphere_isotropic (G ν ε r0 r1 r2 : α) (hG : G ≠ 0) (h1 : 1 + ν ≠ 0)
    (h2 : 1 - 2 * ν ≠ 0) (h3 : 1 - ν ≠ 0) :
    khach_sphere (2 * G * ν / (1 - 2 * ν) + 2 * G) (2 * G * ν / (1 - 2 * ν)) G ε r0 r1 r2 =
      2 * G * (1 + ν) / (1 - ν) * (ε * ε) * vol r0 r1 r2 :=
  khachaturyan_isotropic G ν ε _ _ r0 r1 r2 hG h1 h2 h3

theorem khach_cube_isotropic (G ν ε r0 r1 r2 : α) (hG : G ≠ 0) (h1 : 1 + ν ≠ 0)
    (h2 : 1 - 2 * ν ≠ 0) (h3 : 1 - ν ≠ 0) :
    khach_cube (2 * G * ν / (1 - 2 * ν) + 2 * G) (2 * G * ν / (1 - 2 * ν)) G ε r0 r1 r2 =
      2 * G * (1 + ν) / (1 - ν) * (ε * ε) * vol r0 r1 r2 :=
  khachaturyan_isotropic G ν ε _ _ r0 r1 r2 hG h1 h2 h3

/-- the sphere / cube descriptions are `_Khachaturyan` at their shape integrals -/
theorem khach_sphere_eq (c11 c12 c44 ε r0 r1 r2 : α) :
    khach_sphere c11 c12 c44 ε r0 r1 r2 =
      khachaturyan c11 c12 c44 ε (6666666666666667 / 100000000000000000)
        (380952380952381 / 40000000000000000) r0 r1 r2 := rfl

/-- size scaling of the closed-form descriptions: E(s·r) = s³ E(r) -/
theorem khachaturyan_size (c11 c12 c44 ε I1 I2 r0 r1 r2 s : α) :
    khachaturyan c11 c12 c44 ε I1 I2 (s * r0) (s * r1) (s * r2) =
      s ^ 3 * khachaturyan c11 c12 c44 ε I1 I2 r0 r1 r2 := by
  simp only [khachaturyan, npow]; ring

theorem constant_size (e0 r0 r1 r2 s : α) :
    constant_energy e0 (s * r0) (s * r1) (s * r2) = s ^ 3 * constant_energy e0 r0 r1 r2 := by
  simp only [constant_energy]; ring

/-- eigenstrain scaling: E(c·ε) = c² E(ε) -/
theorem khachaturyan_eig (c11 c12 c44 ε I1 I2 r0 r1 r2 c : α) :
    khachaturyan c11 c12 c44 (c * ε) I1 I2 r0 r1 r2 = c ^ 2 * khachaturyan c11 c12 c44 ε I1 I2 r0 r1 r2 := by
  simp only [khachaturyan, npow]; ring

theorem constant_energy_eq (e0 r0 r1 r2 : α) : constant_energy e0 r0 r1 r2 = vol r0 r1 r2 * e0 := by
  simp only [constant_energy, vol]

end khachaturyan

/-! ## the Eshelby energy: size and eigenstrain scaling, homogeneous inclusion -/
section eshelby
variable {α : Type} [Field α] [Trans α]

def smul3 (s : α) (r : V3 α) : V3 α := fun i => s * r i
def smul2 (c : α) (t : T2 α) : T2 α := fun i j => c * t i j

theorem lsum_map_mul {β : Type} (c : α) (f : β → α) (l : List β) :
    lsum (l.map fun q => c * f q) = c * lsum (l.map f) := by
  induction l with
  | nil => simp [lsum]
  | cons x xs ih => simp only [List.map_cons, lsum, ih]; ring

theorem prod3_smul (s : α) (r : V3 α) : prod3 (smul3 s r) = s ^ 3 * prod3 r := by
  simp only [prod3, smul3]; ring

theorem volume_smul (s : α) (r : V3 α) : volume (smul3 s r) = s ^ 3 * volume r := by
  simp only [volume, prod3_smul]; ring

/-- the radii enter `sphInt` only through 1/β³: scaling all radii by s divides it by s³ -/
theorem sphInt_smul (ohm : V3 α → T2 α) (beta : V3 α → V3 α → α) (nodes : List (QNode α)) (dA s : α)
    (r : V3 α) (hβ : ∀ n, beta (smul3 s r) n = s * beta r n) (i j k l : Fin 3) :
    sphInt ohm beta nodes dA (smul3 s r) i j k l = (1 / s ^ 3) * sphInt ohm beta nodes dA r i j k l := by
  simp only [sphInt]
  have : (fun q : QNode α => ohm q.n i j * (q.n k * q.n l * (1 / npow (beta (smul3 s r) q.n) 3 * q.w))) =
      fun q => (1 / s ^ 3) * (ohm q.n i j * (q.n k * q.n l * (1 / npow (beta r q.n) 3 * q.w))) := by
    funext q; rw [hβ]; simp only [npow]; ring
  rw [this, lsum_map_mul]; ring

/-- `Dijkl` (hence the Eshelby tensor) does not depend on the size: prod(r) ∝ s³ cancels 1/β³ ∝ s⁻³ -/
theorem Dijkl_smul (ohm : V3 α → T2 α) (beta : V3 α → V3 α → α) (nodes : List (QNode α)) (dA s : α)
    (r : V3 α) (hs : s ≠ 0) (hβ : ∀ n, beta (smul3 s r) n = s * beta r n) :
    Dijkl ohm beta nodes dA (smul3 s r) = Dijkl ohm beta nodes dA r := by
  funext i j k l
  simp only [Dijkl, sphInt_smul ohm beta nodes dA s r hβ, prod3_smul]
  field_simp

theorem strainEnergy_V (a b : T2 α) (c V : α) : strainEnergy a b (c * V) = c * strainEnergy a b V := by
  simp only [strainEnergy]; ring

/-- **size scaling**, homogeneous inclusion formula: E(s·r) = s³ E(r) -/
theorem ellipsoid_size_scaling (ohm : V3 α → T2 α) (beta : V3 α → V3 α → α) (nodes : List (QNode α))
    (dA s : α) (r : V3 α) (cM : T4 α) (eig : T2 α) (hs : s ≠ 0)
    (hβ : ∀ n, beta (smul3 s r) n = s * beta r n) :
    energyEllipsoid cM (Sijmn cM (Dijkl ohm beta nodes dA (smul3 s r))) eig (volume (smul3 s r)) =
      s ^ 3 * energyEllipsoid cM (Sijmn cM (Dijkl ohm beta nodes dA r)) eig (volume r) := by
  rw [Dijkl_smul ohm beta nodes dA s r hs hβ, volume_smul]
  simp only [energyEllipsoid, strainEnergy_V]

/-- **size scaling**, inhomogeneous (Bohm) formula -/
theorem bohm_size_scaling (ev : Eval α) (inv4 : T4 α → T4 α) (ohm : V3 α → T2 α)
    (beta : V3 α → V3 α → α) (nodes : List (QNode α))
    (dA s : α) (r : V3 α) (cM cP : T4 α) (eig : T2 α) (hs : s ≠ 0)
    (hβ : ∀ n, beta (smul3 s r) n = s * beta r n) :
    energyBohm ev inv4 cM cP (Sijmn cM (Dijkl ohm beta nodes dA (smul3 s r))) eig (volume (smul3 s r)) =
      s ^ 3 * energyBohm ev inv4 cM cP (Sijmn cM (Dijkl ohm beta nodes dA r)) eig (volume r) := by
  rw [Dijkl_smul ohm beta nodes dA s r hs hβ, volume_smul]
  simp only [energyBohm, strainEnergy_V]

/-! linearity of the contractions -/
theorem mult42_smul (a : T4 α) (c : α) (b : T2 α) : mult42 a (smul2 c b) = smul2 c (mult42 a b) := by
  funext i j; simp only [mult42, smul2, sum3]; ring

theorem mult42_sub (a : T4 α) (x y : T2 α) : mult42 a (sub2 x y) = sub2 (mult42 a x) (mult42 a y) := by
  funext i j; simp only [mult42, sub2, sum3]; ring

theorem sub2_smul (c : α) (x y : T2 α) : sub2 (smul2 c x) (smul2 c y) = smul2 c (sub2 x y) := by
  funext i j; simp only [sub2, smul2]; ring

theorem strainEnergy_smul (c : α) (x y : T2 α) (V : α) :
    strainEnergy (smul2 c x) (smul2 c y) V = c ^ 2 * strainEnergy x y V := by
  simp only [strainEnergy, dot22, smul2, sum3]; ring

theorem mult42_assoc (a b : T4 α) (e : T2 α) : mult42 (mult44 a b) e = mult42 a (mult42 b e) := by
  funext i j; simp only [mult42, mult44, sum3]; ring

/-- **eigenstrain scaling**: E(c·ε) = c² E(ε) -/
theorem ellipsoid_eig_scaling (cM S : T4 α) (eig : T2 α) (V c : α) :
    energyEllipsoid cM S (smul2 c eig) V = c ^ 2 * energyEllipsoid cM S eig V := by
  simp only [energyEllipsoid, mult42_smul, sub2_smul, strainEnergy_smul]

theorem bohm_eig_scaling (ev : Eval α) (hev : ev.Lawful) (inv4 : T4 α → T4 α) (cM cP S : T4 α)
    (eig : T2 α) (V c : α) :
    energyBohm ev inv4 cM cP S (smul2 c eig) V = c ^ 2 * energyBohm ev inv4 cM cP S eig V := by
  obtain ⟨h2, h4, _⟩ := hev
  simp only [energyBohm, h2, h4, mult42_smul, sub2_smul, strainEnergy_smul]

/-- **homogeneous inclusion**: with cP = cM the Bohm energy is the ellipsoid energy, provided the
4th-rank inversion is an inverse on the eigenstrain: (inv4 cM : cM) : ε = ε.
(`invert4_left_inverse` below: the repaired `invert4rankTensor` has this property for every symmetric
ε; the unweighted one did not, `invert4Old_not_inverse`.) -/
theorem bohm_homogeneous (ev : Eval α) (hev : ev.Lawful) (inv4 : T4 α → T4 α) (cM S : T4 α)
    (eig : T2 α) (V : α) (hinv : mult42 (mult44 (inv4 cM) cM) eig = eig) :
    energyBohm ev inv4 cM cM S eig V = energyEllipsoid cM S eig V := by
  obtain ⟨h2, h4, _⟩ := hev
  have hT : add4 (mult44 (sub4 cM cM) S) cM = cM := by
    funext i j k l; simp [add4, mult44, sub4, sum3]
  simp only [energyBohm, energyEllipsoid, h2, h4, hT, mult42_assoc, hinv, mult42_sub]

end eshelby

/-! ## the repaired `invert4rankTensor` is the inverse on tensors with the minor symmetries -/
section invert4
variable {α : Type} [Field α]

theorem pairWeight_0 : (pairWeight 0 : α) = 1 := by simp [pairWeight]
theorem pairWeight_1 : (pairWeight 1 : α) = 1 := by simp [pairWeight]
theorem pairWeight_2 : (pairWeight 2 : α) = 1 := by simp [pairWeight]
theorem pairWeight_3 : (pairWeight 3 : α) = 2 := by simp [pairWeight]
theorem pairWeight_4 : (pairWeight 4 : α) = 2 := by simp [pairWeight]
theorem pairWeight_5 : (pairWeight 5 : α) = 2 := by simp [pairWeight]

/-- double contraction of two tensors given by 6x6 arrays: the three shear pairs count twice -/
theorem mult44_voigt (A C : M6 α) (i j k l : Fin 3) :
    mult44 (convert2To4 A) (convert2To4 C) i j k l =
      sum6 fun K => pairWeight K * A (voigt i j) K * C K (voigt k l) := by
  simp only [mult44, convert2To4, sum3, sum6, voigt00, voigt11, voigt22, voigt12, voigt21, voigt02,
    voigt20, voigt01, voigt10, pairWeight_0, pairWeight_1, pairWeight_2, pairWeight_3, pairWeight_4,
    pairWeight_5]
  ring

/-- the symmetric 4th-rank identity ½(δ_ik δ_jl + δ_il δ_jk), written with the 6-index -/
def isym : T4 α := fun i j k l => if voigt i j = voigt k l then 1 / pairWeight (voigt i j) else 0

/-- **invert4rankTensor (repaired)**: if `inv6` returns a left inverse of the weighted 6x6 array and
m_I² is the pair weight (m = `_mandelVec`), then invert4(c) : c is the symmetric identity for every
c with the minor symmetries -/
theorem invert4_left_inverse (inv6 : M6 α → Box6 α) (m : V6 α) (c4 : T4 α) (hc : MinorSym c4)
    (hm : ∀ I, m I * m I = pairWeight I) (hm0 : ∀ I, m I ≠ 0)
    (hinv : ∀ I J, sum6 (fun K => (inv6 fun I J => convert4To2 c4 I J * (m I * m J)).f I K *
        (convert4To2 c4 K J * (m K * m J))) = if I = J then 1 else 0) :
    mult44 (invert4 inv6 m c4) c4 = isym := by
  funext i j k l
  have hrt : c4 = convert2To4 (convert4To2 c4) := (convert2To4_convert4To2 c4 hc).symm
  conv_lhs => rw [hrt]
  simp only [invert4, convert4To2_convert2To4, isym]
  rw [mult44_voigt]
  generalize voigt i j = I
  generalize voigt k l = J
  generalize convert4To2 c4 = C at hinv ⊢
  generalize (inv6 fun I J => C I J * (m I * m J)).f = x at hinv ⊢
  have hI := hm0 I; have hJ := hm0 J
  have h0 := hm0 0; have h1 := hm0 1; have h2 := hm0 2; have h3 := hm0 3; have h4 := hm0 4; have h5 := hm0 5
  have key : (m I * m J) * (sum6 fun K => pairWeight K * (x I K / (m I * m K)) * C K J) =
      if I = J then 1 else 0 := by
    rw [← hinv I J]
    simp only [sum6, ← hm]
    field_simp
  by_cases hIJ : I = J
  · subst hIJ
    simp only [if_true] at key ⊢
    rw [← hm I, eq_div_iff (mul_ne_zero hI hI), mul_comm]
    exact key
  · simp only [hIJ, if_false] at key ⊢
    have := mul_eq_zero.mp key
    rcases this with h | h
    · exact absurd h (mul_ne_zero hI hJ)
    · exact h

/-- consequently (invert4 c : c) : ε = ε for every symmetric ε — the hypothesis of `bohm_homogeneous` -/
theorem isym_apply (e : T2 α) (he : ∀ i j, e i j = e j i) [CharZero α] : mult42 isym e = e := by
  have h10 := he 1 0; have h20 := he 2 0; have h21 := he 2 1
  funext i j
  fin_cases i <;> fin_cases j <;>
    simp [mult42, isym, sum3, pairWeight, h10, h20, h21] <;> ring

/-- **before the repair** convert2To4(inv6(convert4To2 c)) : c was diag(1,1,1,2,2,2) in the 6-index,
not the identity: for the unit tensor c = convert2To4(1) the entry 0101 is 2 instead of ½ -/
theorem invert4Old_not_inverse :
    ∃ (inv6 : M6 ℚ → Box6 ℚ) (c4 : T4 ℚ), MinorSym c4 ∧
      (∀ I J, sum6 (fun K => (inv6 (convert4To2 c4)).f I K * convert4To2 c4 K J) = if I = J then 1 else 0) ∧
      mult44 (invert4Old inv6 c4) c4 0 1 0 1 = 2 ∧ (isym : T4 ℚ) 0 1 0 1 = 1 / 2 := by
  refine ⟨fun c => ⟨c⟩, convert2To4 (fun I J => if I = J then 1 else 0), convert2To4_minorSym _, ?_, ?_, ?_⟩
  · intro I J
    simp only [convert4To2_convert2To4, sum6]
    fin_cases I <;> fin_cases J <;> simp
  · simp only [invert4Old, convert4To2_convert2To4, mult44_voigt, sum6, voigt01]
    simp [pairWeight]
  · simp [isym, pairWeight]

end invert4

/-! ## the setters: the final parameters depend on the final rotation / stiffness / stress only -/
section machine
variable {α : Type} [Field α] [LinearOrder α] [IsStrictOrderedRing α] [Trans α]

/-- the parameters are what `update()` computes from the current rotations, unrotated tensors and
applied stress — whenever a matrix tensor is set -/
def Coherent (ev : Eval α) (inv6 : M6 α → Box6 α) (s : State α) : Prop :=
  any4 s.cM = true → s.p = paramsOf ev inv6 s.rot s.rotP s.cM s.cP s.stress0

theorem update_coherent (ev : Eval α) (inv6 : M6 α → Box6 α) (s : State α) :
    Coherent ev inv6 (update ev inv6 s) := by
  unfold Coherent update
  split
  · intro _; rfl
  · next h => intro h'; exact absurd h' h

theorem updateIfSet_coherent (ev : Eval α) (inv6 : M6 α → Box6 α) (s : State α) :
    Coherent ev inv6 (updateIfSet ev inv6 s) := by
  unfold updateIfSet
  split
  · exact update_coherent ev inv6 s
  · next h => intro h'; exact absurd h' h

/-- every setter keeps the invariant (the tensor, rotation and stress setters establish it) -/
theorem step_coherent (ev : Eval α) (inv6 : M6 α → Box6 α) (s : State α) (op : Op α)
    (h : Coherent ev inv6 s) : Coherent ev inv6 (step ev inv6 s op).1 := by
  cases op with
  | setShape d => exact h
  | setConstantEnergy e => exact h
  | setElasticTensor6 c => exact update_coherent ev inv6 _
  | setElasticTensor4 c => exact update_coherent ev inv6 _
  | setElasticConstants a b c => exact update_coherent ev inv6 _
  | setModuli E nu G lam K M =>
    simp only [step]; split
    · exact update_coherent ev inv6 _
    · exact h
  | setPrecTensor6 c => exact updateIfSet_coherent ev inv6 _
  | setPrecTensor4 c => exact updateIfSet_coherent ev inv6 _
  | setPrecConstants a b c => exact updateIfSet_coherent ev inv6 _
  | setPrecModuli E nu G lam K M =>
    simp only [step]; split
    · exact updateIfSet_coherent ev inv6 _
    · exact h
  | setRotation r => exact updateIfSet_coherent ev inv6 _
  | setRotationPrec r => exact updateIfSet_coherent ev inv6 _
  | setEigScalar e => exact h
  | setEigVec e => exact h
  | setEigMat e => exact h
  | setStressScalar x => exact updateIfSet_coherent ev inv6 _
  | setStressVec v => exact updateIfSet_coherent ev inv6 _
  | setStressMat m => exact updateIfSet_coherent ev inv6 _

theorem any4_zero4 : any4 (zero4 : T4 α) = false := by
  simp [any4, zero4, nz]

theorem init_coherent (ev : Eval α) (inv6 : M6 α → Box6 α) (d : Desc) :
    Coherent ev inv6 (init d : State α) := by
  intro h
  simp only [init] at h
  rw [any4_zero4] at h
  exact absurd h (by simp)

theorem run_coherent (ev : Eval α) (inv6 : M6 α → Box6 α) (ops : List (Op α)) (s : State α)
    (h : Coherent ev inv6 s) : Coherent ev inv6 (run ev inv6 s ops) := by
  induction ops generalizing s with
  | nil => exact h
  | cons op ops ih => exact ih _ (step_coherent ev inv6 s op h)

/-- **order of rotation and stiffness**: two setter sequences (any initial shapes, any lengths, any
order, anything supplied any number of times) that end with the same rotations, unrotated tensors
and applied stress end with the same parameters (hence the same energy for the same description
and eigenstrain). -/
theorem final_params_depend_on_final_fields (ev : Eval α) (inv6 : M6 α → Box6 α)
    (d1 d2 : Desc) (ops1 ops2 : List (Op α))
    (hM : (run ev inv6 (init d1) ops1).cM = (run ev inv6 (init d2) ops2).cM)
    (hP : (run ev inv6 (init d1) ops1).cP = (run ev inv6 (init d2) ops2).cP)
    (hR : (run ev inv6 (init d1) ops1).rot = (run ev inv6 (init d2) ops2).rot)
    (hRP : (run ev inv6 (init d1) ops1).rotP = (run ev inv6 (init d2) ops2).rotP)
    (hS : (run ev inv6 (init d1) ops1).stress0 = (run ev inv6 (init d2) ops2).stress0)
    (hset : any4 (run ev inv6 (init d1) ops1).cM = true) :
    (run ev inv6 (init d1) ops1).p = (run ev inv6 (init d2) ops2).p := by
  have c1 := run_coherent ev inv6 ops1 _ (init_coherent ev inv6 d1) hset
  have c2 := run_coherent ev inv6 ops2 _ (init_coherent ev inv6 d2) (hM ▸ hset)
  rw [c1, c2, hM, hP, hR, hRP, hS]

/-- in particular a rotation supplied after the stiffness is used: the parameters after
`setRotationMatrix r` are those of the rotation r -/
theorem rotation_after_stiffness (ev : Eval α) (inv6 : M6 α → Box6 α) (s : State α) (r : T2 α)
    (h : any4 s.cM = true) :
    (step ev inv6 s (.setRotation r)).1.p = paramsOf ev inv6 r s.rotP s.cM s.cP s.stress0 := by
  simp only [step, updateIfSet, update, h, if_true]

/-- `update()` twice = `update()` once (the applied stress is rotated from the stress as supplied) -/
theorem update_idempotent (ev : Eval α) (inv6 : M6 α → Box6 α) (s : State α) :
    (update ev inv6 (update ev inv6 s)).p = (update ev inv6 s).p := by
  unfold update
  by_cases h : any4 s.cM = true <;> simp [h]

/-! ### several live objects are independent -/

theorem stepAt_other (ev : Eval α) (inv6 : M6 α → Box6 α) (fam : Family α) (i j : Nat) (op : Op α)
    (h : j ≠ i) : (stepAt ev inv6 fam i op)[j]? = fam[j]? := by
  unfold stepAt
  split
  · rw [List.getElem?_set_ne (Ne.symm h)]
  · rfl

theorem stepAt_same (ev : Eval α) (inv6 : M6 α → Box6 α) (fam : Family α) (i : Nat) (op : Op α) :
    (stepAt ev inv6 fam i op)[i]? = fam[i]?.map fun s => (step ev inv6 s op).1 := by
  unfold stepAt
  split
  · next s hs =>
    have hi : i < fam.length := by
      rcases List.getElem?_eq_some_iff.mp hs with ⟨h, _⟩; exact h
    rw [List.getElem?_set_self hi, hs]; rfl
  · next hn => rw [hn]; rfl

/-- **object independence**: after any interleaved sequence of setter calls on several objects, object j
is in the state that its own calls alone produce — a call on object i ≠ j changes neither the fields,
the parameters nor the eigenstrain of object j -/
theorem runFam_independent (ev : Eval α) (inv6 : M6 α → Box6 α) (ops : List (Nat × Op α))
    (fam : Family α) (j : Nat) :
    (runFam ev inv6 fam ops)[j]? =
      fam[j]?.map fun s => run ev inv6 s ((ops.filter fun io => io.1 = j).map fun io => io.2) := by
  induction ops generalizing fam with
  | nil => simp [runFam, run]
  | cons io ops ih =>
    simp only [runFam, List.foldl_cons] at ih ⊢
    rw [ih]
    by_cases h : io.1 = j
    · subst h
      rw [stepAt_same]
      cases fam[io.1]? <;> simp [List.filter_cons, run]
    · have hj : j ≠ io.1 := fun e => h e.symm
      rw [stepAt_other ev inv6 fam io.1 j io.2 hj]
      simp [List.filter_cons, h]

/-- in particular a call on object i leaves object j ≠ i (fields, parameters, eigenstrain) untouched -/
theorem other_object_unchanged (ev : Eval α) (inv6 : M6 α → Box6 α) (fam : Family α) (i j : Nat)
    (op : Op α) (h : j ≠ i) (s : State α) (hs : fam[j]? = some s) :
    (stepAt ev inv6 fam i op)[j]? = some s := by
  rw [stepAt_other ev inv6 fam i j op h, hs]

/-- storage: assigning a new array to object i (what the setters do) is invisible to every other object … -/
theorem assign_other (m : SharedEig α) (i j : Nat) (e : T2 α) (h : j ≠ i) :
    (m.assign i e).read j = m.read j := by
  simp [SharedEig.assign, SharedEig.read, h]

theorem assign_same (m : SharedEig α) (i : Nat) (e : T2 α) : (m.assign i e).read i = e := by
  simp [SharedEig.assign, SharedEig.read]

/-- … whereas an in-place write through an object that still reads the class-level array changes the
eigenstrain of every other such object (negative witness for shared storage) -/
theorem fillDiagonal_leaks :
    ∃ (m : SharedEig ℚ) (i j : Nat) (v : V3 ℚ), j ≠ i ∧ (m.fillDiagonal i v).read j ≠ m.read j := by
  refine ⟨⟨fun _ _ => 0, fun _ => none⟩, 0, 1, fun _ => 1, by decide, ?_⟩
  intro h
  have := congrFun (congrFun h 0) 0
  simp [SharedEig.fillDiagonal, SharedEig.read] at this

/-! before the repair 187e553 the clause was false -/

/-- `setRotationMatrix` did not touch the parameters … -/
theorem old_setRotation_ignored (s : State α) (r : T2 α) : (setRotationOld s r).p = s.p := rfl

/-- … although they depend on the rotation (witness: a 90° rotation about z of a tensor with
C_0000 = 1, C_1111 = 2), so [stiffness, rotation] and [rotation, stiffness] disagreed -/
theorem rotation_matters :
    ∃ (r : T2 ℚ) (t : T4 ℚ), MinorSym t ∧ rotate4 r t 0 0 0 0 ≠ rotate4 one3 t 0 0 0 0 := by
  refine ⟨fun i j => if i = 0 ∧ j = 1 then -1 else if i = 1 ∧ j = 0 then 1 else if i = 2 ∧ j = 2 then 1 else 0,
    convert2To4 (fun I J => if I = 0 ∧ J = 0 then 1 else if I = 1 ∧ J = 1 then 2 else 0),
    convert2To4_minorSym _, ?_⟩
  simp only [rotate4_formula, sum3, convert2To4, one3, voigt00, voigt11, voigt22, voigt12, voigt21, voigt02,
    voigt20, voigt01, voigt10]
  norm_num [Fin.ext_iff]

/-- … and `update()` rotated the already rotated applied stress again: a second `update()` changed it -/
theorem old_update_rerotates (ev : Eval α) (hev : ev.Lawful) (inv6 : M6 α → Box6 α) (s : State α)
    (h : any4 s.cM = true) :
    (updateOld ev inv6 (updateOld ev inv6 s)).p.stress = rotate2 s.rot (rotate2 s.rot s.p.stress) := by
  have h' : any4 (updateOld ev inv6 s).cM = true := by simp [updateOld, h]
  simp only [updateOld, h, if_true]

theorem rotate2_twice_differs :
    ∃ (r t : T2 ℚ), rotate2 r (rotate2 r t) 0 0 ≠ rotate2 r t 0 0 := by
  refine ⟨fun i j => if i = 0 ∧ j = 1 then -1 else if i = 1 ∧ j = 0 then 1 else if i = 2 ∧ j = 2 then 1 else 0,
    fun i j => if i = 0 ∧ j = 0 then 1 else 0, ?_⟩
  simp only [rotate2_formula, sum3]
  norm_num [Fin.ext_iff]

end machine

/-! ## history purity of one object: results are a function of the settings in force -/
section history
variable {α : Type} [Field α] [LinearOrder α] [IsStrictOrderedRing α] [Trans α]

theorem hstep_coherent (ev : Eval α) (inv6 : M6 α → Box6 α) (inv4 : T4 α → T4 α)
    (simple : State α → V3 α → α) (dq : Quad α) (h : HState α) (op : HOp α)
    (hc : Coherent ev inv6 h.st) : Coherent ev inv6 (hstep ev inv6 inv4 simple dq h op).1.st := by
  cases op with
  | setter o => exact step_coherent ev inv6 h.st o hc
  | setQuad q => exact hc
  | compute r => exact hc

theorem hrun_coherent (ev : Eval α) (inv6 : M6 α → Box6 α) (inv4 : T4 α → T4 α)
    (simple : State α → V3 α → α) (dq : Quad α) (ops : List (HOp α)) (h : HState α)
    (hc : Coherent ev inv6 h.st) : Coherent ev inv6 (hrun ev inv6 inv4 simple dq h ops).1.st := by
  induction ops generalizing h with
  | nil => exact hc
  | cons op ops ih =>
    simp only [hrun]
    exact ih _ (hstep_coherent ev inv6 inv4 simple dq h op hc)

/-- a `compute` leaves the object as it was (it is an observation) -/
theorem compute_keeps_state (ev : Eval α) (inv6 : M6 α → Box6 α) (inv4 : T4 α → T4 α)
    (simple : State α → V3 α → α) (dq : Quad α) (h : HState α) (r : V3 α) :
    (hstep ev inv6 inv4 simple dq h (.compute r)).1 = h := rfl

/-- the result of `compute` reads the parameters, the description, the eigenstrain, the constant and
the quadrature of the object only -/
theorem computeOf_congr (ev : Eval α) (inv4 : T4 α → T4 α) (simple : State α → V3 α → α)
    (h1 h2 : HState α) (r : V3 α) (hst : h1.st = h2.st) (hq : h1.quad = h2.quad) :
    computeOf ev inv4 simple h1 r = computeOf ev inv4 simple h2 r := by
  cases h1; cases h2; simp only at hst hq; subst hst; subst hq; rfl

/-- **fresh-object equivalence**: two histories of calls (any initial shapes, any lengths, setters of every
kind in any order and any number of times, quadrature setters, any number of `compute` calls in
between) that end with the same settings — rotations, unrotated tensors, applied stress as supplied,
eigenstrain, constant, description kind, quadrature — answer the next `compute(r)` identically.  In
particular a used object equals a freshly constructed one that is given the final settings only. -/
theorem history_fresh_equiv (ev : Eval α) (inv6 : M6 α → Box6 α) (inv4 : T4 α → T4 α)
    (simple : State α → V3 α → α) (dq : Quad α) (d1 d2 : Desc) (ops1 ops2 : List (HOp α)) (r : V3 α)
    (hM : (hrun ev inv6 inv4 simple dq (hinit d1 dq) ops1).1.st.cM = (hrun ev inv6 inv4 simple dq (hinit d2 dq) ops2).1.st.cM)
    (hP : (hrun ev inv6 inv4 simple dq (hinit d1 dq) ops1).1.st.cP = (hrun ev inv6 inv4 simple dq (hinit d2 dq) ops2).1.st.cP)
    (hR : (hrun ev inv6 inv4 simple dq (hinit d1 dq) ops1).1.st.rot = (hrun ev inv6 inv4 simple dq (hinit d2 dq) ops2).1.st.rot)
    (hRP : (hrun ev inv6 inv4 simple dq (hinit d1 dq) ops1).1.st.rotP = (hrun ev inv6 inv4 simple dq (hinit d2 dq) ops2).1.st.rotP)
    (hS : (hrun ev inv6 inv4 simple dq (hinit d1 dq) ops1).1.st.stress0 = (hrun ev inv6 inv4 simple dq (hinit d2 dq) ops2).1.st.stress0)
    (hE : (hrun ev inv6 inv4 simple dq (hinit d1 dq) ops1).1.st.eig = (hrun ev inv6 inv4 simple dq (hinit d2 dq) ops2).1.st.eig)
    (hC : (hrun ev inv6 inv4 simple dq (hinit d1 dq) ops1).1.st.constE = (hrun ev inv6 inv4 simple dq (hinit d2 dq) ops2).1.st.constE)
    (hD : (hrun ev inv6 inv4 simple dq (hinit d1 dq) ops1).1.st.desc = (hrun ev inv6 inv4 simple dq (hinit d2 dq) ops2).1.st.desc)
    (hQ : (hrun ev inv6 inv4 simple dq (hinit d1 dq) ops1).1.quad = (hrun ev inv6 inv4 simple dq (hinit d2 dq) ops2).1.quad)
    (hset : any4 (hrun ev inv6 inv4 simple dq (hinit d1 dq) ops1).1.st.cM = true) :
    computeOf ev inv4 simple (hrun ev inv6 inv4 simple dq (hinit d1 dq) ops1).1 r =
      computeOf ev inv4 simple (hrun ev inv6 inv4 simple dq (hinit d2 dq) ops2).1 r := by
  have c1 := hrun_coherent ev inv6 inv4 simple dq ops1 (hinit d1 dq) (init_coherent ev inv6 d1) hset
  have c2 := hrun_coherent ev inv6 inv4 simple dq ops2 (hinit d2 dq) (init_coherent ev inv6 d2) (hM ▸ hset)
  have hp : (hrun ev inv6 inv4 simple dq (hinit d1 dq) ops1).1.st.p = (hrun ev inv6 inv4 simple dq (hinit d2 dq) ops2).1.st.p := by
    rw [c1, c2, hM, hP, hR, hRP, hS]
  apply computeOf_congr _ _ _ _ _ _ _ hQ
  generalize (hrun ev inv6 inv4 simple dq (hinit d1 dq) ops1).1.st = s1 at *
  generalize (hrun ev inv6 inv4 simple dq (hinit d2 dq) ops2).1.st = s2 at *
  cases s1; cases s2
  simp only at hM hP hR hRP hS hE hC hD hp
  subst hM hP hR hRP hS hE hC hD hp
  rfl

end history

/-! ## a memo table for the kernel: sound iff every setter that changes a kernel input clears it -/
section memo
open KawinV.Elastic.Memo
variable {σ ι ρ κ β : Type} [DecidableEq κ]

/-- the setter either empties the table or leaves every input of the kernel as it was -/
def SoundOp (inp : σ → ι) : MOp σ ρ → Prop
  | .set f c => c = true ∨ ∀ s, inp (f s) = inp s
  | .compute _ => True

/-- every entry of the table is the kernel value of the settings in force, for every argument with that key -/
def MemoOK (inp : σ → ι) (key : ι → ρ → κ) (kern : ι → ρ → β) (st : MState σ κ β) : Prop :=
  ∀ k v, (k, v) ∈ st.memo → ∀ r, key (inp st.s) r = k → v = kern (inp st.s) r

theorem lookup_mem (k : κ) (m : List (κ × β)) (v : β) (h : lookup k m = some v) : (k, v) ∈ m := by
  induction m with
  | nil => simp [lookup] at h
  | cons e t ih =>
    obtain ⟨k', v'⟩ := e
    simp only [lookup] at h
    split at h
    · next hk => cases h; subst hk; exact List.mem_cons_self
    · exact List.mem_cons_of_mem _ (ih h)

theorem memoOK_empty (inp : σ → ι) (key : ι → ρ → κ) (kern : ι → ρ → β) (s : σ) :
    MemoOK inp key kern ⟨s, []⟩ := by
  intro k v h; simp at h

/-- one call: the table stays correct, and the call answers exactly like an object without a table -/
theorem mstep_sound (inp : σ → ι) (key : ι → ρ → κ) (kern : ι → ρ → β)
    (hkey : ∀ i r r', key i r = key i r' → kern i r = kern i r')
    (st : MState σ κ β) (hok : MemoOK inp key kern st) (op : MOp σ ρ) (hs : SoundOp inp op) :
    MemoOK inp key kern (mstep inp key kern st op).1 ∧
    (mstep inp key kern st op).2 = (pstep inp kern st.s op).2 ∧
    (mstep inp key kern st op).1.s = (pstep inp kern st.s op).1 := by
  cases op with
  | set f c =>
    refine ⟨?_, rfl, rfl⟩
    simp only [mstep]
    rcases hs with hc | hinp
    · subst hc; exact memoOK_empty inp key kern _
    · cases c
      · intro k v hm r hk
        simp only [Bool.false_eq_true, if_false] at hm
        simp only [hinp] at hk ⊢
        exact hok k v hm r hk
      · exact memoOK_empty inp key kern _
  | compute r =>
    cases hl : lookup (key (inp st.s) r) st.memo with
    | some v =>
      have e : mstep inp key kern st (.compute r) = (st, some v) := by simp only [mstep, hl]
      rw [e]
      refine ⟨hok, ?_, rfl⟩
      show some v = some (kern (inp st.s) r)
      rw [hok _ v (lookup_mem _ _ _ hl) r rfl]
    | none =>
      have e : mstep inp key kern st (.compute r) =
          ({ st with memo := (key (inp st.s) r, kern (inp st.s) r) :: st.memo }, some (kern (inp st.s) r)) := by
        simp only [mstep, hl]
      rw [e]
      refine ⟨?_, rfl, rfl⟩
      intro k v hm r' hk
      rcases List.mem_cons.mp hm with he | hm'
      · cases he
        exact hkey _ _ _ hk.symm
      · exact hok k v hm' r' hk

/-- **memo_sound**: if every setter in the history that changes an input of the kernel empties the table
(and equal keys mean equal kernel values), an object with a table answers every `compute` of the
history exactly like an object without one: every result is the kernel of the settings in force. -/
theorem memo_sound (inp : σ → ι) (key : ι → ρ → κ) (kern : ι → ρ → β)
    (hkey : ∀ i r r', key i r = key i r' → kern i r = kern i r')
    (ops : List (MOp σ ρ)) (hs : ∀ op ∈ ops, SoundOp inp op)
    (st : MState σ κ β) (hok : MemoOK inp key kern st) :
    (mrun inp key kern st ops).2 = (prun inp kern st.s ops).2 ∧
    (mrun inp key kern st ops).1.s = (prun inp kern st.s ops).1 ∧
    MemoOK inp key kern (mrun inp key kern st ops).1 := by
  induction ops generalizing st with
  | nil => exact ⟨rfl, rfl, hok⟩
  | cons op ops ih =>
    obtain ⟨h1, h2, h3⟩ := mstep_sound inp key kern hkey st hok op (hs op List.mem_cons_self)
    obtain ⟨i1, i2, i3⟩ := ih (fun o ho => hs o (List.mem_cons_of_mem _ ho)) _ h1
    simp only [mrun, prun]
    rw [h2, i1, i2, h3]
    exact ⟨rfl, rfl, i3⟩

/-- the results without a table are the kernel of the settings in force at the call: the setters before
a call matter only through the settings they leave -/
theorem prun_compute (inp : σ → ι) (kern : ι → ρ → β) (s : σ) (r : ρ) :
    (pstep inp kern s (.compute r) : σ × Option β).2 = some (kern (inp s) r) := rfl

/-- **fresh-object equivalence with a sound table**: after any sound history the next `compute(r)` of the
used object equals that of a fresh object (empty table) holding the final settings, namely the kernel
of the final settings -/
theorem memo_fresh_equiv (inp : σ → ι) (key : ι → ρ → κ) (kern : ι → ρ → β)
    (hkey : ∀ i r r', key i r = key i r' → kern i r = kern i r')
    (ops : List (MOp σ ρ)) (hs : ∀ op ∈ ops, SoundOp inp op) (s0 : σ) (r : ρ) :
    (mstep inp key kern (mrun inp key kern ⟨s0, []⟩ ops).1 (.compute r)).2 =
      (mstep inp key kern ⟨(prun inp kern s0 ops).1, []⟩ (.compute r)).2 ∧
    (mstep inp key kern (mrun inp key kern ⟨s0, []⟩ ops).1 (.compute r)).2 =
      some (kern (inp (prun inp kern s0 ops).1) r) := by
  obtain ⟨_, h2, h3⟩ := memo_sound inp key kern hkey ops hs ⟨s0, []⟩ (memoOK_empty inp key kern s0)
  obtain ⟨_, a2, _⟩ := mstep_sound inp key kern hkey _ h3 (.compute r) trivial
  have e : (mstep inp key kern (mrun inp key kern ⟨s0, []⟩ ops).1 (.compute r)).2 =
      some (kern (inp (prun inp kern s0 ops).1) r) := by
    rw [a2]; simp only [pstep]; rw [h2]
  refine ⟨?_, e⟩
  rw [e]
  simp [mstep, lookup]

/-- **memo_stale_witness**: a table keyed by the radii alone, in an object whose stiffness setter does not
empty it: `compute(1)`, stiffness 1 → 2, `compute(1)` answers 1·1 again, an object without a table 2·1
(kernel = stiffness · radius). -/
theorem memo_stale_witness :
    ∃ (ops : List (MOp ℚ ℚ)),
      (mrun (fun c : ℚ => c) (fun _ r => r) (fun c r => c * r) ⟨1, []⟩ ops).2 = [1, 1] ∧
      (prun (fun c : ℚ => c) (fun c r => c * r) (1 : ℚ) ops).2 = [1, 2] := by
  refine ⟨[.compute 1, .set (fun _ => 2) false, .compute 1], ?_, ?_⟩
  · simp [mrun, mstep, lookup]
  · simp [prun, pstep]

/-- … and the hypothesis of `memo_sound` is exactly what this history lacks -/
theorem memo_stale_witness_unsound :
    ¬ SoundOp (ρ := ℚ) (fun c : ℚ => c) (.set (fun _ => 2) false) := by
  intro h
  rcases h with h | h
  · exact absurd h (by decide)
  · have := h 1; norm_num at this

end memo

/-! ### the Eshelby kernel `Dijkl` of the StrainEnergy model through a table -/
section eshelbyMemo
open KawinV.Elastic.Memo
variable {α : Type} [Field α] [LinearOrder α] [IsStrictOrderedRing α] [Trans α]

/-- what `Dijkl` reads from the object: the rotated matrix stiffness and the quadrature -/
def kernelInput (h : HState α) : T4 α × Quad α := (h.st.p.cM4, h.quad)

/-- the kernel -/
def kernelD (i : T4 α × Quad α) (r : V3 α) : T4 α := Dijkl (ohmOf i.1) betaN i.2.nodes i.2.dA r

/-- a call of the history machine as a call on a settings object with a table; `clears` says which setters
empty the table -/
def asMOp (ev : Eval α) (inv6 : M6 α → Box6 α) (inv4 : T4 α → T4 α) (simple : State α → V3 α → α)
    (dq : Quad α) (clears : HOp α → Bool) : HOp α → MOp (HState α) (V3 α)
  | .compute r => .compute r
  | op => .set (fun h => (hstep ev inv6 inv4 simple dq h op).1) (clears op)

/-- the eigenstrain setters change no input of the kernel: they need not empty a table of `Dijkl` -/
theorem eig_setters_keep_kernel_input (ev : Eval α) (inv6 : M6 α → Box6 α) (inv4 : T4 α → T4 α)
    (simple : State α → V3 α → α) (dq : Quad α) (h : HState α) (op : Op α)
    (hop : (∃ e, op = .setEigScalar e) ∨ (∃ e, op = .setEigVec e) ∨ (∃ e, op = .setEigMat e)) :
    kernelInput (hstep ev inv6 inv4 simple dq h (.setter op)).1 = kernelInput h := by
  rcases hop with ⟨e, rfl⟩ | ⟨e, rfl⟩ | ⟨e, rfl⟩ <;> rfl

/-- **a table of `Dijkl` inside StrainEnergy**: if every call other than the eigenstrain setters and
`compute` empties the table (stiffness in every form, rotations, applied stress, shape, quadrature),
then for any key with `key r = key r' → Dijkl r = Dijkl r'` every `Dijkl` handed to the energy is the
kernel of the settings in force — whatever the history. -/
theorem eshelby_memo_sound {κ : Type} [DecidableEq κ]
    (ev : Eval α) (inv6 : M6 α → Box6 α) (inv4 : T4 α → T4 α)
    (simple : State α → V3 α → α) (dq : Quad α) (key : T4 α × Quad α → V3 α → κ)
    (hkey : ∀ i r r', key i r = key i r' → kernelD i r = kernelD i r')
    (clears : HOp α → Bool)
    (hclr : ∀ op : HOp α, clears op = true ∨ (∃ r, op = .compute r) ∨
      (∃ e, op = .setter (.setEigScalar e)) ∨ (∃ e, op = .setter (.setEigVec e)) ∨ (∃ e, op = .setter (.setEigMat e)))
    (ops : List (HOp α)) (h0 : HState α) :
    (mrun kernelInput key kernelD ⟨h0, []⟩ (ops.map (asMOp ev inv6 inv4 simple dq clears))).2 =
      (prun kernelInput kernelD h0 (ops.map (asMOp ev inv6 inv4 simple dq clears))).2 := by
  refine (memo_sound kernelInput key kernelD hkey _ ?_ ⟨h0, []⟩ (memoOK_empty _ _ _ _)).1
  intro mop hm
  obtain ⟨op, _, rfl⟩ := List.mem_map.mp hm
  rcases hclr op with hc | ⟨r, rfl⟩ | ⟨e, rfl⟩ | ⟨e, rfl⟩ | ⟨e, rfl⟩
  · cases op with
    | compute r => trivial
    | setter o => exact Or.inl hc
    | setQuad q => exact Or.inl hc
  · trivial
  · exact Or.inr fun h => eig_setters_keep_kernel_input ev inv6 inv4 simple dq h _ (Or.inl ⟨e, rfl⟩)
  · exact Or.inr fun h => eig_setters_keep_kernel_input ev inv6 inv4 simple dq h _ (Or.inr (Or.inl ⟨e, rfl⟩))
  · exact Or.inr fun h => eig_setters_keep_kernel_input ev inv6 inv4 simple dq h _ (Or.inr (Or.inr ⟨e, rfl⟩))

end eshelbyMemo

/-! ## `_beta`: the distance is homogeneous of degree one in the radii -/
section beta
variable {α : Type} [Field α] [LinearOrder α] [IsStrictOrderedRing α] [Trans α]

def vec3 (a b c : α) : V3 α := fun i => if i = 0 then a else if i = 1 then b else c

/-- the traced `_beta(a,b,c,φ,θ)` is sqrt((a n₀)² + (b n₁)² + (c n₂)²) with n = `_n(φ,θ)` -/
theorem beta_eq_betaN (a b c φ θ : α) :
    beta a b c φ θ = betaN (vec3 a b c) (vec3 (nvec_0 φ θ) (nvec_1 φ θ) (nvec_2 φ θ)) := by
  simp only [beta, betaN, vec3, nvec_0, nvec_1, nvec_2, npow]
  congr 1
  simp
  ring

theorem betaN_smul (hsq : ∀ s x : α, 0 ≤ s → Trans.sqrt (s * s * x) = s * Trans.sqrt x)
    (s : α) (hs : 0 ≤ s) (r n : V3 α) : betaN (smul3 s r) n = s * betaN r n := by
  simp only [betaN, smul3, npow]
  rw [← hsq s _ hs]
  congr 1
  ring

/-- size scaling with the code's own distance function -/
theorem ellipsoid_size_scaling_beta (hsq : ∀ s x : α, 0 ≤ s → Trans.sqrt (s * s * x) = s * Trans.sqrt x)
    (ohm : V3 α → T2 α) (nodes : List (QNode α)) (dA s : α) (r : V3 α) (cM : T4 α) (eig : T2 α)
    (hs : 0 < s) :
    energyEllipsoid cM (Sijmn cM (Dijkl ohm betaN nodes dA (smul3 s r))) eig (volume (smul3 s r)) =
      s ^ 3 * energyEllipsoid cM (Sijmn cM (Dijkl ohm betaN nodes dA r)) eig (volume r) :=
  ellipsoid_size_scaling ohm betaN nodes dA s r cM eig hs.ne' (fun n => betaN_smul hsq s hs.le r n)

theorem bohm_size_scaling_beta (hsq : ∀ s x : α, 0 ≤ s → Trans.sqrt (s * s * x) = s * Trans.sqrt x)
    (ev : Eval α) (inv4 : T4 α → T4 α) (ohm : V3 α → T2 α) (nodes : List (QNode α)) (dA s : α)
    (r : V3 α) (cM cP : T4 α) (eig : T2 α) (hs : 0 < s) :
    energyBohm ev inv4 cM cP (Sijmn cM (Dijkl ohm betaN nodes dA (smul3 s r))) eig (volume (smul3 s r)) =
      s ^ 3 * energyBohm ev inv4 cM cP (Sijmn cM (Dijkl ohm betaN nodes dA r)) eig (volume r) :=
  bohm_size_scaling ev inv4 ohm betaN nodes dA s r cM cP eig hs.ne' (fun n => betaN_smul hsq s hs.le r n)

end beta

/-! ## axis convention: `_beta` pairs the semi-axes with the same coordinate axes as `_n`
(round 4b, seed C16-8: sin φ attached to a and cos φ to b mirrors the particle x ↔ y relative to the stiffness and
the eigenstrain; invisible whenever r[0] = r[1], which is every test and example of kawin) -/
section orientation
variable {α : Type} [Field α] [LinearOrder α] [IsStrictOrderedRing α] [Trans α]

theorem quadForm_nonneg (r n : V3 α) : 0 ≤ quadForm r n := by
  simp only [quadForm, npow]
  have h0 := mul_self_nonneg (r 0 * n 0)
  have h1 := mul_self_nonneg (r 1 * n 1)
  have h2 := mul_self_nonneg (r 2 * n 2)
  linarith

/-- the radicand of `_beta` as coded (as a function of the sines and cosines) is Σ (rᵢ nᵢ)² with n = `_n`:
a goes with n_x (cos φ), b with n_y (sin φ), c with n_z -/
theorem betaSqSC_eq_quadForm (a b c sφ cφ sθ cθ : α) :
    betaSqSC a b c sφ cφ sθ cθ = quadForm (vec3 a b c) (nSC sφ cφ sθ cθ) := by
  simp [betaSqSC, quadForm, vec3, nSC, npow]
  ring

/-- the traced `_n` is `nSC` at the sines and cosines of the angles -/
theorem nvec_eq_nSC (φ θ : α) :
    vec3 (nvec_0 φ θ) (nvec_1 φ θ) (nvec_2 φ θ) = nSC (Trans.sin φ) (Trans.cos φ) (Trans.sin θ) (Trans.cos θ) := by
  funext i
  simp only [vec3, nSC, nvec_0, nvec_1, nvec_2]

/-- the traced `_beta` is the square root of the radicand `betaSqSC` -/
theorem beta_eq_sqrt_betaSqSC (a b c φ θ : α) :
    beta a b c φ θ = Trans.sqrt (betaSqSC a b c (Trans.sin φ) (Trans.cos φ) (Trans.sin θ) (Trans.cos θ)) := by
  simp only [beta, betaSqSC]

/-- the traced `_beta` is sqrt(Σ (rᵢ nᵢ)²) with n the traced `_n` -/
theorem beta_eq_sqrt_quadForm (a b c φ θ : α) :
    beta a b c φ θ = Trans.sqrt (quadForm (vec3 a b c) (vec3 (nvec_0 φ θ) (nvec_1 φ θ) (nvec_2 φ θ))) := by
  rw [beta_eq_sqrt_betaSqSC, betaSqSC_eq_quadForm, nvec_eq_nSC]

/-- β² = Σᵢ (rᵢ nᵢ)² with the SAME index pairing as `_n` (sqrt law as a hypothesis, discharged over ℝ below) -/
theorem beta_sq_eq_quadratic_form (hsq : ∀ x : α, 0 ≤ x → Trans.sqrt x * Trans.sqrt x = x) (a b c φ θ : α) :
    beta a b c φ θ * beta a b c φ θ =
      quadForm (vec3 a b c) (vec3 (nvec_0 φ θ) (nvec_1 φ θ) (nvec_2 φ θ)) := by
  rw [beta_eq_sqrt_quadForm, hsq _ (quadForm_nonneg _ _)]

theorem quadForm_eq_sum (r n : V3 α) : quadForm r n = ∑ i : Fin 3, (r i * n i) ^ 2 := by
  simp only [quadForm, npow, Fin.sum_univ_three]
  ring

/-- relabelling the coordinate axes of the semi-axes and of the direction TOGETHER leaves Σ (rᵢ nᵢ)² unchanged
(every permutation of the three axes) -/
theorem quadForm_joint_permutation (σ : Equiv.Perm (Fin 3)) (r n : V3 α) :
    quadForm (permV3 σ r) (permV3 σ n) = quadForm r n := by
  rw [quadForm_eq_sum, quadForm_eq_sum]
  exact Equiv.sum_comp σ (fun i => (r i * n i) ^ 2)

theorem betaN_eq_sqrt_quadForm (r n : V3 α) : betaN r n = Trans.sqrt (quadForm r n) := rfl

theorem betaN_joint_permutation (σ : Equiv.Perm (Fin 3)) (r n : V3 α) :
    betaN (permV3 σ r) (permV3 σ n) = betaN r n := by
  rw [betaN_eq_sqrt_quadForm, betaN_eq_sqrt_quadForm, quadForm_joint_permutation]

/-- the exchange x ↔ y written out (the relabelling the driver evaluates as `perm6 2`) -/
theorem quadForm_swap01 (r n : V3 α) : quadForm (permV3 swap01 r) (permV3 swap01 n) = quadForm r n := by
  simp [quadForm, permV3, swap01, npow]
  ring

theorem quadForm_perm6 (k : Nat) (r n : V3 α) :
    quadForm (permV3 (perm6 k) r) (permV3 (perm6 k) n) = quadForm r n := by
  rcases k with _ | _ | _ | _ | _ | k <;> simp [perm6, swap01, quadForm, permV3, npow] <;> ring

theorem betaN_perm6 (k : Nat) (r n : V3 α) : betaN (permV3 (perm6 k) r) (permV3 (perm6 k) n) = betaN r n := by
  rw [betaN_eq_sqrt_quadForm, betaN_eq_sqrt_quadForm, quadForm_perm6]

/-- swapping (a, b) together with (n_x, n_y) leaves the traced `_beta` unchanged: at the angle φ' whose cosine / sine are
the sine / cosine of φ (φ' = π/2 − φ) the traced `_n` is the direction with x and y exchanged, and `_beta(b, a, c)` there
equals `_beta(a, b, c)` at φ -/
theorem beta_joint_permutation (a b c φ φ' θ : α)
    (hc : Trans.cos φ' = Trans.sin φ) (hs : Trans.sin φ' = Trans.cos φ) :
    (nvec_0 φ' θ = nvec_1 φ θ ∧ nvec_1 φ' θ = nvec_0 φ θ ∧ nvec_2 φ' θ = nvec_2 φ θ) ∧
      beta b a c φ' θ = beta a b c φ θ := by
  refine ⟨⟨?_, ?_, ?_⟩, ?_⟩
  · simp only [nvec_0, nvec_1, hc]
  · simp only [nvec_0, nvec_1, hs]
  · simp only [nvec_2]
  · simp only [beta, hc, hs, npow]
    congr 1
    ring

/-- the mirrored radicand differs from the coded one by (a² − b²)(sin²φ − cos²φ) sin²θ -/
theorem betaSqMirrored_sub (a b c sφ cφ sθ cθ : α) :
    betaSqMirrored a b c sφ cφ sθ cθ - betaSqSC a b c sφ cφ sθ cθ = (a ^ 2 - b ^ 2) * (sφ ^ 2 - cφ ^ 2) * sθ ^ 2 := by
  simp only [betaSqMirrored, betaSqSC, npow]
  ring

/-- … so it is NOT Σ (rᵢ nᵢ)² whenever the first two semi-axes differ (a² ≠ b²), off the planes φ = ±45° and off the poles -/
theorem betaSqMirrored_ne (a b c sφ cφ sθ cθ : α) (hab : a ^ 2 ≠ b ^ 2) (hφ : sφ ^ 2 ≠ cφ ^ 2) (hθ : sθ ≠ 0) :
    betaSqMirrored a b c sφ cφ sθ cθ ≠ quadForm (vec3 a b c) (nSC sφ cφ sθ cθ) := by
  rw [← betaSqSC_eq_quadForm]
  intro h
  have h0 := betaSqMirrored_sub a b c sφ cφ sθ cθ
  rw [h, sub_self] at h0
  have : (a ^ 2 - b ^ 2) * (sφ ^ 2 - cφ ^ 2) * sθ ^ 2 ≠ 0 :=
    mul_ne_zero (mul_ne_zero (sub_ne_zero.mpr hab) (sub_ne_zero.mpr hφ)) (pow_ne_zero 2 hθ)
  exact this h0.symm

/-- … and it is invisible when r[0] = r[1] (spheres, needles (1,1,ar), plates (ar,ar,1): every test and example) -/
theorem betaSqMirrored_eq_of_equal_axes (a c sφ cφ sθ cθ : α) :
    betaSqMirrored a a c sφ cφ sθ cθ = betaSqSC a a c sφ cφ sθ cθ := by
  have h := betaSqMirrored_sub a a c sφ cφ sθ cθ
  rw [sub_self, zero_mul, zero_mul] at h
  exact sub_eq_zero.mp h

/-- the mirrored radicand is the coded one of the particle with a and b exchanged: the geometry is mirrored x ↔ y -/
theorem betaSqMirrored_eq_swapped (a b c sφ cφ sθ cθ : α) :
    betaSqMirrored a b c sφ cφ sθ cθ = betaSqSC b a c sφ cφ sθ cθ := by
  simp only [betaSqMirrored, betaSqSC, npow]
  ring

/-- WITNESS (exact rationals, sin φ = sin θ = 3/5, cos φ = cos θ = 4/5, tri-axial particle (1, 2, 3)): the mirrored variant
gives β² = 4257/625 where Σ (rᵢ nᵢ)² = 4068/625 -/
theorem beta_mirrored_differs :
    betaSqMirrored (1 : ℚ) 2 3 (3 / 5) (4 / 5) (3 / 5) (4 / 5) ≠ quadForm (vec3 1 2 3) (nSC (3 / 5) (4 / 5) (3 / 5) (4 / 5)) := by
  simp [betaSqMirrored, quadForm, vec3, nSC, npow]
  norm_num

theorem beta_mirrored_witness_values :
    betaSqMirrored (1 : ℚ) 2 3 (3 / 5) (4 / 5) (3 / 5) (4 / 5) = 4257 / 625 ∧
      betaSqSC (1 : ℚ) 2 3 (3 / 5) (4 / 5) (3 / 5) (4 / 5) = 4068 / 625 := by
  constructor <;> · simp [betaSqMirrored, betaSqSC, npow]; norm_num

/-- non-vacuity: the witness values are sines and cosines of angles (s² + c² = 1), the hypotheses of `betaSqMirrored_ne` hold
there, and the hypotheses of `beta_joint_permutation` are satisfiable -/
example : ((3 : ℚ) / 5) ^ 2 + (4 / 5) ^ 2 = 1 ∧ ((1 : ℚ)) ^ 2 ≠ 2 ^ 2 ∧ ((3 : ℚ) / 5) ^ 2 ≠ (4 / 5) ^ 2 ∧ ((3 : ℚ) / 5) ≠ 0 := by
  norm_num

/-! ### the quadrature sum under a relabelling of the axes -/

theorem lsum_perm {l₁ l₂ : List α} (h : l₁.Perm l₂) : lsum l₁ = lsum l₂ := by
  induction h with
  | nil => rfl
  | cons x _ ih => simp only [lsum, ih]
  | swap x y l => simp only [lsum]; ring
  | trans _ _ ih1 ih2 => exact ih1.trans ih2

/-- `sphInt` is covariant under a joint relabelling σ of the axes: if the distance function is invariant under the joint
relabelling (true of `betaN`: `betaN_joint_permutation`; FALSE of a radius function that pairs the semi-axes with other
axes than the direction function), the kernel is covariant (isotropic stiffness; cubic stiffness along the axes) and the node
table is mapped to itself, then D'_{ijkl} = D_{σi σj σk σl} — entry by entry the same sum -/
theorem sphInt_joint_permutation (σ : Fin 3 → Fin 3) (ohm : V3 α → T2 α) (beta : V3 α → V3 α → α)
    (nodes : List (QNode α)) (dA : α) (r : V3 α)
    (hβ : ∀ n, beta (permV3 σ r) (permV3 σ n) = beta r n)
    (hΩ : ∀ n i j, ohm (permV3 σ n) i j = ohm n (σ i) (σ j))
    (hN : (permNodes σ nodes).Perm nodes) (i j k l : Fin 3) :
    sphInt ohm beta nodes dA (permV3 σ r) i j k l = sphInt ohm beta nodes dA r (σ i) (σ j) (σ k) (σ l) := by
  simp only [sphInt]
  congr 2
  rw [← lsum_perm (hN.map _)]
  simp only [permNodes, List.map_map]
  congr 1
  apply List.map_congr_left
  intro q _
  simp only [Function.comp, hΩ, hβ, permV3]

theorem prod3_perm (σ : Equiv.Perm (Fin 3)) (r : V3 α) : prod3 (permV3 σ r) = prod3 r := by
  have h : ∀ v : V3 α, prod3 v = ∏ i : Fin 3, v i := fun v => by simp [prod3, Fin.prod_univ_three]
  rw [h, h]
  exact Equiv.prod_comp σ r

/-- the same for `Dijkl` with the code's own distance function: relabelled particle ↦ relabelled tensor -/
theorem Dijkl_joint_permutation (σ : Equiv.Perm (Fin 3)) (ohm : V3 α → T2 α) (nodes : List (QNode α)) (dA : α) (r : V3 α)
    (hΩ : ∀ n i j, ohm (permV3 σ n) i j = ohm n (σ i) (σ j))
    (hN : (permNodes σ nodes).Perm nodes) (i j k l : Fin 3) :
    Dijkl ohm betaN nodes dA (permV3 σ r) i j k l = Dijkl ohm betaN nodes dA r (σ i) (σ j) (σ k) (σ l) := by
  simp only [Dijkl, prod3_perm]
  rw [sphInt_joint_permutation σ ohm betaN nodes dA r (fun n => betaN_joint_permutation σ r n) hΩ hN]

/-- non-vacuity of the node-table hypothesis: a two-node table {(1,0,0), (0,1,0)} with equal weights is mapped to itself by x ↔ y -/
example : (permNodes swap01 [({ n := vec3 1 0 0, w := 1 } : QNode ℚ), { n := vec3 0 1 0, w := 1 }]).Perm
    [{ n := vec3 1 0 0, w := 1 }, { n := vec3 0 1 0, w := 1 }] := by
  have e1 : permV3 swap01 (vec3 (1 : ℚ) 0 0) = vec3 0 1 0 := by
    funext i; fin_cases i <;> simp [permV3, swap01, vec3]
  have e2 : permV3 swap01 (vec3 (0 : ℚ) 1 0) = vec3 1 0 0 := by
    funext i; fin_cases i <;> simp [permV3, swap01, vec3]
  simp only [permNodes, List.map, e1, e2]
  exact List.Perm.swap _ _ _

/-! ### the hypotheses of `Dijkl_joint_permutation` hold for x ↔ y and a cubic (or isotropic) stiffness along the axes -/

theorem swap01_apply : swap01 0 = 1 ∧ swap01 1 = 0 ∧ swap01 2 = 2 := by decide

/-- the Cramer inverse of a matrix with rows and columns relabelled x ↔ y is the relabelled Cramer inverse -/
theorem cramer3_swap01 (m : T2 α) (i j : Fin 3) :
    cramer3 (fun a b => m (swap01 a) (swap01 b)) i j = cramer3 m (swap01 i) (swap01 j) := by
  obtain ⟨s0, s1, s2⟩ := swap01_apply
  fin_cases i <;> fin_cases j <;> simp only [cramer3, s0, s1, s2, Fin.zero_eta, Fin.mk_one, Fin.reduceFinMk, Fin.isValue,
    Fin.val_zero, Fin.val_one, Fin.val_two] <;> congr 1 <;> ring

/-- `invOhm` is covariant under x ↔ y when the stiffness is invariant under it -/
theorem invOhm_swap01 (c4 : T4 α)
    (hC : ∀ a b c d, c4 (swap01 a) (swap01 b) (swap01 c) (swap01 d) = c4 a b c d) (n : V3 α) (i j : Fin 3) :
    invOhm c4 (permV3 swap01 n) i j = invOhm c4 n (swap01 i) (swap01 j) := by
  obtain ⟨s0, s1, s2⟩ := swap01_apply
  have h : ∀ k l, c4 i k l j = c4 (swap01 i) (swap01 k) (swap01 l) (swap01 j) := fun k l => (hC i k l j).symm
  simp only [invOhm, sum3, permV3, h, s0, s1, s2]
  ring

theorem ohmOf_swap01 (c4 : T4 α)
    (hC : ∀ a b c d, c4 (swap01 a) (swap01 b) (swap01 c) (swap01 d) = c4 a b c d) (n : V3 α) (i j : Fin 3) :
    ohmOf c4 (permV3 swap01 n) i j = ohmOf c4 n (swap01 i) (swap01 j) := by
  have h : invOhm c4 (permV3 swap01 n) = fun a b => invOhm c4 n (swap01 a) (swap01 b) := by
    funext a b; exact invOhm_swap01 c4 hC n a b
  simp only [ohmOf, h, cramer3_swap01]

/-- a cubic stiffness along the axes (isotropic: c11 − c12 = 2 c44) is invariant under x ↔ y -/
theorem cubic_swap01 (c11 c12 c44 : α) (a b c d : Fin 3) :
    convert2To4 (elasticConstantToC c11 c12 c44) (swap01 a) (swap01 b) (swap01 c) (swap01 d) =
      convert2To4 (elasticConstantToC c11 c12 c44) a b c d := by
  obtain ⟨s0, s1, s2⟩ := swap01_apply
  fin_cases a <;> fin_cases b <;> fin_cases c <;> fin_cases d <;>
    simp [convert2To4, elasticConstantToC, voigt, s0, s1, s2]

def swapXY : Equiv.Perm (Fin 3) := Equiv.swap 0 1

theorem swapXY_eq : (swapXY : Fin 3 → Fin 3) = swap01 := by
  funext i; fin_cases i <;> decide

/-- END TO END for x ↔ y: for a cubic or isotropic matrix along the axes and a node table that x ↔ y maps to itself, the
D tensor of the particle (b, a, c) is the relabelled D tensor of the particle (a, b, c) — with the code's `_beta` = `betaN`;
a radius function that is not jointly invariant (`betaSqMirrored_ne`) breaks exactly the hypothesis `hβ` of
`sphInt_joint_permutation` -/
theorem Dijkl_swap_cubic (c11 c12 c44 : α) (nodes : List (QNode α)) (dA : α) (r : V3 α)
    (hN : (permNodes swap01 nodes).Perm nodes) (i j k l : Fin 3) :
    Dijkl (ohmOf (convert2To4 (elasticConstantToC c11 c12 c44))) betaN nodes dA (permV3 swap01 r) i j k l =
      Dijkl (ohmOf (convert2To4 (elasticConstantToC c11 c12 c44))) betaN nodes dA r (swap01 i) (swap01 j) (swap01 k) (swap01 l) := by
  have h := Dijkl_joint_permutation swapXY (ohmOf (convert2To4 (elasticConstantToC c11 c12 c44))) nodes dA r
  rw [swapXY_eq] at h
  exact h (fun n a b => ohmOf_swap01 _ (cubic_swap01 c11 c12 c44) n a b) hN i j k l

end orientation

/-! ## array calls: `compute` on an (n × 3) array is the list of the single-row energies
(round 5, seed C16-12: a loop that hands the previous row's energy to a row with the same axis ratios is exact for
single calls, for arrays of distinct shapes and for unit-volume rows, and returns E/E₀ = 1 instead of s³ for the same
shape at another size.)  `computeRows f rows` models `[description.computeStrainEnergy(ri) for ri in r]`; `f` is the
single-row energy, for the history model `computeOf ev inv4 simple h`. -/
section rows
variable {α : Type} [Field α] [LinearOrder α] [IsStrictOrderedRing α] [Trans α]

theorem computeRows_length (f : V3 α → α) (rows : List (V3 α)) :
    (computeRows f rows).length = rows.length := by
  simp [computeRows]

/-- **row i of the array call is the single call on row i** -/
theorem computeRows_getElem (f : V3 α → α) (rows : List (V3 α)) (i : Nat) (h : i < rows.length) :
    (computeRows f rows)[i]'(by simpa [computeRows] using h) = f rows[i] := by
  simp [computeRows]

theorem computeRows_getElem? (f : V3 α → α) (rows : List (V3 α)) (i : Nat) :
    (computeRows f rows)[i]? = rows[i]?.map f := by
  simp [computeRows]

/-- a call with one row (what `np.atleast_2d` makes of a single triple) -/
theorem computeRows_single (f : V3 α → α) (r : V3 α) : computeRows f [r] = [f r] := rfl

theorem computeRows_append (f : V3 α → α) (a b : List (V3 α)) :
    computeRows f (a ++ b) = computeRows f a ++ computeRows f b := by
  simp [computeRows]

/-- a row does not see the rows before it: the result of row i is the same whatever precedes / follows it -/
theorem computeRows_context (f : V3 α → α) (a b a' b' : List (V3 α)) (r : V3 α) :
    (computeRows f (a ++ r :: b))[a.length]? = (computeRows f (a' ++ r :: b'))[a'.length]? := by
  simp [computeRows]

theorem computeRows_getD (f : V3 α → α) (rows : List (V3 α)) (i : Nat) (d : V3 α) :
    (computeRows f rows).getD i (f d) = f (rows.getD i d) := by
  simp only [computeRows, List.getD_eq_getElem?_getD, List.getElem?_map]
  cases rows[i]? <;> rfl

/-- **rows permuted → results permuted** (as multisets) -/
theorem computeRows_perm (f : V3 α → α) {rows rows' : List (V3 α)} (h : rows.Perm rows') :
    (computeRows f rows).Perm (computeRows f rows') := h.map f

/-- … and position by position: the call on `rows[idx]` returns `results[idx]` for EVERY list of row numbers
(permutations, repetitions, sub-selections) -/
theorem computeRows_takeRows (f : V3 α → α) (rows : List (V3 α)) (idx : List Nat) (d : V3 α) :
    computeRows f (takeRows d rows idx) = takeRows (f d) (computeRows f rows) idx := by
  simp only [takeRows, computeRows, List.map_map]
  apply List.map_congr_left
  intro i _
  exact (computeRows_getD f rows i d).symm

/-- a repeated row gets the same energy -/
theorem computeRows_repeated (f : V3 α → α) (rows : List (V3 α)) (i j : Nat) (h : rows[i]? = rows[j]?) :
    (computeRows f rows)[i]? = (computeRows f rows)[j]? := by
  simp only [computeRows_getElem?, h]

/-- **cube scaling inside one array call**: if row i is row j scaled by s then result i = s³ · result j, for every
single-row energy that scales with the cube -/
theorem computeRows_cube_scaling (f : V3 α → α) (hf : ∀ s r, 0 < s → f (smul3 s r) = s ^ 3 * f r)
    (rows : List (V3 α)) (i j : Nat) (s : α) (hs : 0 < s) (r : V3 α)
    (hj : rows[j]? = some r) (hi : rows[i]? = some (smul3 s r)) :
    (computeRows f rows)[j]? = some (f r) ∧ (computeRows f rows)[i]? = some (s ^ 3 * f r) := by
  simp only [computeRows_getElem?, hj, hi, Option.map_some, hf s r hs, and_self]

/-- the closed-form descriptions as `compute` dispatches them (the driver's `computeSimple`; the value for an
ellipsoidal description is not used by `computeOf`) -/
def simpleGen (s : State α) (r : V3 α) : α :=
  match s.desc with
  | .constant => constant_energy s.constE (r 0) (r 1) (r 2)
  | .sphere => khach_sphere (s.p.cM2 0 0) (s.p.cM2 0 1) (s.p.cM2 3 3) (s.eig 0 0) (r 0) (r 1) (r 2)
  | .cube => khach_cube (s.p.cM2 0 0) (s.p.cM2 0 1) (s.p.cM2 3 3) (s.eig 0 0) (r 0) (r 1) (r 2)
  | .ellipsoid => 0

theorem simpleGen_size_scaling (st : State α) (s : α) (r : V3 α) :
    simpleGen st (smul3 s r) = s ^ 3 * simpleGen st r := by
  unfold simpleGen
  cases st.desc
  · simp only [smul3, constant_energy]; ring
  · simp only [smul3, khach_sphere, npow]; ring
  · simp only [smul3, khach_cube, npow]; ring
  · simp

/-- `compute` of the history model scales with the cube of the size, whatever the description -/
theorem computeOf_size_scaling (hsq : ∀ s x : α, 0 ≤ s → Trans.sqrt (s * s * x) = s * Trans.sqrt x)
    (ev : Eval α) (hev : ev.Lawful) (inv4 : T4 α → T4 α) (h : HState α) (s : α) (hs : 0 < s) (r : V3 α) :
    computeOf ev inv4 simpleGen h (smul3 s r) = s ^ 3 * computeOf ev inv4 simpleGen h r := by
  obtain ⟨_, h4, _⟩ := hev
  unfold computeOf
  cases hd : h.st.desc
  · simp only []; exact simpleGen_size_scaling h.st s r
  · simp only []; exact simpleGen_size_scaling h.st s r
  · simp only []; exact simpleGen_size_scaling h.st s r
  · simp only [h4]
    exact bohm_size_scaling_beta hsq ev inv4 (ohmOf h.st.p.cM4) h.quad.nodes h.quad.dA s r h.st.p.cM4 h.st.p.cP4
      h.st.eig hs

/-- **the array call of the history model**: same shape at another size inside one call → s³ -/
theorem compute_rows_cube_scaling (hsq : ∀ s x : α, 0 ≤ s → Trans.sqrt (s * s * x) = s * Trans.sqrt x)
    (ev : Eval α) (hev : ev.Lawful) (inv4 : T4 α → T4 α) (h : HState α)
    (rows : List (V3 α)) (i j : Nat) (s : α) (hs : 0 < s) (r : V3 α)
    (hj : rows[j]? = some r) (hi : rows[i]? = some (smul3 s r)) :
    (computeRows (computeOf ev inv4 simpleGen h) rows)[j]? = some (computeOf ev inv4 simpleGen h r) ∧
    (computeRows (computeOf ev inv4 simpleGen h) rows)[i]? = some (s ^ 3 * computeOf ev inv4 simpleGen h r) :=
  computeRows_cube_scaling _ (fun s r hs => computeOf_size_scaling hsq ev hev inv4 h s hs r) rows i j s hs r hj hi

/-! the reuse-previous-row variant -/

theorem computeRowsReuse_pair (same : V3 α → V3 α → Bool) (f : V3 α → α) (p r : V3 α) :
    computeRowsReuse same f [p, r] = [f p, if same p r then f p else f r] := rfl

/-- the variant is WRONG for the same shape at another size whenever the energy scales with the cube and is not 0 -/
theorem computeRowsReuse_differs (same : V3 α → V3 α → Bool) (f : V3 α → α) (p : V3 α) (s : α)
    (hsame : same p (smul3 s p) = true) (hf : f (smul3 s p) = s ^ 3 * f p) (h0 : f p ≠ 0) (hs : s ^ 3 ≠ 1) :
    computeRowsReuse same f [p, smul3 s p] ≠ computeRows f [p, smul3 s p] := by
  rw [computeRowsReuse_pair, hsame]
  simp only [computeRows, List.map_cons, List.map_nil, if_true, hf]
  intro h
  have h2 : f p = s ^ 3 * f p := by simpa using h
  have h3 : (s ^ 3 - 1) * f p = 0 := by linear_combination -h2
  rcases mul_eq_zero.mp h3 with h4 | h4
  · exact hs (by linear_combination h4)
  · exact h0 h4

/-- the variant is INVISIBLE (equal to the code) whenever rows that `same` identifies have equal energy — e.g. the
unit-volume radii `ShapeFactor.normalRadii` that the KWN model passes -/
theorem computeRowsReuseFrom_eq (same : V3 α → V3 α → Bool) (f : V3 α → α)
    (hsame : ∀ p r, same p r = true → f r = f p) (rows : List (V3 α)) :
    ∀ prev : Option (V3 α × α), (∀ p e, prev = some (p, e) → e = f p) →
      computeRowsReuseFrom same f prev rows = computeRows f rows := by
  induction rows with
  | nil => intro prev _; cases prev <;> rfl
  | cons r rs ih =>
    intro prev hp
    cases prev with
    | none =>
      simp only [computeRowsReuseFrom, computeRows, List.map_cons]
      congr 1
      exact ih _ (fun p e h => by cases h; rfl)
    | some pe =>
      obtain ⟨p, e⟩ := pe
      have he : e = f p := hp p e rfl
      have hval : (if same p r then e else f r) = f r := by
        by_cases hs : same p r = true
        · rw [if_pos hs, he]; exact (hsame p r hs).symm
        · rw [if_neg hs]
      simp only [computeRowsReuseFrom, computeRows, List.map_cons, hval]
      congr 1
      exact ih _ (fun p' e' h => by cases h; rfl)

theorem computeRowsReuse_eq_of_equal_energy (same : V3 α → V3 α → Bool) (f : V3 α → α)
    (hsame : ∀ p r, same p r = true → f r = f p) (rows : List (V3 α)) :
    computeRowsReuse same f rows = computeRows f rows :=
  computeRowsReuseFrom_eq same f hsame rows none (fun _ _ h => by cases h)

/-- no two consecutive rows identified by `same` (arrays of distinct aspect ratios) -/
def NoAdjacentSame (same : V3 α → V3 α → Bool) : List (V3 α) → Prop
  | [] => True
  | [_] => True
  | p :: r :: rs => same p r = false ∧ NoAdjacentSame same (r :: rs)

/-- … and INVISIBLE on arrays in which no two consecutive rows have the same shape -/
theorem computeRowsReuse_eq_of_distinct (same : V3 α → V3 α → Bool) (f : V3 α → α) (rows : List (V3 α))
    (h : NoAdjacentSame same rows) : computeRowsReuse same f rows = computeRows f rows := by
  cases rows with
  | nil => rfl
  | cons p rs =>
    simp only [computeRowsReuse, computeRowsReuseFrom, computeRows, List.map_cons]
    congr 1
    induction rs generalizing p with
    | nil => rfl
    | cons r rs ih =>
      obtain ⟨h1, h2⟩ := h
      simp only [computeRowsReuseFrom, h1, List.map_cons]
      simp only [Bool.false_eq_true, if_false]
      congr 1
      exact ih r h2

/-- **witness** (exact rationals): rows (1,1,2) and (2,2,4) = 2·(1,1,2), energy ∝ prod(r): the code's list is
[2, 16] (ratio 8 = 2³), the reuse variant returns [2, 2] (ratio 1) -/
theorem computeRowsReuse_witness :
    computeRows prod3 [vec3 (1 : ℚ) 1 2, vec3 2 2 4] = [2, 16] ∧
    computeRowsReuse sameRatios prod3 [vec3 (1 : ℚ) 1 2, vec3 2 2 4] = [2, 2] ∧
    sameRatios (vec3 (1 : ℚ) 1 2) (vec3 2 2 4) = true ∧
    vec3 (2 : ℚ) 2 4 = smul3 2 (vec3 1 1 2) := by
  refine ⟨?_, ?_, ?_, ?_⟩
  · simp [computeRows, prod3, vec3]; norm_num
  · simp [computeRowsReuse, computeRowsReuseFrom, sameRatios, prod3, vec3]; norm_num
  · simp [sameRatios, vec3]; norm_num
  · funext i; fin_cases i <;> simp [vec3, smul3] <;> norm_num

theorem computeRowsReuse_witness_ne :
    computeRowsReuse sameRatios prod3 [vec3 (1 : ℚ) 1 2, vec3 2 2 4] ≠ computeRows prod3 [vec3 (1 : ℚ) 1 2, vec3 2 2 4] := by
  rw [computeRowsReuse_witness.1, computeRowsReuse_witness.2.1]; decide

/-! non-vacuity of the hypothesis sets of this section -/
example : ∀ (s : ℚ) (r : V3 ℚ), 0 < s → prod3 (smul3 s r) = s ^ 3 * prod3 r := fun s r _ => by
  simp only [prod3, smul3]; ring
example : ([vec3 (1 : ℚ) 1 2, vec3 3 3 3, vec3 2 2 4])[0]? = some (vec3 1 1 2) ∧
    ([vec3 (1 : ℚ) 1 2, vec3 3 3 3, vec3 2 2 4])[2]? = some (smul3 2 (vec3 1 1 2)) ∧ (0 : ℚ) < 2 := by
  refine ⟨rfl, ?_, by norm_num⟩
  simp only [List.getElem?_cons_succ, List.getElem?_cons_zero, Option.some.injEq]
  exact computeRowsReuse_witness.2.2.2
example : sameRatios (vec3 (1 : ℚ) 1 2) (smul3 2 (vec3 1 1 2)) = true ∧ prod3 (vec3 (1 : ℚ) 1 2) ≠ 0 ∧ (2 : ℚ) ^ 3 ≠ 1 := by
  refine ⟨?_, ?_, by norm_num⟩
  · simp [sameRatios, vec3, smul3]
  · simp [prod3, vec3]
example : ∀ p r : V3 ℚ, sameRatios p r = true → (fun _ : V3 ℚ => (5 : ℚ)) r = (fun _ : V3 ℚ => (5 : ℚ)) p := fun _ _ _ => rfl
example : NoAdjacentSame sameRatios [vec3 (1 : ℚ) 1 2, vec3 1 1 3, vec3 1 1 2] := by
  refine ⟨?_, ?_, trivial⟩ <;> simp [sameRatios, vec3]

end rows

/-! ## real numbers: the laws of sqrt used above hold -/
section real
open Real

/-- interpretation of the atoms over ℝ -/
@[instance_reducible] noncomputable def realTrans : Trans ℝ where
  pi := Real.pi
  sqrt := Real.sqrt
  cbrt := fun x => if 0 ≤ x then x ^ ((1 : ℝ) / 3) else -((-x) ^ ((1 : ℝ) / 3))
  exp := Real.exp
  log := Real.log
  sin := Real.sin
  cos := Real.cos
  tan := Real.tan
  arcsin := Real.arcsin
  arccos := Real.arccos
  arctan := Real.arctan
  tanh := Real.tanh
  arctanh := fun x => Real.log ((1 + x) / (1 - x)) / 2
  arccosh := fun x => Real.log (x + Real.sqrt (x ^ 2 - 1))
  pow := fun x y => x ^ y
  abs := fun x => |x|

attribute [local instance] realTrans

theorem real_sqrt_sq (x : ℝ) (hx : 0 ≤ x) : Trans.sqrt (x * x) = x := Real.sqrt_mul_self hx

theorem real_sqrt_scale (s x : ℝ) (hs : 0 ≤ s) : Trans.sqrt (s * s * x) = s * Trans.sqrt x := by
  show Real.sqrt (s * s * x) = s * Real.sqrt x
  rw [Real.sqrt_mul (mul_self_nonneg s), Real.sqrt_mul_self hs]

/-- `_mandelVec`² = `_pairWeights` over ℝ, and no entry vanishes (hypotheses of `invert4_left_inverse`) -/
theorem real_mandel (I : Fin 6) : (mandelVec I : ℝ) * mandelVec I = pairWeight I ∧ (mandelVec I : ℝ) ≠ 0 := by
  have hw : (0 : ℝ) < pairWeight I := by unfold pairWeight; split <;> norm_num
  constructor
  · exact Real.mul_self_sqrt hw.le
  · exact (Real.sqrt_pos.mpr hw).ne'

/-- over ℝ: both square-root branches of moduliToC, for every physical isotropic material -/
theorem real_moduli_E_lam (E ν : ℝ) (hE : 0 < E) (h1 : -1 < ν) (h2 : ν < 1 / 2) :
    IsCompliance E ν (moduli_E_lam_s11 E (lamOf E ν)) (moduli_E_lam_s12 E (lamOf E ν))
      (moduli_E_lam_s44 E (lamOf E ν)) :=
  moduli_E_lam_spec real_sqrt_sq hE (by linarith) (by linarith)

theorem real_moduli_E_M (E ν : ℝ) (hE : 0 < E) (h1 : 0 ≤ ν) (h2 : ν < 1 / 2) :
    IsCompliance E ν (moduli_E_M_s11 E (mOf E ν)) (moduli_E_M_s12 E (mOf E ν))
      (moduli_E_M_s44 E (mOf E ν)) :=
  moduli_E_M_spec real_sqrt_sq hE h1 (by linarith)

/-- over ℝ: E(s·r) = s³ E(r) for every s > 0 with the code's distance function -/
theorem real_bohm_size_scaling (ev : Eval ℝ) (inv4 : T4 ℝ → T4 ℝ) (ohm : V3 ℝ → T2 ℝ)
    (nodes : List (QNode ℝ)) (dA s : ℝ) (r : V3 ℝ) (cM cP : T4 ℝ) (eig : T2 ℝ) (hs : 0 < s) :
    energyBohm ev inv4 cM cP (Sijmn cM (Dijkl ohm betaN nodes dA (smul3 s r))) eig (volume (smul3 s r)) =
      s ^ 3 * energyBohm ev inv4 cM cP (Sijmn cM (Dijkl ohm betaN nodes dA r)) eig (volume r) :=
  bohm_size_scaling_beta real_sqrt_scale ev inv4 ohm nodes dA s r cM cP eig hs

/-- over ℝ: inside ONE array call of the history model, a row that is another row scaled by s > 0 gets s³ times its
energy (every description, every settings history h) -/
theorem real_compute_rows_cube_scaling (ev : Eval ℝ) (hev : ev.Lawful) (inv4 : T4 ℝ → T4 ℝ) (h : HState ℝ)
    (rows : List (V3 ℝ)) (i j : Nat) (s : ℝ) (hs : 0 < s) (r : V3 ℝ)
    (hj : rows[j]? = some r) (hi : rows[i]? = some (smul3 s r)) :
    (computeRows (computeOf ev inv4 simpleGen h) rows)[j]? = some (computeOf ev inv4 simpleGen h r) ∧
    (computeRows (computeOf ev inv4 simpleGen h) rows)[i]? = some (s ^ 3 * computeOf ev inv4 simpleGen h r) :=
  compute_rows_cube_scaling real_sqrt_scale ev hev inv4 h rows i j s hs r hj hi

/-- over ℝ: β² = Σ (rᵢ nᵢ)² for the traced `_beta` and `_n` -/
theorem real_beta_sq_eq_quadratic_form (a b c φ θ : ℝ) :
    beta a b c φ θ * beta a b c φ θ = quadForm (vec3 a b c) (vec3 (nvec_0 φ θ) (nvec_1 φ θ) (nvec_2 φ θ)) :=
  beta_sq_eq_quadratic_form (fun x hx => Real.mul_self_sqrt hx) a b c φ θ

/-- over ℝ: the direction with x and y exchanged is the direction of azimuth π/2 − φ, and `_beta(b, a, c)` there equals
`_beta(a, b, c)` at φ -/
theorem real_beta_joint_permutation (a b c φ θ : ℝ) :
    (nvec_0 (Real.pi / 2 - φ) θ = nvec_1 φ θ ∧ nvec_1 (Real.pi / 2 - φ) θ = nvec_0 φ θ ∧ nvec_2 (Real.pi / 2 - φ) θ = nvec_2 φ θ) ∧
      beta b a c (Real.pi / 2 - φ) θ = beta a b c φ θ :=
  beta_joint_permutation a b c φ (Real.pi / 2 - φ) θ (Real.cos_pi_div_two_sub φ) (Real.sin_pi_div_two_sub φ)

end real

/-! ## non-vacuity: the hypothesis sets are inhabited -/
section nonvacuity

example : (200 : ℚ) ≠ 0 ∧ (1 : ℚ) + 3 / 10 ≠ 0 ∧ (1 : ℚ) - 2 * (3 / 10) ≠ 0 ∧ (1 : ℚ) - 3 / 10 ≠ 0 := by norm_num
example : (0 : ℚ) < 200 ∧ (0 : ℚ) ≤ 3 / 10 ∧ (0 : ℚ) < 1 - 2 * (3 / 10) := by norm_num
example : gOf (200 : ℚ) (3 / 10) = 1000 / 13 := by norm_num [gOf]
example : det3 (fun i j => if i = j then (2 : ℚ) else 1) ≠ 0 := by norm_num [det3, Fin.ext_iff]
example : MinorSym (convert2To4 (elasticConstantToC (3 : ℚ) 1 1)) := convert2To4_minorSym _
example : (Eval.id : Eval ℚ).Lawful := ⟨fun _ => rfl, fun _ => rfl, fun _ => rfl⟩
/-- a state with the matrix tensor set exists (so `final_params_depend_on_final_fields` is not vacuous) -/
example : any4 (convert2To4 (elasticConstantToC (3 : ℚ) 1 1)) = true := by decide

-- hypotheses of memo_sound / memo_fresh_equiv: a key that determines the kernel value, a sound history, a correct table
example : ∀ (i : ℚ) (r r' : ℚ), (fun (_ : ℚ) (x : ℚ) => x) i r = (fun (_ : ℚ) (x : ℚ) => x) i r' →
    (fun (c x : ℚ) => c * x) i r = (fun (c x : ℚ) => c * x) i r' := by
  intro i r r' h; simp only at h; subst h; rfl
example : ∀ op ∈ [Memo.MOp.compute (1 : ℚ), Memo.MOp.set (fun _ : ℚ => 2) true, Memo.MOp.compute 1],
    SoundOp (fun c : ℚ => c) op := by
  intro op h
  simp only [List.mem_cons, List.not_mem_nil, or_false] at h
  rcases h with rfl | rfl | rfl
  · trivial
  · exact Or.inl rfl
  · trivial
example : (Memo.mrun (fun c : ℚ => c) (fun _ r => r) (fun c r => c * r) ⟨1, []⟩
    [.compute 1, .set (fun _ => 2) true, .compute 1]).2 = [1, 2] := by
  simp [Memo.mrun, Memo.mstep, Memo.lookup]
example : MemoOK (fun c : ℚ => c) (fun _ (r : ℚ) => r) (fun c r => c * r) ⟨2, [(3, 6)]⟩ := by
  intro k v h r hk
  simp only [List.mem_cons, Prod.mk.injEq, List.not_mem_nil, or_false] at h
  obtain ⟨rfl, rfl⟩ := h
  simp only at hk; subst hk; norm_num
-- hypothesis `hclr` of eshelby_memo_sound: the policy "everything but compute and the eigenstrain setters clears"
example : ∀ op : HOp ℚ, (match op with
      | .compute _ => false
      | .setter (.setEigScalar _) => false
      | .setter (.setEigVec _) => false
      | .setter (.setEigMat _) => false
      | _ => true) = true ∨ (∃ r, op = .compute r) ∨
      (∃ e, op = .setter (.setEigScalar e)) ∨ (∃ e, op = .setter (.setEigVec e)) ∨ (∃ e, op = .setter (.setEigMat e)) := by
  intro op
  cases op with
  | compute r => exact Or.inr (Or.inl ⟨r, rfl⟩)
  | setQuad q => exact Or.inl rfl
  | setter o =>
    cases o <;> first
      | exact Or.inl rfl
      | exact Or.inr (Or.inr (Or.inl ⟨_, rfl⟩))
      | exact Or.inr (Or.inr (Or.inr (Or.inl ⟨_, rfl⟩)))
      | exact Or.inr (Or.inr (Or.inr (Or.inr ⟨_, rfl⟩)))

end nonvacuity

end KawinV.Props.C16
