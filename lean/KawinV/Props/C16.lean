/-
C16 — elastic strain energy is a positive, volume-proportional quadratic form.

Theorems about
* `KawinV.Gen.C16`   — definitions REGENERATED from kawin/precipitation/parameters/ElasticFactors.py
  on every run (the 15 input-pair branches of moduliToC, Khachaturyan sphere/cube, the constant
  description, the Cramer 3x3 inverse, `_beta`, `_n`),
* `KawinV.Elastic`   — hand model of the tensor utilities, the Eshelby energy over an arbitrary node
  list and the StrainEnergy setter state machine (tied to the code by tools/corr/C16.py).

α is any linearly ordered field with the transcendental atoms `Trans α`; the laws of sqrt that a
statement needs are explicit hypotheses, discharged for ℝ at the end.
-/
import KawinV.Gen.C16Elastic
import KawinV.Model.Elastic
import Mathlib.Tactic.Ring
import Mathlib.Tactic.Linarith
import Mathlib.Tactic.FieldSimp
import Mathlib.Tactic.NormNum
import Mathlib.Tactic.FinCases
import Mathlib.Tactic.LinearCombination
import Mathlib.Algebra.Order.Field.Basic
import Mathlib.Analysis.SpecialFunctions.Pow.Real
import Mathlib.Analysis.SpecialFunctions.Trigonometric.Basic

set_option linter.unusedSectionVars false
set_option linter.unusedVariables false
set_option linter.unusedSimpArgs false
set_option linter.unusedTactic false
set_option linter.unreachableTactic false

namespace KawinV.Props.C16
open KawinV KawinV.Gen.C16 KawinV.Elastic

/-! ## rank conversions round-trip (finite index reasoning) -/
section rank
variable {α : Type}

theorem voigt_pair (I : Fin 6) : voigt (pairFst I) (pairSnd I) = I := by
  revert I; decide

theorem pair_voigt (i j : Fin 3) :
    (pairFst (voigt i j) = i ∧ pairSnd (voigt i j) = j) ∨
    (pairFst (voigt i j) = j ∧ pairSnd (voigt i j) = i) := by
  revert i j; decide

theorem voigt_symm (i j : Fin 3) : voigt i j = voigt j i := by
  revert i j; decide

/-- a 4th-rank tensor has the minor symmetries: c_ijkl = c_jikl = c_ijlk -/
def MinorSym (c : T4 α) : Prop := ∀ i j k l, c i j k l = c j i k l ∧ c i j k l = c i j l k

/-- **6x6 → 3x3x3x3 → 6x6** is the identity for every 6x6 array -/
theorem convert4To2_convert2To4 (c : M6 α) : convert4To2 (convert2To4 c) = c := by
  funext I J
  simp only [convert4To2, convert2To4, voigt_pair]

/-- the image of `convert2To4` has the minor symmetries -/
theorem convert2To4_minorSym (c : M6 α) : MinorSym (convert2To4 c) := by
  intro i j k l
  simp only [convert2To4]
  exact ⟨by rw [voigt_symm i j], by rw [voigt_symm k l]⟩

/-- **3x3x3x3 → 6x6 → 3x3x3x3** is the identity for every tensor with the minor symmetries -/
theorem convert2To4_convert4To2 (c : T4 α) (h : MinorSym c) : convert2To4 (convert4To2 c) = c := by
  funext i j k l
  simp only [convert2To4, convert4To2]
  rcases pair_voigt i j with ⟨h1, h2⟩ | ⟨h1, h2⟩ <;> rcases pair_voigt k l with ⟨h3, h4⟩ | ⟨h3, h4⟩ <;>
    rw [h1, h2, h3, h4]
  · exact ((h i j k l).2).symm
  · exact ((h i j k l).1).symm
  · rw [(h i j k l).1, (h j i k l).2]

/-- without the minor symmetries the round trip loses information: witness -/
theorem convert_roundtrip_needs_symmetry :
    ∃ c : T4 ℚ, convert2To4 (convert4To2 c) ≠ c := by
  refine ⟨fun i j _ _ => if i = 1 ∧ j = 0 then 1 else 0, ?_⟩
  intro h
  have := congrFun (congrFun (congrFun (congrFun h 1) 0) 0) 0
  simp [convert2To4, convert4To2, voigt, pairFst, pairSnd] at this

/-- strain/stress vector ↔ symmetric 3x3 tensor -/
theorem rank2ToVec_vecTo2 (v : V6 α) : rank2ToVec (vecTo2 v) = v := by
  funext I; simp only [rank2ToVec, vecTo2, voigt_pair]

theorem vecTo2_rank2ToVec (c : T2 α) (h : ∀ i j, c i j = c j i) : vecTo2 (rank2ToVec c) = c := by
  funext i j
  simp only [vecTo2, rank2ToVec]
  rcases pair_voigt i j with ⟨h1, h2⟩ | ⟨h1, h2⟩ <;> rw [h1, h2]
  exact h j i

end rank

/-! ## rotation keeps the minor symmetries (so `update()` loses nothing in cMatrix_2nd) -/
section rotation
variable {α : Type} [Field α]

@[simp] theorem voigt00 : voigt 0 0 = 0 := rfl
@[simp] theorem voigt11 : voigt 1 1 = 1 := rfl
@[simp] theorem voigt22 : voigt 2 2 = 2 := rfl
@[simp] theorem voigt12 : voigt 1 2 = 3 := rfl
@[simp] theorem voigt21 : voigt 2 1 = 3 := rfl
@[simp] theorem voigt02 : voigt 0 2 = 4 := rfl
@[simp] theorem voigt20 : voigt 2 0 = 4 := rfl
@[simp] theorem voigt01 : voigt 0 1 = 5 := rfl
@[simp] theorem voigt10 : voigt 1 0 = 5 := rfl

/-- `rotateRank4Tensor` is R R R R T: out[p,q,u,v] = Σ r[p,i] r[q,j] r[u,k] r[v,l] t[i,j,k,l] -/
theorem rotate4_formula (r : T2 α) (t : T4 α) (p q u v : Fin 3) :
    rotate4 r t p q u v =
      sum3 fun i => sum3 fun j => sum3 fun k => sum3 fun l => r p i * r q j * r u k * r v l * t i j k l := by
  simp only [rotate4, tdot13, sum3]; ring

/-- `rotateRank2Tensor` is R T Rᵀ -/
theorem rotate2_formula (r t : T2 α) (a b : Fin 3) :
    rotate2 r t a b = sum3 fun i => sum3 fun j => r a i * t i j * r b j := by
  simp only [rotate2, sum3]; ring

theorem rotate4_minorSym (r : T2 α) (t : T4 α) (h : MinorSym t) : MinorSym (rotate4 r t) := by
  rw [← convert2To4_convert4To2 t h]
  generalize convert4To2 t = c
  intro p q u v
  constructor <;>
  · simp only [rotate4_formula, sum3, convert2To4, voigt00, voigt11, voigt22, voigt12, voigt21, voigt02,
      voigt20, voigt01, voigt10]
    ring

/-- hence the 6x6 form written by `update()` determines the rotated 4th-rank tensor -/
theorem rotate4_roundtrip (r : T2 α) (t : T4 α) (h : MinorSym t) :
    convert2To4 (convert4To2 (rotate4 r t)) = rotate4 r t :=
  convert2To4_convert4To2 _ (rotate4_minorSym r t h)

end rotation

/-! ## the 3x3 inverse -/
section inverse3
variable {α : Type} [Field α]

/-- the determinant as the code writes it: a·A + b·B + c·C -/
def det3 (m : T2 α) : α :=
  m 0 0 * (m 1 1 * m 2 2 - m 1 2 * m 2 1) + m 0 1 * (m 1 2 * m 2 0 - m 1 0 * m 2 2) +
    m 0 2 * (m 1 0 * m 2 1 - m 1 1 * m 2 0)

def transpose3 (m : T2 α) : T2 α := fun i j => m j i

/-- the traced `_ohm_quickInverse` is the hand model `cramer3` entry by entry -/
theorem quickInverse_eq_cramer3 [Trans α] (m : T2 α) :
    quickInverse_all (m 0 0) (m 0 1) (m 0 2) (m 1 0) (m 1 1) (m 1 2) (m 2 0) (m 2 1) (m 2 2) =
      [cramer3 m 0 0, cramer3 m 0 1, cramer3 m 0 2, cramer3 m 1 0, cramer3 m 1 1, cramer3 m 1 2,
       cramer3 m 2 0, cramer3 m 2 1, cramer3 m 2 2] := by
  rfl

theorem mul3_assoc (x y z : T2 α) : mul3 (mul3 x y) z = mul3 x (mul3 y z) := by
  funext i j; simp only [mul3, sum3]; ring

theorem mul3_one3 (x : T2 α) : mul3 x one3 = x := by
  funext i j; fin_cases j <;> simp [mul3, one3, sum3]

theorem one3_mul3 (x : T2 α) : mul3 one3 x = x := by
  funext i j; fin_cases i <;> simp [mul3, one3, sum3]

theorem cramer3_00 (m : T2 α) : cramer3 m 0 0 = (m 1 1 * m 2 2 - m 1 2 * m 2 1) / det3 m := rfl
theorem cramer3_01 (m : T2 α) : cramer3 m 0 1 = (m 1 2 * m 2 0 - m 1 0 * m 2 2) / det3 m := rfl
theorem cramer3_02 (m : T2 α) : cramer3 m 0 2 = (m 1 0 * m 2 1 - m 1 1 * m 2 0) / det3 m := rfl
theorem cramer3_10 (m : T2 α) : cramer3 m 1 0 = (m 0 2 * m 2 1 - m 0 1 * m 2 2) / det3 m := rfl
theorem cramer3_11 (m : T2 α) : cramer3 m 1 1 = (m 0 0 * m 2 2 - m 0 2 * m 2 0) / det3 m := rfl
theorem cramer3_12 (m : T2 α) : cramer3 m 1 2 = (m 0 1 * m 2 0 - m 0 0 * m 2 1) / det3 m := rfl
theorem cramer3_20 (m : T2 α) : cramer3 m 2 0 = (m 0 1 * m 1 2 - m 0 2 * m 1 1) / det3 m := rfl
theorem cramer3_21 (m : T2 α) : cramer3 m 2 1 = (m 0 2 * m 1 0 - m 0 0 * m 1 2) / det3 m := rfl
theorem cramer3_22 (m : T2 α) : cramer3 m 2 2 = (m 0 0 * m 1 1 - m 0 1 * m 1 0) / det3 m := rfl

/-- **Cramer**: what `_ohm_quickInverse` returns is cofactor/det, i.e. the TRANSPOSE of the inverse:
(quickInverse m)ᵀ · m = 1 whenever det m ≠ 0 … -/
theorem cramer3_transpose_mul (m : T2 α) (h : det3 m ≠ 0) : mul3 (transpose3 (cramer3 m)) m = one3 := by
  funext i j
  fin_cases i <;> fin_cases j <;>
    simp [mul3, one3, sum3, transpose3, cramer3_00, cramer3_01, cramer3_02, cramer3_10, cramer3_11,
      cramer3_12, cramer3_20, cramer3_21, cramer3_22] <;> field_simp <;> unfold det3 <;> ring

/-- … and m · (quickInverse m)ᵀ = 1 -/
theorem cramer3_mul_transpose (m : T2 α) (h : det3 m ≠ 0) : mul3 m (transpose3 (cramer3 m)) = one3 := by
  funext i j
  fin_cases i <;> fin_cases j <;>
    simp [mul3, one3, sum3, transpose3, cramer3_00, cramer3_01, cramer3_02, cramer3_10, cramer3_11,
      cramer3_12, cramer3_20, cramer3_21, cramer3_22] <;> field_simp <;> unfold det3 <;> ring

/-- for a symmetric matrix (the Ohm kernel C_iklj n_k n_l of a stiffness with the major symmetry)
the routine returns a symmetric matrix, hence the inverse itself -/
theorem cramer3_symm (m : T2 α) (hs : ∀ i j, m i j = m j i) : transpose3 (cramer3 m) = cramer3 m := by
  have h10 := hs 1 0; have h20 := hs 2 0; have h21 := hs 2 1
  funext i j
  fin_cases i <;> fin_cases j <;>
    simp [transpose3, det3, cramer3_00, cramer3_01, cramer3_02, cramer3_10, cramer3_11,
      cramer3_12, cramer3_20, cramer3_21, cramer3_22, h10, h20, h21] <;> ring

theorem cramer3_mul_of_symm (m : T2 α) (hs : ∀ i j, m i j = m j i) (h : det3 m ≠ 0) :
    mul3 (cramer3 m) m = one3 ∧ mul3 m (cramer3 m) = one3 := by
  have := cramer3_symm m hs
  exact ⟨this ▸ cramer3_transpose_mul m h, this ▸ cramer3_mul_transpose m h⟩

/-- **both inversion routines compute the same matrix**: any left inverse of m (what `np.linalg.inv`
returns) equals the transposed Cramer matrix, and the Cramer matrix itself when m is symmetric -/
theorem inverse3_unique (m x : T2 α) (h : det3 m ≠ 0) (hx : mul3 x m = one3) :
    x = transpose3 (cramer3 m) := by
  calc x = mul3 x one3 := (mul3_one3 x).symm
    _ = mul3 x (mul3 m (transpose3 (cramer3 m))) := by rw [cramer3_mul_transpose m h]
    _ = mul3 (mul3 x m) (transpose3 (cramer3 m)) := (mul3_assoc _ _ _).symm
    _ = transpose3 (cramer3 m) := by rw [hx, one3_mul3]

theorem inverse3_unique_symm (m x : T2 α) (hs : ∀ i j, m i j = m j i) (h : det3 m ≠ 0)
    (hx : mul3 x m = one3) : x = cramer3 m :=
  (inverse3_unique m x h hx).trans (cramer3_symm m hs)

/-- on a non-symmetric matrix the routine is NOT the inverse (its docstring shows the transposed
layout): witness -/
theorem cramer3_not_inverse_general :
    ∃ m : T2 ℚ, det3 m ≠ 0 ∧ mul3 (cramer3 m) m ≠ one3 := by
  refine ⟨fun i j => if i = j then 1 else if i = 0 ∧ j = 1 then 1 else 0, ?_, ?_⟩
  · simp [det3]
  · intro h
    have := congrFun (congrFun h 1) 0
    simp [mul3, one3, sum3, cramer3] at this

/-- the Ohm kernel is symmetric when the stiffness has the major and minor symmetries -/
theorem invOhm_symm (c : T4 α) (n : V3 α) (hminor : MinorSym c)
    (hmajor : ∀ i j k l, c i j k l = c k l i j) (i j : Fin 3) : invOhm c n i j = invOhm c n j i := by
  have e : ∀ k l, c i k l j = c j l k i := fun k l => by
    rw [hmajor i k l j, (hminor l j i k).1, (hminor j l i k).2]
  simp only [invOhm, sum3, e]; ring

end inverse3

/-! ## moduliToC: every input pair gives the compliance of the same (E, ν, G) -/
section moduli
variable {α : Type} [Field α] [CharZero α] [Trans α]

/-- textbook definitions of the isotropic moduli in terms of Young's modulus and Poisson's ratio -/
def gOf (E ν : α) : α := E / (2 * (1 + ν))
def lamOf (E ν : α) : α := E * ν / ((1 + ν) * (1 - 2 * ν))
def kOf (E ν : α) : α := E / (3 * (1 - 2 * ν))
def mOf (E ν : α) : α := E * (1 - ν) / ((1 + ν) * (1 - 2 * ν))

/-- what every branch must hand to `np.linalg.inv`: s11 = 1/E, s12 = -ν/E, s44 = 1/G -/
def IsCompliance (E ν s11 s12 s44 : α) : Prop := s11 = 1 / E ∧ s12 = -ν / E ∧ s44 = 1 / gOf E ν

variable {E ν : α}

theorem gOf_ne (hE : E ≠ 0) (h1 : 1 + ν ≠ 0) : gOf E ν ≠ 0 := by
  unfold gOf; exact div_ne_zero hE (mul_ne_zero two_ne_zero h1)
theorem kOf_ne (hE : E ≠ 0) (h2 : 1 - 2 * ν ≠ 0) : kOf E ν ≠ 0 := by
  unfold kOf; exact div_ne_zero hE (mul_ne_zero three_ne_zero h2)
theorem lamOf_ne (hE : E ≠ 0) (hν : ν ≠ 0) (h1 : 1 + ν ≠ 0) (h2 : 1 - 2 * ν ≠ 0) : lamOf E ν ≠ 0 := by
  unfold lamOf; exact div_ne_zero (mul_ne_zero hE hν) (mul_ne_zero h1 h2)
theorem mOf_ne (hE : E ≠ 0) (h3 : 1 - ν ≠ 0) (h1 : 1 + ν ≠ 0) (h2 : 1 - 2 * ν ≠ 0) : mOf E ν ≠ 0 := by
  unfold mOf; exact div_ne_zero (mul_ne_zero hE h3) (mul_ne_zero h1 h2)
/-- `field_simp` writes 1 - 2ν as 1 - ν·2 -/
theorem ne_comm2 (h2 : 1 - 2 * ν ≠ 0) : 1 - ν * 2 ≠ 0 := by rwa [mul_comm] at h2

/-- closes one entry of `IsCompliance`: clear the denominators that are moduli (atoms), then unfold the
moduli and clear the rest -/
macro "moduli_close" : tactic => `(tactic|
  ((try field_simp) <;> (try simp only [gOf, lamOf, kOf, mOf]) <;> (try field_simp) <;> (try ring)))

theorem moduli_E_nu_spec (hE : E ≠ 0) (h1 : 1 + ν ≠ 0) :
    IsCompliance E ν (moduli_E_nu_s11 E ν) (moduli_E_nu_s12 E ν) (moduli_E_nu_s44 E ν) := by
  refine ⟨?_, ?_, ?_⟩ <;> simp only [moduli_E_nu_s11, moduli_E_nu_s12, moduli_E_nu_s44, npow] <;> moduli_close

theorem moduli_E_G_spec (hE : E ≠ 0) (h1 : 1 + ν ≠ 0) :
    IsCompliance E ν (moduli_E_G_s11 E (gOf E ν)) (moduli_E_G_s12 E (gOf E ν)) (moduli_E_G_s44 E (gOf E ν)) := by
  have hG := gOf_ne hE h1
  refine ⟨?_, ?_, ?_⟩ <;> simp only [moduli_E_G_s11, moduli_E_G_s12, moduli_E_G_s44, npow] <;> moduli_close

theorem moduli_E_K_spec (hE : E ≠ 0) (h1 : 1 + ν ≠ 0) (h2 : 1 - 2 * ν ≠ 0) :
    IsCompliance E ν (moduli_E_K_s11 E (kOf E ν)) (moduli_E_K_s12 E (kOf E ν)) (moduli_E_K_s44 E (kOf E ν)) := by
  have h2' := ne_comm2 h2
  have hG := gOf_ne hE h1
  have hK := kOf_ne hE h2
  have hd : 9 * kOf E ν - E ≠ 0 := by
    have : 9 * kOf E ν - E = 2 * E * (1 + ν) / (1 - 2 * ν) := by unfold kOf; field_simp; ring
    rw [this]; exact div_ne_zero (mul_ne_zero (mul_ne_zero two_ne_zero hE) h1) h2
  refine ⟨?_, ?_, ?_⟩ <;> simp only [moduli_E_K_s11, moduli_E_K_s12, moduli_E_K_s44, npow] <;> moduli_close

theorem moduli_nu_G_spec (hE : E ≠ 0) (h1 : 1 + ν ≠ 0) :
    IsCompliance E ν (moduli_nu_G_s11 ν (gOf E ν)) (moduli_nu_G_s12 ν (gOf E ν)) (moduli_nu_G_s44 ν (gOf E ν)) := by
  have hG := gOf_ne hE h1
  refine ⟨?_, ?_, ?_⟩ <;> simp only [moduli_nu_G_s11, moduli_nu_G_s12, moduli_nu_G_s44, npow] <;> moduli_close

theorem moduli_nu_lam_spec (hE : E ≠ 0) (hν : ν ≠ 0) (h1 : 1 + ν ≠ 0) (h2 : 1 - 2 * ν ≠ 0) :
    IsCompliance E ν (moduli_nu_lam_s11 ν (lamOf E ν)) (moduli_nu_lam_s12 ν (lamOf E ν)) (moduli_nu_lam_s44 ν (lamOf E ν)) := by
  have h2' := ne_comm2 h2
  have hG := gOf_ne hE h1
  have hL := lamOf_ne hE hν h1 h2
  refine ⟨?_, ?_, ?_⟩ <;> simp only [moduli_nu_lam_s11, moduli_nu_lam_s12, moduli_nu_lam_s44, npow] <;> moduli_close

theorem moduli_nu_K_spec (hE : E ≠ 0) (h1 : 1 + ν ≠ 0) (h2 : 1 - 2 * ν ≠ 0) :
    IsCompliance E ν (moduli_nu_K_s11 ν (kOf E ν)) (moduli_nu_K_s12 ν (kOf E ν)) (moduli_nu_K_s44 ν (kOf E ν)) := by
  have h2' := ne_comm2 h2
  have hG := gOf_ne hE h1
  have hK := kOf_ne hE h2
  refine ⟨?_, ?_, ?_⟩ <;> simp only [moduli_nu_K_s11, moduli_nu_K_s12, moduli_nu_K_s44, npow] <;> moduli_close

theorem moduli_nu_M_spec (hE : E ≠ 0) (h3 : 1 - ν ≠ 0) (h1 : 1 + ν ≠ 0) (h2 : 1 - 2 * ν ≠ 0) :
    IsCompliance E ν (moduli_nu_M_s11 ν (mOf E ν)) (moduli_nu_M_s12 ν (mOf E ν)) (moduli_nu_M_s44 ν (mOf E ν)) := by
  have h2' := ne_comm2 h2
  have hG := gOf_ne hE h1
  have hM := mOf_ne hE h3 h1 h2
  refine ⟨?_, ?_, ?_⟩ <;> simp only [moduli_nu_M_s11, moduli_nu_M_s12, moduli_nu_M_s44, npow] <;> moduli_close

theorem moduli_G_lam_spec (hE : E ≠ 0) (h1 : 1 + ν ≠ 0) (h2 : 1 - 2 * ν ≠ 0) :
    IsCompliance E ν (moduli_G_lam_s11 (gOf E ν) (lamOf E ν)) (moduli_G_lam_s12 (gOf E ν) (lamOf E ν)) (moduli_G_lam_s44 (gOf E ν) (lamOf E ν)) := by
  have h2' := ne_comm2 h2
  have hG := gOf_ne hE h1
  have hd : lamOf E ν + gOf E ν ≠ 0 := by
    have : lamOf E ν + gOf E ν = E / (2 * (1 + ν) * (1 - 2 * ν)) := by unfold lamOf gOf; field_simp; ring
    rw [this]; exact div_ne_zero hE (mul_ne_zero (mul_ne_zero two_ne_zero h1) h2)
  have hn : 3 * lamOf E ν + 2 * gOf E ν ≠ 0 := by
    have : 3 * lamOf E ν + 2 * gOf E ν = E / (1 - 2 * ν) := by unfold lamOf gOf; field_simp; ring
    rw [this]; exact div_ne_zero hE h2
  refine ⟨?_, ?_, ?_⟩ <;> simp only [moduli_G_lam_s11, moduli_G_lam_s12, moduli_G_lam_s44, npow] <;> moduli_close

theorem moduli_G_K_spec (hE : E ≠ 0) (h1 : 1 + ν ≠ 0) (h2 : 1 - 2 * ν ≠ 0) :
    IsCompliance E ν (moduli_G_K_s11 (gOf E ν) (kOf E ν)) (moduli_G_K_s12 (gOf E ν) (kOf E ν)) (moduli_G_K_s44 (gOf E ν) (kOf E ν)) := by
  have h2' := ne_comm2 h2
  have hG := gOf_ne hE h1
  have hK := kOf_ne hE h2
  have hd : 3 * kOf E ν + gOf E ν ≠ 0 := by
    have : 3 * kOf E ν + gOf E ν = 3 * E / (2 * (1 + ν) * (1 - 2 * ν)) := by unfold kOf gOf; field_simp; ring
    rw [this]; exact div_ne_zero (mul_ne_zero three_ne_zero hE) (mul_ne_zero (mul_ne_zero two_ne_zero h1) h2)
  refine ⟨?_, ?_, ?_⟩ <;> simp only [moduli_G_K_s11, moduli_G_K_s12, moduli_G_K_s44, npow] <;> moduli_close

theorem moduli_G_M_spec (hE : E ≠ 0) (h1 : 1 + ν ≠ 0) (h2 : 1 - 2 * ν ≠ 0) :
    IsCompliance E ν (moduli_G_M_s11 (gOf E ν) (mOf E ν)) (moduli_G_M_s12 (gOf E ν) (mOf E ν)) (moduli_G_M_s44 (gOf E ν) (mOf E ν)) := by
  have h2' := ne_comm2 h2
  have hG := gOf_ne hE h1
  have hd : mOf E ν - gOf E ν ≠ 0 := by
    have : mOf E ν - gOf E ν = E / (2 * (1 + ν) * (1 - 2 * ν)) := by unfold mOf gOf; field_simp; ring
    rw [this]; exact div_ne_zero hE (mul_ne_zero (mul_ne_zero two_ne_zero h1) h2)
  have hd2 : 2 * mOf E ν - 2 * gOf E ν ≠ 0 := by
    have : 2 * mOf E ν - 2 * gOf E ν = 2 * (mOf E ν - gOf E ν) := by ring
    rw [this]; exact mul_ne_zero two_ne_zero hd
  have hn : 3 * mOf E ν - 4 * gOf E ν ≠ 0 := by
    have : 3 * mOf E ν - 4 * gOf E ν = E / (1 - 2 * ν) := by unfold mOf gOf; field_simp; ring
    rw [this]; exact div_ne_zero hE h2
  refine ⟨?_, ?_, ?_⟩ <;> simp only [moduli_G_M_s11, moduli_G_M_s12, moduli_G_M_s44, npow] <;> moduli_close

theorem moduli_lam_K_spec (hE : E ≠ 0) (h1 : 1 + ν ≠ 0) (h2 : 1 - 2 * ν ≠ 0) :
    IsCompliance E ν (moduli_lam_K_s11 (lamOf E ν) (kOf E ν)) (moduli_lam_K_s12 (lamOf E ν) (kOf E ν)) (moduli_lam_K_s44 (lamOf E ν) (kOf E ν)) := by
  have h2' := ne_comm2 h2
  have hG := gOf_ne hE h1
  have hK := kOf_ne hE h2
  have hd : 3 * kOf E ν - lamOf E ν ≠ 0 := by
    have : 3 * kOf E ν - lamOf E ν = E / ((1 + ν) * (1 - 2 * ν)) := by unfold kOf lamOf; field_simp; ring
    rw [this]; exact div_ne_zero hE (mul_ne_zero h1 h2)
  have hn : kOf E ν - lamOf E ν ≠ 0 := by
    have : kOf E ν - lamOf E ν = E / (3 * (1 + ν)) := by unfold kOf lamOf; field_simp; ring
    rw [this]; exact div_ne_zero hE (mul_ne_zero three_ne_zero h1)
  refine ⟨?_, ?_, ?_⟩ <;> simp only [moduli_lam_K_s11, moduli_lam_K_s12, moduli_lam_K_s44, npow] <;> moduli_close

theorem moduli_lam_M_spec (hE : E ≠ 0) (h1 : 1 + ν ≠ 0) (h2 : 1 - 2 * ν ≠ 0) :
    IsCompliance E ν (moduli_lam_M_s11 (lamOf E ν) (mOf E ν)) (moduli_lam_M_s12 (lamOf E ν) (mOf E ν)) (moduli_lam_M_s44 (lamOf E ν) (mOf E ν)) := by
  have h2' := ne_comm2 h2
  have hG := gOf_ne hE h1
  have hd : mOf E ν + lamOf E ν ≠ 0 := by
    have : mOf E ν + lamOf E ν = E / ((1 + ν) * (1 - 2 * ν)) := by unfold mOf lamOf; field_simp; ring
    rw [this]; exact div_ne_zero hE (mul_ne_zero h1 h2)
  have hn : mOf E ν - lamOf E ν ≠ 0 := by
    have : mOf E ν - lamOf E ν = E / (1 + ν) := by unfold mOf lamOf; field_simp; ring
    rw [this]; exact div_ne_zero hE h1
  have hn2 : mOf E ν + 2 * lamOf E ν ≠ 0 := by
    have : mOf E ν + 2 * lamOf E ν = E / (1 - 2 * ν) := by unfold mOf lamOf; field_simp; ring
    rw [this]; exact div_ne_zero hE h2
  refine ⟨?_, ?_, ?_⟩ <;> simp only [moduli_lam_M_s11, moduli_lam_M_s12, moduli_lam_M_s44, npow] <;> moduli_close

theorem moduli_K_M_spec (hE : E ≠ 0) (h1 : 1 + ν ≠ 0) (h2 : 1 - 2 * ν ≠ 0) :
    IsCompliance E ν (moduli_K_M_s11 (kOf E ν) (mOf E ν)) (moduli_K_M_s12 (kOf E ν) (mOf E ν)) (moduli_K_M_s44 (kOf E ν) (mOf E ν)) := by
  have h2' := ne_comm2 h2
  have hG := gOf_ne hE h1
  have hK := kOf_ne hE h2
  have hd : 3 * kOf E ν + mOf E ν ≠ 0 := by
    have : 3 * kOf E ν + mOf E ν = 2 * E / ((1 + ν) * (1 - 2 * ν)) := by unfold kOf mOf; field_simp; ring
    rw [this]; exact div_ne_zero (mul_ne_zero two_ne_zero hE) (mul_ne_zero h1 h2)
  have hn : mOf E ν - kOf E ν ≠ 0 := by
    have : mOf E ν - kOf E ν = 2 * E / (3 * (1 + ν)) := by unfold kOf mOf; field_simp; ring
    rw [this]; exact div_ne_zero (mul_ne_zero two_ne_zero hE) (mul_ne_zero three_ne_zero h1)
  refine ⟨?_, ?_, ?_⟩ <;> simp only [moduli_K_M_s11, moduli_K_M_s12, moduli_K_M_s44, npow] <;> moduli_close

end moduli

end KawinV.Props.C16
