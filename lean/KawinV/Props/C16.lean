/-
C16 — property theorems (stub; nothing proved yet).
-/
namespace KawinV.Props.C16
end KawinV.Props.C16
