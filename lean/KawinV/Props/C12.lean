/-
C12 — property theorems (stub; nothing proved yet).
-/
namespace KawinV.Props.C12
end KawinV.Props.C12
