/-
C12 — driving force, phase boundary and critical radius agree with each other.

Theorems about the definitions REGENERATED from the kawin sources (`KawinV.Gen.C12`, file Gen/C12GT.lean,
rewritten from /repo by tools/corr/C12.py on every run: Gibbs–Thomson contribution, volumetric driving force,
critical-radius proposal, the multicomponent growth law and what `_singleGrowthMulti` hands to it, the binary
supersaturation growth law) and about the hand model `KawinV.IC` (Model/ICScan.lean: sentinel scan of
`_interfacialCompositionFromEq`, `RdrivingForceIndex`, prefix fill, the `Rmin` clamp).

`α` is any linearly ordered field with an arbitrary interpretation of the transcendental atoms.
What is NOT proved here (thermodynamic facts about pycalphad + the database) enters only as explicit hypotheses
(`DF (xα g) = g + δ`, monotonicity) and is monitored by the oracle of tools/corr/C12.py.
-/
import KawinV.Model.ICScan
import Mathlib.Tactic.Ring
import Mathlib.Tactic.Linarith
import Mathlib.Tactic.FieldSimp
import Mathlib.Tactic.NormNum
import Mathlib.Tactic.Positivity
import Mathlib.Algebra.Order.Field.Basic

set_option linter.unusedSectionVars false
set_option linter.unusedVariables false
set_option linter.unusedSimpArgs false
set_option linter.style.longLine false

namespace KawinV.Props.C12
open KawinV KawinV.Gen.C12 KawinV.IC

section field
variable {α : Type} [Field α] [LinearOrder α] [IsStrictOrderedRing α] [Trans α]

/-! ### sign helpers -/

theorem pos_mul_pos_iff {c t : α} (hc : 0 < c) : 0 < c * t ↔ 0 < t :=
  ⟨fun h => by
      by_contra h'
      have := mul_nonpos_of_nonneg_of_nonpos hc.le (not_lt.mp h')
      exact absurd h (not_lt.mpr this),
   fun h => mul_pos hc h⟩

theorem pos_mul_neg_iff {c t : α} (hc : 0 < c) : c * t < 0 ↔ t < 0 :=
  ⟨fun h => by
      by_contra h'
      have := mul_nonneg hc.le (not_lt.mp h')
      exact absurd h (not_lt.mpr this),
   fun h => mul_neg_of_pos_of_neg hc h⟩

theorem pos_mul_eq_zero_iff {c t : α} (hc : 0 < c) : c * t = 0 ↔ t = 0 := by
  simp [hc.ne']

/-! ### Gibbs–Thomson at the critical radius -/

/-- the traced Gibbs–Thomson contribution is `Vm·(E + 2fγ/R)` -/
theorem gExtra_closed (Vm E f γ R : α) : gExtra Vm E f γ R = Vm * (E + 2 * f * γ / R) := by
  simp only [gExtra]

/-- the traced volumetric driving force is `dG/Vm − E` and the traced proposal is `2fγ/dGv` -/
theorem volDG_closed (dG Vm E : α) : volDG dG Vm E = dG / Vm - E := by
  simp only [volDG]

theorem rcritProposal_closed (f γ dGv : α) : rcritProposal f γ dGv = 2 * f * γ / dGv := by
  simp only [rcritProposal]

/-- **Gibbs–Thomson at the critical radius**: the Gibbs–Thomson energy of a particle of the (unclamped)
critical radius `2fγ/dG_vol`, `dG_vol = dG/Vm − E`, equals the chemical driving force. -/
theorem gibbsThomson_at_Rcrit (dG Vm E f γ : α) (hVm : Vm ≠ 0) (hf : f ≠ 0) (hγ : γ ≠ 0)
    (hd : volDG dG Vm E ≠ 0) :
    dG - gExtra Vm E f γ (rcritProposal f γ (volDG dG Vm E)) = 0 := by
  simp only [gExtra, rcritProposal, volDG] at *
  have h2 : (2 : α) * f * γ ≠ 0 := by positivity
  field_simp
  ring

/-- driving force minus Gibbs–Thomson energy, factored: `Vm/R · (dG_vol·R − 2fγ)` -/
theorem dG_sub_gExtra (dG Vm E f γ R : α) (hVm : Vm ≠ 0) (hR : R ≠ 0) :
    dG - gExtra Vm E f γ R = Vm / R * (volDG dG Vm E * R - 2 * f * γ) := by
  simp only [gExtra, volDG]
  field_simp
  ring

/-- the Gibbs–Thomson energy falls strictly with the radius -/
theorem gExtra_strictAnti (Vm E f γ R₁ R₂ : α) (hVm : 0 < Vm) (hf : 0 < f) (hγ : 0 < γ)
    (h1 : 0 < R₁) (h12 : R₁ < R₂) : gExtra Vm E f γ R₂ < gExtra Vm E f γ R₁ := by
  simp only [gExtra]
  have hc : 0 < 2 * f * γ := by positivity
  have : 2 * f * γ / R₂ < 2 * f * γ / R₁ := div_lt_div_of_pos_left hc h1 h12
  have h3 : E + 2 * f * γ / R₂ < E + 2 * f * γ / R₁ := by linarith
  exact mul_lt_mul_of_pos_left h3 hVm

/-! ### multicomponent growth law: sign change exactly at the critical radius -/

/-- the growth law applied to the traced Gibbs–Thomson term, factored with a positive coefficient -/
theorem growthMulti_factored (mc R dG Vm E f γ : α) (hVm : Vm ≠ 0) (hR : R ≠ 0) :
    growthMulti mc R dG (gExtra Vm E f γ R)
      = mc * Vm / (R * R) * (volDG dG Vm E * R - 2 * f * γ) := by
  simp only [growthMulti, dG_sub_gExtra dG Vm E f γ R hVm hR]
  field_simp

theorem crossing_pos_iff (f γ dGv R : α) (hd : 0 < dGv) :
    0 < dGv * R - 2 * f * γ ↔ rcritProposal f γ dGv < R := by
  rw [rcritProposal_closed, div_lt_iff₀ hd]
  constructor <;> intro h <;> linarith

theorem crossing_neg_iff (f γ dGv R : α) (hd : 0 < dGv) :
    dGv * R - 2 * f * γ < 0 ↔ R < rcritProposal f γ dGv := by
  rw [rcritProposal_closed, lt_div_iff₀ hd]
  constructor <;> intro h <;> linarith

theorem crossing_zero_iff (f γ dGv R : α) (hd : 0 < dGv) :
    dGv * R - 2 * f * γ = 0 ↔ R = rcritProposal f γ dGv := by
  rw [rcritProposal_closed, eq_div_iff hd.ne']
  constructor <;> intro h <;> linarith

/-- **multicomponent growth sign**: `growth(R) = (mc/R)(dG − gExtra(R))` is positive exactly for `R > Rcrit` … -/
theorem growthMulti_pos_iff (mc R dG Vm E f γ : α) (hmc : 0 < mc) (hR : 0 < R) (hVm : 0 < Vm)
    (hd : 0 < volDG dG Vm E) :
    0 < growthMulti mc R dG (gExtra Vm E f γ R) ↔ rcritProposal f γ (volDG dG Vm E) < R := by
  rw [growthMulti_factored mc R dG Vm E f γ hVm.ne' hR.ne',
    pos_mul_pos_iff (by positivity), crossing_pos_iff f γ _ R hd]

/-- … negative exactly for `R < Rcrit` … -/
theorem growthMulti_neg_iff (mc R dG Vm E f γ : α) (hmc : 0 < mc) (hR : 0 < R) (hVm : 0 < Vm)
    (hd : 0 < volDG dG Vm E) :
    growthMulti mc R dG (gExtra Vm E f γ R) < 0 ↔ R < rcritProposal f γ (volDG dG Vm E) := by
  rw [growthMulti_factored mc R dG Vm E f γ hVm.ne' hR.ne',
    pos_mul_neg_iff (by positivity), crossing_neg_iff f γ _ R hd]

/-- … and zero exactly at `Rcrit`. -/
theorem growthMulti_zero_iff (mc R dG Vm E f γ : α) (hmc : 0 < mc) (hR : 0 < R) (hVm : 0 < Vm)
    (hd : 0 < volDG dG Vm E) :
    growthMulti mc R dG (gExtra Vm E f γ R) = 0 ↔ R = rcritProposal f γ (volDG dG Vm E) := by
  rw [growthMulti_factored mc R dG Vm E f γ hVm.ne' hR.ne',
    pos_mul_eq_zero_iff (by positivity), crossing_zero_iff f γ _ R hd]

/-! ### what the KWN model computes (`_singleGrowthMulti`, traced through the real `particleGibbs` and growth law)

`growthMultiKWN kf mc R dGv Vm Va E f γ` takes the RECORDED volumetric driving force `dGv = volDG dG Vm E`;
`Vm` is the molar volume of the precipitate, `Va` that of the matrix, which must not (and does not) enter: the
theorems hold for every `Va`.
Before the repair recorded in known_findings.txt the model handed `dGv·Vm` to the growth law although the
Gibbs–Thomson term of `particleGibbs` contains the strain energy as well, so `E` was subtracted twice
(`growthMultiKWN_before`); the regenerated definition now adds the strain energy back. -/

/-- the regenerated KWN growth rate, factored; `kf` = kinetic shape factor -/
theorem growthMultiKWN_factored (kf mc R dG Vm Va E f γ : α) (hVm : Vm ≠ 0) (hR : R ≠ 0) :
    growthMultiKWN kf mc R (volDG dG Vm E) Vm Va E f γ
      = kf * mc * Vm / (R * R) * (volDG dG Vm E * R - 2 * f * γ) := by
  simp only [growthMultiKWN, volDG]
  field_simp
  ring

/-- **growth sign in the KWN model, multicomponent**: with `mc > 0`, kinetic factor `> 0`, positive volumetric
driving force: classes above the (unclamped) critical radius grow … -/
theorem kwn_multi_pos_iff (kf mc R dG Vm Va E f γ : α) (hkf : 0 < kf) (hmc : 0 < mc) (hR : 0 < R) (hVm : 0 < Vm)
    (hd : 0 < volDG dG Vm E) :
    0 < growthMultiKWN kf mc R (volDG dG Vm E) Vm Va E f γ ↔ rcritProposal f γ (volDG dG Vm E) < R := by
  rw [growthMultiKWN_factored kf mc R dG Vm Va E f γ hVm.ne' hR.ne',
    pos_mul_pos_iff (by positivity), crossing_pos_iff f γ _ R hd]

/-- … classes below shrink … -/
theorem kwn_multi_neg_iff (kf mc R dG Vm Va E f γ : α) (hkf : 0 < kf) (hmc : 0 < mc) (hR : 0 < R) (hVm : 0 < Vm)
    (hd : 0 < volDG dG Vm E) :
    growthMultiKWN kf mc R (volDG dG Vm E) Vm Va E f γ < 0 ↔ R < rcritProposal f γ (volDG dG Vm E) := by
  rw [growthMultiKWN_factored kf mc R dG Vm Va E f γ hVm.ne' hR.ne',
    pos_mul_neg_iff (by positivity), crossing_neg_iff f γ _ R hd]

/-- … and the growth rate vanishes exactly at the critical radius. -/
theorem kwn_multi_zero_iff (kf mc R dG Vm Va E f γ : α) (hkf : 0 < kf) (hmc : 0 < mc) (hR : 0 < R) (hVm : 0 < Vm)
    (hd : 0 < volDG dG Vm E) :
    growthMultiKWN kf mc R (volDG dG Vm E) Vm Va E f γ = 0 ↔ R = rcritProposal f γ (volDG dG Vm E) := by
  rw [growthMultiKWN_factored kf mc R dG Vm Va E f γ hVm.ne' hR.ne',
    pos_mul_eq_zero_iff (by positivity), crossing_zero_iff f γ _ R hd]

/-- **the kinetic shape factor does not change the sign**: the KWN growth rate is `kf` times the growth law
evaluated with the chemical driving force -/
theorem kwn_multi_eq_kf_mul (kf mc R dG Vm Va E f γ : α) (hVm : Vm ≠ 0) (hR : R ≠ 0) :
    growthMultiKWN kf mc R (volDG dG Vm E) Vm Va E f γ = kf * growthMulti mc R dG (gExtra Vm E f γ R) := by
  rw [growthMultiKWN_factored kf mc R dG Vm Va E f γ hVm hR, growthMulti_factored mc R dG Vm E f γ hVm hR]
  ring

theorem kineticFactor_keeps_sign (kf g : α) (hkf : 0 < kf) :
    (0 < kf * g ↔ 0 < g) ∧ (kf * g < 0 ↔ g < 0) ∧ (kf * g = 0 ↔ g = 0) :=
  ⟨pos_mul_pos_iff hkf, pos_mul_neg_iff hkf, pos_mul_eq_zero_iff hkf⟩

/-- the formula `_singleGrowthMulti` evaluated BEFORE the repair (hand copy of the earlier trace):
`dGv·Vm − gExtra`, i.e. the strain energy subtracted twice -/
def growthMultiKWN_before (kf mc R dGv Vm E f γ : α) : α :=
  kf * ((mc / R) * ((dGv * Vm) - (Vm * (E + ((((2 : α) * f) * γ) / R)))))

/-- without strain energy the earlier formula agrees with the critical radius (this part of the claim held
before the repair as well) -/
theorem kwn_multi_pos_iff_partial (kf mc R dG Vm f γ : α) (hkf : 0 < kf) (hmc : 0 < mc) (hR : 0 < R) (hVm : 0 < Vm)
    (hd : 0 < volDG dG Vm 0) :
    0 < growthMultiKWN_before kf mc R (volDG dG Vm 0) Vm 0 f γ ↔ rcritProposal f γ (volDG dG Vm 0) < R := by
  have : growthMultiKWN_before kf mc R (volDG dG Vm 0) Vm 0 f γ
      = kf * mc * Vm / (R * R) * (volDG dG Vm 0 * R - 2 * f * γ) := by
    simp only [growthMultiKWN_before, volDG]
    have := hVm.ne'; have := hR.ne'
    field_simp
    ring
  rw [this, pos_mul_pos_iff (by positivity), crossing_pos_iff f γ _ R hd]

/-- the earlier formula changes sign at `2fγ/(dG_vol − E)`, not at `Rcrit = 2fγ/dG_vol` -/
theorem kwn_before_zero_iff (kf mc R dGv Vm E f γ : α) (hkf : 0 < kf) (hmc : 0 < mc) (hR : 0 < R) (hVm : 0 < Vm)
    (hd : 0 < dGv - E) :
    growthMultiKWN_before kf mc R dGv Vm E f γ = 0 ↔ R = rcritProposal f γ (dGv - E) := by
  have : growthMultiKWN_before kf mc R dGv Vm E f γ
      = kf * mc * Vm / (R * R) * ((dGv - E) * R - 2 * f * γ) := by
    simp only [growthMultiKWN_before]
    have := hVm.ne'; have := hR.ne'
    field_simp
    ring
  rw [this, pos_mul_eq_zero_iff (by positivity), crossing_zero_iff f γ _ R hd]

/-- an arbitrary interpretation of the transcendental atoms over ℚ, used only to state concrete witnesses
(none of the C12 definitions uses a transcendental function; `gcrit` uses π, which plays no role here) -/
def ratTrans : Trans ℚ where
  pi := 3
  sqrt := id
  cbrt := id
  exp := id
  log := id
  sin := id
  cos := id
  tan := id
  arcsin := id
  arccos := id
  arctan := id
  tanh := id
  arctanh := id
  arccosh := id
  pow := fun a _ => a
  abs := fun a => |a|

attribute [local instance] ratTrans

/-- **witness of the defect** (earlier formula): `Vm = f = γ = E = 1`, chemical driving force 3, so `dG_vol = 2`,
`Rcrit = 1`; the class of radius 3/2 is larger than the critical radius and SHRINKS. -/
theorem strain_counted_twice_before :
    rcritProposal (1 : ℚ) 1 (volDG 3 1 1) < 3 / 2 ∧
    growthMultiKWN_before (1 : ℚ) 1 (3 / 2) (volDG 3 1 1) 1 1 1 1 < 0 := by
  simp only [rcritProposal, volDG, growthMultiKWN_before]
  norm_num

/-! ### the clamp `Rcrit = max(2fγ/dG_vol, Rmin)` made explicit -/

theorem rcritUsed_unclamped (f γ dGv Rmin : α) (hd : 0 < dGv) (h : Rmin ≤ rcritProposal f γ dGv) :
    rcritUsed f γ dGv Rmin = rcritProposal f γ dGv := by
  simp [rcritUsed, hd, not_lt.mpr h]

theorem rcritUsed_clamped (f γ dGv Rmin : α) (hd : 0 < dGv) (h : rcritProposal f γ dGv < Rmin) :
    rcritUsed f γ dGv Rmin = Rmin := by
  simp [rcritUsed, hd, h]

theorem rcritUsed_no_driving_force (f γ dGv Rmin : α) (hd : dGv ≤ 0) : rcritUsed f γ dGv Rmin = 0 := by
  simp [rcritUsed, not_lt.mpr hd]

/-- the recorded critical radius is never below `Rmin` when the driving force is positive -/
theorem rcritUsed_ge_Rmin (f γ dGv Rmin : α) (hd : 0 < dGv) : Rmin ≤ rcritUsed f γ dGv Rmin := by
  by_cases h : rcritProposal f γ dGv < Rmin
  · rw [rcritUsed_clamped f γ dGv Rmin hd h]
  · rw [rcritUsed_unclamped f γ dGv Rmin hd (not_lt.mp h)]; exact not_lt.mp h

/-- **unclamped case = the property's claim**: if the proposal is not below `Rmin`, growth changes sign exactly
at the recorded critical radius -/
theorem kwn_multi_sign_at_recorded_Rcrit (kf mc R dG Vm Va E f γ Rmin : α) (hkf : 0 < kf) (hmc : 0 < mc) (hR : 0 < R)
    (hVm : 0 < Vm) (hd : 0 < volDG dG Vm E) (hun : Rmin ≤ rcritProposal f γ (volDG dG Vm E)) :
    (0 < growthMultiKWN kf mc R (volDG dG Vm E) Vm Va E f γ ↔ rcritUsed f γ (volDG dG Vm E) Rmin < R) ∧
    (growthMultiKWN kf mc R (volDG dG Vm E) Vm Va E f γ < 0 ↔ R < rcritUsed f γ (volDG dG Vm E) Rmin) := by
  rw [rcritUsed_unclamped f γ _ Rmin hd hun]
  exact ⟨kwn_multi_pos_iff kf mc R dG Vm Va E f γ hkf hmc hR hVm hd, kwn_multi_neg_iff kf mc R dG Vm Va E f γ hkf hmc hR hVm hd⟩

/-- **clamp, explicit**: if the critical radius was raised to `Rmin`, the classes between `2fγ/dG_vol` and `Rmin`
are BELOW the recorded critical radius and still grow (the property's claim concerns the unclamped case) -/
theorem clamped_classes_between_grow (kf mc R dG Vm Va E f γ Rmin : α) (hkf : 0 < kf) (hmc : 0 < mc) (hR : 0 < R)
    (hVm : 0 < Vm) (hd : 0 < volDG dG Vm E) (h1 : rcritProposal f γ (volDG dG Vm E) < R) (h2 : R < Rmin) :
    R < rcritUsed f γ (volDG dG Vm E) Rmin ∧ 0 < growthMultiKWN kf mc R (volDG dG Vm E) Vm Va E f γ := by
  rw [rcritUsed_clamped f γ _ Rmin hd (lt_trans h1 h2)]
  exact ⟨h2, (kwn_multi_pos_iff kf mc R dG Vm Va E f γ hkf hmc hR hVm hd).mpr h1⟩

/-- concrete witness of the clamped situation: `2fγ/dG_vol = 1`, `Rmin = 3`, the class of radius 2 grows although
it is below the recorded critical radius 3 -/
theorem clamp_witness :
    rcritUsed (1 : ℚ) 1 (volDG 2 1 0) 3 = 3 ∧ (2 : ℚ) < rcritUsed (1 : ℚ) 1 (volDG 2 1 0) 3 ∧
    0 < growthMultiKWN (1 : ℚ) 1 2 (volDG 2 1 0) 1 7 0 1 1 := by
  refine ⟨?_, ?_, ?_⟩
  · simp only [rcritUsed, rcritProposal, volDG]; norm_num
  · simp only [rcritUsed, rcritProposal, volDG]; norm_num
  · exact (clamped_classes_between_grow (1 : ℚ) 1 2 2 1 7 0 1 1 3 one_pos one_pos two_pos one_pos
      (by simp only [volDG]; norm_num) (by simp only [rcritProposal, volDG]; norm_num) (by norm_num)).2

/-! ### the critical radius the KWN model records (`_calcNucleationRate`, traced on a real model object)

`rcritKWN f γ dG Vm E` is what `_calcNucleationRate` obtains from `nucleationBarrier` and stores in `pData.Rcrit`
(unclamped path), as a function of the chemical driving force; `f` and `E` are the shape factor and the strain energy
at the precipitate's (constant) aspect ratio — the same `f`, `E` that enter `gExtra`. -/

/-- the recorded critical radius is the proposal `2fγ/(dG/Vm − E)` with the precipitate's own shape factor -/
theorem rcritKWN_eq (f γ dG Vm E : α) : rcritKWN f γ dG Vm E = rcritProposal f γ (volDG dG Vm E) := by
  simp only [rcritKWN, rcritProposal, volDG]

/-- **Gibbs–Thomson at the recorded critical radius** -/
theorem gibbsThomson_at_recorded_Rcrit (dG Vm E f γ : α) (hVm : Vm ≠ 0) (hf : f ≠ 0) (hγ : γ ≠ 0)
    (hd : volDG dG Vm E ≠ 0) :
    dG - gExtra Vm E f γ (rcritKWN f γ dG Vm E) = 0 := by
  rw [rcritKWN_eq]; exact gibbsThomson_at_Rcrit dG Vm E f γ hVm hf hγ hd

/-- **the recorded critical radius is where the recorded growth rate changes sign** (multicomponent, unclamped):
both sides traced through the real model methods (`_calcNucleationRate`, `_singleGrowthMulti`) -/
theorem kwn_multi_sign_at_traced_Rcrit (kf mc R dG Vm Va E f γ : α) (hkf : 0 < kf) (hmc : 0 < mc) (hR : 0 < R)
    (hVm : 0 < Vm) (hd : 0 < volDG dG Vm E) :
    (0 < growthMultiKWN kf mc R (volDG dG Vm E) Vm Va E f γ ↔ rcritKWN f γ dG Vm E < R) ∧
    (growthMultiKWN kf mc R (volDG dG Vm E) Vm Va E f γ < 0 ↔ R < rcritKWN f γ dG Vm E) ∧
    (growthMultiKWN kf mc R (volDG dG Vm E) Vm Va E f γ = 0 ↔ R = rcritKWN f γ dG Vm E) := by
  rw [rcritKWN_eq]
  exact ⟨kwn_multi_pos_iff kf mc R dG Vm Va E f γ hkf hmc hR hVm hd, kwn_multi_neg_iff kf mc R dG Vm Va E f γ hkf hmc hR hVm hd,
    kwn_multi_zero_iff kf mc R dG Vm Va E f γ hkf hmc hR hVm hd⟩

/-! ### binary growth law: sign of the supersaturation -/

theorem growthBinary_factored (kf D eff x xa xb Va Vb R : α) (hden : Va * xb / Vb - xa ≠ 0) (heff : eff ≠ 0)
    (hR : R ≠ 0) :
    growthBinary kf D eff x xa xb Va Vb R = kf * D / ((Va * xb / Vb - xa) * (eff * R)) * (x - xa) := by
  simp only [growthBinary]
  field_simp

/-- **binary growth sign**: with `Vα·xβ/Vβ − xα > 0`, `D > 0`, `eff > 0`, kinetic factor `> 0`:
`sign(growth_i) = sign(x − xα_i)` -/
theorem growthBinary_pos_iff (kf D eff x xa xb Va Vb R : α) (hkf : 0 < kf) (hD : 0 < D) (heff : 0 < eff)
    (hR : 0 < R) (hden : 0 < Va * xb / Vb - xa) :
    0 < growthBinary kf D eff x xa xb Va Vb R ↔ xa < x := by
  rw [growthBinary_factored kf D eff x xa xb Va Vb R hden.ne' heff.ne' hR.ne', pos_mul_pos_iff (by positivity)]
  exact sub_pos

theorem growthBinary_neg_iff (kf D eff x xa xb Va Vb R : α) (hkf : 0 < kf) (hD : 0 < D) (heff : 0 < eff)
    (hR : 0 < R) (hden : 0 < Va * xb / Vb - xa) :
    growthBinary kf D eff x xa xb Va Vb R < 0 ↔ x < xa := by
  rw [growthBinary_factored kf D eff x xa xb Va Vb R hden.ne' heff.ne' hR.ne', pos_mul_neg_iff (by positivity)]
  exact sub_neg

theorem growthBinary_zero_iff (kf D eff x xa xb Va Vb R : α) (hkf : 0 < kf) (hD : 0 < D) (heff : 0 < eff)
    (hR : 0 < R) (hden : 0 < Va * xb / Vb - xa) :
    growthBinary kf D eff x xa xb Va Vb R = 0 ↔ x = xa := by
  rw [growthBinary_factored kf D eff x xa xb Va Vb R hden.ne' heff.ne' hR.ne', pos_mul_eq_zero_iff (by positivity)]
  exact sub_eq_zero

/-- the traced supersaturation has the sign of `x − xα` under the same denominator condition -/
theorem superSat_pos_iff (x xa xb Va Vb : α) (hden : 0 < Va * xb / Vb - xa) :
    0 < superSat x xa xb Va Vb ↔ xa < x := by
  simp only [superSat]
  rw [div_pos_iff_of_pos_right hden]
  exact sub_pos

/-! ### binary, conditional on the thermodynamic backend

`DF` = nucleation driving force as a function of the matrix composition, `xα` = interfacial matrix composition as
a function of the Gibbs–Thomson energy, both at the current temperature.  The hypotheses are exactly the
monitored clauses; `δ` is the documented offset (1 J/mol in the code, 0 for an exact backend). -/

/-- if the composition returned for `g` is where the driving force equals `g + δ` and the driving force does not
decrease with supersaturation, then a smaller Gibbs–Thomson energy than the driving force means an interfacial
composition below the matrix composition -/
theorem xalpha_lt_of_g_lt (DF xα : α → α) (δ : α) (hinv : ∀ g, DF (xα g) = g + δ)
    (hmono : ∀ a b, a ≤ b → DF a ≤ DF b) (x g : α) (hg : g + δ < DF x) : xα g < x := by
  by_contra h
  have := hmono x (xα g) (not_lt.mp h)
  rw [hinv g] at this
  exact absurd hg (not_lt.mpr this)

theorem xalpha_gt_of_g_gt (DF xα : α → α) (δ : α) (hinv : ∀ g, DF (xα g) = g + δ)
    (hmono : ∀ a b, a ≤ b → DF a ≤ DF b) (x g : α) (hg : DF x < g + δ) : x < xα g := by
  by_contra h
  have := hmono (xα g) x (not_lt.mp h)
  rw [hinv g] at this
  exact absurd hg (not_lt.mpr this)

/-- **binary, conditional, with the offset**: a class whose Gibbs–Thomson energy (plus offset) is below the driving
force grows, one above it shrinks -/
theorem binary_conditional_offset (DF xα : α → α) (δ : α) (hinv : ∀ g, DF (xα g) = g + δ)
    (hmono : ∀ a b, a ≤ b → DF a ≤ DF b)
    (kf D eff x xb Va Vb Vm E f γ R : α) (hkf : 0 < kf) (hD : 0 < D) (heff : 0 < eff) (hR : 0 < R)
    (hden : 0 < Va * xb / Vb - xα (gExtra Vm E f γ R)) :
    (gExtra Vm E f γ R + δ < DF x → 0 < growthBinary kf D eff x (xα (gExtra Vm E f γ R)) xb Va Vb R) ∧
    (DF x < gExtra Vm E f γ R + δ → growthBinary kf D eff x (xα (gExtra Vm E f γ R)) xb Va Vb R < 0) :=
  ⟨fun h => (growthBinary_pos_iff kf D eff x _ xb Va Vb R hkf hD heff hR hden).mpr
      (xalpha_lt_of_g_lt DF xα δ hinv hmono x _ h),
   fun h => (growthBinary_neg_iff kf D eff x _ xb Va Vb R hkf hD heff hR hden).mpr
      (xalpha_gt_of_g_gt DF xα δ hinv hmono x _ h)⟩

/-- the Gibbs–Thomson energy at the critical radius computed from `DF x` is `DF x` -/
theorem gExtra_at_Rcrit (dG Vm E f γ : α) (hVm : Vm ≠ 0) (hf : f ≠ 0) (hγ : γ ≠ 0) (hd : volDG dG Vm E ≠ 0) :
    gExtra Vm E f γ (rcritProposal f γ (volDG dG Vm E)) = dG := by
  have := gibbsThomson_at_Rcrit dG Vm E f γ hVm hf hγ hd
  linarith

/-- **binary, conditional** (exact backend, `δ = 0`): IF `DF (xα g) = g` and `DF` is monotone THEN size classes
above `Rcrit = 2fγ/(DF x / Vm − E)` grow … -/
theorem binary_above_Rcrit_grows (DF xα : α → α) (hinv : ∀ g, DF (xα g) = g) (hmono : ∀ a b, a ≤ b → DF a ≤ DF b)
    (kf D eff x xb Va Vb Vm E f γ R : α) (hkf : 0 < kf) (hD : 0 < D) (heff : 0 < eff)
    (hVm : 0 < Vm) (hf : 0 < f) (hγ : 0 < γ) (hd : 0 < volDG (DF x) Vm E)
    (hR : rcritProposal f γ (volDG (DF x) Vm E) < R)
    (hden : 0 < Va * xb / Vb - xα (gExtra Vm E f γ R)) :
    0 < growthBinary kf D eff x (xα (gExtra Vm E f γ R)) xb Va Vb R := by
  have hRc : 0 < rcritProposal f γ (volDG (DF x) Vm E) := by
    rw [rcritProposal_closed]; positivity
  have hlt := gExtra_strictAnti Vm E f γ _ R hVm hf hγ hRc hR
  rw [gExtra_at_Rcrit (DF x) Vm E f γ hVm.ne' hf.ne' hγ.ne' hd.ne'] at hlt
  exact (binary_conditional_offset DF xα 0 (by simpa using hinv) hmono kf D eff x xb Va Vb Vm E f γ R hkf hD heff
    (lt_trans hRc hR) hden).1 (by simpa using hlt)

/-- … and size classes below `Rcrit` shrink. -/
theorem binary_below_Rcrit_shrinks (DF xα : α → α) (hinv : ∀ g, DF (xα g) = g) (hmono : ∀ a b, a ≤ b → DF a ≤ DF b)
    (kf D eff x xb Va Vb Vm E f γ R : α) (hkf : 0 < kf) (hD : 0 < D) (heff : 0 < eff)
    (hVm : 0 < Vm) (hf : 0 < f) (hγ : 0 < γ) (hd : 0 < volDG (DF x) Vm E)
    (hR0 : 0 < R) (hR : R < rcritProposal f γ (volDG (DF x) Vm E))
    (hden : 0 < Va * xb / Vb - xα (gExtra Vm E f γ R)) :
    growthBinary kf D eff x (xα (gExtra Vm E f γ R)) xb Va Vb R < 0 := by
  have hlt := gExtra_strictAnti Vm E f γ R _ hVm hf hγ hR0 hR
  rw [gExtra_at_Rcrit (DF x) Vm E f γ hVm.ne' hf.ne' hγ.ne' hd.ne'] at hlt
  exact (binary_conditional_offset DF xα 0 (by simpa using hinv) hmono kf D eff x xb Va Vb Vm E f γ R hkf hD heff
    hR0 hden).2 (by simpa using hlt)

/-- the binary conditional stated against the critical radius `_calcNucleationRate` records -/
theorem binary_sign_at_traced_Rcrit (DF xα : α → α) (hinv : ∀ g, DF (xα g) = g) (hmono : ∀ a b, a ≤ b → DF a ≤ DF b)
    (kf D eff x xb Va Vb Vm E f γ R : α) (hkf : 0 < kf) (hD : 0 < D) (heff : 0 < eff)
    (hVm : 0 < Vm) (hf : 0 < f) (hγ : 0 < γ) (hd : 0 < volDG (DF x) Vm E) (hR0 : 0 < R)
    (hden : 0 < Va * xb / Vb - xα (gExtra Vm E f γ R)) :
    (rcritKWN f γ (DF x) Vm E < R → 0 < growthBinary kf D eff x (xα (gExtra Vm E f γ R)) xb Va Vb R) ∧
    (R < rcritKWN f γ (DF x) Vm E → growthBinary kf D eff x (xα (gExtra Vm E f γ R)) xb Va Vb R < 0) := by
  rw [rcritKWN_eq]
  exact ⟨fun h => binary_above_Rcrit_grows DF xα hinv hmono kf D eff x xb Va Vb Vm E f γ R hkf hD heff hVm hf hγ hd h hden,
    fun h => binary_below_Rcrit_shrinks DF xα hinv hmono kf D eff x xb Va Vb Vm E f γ R hkf hD heff hVm hf hγ hd hR0 h hden⟩

/-- the same conclusion from the other pair of hypotheses named in the property: `xα` strictly increasing in `g`
and the matrix composition lies on the curve (`x = xα g⋆`, whence `DF x = g⋆`) -/
theorem binary_above_Rcrit_grows' (DF xα : α → α) (hinv : ∀ g, DF (xα g) = g)
    (hxmono : ∀ g₁ g₂, g₁ < g₂ → xα g₁ < xα g₂)
    (kf D eff gs xb Va Vb Vm E f γ R : α) (hkf : 0 < kf) (hD : 0 < D) (heff : 0 < eff)
    (hVm : 0 < Vm) (hf : 0 < f) (hγ : 0 < γ) (hd : 0 < volDG (DF (xα gs)) Vm E)
    (hR : rcritProposal f γ (volDG (DF (xα gs)) Vm E) < R)
    (hden : 0 < Va * xb / Vb - xα (gExtra Vm E f γ R)) :
    0 < growthBinary kf D eff (xα gs) (xα (gExtra Vm E f γ R)) xb Va Vb R := by
  have hRc : 0 < rcritProposal f γ (volDG (DF (xα gs)) Vm E) := by
    rw [rcritProposal_closed]; positivity
  have hlt := gExtra_strictAnti Vm E f γ _ R hVm hf hγ hRc hR
  rw [gExtra_at_Rcrit (DF (xα gs)) Vm E f γ hVm.ne' hf.ne' hγ.ne' hd.ne', hinv gs] at hlt
  exact (growthBinary_pos_iff kf D eff _ _ xb Va Vb R hkf hD heff (lt_trans hRc hR) hden).mpr (hxmono _ _ hlt)

theorem binary_below_Rcrit_shrinks' (DF xα : α → α) (hinv : ∀ g, DF (xα g) = g)
    (hxmono : ∀ g₁ g₂, g₁ < g₂ → xα g₁ < xα g₂)
    (kf D eff gs xb Va Vb Vm E f γ R : α) (hkf : 0 < kf) (hD : 0 < D) (heff : 0 < eff)
    (hVm : 0 < Vm) (hf : 0 < f) (hγ : 0 < γ) (hd : 0 < volDG (DF (xα gs)) Vm E)
    (hR0 : 0 < R) (hR : R < rcritProposal f γ (volDG (DF (xα gs)) Vm E))
    (hden : 0 < Va * xb / Vb - xα (gExtra Vm E f γ R)) :
    growthBinary kf D eff (xα gs) (xα (gExtra Vm E f γ R)) xb Va Vb R < 0 := by
  have hlt := gExtra_strictAnti Vm E f γ R _ hVm hf hγ hR0 hR
  rw [gExtra_at_Rcrit (DF (xα gs)) Vm E f γ hVm.ne' hf.ne' hγ.ne' hd.ne', hinv gs] at hlt
  exact (growthBinary_neg_iff kf D eff _ _ xb Va Vb R hkf hD heff hR0 hden).mpr (hxmono _ _ hlt)

end field

/-! ### the sentinel scan of `_interfacialCompositionFromEq` -/

section scan
variable {β : Type}

theorem find?_congr_mem {γ : Type} {l : List γ} {p q : γ → Bool} (h : ∀ x ∈ l, p x = q x) :
    l.find? p = l.find? q := by
  induction l with
  | nil => rfl
  | cons a l ih =>
    have ha := h a (List.mem_cons_self)
    have hl : ∀ x ∈ l, p x = q x := fun x hx => h x (List.mem_cons_of_mem _ hx)
    simp only [List.find?_cons, ha, ih hl]

theorem step_skip (st : St β) (r : Rec β) (h : r.ge < st.gIndex) : step st r = st := by
  obtain ⟨k, a, b⟩ := st
  simp only at h
  have h1 : ¬ k < r.ge := by omega
  have h2 : r.ge ≠ k := by omega
  simp [step, h1, h2]

theorem step_single (st : St β) (r : Rec β) (h : st.gIndex ≤ r.ge) (h2 : r.two = false) :
    step st r = { st with gIndex := r.ge } := by
  obtain ⟨k, a, b⟩ := st
  simp only at h
  by_cases hk : k < r.ge
  · simp [step, hk, h2]
  · have : r.ge = k := by omega
    simp [step, hk, h2, this]

theorem step_two (st : St β) (r : Rec β) (h : st.gIndex ≤ r.ge) (h2 : r.two = true) :
    step st r = ⟨r.ge + 1, upd st.xM r.ge r.xm, upd st.xP r.ge r.xp⟩ := by
  obtain ⟨k, a, b⟩ := st
  simp only at h
  by_cases hk : k < r.ge
  · simp [step, hk, h2]
  · have : r.ge = k := by omega
    simp [step, hk, h2, this]

/-- which record decides entry `g` when the loop is entered with `gIndex = k` -/
def sel (k g : Nat) (r : Rec β) : Bool := r.two && decide (r.ge = g) && decide (k ≤ r.ge)

/-- records ordered by GE index (pycalphad enumerates the condition grid in C order, GE slowest) -/
def Ordered (rs : List (Rec β)) : Prop := rs.Pairwise (fun a b => a.ge ≤ b.ge)

theorem foldl_step_xM (rs : List (Rec β)) (st : St β) (hs : Ordered rs) (g : Nat) :
    (rs.foldl step st).xM g =
      match rs.find? (sel st.gIndex g) with
      | some r => r.xm
      | none => st.xM g := by
  induction rs generalizing st with
  | nil => simp
  | cons r rs ih =>
    obtain ⟨hr, hs'⟩ := List.pairwise_cons.mp hs
    simp only [List.foldl_cons]
    by_cases hlt : r.ge < st.gIndex
    · rw [step_skip st r hlt, ih st hs']
      have : sel st.gIndex g r = false := by
        have : ¬ st.gIndex ≤ r.ge := by omega
        simp [sel, this]
      simp [List.find?_cons, this]
    · have hle : st.gIndex ≤ r.ge := by omega
      cases h2 : r.two with
      | false =>
        rw [step_single st r hle h2, ih _ hs']
        have hself : sel st.gIndex g r = false := by simp [sel, h2]
        have hc : rs.find? (sel r.ge g) = rs.find? (sel st.gIndex g) := by
          apply find?_congr_mem
          intro x hx
          have := hr x hx
          have h1 : r.ge ≤ x.ge := this
          have h3 : st.gIndex ≤ x.ge := by omega
          simp [sel, h1, h3]
        simp [List.find?_cons, hself, hc]
      | true =>
        rw [step_two st r hle h2, ih _ hs']
        by_cases hg : r.ge = g
        · subst hg
          have hself : sel st.gIndex r.ge r = true := by simp [sel, h2, hle]
          have hn : rs.find? (sel (r.ge + 1) r.ge) = none := by
            rw [List.find?_eq_none]
            intro x hx
            have h1 : r.ge ≤ x.ge := hr x hx
            simp only [sel, Bool.and_eq_true, decide_eq_true_eq, not_and]
            intro ⟨_, h4⟩ h5
            omega
          simp [List.find?_cons, hself, hn, upd]
        · have hself : sel st.gIndex g r = false := by simp [sel, hg]
          have hc : rs.find? (sel (r.ge + 1) g) = rs.find? (sel st.gIndex g) := by
            apply find?_congr_mem
            intro x hx
            have h1 : r.ge ≤ x.ge := hr x hx
            by_cases hx2 : x.ge = g
            · have h3 : r.ge + 1 ≤ x.ge := by omega
              have h4 : st.gIndex ≤ x.ge := by omega
              simp [sel, h3, h4]
            · simp [sel, hx2]
          have hu : upd st.xM r.ge r.xm g = st.xM g := by
            have : g ≠ r.ge := fun h => hg h.symm
            simp [upd, this]
          simp [List.find?_cons, hself, hc, hu]

theorem foldl_step_xP (rs : List (Rec β)) (st : St β) (hs : Ordered rs) (g : Nat) :
    (rs.foldl step st).xP g =
      match rs.find? (sel st.gIndex g) with
      | some r => r.xp
      | none => st.xP g := by
  induction rs generalizing st with
  | nil => simp
  | cons r rs ih =>
    obtain ⟨hr, hs'⟩ := List.pairwise_cons.mp hs
    simp only [List.foldl_cons]
    by_cases hlt : r.ge < st.gIndex
    · rw [step_skip st r hlt, ih st hs']
      have : sel st.gIndex g r = false := by
        have : ¬ st.gIndex ≤ r.ge := by omega
        simp [sel, this]
      simp [List.find?_cons, this]
    · have hle : st.gIndex ≤ r.ge := by omega
      cases h2 : r.two with
      | false =>
        rw [step_single st r hle h2, ih _ hs']
        have hself : sel st.gIndex g r = false := by simp [sel, h2]
        have hc : rs.find? (sel r.ge g) = rs.find? (sel st.gIndex g) := by
          apply find?_congr_mem
          intro x hx
          have h1 : r.ge ≤ x.ge := hr x hx
          have h3 : st.gIndex ≤ x.ge := by omega
          simp [sel, h1, h3]
        simp [List.find?_cons, hself, hc]
      | true =>
        rw [step_two st r hle h2, ih _ hs']
        by_cases hg : r.ge = g
        · subst hg
          have hself : sel st.gIndex r.ge r = true := by simp [sel, h2, hle]
          have hn : rs.find? (sel (r.ge + 1) r.ge) = none := by
            rw [List.find?_eq_none]
            intro x hx
            have h1 : r.ge ≤ x.ge := hr x hx
            simp only [sel, Bool.and_eq_true, decide_eq_true_eq, not_and]
            intro ⟨_, h4⟩ h5
            omega
          simp [List.find?_cons, hself, hn, upd]
        · have hself : sel st.gIndex g r = false := by simp [sel, hg]
          have hc : rs.find? (sel (r.ge + 1) g) = rs.find? (sel st.gIndex g) := by
            apply find?_congr_mem
            intro x hx
            have h1 : r.ge ≤ x.ge := hr x hx
            by_cases hx2 : x.ge = g
            · have h3 : r.ge + 1 ≤ x.ge := by omega
              have h4 : st.gIndex ≤ x.ge := by omega
              simp [sel, h3, h4]
            · simp [sel, hx2]
          have hu : upd st.xP r.ge r.xp g = st.xP g := by
            have : g ≠ r.ge := fun h => hg h.symm
            simp [upd, this]
          simp [List.find?_cons, hself, hc, hu]

/-- the first two-phase record at GE index `g` -/
def firstTwo (rs : List (Rec β)) (g : Nat) : Option (Rec β) :=
  rs.find? (fun r => r.two && decide (r.ge = g))

theorem sel_zero (g : Nat) : (sel 0 g : Rec β → Bool) = fun r => r.two && decide (r.ge = g) := by
  funext r; simp [sel]

/-- **sentinel scan, value**: for records ordered by GE index, entry `g` of the matrix array is the composition of
the FIRST two-phase record at GE index `g`, and the sentinel if there is none -/
theorem scan_xM (sent : β) (rs : List (Rec β)) (hs : Ordered rs) (g : Nat) :
    (scan sent rs).xM g = match firstTwo rs g with | some r => r.xm | none => sent := by
  have := foldl_step_xM rs (init sent) hs g
  simp only [init, sel_zero] at this
  simpa [scan, firstTwo, init] using this

theorem scan_xP (sent : β) (rs : List (Rec β)) (hs : Ordered rs) (g : Nat) :
    (scan sent rs).xP g = match firstTwo rs g with | some r => r.xp | none => sent := by
  have := foldl_step_xP rs (init sent) hs g
  simp only [init, sel_zero] at this
  simpa [scan, firstTwo, init] using this

/-- `hasTwo rs g`: some record at GE index `g` is a matrix + precipitate two-phase equilibrium -/
def hasTwo (rs : List (Rec β)) (g : Nat) : Prop := ∃ r ∈ rs, r.two = true ∧ r.ge = g

theorem firstTwo_none_iff (rs : List (Rec β)) (g : Nat) : firstTwo rs g = none ↔ ¬ hasTwo rs g := by
  unfold firstTwo hasTwo
  rw [List.find?_eq_none]
  constructor
  · intro h ⟨r, hr, h1, h2⟩
    exact h r hr (by simp [h1, h2])
  · intro h r hr hp
    simp only [Bool.and_eq_true, decide_eq_true_eq] at hp
    exact h ⟨r, hr, hp.1, hp.2⟩

theorem firstTwo_some (rs : List (Rec β)) (g : Nat) (r : Rec β) (h : firstTwo rs g = some r) :
    r ∈ rs ∧ r.two = true ∧ r.ge = g := by
  unfold firstTwo at h
  have h1 := List.mem_of_find?_eq_some h
  have h2 := List.find?_some h
  simp only [Bool.and_eq_true, decide_eq_true_eq] at h2
  exact ⟨h1, h2.1, h2.2⟩

/-- **sentinel scan, iff**: entry `g` is the sentinel iff no two-phase record exists at GE index `g`
(compositions of real records are never the sentinel: they lie in [0, 1], the sentinel is −1) -/
theorem scan_sentinel_iff (sent : β) (rs : List (Rec β)) (hs : Ordered rs)
    (hne : ∀ r ∈ rs, r.two = true → r.xm ≠ sent) (g : Nat) :
    (scan sent rs).xM g = sent ↔ ¬ hasTwo rs g := by
  rw [scan_xM sent rs hs g, ← firstTwo_none_iff]
  cases h : firstTwo rs g with
  | none => simp
  | some r =>
    obtain ⟨hr, h2, _⟩ := firstTwo_some rs g r h
    simp [hne r hr h2]

/-- the precipitate array carries the sentinel at exactly the same indices -/
theorem scan_sentinel_iff_xP (sent : β) (rs : List (Rec β)) (hs : Ordered rs)
    (hne : ∀ r ∈ rs, r.two = true → r.xp ≠ sent) (g : Nat) :
    (scan sent rs).xP g = sent ↔ ¬ hasTwo rs g := by
  rw [scan_xP sent rs hs g, ← firstTwo_none_iff]
  cases h : firstTwo rs g with
  | none => simp
  | some r =>
    obtain ⟨hr, h2, _⟩ := firstTwo_some rs g r h
    simp [hne r hr h2]

/-- **monotone instability is preserved by the scan**: if the backend's two-phase records are monotone along the
array (a two-phase record at index g implies one at every later index — later index = larger radius = smaller
Gibbs–Thomson energy in `_createLookupBinary`), the sentinel pattern of the result is monotone in the same sense:
once reported unstable at an index, reported unstable at every earlier index (every larger g) -/
theorem scan_preserves_monotone (sent : β) (rs : List (Rec β)) (hs : Ordered rs)
    (hne : ∀ r ∈ rs, r.two = true → r.xm ≠ sent)
    (hmono : ∀ g g', g ≤ g' → hasTwo rs g → hasTwo rs g') (g g' : Nat) (hgg : g ≤ g')
    (hun : (scan sent rs).xM g' = sent) : (scan sent rs).xM g = sent := by
  rw [scan_sentinel_iff sent rs hs hne] at hun ⊢
  exact fun h => hun (hmono g g' hgg h)

/-- the ordering hypothesis is needed: with the records of GE index 1 arriving before those of GE index 0 the loop
skips a two-phase record (entry 0 stays at the sentinel although a two-phase equilibrium exists there) -/
theorem unordered_records_lose_entry :
    let rs : List (Rec Int) := [⟨1, true, 5, 7⟩, ⟨0, true, 4, 6⟩]
    (scan (-1) rs).xM 0 = -1 ∧ hasTwo rs 0 := by
  refine ⟨by decide, ⟨⟨0, true, 4, 6⟩, by simp, rfl, rfl⟩⟩

end scan

/-! ### `RdrivingForceIndex` and the prefix fill of `_createLookupBinary` -/

section rdfi
variable {α : Type} [LinearOrder α]

theorem isSent_iff (sent x : α) : isSent sent x = true ↔ x = sent := by
  unfold isSent
  simp only [Bool.not_eq_true', Bool.or_eq_false_iff, decide_eq_false_iff_not, not_lt]
  exact ⟨fun ⟨h1, h2⟩ => le_antisymm h2 h1, fun h => ⟨h.ge, h.le⟩⟩

theorem firstTrue_spec (p : Nat → Bool) (len i : Nat) (hi : i < len) (hp : p i = true)
    (hmin : ∀ j, j < i → p j = false) : firstTrue p len = i := by
  unfold firstTrue
  have : (List.range len).find? (fun i => p i) = some i := by
    rw [List.find?_eq_some_iff_getElem]
    refine ⟨hp, i, by simpa using hi, by simp, ?_⟩
    intro j hj
    simp only [List.getElem_range]
    simp [hmin j hj]
  rw [this]

theorem firstTrue_none (p : Nat → Bool) (len : Nat) (h : ∀ j, j < len → p j = false) :
    firstTrue p len = 0 := by
  unfold firstTrue
  have : (List.range len).find? (fun i => p i) = none := by
    rw [List.find?_eq_none]; intro x hx; simpa using h x (by simpa using hx)
  rw [this]

theorem firstTrue_lt (p : Nat → Bool) (len : Nat) (h : 0 < len) : firstTrue p len < len := by
  unfold firstTrue
  cases hf : (List.range len).find? (fun i => p i) with
  | none => exact h
  | some i =>
    have := List.mem_of_find?_eq_some hf
    simpa using this

/-- **RdrivingForceIndex = last index of the unstable prefix**: entries `0..k−1` carry the sentinel, entry `k` does
not (`1 ≤ k < n`): the index is `k − 1` -/
theorem rdfi_prefix (n k : Nat) (sent : α) (xa : Nat → α) (hk1 : 1 ≤ k) (hkn : k < n)
    (hun : ∀ i, i < k → xa i = sent) (hst : xa k ≠ sent) : rdfi n sent xa = k - 1 := by
  unfold rdfi
  rw [firstTrue_spec _ n k hkn]
  · have : isSent sent (xa k) = false := by
      rw [Bool.eq_false_iff]; intro h; exact hst ((isSent_iff sent _).mp h)
    simp [this]
  · intro j hj
    simp [(isSent_iff sent (xa j)).mpr (hun j hj)]

/-- no unstable class at all: the index is clamped to 0 (the first class is nevertheless emptied by
`PSD[:RdrivingForceIndex+1] = 0`; an observation, not part of the property) -/
theorem rdfi_no_unstable (n : Nat) (sent : α) (xa : Nat → α) (hn : 0 < n) (h0 : xa 0 ≠ sent) :
    rdfi n sent xa = 0 := by
  unfold rdfi
  rw [firstTrue_spec _ n 0 hn]
  · have : isSent sent (xa 0) = false := by
      rw [Bool.eq_false_iff]; intro h; exact h0 ((isSent_iff sent _).mp h)
    simp [this]
  · intro j hj; omega

/-- EVERY class unstable: `np.argmax` of an all-False array is 0, so the index is 0 and NOT `n − 1` -/
theorem rdfi_all_unstable (n : Nat) (sent : α) (xa : Nat → α) (h : ∀ i, i < n → xa i = sent) :
    rdfi n sent xa = 0 := by
  unfold rdfi
  rw [firstTrue_none]
  intro j hj
  simp [(isSent_iff sent (xa j)).mpr (h j hj)]

/-- consequently `RdrivingForceIndex + 1 < n` always (n ≥ 2): the branch of `_createLookupBinary` and
`_singleGrowthBinary` meant for "no size class is stable" is unreachable -/
theorem rdfi_succ_lt (n : Nat) (sent : α) (xa : Nat → α) (hn : 2 ≤ n) : rdfi n sent xa + 1 < n := by
  unfold rdfi
  have := firstTrue_lt (fun i => !isSent sent (xa i)) n (by omega)
  omega

/-- after the prefix fill no sentinel is left when the instability pattern is a proper prefix: the unstable
classes get the composition of the first stable class -/
theorem fill_removes_sentinel (n k : Nat) (sent zero : α) (xa : Nat → α) (hk1 : 1 ≤ k) (hkn : k < n)
    (hun : ∀ i, i < k → xa i = sent) (hst : ∀ i, k ≤ i → i < n → xa i ≠ sent) (i : Nat) (hi : i < n) :
    fillPrefix n zero (rdfi n sent xa) xa i ≠ sent ∧
    (i < k → fillPrefix n zero (rdfi n sent xa) xa i = xa k) := by
  rw [rdfi_prefix n k sent xa hk1 hkn hun (hst k (le_refl k) hkn)]
  have hk : k - 1 + 1 = k := by omega
  have hfill : fillPrefix n zero (k - 1) xa i = if i < k then xa k else xa i := by
    unfold fillPrefix
    simp only [hk, hkn, if_true]
  rw [hfill]
  by_cases hik : i < k
  · rw [if_pos hik]
    exact ⟨hst k (le_refl k) hkn, fun _ => rfl⟩
  · rw [if_neg hik]
    exact ⟨hst i (by omega) hi, fun h => absurd h hik⟩

/-- with every class unstable the table keeps the sentinel in every entry (it is not zeroed) -/
theorem fill_all_unstable_keeps_sentinel (n : Nat) (sent zero : α) (xa : Nat → α) (hn : 2 ≤ n)
    (h : ∀ i, i < n → xa i = sent) (i : Nat) (hi : i < n) :
    fillPrefix n zero (rdfi n sent xa) xa i = sent := by
  rw [rdfi_all_unstable n sent xa h]
  unfold fillPrefix
  have h1 : 0 + 1 < n := by omega
  simp only [h1, if_true]
  by_cases h0 : i < 0 + 1
  · simp only [h0, if_true]; exact h 1 (by omega)
  · simp only [h0, if_false]; exact h i hi

/-- **scan + index**: records ordered by GE index, real compositions ≠ sentinel, two-phase records exactly at the
indices `k..n−1` (monotone instability, `1 ≤ k < n`): `RdrivingForceIndex` computed from the scanned array is the
last index of the unstable prefix -/
theorem scan_rdfi_prefix (n k : Nat) (sent : α) (rs : List (Rec α)) (hs : Ordered rs)
    (hne : ∀ r ∈ rs, r.two = true → r.xm ≠ sent) (hk1 : 1 ≤ k) (hkn : k < n)
    (hpat : ∀ g, g < n → (hasTwo rs g ↔ k ≤ g)) :
    rdfi n sent (scan sent rs).xM = k - 1 := by
  apply rdfi_prefix n k sent _ hk1 hkn
  · intro i hi
    rw [scan_sentinel_iff sent rs hs hne, hpat i (by omega)]
    omega
  · intro h
    rw [scan_sentinel_iff sent rs hs hne, hpat k hkn] at h
    exact h (le_refl k)

end rdfi

/-! ### array call forms of `BinaryThermodynamics.getInterfacialComposition` (model: `KawinV.IC.getIC`)

`backend T gs` stands for `_interfacialComposition(T, gs)`; that its vectorised evaluation is the list of the scalar
evaluations at the same temperature (`backend T gs = gs.map (single T)`) is what the scan theorems give per GE index and
what the oracle monitors on the real thermodynamics; it is a hypothesis here.  The dispatch itself is kawin's own logic. -/

section dispatch
variable {α : Type} [LinearOrder α] {ρ : Type}

theorem eqv_iff (a b : α) : eqv a b = true ↔ a = b := by
  unfold eqv
  simp only [Bool.not_eq_true', Bool.or_eq_false_iff, decide_eq_false_iff_not, not_lt]
  exact ⟨fun h => le_antisymm h.2 h.1, fun h => by subst h; exact ⟨le_refl _, le_refl _⟩⟩

/-- `len(np.unique(T)) == 1` holds exactly when every entry equals the first one -/
theorem allEqual_iff (t0 : α) (rest : List α) : allEqual (t0 :: rest) = true ↔ ∀ t ∈ rest, t = t0 := by
  simp only [allEqual, List.all_eq_true, eqv_iff]

theorem allEqual_replicate (t0 : α) (rest : List α) (h : allEqual (t0 :: rest) = true) :
    t0 :: rest = List.replicate (rest.length + 1) t0 := by
  rw [allEqual_iff] at h
  rw [List.replicate_succ]
  congr 1
  exact List.eq_replicate_iff.mpr ⟨rfl, h⟩

/-- **the vectorised path is taken only when every `T_i` equals `T_0`**: a single call for the whole `gExtra` array
means all temperatures are equal -/
theorem vectorised_only_if_all_equal (t0 : α) (rest gs : List α) (hne : rest ≠ [])
    (h : (icCalls allEqual (t0 :: rest) gs).length = 1 ∧ 2 ≤ gs.length) : ∀ t ∈ rest, t = t0 := by
  by_contra hcon
  have hf : allEqual (t0 :: rest) = false := by
    rw [← Bool.not_eq_true, allEqual_iff]; exact hcon
  obtain ⟨h1, h2⟩ := h
  simp only [icCalls, hf, Bool.false_eq_true, if_false, List.length_map, List.length_zip,
    List.length_cons] at h1
  cases rest with
  | nil => exact hne rfl
  | cons r rs => simp only [List.length_cons] at h1; omega

/-- with differing temperatures every condition gets its own call `(T_i, [g_i])` -/
theorem per_condition_calls (t0 : α) (rest gs : List α) (h : ∃ t ∈ rest, t ≠ t0) :
    icCalls allEqual (t0 :: rest) gs = ((t0 :: rest).zip gs).map (fun p => (p.1, [p.2])) := by
  have hf : allEqual (t0 :: rest) = false := by
    rw [← Bool.not_eq_true, allEqual_iff]
    intro hall; obtain ⟨t, ht, hne⟩ := h; exact hne (hall t ht)
  simp only [icCalls, hf, Bool.false_eq_true, if_false]

theorem flatMap_single_zip (single : α → α → ρ) (Ts gs : List α) :
    (((Ts.zip gs).map (fun p => (p.1, [p.2]))).flatMap (fun c => c.2.map (single c.1))) = List.zipWith single Ts gs := by
  induction Ts generalizing gs with
  | nil => simp
  | cons t ts ih =>
    cases gs with
    | nil => simp
    | cons g gs' =>
      simp only [List.zip_cons_cons, List.map_cons, List.flatMap_cons, List.map_nil, List.zipWith_cons_cons]
      rw [ih gs']; rfl

theorem zipWith_replicate_left (single : α → α → ρ) (t0 : α) (gs : List α) :
    List.zipWith single (List.replicate gs.length t0) gs = gs.map (single t0) := by
  induction gs with
  | nil => simp
  | cons g gs ih => simp [List.replicate_succ, ih]

theorem zipWith_replicate_right (single : α → α → ρ) (Ts : List α) (g : α) :
    List.zipWith single Ts (List.replicate Ts.length g) = Ts.map (fun t => single t g) := by
  induction Ts with
  | nil => simp
  | cons t ts ih => simp [List.replicate_succ, ih]

/-- **batching purity of the dispatch**: if the backend's vectorised evaluation is the list of its scalar evaluations,
then for broadcast arrays of equal length the array answer is the element-wise map of the scalar answers
`single T_i g_i` — for EVERY temperature array (constant, ramp, cycle, permutation, repeats) -/
theorem icResult_eq_zipWith (backend : α → List α → List ρ) (single : α → α → ρ)
    (hb : ∀ T gs, backend T gs = gs.map (single T)) (Ts gs : List α) (hl : Ts.length = gs.length) :
    icResult backend allEqual Ts gs = List.zipWith single Ts gs := by
  cases Ts with
  | nil => simp [icResult, icCalls]
  | cons t0 rest =>
    unfold icResult
    by_cases h : allEqual (t0 :: rest) = true
    · have hrep := allEqual_replicate t0 rest h
      simp only [icCalls, h, if_true, List.flatMap_cons, List.flatMap_nil, List.append_nil, hb]
      have hl' : rest.length + 1 = gs.length := by simpa using hl
      rw [hrep, hl', zipWith_replicate_left]
    · have hf : allEqual (t0 :: rest) = false := by simpa using h
      simp only [icCalls, hf, Bool.false_eq_true, if_false, hb]
      exact flatMap_single_zip single (t0 :: rest) gs

theorem processTG_length (Ts gs Ts' gs' : List α) (h : processTG Ts gs = some (Ts', gs')) : Ts'.length = gs'.length := by
  unfold processTG at h
  split at h
  · cases h; assumption
  · split at h <;> simp at h <;> (obtain ⟨h1, h2⟩ := h; subst h1; subst h2; simp)

/-- the public query, all documented call forms: whenever the lengths are compatible the answer is the element-wise map
of the scalar answers over the broadcast arrays -/
theorem getIC_eq_zipWith (backend : α → List α → List ρ) (single : α → α → ρ)
    (hb : ∀ T gs, backend T gs = gs.map (single T)) (Ts gs Ts' gs' : List α) (h : processTG Ts gs = some (Ts', gs')) :
    getIC backend Ts gs = some (List.zipWith single Ts' gs') := by
  unfold getIC
  rw [h]
  simp only [Option.map_some]
  rw [icResult_eq_zipWith backend single hb Ts' gs' (processTG_length Ts gs Ts' gs' h)]

/-- (scalar T, array g): one answer per `g`, all at `T` -/
theorem getIC_scalar_T (backend : α → List α → List ρ) (single : α → α → ρ)
    (hb : ∀ T gs, backend T gs = gs.map (single T)) (T : α) (gs : List α) :
    getIC backend [T] gs = some (gs.map (single T)) := by
  have hp : processTG [T] gs = some (List.replicate gs.length T, gs) := by
    unfold processTG
    by_cases h : [T].length = gs.length
    · rw [if_pos h]
      have : gs.length = 1 := by simpa using h.symm
      rw [this]; rfl
    · rw [if_neg h]
  rw [getIC_eq_zipWith backend single hb _ _ _ _ hp, zipWith_replicate_left]

/-- (array T, scalar g): one answer per temperature, each at its own `T_i` -/
theorem getIC_scalar_g (backend : α → List α → List ρ) (single : α → α → ρ)
    (hb : ∀ T gs, backend T gs = gs.map (single T)) (Ts : List α) (g : α) (hT : 2 ≤ Ts.length) :
    getIC backend Ts [g] = some (Ts.map (fun t => single t g)) := by
  have hp : processTG Ts [g] = some (Ts, List.replicate Ts.length g) := by
    unfold processTG
    have h : ¬ Ts.length = [g].length := by simp; omega
    rw [if_neg h]
    match Ts, hT with
    | _ :: _ :: _, _ => rfl
  rw [getIC_eq_zipWith backend single hb _ _ _ _ hp, zipWith_replicate_right]

/-- the shortcut agrees with the real test whenever the real test holds … -/
theorem firstLastEqual_of_allEqual (Ts : List α) (h : allEqual Ts = true) : firstLastEqual Ts = true := by
  cases Ts with
  | nil => simp [allEqual] at h
  | cons t0 rest =>
    rw [allEqual_iff] at h
    cases hl : rest.getLast? with
    | none => simp only [firstLastEqual, hl]
    | some tl =>
      simp only [firstLastEqual, hl]
      rw [eqv_iff]
      exact (h tl (List.mem_of_getLast? hl)).symm

end dispatch

/-- … **but `first == last` does not imply all equal**: the thermal cycle 650 → 725 → 650 passes the shortcut and is not
isothermal -/
theorem firstLast_not_allEqual :
    firstLastEqual [(650 : Int), 725, 650] = true ∧ allEqual [(650 : Int), 725, 650] = false := by
  decide

/-- **witness for the broken variant**: with the shortcut as dispatch test and an ideal backend (`single T g = T + g`,
vectorised = map) the cycle is evaluated at `T_0` throughout — the middle entry is the answer for 650, not for 725;
the real test gives the element-wise answers -/
theorem firstLast_dispatch_wrong :
    let backend : Int → List Int → List Int := fun T gs => gs.map (fun g => T + g)
    icResult backend firstLastEqual [650, 725, 650] [0, 1, 2] = [650, 651, 652] ∧
    icResult backend allEqual [650, 725, 650] [0, 1, 2] = [650, 726, 652] ∧
    List.zipWith (fun T g => T + g) [650, 725, 650] [0, 1, 2] = [(650 : Int), 726, 652] := by
  decide

/-! ### `ExtraGibbsModel`: the extra energy GE in the energy per mole of atoms (GM) and per formula unit (G)

`extraGM`, `extraG` are REGENERATED from the property getters of the real class.  pycalphad normalises
`G = GM · N`, `N = _site_ratio_normalization` (atoms per formula unit); the sampling method works with GM, the equilibrium
solver with G.  Both must describe the same extra energy. -/

section extragibbs
variable {α : Type} [Field α] [LinearOrder α] [IsStrictOrderedRing α] [Trans α]

/-- the normalisation identity: adding GE per mole of atoms is adding `N·GE` to the formula energy -/
theorem extraG_normalisation (ast GE N : α) : extraG ast GE N = ast * N + N * GE := by
  simp only [extraG]; ring

theorem extraG_eq_N_mul_extraGM (ast GE N : α) : extraG ast GE N = N * extraGM ast GE := by
  simp only [extraG, extraGM]; ring

theorem extraGM_shift (ast GE : α) : extraGM ast GE - extraGM ast 0 = GE := by
  simp only [extraGM]; ring

/-- **both properties describe the same extra energy**: what GE adds per formula unit is `N` times what it adds per
mole of atoms, for every site-ratio sum `N` -/
theorem extra_energy_same (ast GE N : α) :
    extraG ast GE N - extraG ast 0 N = N * (extraGM ast GE - extraGM ast 0) := by
  simp only [extraG, extraGM]; ring

/-- the unknown the parallel-tangent method solves for through G (`G = N·m`, `m` = energy of the matrix tangent plane per
mole of atoms) is the driving force per mole of atoms, the same quantity the sampling method reads from GM -/
theorem tangent_GE_per_atom (ast GE N m : α) (hN : N ≠ 0) : extraG ast GE N = N * m ↔ GE = m - ast := by
  simp only [extraG]
  constructor
  · intro h
    have h2 : (ast + GE) * N = m * N := by rw [h]; ring
    have := mul_right_cancel₀ hN h2
    rw [← this]; ring
  · intro h; rw [h]; ring

/-- the variant that adds GE after the normalisation -/
def extraG_after (ast GE N : α) : α := ast * N + GE

/-- it agrees with the normalised form only for `N = 1` (0.75:0.25 descriptions) or without extra energy -/
theorem extraG_after_eq_iff (ast GE N : α) : extraG_after ast GE N = extraG ast GE N ↔ N = 1 ∨ GE = 0 := by
  simp only [extraG_after, extraG]
  constructor
  · intro h
    have h2 : GE * (N - 1) = (ast + GE) * N - (ast * N + GE) := by ring
    rw [← h, sub_self] at h2
    rcases mul_eq_zero.mp h2 with h3 | h3
    · right; exact h3
    · left; exact sub_eq_zero.mp h3
  · rintro (h | h) <;> subst h <;> ring

/-- with it the tangent unknown is `N` times the driving force per mole of atoms -/
theorem tangent_GE_after (ast GE N m : α) : extraG_after ast GE N = N * m ↔ GE = N * (m - ast) := by
  simp only [extraG_after]
  constructor
  · intro h
    have h2 : GE = N * m - ast * N := by rw [← h]; ring
    rw [h2]; ring
  · intro h; rw [h]; ring

end extragibbs

section extrawitness
attribute [local instance] ratTrans

/-- **witness for the broken variant** (Al3Zr written 3:1, N = 4, GE = 1000 J/mol): per formula unit the variant adds 1000,
the per-atom energy says 4·1000; the regenerated definition adds 4000 -/
theorem extraG_after_witness :
    extraG_after (-30000 : ℚ) 1000 4 - extraG_after (-30000 : ℚ) 0 4 = 1000 ∧
    4 * (extraGM (-30000 : ℚ) 1000 - extraGM (-30000 : ℚ) 0) = 4000 ∧
    extraG (-30000 : ℚ) 1000 4 - extraG (-30000 : ℚ) 0 4 = 4000 := by
  simp only [extraG_after, extraG, extraGM]; norm_num

end extrawitness

/-! ### order of the solutes in the curvature driving-force method (round 5)

Two listings of the same alloy: listing `i` has sort indices `sᵢ` and the user writes the composition `xᵢ`; they describe
the same alloy iff the alphabetical compositions coincide, `reorder s₁ x₁ = reorder s₂ x₂`.  The sampling method does its
own sorting: in listing `i` it computes `S (reorder sᵢ x)` for one function `S` of the alphabetical composition (backend
hypothesis, monitored: key `df-differs-between-solute-orders:sampling`). -/

section solute_order
variable {α ρ : Type}

/-- the code: the driving force of the curvature method does not depend on the order in which the solutes are listed,
on either side of the phase boundary -/
theorem dfCurvature_listing_invariant (two : Bool) (S C : (Nat → α) → ρ) (s₁ s₂ : Nat → Nat) (x₁ x₂ : Nat → α)
    (hsame : reorder s₁ x₁ = reorder s₂ x₂) :
    dfCurvature two (fun x => S (reorder s₁ x)) C s₁ x₁ = dfCurvature two (fun x => S (reorder s₂ x)) C s₂ x₂ := by
  unfold dfCurvature
  cases two <;> simp [hsame]

/-- in particular it is a function of the alphabetical composition alone -/
theorem dfCurvature_eq_canonical (two : Bool) (S C : (Nat → α) → ρ) (s : Nat → Nat) (x : Nat → α) :
    dfCurvature two (fun x => S (reorder s x)) C s x = if two then C (reorder s x) else S (reorder s x) := by
  unfold dfCurvature; rfl

/-- the variant that sorts first hands the fallback a composition that was sorted TWICE -/
theorem sortedFirst_fallback_sorted_twice (S C : (Nat → α) → ρ) (s : Nat → Nat) (x : Nat → α) :
    dfCurvatureSortedFirst false (fun x => S (reorder s x)) C s x = S (reorder s (reorder s x)) := by
  unfold dfCurvatureSortedFirst; rfl

/-- … which is invisible when the solutes are listed alphabetically (`s = id`) and on the two-phase side -/
theorem sortedFirst_eq_of_alphabetical (two : Bool) (F C : (Nat → α) → ρ) (x : Nat → α) :
    dfCurvatureSortedFirst two F C id x = dfCurvature two F C id x := by
  unfold dfCurvatureSortedFirst dfCurvature reorder; cases two <;> rfl

theorem sortedFirst_eq_of_twoPhase (F C : (Nat → α) → ρ) (s : Nat → Nat) (x : Nat → α) :
    dfCurvatureSortedFirst true F C s x = dfCurvature true F C s x := by
  unfold dfCurvatureSortedFirst dfCurvature; rfl

end solute_order

/-- witness: two solutes listed against the alphabet (`s` swaps 0 and 1), unequal contents (15 % and 2 %), under-saturated
side (fallback): the code evaluates the sampling function at the alloy, the sort-first variant at the alloy with the two
solute contents exchanged (`S` reads the content of the alphabetically first solute) -/
theorem sortedFirst_witness :
    let s : Nat → Nat := fun i => 1 - i
    let x : Nat → ℚ := fun i => if i = 0 then 15 / 100 else 2 / 100
    let S : (Nat → ℚ) → ℚ := fun y => y 0
    dfCurvature false (fun x => S (reorder s x)) S s x = 2 / 100 ∧
    dfCurvatureSortedFirst false (fun x => S (reorder s x)) S s x = 15 / 100 := by
  simp [dfCurvature, dfCurvatureSortedFirst, reorder]

/-! ### parameter histories of the nucleation barrier (round 5): cached factors after ANY history equal those of a
fresh object, provided every setter clears every cache (`Gen.C12.fclears`, regenerated, does: `fclears_all`) -/

section nuchist
open KawinV.NucHist
open KawinV.Gen.C12 (Fac CacheId FSetter fclears)
variable {α ρ : Type} [Mul α] [Div α] [OfNat α 2] [LT α] [DecidableLT α]

/-- the regenerated invalidation table clears every cache for every setter -/
theorem fclears_all : ∀ (s : FSetter) (c : CacheId), fclears s c = true := by
  intro s c
  cases s <;> cases c <;> first | rfl | (rename_i f; cases f <;> rfl)

/-- every cached value is the value a fresh computation from the CURRENT settings gives (and a cached factor exists
only if the current ratio passes `_validateGBk`) -/
def Valid (F : Nat → Fac → α → ρ) (maxR : Nat → α) (o : Obj α ρ) : Prop :=
  (∀ v, o.k = some v → v = ratio o.s) ∧
  (∀ f v, o.fac f = some v → validK maxR o.s.site (ratio o.s) = true ∧ v = F o.s.site f (ratio o.s))

theorem valid_fresh (F : Nat → Fac → α → ρ) (maxR : Nat → α) (s : Settings α) : Valid F maxR (fresh s : Obj α ρ) := by
  constructor
  · intro v h; simp [fresh] at h
  · intro f v h; simp [fresh] at h

theorem valid_of_empty (F : Nat → Fac → α → ρ) (maxR : Nat → α) (o : Obj α ρ) (hk : o.k = none) (hf : ∀ f, o.fac f = none) :
    Valid F maxR o := by
  constructor
  · intro v h; rw [hk] at h; cases h
  · intro f v h; rw [hf f] at h; cases h

theorem clearBy_empty (clears : FSetter → CacheId → Bool) (hclr : ∀ s c, clears s c = true) (st : FSetter) (o : Obj α ρ) :
    (clearBy clears st o).k = none ∧ ∀ f, (clearBy clears st o).fac f = none := by
  constructor
  · simp [clearBy, hclr]
  · intro f; simp [clearBy, hclr]

theorem getK_fst_of_valid (F : Nat → Fac → α → ρ) (maxR : Nat → α) (o : Obj α ρ) (h : Valid F maxR o) :
    (getK o).1 = ratio o.s := by
  unfold getK
  cases hk : o.k with
  | none => rfl
  | some v => simp [h.1 v hk]

theorem getK_snd_s (o : Obj α ρ) : (getK o).2.s = o.s := by
  unfold getK; cases o.k <;> rfl

theorem getK_snd_fac (o : Obj α ρ) : (getK o).2.fac = o.fac := by
  unfold getK; cases o.k <;> rfl

theorem valid_getK (F : Nat → Fac → α → ρ) (maxR : Nat → α) (o : Obj α ρ) (h : Valid F maxR o) :
    Valid F maxR (getK o).2 := by
  unfold getK
  cases hk : o.k with
  | none =>
    constructor
    · intro v hv; simp at hv; exact hv.symm
    · intro f v hv; exact h.2 f v hv
  | some w => simpa [hk] using h

/-- what a factor getter answers on a valid object: the fresh computation from the current settings -/
theorem get_fst_of_valid (F : Nat → Fac → α → ρ) (maxR : Nat → α) (o : Obj α ρ) (h : Valid F maxR o) (f : Fac) :
    (NucHist.get F maxR o f).1 = if validK maxR o.s.site (ratio o.s) then some (F o.s.site f (ratio o.s)) else none := by
  unfold NucHist.get
  cases hf : o.fac f with
  | some v =>
    obtain ⟨hv, hval⟩ := h.2 f v hf
    simp [hv, hval]
  | none =>
    simp only [getK_fst_of_valid F maxR o h]
    by_cases hv : validK maxR o.s.site (ratio o.s) = true
    · simp [hv]
    · simp [hv]

theorem get_snd_s (F : Nat → Fac → α → ρ) (maxR : Nat → α) (o : Obj α ρ) (f : Fac) : (NucHist.get F maxR o f).2.s = o.s := by
  unfold NucHist.get
  cases hf : o.fac f with
  | some v => rfl
  | none =>
    by_cases hv : validK maxR o.s.site (getK o).1 = true
    · simp [hv, getK_snd_s]
    · simp [hv, getK_snd_s]

theorem valid_get (F : Nat → Fac → α → ρ) (maxR : Nat → α) (o : Obj α ρ) (h : Valid F maxR o) (f : Fac) :
    Valid F maxR (NucHist.get F maxR o f).2 := by
  unfold NucHist.get
  cases hf : o.fac f with
  | some v => simpa using h
  | none =>
    have hk := getK_fst_of_valid F maxR o h
    have hK := valid_getK F maxR o h
    by_cases hv : validK maxR o.s.site (getK o).1 = true
    · simp only [hv, if_true]
      constructor
      · intro v hv'; exact hK.1 v hv'
      · intro g v hg
        simp only [getK_snd_s] at hg ⊢
        by_cases hgf : g = f
        · subst hgf
          simp at hg
          refine ⟨by rw [← hk]; exact hv, ?_⟩
          rw [← hg, hk]
        · simp [hgf] at hg
          have := hK.2 g v hg
          simpa [getK_snd_s] using this
    · simp only [hv]
      simpa using hK

/-- one operation keeps the invariant when every setter clears every cache -/
theorem valid_step (clears : FSetter → CacheId → Bool) (hclr : ∀ s c, clears s c = true)
    (F : Nat → Fac → α → ρ) (maxR : Nat → α) (o : Obj α ρ) (h : Valid F maxR o) (op : Op α) :
    Valid F maxR (step clears F maxR o op) := by
  cases op with
  | setGamma v => exact valid_of_empty F maxR _ (clearBy_empty clears hclr _ _).1 (clearBy_empty clears hclr _ _).2
  | setGb v => exact valid_of_empty F maxR _ (clearBy_empty clears hclr _ _).1 (clearBy_empty clears hclr _ _).2
  | setSite d => exact valid_of_empty F maxR _ (clearBy_empty clears hclr _ _).1 (clearBy_empty clears hclr _ _).2
  | getK => exact valid_getK F maxR o h
  | get f => exact valid_get F maxR o h f

theorem valid_run (clears : FSetter → CacheId → Bool) (hclr : ∀ s c, clears s c = true)
    (F : Nat → Fac → α → ρ) (maxR : Nat → α) (ops : List (Op α)) (o : Obj α ρ) (h : Valid F maxR o) :
    Valid F maxR (run clears F maxR ops o) := by
  induction ops generalizing o with
  | nil => exact h
  | cons op rest ih => exact ih _ (valid_step clears hclr F maxR o h op)

/-- **after any history the factors equal those of a fresh object configured with the final values** (and the
`ValueError` of an invalid ratio is raised in exactly the same cases), when every setter clears every cache -/
theorem factors_after_history_eq_fresh (clears : FSetter → CacheId → Bool) (hclr : ∀ s c, clears s c = true)
    (F : Nat → Fac → α → ρ) (maxR : Nat → α) (ops : List (Op α)) (s₀ : Settings α) (f : Fac) :
    (NucHist.get F maxR (run clears F maxR ops (fresh s₀)) f).1 =
      (NucHist.get F maxR (fresh (run clears F maxR ops (fresh s₀ : Obj α ρ)).s) f).1 := by
  have h := valid_run clears hclr F maxR ops (fresh s₀) (valid_fresh F maxR s₀)
  rw [get_fst_of_valid F maxR _ h f, get_fst_of_valid F maxR _ (valid_fresh F maxR _) f]
  rfl

/-- the same for the cached ratio -/
theorem ratio_after_history_eq_fresh (clears : FSetter → CacheId → Bool) (hclr : ∀ s c, clears s c = true)
    (F : Nat → Fac → α → ρ) (maxR : Nat → α) (ops : List (Op α)) (s₀ : Settings α) :
    (getK (run clears F maxR ops (fresh s₀ : Obj α ρ))).1 = ratio (run clears F maxR ops (fresh s₀ : Obj α ρ)).s :=
  getK_fst_of_valid F maxR _ (valid_run clears hclr F maxR ops (fresh s₀) (valid_fresh F maxR s₀))

/-- the code (regenerated table): every history -/
theorem factors_after_history_eq_fresh_code (F : Nat → Fac → α → ρ) (maxR : Nat → α) (ops : List (Op α)) (s₀ : Settings α) (f : Fac) :
    (NucHist.get F maxR (run fclears F maxR ops (fresh s₀)) f).1 =
      (NucHist.get F maxR (fresh (run fclears F maxR ops (fresh s₀ : Obj α ρ)).s) f).1 :=
  factors_after_history_eq_fresh fclears fclears_all F maxR ops s₀ f

end nuchist

/-- consequence for the grain-boundary critical radius `2 (a γ - r γ_gb) / (3 c dG)` of `NucleationBarrierParameters.Rcrit`:
computed from factors that all belong to the CURRENT ratio `k` (Clemm-Fisher identity `a - 2 k r = 3 c`, C14) and
`γ_gb = 2 k γ` it is `2 γ / dG` - the radius at which the Gibbs-Thomson energy equals the driving force - whatever the
history of the parameter object was -/
theorem gb_rcrit_of_consistent_factors {β : Type} [Field β] [LinearOrder β] [IsStrictOrderedRing β]
    (a r c k γ dG : β) (hc : c ≠ 0) (hd : dG ≠ 0) (hid : a - 2 * k * r = 3 * c) :
    2 * (a * γ - r * (2 * k * γ)) / (3 * c * dG) = 2 * γ / dG := by
  have h : a * γ - r * (2 * k * γ) = 3 * c * γ := by rw [← hid]; ring
  rw [h]; field_simp

/-- witness (grain boundary, π set to 1): factors cached at the old ratio k = 1/2 (a = 2, r = 3/4, c = 5/12 satisfy the
identity), grain-boundary energy changed so that the new ratio is 1/5: the formula gives 2.72 γ/dG, not 2 γ/dG -/
theorem stale_factors_rcrit_witness :
    (2 : ℚ) - 2 * (1 / 2) * (3 / 4) = 3 * (5 / 12) ∧
    2 * ((2 : ℚ) * 1 - 3 / 4 * (2 * (1 / 5) * 1)) / (3 * (5 / 12) * 1) ≠ 2 * 1 / 1 := by
  constructor <;> norm_num

/-- witness for the state machine: the table in which the `gbEnergy` setter clears only the cached ratio; history
`areaFactor; gbEnergy = 1/2; areaFactor` on an object constructed with γ = 1, γ_gb = 1 (factor function `F = k`, limit 1):
the object answers with the factor of the OLD ratio 1/2, a fresh object with the final values answers 1/4 -/
theorem ratioOnly_history_stale :
    let F : Nat → KawinV.Gen.C12.Fac → ℚ → ℚ := fun _ _ k => k
    let maxR : Nat → ℚ := fun _ => 1
    let ops : List (KawinV.NucHist.Op ℚ) := [.get .area, .setGb (1 / 2), .get .area]
    let o := KawinV.NucHist.run KawinV.NucHist.clearsRatioOnly F maxR ops (KawinV.NucHist.fresh ⟨1, 1, 2⟩)
    (KawinV.NucHist.get F maxR o .area).1 = some (1 / 2) ∧
    (KawinV.NucHist.get F maxR (KawinV.NucHist.fresh o.s) .area).1 = some (1 / 4) := by
  norm_num [KawinV.NucHist.run, KawinV.NucHist.step, KawinV.NucHist.stepOut, KawinV.NucHist.get, KawinV.NucHist.getK,
    KawinV.NucHist.clearBy, KawinV.NucHist.clearsRatioOnly, KawinV.NucHist.fresh, KawinV.NucHist.ratio, KawinV.NucHist.validK]

/-! ### non-vacuity: the hypothesis sets are satisfiable -/

section nonvacuity
attribute [local instance] ratTrans

/-- Gibbs–Thomson at the critical radius with strain energy and a non-spherical factor: Vm = 2, E = 1, f = 3,
γ = 1/2, dG = 10 ⇒ dG_vol = 4, Rcrit = 3/4, gExtra(Rcrit) = 2·(1 + 3/(3/4)) = 10 -/
example : gExtra (2 : ℚ) 1 3 (1 / 2) (rcritProposal 3 (1 / 2) (volDG 10 2 1)) = 10 := by
  simp only [gExtra, rcritProposal, volDG]; norm_num

example : (0 : ℚ) < volDG 10 2 1 := by simp only [volDG]; norm_num

/-- multicomponent sign hypotheses are satisfiable and both sides of the critical radius occur -/
example : 0 < growthMultiKWN (1 : ℚ) 1 1 (volDG 10 2 1) 2 5 1 3 (1 / 2)
    ∧ growthMultiKWN (1 : ℚ) 1 (1 / 2) (volDG 10 2 1) 2 5 1 3 (1 / 2) < 0
    ∧ growthMultiKWN (1 : ℚ) 1 (3 / 4) (volDG 10 2 1) 2 5 1 3 (1 / 2) = 0 := by
  simp only [growthMultiKWN, volDG]; norm_num

/-- binary sign hypotheses: Vα = Vβ, xβ = 1/4, xα = 1/100: denominator positive -/
example : (0 : ℚ) < 1 * (1 / 4) / 1 - 1 / 100 := by norm_num

/-- the conditional hypotheses are satisfiable: `xα g = g`, `DF x = x + δ` (ideal backend with offset δ = 1) -/
example : (∀ g : ℚ, (fun x => x + 1) ((fun g => g) g) = g + 1) ∧
    (∀ a b : ℚ, a ≤ b → (fun x => x + 1) a ≤ (fun x => x + 1) b) ∧
    (∀ g₁ g₂ : ℚ, g₁ < g₂ → (fun g => g) g₁ < (fun g => g) g₂) := by
  refine ⟨fun g => rfl, fun a b h => by simpa using h, fun _ _ h => h⟩

/-- an ordered record list with the prefix pattern (two-phase records exactly at GE indices 1 and 2 of 3) -/
example :
    let rs : List (Rec Int) := [⟨0, false, 0, 0⟩, ⟨0, false, 0, 0⟩, ⟨1, false, 0, 0⟩, ⟨1, true, 4, 6⟩, ⟨1, true, 9, 9⟩, ⟨2, true, 3, 6⟩]
    Ordered rs ∧ (List.range 3).map (scan (-1) rs).xM = [-1, 4, 3] ∧ rdfi 3 (-1) (scan (-1) rs).xM = 0 := by
  refine ⟨by simp [Ordered], by decide, by decide⟩

/-- the backend hypothesis of the dispatch theorems is satisfiable (ideal vectorised backend), every call form occurs:
(array T, array g) on a cycle, (scalar T, array g), (array T, scalar g), and the length check rejects 2 against 3 -/
example :
    let single : Int → Int → Int := fun T g => T + g
    let backend : Int → List Int → List Int := fun T gs => gs.map (single T)
    (∀ T gs, backend T gs = gs.map (single T)) ∧
    getIC backend [650, 725, 650] [0, 1, 2] = some [650, 726, 652] ∧
    getIC backend [700] [0, 1, 2] = some [700, 701, 702] ∧
    getIC backend [650, 725, 650] [5] = some [655, 730, 655] ∧
    getIC backend [650, 725] [0, 1, 2] = none := by
  refine ⟨fun _ _ => rfl, by decide, by decide, by decide, by decide⟩

/-- `tangent_GE_per_atom`: N ≠ 0 holds for the shipped descriptions (N = 1, N = 4) -/
example : (4 : ℚ) ≠ 0 ∧ (1 : ℚ) ≠ 0 := by norm_num

/-- two listings of one alloy: alphabetical (`s₁ = id`, x₁ = (2 %, 15 %)) and reversed (`s₂` swaps, x₂ = (15 %, 2 %)) -/
example : ∀ i, i < 2 → reorder (id : Nat → Nat) (fun i => if i = 0 then (2 : ℚ) / 100 else 15 / 100) i
    = reorder (fun i => 1 - i) (fun i => if i = 0 then (15 : ℚ) / 100 else 2 / 100) i := by
  intro i hi
  rcases i with _ | _ | i
  · simp [reorder]
  · simp [reorder]
  · omega

/-- the hypothesis of `factors_after_history_eq_fresh` is satisfiable: the regenerated table -/
example : ∃ clears : KawinV.Gen.C12.FSetter → KawinV.Gen.C12.CacheId → Bool, ∀ s c, clears s c = true := ⟨_, fclears_all⟩

/-- … and it is not vacuous: a history that fills caches, changes every setting and reads again (F = k, limit 1) -/
example :
    let F : Nat → KawinV.Gen.C12.Fac → ℚ → ℚ := fun _ _ k => k
    let maxR : Nat → ℚ := fun _ => 1
    let ops : List (KawinV.NucHist.Op ℚ) := [.get .area, .setGb (1 / 2), .get .area]
    (KawinV.NucHist.get F maxR (KawinV.NucHist.run KawinV.Gen.C12.fclears F maxR ops (KawinV.NucHist.fresh ⟨1, 1, 2⟩)) .area).1 = some (1 / 4) := by
  norm_num [KawinV.NucHist.run, KawinV.NucHist.step, KawinV.NucHist.stepOut, KawinV.NucHist.get, KawinV.NucHist.getK,
    KawinV.NucHist.clearBy, KawinV.Gen.C12.fclears, KawinV.NucHist.fresh, KawinV.NucHist.ratio, KawinV.NucHist.validK]

/-- `gb_rcrit_of_consistent_factors`: the grain-boundary factors at k = 1/2 (π set to 1) satisfy its hypotheses -/
example : (5 / 12 : ℚ) ≠ 0 ∧ (2 : ℚ) - 2 * (1 / 2) * (3 / 4) = 3 * (5 / 12) := by constructor <;> norm_num

end nonvacuity


/-! ### Round 6 (a): array form of `nucleationBarrier` (bulk / dislocation) -/

section barrier_array
variable {α : Type} [Field α] [LinearOrder α] [IsStrictOrderedRing α] [Trans α]

/-- **the array form is the scalar form entry by entry**: mask, compress, element-wise maximum (`axis=0`) and scatter, as
`nucleationBarrier` does them, give for EVERY batch of driving forces (positive, non-positive, clamped and unclamped mixed)
the list of the scalar answers -/
theorem barrier_array_eq_map_scalar (f γ Rmin : α) (dGs : List α) :
    barrierArray f γ Rmin dGs = dGs.map (fun d => rcritUsed f γ d Rmin) := by
  induction dGs with
  | nil => simp [barrierArray, compress, scatter]
  | cons d ds ih =>
    unfold barrierArray at ih ⊢
    by_cases h : (0 : α) < d
    · simp only [List.map_cons, h, decide_true, compress, List.zipWith_cons_cons, scatter, ih]
      simp [rcritUsed, h, amax2]
    · simp only [List.map_cons, h, decide_false, compress, scatter, ih]
      simp [rcritUsed, h]

theorem barrier_array_length (f γ Rmin : α) (dGs : List α) : (barrierArray f γ Rmin dGs).length = dGs.length := by
  rw [barrier_array_eq_map_scalar, List.length_map]

/-- entry `i` of the array answer is the scalar answer for condition `i` -/
theorem barrier_array_entry (f γ Rmin : α) (dGs : List α) (i : Nat) (h : i < dGs.length) :
    (barrierArray f γ Rmin dGs)[i]? = some (rcritUsed f γ dGs[i] Rmin) := by
  rw [barrier_array_eq_map_scalar]; simp [h]

/-- **property relation per entry**: for every condition of the batch whose critical radius is not clamped, the
Gibbs-Thomson energy of a particle of the reported critical radius equals the chemical driving force of THAT condition -/
theorem barrier_array_gibbsThomson (Vm E f γ Rmin : α) (dGs : List α) (i : Nat) (h : i < dGs.length)
    (hVm : Vm ≠ 0) (hf : f ≠ 0) (hγ : γ ≠ 0) (hd : 0 < volDG dGs[i] Vm E)
    (hun : Rmin ≤ rcritProposal f γ (volDG dGs[i] Vm E)) :
    ∃ r, (barrierArray f γ Rmin (dGs.map (fun dG => volDG dG Vm E)))[i]? = some r ∧ dGs[i] - gExtra Vm E f γ r = 0 := by
  refine ⟨rcritProposal f γ (volDG dGs[i] Vm E), ?_, gibbsThomson_at_Rcrit _ Vm E f γ hVm hf hγ hd.ne'⟩
  rw [barrier_array_eq_map_scalar]
  simp [h, rcritUsed_unclamped f γ _ Rmin hd hun]

attribute [local instance] ratTrans in
/-- witness for the maximum WITHOUT `axis=0` (one number for the batch): driving forces `[1, 2]`, `f = γ = 1`,
`Rmin = 1/10`: the scalar answers are `[2, 1]`, the global maximum answers `[2, 2]`, and the Gibbs-Thomson energy at the
second reported radius is `1`, not the driving force `2` of that condition -/
theorem globalMax_witness :
    barrierArray (1 : ℚ) 1 (1 / 10) [1, 2] = [2, 1] ∧ barrierArrayGlobalMax (1 : ℚ) 1 (1 / 10) [1, 2] = [2, 2] ∧
    barrierArrayGlobalMax (1 : ℚ) 1 (1 / 10) [1, 2] ≠ [1, 2].map (fun d => rcritUsed (1 : ℚ) 1 d (1 / 10)) ∧
    (2 : ℚ) - gExtra 1 0 1 1 2 ≠ 0 := by
  refine ⟨?_, ?_, ?_, ?_⟩
  · rw [barrier_array_eq_map_scalar]; simp [rcritUsed, rcritProposal]; norm_num
  · simp [barrierArrayGlobalMax, compress, scatter, amaxList, amax2, rcritProposal]; norm_num
  · simp [barrierArrayGlobalMax, compress, scatter, amaxList, amax2, rcritProposal, rcritUsed]; norm_num
  · simp [gExtra]; norm_num

/-- a batch in which the global maximum is invisible: one condition (all that the KWN model passes) -/
theorem globalMax_eq_of_single (f γ Rmin d : α) :
    barrierArrayGlobalMax f γ Rmin [d] = barrierArray f γ Rmin [d] := by
  by_cases h : (0 : α) < d <;>
    simp [barrierArrayGlobalMax, barrierArray, compress, scatter, amaxList, amax2, h]

end barrier_array

/-! ### Round 6 (b): every phase's growth uses its OWN Gibbs-Thomson parameters -/

section multiphase
variable {α : Type} [Field α] [LinearOrder α] [IsStrictOrderedRing α] [Trans α]

/-- the Gibbs-Thomson energies handed to the growth law for phase `p` are those of phase `p`'s own parameters -/
theorem gibbsArgs_own (ps : List (PhasePar α)) (p : Nat) (q : PhasePar α) (hq : ps[p]? = some q) (bounds : List α) :
    gibbsArgs ps some p bounds = bounds.map (fun R => some (gExtra q.vm q.e q.f q.gamma R)) := by
  simp [gibbsArgs, particleGibbs, phaseIndex, hq]

/-- `_singleGrowthMulti` for phase `p` of a multi-phase model IS the regenerated single-phase growth rate evaluated with
phase `p`'s parameters -/
theorem growthOfPhase_own (ps : List (PhasePar α)) (p : Nat) (q : PhasePar α) (hq : ps[p]? = some q) (kf mc R dGv Va : α) :
    growthOfPhase ps some p kf mc R dGv = some (growthMultiKWN kf mc R dGv q.vm Va q.e q.f q.gamma) := by
  simp [growthOfPhase, particleGibbs, phaseIndex, hq, growthMultiKWN, growthMulti, gExtra]

/-- **multi-phase growth sign**: for EVERY phase position `p` and any parameters of the other phases, classes above
phase `p`'s own critical radius grow and classes below shrink -/
theorem multi_phase_growth_sign (ps : List (PhasePar α)) (p : Nat) (q : PhasePar α) (hq : ps[p]? = some q)
    (kf mc R dG : α) (hkf : 0 < kf) (hmc : 0 < mc) (hR : 0 < R) (hVm : 0 < q.vm) (hd : 0 < volDG dG q.vm q.e) :
    ∃ g, growthOfPhase ps some p kf mc R (volDG dG q.vm q.e) = some g ∧
      (0 < g ↔ rcritProposal q.f q.gamma (volDG dG q.vm q.e) < R) ∧
      (g < 0 ↔ R < rcritProposal q.f q.gamma (volDG dG q.vm q.e)) :=
  ⟨_, growthOfPhase_own ps p q hq kf mc R _ 0,
    kwn_multi_pos_iff kf mc R dG q.vm 0 q.e q.f q.gamma hkf hmc hR hVm hd,
    kwn_multi_neg_iff kf mc R dG q.vm 0 q.e q.f q.gamma hkf hmc hR hVm hd⟩

/-- the default phase argument is invisible for the first precipitate (single-phase models, phase 0 of any model) -/
theorem defaultPhase_eq_first (ps : List (PhasePar α)) (kf mc R dGv : α) :
    growthOfPhase ps (fun _ => none) 0 kf mc R dGv = growthOfPhase ps some 0 kf mc R dGv := by
  simp [growthOfPhase, particleGibbs, phaseIndex]

attribute [local instance] ratTrans in
/-- witness for `particleGibbs` called WITHOUT the phase (default = first precipitate): γ₀ = 0.18, γ₁ = 0.084, volumetric
driving force 1: phase 1 has Rcrit = 0.168, the class of radius 1/4 lies above it, its growth with the first phase's
Gibbs-Thomson energy is negative while with its own it is positive -/
theorem firstPhase_witness :
    let ps : List (PhasePar ℚ) := [⟨1, 0, 1, 18 / 100⟩, ⟨1, 0, 1, 84 / 1000⟩]
    rcritProposal (1 : ℚ) (84 / 1000) 1 < 1 / 4 ∧
    (∃ g, growthOfPhase ps (fun _ => none) 1 1 1 (1 / 4) 1 = some g ∧ g < 0) ∧
    (∃ g, growthOfPhase ps some 1 1 1 (1 / 4) 1 = some g ∧ 0 < g) := by
  refine ⟨?_, ⟨_, rfl, ?_⟩, ⟨_, rfl, ?_⟩⟩
  · simp [rcritProposal]; norm_num
  · simp [growthMulti, gExtra]; norm_num
  · simp [growthMulti, gExtra]; norm_num

/-- non-vacuity of `multi_phase_growth_sign`: a second phase with its own parameters and a positive driving force -/
example : ∃ (ps : List (PhasePar ℚ)) (q : PhasePar ℚ), ps[1]? = some q ∧ 0 < q.vm ∧ 0 < @volDG ℚ _ _ _ _ _ _ ratTrans 2 q.vm q.e :=
  ⟨[⟨1, 0, 1, 18 / 100⟩, ⟨1, 1, 1, 84 / 1000⟩], ⟨1, 1, 1, 84 / 1000⟩, rfl, by norm_num, by simp [volDG]⟩

attribute [local instance] ratTrans in
/-- non-vacuity of `barrier_array_gibbsThomson`: a batch with an unclamped entry -/
example : (0 : ℚ) < volDG (([3, 5] : List ℚ)[1]) (1 : ℚ) 1 ∧ (1 / 10 : ℚ) ≤ rcritProposal (1 : ℚ) 1 (volDG (([3, 5] : List ℚ)[1]) (1 : ℚ) 1) := by
  simp [volDG, rcritProposal]; norm_num

end multiphase

end KawinV.Props.C12
