/-
C10 — diffusivities are physically valid and match the free-energy curvature.

Property theorems about `KawinV.Mob` (mobility matrix, flux), `KawinV.DMu` (bordered-Hessian
assembly, dMudX / partialdMudX index selection, chemical_diffusivity / interdiffusivity) and the
traced `tracer_diffusivity` (`KawinV.Gen.C10`), all tied to kawin/thermo by tools/corr/C10.py.
α is any field (ordered field for the sign statements); any number of elements.

NOT proved here (facts about the CALPHAD functions / pycalphad, monitored by the oracle only):
agreement of dμ/dx with finite differences of the equilibrium chemical potentials, positive
definiteness, real positive eigenvalues of the interdiffusivity, positivity of the mobilities.
-/
import KawinV.Model.MobMatrix
import KawinV.Model.DMuDX
import KawinV.Gen.C10Tracer
import Mathlib.Tactic.Ring
import Mathlib.Tactic.Linarith
import Mathlib.Tactic.FieldSimp
import Mathlib.Tactic.NormNum
import Mathlib.Tactic.LinearCombination
import Mathlib.Algebra.Order.Field.Basic
import Mathlib.Algebra.BigOperators.Group.Finset.Basic
import Mathlib.Algebra.BigOperators.Ring.Finset
import Mathlib.Algebra.BigOperators.Intervals
import Mathlib.Algebra.BigOperators.Field
import Mathlib.LinearAlgebra.Matrix.NonsingularInverse

set_option linter.unusedSectionVars false
set_option linter.unusedVariables false
set_option linter.unusedSimpArgs false

namespace KawinV.Props.C10
open KawinV KawinV.Mob KawinV.DMu
open Finset

section field
variable {α : Type} [Field α]

/-! ### sums -/

theorem sumN_eq_sum (f : Nat → α) (n : Nat) : sumN f n = ∑ i ∈ range n, f i := by
  induction n with
  | zero => simp [sumN]
  | succ n ih => rw [sumN, ih, sum_range_succ]

/-! ### u-fractions -/

/-- the substitutional u-fractions of `x_to_u_frac` sum to one (whenever the substitutional
mole fractions do not sum to zero) -/
theorem ufrac_subst_sum (n : Nat) (interst : Nat → Bool) (X : Nat → α)
    (hS : usum n interst X ≠ 0) :
    substSum n interst (ufrac n interst X) = 1 := by
  have h : ∀ a, (if interst a = true then (0:α) else ufrac n interst X a)
      = (if interst a = true then 0 else X a) / usum n interst X := by
    intro a; unfold ufrac; split <;> simp
  unfold substSum
  rw [sumN_eq_sum]
  simp only [h]
  rw [← sum_div]
  have : ∑ i ∈ range n, (if interst i = true then 0 else X i) = usum n interst X := by
    unfold usum; rw [sumN_eq_sum]
  rw [this, div_self hS]

/-! ### volume-fixed frame -/

/-- **column sums, substitutional column**: for a substitutional element b the entries of column b
of the mobility matrix over the substitutional rows sum to zero when Σ_subst U = 1. -/
theorem substCol_sum_zero (n : Nat) (interst : Nat → Bool) (vacPoor : Bool) (U M yVa : Nat → α)
    (Usum : α) (b : Nat) (hb : b < n) (hbs : interst b = false)
    (hU : substSum n interst U = 1) :
    substColSum n interst (mobMatrix interst vacPoor U M yVa Usum) b = 0 := by
  have key : ∀ a, (if interst a = true then (0:α) else mobMatrix interst vacPoor U M yVa Usum a b)
      = (if a = b then 1 else 0) * (mobU U M b * Usum)
        - (if interst a = true then 0 else U a) * (mobU U M b * Usum) := by
    intro a
    by_cases ha : interst a = true
    · have hab : a ≠ b := by
        rintro rfl; rw [ha] at hbs; exact Bool.noConfusion hbs
      simp [ha, hab]
    · by_cases hab : a = b
      · subst hab; simp [mobMatrix, ha]; ring
      · simp [mobMatrix, ha, hbs, hab]; ring
  unfold substSum at hU
  rw [sumN_eq_sum] at hU
  unfold substColSum substSum
  rw [sumN_eq_sum]
  simp only [key]
  rw [sum_sub_distrib, ← sum_mul, ← sum_mul, hU, sum_ite_eq']
  simp [hb]

/-- **column sums, interstitial column**: a substitutional row has no entry in an interstitial column -/
theorem substCol_sum_zero_interst (n : Nat) (interst : Nat → Bool) (vacPoor : Bool)
    (U M yVa : Nat → α) (Usum : α) (b : Nat) (hbs : interst b = true) :
    substColSum n interst (mobMatrix interst vacPoor U M yVa Usum) b = 0 := by
  unfold substColSum substSum
  rw [sumN_eq_sum]
  apply sum_eq_zero
  intro a _
  by_cases ha : interst a = true
  · simp [ha]
  · simp [mobMatrix, ha, hbs]

/-- exchange of the two sums: the substitutional fluxes add up to minus the column sums weighted by
the gradients — for ANY matrix -/
theorem substSum_flux (n : Nat) (interst : Nat → Bool) (Mm : Nat → Nat → α) (g : Nat → α) :
    substSum n interst (flux n Mm g) = - ∑ b ∈ range n, substColSum n interst Mm b * g b := by
  unfold substColSum substSum flux
  rw [sumN_eq_sum]
  simp only [sumN_eq_sum]
  have : ∀ a, (if interst a = true then (0:α) else - ∑ b ∈ range n, Mm a b * g b)
      = - ∑ b ∈ range n, (if interst a = true then 0 else Mm a b) * g b := by
    intro a; split <;> simp
  simp only [this]
  rw [sum_neg_distrib, sum_comm]
  congr 1
  apply sum_congr rfl
  intro b _
  rw [sum_mul]

/-- **volume-fixed frame**: the substitutional fluxes J = −M·∇μ implied by the mobility matrix sum
to zero for ANY chemical-potential gradient, as soon as the substitutional u-fractions sum to 1. -/
theorem subst_flux_sum_zero (n : Nat) (interst : Nat → Bool) (vacPoor : Bool) (U M yVa : Nat → α)
    (Usum : α) (g : Nat → α) (hU : substSum n interst U = 1) :
    substSum n interst (flux n (mobMatrix interst vacPoor U M yVa Usum) g) = 0 := by
  rw [substSum_flux, neg_eq_zero]
  apply sum_eq_zero
  intro b hb
  have hb' : b < n := mem_range.mp hb
  by_cases hbs : interst b = true
  · rw [substCol_sum_zero_interst n interst vacPoor U M yVa Usum b hbs, zero_mul]
  · have hbs' : interst b = false := by simpa using hbs
    rw [substCol_sum_zero n interst vacPoor U M yVa Usum b hb' hbs' hU, zero_mul]

/-- the same for the matrix exactly as `mobility_matrix` builds it from the mole fractions -/
theorem subst_flux_sum_zero_X (n : Nat) (interst : Nat → Bool) (vacPoor : Bool) (X M yVa : Nat → α)
    (g : Nat → α) (hS : usum n interst X ≠ 0) :
    substSum n interst (flux n (mobMatrixX n interst vacPoor X M yVa) g) = 0 :=
  subst_flux_sum_zero n interst vacPoor _ M yVa _ g (ufrac_subst_sum n interst X hS)

theorem substCol_sum_zero_X (n : Nat) (interst : Nat → Bool) (vacPoor : Bool) (X M yVa : Nat → α)
    (b : Nat) (hb : b < n) (hS : usum n interst X ≠ 0) :
    substColSum n interst (mobMatrixX n interst vacPoor X M yVa) b = 0 := by
  by_cases hbs : interst b = true
  · exact substCol_sum_zero_interst n interst vacPoor _ M yVa _ b hbs
  · exact substCol_sum_zero n interst vacPoor _ M yVa _ b hb (by simpa using hbs)
      (ufrac_subst_sum n interst X hS)

/-- an interstitial flux is driven by its own gradient only -/
theorem interst_flux (n : Nat) (interst : Nat → Bool) (vacPoor : Bool) (U M yVa : Nat → α)
    (Usum : α) (g : Nat → α) (a : Nat) (ha : a < n) (hai : interst a = true) :
    flux n (mobMatrix interst vacPoor U M yVa Usum) g a
      = - ((if vacPoor = true then mobU U M a else yVa a * mobU U M a) * Usum * g a) := by
  unfold flux
  rw [sumN_eq_sum, neg_inj]
  rw [sum_eq_single a]
  · simp [mobMatrix, hai]
  · intro b _ hba
    simp [mobMatrix, hai, Ne.symm hba]
  · intro h; exact absurd (mem_range.mpr ha) h

end field

/-! ### dMudX: row selection / subtraction on an arbitrary inverse -/

section dmu
variable {α : Type} [Field α]

theorem skip_ne (ref c : Nat) : skip ref c ≠ ref := by
  unfold skip; split <;> omega

theorem skip_lt (n ref c : Nat) (hc : c + 1 < n) : skip ref c < n := by
  unfold skip; split <;> omega

theorem skip_inj (ref c d : Nat) (h : skip ref c = skip ref d) : c = d := by
  unfold skip at h; split at h <;> split at h <;> omega

/-- the columns of `totalddx`: (inverse column of the reference) − (inverse column of element c) -/
theorem totalddx_eq (size i0 ref : Nat) (K : Nat → Nat → α) (r c : Nat)
    (h1 : i0 + ref < size) (h2 : i0 + skip ref c < size) :
    totalddx size i0 ref (some K) r c = K r (i0 + ref) - K r (i0 + skip ref c) := by
  simp only [totalddx, matmul, sumN_eq_sum]
  have hne : i0 + skip ref c ≠ i0 + ref := by have := skip_ne ref c; omega
  have key : ∀ k, K r k * rhsTotal i0 ref k c
      = (if k = i0 + ref then K r k else 0) - (if k = i0 + skip ref c then K r k else 0) := by
    intro k
    unfold rhsTotal
    by_cases hk1 : k = i0 + ref
    · have hk2 : k ≠ i0 + skip ref c := by omega
      simp [hk1, Ne.symm (skip_ne ref c)]
    · by_cases hk2 : k = i0 + skip ref c
      · simp [hk2, skip_ne ref c]
      · simp [hk1, hk2]
  simp only [key]
  rw [sum_sub_distrib, sum_ite_eq', sum_ite_eq']
  simp [h1, h2]

/-- the inversion failed: zeros -/
theorem totalddx_none (size i0 ref r c : Nat) :
    totalddx size i0 ref (none : Option (Nat → Nat → α)) r c = 0 := rfl

/-- **dMudX on an arbitrary inverse K** (four-term form): with A' = skip ref c', A = skip ref c, R = ref
`dMudX[c', c] = −( K[A',A] − K[A',R] − K[R,A] + K[R,R] )` on the chemical-potential block of K. -/
theorem dMudX_eq (size i0 ref : Nat) (K : Nat → Nat → α) (c' c : Nat)
    (h1 : i0 + ref < size) (h2 : i0 + skip ref c < size) :
    dMudX i0 ref (totalddx size i0 ref (some K)) c' c
      = - (K (i0 + skip ref c') (i0 + skip ref c) - K (i0 + skip ref c') (i0 + ref)
           - K (i0 + ref) (i0 + skip ref c) + K (i0 + ref) (i0 + ref)) := by
  unfold dMudX
  rw [totalddx_eq size i0 ref K _ c h1 h2, totalddx_eq size i0 ref K _ c h1 h2]
  split <;> ring

/-- the selection matrix B of `totalddx`/`dMudX`: column c is e_{A_c} − e_R in the μ block -/
def selB (i0 ref : Nat) (r c : Nat) : α :=
  if r = i0 + skip ref c then 1 else if r = i0 + ref then -1 else 0

/-- **dMudX = −Bᵀ·K·B** as a double sum over the whole bordered system -/
theorem dMudX_quadratic (size i0 ref : Nat) (K : Nat → Nat → α) (c' c : Nat)
    (h1 : i0 + ref < size) (h2 : i0 + skip ref c < size) (h3 : i0 + skip ref c' < size) :
    dMudX i0 ref (totalddx size i0 ref (some K)) c' c
      = - ∑ r ∈ range size, ∑ s ∈ range size, selB i0 ref r c' * K r s * selB i0 ref s c := by
  rw [dMudX_eq size i0 ref K c' c h1 h2]
  have hne : ∀ d, i0 + skip ref d ≠ i0 + ref := by intro d; have := skip_ne ref d; omega
  have inner : ∀ r, ∑ s ∈ range size, selB i0 ref r c' * K r s * selB i0 ref s c
      = selB i0 ref r c' * (K r (i0 + skip ref c) - K r (i0 + ref)) := by
    intro r
    have key : ∀ s, selB i0 ref r c' * K r s * selB i0 ref s c
        = (if s = i0 + skip ref c then selB i0 ref r c' * K r s else 0)
          - (if s = i0 + ref then selB i0 ref r c' * K r s else 0) := by
      intro s
      by_cases hs1 : s = i0 + skip ref c
      · simp [selB, hs1, skip_ne ref c]
      · by_cases hs2 : s = i0 + ref
        · simp [selB, hs2, Ne.symm (skip_ne ref c)]
        · simp [selB, hs1, hs2]
    simp only [key]
    rw [sum_sub_distrib, sum_ite_eq', sum_ite_eq']
    simp [h1, h2]; ring
  simp only [inner]
  have outer : ∀ r, selB i0 ref r c' * (K r (i0 + skip ref c) - K r (i0 + ref))
      = (if r = i0 + skip ref c' then (K r (i0 + skip ref c) - K r (i0 + ref)) else 0)
        - (if r = i0 + ref then (K r (i0 + skip ref c) - K r (i0 + ref)) else 0) := by
    intro r
    by_cases hr1 : r = i0 + skip ref c'
    · simp [selB, hr1, skip_ne ref c']
    · by_cases hr2 : r = i0 + ref
      · simp [selB, hr2, Ne.symm (skip_ne ref c')]
      · simp [selB, hr1, hr2]
  simp only [outer]
  rw [sum_sub_distrib, sum_ite_eq', sum_ite_eq']
  simp [h1, h3]; ring

/-- **symmetry**: dMudX is symmetric whenever the (inverse of the) bordered Hessian is symmetric
on its chemical-potential block. -/
theorem dMudX_symm (size i0 ref : Nat) (K : Nat → Nat → α) (c' c : Nat)
    (h1 : i0 + ref < size) (h2 : i0 + skip ref c < size) (h3 : i0 + skip ref c' < size)
    (hK : ∀ i j, i0 ≤ i → i < size → i0 ≤ j → j < size → K i j = K j i) :
    dMudX i0 ref (totalddx size i0 ref (some K)) c' c
      = dMudX i0 ref (totalddx size i0 ref (some K)) c c' := by
  rw [dMudX_eq size i0 ref K c' c h1 h2, dMudX_eq size i0 ref K c c' h1 h3]
  rw [hK (i0 + skip ref c') (i0 + skip ref c) (by omega) h3 (by omega) h2,
      hK (i0 + skip ref c') (i0 + ref) (by omega) h3 (by omega) h1,
      hK (i0 + ref) (i0 + skip ref c) (by omega) h1 (by omega) h2]
  ring

/-- failed inversion: dMudX is the zero matrix -/
theorem dMudX_none (size i0 ref c' c : Nat) :
    dMudX i0 ref (totalddx size i0 ref (none : Option (Nat → Nat → α))) c' c = 0 := by
  unfold dMudX; simp [totalddx_none]

/-- `partialdMudX[A, B] = −K[i0+A, i0+B]`: minus the chemical-potential block of the inverse -/
theorem partialdMudX_eq (size i0 : Nat) (K : Nat → Nat → α) (A B : Nat) (hB : i0 + B < size) :
    partialdMudX i0 (partialddx size i0 (some K)) A B = - K (i0 + A) (i0 + B) := by
  simp only [partialdMudX, partialddx, matmul, sumN_eq_sum]
  have key : ∀ k, K (i0 + A) k * rhsPartial i0 k B
      = if k = i0 + B then - K (i0 + A) k else 0 := by
    intro k; unfold rhsPartial; split <;> simp
  simp only [key]
  rw [sum_ite_eq']
  simp [hB]

/-- total from partial derivatives: `dMudX[c',c] = P[A',A] − P[A',R] − P[R,A] + P[R,R]`
(the docstring formula of dMudX, for the matrices the code actually computes) -/
theorem dMudX_from_partial (size i0 n ref : Nat) (K : Nat → Nat → α) (c' c : Nat)
    (hsize : i0 + n ≤ size) (href : ref < n) (hc : c + 1 < n) :
    let P := partialdMudX i0 (partialddx size i0 (some K))
    dMudX i0 ref (totalddx size i0 ref (some K)) c' c
      = P (skip ref c') (skip ref c) - P (skip ref c') ref - P ref (skip ref c) + P ref ref := by
  intro P
  have hs := skip_lt n ref c hc
  rw [dMudX_eq size i0 ref K c' c (by omega) (by omega)]
  simp only [P]
  rw [partialdMudX_eq size i0 K _ _ (by omega), partialdMudX_eq size i0 K _ _ (by omega),
      partialdMudX_eq size i0 K _ _ (by omega), partialdMudX_eq size i0 K _ _ (by omega)]
  ring

end dmu

/-! ### tracer diffusivity (traced from the source) -/

section tracer
variable {α : Type} [Field α] [Trans α]
open KawinV.Gen.C10

/-- the gas constant the source writes: 8.314 -/
def Rgas : α := 4157 / 500

/-- **tracer = R·T·M, element-wise**: every output of the traced `tracer_diffusivity` is R·T times
the same output of the traced `mobility_from_composition_set` (and involves no other element) -/
theorem tracer_e0_eq (T c0 m0 c1 m1 c2 m2 : α) :
    tracer_e0 T c0 m0 c1 m1 c2 m2 = Rgas * T * mobility_e0 T c0 m0 c1 m1 c2 m2 := by
  simp [tracer_e0, mobility_e0, Rgas]
theorem tracer_e1_eq (T c0 m0 c1 m1 c2 m2 : α) :
    tracer_e1 T c0 m0 c1 m1 c2 m2 = Rgas * T * mobility_e1 T c0 m0 c1 m1 c2 m2 := by
  simp [tracer_e1, mobility_e1, Rgas]
theorem tracer_e2_eq (T c0 m0 c1 m1 c2 m2 : α) :
    tracer_e2 T c0 m0 c1 m1 c2 m2 = Rgas * T * mobility_e2 T c0 m0 c1 m1 c2 m2 := by
  simp [tracer_e2, mobility_e2, Rgas]

/-- the mobility of an element is its mobility correction times its callable value, nothing else -/
theorem mobility_elementwise (T c0 m0 c1 m1 c2 m2 : α) :
    mobility_all T c0 m0 c1 m1 c2 m2 = [c0 * m0, c1 * m1, c2 * m2] := by
  simp [mobility_all, mobility_e0, mobility_e1, mobility_e2]

theorem tracer_elementwise (T c0 m0 c1 m1 c2 m2 : α) :
    tracer_all T c0 m0 c1 m1 c2 m2
      = (mobility_all T c0 m0 c1 m1 c2 m2).map (fun M => Rgas * T * M) := by
  simp [tracer_all, mobility_all, tracer_e0_eq, tracer_e1_eq, tracer_e2_eq]

end tracer

section tracerpos
variable {α : Type} [Field α] [LinearOrder α] [IsStrictOrderedRing α] [Trans α]
open KawinV.Gen.C10

theorem Rgas_pos : (0:α) < Rgas := by unfold Rgas; positivity

/-- **positive tracer diffusivity**: at a positive temperature every tracer diffusivity has the
sign of the mobility; positive if the mobility is -/
theorem tracer_pos (T : α) (hT : 0 < T) (ms : List α) (h : ∀ M ∈ ms, 0 < M) :
    ∀ D ∈ ms.map (fun M => Rgas * T * M), 0 < D := by
  intro D hD
  obtain ⟨M, hM, rfl⟩ := List.mem_map.mp hD
  exact mul_pos (mul_pos Rgas_pos hT) (h M hM)

theorem tracer_all_pos (T c0 m0 c1 m1 c2 m2 : α) (hT : 0 < T)
    (h : ∀ M ∈ mobility_all T c0 m0 c1 m1 c2 m2, 0 < M) :
    ∀ D ∈ tracer_all T c0 m0 c1 m1 c2 m2, 0 < D := by
  rw [tracer_elementwise]; exact tracer_pos T hT _ h

end tracerpos

/-! ### Darken -/

section darken
variable {α : Type} [Field α]

theorem darken_simp (xk xR Mk MR G2 Rg T : α) (hRT : Rg * T ≠ 0) :
    darken xk xR (Rg * T * Mk) (Rg * T * MR) (thermoFactor xk xR G2 Rg T)
      = (xR * Mk + xk * MR) * (xk * xR * G2) := by
  have hR : Rg ≠ 0 := left_ne_zero_of_mul hRT
  have hT : T ≠ 0 := right_ne_zero_of_mul hRT
  unfold darken thermoFactor
  field_simp

theorem usum_two (X : Nat → α) : usum 2 (fun _ => false) X = X 0 + X 1 := by
  simp [usum, sumN]

/-- **Darken, reference element 0** (binary substitutional solution, elements 0 and 1).
Hypotheses: the mole fractions sum to one; the PARTIAL derivative matrix P = ∂μ_i/∂x_j the code
multiplies the mobility matrix with satisfies Gibbs–Duhem, Σ_i x_i·P_ij = 0 for both columns.
Then the code's interdiffusivity `Dkj[1,1] − Dkj[1,0]` is (x_0·D*_1 + x_1·D*_0)·Φ with
D* = R·T·M and Φ = x_0·x_1·G''/(R·T), G'' = P_11 − P_10 − P_01 + P_00 (what `dMudX` returns,
theorem `dMudX_from_partial`). -/
theorem darken_ref0 (vacPoor : Bool) (X M yVa : Nat → α) (P : Nat → Nat → α) (Rg T : α)
    (hX : X 0 + X 1 = 1) (hRT : Rg * T ≠ 0)
    (hGD0 : X 0 * P 0 0 + X 1 * P 1 0 = 0) (hGD1 : X 0 * P 0 1 + X 1 * P 1 1 = 0) :
    interdiff 0 (fun _ => false) (chemDiff 2 (mobMatrixX 2 (fun _ => false) vacPoor X M yVa) P) 0 0
      = darken (X 1) (X 0) (Rg * T * M 1) (Rg * T * M 0)
          (thermoFactor (X 1) (X 0) (P 1 1 - P 1 0 - P 0 1 + P 0 0) Rg T) := by
  rw [darken_simp _ _ _ _ _ _ _ hRT]
  simp [interdiff, skip, chemDiff, matmul, sumN, mobMatrixX, mobMatrix, mobU, ufrac, usum_two, hX]
  linear_combination (X 0 * X 1 * (M 1 - M 0)) * (hGD1 - hGD0)
    + (- X 1 * M 1 * (P 1 1 - P 1 0) - X 0 * X 1 * M 1 * (P 1 1 - P 1 0)
       + X 0 * X 1 * M 0 * (P 0 1 - P 0 0)) * hX

/-- **Darken, reference element 1** -/
theorem darken_ref1 (vacPoor : Bool) (X M yVa : Nat → α) (P : Nat → Nat → α) (Rg T : α)
    (hX : X 0 + X 1 = 1) (hRT : Rg * T ≠ 0)
    (hGD0 : X 0 * P 0 0 + X 1 * P 1 0 = 0) (hGD1 : X 0 * P 0 1 + X 1 * P 1 1 = 0) :
    interdiff 1 (fun _ => false) (chemDiff 2 (mobMatrixX 2 (fun _ => false) vacPoor X M yVa) P) 0 0
      = darken (X 0) (X 1) (Rg * T * M 0) (Rg * T * M 1)
          (thermoFactor (X 0) (X 1) (P 0 0 - P 0 1 - P 1 0 + P 1 1) Rg T) := by
  rw [darken_simp _ _ _ _ _ _ _ hRT]
  simp [interdiff, skip, chemDiff, matmul, sumN, mobMatrixX, mobMatrix, mobU, ufrac, usum_two, hX]
  linear_combination (X 0 * X 1 * (M 0 - M 1)) * (hGD0 - hGD1)
    + (- X 0 * M 0 * (P 0 0 - P 0 1) - X 0 * X 1 * M 0 * (P 0 0 - P 0 1)
       + X 0 * X 1 * M 1 * (P 1 0 - P 1 1)) * hX

/-- Gibbs–Duhem in column form follows from the Euler (row) form Σ_j P_ij·x_j = 0 when the
partial-derivative matrix is symmetric -/
theorem gd_of_euler_symm (X : Nat → α) (P : Nat → Nat → α)
    (hsym : P 0 1 = P 1 0)
    (hE0 : P 0 0 * X 0 + P 0 1 * X 1 = 0) (hE1 : P 1 0 * X 0 + P 1 1 * X 1 = 0) :
    X 0 * P 0 0 + X 1 * P 1 0 = 0 ∧ X 0 * P 0 1 + X 1 * P 1 1 = 0 := by
  constructor
  · linear_combination hE0 - X 1 * hsym
  · linear_combination hE1 + X 0 * hsym

end darken

end KawinV.Props.C10
