/-
C10 — property theorems (stub; nothing proved yet).
-/
namespace KawinV.Props.C10
end KawinV.Props.C10
