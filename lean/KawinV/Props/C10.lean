/-
C10 — diffusivities are physically valid and match the free-energy curvature.

Property theorems about `KawinV.Mob` (mobility matrix, flux), `KawinV.DMu` (bordered-Hessian
assembly, dMudX / partialdMudX index selection, chemical_diffusivity / interdiffusivity) and the
traced `tracer_diffusivity` (`KawinV.Gen.C10`), all tied to kawin/thermo by tools/corr/C10.py.
α is any field (ordered field for the sign statements); any number of elements.

NOT proved here (facts about the CALPHAD functions / pycalphad, monitored by the oracle only):
agreement of dμ/dx with finite differences of the equilibrium chemical potentials, positive
definiteness, real positive eigenvalues of the interdiffusivity, positivity of the mobilities.
-/
import KawinV.Model.MobMatrix
import KawinV.Model.DMuDX
import KawinV.Gen.C10Tracer
import KawinV.Model.MobTable
import Mathlib.Tactic.Ring
import Mathlib.Tactic.Linarith
import Mathlib.Tactic.FieldSimp
import Mathlib.Tactic.NormNum
import Mathlib.Tactic.Positivity
import Mathlib.Tactic.LinearCombination
import Mathlib.Tactic.IntervalCases
import Mathlib.Algebra.Order.Field.Rat
import Mathlib.Algebra.Order.Field.Basic
import Mathlib.Algebra.BigOperators.Group.Finset.Basic
import Mathlib.Algebra.BigOperators.Ring.Finset
import Mathlib.Algebra.BigOperators.Intervals
import Mathlib.Algebra.BigOperators.Field
import Mathlib.LinearAlgebra.Matrix.NonsingularInverse

set_option linter.unusedSectionVars false
set_option linter.unusedVariables false
set_option linter.unusedSimpArgs false

namespace KawinV.Props.C10
open KawinV KawinV.Mob KawinV.DMu
open Finset

section field
variable {α : Type} [Field α]

/-! ### sums -/

theorem sumN_eq_sum (f : Nat → α) (n : Nat) : sumN f n = ∑ i ∈ range n, f i := by
  induction n with
  | zero => simp [sumN]
  | succ n ih => rw [sumN, ih, sum_range_succ]

/-! ### u-fractions -/

/-- the substitutional u-fractions of `x_to_u_frac` sum to one (whenever the substitutional
mole fractions do not sum to zero) -/
theorem ufrac_subst_sum (n : Nat) (interst : Nat → Bool) (X : Nat → α)
    (hS : usum n interst X ≠ 0) :
    substSum n interst (ufrac n interst X) = 1 := by
  have h : ∀ a, (if interst a = true then (0:α) else ufrac n interst X a)
      = (if interst a = true then 0 else X a) / usum n interst X := by
    intro a; unfold ufrac; split <;> simp
  unfold substSum
  rw [sumN_eq_sum]
  simp only [h]
  rw [← sum_div]
  have : ∑ i ∈ range n, (if interst i = true then 0 else X i) = usum n interst X := by
    unfold usum; rw [sumN_eq_sum]
  rw [this, div_self hS]

/-! ### volume-fixed frame -/

/-- **column sums, substitutional column**: for a substitutional element b the entries of column b
of the mobility matrix over the substitutional rows sum to zero when Σ_subst U = 1. -/
theorem substCol_sum_zero (n : Nat) (interst : Nat → Bool) (vacPoor : Bool) (U M yVa : Nat → α)
    (Usum : α) (b : Nat) (hb : b < n) (hbs : interst b = false)
    (hU : substSum n interst U = 1) :
    substColSum n interst (mobMatrix interst vacPoor U M yVa Usum) b = 0 := by
  have key : ∀ a, (if interst a = true then (0:α) else mobMatrix interst vacPoor U M yVa Usum a b)
      = (if a = b then 1 else 0) * (mobU U M b * Usum)
        - (if interst a = true then 0 else U a) * (mobU U M b * Usum) := by
    intro a
    by_cases ha : interst a = true
    · have hab : a ≠ b := by
        rintro rfl; rw [ha] at hbs; exact Bool.noConfusion hbs
      simp [ha, hab]
    · by_cases hab : a = b
      · subst hab; simp [mobMatrix, ha]; ring
      · simp [mobMatrix, ha, hbs, hab]; ring
  unfold substSum at hU
  rw [sumN_eq_sum] at hU
  unfold substColSum substSum
  rw [sumN_eq_sum]
  simp only [key]
  rw [sum_sub_distrib, ← sum_mul, ← sum_mul, hU, sum_ite_eq']
  simp [hb]

/-- **column sums, interstitial column**: a substitutional row has no entry in an interstitial column -/
theorem substCol_sum_zero_interst (n : Nat) (interst : Nat → Bool) (vacPoor : Bool)
    (U M yVa : Nat → α) (Usum : α) (b : Nat) (hbs : interst b = true) :
    substColSum n interst (mobMatrix interst vacPoor U M yVa Usum) b = 0 := by
  unfold substColSum substSum
  rw [sumN_eq_sum]
  apply sum_eq_zero
  intro a _
  by_cases ha : interst a = true
  · simp [ha]
  · simp [mobMatrix, ha, hbs]

/-- exchange of the two sums: the substitutional fluxes add up to minus the column sums weighted by
the gradients — for ANY matrix -/
theorem substSum_flux (n : Nat) (interst : Nat → Bool) (Mm : Nat → Nat → α) (g : Nat → α) :
    substSum n interst (flux n Mm g) = - ∑ b ∈ range n, substColSum n interst Mm b * g b := by
  unfold substColSum substSum flux
  rw [sumN_eq_sum]
  simp only [sumN_eq_sum]
  have : ∀ a, (if interst a = true then (0:α) else - ∑ b ∈ range n, Mm a b * g b)
      = - ∑ b ∈ range n, (if interst a = true then 0 else Mm a b) * g b := by
    intro a; split <;> simp
  simp only [this]
  rw [sum_neg_distrib, sum_comm]
  congr 1
  apply sum_congr rfl
  intro b _
  rw [sum_mul]

/-- **volume-fixed frame**: the substitutional fluxes J = −M·∇μ implied by the mobility matrix sum
to zero for ANY chemical-potential gradient, as soon as the substitutional u-fractions sum to 1. -/
theorem subst_flux_sum_zero (n : Nat) (interst : Nat → Bool) (vacPoor : Bool) (U M yVa : Nat → α)
    (Usum : α) (g : Nat → α) (hU : substSum n interst U = 1) :
    substSum n interst (flux n (mobMatrix interst vacPoor U M yVa Usum) g) = 0 := by
  rw [substSum_flux, neg_eq_zero]
  apply sum_eq_zero
  intro b hb
  have hb' : b < n := mem_range.mp hb
  by_cases hbs : interst b = true
  · rw [substCol_sum_zero_interst n interst vacPoor U M yVa Usum b hbs, zero_mul]
  · have hbs' : interst b = false := by simpa using hbs
    rw [substCol_sum_zero n interst vacPoor U M yVa Usum b hb' hbs' hU, zero_mul]

/-- the same for the matrix exactly as `mobility_matrix` builds it from the mole fractions -/
theorem subst_flux_sum_zero_X (n : Nat) (interst : Nat → Bool) (vacPoor : Bool) (X M yVa : Nat → α)
    (g : Nat → α) (hS : usum n interst X ≠ 0) :
    substSum n interst (flux n (mobMatrixX n interst vacPoor X M yVa) g) = 0 :=
  subst_flux_sum_zero n interst vacPoor _ M yVa _ g (ufrac_subst_sum n interst X hS)

theorem substCol_sum_zero_X (n : Nat) (interst : Nat → Bool) (vacPoor : Bool) (X M yVa : Nat → α)
    (b : Nat) (hb : b < n) (hS : usum n interst X ≠ 0) :
    substColSum n interst (mobMatrixX n interst vacPoor X M yVa) b = 0 := by
  by_cases hbs : interst b = true
  · exact substCol_sum_zero_interst n interst vacPoor _ M yVa _ b hbs
  · exact substCol_sum_zero n interst vacPoor _ M yVa _ b hb (by simpa using hbs)
      (ufrac_subst_sum n interst X hS)

/-- an interstitial flux is driven by its own gradient only -/
theorem interst_flux (n : Nat) (interst : Nat → Bool) (vacPoor : Bool) (U M yVa : Nat → α)
    (Usum : α) (g : Nat → α) (a : Nat) (ha : a < n) (hai : interst a = true) :
    flux n (mobMatrix interst vacPoor U M yVa Usum) g a
      = - ((if vacPoor = true then mobU U M a else yVa a * mobU U M a) * Usum * g a) := by
  unfold flux
  rw [sumN_eq_sum, neg_inj]
  rw [sum_eq_single a]
  · simp [mobMatrix, hai]
  · intro b _ hba
    simp [mobMatrix, hai, Ne.symm hba]
  · intro h; exact absurd (mem_range.mpr ha) h

end field

/-! ### dMudX: row selection / subtraction on an arbitrary inverse -/

section dmu
variable {α : Type} [Field α]

theorem skip_ne (ref c : Nat) : skip ref c ≠ ref := by
  unfold skip; split <;> omega

theorem skip_lt (n ref c : Nat) (hc : c + 1 < n) : skip ref c < n := by
  unfold skip; split <;> omega

theorem skip_inj (ref c d : Nat) (h : skip ref c = skip ref d) : c = d := by
  unfold skip at h; split at h <;> split at h <;> omega

/-- the columns of `totalddx`: (inverse column of the reference) − (inverse column of element c) -/
theorem totalddx_eq (size i0 ref : Nat) (K : Nat → Nat → α) (r c : Nat)
    (h1 : i0 + ref < size) (h2 : i0 + skip ref c < size) :
    totalddx size i0 ref (some K) r c = K r (i0 + ref) - K r (i0 + skip ref c) := by
  simp only [totalddx, matmul, sumN_eq_sum]
  have hne : i0 + skip ref c ≠ i0 + ref := by have := skip_ne ref c; omega
  have key : ∀ k, K r k * rhsTotal i0 ref k c
      = (if k = i0 + ref then K r k else 0) - (if k = i0 + skip ref c then K r k else 0) := by
    intro k
    unfold rhsTotal
    by_cases hk1 : k = i0 + ref
    · have hk2 : k ≠ i0 + skip ref c := by omega
      simp [hk1, Ne.symm (skip_ne ref c)]
    · by_cases hk2 : k = i0 + skip ref c
      · simp [hk2, skip_ne ref c]
      · simp [hk1, hk2]
  simp only [key]
  rw [sum_sub_distrib, sum_ite_eq', sum_ite_eq']
  simp [h1, h2]

/-- the inversion failed: zeros -/
theorem totalddx_none (size i0 ref r c : Nat) :
    totalddx size i0 ref (none : Option (Nat → Nat → α)) r c = 0 := rfl

/-- **dMudX on an arbitrary inverse K** (four-term form): with A' = skip ref c', A = skip ref c, R = ref
`dMudX[c', c] = −( K[A',A] − K[A',R] − K[R,A] + K[R,R] )` on the chemical-potential block of K. -/
theorem dMudX_eq (size i0 ref : Nat) (K : Nat → Nat → α) (c' c : Nat)
    (h1 : i0 + ref < size) (h2 : i0 + skip ref c < size) :
    dMudX i0 ref (totalddx size i0 ref (some K)) c' c
      = - (K (i0 + skip ref c') (i0 + skip ref c) - K (i0 + skip ref c') (i0 + ref)
           - K (i0 + ref) (i0 + skip ref c) + K (i0 + ref) (i0 + ref)) := by
  unfold dMudX
  rw [totalddx_eq size i0 ref K _ c h1 h2, totalddx_eq size i0 ref K _ c h1 h2]
  split <;> ring

/-- the selection matrix B of `totalddx`/`dMudX`: column c is e_{A_c} − e_R in the μ block -/
def selB (i0 ref : Nat) (r c : Nat) : α :=
  if r = i0 + skip ref c then 1 else if r = i0 + ref then -1 else 0

/-- **dMudX = −Bᵀ·K·B** as a double sum over the whole bordered system -/
theorem dMudX_quadratic (size i0 ref : Nat) (K : Nat → Nat → α) (c' c : Nat)
    (h1 : i0 + ref < size) (h2 : i0 + skip ref c < size) (h3 : i0 + skip ref c' < size) :
    dMudX i0 ref (totalddx size i0 ref (some K)) c' c
      = - ∑ r ∈ range size, ∑ s ∈ range size, selB i0 ref r c' * K r s * selB i0 ref s c := by
  rw [dMudX_eq size i0 ref K c' c h1 h2]
  have hne : ∀ d, i0 + skip ref d ≠ i0 + ref := by intro d; have := skip_ne ref d; omega
  have inner : ∀ r, ∑ s ∈ range size, selB i0 ref r c' * K r s * selB i0 ref s c
      = selB i0 ref r c' * (K r (i0 + skip ref c) - K r (i0 + ref)) := by
    intro r
    have key : ∀ s, selB i0 ref r c' * K r s * selB i0 ref s c
        = (if s = i0 + skip ref c then selB i0 ref r c' * K r s else 0)
          - (if s = i0 + ref then selB i0 ref r c' * K r s else 0) := by
      intro s
      by_cases hs1 : s = i0 + skip ref c
      · simp [selB, hs1, skip_ne ref c]
      · by_cases hs2 : s = i0 + ref
        · simp [selB, hs2, Ne.symm (skip_ne ref c)]
        · simp [selB, hs1, hs2]
    simp only [key]
    rw [sum_sub_distrib, sum_ite_eq', sum_ite_eq']
    simp [h1, h2]; ring
  simp only [inner]
  have outer : ∀ r, selB i0 ref r c' * (K r (i0 + skip ref c) - K r (i0 + ref))
      = (if r = i0 + skip ref c' then (K r (i0 + skip ref c) - K r (i0 + ref)) else 0)
        - (if r = i0 + ref then (K r (i0 + skip ref c) - K r (i0 + ref)) else 0) := by
    intro r
    by_cases hr1 : r = i0 + skip ref c'
    · simp [selB, hr1, skip_ne ref c']
    · by_cases hr2 : r = i0 + ref
      · simp [selB, hr2, Ne.symm (skip_ne ref c')]
      · simp [selB, hr1, hr2]
  simp only [outer]
  rw [sum_sub_distrib, sum_ite_eq', sum_ite_eq']
  simp [h1, h3]; ring

/-- **symmetry**: dMudX is symmetric whenever the (inverse of the) bordered Hessian is symmetric
on its chemical-potential block. -/
theorem dMudX_symm (size i0 ref : Nat) (K : Nat → Nat → α) (c' c : Nat)
    (h1 : i0 + ref < size) (h2 : i0 + skip ref c < size) (h3 : i0 + skip ref c' < size)
    (hK : ∀ i j, i0 ≤ i → i < size → i0 ≤ j → j < size → K i j = K j i) :
    dMudX i0 ref (totalddx size i0 ref (some K)) c' c
      = dMudX i0 ref (totalddx size i0 ref (some K)) c c' := by
  rw [dMudX_eq size i0 ref K c' c h1 h2, dMudX_eq size i0 ref K c c' h1 h3]
  rw [hK (i0 + skip ref c') (i0 + skip ref c) (by omega) h3 (by omega) h2,
      hK (i0 + skip ref c') (i0 + ref) (by omega) h3 (by omega) h1,
      hK (i0 + ref) (i0 + skip ref c) (by omega) h1 (by omega) h2]
  ring

/-- failed inversion: dMudX is the zero matrix -/
theorem dMudX_none (size i0 ref c' c : Nat) :
    dMudX i0 ref (totalddx size i0 ref (none : Option (Nat → Nat → α))) c' c = 0 := by
  unfold dMudX; simp [totalddx_none]

/-- `partialdMudX[A, B] = −K[i0+A, i0+B]`: minus the chemical-potential block of the inverse -/
theorem partialdMudX_eq (size i0 : Nat) (K : Nat → Nat → α) (A B : Nat) (hB : i0 + B < size) :
    partialdMudX i0 (partialddx size i0 (some K)) A B = - K (i0 + A) (i0 + B) := by
  simp only [partialdMudX, partialddx, matmul, sumN_eq_sum]
  have key : ∀ k, K (i0 + A) k * rhsPartial i0 k B
      = if k = i0 + B then - K (i0 + A) k else 0 := by
    intro k; unfold rhsPartial; split <;> simp
  simp only [key]
  rw [sum_ite_eq']
  simp [hB]

/-- total from partial derivatives: `dMudX[c',c] = P[A',A] − P[A',R] − P[R,A] + P[R,R]`
(the docstring formula of dMudX, for the matrices the code actually computes) -/
theorem dMudX_from_partial (size i0 n ref : Nat) (K : Nat → Nat → α) (c' c : Nat)
    (hsize : i0 + n ≤ size) (href : ref < n) (hc : c + 1 < n) :
    let P := partialdMudX i0 (partialddx size i0 (some K))
    dMudX i0 ref (totalddx size i0 ref (some K)) c' c
      = P (skip ref c') (skip ref c) - P (skip ref c') ref - P ref (skip ref c) + P ref ref := by
  intro P
  have hs := skip_lt n ref c hc
  rw [dMudX_eq size i0 ref K c' c (by omega) (by omega)]
  simp only [P]
  rw [partialdMudX_eq size i0 K _ _ (by omega), partialdMudX_eq size i0 K _ _ (by omega),
      partialdMudX_eq size i0 K _ _ (by omega), partialdMudX_eq size i0 K _ _ (by omega)]
  ring

end dmu

/-! ### tracer diffusivity (traced from the source) -/

section tracer
variable {α : Type} [Field α] [Trans α]
open KawinV.Gen.C10

/-- the gas constant the source writes: 8.314 -/
def Rgas : α := 4157 / 500

/-- **tracer = R·T·M, element-wise**: every output of the traced `tracer_diffusivity` is R·T times
the same output of the traced `mobility_from_composition_set` (and involves no other element) -/
theorem tracer_e0_eq (T c0 m0 c1 m1 c2 m2 : α) :
    tracer_e0 T c0 m0 c1 m1 c2 m2 = Rgas * T * mobility_e0 T c0 m0 c1 m1 c2 m2 := by
  simp [tracer_e0, mobility_e0, Rgas]
theorem tracer_e1_eq (T c0 m0 c1 m1 c2 m2 : α) :
    tracer_e1 T c0 m0 c1 m1 c2 m2 = Rgas * T * mobility_e1 T c0 m0 c1 m1 c2 m2 := by
  simp [tracer_e1, mobility_e1, Rgas]
theorem tracer_e2_eq (T c0 m0 c1 m1 c2 m2 : α) :
    tracer_e2 T c0 m0 c1 m1 c2 m2 = Rgas * T * mobility_e2 T c0 m0 c1 m1 c2 m2 := by
  simp [tracer_e2, mobility_e2, Rgas]

/-- the mobility of an element is its mobility correction times its callable value, nothing else -/
theorem mobility_elementwise (T c0 m0 c1 m1 c2 m2 : α) :
    mobility_all T c0 m0 c1 m1 c2 m2 = [c0 * m0, c1 * m1, c2 * m2] := by
  simp [mobility_all, mobility_e0, mobility_e1, mobility_e2]

theorem tracer_elementwise (T c0 m0 c1 m1 c2 m2 : α) :
    tracer_all T c0 m0 c1 m1 c2 m2
      = (mobility_all T c0 m0 c1 m1 c2 m2).map (fun M => Rgas * T * M) := by
  simp [tracer_all, mobility_all, tracer_e0_eq, tracer_e1_eq, tracer_e2_eq]

end tracer

section tracerpos
variable {α : Type} [Field α] [LinearOrder α] [IsStrictOrderedRing α] [Trans α]
open KawinV.Gen.C10

theorem Rgas_pos : (0:α) < Rgas := by unfold Rgas; positivity

/-- **positive tracer diffusivity**: at a positive temperature every tracer diffusivity has the
sign of the mobility; positive if the mobility is -/
theorem tracer_pos (T : α) (hT : 0 < T) (ms : List α) (h : ∀ M ∈ ms, 0 < M) :
    ∀ D ∈ ms.map (fun M => Rgas * T * M), 0 < D := by
  intro D hD
  obtain ⟨M, hM, rfl⟩ := List.mem_map.mp hD
  exact mul_pos (mul_pos Rgas_pos hT) (h M hM)

theorem tracer_all_pos (T c0 m0 c1 m1 c2 m2 : α) (hT : 0 < T)
    (h : ∀ M ∈ mobility_all T c0 m0 c1 m1 c2 m2, 0 < M) :
    ∀ D ∈ tracer_all T c0 m0 c1 m1 c2 m2, 0 < D := by
  rw [tracer_elementwise]; exact tracer_pos T hT _ h

end tracerpos

/-! ### Darken -/

section darken
variable {α : Type} [Field α]

theorem darken_simp (xk xR Mk MR G2 Rg T : α) (hRT : Rg * T ≠ 0) :
    darken xk xR (Rg * T * Mk) (Rg * T * MR) (thermoFactor xk xR G2 Rg T)
      = (xR * Mk + xk * MR) * (xk * xR * G2) := by
  have hR : Rg ≠ 0 := left_ne_zero_of_mul hRT
  have hT : T ≠ 0 := right_ne_zero_of_mul hRT
  unfold darken thermoFactor
  field_simp

theorem usum_two (X : Nat → α) : usum 2 (fun _ => false) X = X 0 + X 1 := by
  simp [usum, sumN]

/-- **Darken, reference element 0** (binary substitutional solution, elements 0 and 1).
Hypotheses: the mole fractions sum to one; the PARTIAL derivative matrix P = ∂μ_i/∂x_j the code
multiplies the mobility matrix with satisfies Gibbs–Duhem, Σ_i x_i·P_ij = 0 for both columns.
Then the code's interdiffusivity `Dkj[1,1] − Dkj[1,0]` is (x_0·D*_1 + x_1·D*_0)·Φ with
D* = R·T·M and Φ = x_0·x_1·G''/(R·T), G'' = P_11 − P_10 − P_01 + P_00 (what `dMudX` returns,
theorem `dMudX_from_partial`). -/
theorem darken_ref0 (vacPoor : Bool) (X M yVa : Nat → α) (P : Nat → Nat → α) (Rg T : α)
    (hX : X 0 + X 1 = 1) (hRT : Rg * T ≠ 0)
    (hGD0 : X 0 * P 0 0 + X 1 * P 1 0 = 0) (hGD1 : X 0 * P 0 1 + X 1 * P 1 1 = 0) :
    interdiff 0 (fun _ => false) (chemDiff 2 (mobMatrixX 2 (fun _ => false) vacPoor X M yVa) P) 0 0
      = darken (X 1) (X 0) (Rg * T * M 1) (Rg * T * M 0)
          (thermoFactor (X 1) (X 0) (P 1 1 - P 1 0 - P 0 1 + P 0 0) Rg T) := by
  rw [darken_simp _ _ _ _ _ _ _ hRT]
  simp [interdiff, skip, chemDiff, matmul, sumN, mobMatrixX, mobMatrix, mobU, ufrac, usum_two, hX]
  linear_combination (X 0 * X 1 * (M 1 - M 0)) * (hGD1 - hGD0)
    + (- X 1 * M 1 * (P 1 1 - P 1 0) - X 0 * X 1 * M 1 * (P 1 1 - P 1 0)
       + X 0 * X 1 * M 0 * (P 0 1 - P 0 0)) * hX

/-- **Darken, reference element 1** -/
theorem darken_ref1 (vacPoor : Bool) (X M yVa : Nat → α) (P : Nat → Nat → α) (Rg T : α)
    (hX : X 0 + X 1 = 1) (hRT : Rg * T ≠ 0)
    (hGD0 : X 0 * P 0 0 + X 1 * P 1 0 = 0) (hGD1 : X 0 * P 0 1 + X 1 * P 1 1 = 0) :
    interdiff 1 (fun _ => false) (chemDiff 2 (mobMatrixX 2 (fun _ => false) vacPoor X M yVa) P) 0 0
      = darken (X 0) (X 1) (Rg * T * M 0) (Rg * T * M 1)
          (thermoFactor (X 0) (X 1) (P 0 0 - P 0 1 - P 1 0 + P 1 1) Rg T) := by
  rw [darken_simp _ _ _ _ _ _ _ hRT]
  simp [interdiff, skip, chemDiff, matmul, sumN, mobMatrixX, mobMatrix, mobU, ufrac, usum_two, hX]
  linear_combination (X 0 * X 1 * (M 0 - M 1)) * (hGD0 - hGD1)
    + (- X 0 * M 0 * (P 0 0 - P 0 1) - X 0 * X 1 * M 0 * (P 0 0 - P 0 1)
       + X 0 * X 1 * M 1 * (P 1 0 - P 1 1)) * hX

/-- Gibbs–Duhem in column form follows from the Euler (row) form Σ_j P_ij·x_j = 0 when the
partial-derivative matrix is symmetric -/
theorem gd_of_euler_symm (X : Nat → α) (P : Nat → Nat → α)
    (hsym : P 0 1 = P 1 0)
    (hE0 : P 0 0 * X 0 + P 0 1 * X 1 = 0) (hE1 : P 1 0 * X 0 + P 1 1 * X 1 = 0) :
    X 0 * P 0 0 + X 1 * P 1 0 = 0 ∧ X 0 * P 0 1 + X 1 * P 1 1 = 0 := by
  constructor
  · linear_combination hE0 - X 1 * hsym
  · linear_combination hE1 + X 0 * hsym

end darken

section hess
variable {α : Type} [Field α]

/-- **the assembly in `hessian()` mirrors every off-diagonal block**: the bordered Hessian is
symmetric as soon as the site-fraction block `d2g` (pycalphad's `formulahess`) is. -/
theorem hessAsm_symm (p k n : Nat) (d2g : Nat → Nat → α) (dg mu : Nat → α)
    (jac dxdy : Nat → Nat → α) (moleA : Nat → α)
    (hd : ∀ i j, i < p → j < p → d2g i j = d2g j i) (i j : Nat) :
    hessAsm p k n d2g dg mu jac dxdy moleA i j = hessAsm p k n d2g dg mu jac dxdy moleA j i := by
  unfold hessAsm
  simp only []
  split_ifs <;> first | rfl | omega | (rw [hd _ _ ‹_› ‹_›])

/-- K is a right inverse of H on indices below `size` -/
def IsInvOn (size : Nat) (H K : Nat → Nat → α) : Prop :=
  ∀ i, i < size → ∀ j, j < size → ∑ k ∈ range size, H i k * K k j = if i = j then 1 else 0

/-- **the inverse of a symmetric matrix is symmetric** (index-function form; via Mathlib `Matrix`) -/
theorem inv_symm (size : Nat) (H K : Nat → Nat → α)
    (hH : ∀ i j, i < size → j < size → H i j = H j i) (hinv : IsInvOn size H K) :
    ∀ i j, i < size → j < size → K i j = K j i := by
  let Hm : Matrix (Fin size) (Fin size) α := fun i j => H i j
  let Km : Matrix (Fin size) (Fin size) α := fun i j => K i j
  have hHK : Hm * Km = 1 := by
    ext i j
    rw [Matrix.mul_apply, Matrix.one_apply]
    have := hinv i i.2 j j.2
    rw [Finset.sum_range] at this
    simp only [Hm, Km]
    rw [this]
    simp [Fin.ext_iff]
  have hHt : Hm.transpose = Hm := by
    ext i j; simp only [Matrix.transpose_apply, Hm]; exact hH j i j.2 i.2
  have hKt : Km.transpose = Km := by
    calc Km.transpose = Km.transpose * (Hm * Km) := by rw [hHK, Matrix.mul_one]
      _ = (Km.transpose * Hm.transpose) * Km := by rw [hHt, Matrix.mul_assoc]
      _ = (Hm * Km).transpose * Km := by rw [Matrix.transpose_mul]
      _ = Km := by rw [hHK, Matrix.transpose_one, Matrix.one_mul]
  intro i j hi hj
  have := congrFun (congrFun hKt ⟨j, hj⟩) ⟨i, hi⟩
  rw [Matrix.transpose_apply] at this
  exact this

/-- **symmetry of dμ/dx, end to end**: if pycalphad's site-fraction Hessian block is symmetric and K
is the inverse of the bordered Hessian `hessian()` assembles, then `dMudX` is symmetric. -/
theorem dMudX_symm_of_hessian (p k n ref : Nat) (d2g : Nat → Nat → α) (dg mu : Nat → α)
    (jac dxdy : Nat → Nat → α) (moleA : Nat → α) (K : Nat → Nat → α) (c' c : Nat)
    (hd : ∀ i j, i < p → j < p → d2g i j = d2g j i)
    (hinv : IsInvOn (p + k + 1 + n) (hessAsm p k n d2g dg mu jac dxdy moleA) K)
    (href : ref < n) (hc : c + 1 < n) (hc' : c' + 1 < n) :
    dMudX (p + k + 1) ref (totalddx (p + k + 1 + n) (p + k + 1) ref (some K)) c' c
      = dMudX (p + k + 1) ref (totalddx (p + k + 1 + n) (p + k + 1) ref (some K)) c c' := by
  have hs := skip_lt n ref c hc
  have hs' := skip_lt n ref c' hc'
  have hK := inv_symm (p + k + 1 + n) _ K
    (fun i j _ _ => hessAsm_symm p k n d2g dg mu jac dxdy moleA hd i j) hinv
  exact dMudX_symm _ _ ref K c' c (by omega) (by omega) (by omega)
    (fun i j _ hi _ hj => hK i j hi hj)

end hess

/-! ### Gibbs–Duhem for the code's partial-derivative matrix, from stationarity -/

section gd
variable {α : Type} [Field α]
variable (p k n : Nat) (d2g : Nat → Nat → α) (dg mu : Nat → α) (jac dxdy : Nat → Nat → α)
  (moleA : Nat → α)

theorem hess_rowN_y (c : Nat) (hc : c < p) :
    hessAsm p k n d2g dg mu jac dxdy moleA p c = dgmu n dg mu dxdy c := by
  unfold hessAsm; simp only []
  split_ifs <;> first | rfl | omega

theorem hess_rowN_mid (t : Nat) (ht : t < k + 1) :
    hessAsm p k n d2g dg mu jac dxdy moleA p (p + t) = 0 := by
  unfold hessAsm; simp only []
  split_ifs <;> first | rfl | omega

theorem hess_rowN_mu (A : Nat) (hA : A < n) :
    hessAsm p k n d2g dg mu jac dxdy moleA p (p + (k + 1) + A) = - moleA A := by
  have e : p + (k + 1) + A - (p + k + 1) = A := by omega
  unfold hessAsm; simp only []
  split_ifs <;> first | omega | (rw [e])

theorem hess_rowL_y (s : Nat) (hs : s < k) (c : Nat) (hc : c < p) :
    hessAsm p k n d2g dg mu jac dxdy moleA (p + 1 + s) c = - jac s c := by
  have e : p + 1 + s - (p + 1) = s := by omega
  unfold hessAsm; simp only []
  split_ifs <;> first | omega | (rw [e])

theorem hess_rowL_rest (s : Nat) (hs : s < k) (j : Nat) (hj : p ≤ j) :
    hessAsm p k n d2g dg mu jac dxdy moleA (p + 1 + s) j = 0 := by
  unfold hessAsm; simp only []
  split_ifs <;> first | rfl | omega

/-- **Gibbs–Duhem from the code's own bordered system.**  Let K be the inverse of the Hessian
`hessian()` assembles, and let the composition set be stationary: the phase-amount column
`dG/dy_i − Σ_A μ_A·dM_A/dy_i` is a combination of the internal-constraint gradients (Lagrange
multipliers `lam`), which is the first-order equilibrium condition pycalphad's solver converges to.
Then every chemical-potential column B of K satisfies Σ_A moleA_A · K[μ_A, μ_B] = 0, i.e. the
partial-derivative matrix `partialdMudX = −K[μ,μ]` obeys Gibbs–Duhem with the formula-unit mole
numbers as weights. -/
theorem gibbs_duhem_of_stationary (K : Nat → Nat → α) (lam : Nat → α)
    (hinv : IsInvOn (p + k + 1 + n) (hessAsm p k n d2g dg mu jac dxdy moleA) K)
    (hstat : ∀ i, i < p → dgmu n dg mu dxdy i = ∑ s ∈ range k, lam s * jac s i)
    (B : Nat) (hB : B < n) :
    ∑ A ∈ range n, moleA A * K (p + (k + 1) + A) (p + (k + 1) + B) = 0 := by
  have e : p + k + 1 + n = p + (k + 1) + n := by omega
  rw [e] at hinv
  -- rows of the Lagrange multipliers
  have hL : ∀ s, s < k → ∑ c ∈ range p, jac s c * K c (p + (k + 1) + B) = 0 := by
    intro s hs
    have h := hinv (p + 1 + s) (by omega) (p + (k + 1) + B) (by omega)
    rw [if_neg (by omega), sum_range_add, sum_range_add] at h
    have h1 : ∀ c ∈ range p, hessAsm p k n d2g dg mu jac dxdy moleA (p + 1 + s) c * K c (p + (k + 1) + B)
        = - (jac s c * K c (p + (k + 1) + B)) := by
      intro c hc; rw [hess_rowL_y p k n d2g dg mu jac dxdy moleA s hs c (mem_range.mp hc)]; ring
    have h2 : ∀ t ∈ range (k + 1), hessAsm p k n d2g dg mu jac dxdy moleA (p + 1 + s) (p + t) * K (p + t) (p + (k + 1) + B) = 0 := by
      intro t _; rw [hess_rowL_rest p k n d2g dg mu jac dxdy moleA s hs _ (by omega)]; ring
    have h3 : ∀ A ∈ range n, hessAsm p k n d2g dg mu jac dxdy moleA (p + 1 + s) (p + (k + 1) + A) * K (p + (k + 1) + A) (p + (k + 1) + B) = 0 := by
      intro A _; rw [hess_rowL_rest p k n d2g dg mu jac dxdy moleA s hs _ (by omega)]; ring
    rw [sum_congr rfl h1, sum_congr rfl h2, sum_congr rfl h3, sum_neg_distrib] at h
    simpa using h
  -- row of the phase amount
  have h := hinv p (by omega) (p + (k + 1) + B) (by omega)
  rw [if_neg (by omega), sum_range_add, sum_range_add] at h
  have h1 : ∀ c ∈ range p, hessAsm p k n d2g dg mu jac dxdy moleA p c * K c (p + (k + 1) + B)
      = ∑ s ∈ range k, lam s * (jac s c * K c (p + (k + 1) + B)) := by
    intro c hc
    rw [hess_rowN_y p k n d2g dg mu jac dxdy moleA c (mem_range.mp hc), hstat c (mem_range.mp hc), sum_mul]
    apply sum_congr rfl; intro s _; ring
  have h2 : ∀ t ∈ range (k + 1), hessAsm p k n d2g dg mu jac dxdy moleA p (p + t) * K (p + t) (p + (k + 1) + B) = 0 := by
    intro t ht; rw [hess_rowN_mid p k n d2g dg mu jac dxdy moleA t (mem_range.mp ht)]; ring
  have h3 : ∀ A ∈ range n, hessAsm p k n d2g dg mu jac dxdy moleA p (p + (k + 1) + A) * K (p + (k + 1) + A) (p + (k + 1) + B)
      = - (moleA A * K (p + (k + 1) + A) (p + (k + 1) + B)) := by
    intro A hA; rw [hess_rowN_mu p k n d2g dg mu jac dxdy moleA A (mem_range.mp hA)]; ring
  rw [sum_congr rfl h1, sum_congr rfl h2, sum_congr rfl h3, sum_neg_distrib, sum_comm] at h
  have hz : ∑ s ∈ range k, ∑ c ∈ range p, lam s * (jac s c * K c (p + (k + 1) + B)) = 0 := by
    apply sum_eq_zero; intro s hs
    rw [← mul_sum, hL s (mem_range.mp hs), mul_zero]
  rw [hz] at h
  simpa using h

/-- the same, stated for `partialdMudX` and the mole fractions X = moleA·f -/
theorem partial_gibbs_duhem (K : Nat → Nat → α) (lam : Nat → α) (X : Nat → α) (f : α)
    (hinv : IsInvOn (p + k + 1 + n) (hessAsm p k n d2g dg mu jac dxdy moleA) K)
    (hstat : ∀ i, i < p → dgmu n dg mu dxdy i = ∑ s ∈ range k, lam s * jac s i)
    (hX : ∀ A, A < n → X A = moleA A * f)
    (B : Nat) (hB : B < n) :
    ∑ A ∈ range n,
      X A * partialdMudX (p + k + 1) (partialddx (p + k + 1 + n) (p + k + 1) (some K)) A B = 0 := by
  have h := gibbs_duhem_of_stationary p k n d2g dg mu jac dxdy moleA K lam hinv hstat B hB
  have : ∀ A ∈ range n,
      X A * partialdMudX (p + k + 1) (partialddx (p + k + 1 + n) (p + k + 1) (some K)) A B
        = - f * (moleA A * K (p + (k + 1) + A) (p + (k + 1) + B)) := by
    intro A hA
    rw [partialdMudX_eq _ _ K A B (by omega), hX A (mem_range.mp hA)]
    have e1 : p + k + 1 + A = p + (k + 1) + A := by omega
    have e2 : p + k + 1 + B = p + (k + 1) + B := by omega
    rw [e1, e2]; ring
  rw [sum_congr rfl this, ← mul_sum, h, mul_zero]

end gd

/-! ### Darken, end to end from the code's bordered system -/

section darken2
variable {α : Type} [Field α]

/-- **Darken for the whole `interdiffusivity` pipeline (binary substitutional, reference = element 0).**
Inputs: K = inverse of the Hessian `hessian()` assembles for a stationary composition set,
mole fractions X = moleA·f summing to one, any mobilities.  The model of `interdiffusivity`
(mobility matrix × partialdMudX, reference column subtracted) equals the Darken combination of the
tracer diffusivities R·T·M with the thermodynamic factor built from what `dMudX` returns. -/
theorem darken_pipeline_ref0 (p k : Nat) (d2g : Nat → Nat → α) (dg mu : Nat → α)
    (jac dxdy : Nat → Nat → α) (moleA : Nat → α) (K : Nat → Nat → α) (lam : Nat → α)
    (vacPoor : Bool) (X M yVa : Nat → α) (f Rg T : α)
    (hinv : IsInvOn (p + k + 1 + 2) (hessAsm p k 2 d2g dg mu jac dxdy moleA) K)
    (hstat : ∀ i, i < p → dgmu 2 dg mu dxdy i = ∑ s ∈ range k, lam s * jac s i)
    (hXm : ∀ A, A < 2 → X A = moleA A * f) (hX : X 0 + X 1 = 1) (hRT : Rg * T ≠ 0) :
    interdiffX (p + k + 1 + 2) (p + k + 1) 2 0 (fun _ => false) vacPoor X M yVa (some K) 0 0
      = darken (X 1) (X 0) (Rg * T * M 1) (Rg * T * M 0)
          (thermoFactor (X 1) (X 0)
            (dMudX (p + k + 1) 0 (totalddx (p + k + 1 + 2) (p + k + 1) 0 (some K)) 0 0) Rg T) := by
  have g0 := partial_gibbs_duhem p k 2 d2g dg mu jac dxdy moleA K lam X f hinv hstat hXm 0 (by omega)
  have g1 := partial_gibbs_duhem p k 2 d2g dg mu jac dxdy moleA K lam X f hinv hstat hXm 1 (by omega)
  simp only [sum_range_succ, sum_range_zero, zero_add] at g0 g1
  have hd := dMudX_from_partial (p + k + 1 + 2) (p + k + 1) 2 0 K 0 0 (by omega) (by omega) (by omega)
  simp only [skip, Nat.lt_irrefl, if_false, Nat.zero_add] at hd
  rw [hd]
  unfold interdiffX
  exact darken_ref0 vacPoor X M yVa _ Rg T hX hRT g0 g1

/-- the same with element 1 as the reference -/
theorem darken_pipeline_ref1 (p k : Nat) (d2g : Nat → Nat → α) (dg mu : Nat → α)
    (jac dxdy : Nat → Nat → α) (moleA : Nat → α) (K : Nat → Nat → α) (lam : Nat → α)
    (vacPoor : Bool) (X M yVa : Nat → α) (f Rg T : α)
    (hinv : IsInvOn (p + k + 1 + 2) (hessAsm p k 2 d2g dg mu jac dxdy moleA) K)
    (hstat : ∀ i, i < p → dgmu 2 dg mu dxdy i = ∑ s ∈ range k, lam s * jac s i)
    (hXm : ∀ A, A < 2 → X A = moleA A * f) (hX : X 0 + X 1 = 1) (hRT : Rg * T ≠ 0) :
    interdiffX (p + k + 1 + 2) (p + k + 1) 2 1 (fun _ => false) vacPoor X M yVa (some K) 0 0
      = darken (X 0) (X 1) (Rg * T * M 0) (Rg * T * M 1)
          (thermoFactor (X 0) (X 1)
            (dMudX (p + k + 1) 1 (totalddx (p + k + 1 + 2) (p + k + 1) 1 (some K)) 0 0) Rg T) := by
  have g0 := partial_gibbs_duhem p k 2 d2g dg mu jac dxdy moleA K lam X f hinv hstat hXm 0 (by omega)
  have g1 := partial_gibbs_duhem p k 2 d2g dg mu jac dxdy moleA K lam X f hinv hstat hXm 1 (by omega)
  simp only [sum_range_succ, sum_range_zero, zero_add] at g0 g1
  have hd := dMudX_from_partial (p + k + 1 + 2) (p + k + 1) 2 1 K 0 0 (by omega) (by omega) (by omega)
  simp only [skip, Nat.zero_lt_one, if_true] at hd
  rw [hd]
  unfold interdiffX
  exact darken_ref1 vacPoor X M yVa _ Rg T hX hRT g0 g1

end darken2

/-! ### sign of the binary interdiffusivity -/

section darkenpos
variable {α : Type} [Field α] [LinearOrder α] [IsStrictOrderedRing α]

/-- **binary positivity reduced to its physical inputs**: the Darken combination is positive when both
mole fractions, both tracer diffusivities, the curvature G'' and R·T are positive.  With
`darken_pipeline_ref0/1` this makes the sign of the code's binary interdiffusivity a consequence of
the signs of the mobilities and of `dMudX` (which are monitored facts about the database). -/
theorem darken_pos (xk xR Dk DR G2 Rg T : α) (hxk : 0 < xk) (hxR : 0 < xR) (hDk : 0 < Dk)
    (hDR : 0 < DR) (hG : 0 < G2) (hRg : 0 < Rg) (hT : 0 < T) :
    0 < darken xk xR Dk DR (thermoFactor xk xR G2 Rg T) := by
  unfold darken thermoFactor
  have h1 : 0 < xR * Dk + xk * DR := by positivity
  have h2 : 0 < xk * xR * G2 / (Rg * T) := by positivity
  exact mul_pos h1 h2

end darkenpos

/-! ### user-supplied callable tables: setMobility / setDiffusivity histories

`KawinV.MobTable` models `mobCallables[phase]` / `diffCallables[phase]` as finite maps element ↦ function id
and the three ways of writing them.  Proved for every history, every dict, every interpretation `F` of the
function ids over any field: after `setMobility(d, phase)` every element reads ITS OWN entry, a later write
of one element wins and touches no other element, and the reported tracer diffusivity is `R·T·M_e(T)` of the
function given FOR e — it depends on the temperature and on that function only. -/

section table
open KawinV.MobTable

theorem upd_same (t : Tab) (e f : Nat) : upd t e f e = some f := by simp [upd]
theorem upd_other (t : Tab) (e f x : Nat) (h : x ≠ e) : upd t e f x = t x := by simp [upd, h]

theorem foldl_upd_notin (d : List (Nat × Nat)) (t : Tab) (x : Nat) (h : ∀ p ∈ d, p.1 ≠ x) :
    d.foldl (fun t p => upd t p.1 p.2) t x = t x := by
  induction d generalizing t with
  | nil => rfl
  | cons p r ih =>
    simp only [List.foldl_cons]
    rw [ih _ (fun q hq => h q (List.mem_cons_of_mem _ hq))]
    exact upd_other t p.1 p.2 x (fun hx => h p List.mem_cons_self hx.symm)

theorem foldl_upd_mem (d : List (Nat × Nat)) (t : Tab) (e f : Nat)
    (hnd : (d.map Prod.fst).Nodup) (hm : (e, f) ∈ d) :
    d.foldl (fun t p => upd t p.1 p.2) t e = some f := by
  induction d generalizing t with
  | nil => cases hm
  | cons p r ih =>
    simp only [List.map_cons, List.nodup_cons] at hnd
    simp only [List.foldl_cons]
    rcases List.mem_cons.mp hm with h | h
    · subst h
      rw [foldl_upd_notin r _ e]
      · exact upd_same t e f
      · intro q hq hqe
        exact hnd.1 (List.mem_map.mpr ⟨q, hq, hqe⟩)
    · exact ih _ hnd.2 h

/-- **every element reads its own entry**: after `{e: gen(d[e]) for e in d}` (a dict has distinct keys)
the table maps every key to the function given for that key … -/
theorem lookup_after_setAll (d : List (Nat × Nat)) (hnd : (d.map Prod.fst).Nodup)
    (e f : Nat) (hm : (e, f) ∈ d) : ofItems d e = some f :=
  foldl_upd_mem d emptyTab e f hnd hm

/-- … and has no entry for anything else (a partial dict leaves the other elements without a callable) -/
theorem lookup_after_setAll_absent (d : List (Nat × Nat)) (x : Nat) (h : ∀ p ∈ d, p.1 ≠ x) :
    ofItems d x = none :=
  foldl_upd_notin d emptyTab x h

/-- `setMobility(f, phase)`: every element of the system reads the one function -/
theorem lookup_after_setSame (n f e : Nat) (he : e < n) : constTab n f e = some f := by
  simp [constTab, he]

theorem get_put_same (s : St) (w : Which) (t : Option Tab) : (s.put w t).get w = t := by
  cases w <;> rfl
theorem get_put_other (s : St) (w w' : Which) (t : Option Tab) (h : w' ≠ w) :
    (s.put w t).get w' = s.get w' := by
  cases w <;> cases w' <;> first | rfl | exact absurd rfl h

/-- `setMobility(d, phase)` forgets everything written before: the table after it is `ofItems d`
whatever the history was -/
theorem setAll_overrides (n : Nat) (s : St) (h : List Op) (w : Which) (d : List (Nat × Nat)) :
    (run n s (h ++ [Op.setAll w d])).get w = some (ofItems d) := by
  simp [run, List.foldl_append, step, get_put_same]

/-- `o` writes the entry of element `e` in table `w` -/
def Writes (w : Which) (e : Nat) : Op → Prop
  | .setAll w' _ => w' = w
  | .setSame w' _ => w' = w
  | .setOne w' e' _ => w' = w ∧ e' = e

/-- an op that does not write (w, e) leaves that entry alone -/
theorem step_keeps (n : Nat) (s : St) (o : Op) (w : Which) (e : Nat) (h : ¬ Writes w e o) :
    ((step n s o).1.get w).map (fun t => t e) = (s.get w).map (fun t => t e) := by
  cases o with
  | setAll w' d =>
    have hw : w ≠ w' := fun hh => h hh.symm
    simp [step, get_put_other _ _ _ _ hw]
  | setSame w' f =>
    have hw : w ≠ w' := fun hh => h hh.symm
    simp [step, get_put_other _ _ _ _ hw]
  | setOne w' e' f =>
    simp only [step]
    cases hg : s.get w' with
    | none => rfl
    | some t =>
      by_cases hw : w = w'
      · subst hw
        have he : e ≠ e' := fun hh => h ⟨rfl, hh.symm⟩
        simp [get_put_same, hg, upd_other _ _ _ _ he]
      · simp [get_put_other _ _ _ _ hw]

theorem run_keeps (n : Nat) (s : St) (h : List Op) (w : Which) (e : Nat)
    (hn : ∀ o ∈ h, ¬ Writes w e o) :
    ((run n s h).get w).map (fun t => t e) = (s.get w).map (fun t => t e) := by
  induction h generalizing s with
  | nil => rfl
  | cons o r ih =>
    have := ih (step n s o).1 (fun o' ho' => hn o' (List.mem_cons_of_mem _ ho'))
    simp only [run, List.foldl_cons] at this ⊢
    rw [this]
    exact step_keeps n s o w e (hn o List.mem_cons_self)

/-- **last write wins**: for every history `h1 ++ [setOne w e f] ++ h2` in which nothing after the
`setMobility(…, element=e)` writes that entry again, element e reads `f` at the end — provided the table
existed when the call was made (otherwise the call raises, see `setOne_on_none`). -/
theorem last_write_wins (n : Nat) (s : St) (h1 h2 : List Op) (w : Which) (e f : Nat)
    (hpres : ((run n s h1).get w).isSome) (hn : ∀ o ∈ h2, ¬ Writes w e o) :
    ((run n s (h1 ++ Op.setOne w e f :: h2)).get w).map (fun t => t e) = some (some f) := by
  have hsplit : run n s (h1 ++ Op.setOne w e f :: h2)
      = run n (step n (run n s h1) (Op.setOne w e f)).1 h2 := by
    simp [run, List.foldl_append]
  rw [hsplit, run_keeps n _ h2 w e hn]
  obtain ⟨t, ht⟩ := Option.isSome_iff_exists.mp hpres
  simp [step, ht, get_put_same, upd_same]

/-- … and every OTHER element keeps what it read before that call -/
theorem setOne_touches_only_e (n : Nat) (s : St) (w : Which) (e f x : Nat) (hx : x ≠ e) :
    ((step n s (Op.setOne w e f)).1.get w).map (fun t => t x) = (s.get w).map (fun t => t x) :=
  step_keeps n s _ w x (fun hw => hx hw.2.symm)

/-- last write wins, dict form: after `setMobility(d, phase)` followed by ops that do not write (w, e),
element e still reads its own entry of `d` -/
theorem setAll_then_keeps (n : Nat) (s : St) (h1 h2 : List Op) (w : Which) (d : List (Nat × Nat))
    (hnd : (d.map Prod.fst).Nodup) (e f : Nat) (hm : (e, f) ∈ d) (hn : ∀ o ∈ h2, ¬ Writes w e o) :
    ((run n s (h1 ++ Op.setAll w d :: h2)).get w).map (fun t => t e) = some (some f) := by
  have hsplit : run n s (h1 ++ Op.setAll w d :: h2)
      = run n (step n (run n s h1) (Op.setAll w d)).1 h2 := by
    simp [run, List.foldl_append]
  rw [hsplit, run_keeps n _ h2 w e hn]
  simp [step, get_put_same, lookup_after_setAll d hnd e f hm]

/-- `setMobility(d, phase, element=e)` on a phase without a table raises and changes nothing -/
theorem setOne_on_none (n : Nat) (s : St) (w : Which) (e f : Nat) (h : s.get w = none) :
    step n s (Op.setOne w e f) = (s, true) := by
  simp [step, h]

/-- the mobility table has priority: once a phase has one, the diffusivity table is not read -/
theorem read_prefers_mobility (s : St) (t : Tab) (e f : Nat) (hm : s.mob = some t) (he : t e = some f) :
    read s e = Read.mobility f := by
  simp [MobTable.read, hm, he]

theorem read_diffusivity (s : St) (t : Tab) (e f : Nat) (hm : s.mob = none) (hd : s.diff = some t)
    (he : t e = some f) : read s e = Read.diffusivity f := by
  simp [MobTable.read, hm, hd, he]

variable {α : Type} [Field α]

/-- **tracer = R·T·M of the element's OWN function** after `setMobility(d, phase)`, for every state before,
every dict, every meaning `F` of the function ids -/
theorem tracer_after_setAll (F : Nat → α → α) (R T c : α) (n : Nat) (s : St) (d : List (Nat × Nat))
    (hnd : (d.map Prod.fst).Nodup) (e f : Nat) (hm : (e, f) ∈ d) :
    tracerOf F R T c (read (step n s (Op.setAll Which.mob d)).1 e) = some (R * T * (c * F f T)) := by
  have : read (step n s (Op.setAll Which.mob d)).1 e = Read.mobility f :=
    read_prefers_mobility _ (ofItems d) e f rfl (lookup_after_setAll d hnd e f hm)
  rw [this]; rfl

/-- **dependence only on (T, the element's own function)**: two states — whatever their histories, whatever
the other elements read — in which element e reads the same function report the same tracer diffusivity
for e -/
theorem tracer_depends_on_own_function (F : Nat → α → α) (R T c : α) (s s' : St) (e : Nat)
    (h : read s e = read s' e) : tracerOf F R T c (read s e) = tracerOf F R T c (read s' e) := by
  rw [h]

/-- the table value is what the traced `tracer_diffusivity` multiplies out: with the raw callable values
`m_i = F f_i T` of the functions the three elements read, the traced formula gives `tracerOf` element-wise -/
theorem tracer_of_table [Trans α] (F : Nat → α → α) (T c0 c1 c2 : α) (f0 f1 f2 : Nat) :
    (KawinV.Gen.C10.tracer_all T c0 (F f0 T) c1 (F f1 T) c2 (F f2 T)).map some
      = [tracerOf F Rgas T c0 (Read.mobility f0), tracerOf F Rgas T c1 (Read.mobility f1),
         tracerOf F Rgas T c2 (Read.mobility f2)] := by
  simp [tracer_elementwise, KawinV.Gen.C10.mobility_all, mobility_elementwise, tracerOf,
    KawinV.Gen.C10.mobility_e0, KawinV.Gen.C10.mobility_e1, KawinV.Gen.C10.mobility_e2]

/-! #### the late-binding variant (closures sharing the comprehension variable) -/

/-- in the late-binding variant EVERY key reads the entry of the LAST key of the dict -/
theorem late_reads_last (d : List (Nat × Nat)) (p : Nat × Nat) (hl : d.getLast? = some p)
    (e : Nat) (he : e ∈ d.map Prod.fst) : ofItemsLate d e = some p.2 := by
  have : d.any (fun q => q.1 == e) = true := by
    obtain ⟨q, hq, hqe⟩ := List.mem_map.mp he
    exact List.any_eq_true.mpr ⟨q, hq, by simp [hqe]⟩
  simp [ofItemsLate, this, hl]

/-- hence it differs from the code's table as soon as two keys carry different functions: witness
`{0: f10, 1: f11}` — element 0 reads f11 instead of f10 -/
theorem late_binding_witness :
    ofItemsLate [(0, 10), (1, 11)] 0 = some 11 ∧ ofItems [(0, 10), (1, 11)] 0 = some 10
    ∧ ofItemsLate [(0, 10), (1, 11)] 1 = ofItems [(0, 10), (1, 11)] 1 := by
  decide

/-- and the reported tracer diffusivity of element 0 is R·T·M of the OTHER element's function:
with M_10 = 1, M_11 = 100, R·T = 1 the late-binding table gives 100 where the property requires 1 -/
theorem late_binding_tracer_witness :
    let F : Nat → ℚ → ℚ := fun f _ => if f = 10 then 1 else 100
    tracerOf F 1 1 1 (read ⟨some (ofItemsLate [(0, 10), (1, 11)]), none⟩ 0) = some 100
    ∧ tracerOf F 1 1 1 (read ⟨some (ofItems [(0, 10), (1, 11)]), none⟩ 0) = some 1 := by
  decide +kernel

/-- a single function or one entry hides the difference (why the shipped tests cannot see it) -/
theorem late_binding_same_when_constant (d : List (Nat × Nat)) (g : Nat) (hg : ∀ p ∈ d, p.2 = g)
    (e : Nat) (he : e ∈ d.map Prod.fst) (hnd : (d.map Prod.fst).Nodup) :
    ofItemsLate d e = ofItems d e := by
  obtain ⟨q, hq, hqe⟩ := List.mem_map.mp he
  have hne : d ≠ [] := List.ne_nil_of_mem hq
  have hl : d.getLast? = some (d.getLast hne) := List.getLast?_eq_some_getLast hne
  rw [late_reads_last d _ hl e he, hg _ (List.getLast_mem hne)]
  have : (e, g) ∈ d := by
    have := hg q hq
    rcases q with ⟨a, b⟩
    simp only at hqe this
    subst hqe; subst this; exact hq
  exact (lookup_after_setAll d hnd e g this).symm

end table

/-! ### non-vacuity: concrete data meeting the hypothesis sets -/

section examples

/-- a binary one-sublattice phase: site fractions (1/4, 3/4), one internal constraint -/
def exD2g : Nat → Nat → ℚ := fun i j => match i, j with | 0, 0 => 5 | 0, 1 => 1 | 1, 0 => 1 | 1, 1 => 3 | _, _ => 0
def exDg : Nat → ℚ := fun i => match i with | 0 => 1 | 1 => 2 | _ => 0
def exMu : Nat → ℚ := fun i => match i with | 0 => -1 | _ => 0
def exJac : Nat → Nat → ℚ := fun s i => if s = 0 ∧ i < 2 then 1 else 0
def exDxdy : Nat → Nat → ℚ := fun A i => if A = i ∧ i < 2 then 1 else 0
def exMole : Nat → ℚ := fun A => match A with | 0 => 1/4 | 1 => 3/4 | _ => 0
/-- the exact inverse of `hessAsm 2 1 2 exD2g …` -/
def exK : Nat → Nat → ℚ := fun i j => match i, j with
  | 0, 3 => -1/4 | 0, 4 => -3/4 | 0, 5 => 1/4
  | 1, 3 => -3/4 | 1, 4 => 3/4 | 1, 5 => -1/4
  | 2, 3 => 1 | 2, 4 => -1 | 2, 5 => -1
  | 3, 0 => -1/4 | 3, 1 => -3/4 | 3, 2 => 1 | 3, 3 => 13/8 | 3, 4 => -13/8 | 3, 5 => -17/8
  | 4, 0 => -3/4 | 4, 1 => 3/4 | 4, 2 => -1 | 4, 3 => -13/8 | 4, 4 => -27/8 | 4, 5 => 9/8
  | 5, 0 => 1/4 | 5, 1 => -1/4 | 5, 2 => -1 | 5, 3 => -17/8 | 5, 4 => 9/8 | 5, 5 => -3/8
  | _, _ => 0

example : IsInvOn (2 + 1 + 1 + 2) (hessAsm 2 1 2 exD2g exDg exMu exJac exDxdy exMole) exK := by
  unfold IsInvOn; decide +kernel

example : ∀ i, i < 2 → dgmu 2 exDg exMu exDxdy i = ∑ s ∈ range 1, (fun _ => (2:ℚ)) s * exJac s i := by
  decide +kernel

example : ∀ A, A < 2 → exMole A = exMole A * 1 := by intro A _; ring
example : exMole 0 + exMole 1 = 1 := by norm_num [exMole]
example : ∀ i j, i < 2 → j < 2 → exD2g i j = exD2g j i := by
  intro i j hi hj; interval_cases i <;> interval_cases j <;> rfl
example : substSum 2 (fun _ => false) exMole = 1 := by norm_num [substSum, sumN, exMole]
example : usum 2 (fun _ => false) exMole ≠ 0 := by norm_num [usum, sumN, exMole]
/-- Gibbs–Duhem hypotheses of `darken_ref0` are met by the partial matrix of the example -/
example : exMole 0 * (-(exK 4 4)) + exMole 1 * (-(exK 5 4)) = 0
    ∧ exMole 0 * (-(exK 4 5)) + exMole 1 * (-(exK 5 5)) = 0 := by
  norm_num [exMole, exK]

/-- hypothesis sets of the table theorems: a dict with distinct keys containing the entry; a history with a
present table and a tail that does not write the entry -/
example : ([(2, 7), (0, 5), (1, 6)].map Prod.fst).Nodup ∧ ((0, 5) : Nat × Nat) ∈ [(2, 7), (0, 5), (1, 6)] := by decide
example : KawinV.MobTable.ofItems [(2, 7), (0, 5), (1, 6)] 0 = some 5 := by decide
example : ((KawinV.MobTable.run 3 ⟨none, none⟩ [KawinV.MobTable.Op.setSame .mob 4]).get .mob).isSome := by decide
example : ∀ o ∈ [KawinV.MobTable.Op.setOne .mob 1 9, KawinV.MobTable.Op.setAll .diff [(0, 3)]],
    ¬ Writes .mob 0 o := by
  intro o ho
  simp only [List.mem_cons, List.not_mem_nil, or_false] at ho
  rcases ho with h | h <;> subst h <;> simp [Writes]
/-- `last_write_wins` on a concrete history (none/none database, the write in the middle) -/
example : ((KawinV.MobTable.run 3 ⟨none, none⟩
    ([KawinV.MobTable.Op.setSame .mob 4] ++ KawinV.MobTable.Op.setOne .mob 0 8 ::
      [KawinV.MobTable.Op.setOne .mob 1 9, KawinV.MobTable.Op.setAll .diff [(0, 3)]])).get .mob).map (fun t => t 0)
    = some (some 8) := by decide
/-- `setOne_on_none` hypothesis: the Al-Zr database without mobility parameters starts with no table -/
example : (⟨none, none⟩ : KawinV.MobTable.St).get .mob = none := rfl
example : ([(0, 10), (1, 11)] : List (Nat × Nat)).getLast? = some (1, 11) ∧ 0 ∈ [(0, 10), (1, 11)].map Prod.fst := by decide

end examples
end KawinV.Props.C10
