/-
C05 — property theorems (stub; nothing proved yet).
-/
namespace KawinV.Props.C05
end KawinV.Props.C05
