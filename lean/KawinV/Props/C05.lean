/-
C05 — the solver honours its time and state contract for any model.

Theorems about `KawinV.Solver` (hand model of DESolver.solve and the dt clamp, Solver.py 134-138,
191-217) and `KawinV.Flatten` (GenericModel.flattenX/unflattenX, Coupler bookkeeping), tied to the
source by tools/corr/C05.py on every run.  α is any linearly ordered field.

The user model is the pair (`propose`, `stopAt`) of ARBITRARY functions of the history of accepted
times; every theorem below is for all of them, by induction over the loop (no bound on the number
of steps).  Hypotheses of the main theorems: `t0 < tf`, `0 < minFrac ≤ maxFrac`.
-/
import KawinV.Model.Solver
import KawinV.Model.Flatten
import Mathlib.Tactic.Ring
import Mathlib.Tactic.Linarith
import Mathlib.Tactic.NormNum
import Mathlib.Algebra.Order.Field.Basic

set_option linter.unusedSectionVars false
set_option linter.unusedVariables false
set_option linter.unusedSimpArgs false

namespace KawinV.Props.C05
open KawinV.Solver

variable {α : Type} [Field α] [LinearOrder α] [IsStrictOrderedRing α]

/-! ### the clamp, for every kind of proposal -/

theorem clampDt_fin (dtmin dtmax x : α) :
    clampDt dtmin dtmax (.fin x) =
      if dtmin < x then (if x < dtmax then x else dtmax) else (if dtmin < dtmax then dtmin else dtmax) := by
  unfold clampDt
  by_cases h : dtmin < x <;> simp [Dt.gt, Dt.lt, h]

/-- `inf`: not below any maximum, so the step is the maximum -/
theorem clampDt_posInf (dtmin dtmax : α) : clampDt dtmin dtmax .posInf = dtmax := by
  simp [clampDt, Dt.gt, Dt.lt]

/-- `-inf` and `NaN` are "not > dtmin": the step is the minimum (or the maximum if that is smaller) -/
theorem clampDt_negInf (dtmin dtmax : α) :
    clampDt dtmin dtmax .negInf = if dtmin < dtmax then dtmin else dtmax := by
  simp [clampDt, Dt.gt, Dt.lt]

theorem clampDt_nan (dtmin dtmax : α) :
    clampDt dtmin dtmax .nan = if dtmin < dtmax then dtmin else dtmax := by
  simp [clampDt, Dt.gt, Dt.lt]

/-- whatever is proposed, the step never exceeds the current maximum -/
theorem clampDt_le_max (dtmin dtmax : α) (d : Dt α) : clampDt dtmin dtmax d ≤ dtmax := by
  cases d with
  | fin x => rw [clampDt_fin]; split_ifs <;> linarith
  | posInf => rw [clampDt_posInf]
  | negInf => rw [clampDt_negInf]; split_ifs <;> linarith
  | nan => rw [clampDt_nan]; split_ifs <;> linarith

/-- whatever is proposed, the step is at least the minimum when the minimum fits under the maximum -/
theorem clampDt_ge_min (dtmin dtmax : α) (d : Dt α) (h : dtmin ≤ dtmax) :
    dtmin ≤ clampDt dtmin dtmax d := by
  cases d with
  | fin x => rw [clampDt_fin]; split_ifs <;> linarith
  | posInf => rw [clampDt_posInf]; exact h
  | negInf => rw [clampDt_negInf]; split_ifs <;> linarith
  | nan => rw [clampDt_nan]; split_ifs <;> linarith

/-- … and exactly the maximum when the maximum is not above the minimum (the short last step) -/
theorem clampDt_eq_max (dtmin dtmax : α) (d : Dt α) (h : dtmax ≤ dtmin) :
    clampDt dtmin dtmax d = dtmax := by
  cases d with
  | fin x => rw [clampDt_fin]; split_ifs <;> first | rfl | linarith
  | posInf => rw [clampDt_posInf]
  | negInf => rw [clampDt_negInf]; split_ifs <;> first | rfl | linarith
  | nan => rw [clampDt_nan]; split_ifs <;> first | rfl | linarith

theorem clampDt_pos (dtmin dtmax : α) (d : Dt α) (h1 : 0 < dtmin) (h2 : 0 < dtmax) :
    0 < clampDt dtmin dtmax d := by
  rcases le_total dtmin dtmax with h | h
  · exact lt_of_lt_of_le h1 (clampDt_ge_min dtmin dtmax d h)
  · rw [clampDt_eq_max dtmin dtmax d h]; exact h2

/-- a proposal strictly inside (dtmin, dtmax) is taken as it is -/
theorem clampDt_inside (dtmin dtmax x : α) (h1 : dtmin < x) (h2 : x < dtmax) :
    clampDt dtmin dtmax (.fin x) = x := by
  rw [clampDt_fin]; simp [h1, h2]

/-! ### one pass through the loop body -/

section step
variable (tf dtmin : α) (propose : List α → Dt α) (stopAt : List α → Bool)

/-- the maximum used in this pass: `min(self._dtmax, tf - currTime)` -/
def newMax (tf : α) (s : St α) : α := if tf - s.cur < s.dtmax then tf - s.cur else s.dtmax

/-- the step taken in this pass -/
def dtOf (tf dtmin : α) (propose : List α → Dt α) (s : St α) : α :=
  clampDt dtmin (newMax tf s) (propose s.times)

theorem step_cur (s : St α) : (step tf dtmin propose stopAt s).cur = s.cur + dtOf tf dtmin propose s := rfl
theorem step_dtmax (s : St α) : (step tf dtmin propose stopAt s).dtmax = newMax tf s := rfl
theorem step_steps (s : St α) :
    (step tf dtmin propose stopAt s).steps = (s.cur, dtOf tf dtmin propose s) :: s.steps := rfl

/-- **stop**: the flag after a pass is exactly what the model answered for the new history -/
theorem step_stop (s : St α) :
    (step tf dtmin propose stopAt s).stop = stopAt (step tf dtmin propose stopAt s).times := rfl

theorem step_times (s : St α) :
    (step tf dtmin propose stopAt s).times = (s.cur + dtOf tf dtmin propose s) :: s.times := rfl

theorem newMax_le_rem (s : St α) : newMax tf s ≤ tf - s.cur := by
  unfold newMax; split_ifs <;> linarith

theorem newMax_le_old (s : St α) : newMax tf s ≤ s.dtmax := by
  unfold newMax; split_ifs <;> linarith

theorem newMax_pos (s : St α) (h : s.cur < tf) (hm : 0 < s.dtmax) : 0 < newMax tf s := by
  unfold newMax; split_ifs <;> linarith

theorem newMax_cases (s : St α) : newMax tf s = tf - s.cur ∨ (newMax tf s = s.dtmax ∧ s.dtmax ≤ tf - s.cur) := by
  unfold newMax; split_ifs with h
  · exact Or.inl rfl
  · exact Or.inr ⟨rfl, not_lt.mp h⟩

end step

/-! ### loop invariant -/

/-- what holds of the loop state at every iteration, whatever the model does -/
structure Inv (t0 tf dtmin dmax : α) (s : St α) : Prop where
  dtmax_pos : 0 < s.dtmax
  dtmax_le : s.dtmax ≤ dmax
  lo : t0 ≤ s.cur
  hi : s.cur ≤ tf
  minOrDone : dtmin ≤ s.dtmax ∨ s.cur = tf
  stepsOk : ∀ p ∈ s.steps, t0 ≤ p.1 ∧ p.1 < tf ∧ 0 < p.2 ∧ p.2 ≤ dmax ∧ p.1 + p.2 ≤ s.cur ∧
              (dtmin ≤ p.2 ∨ p.1 + p.2 = tf)
  chain : s.steps.Pairwise (fun p q => q.1 + q.2 ≤ p.1)
  curEq : (s.steps = [] ∧ s.cur = t0) ∨ ∃ p r, s.steps = p :: r ∧ s.cur = p.1 + p.2

section inv
variable {t0 tf dtmin dmax : α} {propose : List α → Dt α} {stopAt : List α → Bool}

theorem inv_init (t0 tf minFrac maxFrac : α) (h : t0 < tf) (hmin : 0 < minFrac) (hmm : minFrac ≤ maxFrac) :
    Inv t0 tf (minFrac * (tf - t0)) (maxFrac * (tf - t0)) (initSt t0 tf maxFrac) := by
  have hd : 0 < tf - t0 := sub_pos.mpr h
  refine ⟨?_, le_refl _, le_refl _, h.le, Or.inl ?_, ?_, ?_, Or.inl ⟨rfl, rfl⟩⟩
  · exact mul_pos (lt_of_lt_of_le hmin hmm) hd
  · exact mul_le_mul_of_nonneg_right hmm hd.le
  · intro p hp; simp [initSt] at hp
  · simp [initSt]

/-- dichotomy of a pass: the step is at least the minimum, or it lands exactly on tf -/
theorem step_progress (s : St α) (hI : Inv t0 tf dtmin dmax s) (hc : s.cur < tf) :
    dtmin ≤ dtOf tf dtmin propose s ∨ s.cur + dtOf tf dtmin propose s = tf := by
  unfold dtOf
  rcases le_or_gt dtmin (newMax tf s) with h | h
  · exact Or.inl (clampDt_ge_min _ _ _ h)
  · right
    rw [clampDt_eq_max _ _ _ h.le]
    rcases newMax_cases tf s with h1 | ⟨h1, _⟩
    · rw [h1]; ring
    · exfalso
      rcases hI.minOrDone with h2 | h2
      · rw [h1] at h; linarith
      · rw [h2] at hc; exact lt_irrefl _ hc

theorem inv_step (hmin : 0 < dtmin) (s : St α) (hI : Inv t0 tf dtmin dmax s) (hc : s.cur < tf) :
    Inv t0 tf dtmin dmax (step tf dtmin propose stopAt s) := by
  have hpos := newMax_pos tf s hc hI.dtmax_pos
  have hdt_pos : 0 < dtOf tf dtmin propose s := clampDt_pos _ _ _ hmin hpos
  have hdt_le : dtOf tf dtmin propose s ≤ newMax tf s := clampDt_le_max _ _ _
  have hrem := newMax_le_rem tf s
  have hold := newMax_le_old tf s
  have hprog := step_progress (propose := propose) s hI hc
  refine ⟨?_, ?_, ?_, ?_, ?_, ?_, ?_, ?_⟩
  · rw [step_dtmax]; exact hpos
  · rw [step_dtmax]; exact le_trans hold hI.dtmax_le
  · rw [step_cur]; linarith [hI.lo]
  · rw [step_cur]; linarith
  · rw [step_dtmax, step_cur]
    rcases le_or_gt dtmin (newMax tf s) with h | h
    · exact Or.inl h
    · right
      rcases hprog with h1 | h1
      · linarith
      · exact h1
  · intro p hp
    rw [step_steps] at hp
    rw [step_cur]
    rcases List.mem_cons.mp hp with rfl | hp
    · refine ⟨hI.lo, hc, hdt_pos, ?_, le_refl _, hprog⟩
      exact le_trans hdt_le (le_trans hold hI.dtmax_le)
    · obtain ⟨a, b, c, d, e, f⟩ := hI.stepsOk p hp
      exact ⟨a, b, c, d, by linarith, f⟩
  · rw [step_steps]
    refine List.pairwise_cons.mpr ⟨?_, hI.chain⟩
    intro q hq
    exact (hI.stepsOk q hq).2.2.2.2.1
  · right; exact ⟨_, _, step_steps tf dtmin propose stopAt s, step_cur tf dtmin propose stopAt s⟩

theorem inv_run (hmin : 0 < dtmin) (n : Nat) (s : St α) (hI : Inv t0 tf dtmin dmax s) :
    Inv t0 tf dtmin dmax (run tf dtmin propose stopAt n s) := by
  induction n generalizing s with
  | zero => exact hI
  | succ n ih =>
    unfold run
    split_ifs with h
    · exact ih _ (inv_step hmin s hI h.1)
    · exact hI

end inv

/-! ### the loop: termination and stop -/

section run
variable (tf dtmin : α) (propose : List α → Dt α) (stopAt : List α → Bool)

/-- the loop body is not entered when the end time is reached or a stop was requested -/
theorem run_not_running (n : Nat) (s : St α) (h : ¬ (s.cur < tf ∧ s.stop = false)) :
    run tf dtmin propose stopAt n s = s := by
  cases n with
  | zero => rfl
  | succ n => unfold run; rw [if_neg h]

/-- **stop**: a state with the stop flag set is final — no further step, whatever the fuel -/
theorem run_of_stopped (n : Nat) (s : St α) (h : s.stop = true) : run tf dtmin propose stopAt n s = s :=
  run_not_running tf dtmin propose stopAt n s (by simp [h])

theorem run_of_done (n : Nat) (s : St α) (h : tf ≤ s.cur) : run tf dtmin propose stopAt n s = s :=
  run_not_running tf dtmin propose stopAt n s (by intro hh; exact absurd hh.1 (not_lt.mpr h))

theorem run_succ (n : Nat) (s : St α) :
    run tf dtmin propose stopAt (n + 1) s =
      if s.cur < tf ∧ s.stop = false then run tf dtmin propose stopAt n (step tf dtmin propose stopAt s) else s := rfl

theorem run_add (n m : Nat) (s : St α) :
    run tf dtmin propose stopAt (n + m) s = run tf dtmin propose stopAt m (run tf dtmin propose stopAt n s) := by
  induction n generalizing s with
  | zero => simp [run]
  | succ n ih =>
    rw [show n + 1 + m = (n + m) + 1 by omega, run_succ tf dtmin propose stopAt (n + m) s,
      run_succ tf dtmin propose stopAt n s]
    split_ifs with h
    · exact ih _
    · exact (run_not_running tf dtmin propose stopAt m s h).symm

/-- **stop ends the run at that step**: once a run has ended with the stop flag, more fuel
changes nothing -/
theorem stop_ends_run (n m : Nat) (s : St α) (h : (run tf dtmin propose stopAt n s).stop = true) :
    run tf dtmin propose stopAt (n + m) s = run tf dtmin propose stopAt n s := by
  rw [run_add]; exact run_of_stopped tf dtmin propose stopAt m _ h

/-- the only ways a run ends: end time reached, stop requested, or fuel used up (one accepted
step per unit of fuel) -/
theorem run_outcome (n : Nat) (s : St α) :
    tf ≤ (run tf dtmin propose stopAt n s).cur ∨ (run tf dtmin propose stopAt n s).stop = true ∨
      (run tf dtmin propose stopAt n s).steps.length = s.steps.length + n := by
  induction n generalizing s with
  | zero => right; right; rfl
  | succ n ih =>
    unfold run
    split_ifs with h
    · rcases ih (step tf dtmin propose stopAt s) with h1 | h1 | h1
      · exact Or.inl h1
      · exact Or.inr (Or.inl h1)
      · right; right; rw [h1, step_steps]; simp; omega
    · rcases not_and_or.mp h with h1 | h1
      · exact Or.inl (not_lt.mp h1)
      · right; left; simpa using h1

/-- never more accepted steps than fuel -/
theorem run_steps_le (n : Nat) (s : St α) :
    (run tf dtmin propose stopAt n s).steps.length ≤ s.steps.length + n := by
  induction n generalizing s with
  | zero => exact le_refl _
  | succ n ih =>
    unfold run
    split_ifs with h
    · have := ih (step tf dtmin propose stopAt s); rw [step_steps] at this; simp at this; omega
    · omega

/-- **stop ends the run at that step (count form)**: if the model answers "stop" for every history
of k+1 accepted times, no run has more than k+1 accepted steps — and the run that got there has
the stop flag set. -/
theorem run_stops_by (k : Nat) (hstop : ∀ h : List α, h.length = k + 1 → stopAt h = true)
    (n : Nat) (s : St α)
    (hs : s.steps.length ≤ k ∨ (s.steps.length = k + 1 ∧ s.stop = true)) :
    (run tf dtmin propose stopAt n s).steps.length ≤ k ∨
      ((run tf dtmin propose stopAt n s).steps.length = k + 1 ∧ (run tf dtmin propose stopAt n s).stop = true) := by
  induction n generalizing s with
  | zero => exact hs
  | succ n ih =>
    unfold run
    split_ifs with h
    · apply ih
      rcases hs with h1 | ⟨_, h2⟩
      · rcases Nat.lt_or_ge s.steps.length k with h3 | h3
        · left; rw [step_steps]; simp; omega
        · right
          have hl : (step tf dtmin propose stopAt s).steps.length = k + 1 := by
            rw [step_steps]; simp; omega
          refine ⟨hl, ?_⟩
          rw [step_stop]; apply hstop
          unfold St.times; simpa using hl
      · rw [h.2] at h2; exact absurd h2 (by simp)
    · exact hs

end run

/-! ### the property, for `solve` -/

section solve
variable (t0 tf minFrac maxFrac : α) (propose : List α → Dt α) (stopAt : List α → Bool)

theorem solve_inv (h : t0 < tf) (hmin : 0 < minFrac) (hmm : minFrac ≤ maxFrac) (fuel : Nat) :
    Inv t0 tf (minFrac * (tf - t0)) (maxFrac * (tf - t0))
      (solve t0 tf minFrac maxFrac propose stopAt fuel) :=
  inv_run (mul_pos hmin (sub_pos.mpr h)) fuel _ (inv_init t0 tf minFrac maxFrac h hmin hmm)

/-- **monotone**: accepted times strictly increase (the list is newest first) -/
theorem solve_times_increasing (h : t0 < tf) (hmin : 0 < minFrac) (hmm : minFrac ≤ maxFrac) (fuel : Nat) :
    (solve t0 tf minFrac maxFrac propose stopAt fuel).times.Pairwise (fun newer older => older < newer) := by
  have hI := solve_inv t0 tf minFrac maxFrac propose stopAt h hmin hmm fuel
  unfold St.times
  rw [List.pairwise_map]
  refine List.Pairwise.imp_of_mem ?_ hI.chain
  intro p q hp _ hpq
  have := (hI.stepsOk p hp).2.2.1
  linarith

/-- **no overshoot**: every accepted time lies in (t0, tf] -/
theorem solve_times_bounds (h : t0 < tf) (hmin : 0 < minFrac) (hmm : minFrac ≤ maxFrac) (fuel : Nat) :
    ∀ x ∈ (solve t0 tf minFrac maxFrac propose stopAt fuel).times, t0 < x ∧ x ≤ tf := by
  have hI := solve_inv t0 tf minFrac maxFrac propose stopAt h hmin hmm fuel
  intro x hx
  unfold St.times at hx
  obtain ⟨p, hp, rfl⟩ := List.mem_map.mp hx
  obtain ⟨a, b, c, d, e, f⟩ := hI.stepsOk p hp
  exact ⟨by linarith, le_trans e hI.hi⟩

/-- the clock itself never passes tf, and it is the last accepted time (or t0 before any step) -/
theorem solve_cur_le (h : t0 < tf) (hmin : 0 < minFrac) (hmm : minFrac ≤ maxFrac) (fuel : Nat) :
    (solve t0 tf minFrac maxFrac propose stopAt fuel).cur ≤ tf :=
  (solve_inv t0 tf minFrac maxFrac propose stopAt h hmin hmm fuel).hi

theorem solve_cur_is_last (h : t0 < tf) (hmin : 0 < minFrac) (hmm : minFrac ≤ maxFrac) (fuel : Nat) :
    (solve t0 tf minFrac maxFrac propose stopAt fuel).cur =
      ((solve t0 tf minFrac maxFrac propose stopAt fuel).times.head?).getD t0 := by
  have hI := solve_inv t0 tf minFrac maxFrac propose stopAt h hmin hmm fuel
  rcases hI.curEq with ⟨h1, h2⟩ | ⟨p, r, h1, h2⟩
  · unfold St.times; rw [h1, h2]; rfl
  · unfold St.times; rw [h1, h2]; rfl

/-- **step bounds (upper)**: every step is positive and at most maxFrac·(tf − t0) -/
theorem solve_dt_le_max (h : t0 < tf) (hmin : 0 < minFrac) (hmm : minFrac ≤ maxFrac) (fuel : Nat) :
    ∀ d ∈ (solve t0 tf minFrac maxFrac propose stopAt fuel).dts, 0 < d ∧ d ≤ maxFrac * (tf - t0) := by
  have hI := solve_inv t0 tf minFrac maxFrac propose stopAt h hmin hmm fuel
  intro d hd
  unfold St.dts at hd
  obtain ⟨p, hp, rfl⟩ := List.mem_map.mp hd
  obtain ⟨a, b, c, d, e, f⟩ := hI.stepsOk p hp
  exact ⟨c, d⟩

/-- **step bounds (lower)**: every step (start c, size d) is at least minFrac·(tf − t0), or it is
exactly the remaining time tf − c -/
theorem solve_dt_ge_min (h : t0 < tf) (hmin : 0 < minFrac) (hmm : minFrac ≤ maxFrac) (fuel : Nat) :
    ∀ p ∈ (solve t0 tf minFrac maxFrac propose stopAt fuel).steps,
      minFrac * (tf - t0) ≤ p.2 ∨ p.2 = tf - p.1 := by
  have hI := solve_inv t0 tf minFrac maxFrac propose stopAt h hmin hmm fuel
  intro p hp
  rcases (hI.stepsOk p hp).2.2.2.2.2 with h1 | h1
  · exact Or.inl h1
  · right; linarith

/-- … and only the LAST step can be that short one: every step before the newest is ≥ the minimum -/
theorem solve_short_step_is_last (h : t0 < tf) (hmin : 0 < minFrac) (hmm : minFrac ≤ maxFrac) (fuel : Nat)
    (p : α × α) (rest : List (α × α))
    (hs : (solve t0 tf minFrac maxFrac propose stopAt fuel).steps = p :: rest) :
    ∀ q ∈ rest, minFrac * (tf - t0) ≤ q.2 := by
  have hI := solve_inv t0 tf minFrac maxFrac propose stopAt h hmin hmm fuel
  intro q hq
  have hch := hI.chain
  rw [hs] at hch
  have h1 : q.1 + q.2 ≤ p.1 := (List.pairwise_cons.mp hch).1 q hq
  have hp := hI.stepsOk p (by rw [hs]; exact List.mem_cons_self)
  have hq' := hI.stepsOk q (by rw [hs]; exact List.mem_cons_of_mem _ hq)
  rcases hq'.2.2.2.2.2 with h2 | h2
  · exact h2
  · exfalso; linarith [hp.2.1]

/-- progress of a run whose model never asks to stop: after n units of fuel the clock is at tf
or at least n minimum steps beyond where it started -/
theorem run_progress {dtmin dmax : α} (hmin : 0 < dtmin) (hns : ∀ hst, stopAt hst = false)
    (n : Nat) (s : St α) (hI : Inv t0 tf dtmin dmax s) (hs : s.stop = false) :
    (run tf dtmin propose stopAt n s).cur = tf ∨
      s.cur + (n : α) * dtmin ≤ (run tf dtmin propose stopAt n s).cur := by
  induction n generalizing s with
  | zero => right; simp [run]
  | succ n ih =>
    unfold run
    split_ifs with hc
    · have hI' := inv_step (propose := propose) (stopAt := stopAt) hmin s hI hc.1
      have hs' : (step tf dtmin propose stopAt s).stop = false := by rw [step_stop]; exact hns _
      rcases step_progress (propose := propose) s hI hc.1 with h1 | h1
      · rcases ih _ hI' hs' with h2 | h2
        · exact Or.inl h2
        · right
          rw [step_cur] at h2
          push_cast
          linarith
      · left
        have : tf ≤ (step tf dtmin propose stopAt s).cur := by rw [step_cur, h1]
        rw [run_of_done tf dtmin propose stopAt n _ this, step_cur, h1]
    · left
      rcases not_and_or.mp hc with h1 | h1
      · exact le_antisymm hI.hi (not_lt.mp h1)
      · exact absurd hs h1

/-- **exact end**: if the model never asks to stop and N·minFrac ≥ 1, then N units of fuel
suffice and the final time is exactly tf — for every proposal function -/
theorem solve_reaches_tf (h : t0 < tf) (hmin : 0 < minFrac) (hmm : minFrac ≤ maxFrac)
    (hns : ∀ hst, stopAt hst = false) (N : Nat) (hN : 1 ≤ (N : α) * minFrac) :
    (solve t0 tf minFrac maxFrac propose stopAt N).cur = tf := by
  have hd : 0 < tf - t0 := sub_pos.mpr h
  have hI0 := inv_init t0 tf minFrac maxFrac h hmin hmm
  rcases run_progress t0 tf propose stopAt (mul_pos hmin hd) hns N _ hI0 rfl with h1 | h1
  · exact h1
  · have hle := solve_cur_le t0 tf minFrac maxFrac propose stopAt h hmin hmm N
    apply le_antisymm hle
    have : (tf - t0) ≤ (N : α) * (minFrac * (tf - t0)) := by
      have := mul_le_mul_of_nonneg_right hN hd.le
      linarith
    have h0 : (initSt t0 tf maxFrac).cur = t0 := rfl
    rw [h0] at h1
    unfold solve
    linarith

/-- … and more fuel than that changes nothing: the loop has terminated -/
theorem solve_terminated (h : t0 < tf) (hmin : 0 < minFrac) (hmm : minFrac ≤ maxFrac)
    (hns : ∀ hst, stopAt hst = false) (N : Nat) (hN : 1 ≤ (N : α) * minFrac) (m : Nat) :
    solve t0 tf minFrac maxFrac propose stopAt (N + m) = solve t0 tf minFrac maxFrac propose stopAt N := by
  unfold solve
  rw [run_add]
  apply run_of_done
  have := solve_reaches_tf t0 tf minFrac maxFrac propose stopAt h hmin hmm hns N hN
  unfold solve at this
  rw [this]

/-- so the number of accepted steps is at most N (termination bound 1/minFrac, rounded up) -/
theorem solve_steps_bound (h : t0 < tf) (hmin : 0 < minFrac) (hmm : minFrac ≤ maxFrac)
    (hns : ∀ hst, stopAt hst = false) (N : Nat) (hN : 1 ≤ (N : α) * minFrac) (fuel : Nat) :
    (solve t0 tf minFrac maxFrac propose stopAt fuel).steps.length ≤ N := by
  rcases Nat.le_total fuel N with hle | hle
  · have := run_steps_le tf (minFrac * (tf - t0)) propose stopAt fuel (initSt t0 tf maxFrac)
    unfold solve; simp [initSt] at this ⊢; omega
  · obtain ⟨m, rfl⟩ := Nat.exists_eq_add_of_le hle
    rw [solve_terminated t0 tf minFrac maxFrac propose stopAt h hmin hmm hns N hN m]
    have := run_steps_le tf (minFrac * (tf - t0)) propose stopAt N (initSt t0 tf maxFrac)
    unfold solve; simp [initSt] at this ⊢; omega

/-- **stop**: if the model answers "stop" for every history of k+1 accepted times, the run has at
most k+1 accepted steps whatever the fuel -/
theorem solve_stops_by (k : Nat) (hstop : ∀ hst : List α, hst.length = k + 1 → stopAt hst = true) (fuel : Nat) :
    (solve t0 tf minFrac maxFrac propose stopAt fuel).steps.length ≤ k + 1 := by
  have := run_stops_by tf (minFrac * (tf - t0)) propose stopAt k hstop fuel (initSt t0 tf maxFrac)
    (Or.inl (by simp [initSt]))
  unfold solve
  rcases this with h | ⟨h, _⟩ <;> omega

/-- **degenerate configuration (observation, not part of the property)**: with `minDtFrac = 0` the
code has no guard: a model that proposes 0, a negative number, -inf or NaN makes no progress,
the clock stays at t0 for any number of iterations -/
theorem no_progress_without_min (h : t0 < tf) (hmax : 0 < maxFrac) (d : Dt α) (hd : d.gt 0 = false) (fuel : Nat) :
    (solve t0 tf 0 maxFrac (fun _ => d) (fun _ => false) fuel).cur = t0 := by
  unfold solve
  have hd0 : 0 < tf - t0 := sub_pos.mpr h
  have key : ∀ n (s : St α), s.cur = t0 → 0 < s.dtmax →
      (run tf (0 * (tf - t0)) (fun _ => d) (fun _ => false) n s).cur = t0 := by
    intro n
    induction n with
    | zero => intro s h1 _; exact h1
    | succ n ih =>
      intro s h1 h2
      unfold run
      split_ifs with hc
      · have hm : 0 < newMax tf s := newMax_pos tf s hc.1 h2
        have hz : dtOf tf (0 * (tf - t0)) (fun _ => d) s = 0 := by
          unfold dtOf clampDt
          simp only [zero_mul, hd, Bool.false_eq_true, if_false, Dt.lt, hm, decide_true, if_true]
        apply ih
        · rw [step_cur, hz, h1, add_zero]
        · rw [step_dtmax]; exact hm
      · exact h1
  exact key fuel _ rfl (mul_pos hmax hd0)

end solve

/-! ### nested states: flatten / unflatten -/

section flat
open KawinV.Flatten
variable {β : Type}

theorem flatten_cons (it : Item β) (X : List (Item β)) : flatten (it :: X) = it.data ++ flatten X := by
  simp [flatten]

theorem flatten_length (X : List (Item β)) (hwf : ∀ it ∈ X, it.wf) : (flatten X).length = totalSize X := by
  induction X with
  | nil => rfl
  | cons it X ih =>
    rw [flatten_cons, List.length_append, ih (fun i hi => hwf i (List.mem_cons_of_mem _ hi))]
    have := hwf it List.mem_cons_self
    cases it with
    | scalar x => simp [Item.data, totalSize, Item.size]
    | arr sh d => simp [Item.data, totalSize, Item.size, Item.wf] at this ⊢; omega

/-- **round trip**: unflattening the flattened state by its own structure gives the state back
(also when the flat vector carries further entries behind it, as inside a Coupler) -/
theorem unflatten_flatten (X : List (Item β)) (hwf : ∀ it ∈ X, it.wf) (rest : List β) :
    unflatten (flatten X ++ rest) X = some X := by
  induction X with
  | nil => rfl
  | cons it X ih =>
    have ih' := ih (fun i hi => hwf i (List.mem_cons_of_mem _ hi))
    have hw := hwf it List.mem_cons_self
    rw [flatten_cons, List.append_assoc]
    cases it with
    | scalar x => simp [Item.data, unflatten, ih']
    | arr sh d =>
      simp only [Item.wf] at hw
      change unflatten (d ++ (flatten X ++ rest)) (Item.arr sh d :: X) = _
      rw [unflatten, if_neg (by simp [hw])]
      rw [← hw, List.drop_left, List.take_left, ih']
      rfl

/-- **structure handed to callbacks**: whatever flat vector the iterator produced, the unflattened
state has exactly the reference structure and shapes, and every array has prod(shape) elements -/
theorem unflatten_shapes (ref : List (Item β)) (flat : List β) (Y : List (Item β))
    (h : unflatten flat ref = some Y) : shapes Y = shapes ref ∧ ∀ it ∈ Y, it.wf := by
  induction ref generalizing flat Y with
  | nil => simp [unflatten] at h; subst h; simp [shapes]
  | cons it ref ih =>
    cases it with
    | scalar x =>
      cases flat with
      | nil => simp [unflatten] at h
      | cons a fs =>
        simp only [unflatten, Option.map_eq_some_iff] at h
        obtain ⟨t, ht, rfl⟩ := h
        obtain ⟨h1, h2⟩ := ih fs t ht
        refine ⟨by simp [shapes, Item.shape] at h1 ⊢; exact h1, ?_⟩
        intro i hi
        rcases List.mem_cons.mp hi with rfl | hi
        · trivial
        · exact h2 i hi
    | arr sh d =>
      simp only [unflatten] at h
      split_ifs at h with hlen
      simp only [Option.map_eq_some_iff] at h
      obtain ⟨t, ht, rfl⟩ := h
      obtain ⟨h1, h2⟩ := ih _ t ht
      refine ⟨by simp [shapes, Item.shape] at h1 ⊢; exact h1, ?_⟩
      intro i hi
      rcases List.mem_cons.mp hi with rfl | hi
      · simp only [Item.wf, List.length_take]; omega
      · exact h2 i hi

/-- no information is lost the other way either: flattening the unflattened state gives the
first totalSize(ref) entries of the flat vector back -/
theorem flatten_unflatten (ref : List (Item β)) (flat : List β) (Y : List (Item β))
    (h : unflatten flat ref = some Y) : flatten Y = flat.take (totalSize ref) := by
  induction ref generalizing flat Y with
  | nil => simp [unflatten] at h; subst h; simp [flatten, totalSize]
  | cons it ref ih =>
    cases it with
    | scalar x =>
      cases flat with
      | nil => simp [unflatten] at h
      | cons a fs =>
        simp only [unflatten, Option.map_eq_some_iff] at h
        obtain ⟨t, ht, rfl⟩ := h
        rw [flatten_cons, ih fs t ht]
        simp only [Item.data, totalSize, List.map_cons, List.sum_cons, Item.size]
        rw [show 1 + (List.map Item.size ref).sum = (List.map Item.size ref).sum + 1 by omega,
          List.take_succ_cons]
        rfl
    | arr sh d =>
      simp only [unflatten] at h
      split_ifs at h with hlen
      simp only [Option.map_eq_some_iff] at h
      obtain ⟨t, ht, rfl⟩ := h
      rw [flatten_cons, ih _ t ht]
      simp only [Item.data, totalSize, List.map_cons, List.sum_cons, Item.size]
      rw [List.take_add]

/-- unflatten fails only on a flat vector that is too short -/
theorem unflatten_isSome (ref : List (Item β)) (flat : List β) (h : totalSize ref ≤ flat.length) :
    ∃ Y, unflatten flat ref = some Y := by
  induction ref generalizing flat with
  | nil => exact ⟨[], rfl⟩
  | cons it ref ih =>
    cases it with
    | scalar x =>
      cases flat with
      | nil => simp [totalSize, Item.size] at h
      | cons a fs =>
        simp only [totalSize, List.map_cons, List.sum_cons, Item.size, List.length_cons] at h
        obtain ⟨Y, hY⟩ := ih fs (by unfold totalSize; omega)
        exact ⟨Item.scalar a :: Y, by simp [unflatten, hY]⟩
    | arr sh d =>
      simp only [totalSize, List.map_cons, List.sum_cons, Item.size] at h
      obtain ⟨Y, hY⟩ := ih (flat.drop (prodL sh)) (by unfold totalSize; rw [List.length_drop]; omega)
      refine ⟨Item.arr sh (flat.take (prodL sh)) :: Y, ?_⟩
      rw [unflatten, if_neg (by omega), hY]; rfl

/-! ### Coupler -/

/-- `_sizeRef` adds up to the length of the concatenated vector -/
theorem sizeRef_sum (Xs : List (List (Item β))) : (flattenC Xs).2.sum = (flattenC Xs).1.length := by
  induction Xs with
  | nil => rfl
  | cons X Xs ih => simp [flattenC] at ih ⊢; rw [ih]

/-- **Coupler round trip**: several models with differently shaped states -/
theorem unflattenC_flattenC (Xs : List (List (Item β))) (hwf : ∀ X ∈ Xs, ∀ it ∈ X, it.wf) :
    unflattenC (flattenC Xs).1 (flattenC Xs).2 Xs = some Xs := by
  induction Xs with
  | nil => rfl
  | cons X Xs ih =>
    have ih' := ih (fun Y hY => hwf Y (List.mem_cons_of_mem _ hY))
    have hX := hwf X List.mem_cons_self
    simp only [flattenC, List.map_cons, List.flatten_cons] at ih' ⊢
    simp only [unflattenC]
    rw [List.take_left]
    have := unflatten_flatten X hX []
    rw [List.append_nil] at this
    rw [this]
    simp only
    rw [List.drop_left, ih']
    rfl

/-- **Coupler callback structure**: with one size per model, every sub-model state that comes out
of the Coupler's unflattenX has its reference structure and shapes -/
theorem unflattenC_shapes (refs : List (List (Item β))) (ss : List Nat) (flat : List β)
    (Ys : List (List (Item β))) (hlen : ss.length = refs.length)
    (h : unflattenC flat ss refs = some Ys) : Ys.map shapes = refs.map shapes := by
  induction refs generalizing ss flat Ys with
  | nil =>
    cases ss with
    | nil => simp [unflattenC] at h; subst h; rfl
    | cons s ss => simp at hlen
  | cons ref refs ih =>
    cases ss with
    | nil => simp at hlen
    | cons s ss =>
      simp only [unflattenC] at h
      cases hu : unflatten (flat.take s) ref with
      | none => rw [hu] at h; simp at h
      | some x =>
        rw [hu] at h
        simp only [Option.map_eq_some_iff] at h
        obtain ⟨t, ht, rfl⟩ := h
        have := ih ss (flat.drop s) t (by simpa using hlen) ht
        simp only [List.map_cons, this, (unflatten_shapes ref _ x hu).1]

/-- **every entry is read at the offset its predecessors claim** — scalars included (one slot each):
unflattening by `X ++ Y` is unflattening by `X`, then by `Y` from offset `totalSize X` on -/
theorem totalSize_cons (it : Item β) (X : List (Item β)) : totalSize (it :: X) = it.size + totalSize X := by
  simp [totalSize]

theorem unflatten_append (X Y : List (Item β)) (flat : List β) :
    unflatten flat (X ++ Y) =
      (unflatten flat X).bind (fun X' => (unflatten (flat.drop (totalSize X)) Y).map (fun Y' => X' ++ Y')) := by
  induction X generalizing flat with
  | nil =>
    have h0 : totalSize ([] : List (Item β)) = 0 := rfl
    simp only [List.nil_append, unflatten, h0, List.drop_zero, Option.bind_some]
    cases unflatten flat Y <;> rfl
  | cons it X ih =>
    cases it with
    | scalar x =>
      cases flat with
      | nil => simp [unflatten]
      | cons a fs =>
        have hd : List.drop (totalSize (Item.scalar x :: X)) (a :: fs) = List.drop (totalSize X) fs := by
          rw [totalSize_cons, show (Item.scalar x).size + totalSize X = totalSize X + 1 by simp [Item.size]; omega,
            List.drop_succ_cons]
        rw [hd]
        simp only [List.cons_append, unflatten, ih fs]
        generalize unflatten (List.drop (totalSize X) fs) Y = oy
        cases unflatten fs X with
        | none => rfl
        | some X' => cases oy <;> rfl
    | arr sh d =>
      have hd : List.drop (totalSize (Item.arr sh d :: X)) flat = List.drop (totalSize X) (List.drop (prodL sh) flat) := by
        rw [totalSize_cons, List.drop_drop]; rfl
      rw [hd]
      simp only [List.cons_append, unflatten]
      split_ifs with hlen
      · rfl
      · rw [ih]
        generalize unflatten (List.drop (totalSize X) (List.drop (prodL sh) flat)) Y = oy
        cases unflatten (List.drop (prodL sh) flat) X with
        | none => rfl
        | some X' => cases oy <;> rfl

/-- **lists mixing scalars and arrays in every order**: an entry behind ANY prefix of scalars and
arrays gets exactly its own numbers back (the general round trip, read at one entry) -/
theorem unflatten_entry_after_prefix (P : List (Item β)) (it : Item β) (S : List (Item β))
    (hwf : ∀ i ∈ P ++ it :: S, i.wf) :
    unflatten (flatten (P ++ it :: S)) (P ++ it :: S) = some (P ++ it :: S) := by
  have := unflatten_flatten (P ++ it :: S) hwf []
  rwa [List.append_nil] at this

/-! ### Coupler through a history of resizes -/

theorem flattenC_sizes_length (Xs : List (List (Item β))) : (flattenC Xs).2.length = Xs.length := by
  simp [flattenC]

/-- the iterator hands back a flat vector of the length of the latest flatten (or longer): the
Coupler can always cut it into the shapes the models supplied last -/
theorem unflattenC_isSome (Xs : List (List (Item β))) (hwf : ∀ X ∈ Xs, ∀ it ∈ X, it.wf) (flat : List β)
    (hlen : (flattenC Xs).1.length ≤ flat.length) :
    ∃ Ys, unflattenC flat (flattenC Xs).2 Xs = some Ys := by
  induction Xs generalizing flat with
  | nil => exact ⟨[], rfl⟩
  | cons X Xs ih =>
    have hX := hwf X List.mem_cons_self
    simp only [flattenC, List.map_cons, List.flatten_cons, List.length_append] at hlen ih ⊢
    simp only [unflattenC]
    obtain ⟨Y, hY⟩ := unflatten_isSome X (flat.take (flatten X).length)
      (by rw [List.length_take, ← flatten_length X hX]; omega)
    obtain ⟨Ys, hYs⟩ := ih (fun Z hZ => hwf Z (List.mem_cons_of_mem _ hZ)) (flat.drop (flatten X).length)
      (by rw [List.length_drop]; omega)
    exact ⟨Y :: Ys, by rw [hY]; simp only; rw [hYs]; rfl⟩

/-- one iteration: whatever sizes were on record before, the state the models supplied comes back
exactly (flattenX records the sizes of THIS state before unflattenX slices) -/
theorem deliver_ok (c : Coupler) (Xs : List (List (Item β))) (hwf : ∀ X ∈ Xs, ∀ it ∈ X, it.wf) :
    (c.deliver Xs).1 = some Xs := by
  simp only [Coupler.deliver, Coupler.flattenX, Coupler.unflattenX]
  exact unflattenC_flattenC Xs hwf

/-- **Coupler, every history of resizes**: whatever sequence of differently sized states the
sub-models supply (initial state, then what each `postProcess` returned: grown, shrunk, several
times, several models at once), every one of them is delivered to the callbacks exactly as supplied -/
theorem deliverAll_history (c : Coupler) (hist : List (List (List (Item β))))
    (hwf : ∀ Xs ∈ hist, ∀ X ∈ Xs, ∀ it ∈ X, it.wf) :
    c.deliverAll hist = hist.map some := by
  induction hist generalizing c with
  | nil => rfl
  | cons Xs rest ih =>
    simp only [Coupler.deliverAll, List.map_cons]
    rw [deliver_ok c Xs (hwf Xs List.mem_cons_self), ih _ (fun Z hZ => hwf Z (List.mem_cons_of_mem _ hZ))]

/-- the sizes on record after a history are those of the LATEST flatten -/
theorem afterHistory_sizes (c : Coupler) (hist : List (List (List (Item β)))) (Xs : List (List (Item β))) :
    (c.afterHistory (hist ++ [Xs])).sizeRef = some (flattenC Xs).2 := by
  induction hist generalizing c with
  | nil => rfl
  | cons Z rest ih => exact ih _

/-- **round trip with the sizes of the latest flatten, for every history of resizes before it** -/
theorem unflattenC_flattenC_history (c : Coupler) (hist : List (List (List (Item β))))
    (Xs : List (List (Item β))) (hwf : ∀ X ∈ Xs, ∀ it ∈ X, it.wf) :
    (c.afterHistory (hist ++ [Xs])).unflattenX (flattenC Xs).1 Xs = some Xs := by
  simp only [Coupler.unflattenX, afterHistory_sizes]
  exact unflattenC_flattenC Xs hwf

/-- … and for ANY flat vector of that length (what the iterator returns) the callbacks of every
sub-model receive the structure and shapes that model supplied last -/
theorem unflattenC_history_shapes (c : Coupler) (hist : List (List (List (Item β))))
    (Xs : List (List (Item β))) (hwf : ∀ X ∈ Xs, ∀ it ∈ X, it.wf) (flat : List β)
    (hlen : flat.length = (flattenC Xs).1.length) :
    ∃ Ys, (c.afterHistory (hist ++ [Xs])).unflattenX flat Xs = some Ys ∧ Ys.map shapes = Xs.map shapes := by
  simp only [Coupler.unflattenX, afterHistory_sizes]
  obtain ⟨Ys, hYs⟩ := unflattenC_isSome Xs hwf flat (by omega)
  exact ⟨Ys, hYs, unflattenC_shapes Xs _ flat Ys (flattenC_sizes_length Xs) hYs⟩

/-- **slicing with stale sizes fails / misdelivers** (why the sizes of the LATEST flatten are needed):
model 0 of two coupled models grows from 3 to 4 entries (`grown`), or shrinks from 3 to 2
(`shrunk`).  With the sizes recorded when the state still was `first`, the flat vector of the new
state — which has exactly the right total length — cannot be cut into the supplied shapes
(`none`: NumPy's reshape error), and in the shrunk case the slice cut for model 1 is `[8, 9]`,
not its own entries `[7, 8, 9]`; with the sizes of the latest flatten both come back exactly. -/
theorem stale_sizes_misdeliver :
    let first : List (List (Item ℚ)) := [[.arr [3] [1, 2, 3]], [.scalar 7, .arr [2] [8, 9]]]
    let grown : List (List (Item ℚ)) := [[.arr [4] [1, 2, 3, 4]], [.scalar 7, .arr [2] [8, 9]]]
    let shrunk : List (List (Item ℚ)) := [[.arr [2] [1, 2]], [.scalar 7, .arr [2] [8, 9]]]
    (flattenC first).2 = [3, 3] ∧
    unflattenC (flattenC grown).1 (flattenC first).2 grown = none ∧
    unflattenC (flattenC shrunk).1 (flattenC first).2 shrunk = none ∧
    ((flattenC shrunk).1.drop 3).take 3 = [8, 9] ∧ flatten [Item.scalar (7 : ℚ), .arr [2] [8, 9]] = [7, 8, 9] ∧
    unflattenC (flattenC grown).1 (flattenC grown).2 grown = some grown ∧
    unflattenC (flattenC shrunk).1 (flattenC shrunk).2 shrunk = some shrunk := by
  decide +kernel

end flat

/-! ### nested couplers (a Coupler as one of the models of another Coupler), several couplers alive at once

The model (`KawinV.Flatten.CTree`, `flattenT`, `unflattenT`) gives every Coupler an object identity and
keeps the `_sizeRef` attributes in a heap; "per-instance sizes" is the hypothesis that the identities in a
tree (forest) are pairwise distinct. -/

section nested
open KawinV.Flatten
variable {β : Type}

theorem flatTs_eq (cs : List (CTree β)) : flatTs cs = (cs.map flatT).flatten := by
  induction cs with
  | nil => rfl
  | cons c cs ih => simp [flatTs, ih]

mutual
theorem flattenT_fst : ∀ (T : CTree β) (h : Heap), (flattenT h T).1 = flatT T
  | .leaf X, h => rfl
  | .node id cs, h => by
    simp only [flattenT, flatT, flatTs_eq]
    rw [flattenTs_fst cs h]
theorem flattenTs_fst : ∀ (cs : List (CTree β)) (h : Heap), (flattenTs h cs).1 = cs.map flatT
  | [], h => rfl
  | c :: cs, h => by
    simp only [flattenTs, List.map_cons]
    rw [flattenT_fst c h, flattenTs_fst cs _]
end

theorem Heap.set_same (h : Heap) (k : Nat) (v : List Nat) : (h.set k v) k = some v := by simp [Heap.set]
theorem Heap.set_other (h : Heap) (k j : Nat) (v : List Nat) (hne : j ≠ k) : (h.set k v) j = h j := by simp [Heap.set, hne]

mutual
/-- `flattenX` of a tree writes only the `_sizeRef` of the Couplers IN that tree -/
theorem flattenT_frame : ∀ (T : CTree β) (h : Heap) (k : Nat), k ∉ T.ids → (flattenT h T).2 k = h k
  | .leaf X, h, k, _ => rfl
  | .node id cs, h, k, hk => by
    simp only [CTree.ids, List.mem_cons, not_or] at hk
    simp only [flattenT]
    rw [Heap.set_other _ _ _ _ hk.1, flattenTs_frame cs h k hk.2]
theorem flattenTs_frame : ∀ (cs : List (CTree β)) (h : Heap) (k : Nat), k ∉ idsL cs → (flattenTs h cs).2 k = h k
  | [], h, k, _ => rfl
  | c :: cs, h, k, hk => by
    simp only [idsL, List.mem_append, not_or] at hk
    simp only [flattenTs]
    rw [flattenTs_frame cs _ k hk.2, flattenT_frame c h k hk.1]
end

mutual
/-- `unflattenX` of a tree reads only the `_sizeRef` of the Couplers in that tree -/
theorem unflattenT_congr : ∀ (T : CTree β) (h h' : Heap) (flat : List β), (∀ k ∈ T.ids, h k = h' k) →
    unflattenT h flat T = unflattenT h' flat T
  | .leaf X, h, h', flat, _ => rfl
  | .node id cs, h, h', flat, hk => by
    simp only [unflattenT]
    rw [hk id (by simp [CTree.ids])]
    cases h' id with
    | none => rfl
    | some ss => simp only; rw [unflattenTs_congr cs h h' flat ss (fun k hk' => hk k (by simp [CTree.ids, hk']))]
theorem unflattenTs_congr : ∀ (cs : List (CTree β)) (h h' : Heap) (flat : List β) (ss : List Nat), (∀ k ∈ idsL cs, h k = h' k) →
    unflattenTs h flat ss cs = unflattenTs h' flat ss cs
  | [], h, h', flat, ss, _ => rfl
  | c :: cs, h, h', flat, ss, hk => by
    cases ss with
    | nil => rfl
    | cons s ss' =>
      simp only [unflattenTs]
      rw [unflattenT_congr c h h' _ (fun k hk' => hk k (by simp [idsL, hk'])),
        unflattenTs_congr cs h h' _ ss' (fun k hk' => hk k (by simp [idsL, hk']))]
end

mutual
/-- every Coupler of the tree has the sizes of ITS sub-models' flat vectors on record -/
def Recorded (h : Heap) : CTree β → Prop
  | .leaf _ => True
  | .node id cs => h id = some (cs.map (fun c => (flatT c).length)) ∧ RecordedL h cs
def RecordedL (h : Heap) : List (CTree β) → Prop
  | [] => True
  | c :: cs => Recorded h c ∧ RecordedL h cs
end

mutual
theorem recorded_congr : ∀ (T : CTree β) (h h' : Heap), (∀ k ∈ T.ids, h k = h' k) → Recorded h T → Recorded h' T
  | .leaf X, h, h', _, _ => trivial
  | .node id cs, h, h', hk, hr => by
    simp only [Recorded] at hr ⊢
    exact ⟨by rw [← hk id (by simp [CTree.ids])]; exact hr.1,
      recordedL_congr cs h h' (fun k hk' => hk k (by simp [CTree.ids, hk'])) hr.2⟩
theorem recordedL_congr : ∀ (cs : List (CTree β)) (h h' : Heap), (∀ k ∈ idsL cs, h k = h' k) → RecordedL h cs → RecordedL h' cs
  | [], h, h', _, _ => trivial
  | c :: cs, h, h', hk, hr => by
    simp only [RecordedL] at hr ⊢
    exact ⟨recorded_congr c h h' (fun k hk' => hk k (by simp [idsL, hk'])) hr.1,
      recordedL_congr cs h h' (fun k hk' => hk k (by simp [idsL, hk'])) hr.2⟩
end

mutual
/-- **after `flattenX`, every Coupler of the tree has its own sizes on record** — provided the
Couplers are distinct objects -/
theorem flattenT_recorded : ∀ (T : CTree β) (h : Heap), T.ids.Nodup → Recorded (flattenT h T).2 T
  | .leaf X, h, _ => trivial
  | .node id cs, h, hnd => by
    simp only [CTree.ids, List.nodup_cons] at hnd
    simp only [Recorded, flattenT]
    refine ⟨?_, ?_⟩
    · rw [Heap.set_same, flattenTs_fst, List.map_map]; rfl
    · refine recordedL_congr cs (flattenTs h cs).2 _ (fun k hk => ?_) (flattenTs_recorded cs h hnd.2)
      rw [Heap.set_other]; rintro rfl; exact hnd.1 hk
theorem flattenTs_recorded : ∀ (cs : List (CTree β)) (h : Heap), (idsL cs).Nodup → RecordedL (flattenTs h cs).2 cs
  | [], h, _ => trivial
  | c :: cs, h, hnd => by
    simp only [idsL, List.nodup_append] at hnd
    simp only [RecordedL, flattenTs]
    refine ⟨?_, flattenTs_recorded cs _ hnd.2.1⟩
    refine recorded_congr c (flattenT h c).2 _ (fun k hk => ?_) (flattenT_recorded c h hnd.1)
    rw [flattenTs_frame cs _ k (fun hk' => hnd.2.2 k hk k hk' rfl)]
end

mutual
/-- round trip under recorded sizes -/
theorem unflattenT_of_recorded : ∀ (T : CTree β) (h : Heap) (rest : List β), T.wf → Recorded h T →
    unflattenT h (flatT T ++ rest) T = some T
  | .leaf X, h, rest, hwf, _ => by
    simp only [unflattenT, flatT, CTree.wf] at hwf ⊢
    rw [unflatten_flatten X hwf rest]; rfl
  | .node id cs, h, rest, hwf, hr => by
    simp only [Recorded, CTree.wf] at hr hwf
    simp only [unflattenT, flatT, hr.1]
    rw [unflattenTs_of_recorded cs h rest hwf hr.2]; rfl
theorem unflattenTs_of_recorded : ∀ (cs : List (CTree β)) (h : Heap) (rest : List β), wfL cs → RecordedL h cs →
    unflattenTs h (flatTs cs ++ rest) (cs.map (fun c => (flatT c).length)) cs = some cs
  | [], h, rest, _, _ => rfl
  | c :: cs, h, rest, hwf, hr => by
    simp only [RecordedL, wfL] at hr hwf
    simp only [List.map_cons, unflattenTs, flatTs, List.append_assoc, List.take_left', List.drop_left']
    have h1 := unflattenT_of_recorded c h [] hwf.1 hr.1
    rw [List.append_nil] at h1
    rw [h1]
    simp only
    rw [unflattenTs_of_recorded cs h rest hwf.2 hr.2]; rfl
end

/-- **nested round trip**: for EVERY coupling tree whose Couplers are distinct objects (each with its
own `_sizeRef`), whatever was on record before (`h`): `unflattenX(flattenX(X), X) = X`, leaf by leaf,
Coupler by Coupler, at every depth (also when the flat vector carries further entries behind it) -/
theorem nested_unflatten_flatten (T : CTree β) (h : Heap) (rest : List β) (hwf : T.wf) (hid : T.ids.Nodup) :
    unflattenT (flattenT h T).2 ((flattenT h T).1 ++ rest) T = some T := by
  rw [flattenT_fst]
  exact unflattenT_of_recorded T _ rest hwf (flattenT_recorded T h hid)

theorem flattenAll_frame (Ts : List (CTree β)) (h : Heap) (k : Nat) (hk : ∀ T' ∈ Ts, k ∉ T'.ids) :
    flattenAll h Ts k = h k := by
  induction Ts generalizing h with
  | nil => rfl
  | cons T' Ts ih =>
    simp only [flattenAll]
    rw [ih _ (fun T'' hT => hk T'' (List.mem_cons_of_mem _ hT)), flattenT_frame T' h k (hk T' List.mem_cons_self)]

/-- **independent couplers, any interleaving**: after `flattenX` of one tree, `flattenX` calls on any
number of OTHER model trees (no Coupler object in common) do not disturb it: its vector still
unflattens to exactly its state -/
theorem nested_roundtrip_interleaved (T : CTree β) (Ts : List (CTree β)) (h : Heap) (hwf : T.wf) (hid : T.ids.Nodup)
    (hdis : ∀ T' ∈ Ts, ∀ k ∈ T'.ids, k ∉ T.ids) :
    unflattenT (flattenAll (flattenT h T).2 Ts) (flattenT h T).1 T = some T := by
  have h0 := unflattenT_of_recorded T (flattenAll (flattenT h T).2 Ts) [] hwf
    (recorded_congr T (flattenT h T).2 _ (fun k hk => (flattenAll_frame Ts _ k (fun T' hT hk' => hdis T' hT k hk' hk)).symm)
      (flattenT_recorded T h hid))
  rw [List.append_nil] at h0
  rw [flattenT_fst]; exact h0

theorem flatT_length_leaf (X : List (Item β)) (hwf : ∀ it ∈ X, it.wf) : (flatten X).length = totalSize X :=
  flatten_length X hwf

mutual
/-- **what every leaf callback receives**: with the sizes of the latest `flattenX` on record, ANY
flat vector of sufficient length (what the iterator returns) is cut into a tree with the same coupling
topology, every leaf state with exactly the structure and shapes that leaf supplied, and the numbers
in order (leaf k gets the k-th block of the vector) -/
theorem unflattenT_shapes : ∀ (T : CTree β) (h : Heap) (flat : List β), T.wf → Recorded h T → (flatT T).length ≤ flat.length →
    ∃ T', unflattenT h flat T = some T' ∧ T'.leafShapes = T.leafShapes ∧ T'.topo = T.topo ∧ T'.wf ∧
      flatT T' = flat.take (flatT T).length
  | .leaf X, h, flat, hwf, _, hlen => by
    simp only [CTree.wf, flatT] at hwf hlen
    obtain ⟨Y, hY⟩ := unflatten_isSome X flat (by rw [← flatten_length X hwf]; exact hlen)
    refine ⟨.leaf Y, by simp [unflattenT, hY], ?_, rfl, ?_, ?_⟩
    · simp only [CTree.leafShapes, (unflatten_shapes X flat Y hY).1]
    · exact (unflatten_shapes X flat Y hY).2
    · simp only [flatT]; rw [flatten_unflatten X flat Y hY, flatten_length X hwf]
  | .node id cs, h, flat, hwf, hr, hlen => by
    simp only [Recorded, CTree.wf, flatT] at hr hwf hlen
    obtain ⟨ts, h1, h2, h3, h4, h5⟩ := unflattenTs_shapes cs h flat hwf hr.2 hlen
    refine ⟨.node id ts, by simp [unflattenT, hr.1, h1], ?_, ?_, ?_, ?_⟩
    · simpa only [CTree.leafShapes] using h2
    · simp only [CTree.topo, h3]
    · simpa only [CTree.wf] using h4
    · simpa only [flatT] using h5
theorem unflattenTs_shapes : ∀ (cs : List (CTree β)) (h : Heap) (flat : List β), wfL cs → RecordedL h cs → (flatTs cs).length ≤ flat.length →
    ∃ ts, unflattenTs h flat (cs.map (fun c => (flatT c).length)) cs = some ts ∧ leafShapesL ts = leafShapesL cs ∧ topoL ts = topoL cs ∧ wfL ts ∧
      flatTs ts = flat.take (flatTs cs).length
  | [], h, flat, _, _, _ => ⟨[], rfl, rfl, rfl, trivial, by simp [flatTs]⟩
  | c :: cs, h, flat, hwf, hr, hlen => by
    simp only [RecordedL, wfL, flatTs, List.length_append] at hr hwf hlen
    obtain ⟨x, x1, x2, x3, x4, x5⟩ := unflattenT_shapes c h (flat.take (flatT c).length) hwf.1 hr.1 (by rw [List.length_take]; omega)
    obtain ⟨ts, t1, t2, t3, t4, t5⟩ := unflattenTs_shapes cs h (flat.drop (flatT c).length) hwf.2 hr.2 (by rw [List.length_drop]; omega)
    refine ⟨x :: ts, ?_, ?_, ?_, ⟨x4, t4⟩, ?_⟩
    · simp only [List.map_cons, unflattenTs, x1, t1]; rfl
    · simp only [leafShapesL, x2, t2]
    · simp only [topoL, x3, t3]
    · simp only [flatTs, x5, t5, List.take_take, Nat.min_self, List.length_append]
      rw [List.take_add]
end

/-- … in particular after `flattenX` of a tree of distinct Coupler objects, and after any number of
`flattenX` calls on other trees in between -/
theorem nested_unflatten_shapes (T : CTree β) (Ts : List (CTree β)) (h : Heap) (flat : List β) (hwf : T.wf) (hid : T.ids.Nodup)
    (hdis : ∀ T' ∈ Ts, ∀ k ∈ T'.ids, k ∉ T.ids) (hlen : (flattenT h T).1.length ≤ flat.length) :
    ∃ T', unflattenT (flattenAll (flattenT h T).2 Ts) flat T = some T' ∧ T'.leafShapes = T.leafShapes ∧ T'.topo = T.topo ∧
      flatT T' = flat.take (flattenT h T).1.length := by
  rw [flattenT_fst] at hlen ⊢
  obtain ⟨T', h1, h2, h3, _, h5⟩ := unflattenT_shapes T (flattenAll (flattenT h T).2 Ts) flat hwf
    (recorded_congr T (flattenT h T).2 _ (fun k hk => (flattenAll_frame Ts _ k (fun T' hT hk' => hdis T' hT k hk' hk)).symm)
      (flattenT_recorded T h hid)) hlen
  exact ⟨T', h1, h2, h3, h5⟩

/-! #### several model trees alive at once, operations in any interleaving -/

theorem wfL_get : ∀ (forest : List (CTree β)) (i : Nat) (T : CTree β), wfL forest → forest[i]? = some T → T.wf
  | [], i, T, _, h => by simp at h
  | c :: cs, 0, T, hwf, h => by simp at h; subst h; exact hwf.1
  | c :: cs, i + 1, T, hwf, h => by simp at h; exact wfL_get cs i T hwf.2 h

theorem mem_idsL : ∀ (forest : List (CTree β)) (i : Nat) (T : CTree β) (k : Nat), forest[i]? = some T → k ∈ T.ids → k ∈ idsL forest
  | [], i, T, k, h, _ => by simp at h
  | c :: cs, 0, T, k, h, hk => by simp at h; subst h; simp [idsL, hk]
  | c :: cs, i + 1, T, k, h, hk => by simp at h; simp [idsL, mem_idsL cs i T k h hk]

theorem idsL_get_nodup : ∀ (forest : List (CTree β)) (i : Nat) (T : CTree β), (idsL forest).Nodup → forest[i]? = some T → T.ids.Nodup
  | [], i, T, _, h => by simp at h
  | c :: cs, 0, T, hnd, h => by simp at h; subst h; simp only [idsL, List.nodup_append] at hnd; exact hnd.1
  | c :: cs, i + 1, T, hnd, h => by
    simp at h; simp only [idsL, List.nodup_append] at hnd; exact idsL_get_nodup cs i T hnd.2.1 h

/-- distinct trees of a forest of distinct Coupler objects have no Coupler in common -/
theorem idsL_disjoint : ∀ (forest : List (CTree β)) (i j : Nat) (T T' : CTree β), (idsL forest).Nodup →
    forest[i]? = some T → forest[j]? = some T' → i ≠ j → ∀ k ∈ T.ids, k ∉ T'.ids
  | [], i, j, T, T', _, h, _, _ => by simp at h
  | c :: cs, 0, 0, T, T', _, _, _, hne => absurd rfl hne
  | c :: cs, 0, j + 1, T, T', hnd, h, h', _ => by
    simp at h h'; subst h
    simp only [idsL, List.nodup_append] at hnd
    intro k hk hk'; exact hnd.2.2 k hk k (mem_idsL cs j T' k h' hk') rfl
  | c :: cs, i + 1, 0, T, T', hnd, h, h', _ => by
    simp at h h'; subst h'
    simp only [idsL, List.nodup_append] at hnd
    intro k hk hk'; exact hnd.2.2 k hk' k (mem_idsL cs i T k h hk) rfl
  | c :: cs, i + 1, j + 1, T, T', hnd, h, h', hne => by
    simp at h h'
    simp only [idsL, List.nodup_append] at hnd
    exact idsL_disjoint cs i j T T' hnd.2.1 h h' (by omega)

/-- interpreter invariant: the vector kept for a tree is that tree's flat vector, and every Coupler of
that tree still has its own sizes on record -/
def WInv (forest : List (CTree β)) (w : World β) : Prop :=
  ∀ i T v, forest[i]? = some T → w.kept i = some v → v = flatT T ∧ Recorded w.heap T

theorem winv_new (forest : List (CTree β)) : WInv forest World.new := by
  intro i T v _ h; simp [World.new] at h

theorem winv_step (forest : List (CTree β)) (hid : (idsL forest).Nodup) (w : World β) (o : Op β)
    (hI : WInv forest w) : WInv forest (runOp forest w o).1 := by
  cases o with
  | flat j =>
    simp only [runOp]
    cases hj : forest[j]? with
    | none => exact hI
    | some Tj =>
      intro i T v hT hv
      simp only at hv ⊢
      by_cases hij : i = j
      · subst hij
        rw [hj] at hT; cases hT
        simp only [if_true, Option.some.injEq] at hv
        exact ⟨by rw [← hv, flattenT_fst], flattenT_recorded _ _ (idsL_get_nodup forest i _ hid hj)⟩
      · simp only [if_neg hij] at hv
        obtain ⟨h1, h2⟩ := hI i T v hT hv
        refine ⟨h1, recorded_congr T w.heap _ (fun k hk => ?_) h2⟩
        rw [flattenT_frame Tj w.heap k (idsL_disjoint forest i j T Tj hid hT hj hij k hk)]
  | unflat j =>
    simp only [runOp]
    cases forest[j]? <;> cases w.kept j <;> exact hI
  | unflatWith j v =>
    simp only [runOp]
    cases forest[j]? <;> exact hI

/-- what a correct answer to an operation is: `unflattenX` of the vector kept for tree i gives tree i's
state back (or there is no such tree / nothing was kept) -/
def Out.okFor (forest : List (CTree β)) : Op β → Out β → Prop
  | .unflat i, .unflat r => ∃ T, forest[i]? = some T ∧ r = some T
  | .unflat _, .flat _ _ => False
  | _, _ => True

/-- **any interleaving of `flattenX` / `unflattenX` calls on any number of live model trees** (nested
to any depth) whose Couplers are distinct objects: every `unflattenX` of a kept vector gives exactly the
state that was flattened -/
theorem runOps_roundtrip (forest : List (CTree β)) (hwf : wfL forest) (hid : (idsL forest).Nodup) :
    ∀ (ops : List (Op β)) (w : World β), WInv forest w → List.Forall₂ (Out.okFor forest) ops (runOps forest w ops)
  | [], w, _ => List.Forall₂.nil
  | o :: os, w, hI => by
    simp only [runOps]
    refine List.Forall₂.cons ?_ (runOps_roundtrip forest hwf hid os _ (winv_step forest hid w o hI))
    cases o with
    | flat j => simp only [runOp]; cases forest[j]? <;> trivial
    | unflatWith j v => simp only [runOp]; cases forest[j]? <;> trivial
    | unflat j =>
      simp only [runOp]
      cases hj : forest[j]? with
      | none => trivial
      | some T =>
        cases hk : w.kept j with
        | none => trivial
        | some v =>
          obtain ⟨h1, h2⟩ := hI j T v hj hk
          have := unflattenT_of_recorded T w.heap [] (wfL_get forest j T hwf hj) h2
          rw [List.append_nil] at this
          exact ⟨T, hj, by rw [h1]; exact this⟩

/-! #### the shared-size-list variant breaks nesting and interleaving (concrete witnesses) -/

/-- the answer of an `unflat` operation -/
def Out.res : Out β → Option (Option (CTree β))
  | .unflat r => some r
  | _ => none

/-- **one size list shared by all Coupler instances breaks nesting**: `Coupler([Coupler([A, B]), C])` with
A = [scalar, (3,)], B = [(4,), scalar, (2,)], C = [(2,5)].  With per-instance sizes the inner Coupler has
[4, 7] on record, the outer [11, 10], and the round trip gives the state back.  With one shared list the
outer `flattenX` overwrites the inner sizes: the inner `unflattenX` slices ITS block of 11 numbers with
[11, 10] — model A is handed all 11 numbers, model B the empty slice: no state comes back (`none` =
NumPy's reshape error in the first right-hand-side call).  In `Coupler([Coupler([A, B])])` the shared
list has ONE entry, the `zip` over the inner models stops after A, and model B's state silently
disappears from what the callbacks receive. -/
theorem shared_sizes_break_nesting :
    let a : List (Item ℚ) := [.scalar 1, .arr [3] [2, 3, 4]]
    let b : List (Item ℚ) := [.arr [4] [5, 6, 7, 8], .scalar 9, .arr [2] [10, 11]]
    let c : List (Item ℚ) := [.arr [2, 5] [12, 13, 14, 15, 16, 17, 18, 19, 20, 21]]
    let T : CTree ℚ := .node 0 [.node 1 [.leaf a, .leaf b], .leaf c]
    let U : CTree ℚ := .node 0 [.node 1 [.leaf a, .leaf b]]
    T.ids = [0, 1] ∧
    (flattenT Heap.empty T).2 1 = some [4, 7] ∧ (flattenT Heap.empty T).2 0 = some [11, 10] ∧
    unflattenT (flattenT Heap.empty T).2 (flattenT Heap.empty T).1 T = some T ∧
    T.share.ids = [0, 0] ∧ (flattenT Heap.empty T.share).2 0 = some [11, 10] ∧
    unflattenT (flattenT Heap.empty T.share).2 (flattenT Heap.empty T.share).1 T.share = none ∧
    (((flattenT Heap.empty T.share).1.take 11).drop 11).take 10 = [] ∧
    unflattenT (flattenT Heap.empty U).2 (flattenT Heap.empty U).1 U = some U ∧
    unflattenT (flattenT Heap.empty U.share).2 (flattenT Heap.empty U.share).1 U.share = some (.node 0 [.node 0 [.leaf a]]) := by
  decide +kernel

/-- **… and breaks two independent couplers used in turn**: `flattenX` of one, `flattenX` of the other,
then `unflattenX` of the first: with per-instance sizes both vectors come back as supplied, with the
shared list the first coupler slices with the second one's sizes -/
theorem shared_sizes_break_interleaving :
    let a : List (Item ℚ) := [.scalar 1, .arr [3] [2, 3, 4]]
    let b : List (Item ℚ) := [.arr [4] [5, 6, 7, 8], .scalar 9, .arr [2] [10, 11]]
    let c : List (Item ℚ) := [.arr [2, 5] [12, 13, 14, 15, 16, 17, 18, 19, 20, 21]]
    let d : List (Item ℚ) := [.scalar 22]
    let forest : List (CTree ℚ) := [.node 0 [.leaf a, .leaf b], .node 1 [.leaf c, .leaf d]]
    let ops : List (Op ℚ) := [.flat 0, .flat 1, .unflat 0, .unflat 1]
    (runOps forest World.new ops).map Out.res = [none, none, some forest[0]?, some forest[1]?] ∧
    (runOps (shareL forest) World.new ops).map Out.res = [none, none, some none, some (shareL forest)[1]?] := by
  decide +kernel

/-- non-vacuity of the hypotheses of `nested_unflatten_flatten` / `runOps_roundtrip`: a depth-3 tree of
distinct Couplers over well-formed leaf states, and a forest of two such trees -/
example :
    let a : List (Item ℚ) := [.scalar 1, .arr [3] [2, 3, 4]]
    let d : List (Item ℚ) := [.scalar 22]
    let T : CTree ℚ := .node 0 [.leaf d, .node 1 [.leaf a, .node 2 [.leaf d, .leaf a]]]
    let T' : CTree ℚ := .node 3 [.leaf a, .leaf d]
    T.wf ∧ T.ids.Nodup ∧ wfL [T, T'] ∧ (idsL [T, T']).Nodup ∧ (∀ k ∈ T'.ids, k ∉ T.ids) := by
  simp [CTree.wf, wfL, CTree.ids, idsL, Item.wf, prodL]

end nested

/-! ### time bookkeeping: the clock advances by the step the iterator used -/

section clock
variable {V : Type}
variable (tf dtmin : α) (propose : List α → Dt α) (stopAt : List α → Bool)

theorem stepDt_eq (s : St α) : stepDt tf dtmin propose s = dtOf tf dtmin propose s := rfl

/-- **t_{k+1} = t_k + dt_k**: the time handed to `postProcess` is the previous time plus the step
that is recorded for this pass — the one the iterator was given for the state update (`stepX`) -/
theorem step_time_bookkeeping (s : St α) :
    (step tf dtmin propose stopAt s).cur = s.cur + stepDt tf dtmin propose s ∧
    (step tf dtmin propose stopAt s).steps.head? = some (s.cur, stepDt tf dtmin propose s) := ⟨rfl, rfl⟩

theorem stepX_fst (iter : α → α → V → V) (s : St α × V) :
    (stepX tf dtmin propose stopAt iter s).1 = step tf dtmin propose stopAt s.1 := rfl

theorem stepX_snd (iter : α → α → V → V) (s : St α × V) :
    (stepX tf dtmin propose stopAt iter s).2 = iter (stepDt tf dtmin propose s.1) s.1.cur s.2 := rfl

/-- the loop with the state carried along is the time loop on its first component: every theorem
above about `run` / `solve` holds for real runs with a state -/
theorem runX_fst (iter : α → α → V → V) (n : Nat) (s : St α × V) :
    (runX tf dtmin propose stopAt iter n s).1 = run tf dtmin propose stopAt n s.1 := by
  induction n generalizing s with
  | zero => rfl
  | succ n ih =>
    unfold runX run
    split_ifs with h
    · rw [ih, stepX_fst]
    · rfl

theorem solveX_fst (t0 minFrac maxFrac : α) (iter : α → α → V → V) (x0 : V) (fuel : Nat) :
    (solveX t0 tf minFrac maxFrac propose stopAt iter x0 fuel).1 = solve t0 tf minFrac maxFrac propose stopAt fuel :=
  runX_fst tf _ propose stopAt iter fuel _

/-- a right-hand side f ≡ c: both built-in iterators add exactly c·dt -/
theorem euler_const_step (c dt t x : α) : (eulerIter scalarOps (fun _ _ => c) dt t x).xnew = x + c * dt := by
  simp only [eulerIter, updateX, scalarOps]; ring

theorem rk4_const_step (c dt t x : α) : (rk4Iter scalarOps (fun _ _ => c) dt t x).xnew = x + c * dt := by
  simp only [rk4Iter, updateX, scalarOps]; ring

/-- loop invariant for a constant right-hand side: `x − c·currTime` never changes, for every
proposal function, stop schedule and number of passes -/
theorem runX_const (c : α) (iter : α → α → α → α) (hiter : ∀ dt t x, iter dt t x = x + c * dt)
    (n : Nat) (s : St α × α) :
    (runX tf dtmin propose stopAt iter n s).2 - c * (runX tf dtmin propose stopAt iter n s).1.cur
      = s.2 - c * s.1.cur := by
  induction n generalizing s with
  | zero => rfl
  | succ n ih =>
    unfold runX
    split_ifs with h
    · rw [ih, stepX_snd, stepX_fst, (step_time_bookkeeping tf dtmin propose stopAt s.1).1, hiter]; ring
    · rfl

/-- **the state of an f ≡ c model after any run is x0 + c·(final time − t0)**, so in particular for
f ≡ 1 the state IS the clock: `x = x0 + (currTime − t0)` after every pass.  A clock that is moved
without the state (or a state advanced by another step than the clock) breaks this equation. -/
theorem solveX_const (t0 minFrac maxFrac c : α) (iter : α → α → α → α)
    (hiter : ∀ dt t x, iter dt t x = x + c * dt) (x0 : α) (fuel : Nat) :
    (solveX t0 tf minFrac maxFrac propose stopAt iter x0 fuel).2
      = x0 + c * ((solveX t0 tf minFrac maxFrac propose stopAt iter x0 fuel).1.cur - t0) := by
  have := runX_const tf (minFrac * (tf - t0)) propose stopAt c iter hiter fuel (initSt t0 tf maxFrac, x0)
  unfold solveX
  simp only [initSt] at this ⊢
  linarith

/-- f ≡ 1 with the explicit Euler iterator and with the Runge-Kutta iterator: state = x0 + (time − t0) -/
theorem solveX_clock_euler (t0 minFrac maxFrac x0 : α) (fuel : Nat) :
    (solveX t0 tf minFrac maxFrac propose stopAt
        (fun dt t x => (eulerIter scalarOps (fun _ _ => (1 : α)) dt t x).xnew) x0 fuel).2
      = x0 + ((solveX t0 tf minFrac maxFrac propose stopAt
        (fun dt t x => (eulerIter scalarOps (fun _ _ => (1 : α)) dt t x).xnew) x0 fuel).1.cur - t0) := by
  have := solveX_const tf propose stopAt t0 minFrac maxFrac 1 _ (fun dt t x => euler_const_step 1 dt t x) x0 fuel
  rw [this]; ring

theorem solveX_clock_rk4 (t0 minFrac maxFrac x0 : α) (fuel : Nat) :
    (solveX t0 tf minFrac maxFrac propose stopAt
        (fun dt t x => (rk4Iter scalarOps (fun _ _ => (1 : α)) dt t x).xnew) x0 fuel).2
      = x0 + ((solveX t0 tf minFrac maxFrac propose stopAt
        (fun dt t x => (rk4Iter scalarOps (fun _ _ => (1 : α)) dt t x).xnew) x0 fuel).1.cur - t0) := by
  have := solveX_const tf propose stopAt t0 minFrac maxFrac 1 _ (fun dt t x => rk4_const_step 1 dt t x) x0 fuel
  rw [this]; ring

/-- … and when the run arrives (model never stops, N·minFrac ≥ 1) the state is exactly x0 + (tf − t0) -/
theorem solveX_clock_at_end (t0 minFrac maxFrac : α) (iter : α → α → α → α)
    (hiter : ∀ dt t x, iter dt t x = x + dt) (x0 : α)
    (h : t0 < tf) (hmin : 0 < minFrac) (hmm : minFrac ≤ maxFrac)
    (hns : ∀ hst, stopAt hst = false) (N : Nat) (hN : 1 ≤ (N : α) * minFrac) :
    (solveX t0 tf minFrac maxFrac propose stopAt iter x0 N).2 = x0 + (tf - t0) := by
  have h1 := solveX_const tf propose stopAt t0 minFrac maxFrac 1 iter (by intro dt t x; rw [hiter]; ring) x0 N
  rw [h1, solveX_fst, solve_reaches_tf t0 tf minFrac maxFrac propose stopAt h hmin hmm hns N hN]; ring

end clock

/-! ### non-vacuity: the hypotheses are satisfiable and the statements are about real runs -/

/-- a concrete run over ℚ: t0 = 1, tf = 3, minFrac = 1/4, maxFrac = 1/2; proposals NaN, inf, 0
then -1: steps 1/2, 1, 1/2 — arrives at exactly 3 after three steps -/
example :
    (solve (1 : ℚ) 3 (1/4) (1/2)
      (fun h => match h.length with | 0 => .nan | 1 => .posInf | 2 => .fin 0 | _ => .fin (-1))
      (fun _ => false) 10).times = [3, 5/2, 3/2] := by
  decide +kernel

example : (1 : ℚ) < 3 ∧ (0 : ℚ) < 1/4 ∧ (1/4 : ℚ) ≤ 1/2 ∧ (1 : ℚ) ≤ ((4 : Nat) : ℚ) * (1/4) := by norm_num

/-- a stop request after the first step -/
example :
    (solve (0 : ℚ) 1 (1/4) 1 (fun _ => .fin (1/3)) (fun h => h.length == 1) 10).times = [1/3] := by
  decide +kernel

open KawinV.Flatten in
example : unflatten (flatten [Item.scalar (1 : ℚ), .arr [2, 2] [2, 3, 4, 5], .arr [1] [6]])
    [Item.scalar (0 : ℚ), .arr [2, 2] [0, 0, 0, 0], .arr [1] [0]]
      = some [Item.scalar 1, .arr [2, 2] [2, 3, 4, 5], .arr [1] [6]] := by
  decide +kernel

/- the named layouts mixing scalars and arrays: `[float, float]`, `[float, array]`, `[array, float, array]` -/
open KawinV.Flatten in
example :
    unflatten (flatten [Item.scalar (1 : ℚ), .scalar 2]) [Item.scalar (0 : ℚ), .scalar 0] = some [Item.scalar 1, .scalar 2] ∧
    unflatten (flatten [Item.scalar (1 : ℚ), .arr [2] [2, 3]]) [Item.scalar (0 : ℚ), .arr [2] [0, 0]]
      = some [Item.scalar 1, .arr [2] [2, 3]] ∧
    unflatten (flatten [Item.arr [2] [(1 : ℚ), 2], .scalar 3, .arr [1] [4]]) [Item.arr [2] [(0 : ℚ), 0], .scalar 0, .arr [1] [0]]
      = some [Item.arr [2] [1, 2], .scalar 3, .arr [1] [4]] := by
  decide +kernel

/- a history of resizes (model 0: 3 → 4 → 2 entries, model 1 loses its array in the last state),
starting from a Coupler that never flattened: every supplied state is delivered as supplied -/
open KawinV.Flatten in
example :
    Coupler.new.deliverAll
      [[[Item.arr [3] [(1 : ℚ), 2, 3]], [.scalar 7, .arr [2] [8, 9]]],
       [[Item.arr [4] [(1 : ℚ), 2, 3, 4]], [.scalar 7, .arr [2] [8, 9]]],
       [[Item.arr [2] [(1 : ℚ), 2]], [.scalar 7, .arr [0] []]]]
    = [some [[Item.arr [3] [(1 : ℚ), 2, 3]], [.scalar 7, .arr [2] [8, 9]]],
       some [[Item.arr [4] [(1 : ℚ), 2, 3, 4]], [.scalar 7, .arr [2] [8, 9]]],
       some [[Item.arr [2] [(1 : ℚ), 2]], [.scalar 7, .arr [0] []]]] := by
  decide +kernel

/- before any flattenX the Coupler cannot unflatten (the attribute does not exist) -/
open KawinV.Flatten in
example : Coupler.new.unflattenX [(1 : ℚ)] [[Item.scalar 0]] = none := rfl

/-- the clock state: f ≡ 1, Euler, t0 = 1, tf = 3, x0 = 5, steps 3/4, 3/4, 1/2: the state after the
run is 5 + (3 − 1) = 7 and the hypothesis `hiter` of `solveX_const` holds for both iterators
(`euler_const_step`, `rk4_const_step`) -/
example :
    (solveX (1 : ℚ) 3 (1/4) 1 (fun _ => .fin (3/4)) (fun _ => false)
      (fun dt t x => (eulerIter scalarOps (fun _ _ => (1 : ℚ)) dt t x).xnew) 5 10).2 = 7 ∧
    (solveX (1 : ℚ) 3 (1/4) 1 (fun _ => .fin (3/4)) (fun _ => false)
      (fun dt t x => (rk4Iter scalarOps (fun _ _ => (1 : ℚ)) dt t x).xnew) 5 10).1.times = [3, 5/2, 7/4] := by
  decide +kernel

end KawinV.Props.C05
