/-
C13 — property theorems (stub; nothing proved yet).
-/
namespace KawinV.Props.C13
end KawinV.Props.C13
