/-
C13 — temperature schedules are followed faithfully.
Property theorems about `KawinV.TempSched` (both `TemperatureParameters` classes, `np.interp`) and
`KawinV.Lookup` (temperature bookkeeping of a binary KWN run), which are tied to the source by the
correspondence check tools/corr/C13.py.  α is any linearly ordered field.
-/
import KawinV.Model.TempSched
import KawinV.Model.Lookup
import Mathlib.Tactic.Ring
import Mathlib.Tactic.Linarith
import Mathlib.Tactic.FieldSimp
import Mathlib.Tactic.NormNum
import Mathlib.Tactic.Push
import Mathlib.Algebra.Order.Field.Basic
import Mathlib.Tactic.Positivity
import Mathlib.Algebra.Order.Floor.Ring
import Mathlib.Data.Rat.Floor
import Mathlib.Data.List.Forall2

set_option linter.unusedSectionVars false
set_option linter.unusedVariables false
set_option linter.unusedSimpArgs false

namespace KawinV.Props.C13
open KawinV.TempSched KawinV.Lookup

variable {α : Type} [Field α] [LinearOrder α] [IsStrictOrderedRing α]

/-! ## 1. break points: `np.interp` is the piecewise-linear interpolant, constant outside -/

theorem le_lastD (x0 : α) (xs : List α) (h : (x0 :: xs).Pairwise (· < ·)) :
    ∀ y ∈ x0 :: xs, y ≤ lastD x0 xs := by
  induction xs generalizing x0 with
  | nil => intro y hy; simp at hy; simp [lastD, hy]
  | cons x1 xr ih =>
    intro y hy
    rw [List.pairwise_cons] at h
    simp only [lastD]
    rcases List.mem_cons.mp hy with rfl | hy
    · exact (h.1 x1 (by simp)).le.trans (ih x1 h.2 x1 (by simp))
    · exact ih x1 h.2 y hy

/-- at a break point the search stops there and returns its value -/
theorem seg_at_left (x0 f0 : α) (xs fs : List α) (h : (x0 :: xs).Pairwise (· < ·)) :
    seg x0 x0 f0 xs fs = f0 := by
  cases xs with
  | nil => simp [seg]
  | cons x1 xr =>
    cases fs with
    | nil => simp [seg]
    | cons f1 fr =>
      have : x0 < x1 := (List.pairwise_cons.mp h).1 x1 (by simp)
      simp [seg, not_le.mpr this]

/-- at or beyond the last break point the walk runs to the end -/
theorem seg_ge_all (x x0 f0 : α) (xs fs : List α) (hlen : xs.length = fs.length)
    (h : ∀ y ∈ xs, y ≤ x) : seg x x0 f0 xs fs = lastD f0 fs := by
  induction xs generalizing x0 f0 fs with
  | nil => cases fs <;> simp_all [seg, lastD]
  | cons x1 xr ih =>
    cases fs with
    | nil => simp at hlen
    | cons f1 fr =>
      simp only [seg, lastD]
      rw [if_pos (h x1 (by simp))]
      exact ih x1 f1 fr (by simpa using hlen) (fun y hy => h y (by simp [hy]))

theorem seg_first (x x0 f0 a fa : α) (post post' : List α)
    (h : (x0 :: a :: post).Pairwise (· < ·)) (h0 : x0 ≤ x) (h1 : x ≤ a) :
    seg x x0 f0 (a :: post) (fa :: post') = f0 + (fa - f0) * (x - x0) / (a - x0) := by
  have hlt : x0 < a := (List.pairwise_cons.mp h).1 a (by simp)
  have hne : a - x0 ≠ 0 := (sub_pos.mpr hlt).ne'
  simp only [seg]
  split
  · next hax =>
    have hxa : x = a := le_antisymm h1 hax
    subst hxa
    rw [seg_at_left x fa post post' (List.pairwise_cons.mp h).2]
    field_simp
    ring
  · split
    · ring
    · next hx =>
      have : x = x0 := le_antisymm (not_lt.mp hx) h0
      subst this
      simp

theorem seg_between (x a b fa fb : α) (post post' : List α) (pre pre' : List α) (x0 f0 : α)
    (hpre : pre.length = pre'.length)
    (h : (x0 :: (pre ++ a :: b :: post)).Pairwise (· < ·)) (ha : a ≤ x) (hb : x ≤ b) :
    seg x x0 f0 (pre ++ a :: b :: post) (pre' ++ fa :: fb :: post')
      = fa + (fb - fa) * (x - a) / (b - a) := by
  induction pre generalizing pre' x0 f0 with
  | nil =>
    cases pre' with
    | cons _ _ => simp at hpre
    | nil =>
      simp only [List.nil_append, seg]
      rw [if_pos ha]
      exact seg_first x a fa b fb post post' (List.pairwise_cons.mp h).2 ha hb
  | cons p pre2 ih =>
    cases pre' with
    | nil => simp at hpre
    | cons q pre2' =>
      have h2 := (List.pairwise_cons.mp h).2
      have hpa : p < a := (List.pairwise_cons.mp h2).1 a (by simp)
      simp only [List.cons_append, seg]
      rw [if_pos (hpa.le.trans ha)]
      exact ih pre2' p q (by simpa using hpre) h2

/-- **between two consecutive break points** `(a, fa)`, `(b, fb)` of an increasing list the result
is the straight line through them. -/
theorem interp_between (x a b fa fb : α) (pre pre' post post' : List α)
    (hpre : pre.length = pre'.length) (hpost : post.length = post'.length)
    (h : (pre ++ a :: b :: post).Pairwise (· < ·)) (ha : a ≤ x) (hb : x ≤ b) :
    npInterp x (pre ++ a :: b :: post) (pre' ++ fa :: fb :: post')
      = some (fa + (fb - fa) * (x - a) / (b - a)) := by
  cases pre with
  | nil =>
    cases pre' with
    | cons _ _ => simp at hpre
    | nil =>
      have hlast := le_lastD a (b :: post) h b (by simp)
      simp only [List.nil_append, npInterp, List.length_cons, hpost, if_true]
      rw [if_neg (not_lt.mpr (hb.trans hlast)), if_neg (not_lt.mpr ha)]
      exact congrArg some (seg_first x a fa b fb post post' h ha hb)
  | cons p pre2 =>
    cases pre' with
    | nil => simp at hpre
    | cons q pre2' =>
      have h' : (p :: (pre2 ++ a :: b :: post)).Pairwise (· < ·) := by simpa using h
      have hpa : p < a := (List.pairwise_cons.mp h').1 a (by simp)
      have hlast := le_lastD p (pre2 ++ a :: b :: post) h' b (by simp)
      have hl : (pre2 ++ a :: b :: post).length = (pre2' ++ fa :: fb :: post').length := by
        simp only [List.length_append, List.length_cons] at hpre ⊢; omega
      simp only [List.cons_append, npInterp, hl, if_true]
      rw [if_neg (not_lt.mpr (hb.trans hlast)), if_neg (not_lt.mpr (hpa.le.trans ha))]
      exact congrArg some (seg_between x a b fa fb post post' pre2 pre2' p q (by simpa using hpre) h' ha hb)

/-- **at or before the first break point**: the first value -/
theorem interp_left (x x0 f0 : α) (xs fs : List α) (hlen : xs.length = fs.length)
    (h : (x0 :: xs).Pairwise (· < ·)) (hx : x ≤ x0) :
    npInterp x (x0 :: xs) (f0 :: fs) = some f0 := by
  have hlast := le_lastD x0 xs h x0 (by simp)
  simp only [npInterp, hlen, if_true]
  rw [if_neg (not_lt.mpr (hx.trans hlast))]
  split
  · rfl
  · next hx' =>
    have : x = x0 := le_antisymm hx (not_lt.mp hx')
    subst this
    rw [seg_at_left x f0 xs fs h]

/-- **at or after the last break point**: the last value -/
theorem interp_right (x x0 f0 : α) (xs fs : List α) (hlen : xs.length = fs.length)
    (h : (x0 :: xs).Pairwise (· < ·)) (hx : lastD x0 xs ≤ x) :
    npInterp x (x0 :: xs) (f0 :: fs) = some (lastD f0 fs) := by
  simp only [npInterp, hlen, if_true]
  split
  · rfl
  · have hx0 : x0 ≤ x := (le_lastD x0 xs h x0 (by simp)).trans hx
    rw [if_neg (not_lt.mpr hx0)]
    exact congrArg some (seg_ge_all x x0 f0 xs fs hlen
      (fun y hy => (le_lastD x0 xs h y (by simp [hy])).trans hx))

/-- error branches: empty or unequal lists raise -/
theorem interp_raises (x : α) (xp fp : List α) (h : xp.length ≠ fp.length ∨ xp = []) :
    npInterp x xp fp = none := by
  cases xp with
  | nil => simp [npInterp]
  | cons x0 xs =>
    cases fp with
    | nil => simp [npInterp]
    | cons f0 fs =>
      rcases h with h | h
      · have : xs.length ≠ fs.length := by simpa using h
        simp [npInterp, this]
      · simp at h

/-! ### the schedule in seconds: break points are hours × 3600 -/

theorem h3600 : (0:α) < 3600 := by norm_num

/-- **break-point schedule, inside**: for `a·3600 ≤ t ≤ b·3600` (seconds; `a < b` consecutive break
points in hours) the temperature is linear in `t` between `fa` and `fb`.  Precipitation class. -/
theorem sched_between (s : PState α) (t a b fa fb : α) (pre pre' post post' : List α)
    (hs : s.spec = .arr (pre ++ a :: b :: post) (pre' ++ fa :: fb :: post'))
    (hpre : pre.length = pre'.length) (hpost : post.length = post'.length)
    (h : (pre ++ a :: b :: post).Pairwise (· < ·)) (ha : a * 3600 ≤ t) (hb : t ≤ b * 3600) :
    s.eval t = some (fa + (fb - fa) * (t - a * 3600) / (b * 3600 - a * 3600)) := by
  have hab : a < b := by
    have := List.pairwise_append.mp h
    exact (List.pairwise_cons.mp this.2.1).1 b (by simp)
  have hne : b - a ≠ 0 := (sub_pos.mpr hab).ne'
  unfold PState.eval
  rw [hs]
  simp only
  rw [interp_between (t / 3600) a b fa fb pre pre' post post' hpre hpost h
    ((le_div_iff₀ h3600).mpr ha) ((div_le_iff₀ h3600).mpr hb)]
  congr 1
  have h1 : b * 3600 - a * 3600 ≠ 0 := by
    have : b * 3600 - a * 3600 = (b - a) * 3600 := by ring
    rw [this]; exact mul_ne_zero hne h3600.ne'
  field_simp

/-- **before the first break point** the first temperature, **after the last** the last one -/
theorem sched_left (s : PState α) (t x0 f0 : α) (xs fs : List α)
    (hs : s.spec = .arr (x0 :: xs) (f0 :: fs)) (hlen : xs.length = fs.length)
    (h : (x0 :: xs).Pairwise (· < ·)) (ht : t ≤ x0 * 3600) : s.eval t = some f0 := by
  unfold PState.eval; rw [hs]
  exact interp_left _ x0 f0 xs fs hlen h ((div_le_iff₀ h3600).mpr ht)

theorem sched_right (s : PState α) (t x0 f0 : α) (xs fs : List α)
    (hs : s.spec = .arr (x0 :: xs) (f0 :: fs)) (hlen : xs.length = fs.length)
    (h : (x0 :: xs).Pairwise (· < ·)) (ht : lastD x0 xs * 3600 ≤ t) :
    s.eval t = some (lastD f0 fs) := by
  unfold PState.eval; rw [hs]
  exact interp_right _ x0 f0 xs fs hlen h ((le_div_iff₀ h3600).mpr ht)

/-- constant and callable forms -/
theorem sched_iso (s : PState α) (T t : α) : (s.setIso T).eval t = some T := rfl
theorem sched_fn (s : PState α) (f : α → α) (t : α) : (s.setFn f).eval t = some (f t) := rfl

/-- **both packages agree**: for the constant and the break-point form the diffusion schedule is,
at every node, the precipitation schedule. -/
theorem diffusion_eq_precipitation_iso (p : PState α) (d : DState α) (T : α) (z : List α) (t : α) :
    (d.setIso T).eval z t = ((p.setIso T).eval t).map (fun v => List.replicate z.length v) := rfl

theorem diffusion_eq_precipitation_arr (p : PState α) (d : DState α) (ts Ts z : List α) (t : α) :
    (d.setArr ts Ts).eval z t = ((p.setArr ts Ts).eval t).map (fun v => List.replicate z.length v) := rfl

theorem diffusion_fn (d : DState α) (f : List α → α → List α) (z : List α) (t : α) :
    (d.setFn f).eval z t = some (f z t) := rfl

/-! ## 2. constructor ≡ setter -/

/-- **precipitation**: giving the arguments to the constructor is the same as constructing empty and
calling `setTemperatureParameters` (what `model.setTemperature(*args)` does): same function, same flag. -/
theorem ctor_eq_setter (a : Args α (α → α)) :
    PState.ctor a = (PState.ctor .other).setParams a := by
  cases a <;> rfl

theorem ctor_scalar (T : α) : PState.ctor (.scalar T) = (PState.ctor (α := α) .other).setIso T := rfl
theorem ctor_two (ts Ts : List α) : PState.ctor (.two ts Ts) = (PState.ctor (α := α) .other).setArr ts Ts := rfl
theorem ctor_func (f : α → α) : PState.ctor (.func f) = (PState.ctor (α := α) .other).setFn f := rfl

/-- the flag after `setTemperatureParameters`: isothermal exactly for a number; a call without
usable arguments leaves it alone -/
theorem setParams_flag (s : PState α) (a : Args α (α → α)) :
    (s.setParams a).isIso = (match a with
      | .scalar _ => true | .two _ _ => false | .func _ => false | .other => s.isIso) := by
  cases a <;> rfl

/-- **incubation treatment**: a schedule (break points or callable) is non-isothermal, a number is
isothermal — through the constructor … -/
theorem ctor_flag (a : Args α (α → α)) :
    (PState.ctor a).isIso = (match a with
      | .scalar _ => true | .two _ _ => false | .func _ => false | .other => true) := by
  cases a <;> rfl

/-- … and through any history of calls: a setting call decides function and flag alone -/
theorem setParams_indep (s s' : PState α) (a : Args α (α → α)) (ha : a ≠ .other) :
    s.setParams a = s'.setParams a := by
  cases a <;> first | rfl | exact absurd rfl ha

theorem setIso_indep (s s' : PState α) (T : α) : s.setIso T = s'.setIso T := rfl
theorem setArr_indep (s s' : PState α) (ts Ts : List α) : s.setArr ts Ts = s'.setArr ts Ts := rfl
theorem setFn_indep (s s' : PState α) (f : α → α) : s.setFn f = s'.setFn f := rfl

/-- **D-C13-ctor, the code as it was**: the constructor reported isothermal whatever it was given … -/
theorem ctorAsWas_flag (a : Args α (α → α)) : (PState.ctorAsWas a).isIso = true := rfl

/-- … with the right function (only the flag was wrong) … -/
theorem ctorAsWas_spec (a : Args α (α → α)) : (PState.ctorAsWas a).spec = (PState.ctor a).spec := rfl

/-- … so constructor and setter disagreed for every schedule; witness: the break points of the
test-suite (hours 0, 16, 17). -/
theorem ctorAsWas_ne_setter :
    PState.ctorAsWas (α := ℚ) (.two [0, 16, 17] [448, 448, 523])
      ≠ (PState.ctorAsWas .other).setParams (.two [0, 16, 17] [448, 448, 523]) := by
  intro h
  have := congrArg PState.isIso h
  simp [PState.ctorAsWas, PState.setParams, PState.setArr] at this

/-- **diffusion**: constructor and setters are the same assignments -/
theorem dctor_scalar (T : α) : DState.ctor (.scalar T) = (DState.ctor (α := α) .other).setIso T := rfl
theorem dctor_two (ts Ts : List α) : DState.ctor (.two ts Ts) = (DState.ctor (α := α) .other).setArr ts Ts := rfl
theorem dctor_func (f : List α → α → List α) :
    DState.ctor (.func f) = (DState.ctor (α := α) .other).setFn f := rfl

/-! ## 3. recorded temperature = schedule(time), every slice, every call history -/

section run
variable {σ : Type}

/-- invariant: every recorded slice and the cached slice carry `schedule(time)` -/
def Good (sched : α → α) (s : KState α σ) : Prop :=
  (∀ sl ∈ s.slices, sl.temp = sched sl.time) ∧ (∀ y, s.currY = some y → y.temp = sched y.time)

theorem good_setup (I : Impl α σ) (sched : α → α) : Good sched (setup I sched) := by
  constructor
  · intro sl hsl
    simp only [setup, KState.slices, List.mem_singleton] at hsl
    subst hsl; rfl
  · intro y hy; simp [setup] at hy

theorem good_depTerms (I : Impl α σ) (sched : α → α) (s : KState α σ) (t : α)
    (h : Good sched s) : Good sched (depTerms I sched s t) := by
  unfold depTerms
  cases hc : s.currY with
  | none =>
    refine ⟨h.1, ?_⟩
    intro y hy
    simp only [Option.some.injEq] at hy
    subst hy
    exact h.1 s.cur (by simp [KState.slices])
  | some y0 =>
    refine ⟨h.1, ?_⟩
    intro y hy
    simp only [Option.some.injEq] at hy
    subst hy; rfl

theorem good_step (I : Impl α σ) (sched : α → α) (s : KState α σ) (o : Op α)
    (h : Good sched s) : Good sched (step I sched s o) := by
  cases o with
  | pre => exact ⟨h.1, by intro y hy; simp [step] at hy⟩
  | dep t => exact good_depTerms I sched s t h
  | post t =>
    have h1 := good_depTerms I sched s t h
    simp only [step]
    cases hc : (depTerms I sched s t).currY with
    | none => simpa [hc] using h1
    | some y =>
      simp only
      refine ⟨?_, ?_⟩
      · intro sl hsl
        simp only [KState.slices, List.mem_cons] at hsl
        rcases hsl with rfl | hsl
        · exact h1.2 _ hc
        · exact h1.1 sl (by simpa [KState.slices] using hsl)
      · intro y' hy'
        simp only at hy'
        exact h1.2 y' (hc.trans hy')
  | remesh => exact ⟨h.1, h.2⟩
  | extend => exact ⟨h.1, h.2⟩

theorem good_foldl (I : Impl α σ) (sched : α → α) (ops : List (Op α)) (s : KState α σ)
    (h : Good sched s) : Good sched (ops.foldl (step I sched) s) := by
  induction ops generalizing s with
  | nil => exact h
  | cons o r ih => exact ih _ (good_step I sched s o h)

/-- **recorded temperature**: after `setup` and any sequence of solver calls (Euler: `pre, dep, post`;
RK4: three more `dep` per step; re-mesh/extension in between; any number of `solve` calls), with
either lookup implementation, every recorded slice has `temperature = schedule(time)`. -/
theorem recorded_eq_schedule (I : Impl α σ) (sched : α → α) (ops : List (Op α)) :
    ∀ sl ∈ (run I sched ops).slices, sl.temp = sched sl.time :=
  (good_foldl I sched ops _ (good_setup I sched)).1

/-- the setup slice is `(0, schedule 0)` -/
theorem setup_slice (I : Impl α σ) (sched : α → α) :
    (setup I sched).cur.time = 0 ∧ (setup I sched).cur.temp = sched 0 ∧ (setup I sched).hist = [] :=
  ⟨rfl, rfl, rfl⟩

/-- every accepted step appends exactly `(t, schedule t)` when the solver has evaluated the rate of
change first (which `solve` always does) -/
theorem post_appends (I : Impl α σ) (sched : α → α) (s : KState α σ) (t : α) (y0 : Slice α)
    (hc : s.currY = some y0) :
    (step I sched s (.post t)).cur.time = t ∧ (step I sched s (.post t)).cur.temp = sched t ∧
    (step I sched s (.post t)).hist = s.cur :: s.hist := by
  simp [step, depTerms, hc]

end run

/-! ## 4. lookup freshness -/

/-- a growth-rate call is *fresh* when every table block it read and the `xEq` it handed out were
computed within `max` of the temperature of the call -/
def Fresh (max : α) (o : Obs α) : Prop :=
  (∀ t ∈ o.tabT, |o.cur - t| ≤ max) ∧ |o.cur - o.eqT| ≤ max

theorem absS_eq_abs (x : α) : absS x = |x| := by
  unfold absS; split
  · next h => exact (abs_of_neg h).symm
  · next h => exact (abs_of_nonneg (not_lt.mp h)).symm

/-- one call of the code as it is: keeps "the whole table is at `Tl`" and is fresh -/
theorem growthNew_fresh (max : α) (hmax : 0 ≤ max) (s : LNew α) (T a b : α)
    (hinv : ∀ t ∈ s.tabT, t = s.Tl) :
    (∀ t ∈ (growthNew max s T a b).1.tabT, t = (growthNew max s T a b).1.Tl) ∧
    Fresh max (growthNew max s T a b).2 ∧
    (growthNew max s T a b).2.cur = T ∧
    |T - (growthNew max s T a b).1.Tl| ≤ max := by
  unfold growthNew
  simp only
  split
  · refine ⟨by simp [buildNew], ⟨by simp [hmax], by simp [hmax]⟩, rfl, by simp [buildNew, hmax]⟩
  · next hno =>
    have hle : |T - s.Tl| ≤ max := by rw [← absS_eq_abs]; exact not_lt.mp hno
    refine ⟨hinv, ⟨?_, hle⟩, rfl, hle⟩
    intro t ht
    simp only at ht ⊢
    rw [hinv t ht]; exact hle

/-- invariant of a run with the code as it is -/
def InvNew (max : α) (s : KState α (LNew α)) : Prop :=
  (∀ t ∈ s.lk.tabT, t = s.lk.Tl) ∧ (∀ o ∈ s.obs, Fresh max o) ∧
  (∀ sl ∈ s.slices, |sl.temp - sl.eqT| ≤ max) ∧ (∀ y, s.currY = some y → |y.temp - y.eqT| ≤ max)

theorem inv_setup (max : α) (hmax : 0 ≤ max) (sched : α → α) :
    InvNew max (setup (implNew max) sched) := by
  have g := growthNew_fresh max hmax (buildNew (sched 0)) (sched 0) (sched 0) (sched 0)
    (by simp [buildNew])
  refine ⟨g.1, ?_, ?_, ?_⟩
  · intro o ho
    simp only [setup, implNew, List.mem_singleton] at ho
    subst ho; exact g.2.1
  · intro sl hsl
    simp only [setup, implNew, KState.slices, List.mem_singleton] at hsl
    subst hsl
    have := g.2.1.2
    rw [g.2.2.1] at this
    exact this
  · intro y hy; simp [setup] at hy

theorem inv_regrow (max : α) (hmax : 0 ≤ max) (s : KState α (LNew α)) (lk : LNew α)
    (h : InvNew max s) (hlk : ∀ t ∈ lk.tabT, t = lk.Tl) :
    InvNew max (regrow (implNew max) s lk) := by
  have g := growthNew_fresh max hmax lk s.cur.temp s.cur.temp s.cur.eqT hlk
  refine ⟨g.1, ?_, h.2.2.1, h.2.2.2⟩
  intro o ho
  simp only [regrow, implNew, List.mem_cons] at ho
  rcases ho with rfl | ho
  · exact g.2.1
  · exact h.2.1 o ho

theorem inv_depTerms (max : α) (hmax : 0 ≤ max) (sched : α → α) (s : KState α (LNew α)) (t : α)
    (h : InvNew max s) : InvNew max (depTerms (implNew max) sched s t) := by
  unfold depTerms
  cases hc : s.currY with
  | none =>
    refine ⟨h.1, h.2.1, h.2.2.1, ?_⟩
    intro y hy
    simp only [Option.some.injEq] at hy
    subst hy
    exact h.2.2.1 s.cur (by simp [KState.slices])
  | some y0 =>
    have g := growthNew_fresh max hmax s.lk (sched t) s.cur.temp s.cur.eqT h.1
    refine ⟨g.1, ?_, h.2.2.1, ?_⟩
    · intro o ho
      simp only [implNew, List.mem_cons] at ho
      rcases ho with rfl | ho
      · exact g.2.1
      · exact h.2.1 o ho
    · intro y hy
      simp only [Option.some.injEq] at hy
      subst hy
      have := g.2.1.2
      rw [g.2.2.1] at this
      exact this

theorem inv_step (max : α) (hmax : 0 ≤ max) (sched : α → α) (s : KState α (LNew α)) (o : Op α)
    (h : InvNew max s) : InvNew max (step (implNew max) sched s o) := by
  cases o with
  | pre => exact ⟨h.1, h.2.1, h.2.2.1, by intro y hy; simp [step] at hy⟩
  | dep t => exact inv_depTerms max hmax sched s t h
  | post t =>
    have h1 := inv_depTerms max hmax sched s t h
    simp only [step]
    cases hc : (depTerms (implNew max) sched s t).currY with
    | none => simpa [hc] using h1
    | some y =>
      simp only
      refine ⟨h1.1, h1.2.1, ?_, ?_⟩
      · intro sl hsl
        simp only [KState.slices, List.mem_cons] at hsl
        rcases hsl with rfl | hsl
        · exact h1.2.2.2 _ hc
        · exact h1.2.2.1 sl (by simpa [KState.slices] using hsl)
      · intro y' hy'
        simp only at hy'
        exact h1.2.2.2 y' (hc.trans hy')
  | remesh =>
    exact inv_regrow max hmax s _ h (by simp [implNew, buildNew])
  | extend =>
    refine inv_regrow max hmax s _ h ?_
    intro t ht
    simp only [implNew, List.mem_append, List.mem_singleton] at ht ⊢
    rcases ht with ht | ht
    · exact h.1 t ht
    · exact ht

theorem inv_foldl (max : α) (hmax : 0 ≤ max) (sched : α → α) (ops : List (Op α))
    (s : KState α (LNew α)) (h : InvNew max s) :
    InvNew max (ops.foldl (step (implNew max) sched) s) := by
  induction ops generalizing s with
  | nil => exact h
  | cons o r ih => exact ih _ (inv_step max hmax sched s o h)

/-- **lookup freshness** (code as it is): for every threshold `max ≥ 0`, every schedule and every
history of solver calls — heating or cooling, fast or arbitrarily slow, Euler or RK4, with re-meshes
and extensions of the size grid anywhere — every growth-rate evaluation reads only table entries,
and hands out only equilibrium compositions, computed within `max` of its own temperature. -/
theorem lookup_fresh (max : α) (hmax : 0 ≤ max) (sched : α → α) (ops : List (Op α)) :
    ∀ o ∈ (run (implNew max) sched ops).obs, Fresh max o :=
  (inv_foldl max hmax sched ops _ (inv_setup max hmax sched)).2.1

/-- … and the equilibrium compositions stored in every recorded slice were computed within `max`
of that slice's recorded temperature. -/
theorem recorded_xeq_fresh (max : α) (hmax : 0 ≤ max) (sched : α → α) (ops : List (Op α)) :
    ∀ sl ∈ (run (implNew max) sched ops).slices, |sl.temp - sl.eqT| ≤ max :=
  (inv_foldl max hmax sched ops _ (inv_setup max hmax sched)).2.2.1

/-- after a re-mesh or an extension of the grid the table is fresh for the recorded temperature -/
theorem adjust_fresh (max : α) (hmax : 0 ≤ max) (s : KState α (LNew α)) (lk : LNew α)
    (hlk : ∀ t ∈ lk.tabT, t = lk.Tl) :
    ∀ t ∈ (regrow (implNew max) s lk).lk.tabT, |s.cur.temp - t| ≤ max := by
  have g := growthNew_fresh max hmax lk s.cur.temp s.cur.temp s.cur.eqT hlk
  intro t ht
  simp only [regrow, implNew] at ht
  rw [g.1 t ht]
  exact g.2.2.2

/-- a rebuild happens exactly when it is needed … -/
theorem growthNew_rebuild_iff (max : α) (s : LNew α) (T a b : α) :
    (growthNew max s T a b).2.rebuilt = true ↔ max < |T - s.Tl| := by
  unfold growthNew
  simp only
  rw [absS_eq_abs]
  split <;> simp_all

/-- … so there is no rebuild storm: after a build at `T`, calls within `max` of `T` do not rebuild -/
theorem growthNew_no_storm (max : α) (T T' a b : α) (h : |T' - T| ≤ max) :
    (growthNew max (buildNew T) T' a b).2.rebuilt = false := by
  have := (growthNew_rebuild_iff max (buildNew T) T' a b).not.mpr (by simpa [buildNew] using not_lt.mpr h)
  simpa using this

/-! ### the code as it was: D-C13-dtemp -/

/-- one Euler step `k → k+1` at unit time spacing -/
def stepOps (k : ℕ) : List (Op α) := [.pre, .dep (k : α), .post ((k : α) + 1)]

/-- `n` Euler steps -/
def rampOps : ℕ → List (Op α)
  | 0 => []
  | n + 1 => rampOps n ++ stepOps n

/-- **slow ramp, code as it was**: with a per-step temperature change `|r| ≤ max` the accumulated
change is reset at every call, so after *any* number `n` of steps the table is still the one built
at the initial temperature `T0`, while the run is at `T0 + r·n`. -/
theorem old_ramp_state (max T0 r : α) (hmax : 0 ≤ max) (hr : |r| ≤ max) (n : ℕ) :
    let s := run (implOld max) (fun t => T0 + r * t) (rampOps n)
    s.cur = { time := (n : α), temp := T0 + r * n, eqT := T0 } ∧
    s.lk = { tabT := [T0], dTemp := 0 } ∧
    s.obs.head? = some { cur := T0 + r * n, tabT := [T0], eqT := T0, rebuilt := false, dTemp := 0 } := by
  induction n with
  | zero =>
    have h0 : ¬ max < absS (0 : α) := by simp [absS, hmax]
    simp [run, rampOps, setup, implOld, growthOld, h0]
  | succ n ih =>
    obtain ⟨h1, h2, h3⟩ := ih
    have hd : ¬ max < absS (r * ((n : α) + 1) - r * n) := by
      have : r * ((n : α) + 1) - r * n = r := by ring
      rw [this, absS_eq_abs]; exact not_lt.mpr hr
    simp only [run, rampOps, List.foldl_append] at h1 h2 h3 ⊢
    generalize hs : List.foldl (step (implOld max) fun t => T0 + r * t)
      (setup (implOld max) fun t => T0 + r * t) (rampOps n) = s at h1 h2 h3 ⊢
    simp [stepOps, step, depTerms, implOld, growthOld, h1, h2, hd]

/-- the last growth-rate call of such a ramp is stale as soon as the drift exceeds the threshold -/
theorem lookup_stale_ramp (max T0 r : α) (hmax : 0 ≤ max) (hr : |r| ≤ max) (n : ℕ)
    (hn : max < |r * n|) :
    ∃ o ∈ (run (implOld max) (fun t => T0 + r * t) (rampOps n)).obs, ¬ Fresh max o := by
  obtain ⟨_, _, h3⟩ := old_ramp_state max T0 r hmax hr n
  refine ⟨_, List.mem_of_mem_head? h3, ?_⟩
  intro hf
  have := hf.1 T0 (by simp)
  simp only at this
  have h' : T0 + r * (n : α) - T0 = r * n := by ring
  rw [h'] at this
  exact absurd this (not_le.mpr hn)

/-- **D-C13-dtemp, concrete witness** (default threshold 1 K): 10 steps of +0.5 K from 723 K.  The
run is at 728 K and its growth rates are still read from the table built at 723 K. -/
theorem lookup_stale :
    ∃ o ∈ (run (implOld (1:ℚ)) (fun t => 723 + (1/2) * t) (rampOps 10)).obs, ¬ Fresh 1 o := by
  refine lookup_stale_ramp 1 723 (1/2) (by norm_num) ?_ 10 ?_
  · rw [abs_of_pos] <;> norm_num
  · rw [abs_of_pos] <;> norm_num

/-- the same for cooling -/
theorem lookup_stale_cooling :
    ∃ o ∈ (run (implOld (1:ℚ)) (fun t => 723 + (-1/2) * t) (rampOps 10)).obs, ¬ Fresh 1 o := by
  refine lookup_stale_ramp 1 723 (-1/2) (by norm_num) ?_ 10 ?_
  · rw [abs_of_neg] <;> norm_num
  · rw [abs_of_neg] <;> norm_num

/-- **rebuild storm, code as it was**: once the accumulated change exceeds the threshold it is kept,
so every later call — even at a constant temperature — rebuilds the table again. -/
theorem growthOld_storm (max : α) (s : LOld α) (T eq : α) (h : max < |s.dTemp|) :
    (growthOld max s T T eq).2.rebuilt = true ∧ (growthOld max s T T eq).1.dTemp = s.dTemp := by
  have hd : max < absS s.dTemp := by rw [absS_eq_abs]; exact h
  simp [growthOld, hd]

/-! ## 5. the caller's arrays: arguments unchanged, no dependence on later changes -/

section world
variable {β : Type}

theorem nth_updAt_ne (l : List β) (i j : Nat) (f : β → β) (h : i ≠ j) :
    nth (updAt l i f) j = nth l j := by
  induction l generalizing i j with
  | nil => simp [updAt]
  | cons x r ih =>
    cases i with
    | zero =>
      cases j with
      | zero => exact absurd rfl h
      | succ j => simp [updAt, nth]
    | succ i =>
      cases j with
      | zero => simp [updAt, nth]
      | succ j => simp only [updAt, nth]; exact ih i j (by omega)

theorem nth_updAt_eq (l : List β) (i : Nat) (f : β → β) (x : β) (h : nth l i = some x) :
    nth (updAt l i f) i = some (f x) := by
  induction l generalizing i with
  | nil => simp [nth] at h
  | cons y r ih =>
    cases i with
    | zero => simp only [nth, Option.some.injEq] at h; simp [updAt, nth, h]
    | succ i => simp only [updAt, nth] at h ⊢; exact ih i h

theorem nth_append_left (l : List β) (x y : β) (j : Nat) (h : nth l j = some y) :
    nth (l ++ [x]) j = some y := by
  induction l generalizing j with
  | nil => simp [nth] at h
  | cons z r ih =>
    cases j with
    | zero => simpa [nth] using h
    | succ j => simp only [List.cons_append, nth] at h ⊢; exact ih j h

theorem nth_append_new (l : List β) (x : β) : nth (l ++ [x]) l.length = some x := by
  induction l with
  | nil => rfl
  | cons z r ih => simpa [nth] using ih

theorem nth_map {γ : Type} (f : β → γ) (l : List β) (j : Nat) :
    nth (l.map f) j = (nth l j).map f := by
  induction l generalizing j with
  | nil => rfl
  | cons z r ih => cases j <;> simp [nth, ih]

theorem updAt_map {γ : Type} (f : β → γ) (l : List β) (i : Nat) (x : β) :
    (updAt l i (fun _ => x)).map f = updAt (l.map f) i (fun _ => f x) := by
  induction l generalizing i with
  | nil => rfl
  | cons z r ih => cases i <;> simp [updAt, ih]

end world

/-- **arguments unchanged**: specifying a schedule — constructor or setter — leaves every array of
the caller as it is (both semantics; this is what the code does and did). -/
theorem spec_store_unchanged (w : VWorld α) (o a b : Nat) :
    (w.step (.ctor a b)).store = w.store ∧ (w.step (.setArr o a b)).store = w.store := ⟨rfl, rfl⟩

theorem spec_store_unchanged_ref (w : RWorld α) (o a b : Nat) :
    (w.step (.ctor a b)).store = w.store ∧ (w.step (.setArr o a b)).store = w.store := ⟨rfl, rfl⟩

/-- the op specifies object `o` anew -/
def Respec (o : Nat) : WOp α → Prop
  | .setArr o' _ _ => o' = o
  | _ => False

/-- the op is the caller writing into one of his arrays -/
def IsWrite : WOp α → Prop
  | .write _ _ _ => True
  | _ => False

theorem vstep_other (w : VWorld α) (o : Nat) (x : List α × List α) (op : WOp α)
    (hx : w.obj o = some x) (hop : ¬ Respec o op) : (w.step op).obj o = some x := by
  cases op with
  | ctor a b => exact nth_append_left _ _ _ _ hx
  | setArr o' a b =>
    have : o' ≠ o := fun h => hop h
    simp only [VWorld.step, VWorld.obj]
    rw [nth_updAt_ne _ _ _ _ this]; exact hx
  | write id i v => exact hx

/-- **no dependence on later changes** (value semantics): once object `o` holds a schedule, nothing
short of specifying `o` again changes it — not the caller overwriting the arrays he passed, not the
same arrays being used to specify other objects, not new objects. -/
theorem schedule_fixed_at_specification (w : VWorld α) (o : Nat) (x : List α × List α)
    (ops : List (WOp α)) (hx : w.obj o = some x) (hops : ∀ op ∈ ops, ¬ Respec o op) :
    (ops.foldl VWorld.step w).obj o = some x := by
  induction ops generalizing w with
  | nil => exact hx
  | cons op r ih =>
    exact ih (w.step op) (vstep_other w o x op hx (hops op (by simp)))
      (fun op' h => hops op' (by simp [h]))

/-- what a specification stores is the contents the arrays have at that moment -/
theorem setArr_stores_contents (w : VWorld α) (o a b : Nat) (x : List α × List α)
    (hx : w.obj o = some x) :
    (w.step (.setArr o a b)).obj o = some (arrOf w.store a, arrOf w.store b) :=
  nth_updAt_eq _ _ _ _ hx

theorem ctor_stores_contents (w : VWorld α) (a b : Nat) :
    (w.step (.ctor a b)).obj w.objs.length = some (arrOf w.store a, arrOf w.store b) :=
  nth_append_new _ _

/-- reference semantics simulates value semantics as long as the caller does not write -/
def Sim (r : RWorld α) (v : VWorld α) : Prop :=
  r.store = v.store ∧ v.objs = r.objs.map (fun p => (arrOf r.store p.1, arrOf r.store p.2))

theorem sim_step (r : RWorld α) (v : VWorld α) (op : WOp α) (h : Sim r v) (hw : ¬ IsWrite op) :
    Sim (r.step op) (v.step op) := by
  obtain ⟨hs, ho⟩ := h
  cases op with
  | ctor a b =>
    refine ⟨hs, ?_⟩
    simp only [VWorld.step, RWorld.step, List.map_append, List.map_cons, List.map_nil, ← hs, ho]
  | setArr o a b =>
    refine ⟨hs, ?_⟩
    simp only [VWorld.step, RWorld.step, ← hs, ho]
    exact (updAt_map (fun p : Nat × Nat => (arrOf r.store p.1, arrOf r.store p.2)) r.objs o (a, b)).symm
  | write id i v => exact absurd trivial hw

/-- **reference semantics, partial**: without writes by the caller — in particular when the very same
arrays are reused for a second specification, another object, another model — keeping references
gives the same schedules as storing the contents. -/
theorem ref_eq_val_without_writes (r : RWorld α) (v : VWorld α) (ops : List (WOp α)) (h : Sim r v)
    (hops : ∀ op ∈ ops, ¬ IsWrite op) (o : Nat) :
    (ops.foldl RWorld.step r).obj o = (ops.foldl VWorld.step v).obj o := by
  induction ops generalizing r v with
  | nil =>
    obtain ⟨hs, ho⟩ := h
    simp only [List.foldl_nil, RWorld.obj, VWorld.obj, ho, nth_map]
  | cons op rest ih =>
    exact ih _ _ (sim_step r v op h (hops op (by simp))) (fun op' h' => hops op' (by simp [h']))

/-- **reference semantics, witness** (what `self.Tparameters = (times, temperatures)` does): the caller
changes his hours array after the specification and the stored schedule follows — 750 K at
t = 1800 s becomes 712.5 K.  With value semantics it stays. -/
theorem ref_alias_witness :
    let r : RWorld ℚ := ((RWorld.mk [[0, 1], [700, 800]] []).step (.ctor 0 1)).step (.write 0 1 4)
    let v : VWorld ℚ := ((VWorld.mk [[0, 1], [700, 800]] []).step (.ctor 0 1)).step (.write 0 1 4)
    r.obj 0 = some ([0, 4], [700, 800]) ∧ v.obj 0 = some ([0, 1], [700, 800]) ∧
    npInterp (1800 / 3600 : ℚ) [0, 4] [700, 800] = some (1425 / 2) ∧
    npInterp (1800 / 3600 : ℚ) [0, 1] [700, 800] = some 750 := by
  refine ⟨rfl, rfl, ?_, ?_⟩
  · have := interp_between (1800 / 3600 : ℚ) 0 4 700 800 [] [] [] [] rfl rfl (by decide)
      (by norm_num) (by norm_num)
    simpa using this.trans (by norm_num)
  · have := interp_between (1800 / 3600 : ℚ) 0 1 700 800 [] [] [] [] rfl rfl (by decide)
      (by norm_num) (by norm_num)
    simpa using this.trans (by norm_num)

/-! ## 6. diffusion runs: the schedule is followed to the resolution of the (composition, temperature) table

`TempSched.runDiff`: every evaluation of the fluxes takes `T = temperatureParameters(z, t)` and sends
every node through `HashCache.cachedQuery`.  Values are tracked by where they were computed
(`prov x T = (x, T)`; every thermodynamics function factors through it), so "the model diffuses with
the schedule temperature of the current time" reads: the value in use at node `i` of an evaluation at
time `t` was computed at a temperature within the table's resolution of `schedule(z_i, t)`. -/

section diffrun
open KawinV.HashCache

/-! ### the temperatures handed over are the schedule at the time of the evaluation -/

section handed
variable {β κ ν : Type} [DecidableEq κ]
variable (cfg : Cfg) (key : Nat → List β → β → κ) (f : List β → β → ν)

theorem queryNodes_length (tab : Table κ ν) (l : List (List β × β)) :
    (queryNodes cfg key f tab l).1.length = l.length := by
  induction l generalizing tab with
  | nil => rfl
  | cons p r ih => obtain ⟨x, T⟩ := p; simp only [queryNodes, List.length_cons]; rw [ih]

/-- **one evaluation**: whatever the table holds, an evaluation of the fluxes at time `t` that does not
raise looked every node up at — and, on a miss, called the thermodynamics with — the schedule
evaluated at `t` (one temperature per node), and reports the time `t`. -/
theorem fluxEval_hands_over_schedule (temp : β → Option (List β)) (tab : Table κ ν) (t : β)
    (xs : List (List β)) (o : FluxObs β ν) (h : (fluxEval cfg key f temp tab t xs).1 = some o) :
    ∃ Ts, temp t = some Ts ∧ xs.length ≤ Ts.length ∧ o.time = t ∧ o.temps = Ts.take xs.length ∧
      o.vals = (queryNodes cfg key f tab (xs.zip Ts)).1 := by
  unfold fluxEval at h
  cases hT : temp t with
  | none => simp [hT] at h
  | some Ts =>
    simp only [hT] at h
    by_cases hl : Ts.length < xs.length
    · simp [hl] at h
    · simp only [hl, if_false, Option.some.injEq] at h
      subst h
      exact ⟨Ts, rfl, not_lt.mp hl, rfl, rfl, rfl⟩

/-- **every evaluation of every history**: for every schedule (`temp`), every history of control calls
and evaluations of the fluxes on any table, every evaluation that did not raise handed over the
schedule evaluated at its own time. -/
theorem diffusion_hands_over_schedule (temp : β → Option (List β)) :
    ∀ (evs : List (DEv β)) (tab : Table κ ν) (o : FluxObs β ν),
      some o ∈ (runDiff cfg key f temp tab evs).2 →
      ∃ Ts, temp o.time = some Ts ∧ o.temps = Ts.take o.vals.length
  | [], _, o, h => by simp [runDiff] at h
  | .enable b :: r, tab, o, h => by
    simp only [runDiff] at h; exact diffusion_hands_over_schedule temp r _ o h
  | .clear :: r, tab, o, h => by
    simp only [runDiff] at h; exact diffusion_hands_over_schedule temp r _ o h
  | .setSens s :: r, tab, o, h => by
    simp only [runDiff] at h; exact diffusion_hands_over_schedule temp r _ o h
  | .flux t xs :: r, tab, o, h => by
    simp only [runDiff, List.mem_cons] at h
    rcases h with h | h
    · obtain ⟨Ts, hT, hl, ht, htemps, hv⟩ := fluxEval_hands_over_schedule cfg key f temp tab t xs o h.symm
      refine ⟨Ts, ht ▸ hT, ?_⟩
      rw [htemps, hv, queryNodes_length, List.length_zip, Nat.min_eq_left hl]
    · exact diffusion_hands_over_schedule temp r _ o h

end handed

/-- with a `TemperatureParameters` object as the schedule: the constant, the break-point form (the
piecewise-linear interpolant of section 1 at every node) and the callable `f(z, t)` -/
theorem diffusion_temps_iso (d : DState α) (T : α) (z : List α) (t : α) :
    (d.setIso T).eval z t = some (List.replicate z.length T) := rfl

theorem diffusion_temps_between (d : DState α) (z : List α) (t a b fa fb : α) (pre pre' post post' : List α)
    (hpre : pre.length = pre'.length) (hpost : post.length = post'.length)
    (h : (pre ++ a :: b :: post).Pairwise (· < ·)) (ha : a * 3600 ≤ t) (hb : t ≤ b * 3600) :
    (d.setArr (pre ++ a :: b :: post) (pre' ++ fa :: fb :: post')).eval z t
      = some (List.replicate z.length (fa + (fb - fa) * (t - a * 3600) / (b * 3600 - a * 3600))) := by
  rw [diffusion_eq_precipitation_arr (PState.ctor .other) d,
    sched_between ((PState.ctor .other).setArr _ _) t a b fa fb pre pre' post post' rfl hpre hpost h ha hb]
  rfl

/-! ### a value in use was stored under the key of the point it is used at -/

section provenance
variable {β κ : Type} [DecidableEq κ]
variable (Adm : β → Prop) (key : Nat → List β → β → κ)

theorem lookup_mem' {ν : Type} {k : κ} {v : ν} : ∀ {l : List (κ × ν)}, lookup k l = some v → (k, v) ∈ l
  | [], h => by simp [lookup] at h
  | (k', v') :: r, h => by
    simp only [lookup] at h
    split at h
    · next hk => simp only [Option.some.injEq] at h; subst hk; subst h; simp
    · exact List.mem_cons_of_mem _ (lookup_mem' h)

/-- table invariant: every record is stored under the key (at the current precision) of the point it
was computed at, and that point has an admissible temperature -/
def SoundP (tab : Table κ (List β × β)) : Prop :=
  ∀ k p, (k, p) ∈ tab.data → k = key tab.sens p.1 p.2 ∧ Adm p.2

/-- what one node gets: a record of a point with the key of the node's own `(x, T)`; with the table
switched off, the node's own point -/
def NodeOK (sens : Nat) (flag : Bool) (q : List β × β) (v : List β × β) : Prop :=
  Adm v.2 ∧ key sens v.1 v.2 = key sens q.1 q.2 ∧ (flag = false → v = q)

theorem soundP_init : SoundP Adm key (init : Table κ (List β × β)) := by
  intro k p h; simp [init] at h

theorem cachedQuery_prov (tab : Table κ (List β × β)) (hs : SoundP Adm key tab) (x : List β) (T : β)
    (hT : Adm T) :
    SoundP Adm key (cachedQuery Cfg.fixed key prov tab x T).2 ∧
    (cachedQuery Cfg.fixed key prov tab x T).2.sens = tab.sens ∧
    (cachedQuery Cfg.fixed key prov tab x T).2.flag = tab.flag ∧
    NodeOK Adm key tab.sens tab.flag (x, T) (cachedQuery Cfg.fixed key prov tab x T).1 := by
  unfold cachedQuery
  cases hr : retrieve Cfg.fixed key tab x T with
  | some v =>
    dsimp only
    refine ⟨hs, rfl, rfl, ?_⟩
    simp only [retrieve, isOn, Cfg.fixed, if_true] at hr
    cases hf : tab.flag with
    | false => simp [hf] at hr
    | true =>
      simp only [hf, if_true] at hr
      obtain ⟨hk, ha⟩ := hs _ _ (lookup_mem' hr)
      exact ⟨ha, hk.symm, fun h => by simp at h⟩
  | none =>
    dsimp only
    cases hf : tab.flag with
    | false =>
      have e : HashCache.step Cfg.fixed key tab (.add x T (prov x T)) = tab := by
        simp [HashCache.step, isOn, Cfg.fixed, hf]
      rw [e]
      exact ⟨hs, rfl, hf, hT, rfl, fun _ => rfl⟩
    | true =>
      have e : HashCache.step Cfg.fixed key tab (.add x T (prov x T))
          = { tab with data := (key tab.sens x T, prov x T) :: tab.data } := by
        simp [HashCache.step, isOn, Cfg.fixed, hf]
      rw [e]
      refine ⟨?_, rfl, hf, hT, rfl, fun h => by simp at h⟩
      intro k p hm
      simp only [List.mem_cons] at hm
      rcases hm with hm | hm
      · simp only [Prod.mk.injEq] at hm
        obtain ⟨rfl, rfl⟩ := hm
        exact ⟨rfl, hT⟩
      · exact hs k p hm

theorem queryNodes_prov : ∀ (l : List (List β × β)) (tab : Table κ (List β × β)), SoundP Adm key tab →
    (∀ q ∈ l, Adm q.2) →
    SoundP Adm key (queryNodes Cfg.fixed key prov tab l).2 ∧
    (queryNodes Cfg.fixed key prov tab l).2.sens = tab.sens ∧
    (queryNodes Cfg.fixed key prov tab l).2.flag = tab.flag ∧
      List.Forall₂ (NodeOK Adm key tab.sens tab.flag) l (queryNodes Cfg.fixed key prov tab l).1
  | [], tab, hs, _ => ⟨hs, rfl, rfl, List.Forall₂.nil⟩
  | (x, T) :: r, tab, hs, ha => by
    obtain ⟨h1, h2, h3, h4⟩ := cachedQuery_prov Adm key tab hs x T (ha (x, T) (by simp))
    obtain ⟨g1, g2, g3, g4⟩ := queryNodes_prov r _ h1 (fun q hq => ha q (by simp [hq]))
    simp only [queryNodes]
    refine ⟨g1, g2.trans h2, g3.trans h3, List.Forall₂.cons h4 ?_⟩
    rw [h2, h3] at g4
    exact g4

/-- every temperature the schedule produces in the evaluations of a history is admissible -/
def AdmRun (temp : β → Option (List β)) (evs : List (DEv β)) : Prop :=
  ∀ t xs, DEv.flux t xs ∈ evs → ∀ Ts, temp t = some Ts → ∀ T ∈ Ts, Adm T

theorem mem_zip_snd {γ δ : Type} : ∀ (l : List γ) (m : List δ) (q : γ × δ), q ∈ l.zip m → q.2 ∈ m
  | [], _, q, h => by simp at h
  | _ :: _, [], q, h => by simp at h
  | a :: l, b :: m, q, h => by
    simp only [List.zip_cons_cons, List.mem_cons] at h
    rcases h with rfl | h
    · simp
    · exact List.mem_cons_of_mem _ (mem_zip_snd l m q h)

theorem fluxEval_sound (temp : β → Option (List β)) (tab : Table κ (List β × β)) (hs : SoundP Adm key tab)
    (t : β) (xs : List (List β)) (ha : ∀ Ts, temp t = some Ts → ∀ T ∈ Ts, Adm T) :
    SoundP Adm key (fluxEval Cfg.fixed key prov temp tab t xs).2 := by
  unfold fluxEval
  cases hT : temp t with
  | none => exact hs
  | some Ts =>
    exact (queryNodes_prov Adm key (xs.zip Ts) tab hs
      (fun q hq => ha Ts hT q.2 (mem_zip_snd xs Ts q hq))).1

theorem runDiff_sound (temp : β → Option (List β)) :
    ∀ (evs : List (DEv β)) (tab : Table κ (List β × β)), SoundP Adm key tab → AdmRun Adm temp evs →
      SoundP Adm key (runDiff Cfg.fixed key prov temp tab evs).1
  | [], tab, hs, _ => by simpa [runDiff] using hs
  | .enable b :: r, tab, hs, ha => by
    simp only [runDiff]
    refine runDiff_sound temp r _ ?_ (fun t xs hm => ha t xs (by simp [hm]))
    simpa [HashCache.step, SoundP] using hs
  | .clear :: r, tab, hs, ha => by
    simp only [runDiff]
    refine runDiff_sound temp r _ ?_ (fun t xs hm => ha t xs (by simp [hm]))
    intro k p hm; simp [HashCache.step] at hm
  | .setSens s :: r, tab, hs, ha => by
    simp only [runDiff]
    refine runDiff_sound temp r _ ?_ (fun t xs hm => ha t xs (by simp [hm]))
    intro k p hm; simp [HashCache.step, Cfg.fixed] at hm
  | .flux t xs :: r, tab, hs, ha => by
    simp only [runDiff]
    exact runDiff_sound temp r _ (fluxEval_sound Adm key temp tab hs t xs (ha t xs (by simp)))
      (fun t' xs' hm => ha t' xs' (by simp [hm]))

/-- **the value in use, for every history and every key function**: after any history of control
calls (`useCache`, `clearCache`, `setHashSensitivity`) and evaluations of the fluxes on a new table,
in the next evaluation at time `t` every node `(x_i, T_i)` — `T_i` the schedule at `t` — uses a value
computed at a point with the SAME KEY (at the current precision) as `(x_i, T_i)`; with the table
switched off, computed at `(x_i, T_i)` itself. -/
theorem diffusion_value_in_use_has_equal_key (temp : β → Option (List β)) (evs : List (DEv β))
    (hev : AdmRun Adm temp evs) (t : β) (xs : List (List β)) (o : FluxObs β (List β × β))
    (ha : ∀ Ts, temp t = some Ts → ∀ T ∈ Ts, Adm T) :
    let tab := (runDiff Cfg.fixed key prov temp (init : Table κ (List β × β)) evs).1
    (fluxEval Cfg.fixed key prov temp tab t xs).1 = some o →
      ∃ Ts, temp t = some Ts ∧ o.temps = Ts.take xs.length ∧
        List.Forall₂ (NodeOK Adm key tab.sens tab.flag) (xs.zip Ts) o.vals := by
  intro tab ho
  obtain ⟨Ts, hT, _, _, htemps, hv⟩ := fluxEval_hands_over_schedule Cfg.fixed key prov temp tab t xs o ho
  refine ⟨Ts, hT, htemps, ?_⟩
  rw [hv]
  exact (queryNodes_prov Adm key (xs.zip Ts) tab
    (runDiff_sound Adm key temp evs _ (soundP_init Adm key) hev)
    (fun q hq => ha Ts hT q.2 (mem_zip_snd xs Ts q hq))).2.2.2

end provenance

/-! ### the key of the code: temperature scaled like the composition -/

section key
variable [FloorRing α]

/-- `astype(int)`: truncation toward zero -/
def truncZ (v : α) : Int := if 0 ≤ v then ⌊v⌋ else ⌈v⌉

/-- the key arithmetic over an ordered field with a floor function -/
@[reducible] def fieldKey : KeyScalar α := ⟨fun n => (n : α), fun a b => a * b, fun v => some (truncZ v)⟩

/-- the code's key (`HashCache.keyExact`: every component of `x ++ [T]` times `10^s`, truncated) -/
def keyF (s : Nat) (x : List α) (T : α) : List (Option Int) := @keyExact α fieldKey s x T

/-- the key with the temperature left unscaled (`TempSched.keyKelvin`) -/
def keyKelvinF (s : Nat) (x : List α) (T : α) : List (Option Int) := @keyKelvin α fieldKey s x T

theorem scaled_eq (s : Nat) (v : α) : @scaled α fieldKey s v = some (truncZ (v * (10:α) ^ s)) := by
  show some (truncZ (v * ((10 ^ s : ℕ) : α))) = _
  rw [Nat.cast_pow]; norm_num

/-- equal scaled-and-truncated values of non-negative numbers are closer than `10^-s` -/
theorem scaled_close (s : Nat) (v w : α) (hv : 0 ≤ v) (hw : 0 ≤ w)
    (h : @scaled α fieldKey s v = @scaled α fieldKey s w) : |v - w| < 1 / (10:α) ^ s := by
  rw [scaled_eq, scaled_eq] at h
  have hp : (0:α) < (10:α) ^ s := by positivity
  have h0 := Option.some.inj h
  simp only [truncZ, mul_nonneg hv hp.le, mul_nonneg hw hp.le, if_true] at h0
  have h1 := Int.abs_sub_lt_one_of_floor_eq_floor h0
  rw [← sub_mul, abs_mul, abs_of_pos hp] at h1
  rw [lt_div_iff₀ hp]; exact h1

/-- the temperature component of the code's key -/
theorem keyF_temperature (s : Nat) (x x' : List α) (T T' : α) (h : keyF s x T = keyF s x' T') :
    @scaled α fieldKey s T = @scaled α fieldKey s T' := by
  unfold keyF keyExact at h
  rw [List.map_append, List.map_append, List.map_singleton, List.map_singleton] at h
  exact (List.append_singleton_inj.mp h).2

/-- **resolution of the code's key in temperature**: two points with non-negative (absolute)
temperatures and equal keys at precision `s` are less than `10^-s` K apart -/
theorem keyF_eq_close (s : Nat) (x x' : List α) (T T' : α) (hT : 0 ≤ T) (hT' : 0 ≤ T')
    (h : keyF s x T = keyF s x' T') : |T - T'| < 1 / (10:α) ^ s :=
  scaled_close s T T' hT hT' (keyF_temperature s x x' T T' h)

theorem nodeOK_close (s : Nat) (flag : Bool) (l : List (List α × α)) (vs : List (List α × α))
    (hadm : ∀ q ∈ l, (0:α) ≤ q.2)
    (hf : List.Forall₂ (NodeOK (fun T => (0:α) ≤ T) keyF s flag) l vs) :
    List.Forall₂ (fun q v => |q.2 - v.2| < 1 / (10:α) ^ s ∧ (flag = false → v = q)) l vs := by
  induction hf with
  | nil => exact List.Forall₂.nil
  | @cons q v l vs hqv _ ih =>
    refine List.Forall₂.cons ⟨?_, hqv.2.2⟩ (ih (fun q' hq' => hadm q' (by simp [hq'])))
    exact keyF_eq_close _ q.1 v.1 q.2 v.2 (hadm q (by simp)) hqv.1 hqv.2.1.symm

/-- **the schedule is followed to the resolution of the table** (what the oracle on the runs relies
on).  For every schedule with non-negative temperatures, every history of control calls and
evaluations of the fluxes on a new table, and every next evaluation at time `t`: each node was
looked up at the schedule temperature of time `t`, and the value it uses was computed at a
temperature less than `10^-s` K from it (`s` = the table's current number of digits) — however slow
or fast the schedule changes; with the table switched off, at exactly the schedule temperature and
the node's composition. -/
theorem schedule_followed_to_cache_resolution (temp : α → Option (List α)) (evs : List (DEv α))
    (hev : AdmRun (fun T => (0:α) ≤ T) temp evs) (t : α) (xs : List (List α))
    (o : FluxObs α (List α × α)) (ha : ∀ Ts, temp t = some Ts → ∀ T ∈ Ts, 0 ≤ T) :
    let tab := (runDiff Cfg.fixed keyF prov temp (init : Table (List (Option Int)) (List α × α)) evs).1
    (fluxEval Cfg.fixed keyF prov temp tab t xs).1 = some o →
      ∃ Ts, temp t = some Ts ∧ o.temps = Ts.take xs.length ∧
        List.Forall₂ (fun q v => |q.2 - v.2| < 1 / (10:α) ^ tab.sens ∧ (tab.flag = false → v = q))
          (xs.zip Ts) o.vals := by
  intro tab ho
  obtain ⟨Ts, hT, htemps, hf⟩ :=
    diffusion_value_in_use_has_equal_key (fun T => (0:α) ≤ T) keyF temp evs hev t xs o ha ho
  refine ⟨Ts, hT, htemps, ?_⟩
  exact nodeOK_close _ _ _ _ (fun q hq => ha Ts hT q.2 (mem_zip_snd xs Ts q hq)) hf

/-- **witness (temperature left unscaled)**: two schedule temperatures inside one kelvin — a whole
number of kelvin and anything less than one kelvin above it — share a key AT EVERY PRECISION `s`,
so a table keyed like that answers the later temperature with the value of the earlier one -/
theorem schedule_within_kelvin_collides (s : Nat) (x : List α) (n : ℕ) (d : α) (h0 : 0 ≤ d) (h1 : d < 1) :
    keyKelvinF s x (n : α) = keyKelvinF s x ((n : α) + d) := by
  have hn : (0:α) ≤ (n : α) := Nat.cast_nonneg n
  have e1 : truncZ ((n : α)) = (n : ℤ) := by
    simp only [truncZ, hn, if_true]; exact Int.floor_natCast n
  have e2 : truncZ ((n : α) + d) = (n : ℤ) := by
    have : (0:α) ≤ (n : α) + d := add_nonneg hn h0
    simp only [truncZ, this, if_true]
    rw [Int.floor_eq_iff]
    constructor
    · push_cast; linarith
    · push_cast; linarith
  simp only [keyKelvinF, keyKelvin, KeyScalar.trunc, e1, e2]

/-- the demonstration ramp 1073.05 K → 1073.95 K: one key with the temperature unscaled, whatever `s` … -/
theorem kelvin_key_merges_ramp (s : Nat) (x : List α) :
    keyKelvinF s x ((1073 : α) + 1 / 20) = keyKelvinF s x ((1073 : α) + 19 / 20) := by
  have a := schedule_within_kelvin_collides s x 1073 ((1:α) / 20) (by norm_num) (by norm_num)
  have b := schedule_within_kelvin_collides s x 1073 ((19:α) / 20) (by norm_num) (by norm_num)
  simpa using a.symm.trans b

/-- … and two different keys with the code's key at every precision of at least one digit -/
theorem code_key_separates_ramp (s : Nat) (hs : 1 ≤ s) (x x' : List α) :
    keyF s x ((1073 : α) + 1 / 20) ≠ keyF s x' ((1073 : α) + 19 / 20) := by
  intro h
  have hc := keyF_eq_close s x x' _ _ (by norm_num) (by norm_num) h
  have h10 : (10:α) ^ 1 ≤ (10:α) ^ s := pow_le_pow_right₀ (by norm_num) hs
  have hp : (0:α) < (10:α) ^ s := by positivity
  rw [lt_div_iff₀ hp] at hc
  have : |(1073:α) + 1 / 20 - (1073 + 19 / 20)| = 9 / 10 := by
    rw [show (1073:α) + 1 / 20 - (1073 + 19 / 20) = -(9 / 10) by ring, abs_neg, abs_of_pos (by norm_num)]
  rw [this] at hc
  nlinarith

end key

/-! ### witnesses on exact decimals (`HashCache.Dec`; `decide` computes): a three-evaluation run -/

section witness

/-- the slow ramp of the demonstration as a schedule over exact decimals: evaluation `k = 0, 1, 2` is at
1073.05 K, 1073.50 K, 1073.95 K (one node) -/
def rampDec : Dec → Option (List Dec) := fun t => some [⟨107305 + 45 * t.m, 2⟩]

/-- one node whose composition 0.2 does not change, three evaluations along the ramp -/
def rampEvs : List (DEv Dec) := [.flux ⟨0, 0⟩ [[⟨2, 1⟩]], .flux ⟨1, 0⟩ [[⟨2, 1⟩]], .flux ⟨2, 0⟩ [[⟨2, 1⟩]]]

/-- **temperature left unscaled — the run does NOT follow the schedule**: the value computed at
1073.05 K in the first evaluation is the one in use at 1073.50 K and at 1073.95 K (0.9 K off;
2.6 % in an Arrhenius diffusivity with Q = 287 kJ/mol) -/
theorem kelvin_key_run_is_stale :
    ((runDiff Cfg.fixed (keyKelvin (α := Dec)) prov rampDec (init : Table (List (Option Int)) (List Dec × Dec))
      rampEvs).2.map (Option.map (fun o => (o.temps, o.vals.map Prod.snd))))
      = [some ([⟨107305, 2⟩], [⟨107305, 2⟩]), some ([⟨107350, 2⟩], [⟨107305, 2⟩]),
         some ([⟨107395, 2⟩], [⟨107305, 2⟩])] := by decide

/-- **the code's key — every evaluation uses a value computed at its own schedule temperature** -/
theorem code_key_run_follows_schedule :
    ((runDiff Cfg.fixed (keyExact (α := Dec)) prov rampDec (init : Table (List (Option Int)) (List Dec × Dec))
      rampEvs).2.map (Option.map (fun o => (o.temps, o.vals.map Prod.snd))))
      = [some ([⟨107305, 2⟩], [⟨107305, 2⟩]), some ([⟨107350, 2⟩], [⟨107350, 2⟩]),
         some ([⟨107395, 2⟩], [⟨107395, 2⟩])] := by decide

end witness

/-! ### non-vacuity of the new hypothesis sets -/

/-- two DIFFERENT schedule temperatures with equal keys exist (so `keyF_eq_close` is not vacuous):
1073 K and 1073.00003 K at four digits … -/
example : keyF 4 [(1:ℚ) / 5] 1073 = keyF 4 [(1:ℚ) / 5] (1073 + 3 / 100000) := by
  have f1 : truncZ ((1:ℚ) / 5 * 10 ^ 4) = 2000 := by simp only [truncZ]; norm_num
  have f3 : truncZ ((1073:ℚ) * 10 ^ 4) = 10730000 := by simp only [truncZ]; norm_num
  have f4 : truncZ (((1073:ℚ) + 3 / 100000) * 10 ^ 4) = 10730000 := by
    have : (0:ℚ) ≤ ((1073:ℚ) + 3 / 100000) * 10 ^ 4 := by norm_num
    simp only [truncZ, this, if_true]; rw [Int.floor_eq_iff]; norm_num
  simp only [keyF, keyExact, List.map_append, List.map_cons, List.map_nil, scaled_eq, f1, f3, f4]

/-- … and a history on a slow ramp (a control call in between) meets `AdmRun` with the non-negative
temperatures of `schedule_followed_to_cache_resolution` -/
example : AdmRun (fun T => (0:ℚ) ≤ T) (fun t => some [1073 + t / 1000, 1073 + t / 1000 + 1 / 2])
    [.flux 0 [[1 / 5], [3 / 10]], .setSens 6, .flux 100 [[1 / 5], [3 / 10]]] := by
  intro t xs hm Ts hT T hmem
  simp only [List.mem_cons, List.mem_nil_iff, or_false, reduceCtorEq, false_or, DEv.flux.injEq] at hm
  simp only [Option.some.injEq] at hT
  subst hT
  simp only [List.mem_cons, List.mem_nil_iff, or_false] at hmem
  rcases hm with ⟨rfl, _⟩ | ⟨rfl, _⟩ <;> rcases hmem with rfl | rfl <;> norm_num

/-- the hypotheses of `diffusion_temps_between`: the slow ramp 1073.05 K → 1073.95 K over 2 h, at 1800 s -/
example : ([] ++ (0:ℚ) :: 2 :: []).Pairwise (· < ·) ∧ (0:ℚ) * 3600 ≤ 1800 ∧ (1800:ℚ) ≤ 2 * 3600 := by
  refine ⟨by decide, by norm_num, by norm_num⟩

end diffrun

/-! ### non-vacuity: the hypotheses are satisfiable -/

example : ([0, 16, 17] : List ℚ).Pairwise (· < ·) := by decide
example : npInterp (33/2 : ℚ) [0, 16, 17] [448, 448, 523] = some (971/2) := by
  have := interp_between (33/2 : ℚ) 16 17 448 523 [0] [448] [] [] rfl rfl (by decide)
    (by norm_num) (by norm_num)
  simpa using this.trans (by norm_num)
example : (0:ℚ) ≤ 1 ∧ |(1/2 : ℚ)| ≤ 1 := by
  constructor
  · norm_num
  · rw [abs_of_pos] <;> norm_num
example : Fresh (1:ℚ) { cur := 723, tabT := [723, 722], eqT := 724, rebuilt := false, dTemp := 0 } := by
  refine ⟨?_, ?_⟩
  · intro t ht
    simp only [List.mem_cons, List.mem_singleton, List.not_mem_nil, or_false] at ht
    rcases ht with rfl | rfl <;> norm_num [abs_le]
  · norm_num [abs_le]

end KawinV.Props.C13
