/-
C14 — nucleation quantities obey classical nucleation theory for every site type.

Theorems about the definitions REGENERATED from the kawin sources (`KawinV.Gen.C14`, file
Gen/C14Nuc.lean, rewritten from /repo by tools/corr/C14.py on every run) and about the hand model
`KawinV.Nuc` (Model/NucSites.lean) of the guards, the cached-factor state machine, the nucleation
sites and the per-phase nucleation step; both are tied to the implementation by tools/corr/C14.py.
`α` is any linearly ordered field with an arbitrary interpretation of the transcendental atoms
(`Trans α`); the theorems marked (ℝ) use Mathlib's real functions.
-/
import KawinV.Model.NucSites
import Mathlib.Tactic.Ring
import Mathlib.Tactic.Linarith
import Mathlib.Tactic.FieldSimp
import Mathlib.Tactic.NormNum
import Mathlib.Tactic.Positivity
import Mathlib.Algebra.Order.Field.Basic
import Mathlib.Analysis.SpecialFunctions.Trigonometric.Inverse
import Mathlib.Analysis.SpecialFunctions.Trigonometric.Arctan
import Mathlib.Analysis.SpecialFunctions.Pow.Real

set_option linter.unusedSectionVars false
set_option linter.unusedVariables false
set_option linter.unusedSimpArgs false
set_option linter.style.longLine false

namespace KawinV.Props.C14
open KawinV KawinV.Gen.C14 KawinV.Nuc

section field
variable {α : Type} [Field α] [LinearOrder α] [IsStrictOrderedRing α] [Trans α]

/-! ### the geometric identity  area − 2k·gbRemoval = 3·volume  (every k, every interpretation of π, √, arcsin, arccos) -/

theorem identity_bulk (k : α) :
    bulk_areaFactor k - 2 * k * bulk_gbRemoval k = 3 * bulk_volumeFactor k := by
  simp only [bulk_areaFactor, bulk_gbRemoval, bulk_volumeFactor, npow]; ring

theorem identity_boundary (k : α) :
    gb_areaFactor k - 2 * k * gb_gbRemoval k = 3 * gb_volumeFactor k := by
  simp only [gb_areaFactor, gb_gbRemoval, gb_volumeFactor, npow]; ring

theorem identity_edge (k : α) :
    edge_areaFactor k - 2 * k * edge_gbRemoval k = 3 * edge_volumeFactor k := by
  simp only [edge_areaFactor, edge_gbRemoval, edge_volumeFactor, npow]; ring

theorem identity_corner (k : α) :
    corner_areaFactor k - 2 * k * corner_gbRemoval k = 3 * corner_volumeFactor k := by
  simp only [corner_areaFactor, corner_gbRemoval, corner_volumeFactor, npow]; ring

/-- the identity for every built-in site type, in terms of the model's factor selector -/
theorem identity_all (s : Site) (k : α) :
    formula s .area k - 2 * k * formula s .rem k = 3 * formula s .vol k := by
  cases s
  · exact identity_bulk k
  · simp only [formula, disl_areaFactor, disl_gbRemoval, disl_volumeFactor, npow]; ring
  · exact identity_boundary k
  · exact identity_edge k
  · exact identity_corner k


/-! ### consequences for the barrier: with γ_gb = 2kγ the critical radius is the sphere's and the barrier
is the spherical barrier times volume/(4π/3) -/

/-- `a·γ − b·γ_gb = 3·c·γ` when `γ_gb = 2kγ` and the factors satisfy the identity -/
theorem capillary_term (a b c γ k : α) (hid : a - 2 * k * b = 3 * c) :
    a * γ - b * (2 * k * γ) = 3 * c * γ := by
  have : a = 3 * c + 2 * k * b := by linarith
  rw [this]; ring

theorem nbp_Rcrit_sphere (a b c γ k dG : α) (hid : a - 2 * k * b = 3 * c) (hc : c ≠ 0) (hdG : dG ≠ 0) :
    nbp_Rcrit a b c γ (2 * k * γ) dG = 2 * γ / dG := by
  simp only [nbp_Rcrit, capillary_term a b c γ k hid]
  field_simp

/-- the same statement against the regenerated bulk formula with thermodynamic factor 1 (sphere) -/
theorem nbp_Rcrit_eq_bulk (a b c γ k dG : α) (hid : a - 2 * k * b = 3 * c) (hc : c ≠ 0) (hdG : dG ≠ 0) :
    nbp_Rcrit a b c γ (2 * k * γ) dG = nb_bulk_Rcrit 1 γ dG := by
  rw [nbp_Rcrit_sphere a b c γ k dG hid hc hdG]; simp only [nb_bulk_Rcrit]; ring

/-- at ANY radius (the code evaluates at the clamped one): `Gcrit(R) = c·R²·(3γ − dG·R)` -/
theorem nbp_Gcrit_form (a b c γ k dG R : α) (hid : a - 2 * k * b = 3 * c) :
    nbp_Gcrit a b c γ (2 * k * γ) dG R = c * (R ^ 2 * (3 * γ - dG * R)) := by
  simp only [nbp_Gcrit, capillary_term a b c γ k hid, npow]; ring

/-- at the critical radius the barrier is (volume factor)/(4π/3) times the spherical barrier -/
theorem nbp_Gcrit_sphere (a b c γ k dG : α) (hid : a - 2 * k * b = 3 * c) (hdG : dG ≠ 0)
    (hpi : (Trans.pi : α) ≠ 0) :
    nbp_Gcrit a b c γ (2 * k * γ) dG (2 * γ / dG)
      = c / (4 * Trans.pi / 3) * nb_bulk_Gcrit γ (2 * γ / dG) := by
  rw [nbp_Gcrit_form a b c γ k dG _ hid]
  simp only [nb_bulk_Gcrit, npow]
  field_simp
  ring

/-- both consequences for every built-in site type, through the regenerated factor formulas -/
theorem site_Rcrit_sphere (s : Site) (k γ dG : α) (hc : formula s .vol k ≠ 0) (hdG : dG ≠ 0) :
    nbp_Rcrit (formula s .area k) (formula s .rem k) (formula s .vol k) γ (2 * k * γ) dG
      = nb_bulk_Rcrit 1 γ dG :=
  nbp_Rcrit_eq_bulk _ _ _ γ k dG (identity_all s k) hc hdG

theorem site_Gcrit_sphere (s : Site) (k γ dG : α) (hdG : dG ≠ 0) (hpi : (Trans.pi : α) ≠ 0) :
    nbp_Gcrit (formula s .area k) (formula s .rem k) (formula s .vol k) γ (2 * k * γ) dG (2 * γ / dG)
      = formula s .vol k / (4 * Trans.pi / 3) * nb_bulk_Gcrit γ (2 * γ / dG) :=
  nbp_Gcrit_sphere _ _ _ γ k dG (identity_all s k) hdG hpi

/-- `gbRatio` is the `k` of the identity: `γ_gb = 2·k·γ` -/
theorem gbRatio_spec (e γ : α) (hγ : γ ≠ 0) : 2 * gbRatio e γ * γ = e := by
  simp only [gbRatio]; field_simp

/-! ### grain-boundary factors on 0 ≤ k ≤ 1 -/

theorem gb_volume_closed (k : α) :
    gb_volumeFactor k = 2 * Trans.pi / 3 * ((1 - k) ^ 2 * (2 + k)) := by
  simp only [gb_volumeFactor, npow]; ring

theorem gb_factors_nonneg (k : α) (hpi : 0 < (Trans.pi : α)) (h0 : 0 ≤ k) (h1 : k ≤ 1) :
    0 ≤ gb_gbRemoval k ∧ 0 ≤ gb_areaFactor k ∧ 0 ≤ gb_volumeFactor k := by
  refine ⟨?_, ?_, ?_⟩
  · simp only [gb_gbRemoval, npow]
    exact mul_nonneg hpi.le (by nlinarith)
  · simp only [gb_areaFactor]
    exact mul_nonneg (by positivity) (by linarith)
  · rw [gb_volume_closed]
    exact mul_nonneg (by positivity) (mul_nonneg (sq_nonneg _) (by linarith))

theorem gb_volume_pos (k : α) (hpi : 0 < (Trans.pi : α)) (h0 : 0 ≤ k) (h1 : k < 1) :
    0 < gb_volumeFactor k := by
  rw [gb_volume_closed]
  exact mul_pos (by positivity) (mul_pos (pow_pos (by linarith) 2) (by linarith))

/-- the volume factor strictly decreases with k on [0,1] -/
theorem gb_volume_strictAnti (k₁ k₂ : α) (hpi : 0 < (Trans.pi : α)) (h0 : 0 ≤ k₁) (h12 : k₁ < k₂)
    (h1 : k₂ ≤ 1) : gb_volumeFactor k₂ < gb_volumeFactor k₁ := by
  simp only [gb_volumeFactor, npow]
  have hc : 0 < 2 * (Trans.pi : α) / 3 := by positivity
  apply mul_lt_mul_of_pos_left _ hc
  have : k₁ * k₁ + k₁ * k₂ + k₂ * k₂ < 3 := by nlinarith
  nlinarith

/-- sphere values at k = 0 (the two halves of a sphere cut by the boundary plane) -/
theorem gb_sphere_values :
    gb_areaFactor (0 : α) = bulk_areaFactor 0 ∧ gb_volumeFactor (0 : α) = bulk_volumeFactor 0
    ∧ gb_areaFactor (0 : α) = 4 * Trans.pi ∧ gb_volumeFactor (0 : α) = 4 * Trans.pi / 3
    ∧ gb_gbRemoval (0 : α) = Trans.pi := by
  simp only [gb_areaFactor, gb_volumeFactor, bulk_areaFactor, bulk_volumeFactor, gb_gbRemoval, npow]
  refine ⟨by ring, by ring, by ring, by ring, by ring⟩

/-! ### nucleationBarrier -/

theorem maxS_ge_right (a b : α) : b ≤ maxS a b := by
  unfold maxS; split
  · exact le_refl _
  · exact not_lt.mp ‹_›

theorem maxS_ge_left (a b : α) : a ≤ maxS a b := by
  unfold maxS; split
  · exact le_of_lt ‹_›
  · exact le_refl _

theorem maxS_eq_max (a b : α) : maxS a b = max a b := by
  unfold maxS; split
  · exact (max_eq_right (le_of_lt ‹_›)).symm
  · exact (max_eq_left (not_lt.mp ‹_›)).symm

/-- positive driving force: the critical radius is at least the minimum radius -/
theorem barrier_Rcrit_ge_Rmin (gbn : Bool) (f γ a b c e Rmin dG : α) (h : 0 < dG) :
    Rmin ≤ (barrier gbn f γ a b c e Rmin dG).1 := by
  simp only [barrier, h, if_true]
  exact maxS_ge_right _ _

/-- non-positive driving force: no critical radius and no barrier -/
theorem barrier_nonpos (gbn : Bool) (f γ a b c e Rmin dG : α) (h : dG ≤ 0) :
    barrier gbn f γ a b c e Rmin dG = (0, 0) := by
  simp only [barrier, not_lt.mpr h, if_false]

/-- bulk / dislocation sites: the barrier is non-negative for every positive driving force … -/
theorem barrier_bulk_Gcrit_nonneg (f γ a b c e Rmin dG : α) (hpi : 0 < (Trans.pi : α)) (hγ : 0 ≤ γ) :
    0 ≤ (barrier false f γ a b c e Rmin dG).2 := by
  unfold barrier
  split
  · simp only [Bool.false_eq_true, if_false, nb_bulk_Gcrit, npow]
    have : 0 ≤ maxS (nb_bulk_Rcrit f γ dG) Rmin * maxS (nb_bulk_Rcrit f γ dG) Rmin := mul_self_nonneg _
    positivity
  · exact le_refl _

/-- … and strictly positive for valid parameters (so the `Gcrit != 0` guard of `nucleationRate` is inactive) -/
theorem barrier_bulk_Gcrit_pos (f γ a b c e Rmin dG : α) (hpi : 0 < (Trans.pi : α)) (hγ : 0 < γ)
    (hR : 0 < Rmin) (h : 0 < dG) : 0 < (barrier false f γ a b c e Rmin dG).2 := by
  simp only [barrier, h, if_true, Bool.false_eq_true, if_false, nb_bulk_Gcrit, npow]
  have : 0 < maxS (nb_bulk_Rcrit f γ dG) Rmin := lt_of_lt_of_le hR (maxS_ge_right _ _)
  positivity

/-- grain-boundary site types, `γ_gb = 2kγ`, factors satisfying the identity: the barrier is
non-negative AS LONG AS `dG·Rmin ≤ 3γ` (see `barrier_gb_Gcrit_negative_witness`) -/
theorem barrier_gb_Gcrit_nonneg_partial (f γ a b c k Rmin dG : α) (hid : a - 2 * k * b = 3 * c)
    (hc : 0 < c) (hγ : 0 ≤ γ) (h : 0 < dG) (hlim : dG * Rmin ≤ 3 * γ) :
    0 ≤ (barrier true f γ a b c (2 * k * γ) Rmin dG).2 := by
  simp only [barrier, h, if_true]
  rw [nbp_Gcrit_form a b c γ k dG _ hid, nbp_Rcrit_sphere a b c γ k dG hid hc.ne' h.ne', maxS_eq_max]
  apply mul_nonneg hc.le (mul_nonneg (sq_nonneg _) _)
  have : dG * max (2 * γ / dG) Rmin ≤ 3 * γ := by
    rcases le_total (2 * γ / dG) Rmin with h1 | h1
    · rw [max_eq_right h1]; exact hlim
    · rw [max_eq_left h1]
      have : dG * (2 * γ / dG) = 2 * γ := by field_simp
      rw [this]; linarith
  linarith

/-- the barrier as a function of driving force never increases (bulk / dislocations) -/
theorem barrier_bulk_Gcrit_antitone (f γ a b c e Rmin dG₁ dG₂ : α) (hpi : 0 < (Trans.pi : α))
    (hγ : 0 ≤ γ) (hf : 0 ≤ f) (hR : 0 ≤ Rmin) (h1 : 0 < dG₁) (h12 : dG₁ ≤ dG₂) :
    (barrier false f γ a b c e Rmin dG₂).2 ≤ (barrier false f γ a b c e Rmin dG₁).2 := by
  have h2 : 0 < dG₂ := lt_of_lt_of_le h1 h12
  simp only [barrier, h1, h2, if_true, Bool.false_eq_true, if_false, nb_bulk_Gcrit, nb_bulk_Rcrit, npow,
    maxS_eq_max]
  have hp : 2 * f * γ / dG₂ ≤ 2 * f * γ / dG₁ :=
    div_le_div_of_nonneg_left (by positivity) h1 h12
  have hm : max (2 * f * γ / dG₂) Rmin ≤ max (2 * f * γ / dG₁) Rmin := max_le_max hp (le_refl _)
  have h0 : 0 ≤ max (2 * f * γ / dG₂) Rmin := le_max_of_le_right hR
  have hsq : max (2 * f * γ / dG₂) Rmin * max (2 * f * γ / dG₂) Rmin
      ≤ max (2 * f * γ / dG₁) Rmin * max (2 * f * γ / dG₁) Rmin := mul_self_le_mul_self h0 hm
  have hc : 0 ≤ 4 * (Trans.pi : α) / 3 * γ := by positivity
  exact mul_le_mul_of_nonneg_left hsq hc

/-- the same for grain-boundary site types (no restriction on `dG·Rmin` needed) -/
theorem barrier_gb_Gcrit_antitone (f γ a b c k Rmin dG₁ dG₂ : α) (hid : a - 2 * k * b = 3 * c)
    (hc : 0 < c) (hγ : 0 ≤ γ) (hR : 0 ≤ Rmin) (h1 : 0 < dG₁) (h12 : dG₁ ≤ dG₂) :
    (barrier true f γ a b c (2 * k * γ) Rmin dG₂).2 ≤ (barrier true f γ a b c (2 * k * γ) Rmin dG₁).2 := by
  have h2 : 0 < dG₂ := lt_of_lt_of_le h1 h12
  simp only [barrier, h1, h2, if_true]
  rw [nbp_Gcrit_form a b c γ k _ _ hid, nbp_Gcrit_form a b c γ k _ _ hid,
    nbp_Rcrit_sphere a b c γ k _ hid hc.ne' h1.ne', nbp_Rcrit_sphere a b c γ k _ hid hc.ne' h2.ne',
    maxS_eq_max, maxS_eq_max]
  apply mul_le_mul_of_nonneg_left _ hc.le
  have hp : 2 * γ / dG₂ ≤ 2 * γ / dG₁ := div_le_div_of_nonneg_left (by positivity) h1 h12
  have hp1 : dG₁ * (2 * γ / dG₁) = 2 * γ := by field_simp
  have hp2 : dG₂ * (2 * γ / dG₂) = 2 * γ := by field_simp
  have hp2' : 0 ≤ 2 * γ / dG₂ := by positivity
  rcases le_total Rmin (2 * γ / dG₁) with hA | hB
  · -- dG₁ unclamped: G₁ = γ p₁²
    rw [max_eq_left hA]
    set p₁ := 2 * γ / dG₁ with hp₁
    set R₂ := max (2 * γ / dG₂) Rmin with hR₂
    have hR2le : R₂ ≤ p₁ := max_le hp hA
    have hR2ge : 2 * γ / dG₂ ≤ R₂ := le_max_left _ _
    have hR2nn : 0 ≤ R₂ := le_trans hp2' hR2ge
    have hx : 2 * γ ≤ dG₂ * R₂ := by
      calc 2 * γ = dG₂ * (2 * γ / dG₂) := hp2.symm
        _ ≤ dG₂ * R₂ := mul_le_mul_of_nonneg_left hR2ge h2.le
    have hsq : R₂ ^ 2 ≤ p₁ ^ 2 := pow_le_pow_left₀ hR2nn hR2le 2
    have e1 : p₁ ^ 2 * (3 * γ - dG₁ * p₁) = p₁ ^ 2 * γ := by rw [hp1]; ring
    rw [e1]
    by_cases hs : 0 ≤ 3 * γ - dG₂ * R₂
    · calc R₂ ^ 2 * (3 * γ - dG₂ * R₂) ≤ R₂ ^ 2 * γ :=
            mul_le_mul_of_nonneg_left (by linarith) (sq_nonneg _)
        _ ≤ p₁ ^ 2 * γ := mul_le_mul_of_nonneg_right hsq hγ
    · have : R₂ ^ 2 * (3 * γ - dG₂ * R₂) ≤ 0 :=
        mul_nonpos_of_nonneg_of_nonpos (sq_nonneg _) (le_of_lt (not_le.mp hs))
      exact le_trans this (mul_nonneg (sq_nonneg _) hγ)
  · -- dG₁ clamped, hence dG₂ clamped too
    rw [max_eq_right hB, max_eq_right (le_trans hp hB)]
    have : Rmin ^ 2 * (3 * γ - dG₁ * Rmin) - Rmin ^ 2 * (3 * γ - dG₂ * Rmin) = Rmin ^ 3 * (dG₂ - dG₁) := by ring
    have h3 : 0 ≤ Rmin ^ 3 * (dG₂ - dG₁) := mul_nonneg (pow_nonneg hR 3) (by linarith)
    linarith

/-! ### Zeldovich, β, τ — finite (non-zero denominators) and of the right sign, algebraic part -/

theorem zeldovichW_zero (kB NA c Vm γ T : α) : zeldovichW kB NA c Vm γ T 0 = 0 := by
  simp [zeldovichW]

theorem beta_zero (a a0 x xa xb D0 D1 imp : α) :
    beta1W a a0 x D1 0 = 0 ∧ beta2W a a0 xa xb D0 D1 0 = 0 ∧ betaMW a a0 imp 0 = 0 := by
  simp [beta1W, beta2W, betaMW]

theorem beta1_pos (a a0 x D1 R : α) (ha : 0 < a) (ha0 : a0 ≠ 0) (hx : 0 < x) (hD : 0 < D1) (hR : R ≠ 0) :
    0 < beta1W a a0 x D1 R ∧ npow a0 4 ≠ 0 := by
  have hnz : nz R := lt_or_gt_of_ne hR
  have h4 : 0 < a0 ^ 4 := by positivity
  have h2 : 0 < R ^ 2 := by positivity
  refine ⟨?_, ?_⟩
  · simp only [beta1W, hnz, if_true, betaBinary1, npow]
    have e : a * (R * R) * x * D1 / (a0 * a0 * a0 * a0) = a * R ^ 2 * x * D1 / a0 ^ 4 := by ring
    rw [e]; positivity
  · simp only [npow]; have : a0 * a0 * a0 * a0 = a0 ^ 4 := by ring
    rw [this]; exact h4.ne'

theorem beta1_nonneg (a a0 x D1 R : α) (ha : 0 ≤ a) (hx : 0 ≤ x) (hD : 0 ≤ D1) :
    0 ≤ beta1W a a0 x D1 R := by
  unfold beta1W; split
  · simp only [betaBinary1, npow]
    have e : a * (R * R) * x * D1 / (a0 * a0 * a0 * a0) = a * R ^ 2 * x * D1 / a0 ^ 4 := by ring
    rw [e]
    have : 0 ≤ a0 ^ 4 := by positivity
    positivity
  · exact le_refl _

/-- `betaBinary2`: the diffusion term `(xβ−xα)²/(xα·D₁) + (xβ−xα)²/((1−xα)·D₀)` is positive, so `1/Dfactor` is finite -/
theorem beta2_pos (a a0 xa xb D0 D1 R : α) (ha : 0 < a) (ha0 : a0 ≠ 0) (hxa : 0 < xa) (hxa1 : xa < 1)
    (hne : xb ≠ xa) (hD0 : 0 < D0) (hD1 : 0 < D1) (hR : R ≠ 0) :
    0 < beta2W a a0 xa xb D0 D1 R
    ∧ 0 < npow (xb - xa) 2 / (xa * D1) + npow (xb - xa) 2 / ((1 - xa) * D0) := by
  have hnz : nz R := lt_or_gt_of_ne hR
  have h4 : 0 < a0 ^ 4 := by positivity
  have h2 : 0 < R ^ 2 := by positivity
  have hd : 0 < (xb - xa) ^ 2 := by have : xb - xa ≠ 0 := sub_ne_zero.mpr hne; positivity
  have h1x : 0 < 1 - xa := by linarith
  have hD : 0 < (xb - xa) ^ 2 / (xa * D1) + (xb - xa) ^ 2 / ((1 - xa) * D0) := by positivity
  have e2 : npow (xb - xa) 2 = (xb - xa) ^ 2 := by simp only [npow]; ring
  refine ⟨?_, by rw [e2]; exact hD⟩
  simp only [beta2W, hnz, if_true, betaBinary2]
  rw [e2]
  have e : npow R 2 = R ^ 2 := by simp only [npow]; ring
  have e4 : npow a0 4 = a0 ^ 4 := by simp only [npow]; ring
  rw [e, e4]; positivity

theorem betaM_nonneg (a a0 imp R : α) (ha : 0 ≤ a) (hi : 0 ≤ imp) : 0 ≤ betaMW a a0 imp R := by
  unfold betaMW; split
  · simp only [betaMulti, npow]
    have e : imp * (a * (R * R) / (a0 * a0 * a0 * a0)) = imp * (a * R ^ 2 / a0 ^ 4) := by ring
    rw [e]
    have : 0 ≤ a0 ^ 4 := by positivity
    positivity
  · exact le_refl _

/-- incubation time: positive and finite (`θ·β·Z² ≠ 0`) under the code's guard `Z ≠ 0` and `β > 0`
(`_calcNucleationRate` skips `β = 0`) -/
theorem incubation_pos (θ β Z : α) (hθ : 0 < θ) (hβ : 0 < β) (hZ : Z ≠ 0) :
    0 < incubationW θ β Z ∧ θ * β * npow Z 2 ≠ 0 := by
  have hnz : nz Z := lt_or_gt_of_ne hZ
  have e : npow Z 2 = Z ^ 2 := by simp only [npow]; ring
  have h2 : 0 < Z ^ 2 := by positivity
  refine ⟨?_, by rw [e]; positivity⟩
  simp only [incubationW, hnz, if_true, incubationTime]
  rw [e]; positivity

theorem incubation_nonneg (θ β Z : α) (hθ : 0 ≤ θ) (hβ : 0 ≤ β) : 0 ≤ incubationW θ β Z := by
  unfold incubationW; split
  · simp only [incubationTime, npow]
    have : 0 ≤ Z * Z := mul_self_nonneg Z
    positivity
  · exact le_refl _

/-- `Z·β` does not depend on the critical radius (`Z ∝ 1/R²`, `β ∝ R²`), whatever √ and π are -/
theorem Zbeta_independent_of_R (kB NA c Vm γ T B R R' : α) (hR : R ≠ 0) (hR' : R' ≠ 0)
    (hNA : NA ≠ 0) (hpi : (Trans.pi : α) ≠ 0) :
    zeldovichW kB NA c Vm γ T R * (B * R ^ 2) = zeldovichW kB NA c Vm γ T R' * (B * R' ^ 2) := by
  have h1 : nz R := lt_or_gt_of_ne hR
  have h2 : nz R' := lt_or_gt_of_ne hR'
  simp only [zeldovichW, h1, h2, if_true, zeldovich, npow]
  field_simp

/-- the three impingement functions are of the form `B·R²` for `R ≠ 0` -/
theorem beta_forms (a a0 x xa xb D0 D1 imp R : α) (hR : R ≠ 0) :
    beta1W a a0 x D1 R = (a * x * D1 / npow a0 4) * R ^ 2
    ∧ beta2W a a0 xa xb D0 D1 R
        = (a * (1 / (npow (xb - xa) 2 / (xa * D1) + npow (xb - xa) 2 / ((1 - xa) * D0))) / npow a0 4) * R ^ 2
    ∧ betaMW a a0 imp R = (imp * a / npow a0 4) * R ^ 2 := by
  have h1 : nz R := lt_or_gt_of_ne hR
  simp only [beta1W, beta2W, betaMW, h1, if_true, betaBinary1, betaBinary2, betaMulti]
  refine ⟨?_, ?_, ?_⟩ <;> simp only [npow] <;> ring

/-- `nucleationRate` is zero when the barrier is zero (which is what `nucleationBarrier` returns for dG ≤ 0) -/
theorem rate_zero_of_G_zero (kB Z β T τ t : α) :
    nucRateW kB Z β 0 T τ t = 0 ∧ steadyRateW kB Z β 0 T = 0 := by
  simp [nucRateW, steadyRateW]

/-- the rate is zero for non-positive driving force: chain barrier → rate -/
theorem rate_zero_of_dG_nonpos (gbn : Bool) (f γ a b c e Rmin dG kB Z β T τ t : α) (h : dG ≤ 0) :
    nucRateW kB Z β (barrier gbn f γ a b c e Rmin dG).2 T τ t = 0
    ∧ steadyRateW kB Z β (barrier gbn f γ a b c e Rmin dG).2 T = 0 := by
  rw [barrier_nonpos gbn f γ a b c e Rmin dG h]
  exact rate_zero_of_G_zero kB Z β T τ t


/-! ### nucleation sites -/

theorem knpow_eq_pow (x : α) : ∀ k : Nat, npow x k = x ^ k
  | 0 => by simp [npow]
  | 1 => by simp [npow]
  | k + 2 => by
    have e : npow x (k + 2) = npow x (k + 1) * x := rfl
    rw [e, knpow_eq_pow x (k + 1), pow_succ x (k + 1)]

theorem sitesFrom_nonneg (parent n0 occ scale : α) : 0 ≤ sitesFrom parent n0 occ scale :=
  maxS_ge_right _ _

/-- the number of available sites is never negative -/
theorem calcSites_nonneg (cfg : SiteCfg α) (phases : List (PhasePop α)) (parents : List Nat) (s : Site) :
    0 ≤ calcSites cfg phases parents s := by
  unfold calcSites
  split_ifs <;> exact sitesFrom_nonneg _ _ _ _

theorem sitesFrom_antitone (parent n0 occ occ' scale : α) (h : occ ≤ occ') (hs : 0 ≤ scale) :
    sitesFrom parent n0 occ' scale ≤ sitesFrom parent n0 occ scale := by
  simp only [sitesFrom, maxS_eq_max]
  apply max_le_max _ (le_refl _)
  have := mul_le_mul_of_nonneg_right h hs
  linarith

/-- same size classes (radii), at least as many particles in each -/
def BinsLE (b b' : List (α × α)) : Prop := List.Forall₂ (fun x y => x.2 = y.2 ∧ 0 ≤ x.2 ∧ x.1 ≤ y.1) b b'

/-- same phase description, populations dominated class by class -/
def PhaseLE (p p' : PhasePop α) : Prop :=
  p.site = p'.site ∧ p.gbRemoval = p'.gbRemoval ∧ p.gbk = p'.gbk ∧ p.vmBeta = p'.vmBeta ∧ BinsLE p.bins p'.bins

theorem moment_mono (j : Nat) (b b' : List (α × α)) (h : BinsLE b b') : moment j b ≤ moment j b' := by
  unfold moment
  induction h with
  | nil => exact le_refl _
  | @cons x y xs ys hxy _ ih =>
    obtain ⟨h2, h0, h1⟩ := hxy
    simp only [List.map_cons, sumL]
    rw [h2] at h0 ⊢
    have : 0 ≤ npow y.2 j := by rw [knpow_eq_pow]; exact pow_nonneg h0 j
    exact add_le_add (mul_le_mul_of_nonneg_right h1 this) ih

theorem occupied_mono (pred : Site → Bool) (w : PhasePop α → α) (phases phases' : List (PhasePop α))
    (h : List.Forall₂ PhaseLE phases phases') (hw : ∀ p p', PhaseLE p p' → w p ≤ w p') :
    occupied pred w phases ≤ occupied pred w phases' := by
  unfold occupied
  induction h with
  | nil => exact le_refl _
  | @cons x y xs ys hxy _ ih =>
    have hs : x.site = y.site := hxy.1
    simp only [List.filter_cons, hs]
    split
    · simp only [List.map_cons, sumL]; exact add_le_add (hw _ _ hxy) ih
    · exact ih

/-- **occupied sites are lost**: without parent phases, larger populations of the phases of the same
site kind leave at most as many available sites.  (Weights: grain-boundary removal factor ≥ 0 for the
boundary phases; `√`, and the `(N_A/Vm)^(1/3)`, `^(2/3)` factors non-negative.) -/
theorem calcSites_antitone (cfg : SiteCfg α) (phases phases' : List (PhasePop α)) (s : Site)
    (h : List.Forall₂ PhaseLE phases phases')
    (hgb : ∀ p ∈ phases, 0 ≤ p.gbRemoval) (hsqrt : ∀ x : α, 0 ≤ Trans.sqrt x)
    (h13 : 0 ≤ Trans.pow (cfg.NA / cfg.vmAlpha) ((1 : α) / 3)) (h23 : 0 ≤ Trans.pow (cfg.NA / cfg.vmAlpha) ((2 : α) / 3)) :
    calcSites cfg phases' [] s ≤ calcSites cfg phases [] s := by
  have hgb' : ∀ p p', PhaseLE p p' → p ∈ phases → 0 ≤ p.gbRemoval := fun p _ _ hp => hgb p hp
  unfold calcSites
  have hpar : parentSites cfg.NA phases' [] = parentSites cfg.NA phases [] := by simp [parentSites]
  rw [hpar]
  split_ifs
  · exact sitesFrom_antitone _ _ _ _ _
      (occupied_mono _ _ _ _ h fun p p' hp => moment_mono 0 _ _ hp.2.2.2.2) zero_le_one
  · exact sitesFrom_antitone _ _ _ _ _
      (occupied_mono _ _ _ _ h fun p p' hp => moment_mono 1 _ _ hp.2.2.2.2) h13
  · refine sitesFrom_antitone _ _ _ _ _ ?_ h23
    -- weights: need 0 ≤ gbRemoval for the phases in the list; carry membership through the induction
    unfold occupied
    clear hpar
    induction h with
    | nil => exact le_refl _
    | @cons x y xs ys hxy _ ih =>
      have hs : x.site = y.site := hxy.1
      have ihh := ih (fun p hp => hgb p (List.mem_cons_of_mem _ hp)) (fun p p' hpp hp => hgb p (List.mem_cons_of_mem _ hp))
      simp only [List.filter_cons, hs]
      split
      · simp only [List.map_cons, sumL]
        refine add_le_add ?_ ihh
        rw [← hxy.2.1]
        exact mul_le_mul_of_nonneg_left (moment_mono 2 _ _ hxy.2.2.2.2) (hgb x (List.mem_cons_self ..))
      · exact ihh
  · refine sitesFrom_antitone _ _ _ _ _ ?_ h13
    exact occupied_mono _ _ _ _ h fun p p' hp => by
      rw [← hp.2.2.1]
      exact mul_le_mul_of_nonneg_left (moment_mono 1 _ _ hp.2.2.2.2) (hsqrt _)
  · exact sitesFrom_antitone _ _ _ _ _
      (occupied_mono _ _ _ _ h fun p p' hp => moment_mono 0 _ _ hp.2.2.2.2) zero_le_one

/-- observation (not part of the statement): dislocation sites take the `BulkDescription` branch, because
`DislocationDescription` subclasses `BulkDescription` and that test comes first; the dislocation density never
enters the number of available sites -/
theorem calcSites_dislocation_uses_bulk_branch (cfg : SiteCfg α) (phases : List (PhasePop α)) (parents : List Nat) :
    calcSites cfg phases parents .disl = calcSites cfg phases parents .bulk := by
  simp [calcSites, Site.isBulkInst]


/-! ### cached factors follow every assignment -/

/-- which assignment MUST clear which cache slot: all of them, except that the energy ratio `GBk` does not
depend on the description -/
def needs : Setter → Cache → Bool
  | .description, .gbk => false
  | _, _ => true

/-- the invalidation table probed on the real class (regenerated on every run) clears everything it must -/
theorem table_complete : ∀ s c, needs s c = true → clears s c = true := by
  intro s c; cases s <;> cases c <;> simp [needs, clears]

/-- the fresh value of a slot: what the getter computes on the same parameters with empty caches -/
def fresh (p : NBP α) (c : Cache) : Except Err α := (p.clearAll.get c).1

/-- every cached value is the fresh one -/
def CacheOK (p : NBP α) : Prop := ∀ c v, p.cache c = some v → fresh p c = .ok v

/-- validation + description call, given the ratio -/
def factorFrom (s : Site) (c : Cache) (k : α) : Except Err α :=
  if tooLarge s k then .error .ratio
  else .ok (descValue s c k)

/-- after the repair of the `k == maxRatio` case the validation and the mask of the description are
complementary: a factor getter that does not raise returns the FORMULA, never the −1 sentinel -/
theorem factorFrom_ok (s : Site) (c : Cache) (k v : α) (h : factorFrom s c k = .ok v) : v = formula s c k := by
  unfold factorFrom at h
  cases ht : tooLarge s k
  · simp only [ht, Bool.false_eq_true, if_false, Except.ok.injEq] at h
    have hb : belowMax s k = true := by
      unfold tooLarge at ht; unfold belowMax
      cases hm : maxRatio (α := α) s with
      | none => rfl
      | some m => simp only [hm, decide_eq_false_iff_not, not_not] at ht; simp [ht]
    simp only [descValue, hb, if_true] at h
    exact h.symm
  · simp [ht] at h

theorem fresh_gbk (p : NBP α) : fresh p .gbk = p.computeGBk := by
  have e : p.clearAll.computeGBk = p.computeGBk := rfl
  simp only [fresh, NBP.get, NBP.getGBk, NBP.clearAll]
  show (match p.clearAll.computeGBk with
    | .ok v => ((Except.ok v : Except Err α), p.clearAll.store .gbk v)
    | .error e => (.error e, p.clearAll)).1 = _
  rw [e]
  cases p.computeGBk <;> rfl

theorem getGBk_fst (p : NBP α) (h : CacheOK p) : p.getGBk.1 = p.computeGBk := by
  unfold NBP.getGBk
  cases hc : p.cache .gbk with
  | some v => simp only; rw [← fresh_gbk]; exact (h _ _ hc).symm
  | none => simp only; cases p.computeGBk <;> rfl

theorem store_clearAll (p : NBP α) (c : Cache) (v : α) : (p.store c v).clearAll = p.clearAll := rfl

theorem fresh_store (p : NBP α) (c c' : Cache) (v : α) : fresh (p.store c v) c' = fresh p c' := rfl

theorem inv_store (p : NBP α) (c : Cache) (v : α) (h : CacheOK p) (hv : fresh p c = .ok v) : CacheOK (p.store c v) := by
  intro c' v' hc
  rw [fresh_store]
  simp only [NBP.store] at hc
  split at hc
  · next heq => cases hc; rw [heq]; exact hv
  · exact h _ _ hc

theorem getGBk_inv (p : NBP α) (h : CacheOK p) : CacheOK p.getGBk.2 := by
  unfold NBP.getGBk
  cases hc : p.cache .gbk with
  | some v => exact h
  | none =>
    simp only
    cases hk : p.computeGBk with
    | ok v => exact inv_store p .gbk v h (by rw [fresh_gbk]; exact hk)
    | error e => exact h

theorem getGBk_params (p : NBP α) : p.getGBk.2.site = p.site ∧ p.getGBk.2.gamma = p.gamma ∧ p.getGBk.2.gbE = p.gbE := by
  unfold NBP.getGBk
  cases p.cache .gbk with
  | some v => exact ⟨rfl, rfl, rfl⟩
  | none => simp only; cases p.computeGBk <;> exact ⟨rfl, rfl, rfl⟩

/-- what a factor getter computes when its slot is empty -/
theorem get_uncached (p : NBP α) (c : Cache) (hc : c ≠ .gbk) (hn : p.cache c = none) :
    p.get c = (match p.getGBk with
      | (.error e, p1) => (.error e, p1)
      | (.ok k, p1) =>
        if tooLarge p.site k then (.error .ratio, p1)
        else (.ok (descValue p.site c k), p1.store c (descValue p.site c k))) := by
  cases c <;> first | exact absurd rfl hc | (simp only [NBP.get, hn]; done) | (simp only [NBP.get, hn]; rfl)

theorem fresh_factor (p : NBP α) (c : Cache) (hc : c ≠ .gbk) :
    fresh p c = p.computeGBk.bind (factorFrom p.site c) := by
  unfold fresh
  rw [get_uncached p.clearAll c hc rfl]
  have hg : p.clearAll.getGBk = (match p.computeGBk with
      | .ok v => ((Except.ok v : Except Err α), p.clearAll.store .gbk v)
      | .error e => (.error e, p.clearAll)) := rfl
  rw [hg]
  cases p.computeGBk with
  | error e => rfl
  | ok k =>
    simp only [Except.bind, factorFrom, show p.clearAll.site = p.site from rfl]
    cases tooLarge p.site k <;> rfl

/-- **a getter returns the fresh value**, whatever is cached, as long as the invariant holds -/
theorem get_fst (p : NBP α) (c : Cache) (h : CacheOK p) : (p.get c).1 = fresh p c := by
  by_cases hc : c = .gbk
  · subst hc
    show p.getGBk.1 = _
    rw [getGBk_fst p h, fresh_gbk]
  · cases hcache : p.cache c with
    | some v =>
      have : p.get c = (.ok v, p) := by
        cases c <;> first | exact absurd rfl hc | simp only [NBP.get, hcache]
      rw [this]; exact (h _ _ hcache).symm
    | none =>
      rw [get_uncached p c hc hcache, fresh_factor p c hc]
      have h1 := getGBk_fst p h
      revert h1
      generalize p.getGBk = r
      obtain ⟨r1, p1⟩ := r
      intro h1
      simp only at h1
      subst h1
      cases p.computeGBk with
      | error e => rfl
      | ok k =>
        simp only [Except.bind, factorFrom]
        cases tooLarge p.site k <;> rfl

theorem get_inv (p : NBP α) (c : Cache) (h : CacheOK p) : CacheOK (p.get c).2 := by
  by_cases hc : c = .gbk
  · subst hc; exact getGBk_inv p h
  · cases hcache : p.cache c with
    | some v =>
      have : p.get c = (.ok v, p) := by
        cases c <;> first | exact absurd rfl hc | simp only [NBP.get, hcache]
      rw [this]; exact h
    | none =>
      have hfst := get_fst p c h
      rw [get_uncached p c hc hcache] at hfst ⊢
      have hi := getGBk_inv p h
      have hp := getGBk_params p
      revert hfst hi hp
      generalize p.getGBk = r
      obtain ⟨r1, p1⟩ := r
      intro hfst hi hp
      cases r1 with
      | error e => exact hi
      | ok k =>
        simp only at hfst ⊢
        cases hsm : tooLarge p.site k
        · simp only [hsm, Bool.false_eq_true, if_false] at hfst ⊢
          apply inv_store _ _ _ hi
          have : fresh p1 c = fresh p c := by
            unfold fresh NBP.clearAll
            obtain ⟨h1, h2, h3⟩ := hp
            simp only at h1 h2 h3
            rw [h1, h2, h3]
          rw [this]; exact hfst.symm
        · simp only [if_true]; exact hi

theorem inv_init (s : Site) (g e : Option α) : CacheOK (NBP.init s g e) := by
  intro c v hc; simp [NBP.init] at hc

theorem fresh_gbk_site (p : NBP α) (s : Site) : fresh ({ p with site := s } : NBP α) .gbk = fresh p .gbk := by
  rw [fresh_gbk, fresh_gbk]; rfl

theorem set_inv (p : NBP α) (op : Op α) (h : CacheOK p) : CacheOK (p.set op) := by
  have key : ∀ (st : Setter) (q : NBP α),
      (∀ c, needs st c = false → ∀ v, p.cache c = some v → fresh q c = .ok v) →
      q.cache = p.cache → CacheOK (q.invalidate st) := by
    intro st q hq hcache c v hc
    simp only [NBP.invalidate] at hc
    split at hc
    · cases hc
    · next hcl =>
      have hn : needs st c = false := by
        cases hnd : needs st c with
        | false => rfl
        | true => exact absurd (table_complete st c hnd) hcl
      have : fresh (q.invalidate st) c = fresh q c := rfl
      rw [this]
      rw [hcache] at hc
      exact hq c hn v hc
  cases op with
  | setGamma v => exact key .gamma _ (by intro c hn; cases c <;> simp [needs] at hn) rfl
  | setGbE v => exact key .gbEnergy _ (by intro c hn; cases c <;> simp [needs] at hn) rfl
  | setSite s =>
    refine key .description _ ?_ rfl
    intro c hn v hc
    cases c <;> simp [needs] at hn
    rw [fresh_gbk_site]; exact h _ _ hc
  | get c => exact h

theorem exec_inv (ops : List (Op α)) : ∀ p : NBP α, CacheOK p → CacheOK (p.exec ops) := by
  induction ops with
  | nil => intro p h; exact h
  | cons op ops ih =>
    intro p h
    cases op with
    | get c =>
      have : p.exec (.get c :: ops) = (p.get c).2.exec ops := by
        simp only [NBP.exec, NBP.run]
      rw [this]; exact ih _ (get_inv p c h)
    | setGamma v => exact ih _ (set_inv p (.setGamma v) h)
    | setGbE v => exact ih _ (set_inv p (.setGbE v) h)
    | setSite s => exact ih _ (set_inv p (.setSite s) h)

/-- **cached factors = fresh computation after ANY sequence of `gamma`, `gbEnergy`, `description`
assignments and reads**, starting from the constructor -/
theorem cached_equals_fresh (s : Site) (g e : Option α) (ops : List (Op α)) (c : Cache) :
    (((NBP.init s g e).exec ops).get c).1 = fresh ((NBP.init s g e).exec ops) c :=
  get_fst _ c (exec_inv ops _ (inv_init s g e))

/-- a factor getter that returns a value returns the regenerated FORMULA of the current site at the
current energy ratio (in particular, with the factor theorems above: the identity holds for what the
getters hand out) -/
theorem getter_returns_formula (s : Site) (g e : Option α) (ops : List (Op α)) (c : Cache) (v : α)
    (hc : c ≠ .gbk) (h : (((NBP.init s g e).exec ops).get c).1 = .ok v) :
    ∃ k, ((NBP.init s g e).exec ops).computeGBk = .ok k
      ∧ v = formula ((NBP.init s g e).exec ops).site c k := by
  rw [cached_equals_fresh, fresh_factor _ c hc] at h
  cases hk : ((NBP.init s g e).exec ops).computeGBk with
  | error err => rw [hk] at h; simp [Except.bind] at h
  | ok k =>
    rw [hk] at h
    exact ⟨k, rfl, factorFrom_ok _ c k v h⟩

/-- the fresh value only depends on the current description, interfacial energy and boundary energy -/
theorem fresh_depends_on_params (p q : NBP α) (c : Cache) (h1 : p.site = q.site) (h2 : p.gamma = q.gamma)
    (h3 : p.gbE = q.gbE) : fresh p c = fresh q c := by
  unfold fresh NBP.clearAll; rw [h1, h2, h3]


/-! ### one phase of `_calcNucleationRate` on the copied slice (D-C14-stale) -/

/-- **the rate is zero for non-positive driving force, in a run**: after the repair every entry of the
slice (critical radius, barrier, impingement, nucleation rate, nucleation radius) is zero, whatever the
previous slice held.  `hβ`: the impingement functions return 0 at radius 0 (`beta_zero`). -/
theorem nucStep_zero_of_dG_nonpos (q : StepIn α) (prev : NucSlice α) (dG : α) (betaOf : α → α)
    (h : dG ≤ 0) (hβ : betaOf 0 = 0) : nucStep q prev dG betaOf = NucSlice.zero := by
  unfold nucStep
  split
  · rfl
  · rw [barrier_nonpos q.isGB q.f q.gamma q.a q.b q.c q.gbE q.Rmin dG h]
    simp [hβ]

theorem nucStep_rate_zero (q : StepIn α) (prev : NucSlice α) (dG : α) (betaOf : α → α)
    (h : dG ≤ 0) (hβ : betaOf 0 = 0) :
    (nucStep q prev dG betaOf).rate = 0 ∧ (nucStep q prev dG betaOf).Rnuc = 0 := by
  rw [nucStep_zero_of_dG_nonpos q prev dG betaOf h hβ]; exact ⟨rfl, rfl⟩

/-- the code BEFORE the repair: a negative driving force keeps the previous slice, so the clause is false
of it whenever the previous rate was positive (observed in the Al–Zr run 723 K → 1500 K) -/
theorem nucStepStale_keeps_previous (q : StepIn α) (prev : NucSlice α) (dG : α) (betaOf : α → α)
    (h : dG < 0) : nucStepStale q prev dG betaOf = prev := by
  simp [nucStepStale, h]

theorem stale_violates (q : StepIn α) (betaOf : α → α) :
    ∃ (prev : NucSlice α) (dG : α), dG < 0 ∧ 0 < (nucStepStale q prev dG betaOf).rate :=
  ⟨⟨1, 1, 1, 1, 1⟩, -1, by norm_num, by rw [nucStepStale_keeps_previous _ _ _ _ (by norm_num)]; exact zero_lt_one⟩

/-- in the computed branch the recorded entries are the barrier's and the impingement rate -/
theorem nucStep_computed (q : StepIn α) (prev : NucSlice α) (dG : α) (betaOf : α → α) (h : 0 ≤ dG)
    (hb : betaOf (barrier q.isGB q.f q.gamma q.a q.b q.c q.gbE q.Rmin dG).1 ≠ 0) :
    (nucStep q prev dG betaOf).Rcrit = (barrier q.isGB q.f q.gamma q.a q.b q.c q.gbE q.Rmin dG).1
    ∧ (nucStep q prev dG betaOf).Gcrit = (barrier q.isGB q.f q.gamma q.a q.b q.c q.gbE q.Rmin dG).2 := by
  have hnz : nz (betaOf (barrier q.isGB q.f q.gamma q.a q.b q.c q.gbE q.Rmin dG).1) := lt_or_gt_of_ne hb
  simp only [nucStep, not_lt.mpr h, if_false, hnz, if_true, nucComputed]
  trivial


/-! ### incubationTimeNonIsothermal ≥ 0 -/

theorem firstSignChange_cons2 (d0 d1 : α) (ds : List α) (j : Nat) :
    firstSignChange (d0 :: d1 :: ds) j
      = if sgn d0 ≠ sgn d1 then some j else firstSignChange (d1 :: ds) (j + 1) := by
  simp only [firstSignChange]

theorem firstSignChange_some (d : List α) : ∀ (j i : Nat), firstSignChange d j = some i →
    j ≤ i ∧ i + 2 ≤ j + d.length := by
  induction d with
  | nil => intro j i h; simp [firstSignChange] at h
  | cons d0 ds ih =>
    intro j i h
    cases ds with
    | nil => simp [firstSignChange] at h
    | cons d1 ds' =>
      rw [firstSignChange_cons2] at h
      split at h
      · cases h; simp only [List.length_cons]; omega
      · have := ih (j + 1) i h
        simp only [List.length_cons] at this ⊢; omega

theorem firstSignChange_none (d : List α) : ∀ (j : Nat), firstSignChange d j = none →
    ∀ x ∈ d, sgn x = sgn (d.headD 0) := by
  induction d with
  | nil => intro j h x hx; simp at hx
  | cons d0 ds ih =>
    intro j h x hx
    cases ds with
    | nil => simp only [List.mem_singleton] at hx; subst hx; rfl
    | cons d1 ds' =>
      rw [firstSignChange_cons2] at h
      split at h
      · cases h
      · next hs =>
        have hs' : sgn d0 = sgn d1 := not_not.mp hs
        rcases List.mem_cons.mp hx with rfl | hx'
        · rfl
        · have := ih (j + 1) h x hx'
          simp only [List.headD_cons] at this ⊢
          rw [this, hs']

theorem sgn_nonpos (x y : α) (hx : ¬ 0 < x) (h : sgn y = sgn x) : y ≤ 0 := by
  by_contra hy
  have hy' : 0 < y := not_le.mp hy
  have : sgn y = 1 := by simp [sgn, hy', not_lt.mpr hy'.le]
  rw [this] at h
  unfold sgn at h
  split at h
  · omega
  · simp [hx] at h

theorem zipWith_getLast (f : α → α → α) : ∀ (a b : List α), a.length = b.length → a ≠ [] →
    (List.zipWith f a b).getLast?.getD 0 = f (a.getLast?.getD 0) (b.getLast?.getD 0) := by
  intro a
  induction a with
  | nil => intro b _ h; exact absurd rfl h
  | cons x xs ih =>
    intro b hl _
    cases b with
    | nil => simp at hl
    | cons y ys =>
      cases xs with
      | nil =>
        cases ys with
        | nil => simp
        | cons _ _ => simp at hl
      | cons x' xs' =>
        cases ys with
        | nil => simp at hl
        | cons y' ys' =>
          have := ih (y' :: ys') (by simpa using hl) (by simp)
          simpa [List.zipWith, List.getLast?_cons_cons] using this

theorem stepArea_length : ∀ (bs ts : List α), bs.length = ts.length → (stepArea bs ts).length = ts.length - 1 := by
  intro bs
  induction bs with
  | nil =>
    intro ts h
    cases ts with
    | nil => rfl
    | cons t ts => simp at h
  | cons b bs ih =>
    intro ts h
    cases ts with
    | nil => simp at h
    | cons t ts =>
      cases bs with
      | nil =>
        cases ts with
        | nil => rfl
        | cons t1 ts' => simp at h
      | cons b1 bs' =>
        cases ts with
        | nil => simp at h
        | cons t1 ts' =>
          have := ih (t1 :: ts') (by simpa using h)
          simp only [stepArea, List.length_cons] at this ⊢
          omega

theorem cumsum_length : ∀ (xs : List α) (acc : α), (cumsum acc xs).length = xs.length := by
  intro xs
  induction xs with
  | nil => intro acc; rfl
  | cons x xs ih => intro acc; simp [cumsum, ih]

/-- **non-isothermal incubation time is non-negative**: positive current impingement rate, times
non-decreasing, current time not before the first time, the three histories of equal length ≥ 1 -/
theorem tauNonIso_nonneg (θ Z cβ cT cTemp : α) (betas times temps : List α)
    (hβ : 0 < cβ) (hlen1 : betas.length = times.length) (hlen2 : temps.length = times.length)
    (hne : times ≠ [])
    (hsort : ∀ i, i < times.length → times.headD 0 ≤ times.getD i 0)
    (hcur : times.headD 0 ≤ cT) :
    0 ≤ tauNonIso θ Z cβ cT cTemp betas times temps := by
  unfold tauNonIso
  simp only
  have hpos : 0 < times.length := List.length_pos_iff.mpr hne
  have hlhsLen : (niLhs θ Z cTemp temps).length = times.length := by simp [niLhs, hlen2]
  have hcsLen : (cumsum 0 (stepArea betas times)).length = times.length - 1 := by
    rw [cumsum_length, stepArea_length betas times hlen1]
  have hrhsLen : (niRhs cβ cT (times.headD 0) times (cumsum 0 (stepArea betas times))).length = times.length := by
    unfold niRhs
    cases hl : (cumsum 0 (stepArea betas times)).getLast? with
    | none => simp
    | some l =>
      simp only [List.length_append, List.length_singleton, hcsLen]
      omega
  generalize niLhs θ Z cTemp temps = lhs at hlhsLen ⊢
  generalize niRhs cβ cT (times.headD 0) times (cumsum 0 (stepArea betas times)) = rhs at hrhsLen ⊢
  have hrhsne : rhs ≠ [] := by
    intro h; rw [h] at hrhsLen; simp at hrhsLen; omega
  unfold niPick
  simp only
  have hdiffLen : (List.zipWith (fun r l => r - l) rhs lhs).length = times.length := by
    simp [hrhsLen, hlhsLen]
  have hlast : (List.zipWith (fun r l => r - l) rhs lhs).getLast?.getD 0 = rhs.getLast?.getD 0 - lhs.getLast?.getD 0 :=
    zipWith_getLast _ rhs lhs (by rw [hrhsLen, hlhsLen]) hrhsne
  generalize List.zipWith (fun r l => r - l) rhs lhs = diff at hdiffLen hlast ⊢
  cases hfs : firstSignChange diff 0 with
  | some i =>
    have := firstSignChange_some diff 0 i hfs
    have hi : i < times.length := by omega
    have := hsort i hi
    simp only
    linarith
  | none =>
    simp only
    split
    · exact le_refl _
    · next hh =>
      have hall := firstSignChange_none diff 0 hfs
      have hdne : diff ≠ [] := by
        intro h; rw [h] at hdiffLen; simp at hdiffLen; omega
      have hmem : diff.getLast?.getD 0 ∈ diff := by
        rw [List.getLast?_eq_getLast_of_ne_nil hdne]; simp [List.getLast_mem]
      have hle : diff.getLast?.getD 0 ≤ 0 := sgn_nonpos _ _ hh (hall _ hmem)
      rw [hlast] at hle
      have h1 : 0 ≤ (lhs.getLast?.getD 0 - rhs.getLast?.getD 0) / cβ := div_nonneg (by linarith) hβ.le
      have : lhs.getLast?.getD 0 / cβ - rhs.getLast?.getD 0 / cβ = (lhs.getLast?.getD 0 - rhs.getLast?.getD 0) / cβ := by ring
      linarith

end field

/-! ## real numbers: the transcendental atoms are Mathlib's functions -/
section real
open Real

/-- interpretation of the atoms over ℝ -/
@[instance_reducible] noncomputable def realTrans : Trans ℝ where
  pi := Real.pi
  sqrt := Real.sqrt
  cbrt := fun x => if 0 ≤ x then x ^ ((1 : ℝ) / 3) else -((-x) ^ ((1 : ℝ) / 3))
  exp := Real.exp
  log := Real.log
  sin := Real.sin
  cos := Real.cos
  tan := Real.tan
  arcsin := Real.arcsin
  arccos := Real.arccos
  arctan := Real.arctan
  tanh := Real.tanh
  arctanh := fun x => Real.log ((1 + x) / (1 - x)) / 2
  arccosh := fun x => Real.log (x + Real.sqrt (x ^ 2 - 1))
  pow := fun x y => x ^ y
  abs := fun x => |x|

attribute [local instance] realTrans

@[simp] theorem tpi : (Trans.pi : ℝ) = π := rfl
@[simp] theorem tsqrt (x : ℝ) : Trans.sqrt x = √x := rfl
@[simp] theorem texp (x : ℝ) : Trans.exp x = Real.exp x := rfl
@[simp] theorem tarcsin (x : ℝ) : Trans.arcsin x = Real.arcsin x := rfl
@[simp] theorem tarccos (x : ℝ) : Trans.arccos x = Real.arccos x := rfl
@[simp] theorem tpow (x y : ℝ) : Trans.pow x y = x ^ y := rfl

/-! ### edge and corner factors at k = 0 are the sphere's -/

theorem arcsin_half : Real.arcsin (1 / 2) = π / 6 := by
  rw [← Real.sin_pi_div_six]
  exact Real.arcsin_sin (by linarith [Real.pi_pos]) (by linarith [Real.pi_pos])

theorem arccos_sqrt3_half : Real.arccos (√3 / 2) = π / 6 := by
  rw [← Real.cos_pi_div_six]
  exact Real.arccos_cos (by linarith [Real.pi_pos]) (by linarith [Real.pi_pos])

theorem edge_sphere_values :
    edge_areaFactor (0 : ℝ) = 4 * π ∧ edge_volumeFactor (0 : ℝ) = 4 * π / 3
    ∧ edge_areaFactor (0 : ℝ) = bulk_areaFactor 0 ∧ edge_volumeFactor (0 : ℝ) = bulk_volumeFactor 0 := by
  have ha : edge_areaFactor (0 : ℝ) = 4 * π := by
    simp only [edge_areaFactor, npow, tpi, tsqrt, tarcsin, tarccos]
    norm_num [arcsin_half, Real.arccos_zero]
    ring
  have hv : edge_volumeFactor (0 : ℝ) = 4 * π / 3 := by
    simp only [edge_volumeFactor, npow, tpi, tsqrt, tarcsin, tarccos]
    norm_num [arcsin_half, Real.arccos_zero]
    ring
  refine ⟨ha, hv, ?_, ?_⟩
  · rw [ha]; simp only [bulk_areaFactor, tpi]; ring
  · rw [hv]; simp only [bulk_volumeFactor, tpi]; ring


theorem corner_arg : √2 / (4 / 3 * (√3 / √2)) = √3 / 2 := by
  have h2 : √2 * √2 = 2 := Real.mul_self_sqrt (by norm_num)
  have h3 : √3 * √3 = 3 := Real.mul_self_sqrt (by norm_num)
  have h2p : 0 < √2 := Real.sqrt_pos.mpr (by norm_num)
  have h3p : 0 < √3 := Real.sqrt_pos.mpr (by norm_num)
  field_simp
  nlinarith

theorem corner_sphere_values :
    corner_areaFactor (0 : ℝ) = 4 * π ∧ corner_volumeFactor (0 : ℝ) = 4 * π / 3
    ∧ corner_areaFactor (0 : ℝ) = bulk_areaFactor 0 ∧ corner_volumeFactor (0 : ℝ) = bulk_volumeFactor 0 := by
  have ha : corner_areaFactor (0 : ℝ) = 4 * π := by
    simp only [corner_areaFactor, npow, tpi, tsqrt, tarcsin, tarccos]
    norm_num
    rw [corner_arg, arccos_sqrt3_half]; ring
  have hv : corner_volumeFactor (0 : ℝ) = 4 * π / 3 := by
    simp only [corner_volumeFactor, npow, tpi, tsqrt, tarcsin, tarccos]
    norm_num
    rw [corner_arg, arccos_sqrt3_half]; ring
  refine ⟨ha, hv, ?_, ?_⟩
  · rw [ha]; simp only [bulk_areaFactor, tpi]; ring
  · rw [hv]; simp only [bulk_volumeFactor, tpi]; ring

/-! ### Zeldovich factor, incubation factor, rate (ℝ) -/

theorem zeldovich_pos (kB NA c Vm γ T R : ℝ) (hkB : 0 < kB) (hNA : 0 < NA) (hc : 0 < c) (hVm : 0 < Vm)
    (hγ : 0 < γ) (hT : 0 < T) (hR : R ≠ 0) :
    0 < zeldovichW kB NA c Vm γ T R
    ∧ 0 < 3 * c / (4 * π) ∧ 0 < γ / (kB * T)
    ∧ 4 * π ≠ 0 ∧ kB * T ≠ 0 ∧ 2 * π * NA * npow R 2 ≠ 0 := by
  have hnz : nz R := lt_or_gt_of_ne hR
  have hpi := Real.pi_pos
  have e : npow R 2 = R ^ 2 := by simp only [npow]; ring
  have h2 : 0 < R ^ 2 := by positivity
  refine ⟨?_, by positivity, by positivity, by positivity, by positivity, by rw [e]; positivity⟩
  simp only [zeldovichW, hnz, if_true, zeldovich, tpi, tsqrt]
  rw [e]
  positivity

theorem zeldovich_sphere (kB NA Vm γ T R : ℝ) :
    zeldovich kB NA (4 * π / 3) Vm γ T R = Vm * √(γ / (kB * T)) / (2 * π * NA * R ^ 2) := by
  simp only [zeldovich, tpi, tsqrt, npow]
  have : 3 * (4 * π / 3) / (4 * π) = 1 := by field_simp
  rw [this, Real.sqrt_one]; ring

theorem incubation_factor_range (τ t : ℝ) (hτ : 0 ≤ τ) (ht : 0 < t) :
    0 < incubationClamped τ t ∧ incubationClamped τ t ≤ 1
    ∧ incubationClamped τ t = Real.exp (-τ / t) := by
  have hx : -τ / t ≤ 0 := div_nonpos_of_nonpos_of_nonneg (by linarith) ht.le
  have h1 : Real.exp (-τ / t) ≤ 1 := Real.exp_le_one_iff.mpr hx
  have he : incubationClamped τ t = Real.exp (-τ / t) := by
    simp only [incubationClamped, minS, incubationFactor, texp, not_lt.mpr h1, if_false]
  rw [he]
  exact ⟨Real.exp_pos _, h1, rfl⟩

theorem incubation_factor_mono (τ t₁ t₂ : ℝ) (hτ : 0 ≤ τ) (h1 : 0 < t₁) (h12 : t₁ ≤ t₂) :
    incubationClamped τ t₁ ≤ incubationClamped τ t₂ := by
  rw [(incubation_factor_range τ t₁ hτ h1).2.2, (incubation_factor_range τ t₂ hτ (lt_of_lt_of_le h1 h12)).2.2]
  apply Real.exp_le_exp.mpr
  rw [neg_div, neg_div, neg_le_neg_iff]
  exact div_le_div_of_nonneg_left hτ h1 h12

theorem incubation_factor_strictMono (τ t₁ t₂ : ℝ) (hτ : 0 < τ) (h1 : 0 < t₁) (h12 : t₁ < t₂) :
    incubationClamped τ t₁ < incubationClamped τ t₂ := by
  rw [(incubation_factor_range τ t₁ hτ.le h1).2.2, (incubation_factor_range τ t₂ hτ.le (lt_trans h1 h12)).2.2]
  apply Real.exp_lt_exp.mpr
  rw [neg_div, neg_div, neg_lt_neg_iff]
  exact div_lt_div_of_pos_left hτ h1 h12

/-- finite-time rate = steady-state rate × incubation factor -/
theorem rate_eq_steady_mul_incubation (kB Z β G T τ t : ℝ) :
    nucRateW kB Z β G T τ t = steadyRateW kB Z β G T * incubationClamped τ t := by
  unfold nucRateW steadyRateW
  split
  · simp only [nucleationRate_core]; ring
  · ring

theorem steady_rate_nonneg (kB Z β G T : ℝ) (h : 0 ≤ Z * β) : 0 ≤ steadyRateW kB Z β G T := by
  unfold steadyRateW; split
  · simp only [nucleationRate_core, texp]
    have := Real.exp_pos (-G / (kB * T))
    positivity
  · exact le_refl _

theorem rate_nonneg_le_steady (kB Z β G T τ t : ℝ) (h : 0 ≤ Z * β) (hτ : 0 ≤ τ) (ht : 0 < t) :
    0 ≤ nucRateW kB Z β G T τ t ∧ nucRateW kB Z β G T τ t ≤ steadyRateW kB Z β G T := by
  rw [rate_eq_steady_mul_incubation]
  obtain ⟨h0, h1, _⟩ := incubation_factor_range τ t hτ ht
  have hs := steady_rate_nonneg kB Z β G T h
  exact ⟨mul_nonneg hs h0.le, by nlinarith⟩

theorem steady_rate_mono_of_barrier (kB Z₁ β₁ Z₂ β₂ G₁ G₂ T : ℝ) (hkB : 0 < kB) (hT : 0 < T)
    (hZβ : Z₁ * β₁ = Z₂ * β₂) (hnn : 0 ≤ Z₁ * β₁) (hG : G₂ ≤ G₁) (hG2 : 0 < G₂) :
    steadyRateW kB Z₁ β₁ G₁ T ≤ steadyRateW kB Z₂ β₂ G₂ T := by
  have n1 : nz G₁ := Or.inr (lt_of_lt_of_le hG2 hG)
  have n2 : nz G₂ := Or.inr hG2
  simp only [steadyRateW, n1, n2, if_true, nucleationRate_core, texp, mul_one, ← hZβ]
  apply mul_le_mul_of_nonneg_left _ hnn
  apply Real.exp_le_exp.mpr
  have hk : 0 < kB * T := by positivity
  rw [neg_div, neg_div, neg_le_neg_iff]
  exact div_le_div_of_nonneg_right hG hk.le

/-- the steady-state rate as a function of the driving force alone (everything else fixed):
barrier → Zeldovich, impingement `B·R²` (every `beta*` has this form, `beta_forms`) → rate at time ∞ -/
noncomputable def steadyChain (gbn : Bool) (f γ a b c e Rmin kB NA Vm T B dG : ℝ) : ℝ :=
  steadyRateW kB (zeldovichW kB NA c Vm γ T (barrier gbn f γ a b c e Rmin dG).1)
    (B * (barrier gbn f γ a b c e Rmin dG).1 ^ 2) (barrier gbn f γ a b c e Rmin dG).2 T

theorem steadyChain_nonneg (gbn : Bool) (f γ a b c e Rmin kB NA Vm T B dG : ℝ) (hkB : 0 < kB) (hNA : 0 < NA)
    (hc : 0 < c) (hVm : 0 < Vm) (hγ : 0 < γ) (hT : 0 < T) (hB : 0 ≤ B) :
    0 ≤ steadyChain gbn f γ a b c e Rmin kB NA Vm T B dG := by
  apply steady_rate_nonneg
  by_cases hR : (barrier gbn f γ a b c e Rmin dG).1 = 0
  · rw [hR]; simp
  · exact mul_nonneg (zeldovich_pos kB NA c Vm γ T _ hkB hNA hc hVm hγ hT hR).1.le (by positivity)

/-- **steady-state rate does not decrease with driving force** (bulk / dislocation sites), for ALL real
driving forces including the non-positive ones -/
theorem steadyChain_mono_bulk (f γ a b c e Rmin kB NA Vm T B dG₁ dG₂ : ℝ) (hkB : 0 < kB) (hNA : 0 < NA)
    (hc : 0 < c) (hVm : 0 < Vm) (hγ : 0 < γ) (hT : 0 < T) (hB : 0 ≤ B) (hf : 0 ≤ f) (hR : 0 < Rmin)
    (h12 : dG₁ ≤ dG₂) :
    steadyChain false f γ a b c e Rmin kB NA Vm T B dG₁ ≤ steadyChain false f γ a b c e Rmin kB NA Vm T B dG₂ := by
  by_cases h1 : 0 < dG₁
  · have h2 : 0 < dG₂ := lt_of_lt_of_le h1 h12
    have hR1 : (barrier false f γ a b c e Rmin dG₁).1 ≠ 0 :=
      (lt_of_lt_of_le hR (barrier_Rcrit_ge_Rmin false f γ a b c e Rmin dG₁ h1)).ne'
    have hR2 : (barrier false f γ a b c e Rmin dG₂).1 ≠ 0 :=
      (lt_of_lt_of_le hR (barrier_Rcrit_ge_Rmin false f γ a b c e Rmin dG₂ h2)).ne'
    unfold steadyChain
    apply steady_rate_mono_of_barrier kB _ _ _ _ _ _ T hkB hT
    · exact Zbeta_independent_of_R kB NA c Vm γ T B _ _ hR1 hR2 hNA.ne' Real.pi_pos.ne'
    · exact mul_nonneg (zeldovich_pos kB NA c Vm γ T _ hkB hNA hc hVm hγ hT hR1).1.le (by positivity)
    · exact barrier_bulk_Gcrit_antitone f γ a b c e Rmin dG₁ dG₂ Real.pi_pos hγ.le hf hR.le h1 h12
    · exact barrier_bulk_Gcrit_pos f γ a b c e Rmin dG₂ Real.pi_pos hγ hR h2
  · have : steadyChain false f γ a b c e Rmin kB NA Vm T B dG₁ = 0 := by
      unfold steadyChain
      rw [barrier_nonpos false f γ a b c e Rmin dG₁ (not_lt.mp h1)]
      simp [steadyRateW]
    rw [this]
    exact steadyChain_nonneg false f γ a b c e Rmin kB NA Vm T B dG₂ hkB hNA hc hVm hγ hT hB

/-- the same for grain-boundary site types (γ_gb = 2kγ, factors satisfying the identity) while the
larger driving force stays below `3γ/Rmin` (beyond it the code's barrier is ≤ 0, see the finding) -/
theorem steadyChain_mono_gb_partial (f γ a b c k Rmin kB NA Vm T B dG₁ dG₂ : ℝ) (hid : a - 2 * k * b = 3 * c)
    (hkB : 0 < kB) (hNA : 0 < NA)
    (hc : 0 < c) (hVm : 0 < Vm) (hγ : 0 < γ) (hT : 0 < T) (hB : 0 ≤ B) (hR : 0 < Rmin)
    (h12 : dG₁ ≤ dG₂) (hlim : dG₂ * Rmin < 3 * γ) :
    steadyChain true f γ a b c (2 * k * γ) Rmin kB NA Vm T B dG₁
      ≤ steadyChain true f γ a b c (2 * k * γ) Rmin kB NA Vm T B dG₂ := by
  by_cases h1 : 0 < dG₁
  · have h2 : 0 < dG₂ := lt_of_lt_of_le h1 h12
    have hR1 : (barrier true f γ a b c (2 * k * γ) Rmin dG₁).1 ≠ 0 :=
      (lt_of_lt_of_le hR (barrier_Rcrit_ge_Rmin true f γ a b c _ Rmin dG₁ h1)).ne'
    have hR2p : 0 < (barrier true f γ a b c (2 * k * γ) Rmin dG₂).1 :=
      lt_of_lt_of_le hR (barrier_Rcrit_ge_Rmin true f γ a b c _ Rmin dG₂ h2)
    unfold steadyChain
    apply steady_rate_mono_of_barrier kB _ _ _ _ _ _ T hkB hT
    · exact Zbeta_independent_of_R kB NA c Vm γ T B _ _ hR1 hR2p.ne' hNA.ne' Real.pi_pos.ne'
    · exact mul_nonneg (zeldovich_pos kB NA c Vm γ T _ hkB hNA hc hVm hγ hT hR1).1.le (by positivity)
    · exact barrier_gb_Gcrit_antitone f γ a b c k Rmin dG₁ dG₂ hid hc hγ.le hR.le h1 h12
    · -- the barrier at dG₂ is positive
      have hform : (barrier true f γ a b c (2 * k * γ) Rmin dG₂).2
          = c * ((barrier true f γ a b c (2 * k * γ) Rmin dG₂).1 ^ 2
              * (3 * γ - dG₂ * (barrier true f γ a b c (2 * k * γ) Rmin dG₂).1)) := by
        simp only [barrier, h2, if_true]
        exact nbp_Gcrit_form a b c γ k dG₂ _ hid
      have hRval : (barrier true f γ a b c (2 * k * γ) Rmin dG₂).1 = max (2 * γ / dG₂) Rmin := by
        simp only [barrier, h2, if_true]
        rw [nbp_Rcrit_sphere a b c γ k dG₂ hid hc.ne' h2.ne', maxS_eq_max]
      rw [hform]
      apply mul_pos hc (mul_pos (pow_pos hR2p 2) _)
      rw [hRval]
      rcases le_total (2 * γ / dG₂) Rmin with h | h
      · rw [max_eq_right h]; linarith
      · rw [max_eq_left h]
        have : dG₂ * (2 * γ / dG₂) = 2 * γ := by field_simp
        rw [this]; linarith
  · have : steadyChain true f γ a b c (2 * k * γ) Rmin kB NA Vm T B dG₁ = 0 := by
      unfold steadyChain
      rw [barrier_nonpos true f γ a b c _ Rmin dG₁ (not_lt.mp h1)]
      simp [steadyRateW]
    rw [this]
    exact steadyChain_nonneg true f γ a b c _ Rmin kB NA Vm T B dG₂ hkB hNA hc hVm hγ hT hB

/-- the excluded region is real: beyond `dG·Rmin = 3γ` the code's grain-boundary barrier is negative
(a = 3, b = 0, c = 1, k = 0, γ = 1, Rmin = 2, dG = 2: Rcrit = 2, Gcrit = −4) -/
theorem barrier_gb_Gcrit_negative_witness :
    (barrier true (1:ℝ) 1 3 0 1 (2 * 0 * 1) 2 2).1 = 2 ∧ (barrier true (1:ℝ) 1 3 0 1 (2 * 0 * 1) 2 2).2 = -4 := by
  simp only [barrier, nbp_Rcrit, nbp_Gcrit, maxS, npow]
  norm_num

end real


/-! ### non-vacuity: the hypothesis sets are satisfiable -/
section nonvacuity
open Real
attribute [local instance] realTrans

-- identity hypothesis + positive volume factor + γ_gb = 2kγ: the boundary factors at k = 1/2
example : gb_areaFactor (1/2 : ℝ) - 2 * (1/2) * gb_gbRemoval (1/2) = 3 * gb_volumeFactor (1/2)
    ∧ 0 < gb_volumeFactor (1/2 : ℝ) :=
  ⟨identity_boundary _, gb_volume_pos _ Real.pi_pos (by norm_num) (by norm_num)⟩
-- dG·Rmin ≤ 3γ with everything positive
example : (0:ℝ) < 1e8 ∧ (1e8 : ℝ) * 3e-10 ≤ 3 * 0.1 := by norm_num
-- Zeldovich / β / τ hypotheses
example : (0:ℝ) < 1.38e-23 ∧ (0:ℝ) < 6.022e23 ∧ (0:ℝ) < 700 ∧ (3e-9 : ℝ) ≠ 0 := by norm_num
example : (0:ℝ) < 1e-3 ∧ (1e-3 : ℝ) < 1 ∧ (0.25 : ℝ) ≠ 1e-3 := by norm_num
-- the state machine really runs: grain boundary, γ = 3/10, γ_gb = 3/10 → GBk = 1/2
example : ((NBP.init (α := ℝ) .gb (some (3/10)) (some (3/10))).computeGBk) = Except.ok (1/2) := by
  simp only [NBP.computeGBk, NBP.init, gbRatio]; norm_num
-- populations: one phase, one class, dominated
example : BinsLE [((1:ℚ), (2:ℚ))] [((3:ℚ), (2:ℚ))] := by
  refine List.Forall₂.cons ⟨rfl, by norm_num, by norm_num⟩ List.Forall₂.nil
end nonvacuity

end KawinV.Props.C14
