/-
C14 — property theorems (stub; nothing proved yet).
-/
namespace KawinV.Props.C14
end KawinV.Props.C14
