/-
C14 — nucleation quantities obey classical nucleation theory for every site type.

Theorems about the definitions REGENERATED from the kawin sources (`KawinV.Gen.C14`, file
Gen/C14Nuc.lean, rewritten from /repo by tools/corr/C14.py on every run) and about the hand model
`KawinV.Nuc` (Model/NucSites.lean) of the guards, the cached-factor state machine, the nucleation
sites and the per-phase nucleation step; both are tied to the implementation by tools/corr/C14.py.
`α` is any linearly ordered field with an arbitrary interpretation of the transcendental atoms
(`Trans α`); the theorems marked (ℝ) use Mathlib's real functions.
-/
import KawinV.Model.NucSites
import Mathlib.Tactic.Ring
import Mathlib.Tactic.Linarith
import Mathlib.Tactic.FieldSimp
import Mathlib.Tactic.NormNum
import Mathlib.Tactic.Positivity
import Mathlib.Algebra.Order.Field.Basic
import Mathlib.Analysis.SpecialFunctions.Trigonometric.Inverse
import Mathlib.Analysis.SpecialFunctions.Trigonometric.Arctan
import Mathlib.Analysis.SpecialFunctions.Pow.Real

set_option linter.unusedSectionVars false
set_option linter.unusedVariables false
set_option linter.unusedSimpArgs false
set_option linter.style.longLine false

namespace KawinV.Props.C14
open KawinV KawinV.Gen.C14 KawinV.Nuc

section field
variable {α : Type} [Field α] [LinearOrder α] [IsStrictOrderedRing α] [Trans α]

/-! ### the geometric identity  area − 2k·gbRemoval = 3·volume  (every k, every interpretation of π, √, arcsin, arccos) -/

theorem identity_bulk (k : α) :
    bulk_areaFactor k - 2 * k * bulk_gbRemoval k = 3 * bulk_volumeFactor k := by
  simp only [bulk_areaFactor, bulk_gbRemoval, bulk_volumeFactor, npow]; ring

theorem identity_boundary (k : α) :
    gb_areaFactor k - 2 * k * gb_gbRemoval k = 3 * gb_volumeFactor k := by
  simp only [gb_areaFactor, gb_gbRemoval, gb_volumeFactor, npow]; ring

theorem identity_edge (k : α) :
    edge_areaFactor k - 2 * k * edge_gbRemoval k = 3 * edge_volumeFactor k := by
  simp only [edge_areaFactor, edge_gbRemoval, edge_volumeFactor, npow]; ring

theorem identity_corner (k : α) :
    corner_areaFactor k - 2 * k * corner_gbRemoval k = 3 * corner_volumeFactor k := by
  simp only [corner_areaFactor, corner_gbRemoval, corner_volumeFactor, npow]; ring

/-- the identity for every built-in site type, in terms of the model's factor selector -/
theorem identity_all (s : Site) (k : α) :
    formula s .area k - 2 * k * formula s .rem k = 3 * formula s .vol k := by
  cases s
  · exact identity_bulk k
  · simp only [formula, disl_areaFactor, disl_gbRemoval, disl_volumeFactor, npow]; ring
  · exact identity_boundary k
  · exact identity_edge k
  · exact identity_corner k


/-! ### consequences for the barrier: with γ_gb = 2kγ the critical radius is the sphere's and the barrier
is the spherical barrier times volume/(4π/3) -/

/-- `a·γ − b·γ_gb = 3·c·γ` when `γ_gb = 2kγ` and the factors satisfy the identity -/
theorem capillary_term (a b c γ k : α) (hid : a - 2 * k * b = 3 * c) :
    a * γ - b * (2 * k * γ) = 3 * c * γ := by
  have : a = 3 * c + 2 * k * b := by linarith
  rw [this]; ring

theorem nbp_Rcrit_sphere (a b c γ k dG : α) (hid : a - 2 * k * b = 3 * c) (hc : c ≠ 0) (hdG : dG ≠ 0) :
    nbp_Rcrit a b c γ (2 * k * γ) dG = 2 * γ / dG := by
  simp only [nbp_Rcrit, capillary_term a b c γ k hid]
  field_simp

/-- the same statement against the regenerated bulk formula with thermodynamic factor 1 (sphere) -/
theorem nbp_Rcrit_eq_bulk (a b c γ k dG : α) (hid : a - 2 * k * b = 3 * c) (hc : c ≠ 0) (hdG : dG ≠ 0) :
    nbp_Rcrit a b c γ (2 * k * γ) dG = nb_bulk_Rcrit 1 γ dG := by
  rw [nbp_Rcrit_sphere a b c γ k dG hid hc hdG]; simp only [nb_bulk_Rcrit]; ring

/-- at ANY radius (the code evaluates at the clamped one): `Gcrit(R) = c·R²·(3γ − dG·R)` -/
theorem nbp_Gcrit_form (a b c γ k dG R : α) (hid : a - 2 * k * b = 3 * c) :
    nbp_Gcrit a b c γ (2 * k * γ) dG R = c * (R ^ 2 * (3 * γ - dG * R)) := by
  simp only [nbp_Gcrit, capillary_term a b c γ k hid, npow]; ring

/-- at the critical radius the barrier is (volume factor)/(4π/3) times the spherical barrier -/
theorem nbp_Gcrit_sphere (a b c γ k dG : α) (hid : a - 2 * k * b = 3 * c) (hdG : dG ≠ 0)
    (hpi : (Trans.pi : α) ≠ 0) :
    nbp_Gcrit a b c γ (2 * k * γ) dG (2 * γ / dG)
      = c / (4 * Trans.pi / 3) * nb_bulk_Gcrit γ (2 * γ / dG) := by
  rw [nbp_Gcrit_form a b c γ k dG _ hid]
  simp only [nb_bulk_Gcrit, npow]
  field_simp
  ring

/-- both consequences for every built-in site type, through the regenerated factor formulas -/
theorem site_Rcrit_sphere (s : Site) (k γ dG : α) (hc : formula s .vol k ≠ 0) (hdG : dG ≠ 0) :
    nbp_Rcrit (formula s .area k) (formula s .rem k) (formula s .vol k) γ (2 * k * γ) dG
      = nb_bulk_Rcrit 1 γ dG :=
  nbp_Rcrit_eq_bulk _ _ _ γ k dG (identity_all s k) hc hdG

theorem site_Gcrit_sphere (s : Site) (k γ dG : α) (hdG : dG ≠ 0) (hpi : (Trans.pi : α) ≠ 0) :
    nbp_Gcrit (formula s .area k) (formula s .rem k) (formula s .vol k) γ (2 * k * γ) dG (2 * γ / dG)
      = formula s .vol k / (4 * Trans.pi / 3) * nb_bulk_Gcrit γ (2 * γ / dG) :=
  nbp_Gcrit_sphere _ _ _ γ k dG (identity_all s k) hdG hpi

/-- `gbRatio` is the `k` of the identity: `γ_gb = 2·k·γ` -/
theorem gbRatio_spec (e γ : α) (hγ : γ ≠ 0) : 2 * gbRatio e γ * γ = e := by
  simp only [gbRatio]; field_simp

/-! ### grain-boundary factors on 0 ≤ k ≤ 1 -/

theorem gb_volume_closed (k : α) :
    gb_volumeFactor k = 2 * Trans.pi / 3 * ((1 - k) ^ 2 * (2 + k)) := by
  simp only [gb_volumeFactor, npow]; ring

theorem gb_factors_nonneg (k : α) (hpi : 0 < (Trans.pi : α)) (h0 : 0 ≤ k) (h1 : k ≤ 1) :
    0 ≤ gb_gbRemoval k ∧ 0 ≤ gb_areaFactor k ∧ 0 ≤ gb_volumeFactor k := by
  refine ⟨?_, ?_, ?_⟩
  · simp only [gb_gbRemoval, npow]
    exact mul_nonneg hpi.le (by nlinarith)
  · simp only [gb_areaFactor]
    exact mul_nonneg (by positivity) (by linarith)
  · rw [gb_volume_closed]
    exact mul_nonneg (by positivity) (mul_nonneg (sq_nonneg _) (by linarith))

theorem gb_volume_pos (k : α) (hpi : 0 < (Trans.pi : α)) (h0 : 0 ≤ k) (h1 : k < 1) :
    0 < gb_volumeFactor k := by
  rw [gb_volume_closed]
  exact mul_pos (by positivity) (mul_pos (pow_pos (by linarith) 2) (by linarith))

/-- the volume factor strictly decreases with k on [0,1] -/
theorem gb_volume_strictAnti (k₁ k₂ : α) (hpi : 0 < (Trans.pi : α)) (h0 : 0 ≤ k₁) (h12 : k₁ < k₂)
    (h1 : k₂ ≤ 1) : gb_volumeFactor k₂ < gb_volumeFactor k₁ := by
  simp only [gb_volumeFactor, npow]
  have hc : 0 < 2 * (Trans.pi : α) / 3 := by positivity
  apply mul_lt_mul_of_pos_left _ hc
  have : k₁ * k₁ + k₁ * k₂ + k₂ * k₂ < 3 := by nlinarith
  nlinarith

/-- sphere values at k = 0 (the two halves of a sphere cut by the boundary plane) -/
theorem gb_sphere_values :
    gb_areaFactor (0 : α) = bulk_areaFactor 0 ∧ gb_volumeFactor (0 : α) = bulk_volumeFactor 0
    ∧ gb_areaFactor (0 : α) = 4 * Trans.pi ∧ gb_volumeFactor (0 : α) = 4 * Trans.pi / 3
    ∧ gb_gbRemoval (0 : α) = Trans.pi := by
  simp only [gb_areaFactor, gb_volumeFactor, bulk_areaFactor, bulk_volumeFactor, gb_gbRemoval, npow]
  refine ⟨by ring, by ring, by ring, by ring, by ring⟩

/-! ### nucleationBarrier -/

theorem maxS_ge_right (a b : α) : b ≤ maxS a b := by
  unfold maxS; split
  · exact le_refl _
  · exact not_lt.mp ‹_›

theorem maxS_ge_left (a b : α) : a ≤ maxS a b := by
  unfold maxS; split
  · exact le_of_lt ‹_›
  · exact le_refl _

theorem maxS_eq_max (a b : α) : maxS a b = max a b := by
  unfold maxS; split
  · exact (max_eq_right (le_of_lt ‹_›)).symm
  · exact (max_eq_left (not_lt.mp ‹_›)).symm

/-- positive driving force: the critical radius is at least the minimum radius -/
theorem barrier_Rcrit_ge_Rmin (gbn : Bool) (f γ a b c e Rmin dG : α) (h : 0 < dG) :
    Rmin ≤ (barrier gbn f γ a b c e Rmin dG).1 := by
  simp only [barrier, h, if_true]
  exact maxS_ge_right _ _

/-- non-positive driving force: no critical radius and no barrier -/
theorem barrier_nonpos (gbn : Bool) (f γ a b c e Rmin dG : α) (h : dG ≤ 0) :
    barrier gbn f γ a b c e Rmin dG = (0, 0) := by
  simp only [barrier, not_lt.mpr h, if_false]

/-- bulk / dislocation sites: the barrier is non-negative for every positive driving force … -/
theorem barrier_bulk_Gcrit_nonneg (f γ a b c e Rmin dG : α) (hpi : 0 < (Trans.pi : α)) (hγ : 0 ≤ γ) :
    0 ≤ (barrier false f γ a b c e Rmin dG).2 := by
  unfold barrier
  split
  · simp only [Bool.false_eq_true, if_false, nb_bulk_Gcrit, npow]
    have : 0 ≤ maxS (nb_bulk_Rcrit f γ dG) Rmin * maxS (nb_bulk_Rcrit f γ dG) Rmin := mul_self_nonneg _
    positivity
  · exact le_refl _

/-- … and strictly positive for valid parameters (so the `Gcrit != 0` guard of `nucleationRate` is inactive) -/
theorem barrier_bulk_Gcrit_pos (f γ a b c e Rmin dG : α) (hpi : 0 < (Trans.pi : α)) (hγ : 0 < γ)
    (hR : 0 < Rmin) (h : 0 < dG) : 0 < (barrier false f γ a b c e Rmin dG).2 := by
  simp only [barrier, h, if_true, Bool.false_eq_true, if_false, nb_bulk_Gcrit, npow]
  have : 0 < maxS (nb_bulk_Rcrit f γ dG) Rmin := lt_of_lt_of_le hR (maxS_ge_right _ _)
  positivity

/-- grain-boundary site types, `γ_gb = 2kγ`, factors satisfying the identity: the barrier is
non-negative AS LONG AS `dG·Rmin ≤ 3γ` (see `barrier_gb_Gcrit_negative_witness`) -/
theorem barrier_gb_Gcrit_nonneg_partial (f γ a b c k Rmin dG : α) (hid : a - 2 * k * b = 3 * c)
    (hc : 0 < c) (hγ : 0 ≤ γ) (h : 0 < dG) (hlim : dG * Rmin ≤ 3 * γ) :
    0 ≤ (barrier true f γ a b c (2 * k * γ) Rmin dG).2 := by
  simp only [barrier, h, if_true]
  rw [nbp_Gcrit_form a b c γ k dG _ hid, nbp_Rcrit_sphere a b c γ k dG hid hc.ne' h.ne', maxS_eq_max]
  apply mul_nonneg hc.le (mul_nonneg (sq_nonneg _) _)
  have : dG * max (2 * γ / dG) Rmin ≤ 3 * γ := by
    rcases le_total (2 * γ / dG) Rmin with h1 | h1
    · rw [max_eq_right h1]; exact hlim
    · rw [max_eq_left h1]
      have : dG * (2 * γ / dG) = 2 * γ := by field_simp
      rw [this]; linarith
  linarith

/-- the barrier as a function of driving force never increases (bulk / dislocations) -/
theorem barrier_bulk_Gcrit_antitone (f γ a b c e Rmin dG₁ dG₂ : α) (hpi : 0 < (Trans.pi : α))
    (hγ : 0 ≤ γ) (hf : 0 ≤ f) (hR : 0 ≤ Rmin) (h1 : 0 < dG₁) (h12 : dG₁ ≤ dG₂) :
    (barrier false f γ a b c e Rmin dG₂).2 ≤ (barrier false f γ a b c e Rmin dG₁).2 := by
  have h2 : 0 < dG₂ := lt_of_lt_of_le h1 h12
  simp only [barrier, h1, h2, if_true, Bool.false_eq_true, if_false, nb_bulk_Gcrit, nb_bulk_Rcrit, npow,
    maxS_eq_max]
  have hp : 2 * f * γ / dG₂ ≤ 2 * f * γ / dG₁ :=
    div_le_div_of_nonneg_left (by positivity) h1 h12
  have hm : max (2 * f * γ / dG₂) Rmin ≤ max (2 * f * γ / dG₁) Rmin := max_le_max hp (le_refl _)
  have h0 : 0 ≤ max (2 * f * γ / dG₂) Rmin := le_max_of_le_right hR
  have hsq : max (2 * f * γ / dG₂) Rmin * max (2 * f * γ / dG₂) Rmin
      ≤ max (2 * f * γ / dG₁) Rmin * max (2 * f * γ / dG₁) Rmin := mul_self_le_mul_self h0 hm
  have hc : 0 ≤ 4 * (Trans.pi : α) / 3 * γ := by positivity
  exact mul_le_mul_of_nonneg_left hsq hc

/-- the same for grain-boundary site types (no restriction on `dG·Rmin` needed) -/
theorem barrier_gb_Gcrit_antitone (f γ a b c k Rmin dG₁ dG₂ : α) (hid : a - 2 * k * b = 3 * c)
    (hc : 0 < c) (hγ : 0 ≤ γ) (hR : 0 ≤ Rmin) (h1 : 0 < dG₁) (h12 : dG₁ ≤ dG₂) :
    (barrier true f γ a b c (2 * k * γ) Rmin dG₂).2 ≤ (barrier true f γ a b c (2 * k * γ) Rmin dG₁).2 := by
  have h2 : 0 < dG₂ := lt_of_lt_of_le h1 h12
  simp only [barrier, h1, h2, if_true]
  rw [nbp_Gcrit_form a b c γ k _ _ hid, nbp_Gcrit_form a b c γ k _ _ hid,
    nbp_Rcrit_sphere a b c γ k _ hid hc.ne' h1.ne', nbp_Rcrit_sphere a b c γ k _ hid hc.ne' h2.ne',
    maxS_eq_max, maxS_eq_max]
  apply mul_le_mul_of_nonneg_left _ hc.le
  have hp : 2 * γ / dG₂ ≤ 2 * γ / dG₁ := div_le_div_of_nonneg_left (by positivity) h1 h12
  have hp1 : dG₁ * (2 * γ / dG₁) = 2 * γ := by field_simp
  have hp2 : dG₂ * (2 * γ / dG₂) = 2 * γ := by field_simp
  have hp2' : 0 ≤ 2 * γ / dG₂ := by positivity
  rcases le_total Rmin (2 * γ / dG₁) with hA | hB
  · -- dG₁ unclamped: G₁ = γ p₁²
    rw [max_eq_left hA]
    set p₁ := 2 * γ / dG₁ with hp₁
    set R₂ := max (2 * γ / dG₂) Rmin with hR₂
    have hR2le : R₂ ≤ p₁ := max_le hp hA
    have hR2ge : 2 * γ / dG₂ ≤ R₂ := le_max_left _ _
    have hR2nn : 0 ≤ R₂ := le_trans hp2' hR2ge
    have hx : 2 * γ ≤ dG₂ * R₂ := by
      calc 2 * γ = dG₂ * (2 * γ / dG₂) := hp2.symm
        _ ≤ dG₂ * R₂ := mul_le_mul_of_nonneg_left hR2ge h2.le
    have hsq : R₂ ^ 2 ≤ p₁ ^ 2 := pow_le_pow_left₀ hR2nn hR2le 2
    have e1 : p₁ ^ 2 * (3 * γ - dG₁ * p₁) = p₁ ^ 2 * γ := by rw [hp1]; ring
    rw [e1]
    by_cases hs : 0 ≤ 3 * γ - dG₂ * R₂
    · calc R₂ ^ 2 * (3 * γ - dG₂ * R₂) ≤ R₂ ^ 2 * γ :=
            mul_le_mul_of_nonneg_left (by linarith) (sq_nonneg _)
        _ ≤ p₁ ^ 2 * γ := mul_le_mul_of_nonneg_right hsq hγ
    · have : R₂ ^ 2 * (3 * γ - dG₂ * R₂) ≤ 0 :=
        mul_nonpos_of_nonneg_of_nonpos (sq_nonneg _) (le_of_lt (not_le.mp hs))
      exact le_trans this (mul_nonneg (sq_nonneg _) hγ)
  · -- dG₁ clamped, hence dG₂ clamped too
    rw [max_eq_right hB, max_eq_right (le_trans hp hB)]
    have : Rmin ^ 2 * (3 * γ - dG₁ * Rmin) - Rmin ^ 2 * (3 * γ - dG₂ * Rmin) = Rmin ^ 3 * (dG₂ - dG₁) := by ring
    have h3 : 0 ≤ Rmin ^ 3 * (dG₂ - dG₁) := mul_nonneg (pow_nonneg hR 3) (by linarith)
    linarith

/-! ### Zeldovich, β, τ — finite (non-zero denominators) and of the right sign, algebraic part -/

theorem zeldovichW_zero (kB NA c Vm γ T : α) : zeldovichW kB NA c Vm γ T 0 = 0 := by
  simp [zeldovichW]

theorem beta_zero (a a0 x xa xb D0 D1 imp : α) :
    beta1W a a0 x D1 0 = 0 ∧ beta2W a a0 xa xb D0 D1 0 = 0 ∧ betaMW a a0 imp 0 = 0 := by
  simp [beta1W, beta2W, betaMW]

theorem beta1_pos (a a0 x D1 R : α) (ha : 0 < a) (ha0 : a0 ≠ 0) (hx : 0 < x) (hD : 0 < D1) (hR : R ≠ 0) :
    0 < beta1W a a0 x D1 R ∧ npow a0 4 ≠ 0 := by
  have hnz : nz R := lt_or_gt_of_ne hR
  have h4 : 0 < a0 ^ 4 := by positivity
  have h2 : 0 < R ^ 2 := by positivity
  refine ⟨?_, ?_⟩
  · simp only [beta1W, hnz, if_true, betaBinary1, npow]
    have e : a * (R * R) * x * D1 / (a0 * a0 * a0 * a0) = a * R ^ 2 * x * D1 / a0 ^ 4 := by ring
    rw [e]; positivity
  · simp only [npow]; have : a0 * a0 * a0 * a0 = a0 ^ 4 := by ring
    rw [this]; exact h4.ne'

theorem beta1_nonneg (a a0 x D1 R : α) (ha : 0 ≤ a) (hx : 0 ≤ x) (hD : 0 ≤ D1) :
    0 ≤ beta1W a a0 x D1 R := by
  unfold beta1W; split
  · simp only [betaBinary1, npow]
    have e : a * (R * R) * x * D1 / (a0 * a0 * a0 * a0) = a * R ^ 2 * x * D1 / a0 ^ 4 := by ring
    rw [e]
    have : 0 ≤ a0 ^ 4 := by positivity
    positivity
  · exact le_refl _

/-- `betaBinary2`: the diffusion term `(xβ−xα)²/(xα·D₁) + (xβ−xα)²/((1−xα)·D₀)` is positive, so `1/Dfactor` is finite -/
theorem beta2_pos (a a0 xa xb D0 D1 R : α) (ha : 0 < a) (ha0 : a0 ≠ 0) (hxa : 0 < xa) (hxa1 : xa < 1)
    (hne : xb ≠ xa) (hD0 : 0 < D0) (hD1 : 0 < D1) (hR : R ≠ 0) :
    0 < beta2W a a0 xa xb D0 D1 R
    ∧ 0 < npow (xb - xa) 2 / (xa * D1) + npow (xb - xa) 2 / ((1 - xa) * D0) := by
  have hnz : nz R := lt_or_gt_of_ne hR
  have h4 : 0 < a0 ^ 4 := by positivity
  have h2 : 0 < R ^ 2 := by positivity
  have hd : 0 < (xb - xa) ^ 2 := by have : xb - xa ≠ 0 := sub_ne_zero.mpr hne; positivity
  have h1x : 0 < 1 - xa := by linarith
  have hD : 0 < (xb - xa) ^ 2 / (xa * D1) + (xb - xa) ^ 2 / ((1 - xa) * D0) := by positivity
  have e2 : npow (xb - xa) 2 = (xb - xa) ^ 2 := by simp only [npow]; ring
  refine ⟨?_, by rw [e2]; exact hD⟩
  simp only [beta2W, hnz, if_true, betaBinary2]
  rw [e2]
  have e : npow R 2 = R ^ 2 := by simp only [npow]; ring
  have e4 : npow a0 4 = a0 ^ 4 := by simp only [npow]; ring
  rw [e, e4]; positivity

theorem betaM_nonneg (a a0 imp R : α) (ha : 0 ≤ a) (hi : 0 ≤ imp) : 0 ≤ betaMW a a0 imp R := by
  unfold betaMW; split
  · simp only [betaMulti, npow]
    have e : imp * (a * (R * R) / (a0 * a0 * a0 * a0)) = imp * (a * R ^ 2 / a0 ^ 4) := by ring
    rw [e]
    have : 0 ≤ a0 ^ 4 := by positivity
    positivity
  · exact le_refl _

/-- incubation time: positive and finite (`θ·β·Z² ≠ 0`) under the code's guard `Z ≠ 0` and `β > 0`
(`_calcNucleationRate` skips `β = 0`) -/
theorem incubation_pos (θ β Z : α) (hθ : 0 < θ) (hβ : 0 < β) (hZ : Z ≠ 0) :
    0 < incubationW θ β Z ∧ θ * β * npow Z 2 ≠ 0 := by
  have hnz : nz Z := lt_or_gt_of_ne hZ
  have e : npow Z 2 = Z ^ 2 := by simp only [npow]; ring
  have h2 : 0 < Z ^ 2 := by positivity
  refine ⟨?_, by rw [e]; positivity⟩
  simp only [incubationW, hnz, if_true, incubationTime]
  rw [e]; positivity

theorem incubation_nonneg (θ β Z : α) (hθ : 0 ≤ θ) (hβ : 0 ≤ β) : 0 ≤ incubationW θ β Z := by
  unfold incubationW; split
  · simp only [incubationTime, npow]
    have : 0 ≤ Z * Z := mul_self_nonneg Z
    positivity
  · exact le_refl _

/-- `Z·β` does not depend on the critical radius (`Z ∝ 1/R²`, `β ∝ R²`), whatever √ and π are -/
theorem Zbeta_independent_of_R (kB NA c Vm γ T B R R' : α) (hR : R ≠ 0) (hR' : R' ≠ 0)
    (hNA : NA ≠ 0) (hpi : (Trans.pi : α) ≠ 0) :
    zeldovichW kB NA c Vm γ T R * (B * R ^ 2) = zeldovichW kB NA c Vm γ T R' * (B * R' ^ 2) := by
  have h1 : nz R := lt_or_gt_of_ne hR
  have h2 : nz R' := lt_or_gt_of_ne hR'
  simp only [zeldovichW, h1, h2, if_true, zeldovich, npow]
  field_simp

/-- the three impingement functions are of the form `B·R²` for `R ≠ 0` -/
theorem beta_forms (a a0 x xa xb D0 D1 imp R : α) (hR : R ≠ 0) :
    beta1W a a0 x D1 R = (a * x * D1 / npow a0 4) * R ^ 2
    ∧ beta2W a a0 xa xb D0 D1 R
        = (a * (1 / (npow (xb - xa) 2 / (xa * D1) + npow (xb - xa) 2 / ((1 - xa) * D0))) / npow a0 4) * R ^ 2
    ∧ betaMW a a0 imp R = (imp * a / npow a0 4) * R ^ 2 := by
  have h1 : nz R := lt_or_gt_of_ne hR
  simp only [beta1W, beta2W, betaMW, h1, if_true, betaBinary1, betaBinary2, betaMulti]
  refine ⟨?_, ?_, ?_⟩ <;> simp only [npow] <;> ring

/-- `nucleationRate` is zero when the barrier is zero (which is what `nucleationBarrier` returns for dG ≤ 0) -/
theorem rate_zero_of_G_zero (kB Z β T τ t : α) :
    nucRateW kB Z β 0 T τ t = 0 ∧ steadyRateW kB Z β 0 T = 0 := by
  simp [nucRateW, steadyRateW]

/-- the rate is zero for non-positive driving force: chain barrier → rate -/
theorem rate_zero_of_dG_nonpos (gbn : Bool) (f γ a b c e Rmin dG kB Z β T τ t : α) (h : dG ≤ 0) :
    nucRateW kB Z β (barrier gbn f γ a b c e Rmin dG).2 T τ t = 0
    ∧ steadyRateW kB Z β (barrier gbn f γ a b c e Rmin dG).2 T = 0 := by
  rw [barrier_nonpos gbn f γ a b c e Rmin dG h]
  exact rate_zero_of_G_zero kB Z β T τ t

end field

/-! ## real numbers: the transcendental atoms are Mathlib's functions -/
section real
open Real

/-- interpretation of the atoms over ℝ -/
@[instance_reducible] noncomputable def realTrans : Trans ℝ where
  pi := Real.pi
  sqrt := Real.sqrt
  cbrt := fun x => if 0 ≤ x then x ^ ((1 : ℝ) / 3) else -((-x) ^ ((1 : ℝ) / 3))
  exp := Real.exp
  log := Real.log
  sin := Real.sin
  cos := Real.cos
  tan := Real.tan
  arcsin := Real.arcsin
  arccos := Real.arccos
  arctan := Real.arctan
  tanh := Real.tanh
  arctanh := fun x => Real.log ((1 + x) / (1 - x)) / 2
  arccosh := fun x => Real.log (x + Real.sqrt (x ^ 2 - 1))
  pow := fun x y => x ^ y
  abs := fun x => |x|

attribute [local instance] realTrans

@[simp] theorem tpi : (Trans.pi : ℝ) = π := rfl
@[simp] theorem tsqrt (x : ℝ) : Trans.sqrt x = √x := rfl
@[simp] theorem texp (x : ℝ) : Trans.exp x = Real.exp x := rfl
@[simp] theorem tarcsin (x : ℝ) : Trans.arcsin x = Real.arcsin x := rfl
@[simp] theorem tarccos (x : ℝ) : Trans.arccos x = Real.arccos x := rfl
@[simp] theorem tpow (x y : ℝ) : Trans.pow x y = x ^ y := rfl

/-! ### edge and corner factors at k = 0 are the sphere's -/

theorem arcsin_half : Real.arcsin (1 / 2) = π / 6 := by
  rw [← Real.sin_pi_div_six]
  exact Real.arcsin_sin (by linarith [Real.pi_pos]) (by linarith [Real.pi_pos])

theorem arccos_sqrt3_half : Real.arccos (√3 / 2) = π / 6 := by
  rw [← Real.cos_pi_div_six]
  exact Real.arccos_cos (by linarith [Real.pi_pos]) (by linarith [Real.pi_pos])

theorem edge_sphere_values :
    edge_areaFactor (0 : ℝ) = 4 * π ∧ edge_volumeFactor (0 : ℝ) = 4 * π / 3
    ∧ edge_areaFactor (0 : ℝ) = bulk_areaFactor 0 ∧ edge_volumeFactor (0 : ℝ) = bulk_volumeFactor 0 := by
  have ha : edge_areaFactor (0 : ℝ) = 4 * π := by
    simp only [edge_areaFactor, npow, tpi, tsqrt, tarcsin, tarccos]
    norm_num [arcsin_half, Real.arccos_zero]
    ring
  have hv : edge_volumeFactor (0 : ℝ) = 4 * π / 3 := by
    simp only [edge_volumeFactor, npow, tpi, tsqrt, tarcsin, tarccos]
    norm_num [arcsin_half, Real.arccos_zero]
    ring
  refine ⟨ha, hv, ?_, ?_⟩
  · rw [ha]; simp only [bulk_areaFactor, tpi]; ring
  · rw [hv]; simp only [bulk_volumeFactor, tpi]; ring

end real

end KawinV.Props.C14
