/-
C06 — property theorems (stub; nothing proved yet).
-/
namespace KawinV.Props.C06
end KawinV.Props.C06
