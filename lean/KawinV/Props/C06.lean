/-
C06 — integrators reach their nominal order, also for time-dependent problems.

The theorems are about `KawinV.Gen.C06.rk4` / `euler`: the Butcher tableaux that
tools/corr/C06.py reads off the real kawin/solver/Iterators.py on every run (symbolic execution
through DESolver._getdXdt / _updateX).  A change of a stage time, a stage coefficient or a weight
in the code changes the generated data and these proofs stop checking.

`rkStep T f t x dt` is the general explicit Runge-Kutta step of KawinV.Solver; `rk4Iter` /
`eulerIter` are the hand model of the iterator code (operation order kept), shown here to be that
general step with the generated tableau for EVERY right-hand side `f`.

That the order conditions imply the order of accuracy (Butcher) is cited, not formalised.
-/
import KawinV.Model.Solver
import KawinV.Model.Flatten
import KawinV.Gen.C06Tableau
import Mathlib.Tactic.Ring
import Mathlib.Tactic.NormNum
import Mathlib.Tactic.FieldSimp
import Mathlib.Tactic.Linarith
import Mathlib.Algebra.Order.Field.Basic
import Mathlib.Data.Rat.Cast.CharZero

set_option linter.unusedSectionVars false
set_option linter.unusedVariables false
set_option linter.unusedSimpArgs false

namespace KawinV.Props.C06
open KawinV.Solver KawinV.Gen.C06

/-! ### the tableau as data (ℚ) -/

/-- (A v)_i = Σ_j a_ij v_j -/
def Amul (T : Tableau ℚ) (v : List ℚ) : List ℚ := T.A.map (fun r => dotL r v)
/-- componentwise product -/
def had (u v : List ℚ) : List ℚ := List.zipWith (· * ·) u v
def ones (T : Tableau ℚ) : List ℚ := T.c.map (fun _ => 1)

/-- the eight order conditions of Butcher for order 4 (one per rooted tree with ≤ 4 vertices) -/
structure OrderConditions4 (T : Tableau ℚ) : Prop where
  t1    : dotL T.b (ones T) = 1                          -- •
  t2    : dotL T.b T.c = 1/2                             -- [•]
  t3a   : dotL T.b (had T.c T.c) = 1/3                   -- [•,•]
  t3b   : dotL T.b (Amul T T.c) = 1/6                    -- [[•]]
  t4a   : dotL T.b (had T.c (had T.c T.c)) = 1/4         -- [•,•,•]
  t4b   : dotL T.b (had T.c (Amul T T.c)) = 1/8          -- [•,[•]]
  t4c   : dotL T.b (Amul T (had T.c T.c)) = 1/12         -- [[•,•]]
  t4d   : dotL T.b (Amul T (Amul T T.c)) = 1/24          -- [[[•]]]

/-- **stage times**: the RK4 iterator evaluates the right-hand side at t, t+dt/2, t+dt/2, t+dt —
what its documentation states. -/
theorem rk4_stage_times : rk4.c = [0, 1/2, 1/2, 1] := by decide +kernel

/-- the method is explicit with four stages: row i of A has i entries -/
theorem rk4_explicit : rk4.A.map List.length = [0, 1, 2, 3] ∧ rk4.b.length = 4 ∧ rk4.c.length = 4 := by
  decide +kernel

/-- **row sums**: c_i = Σ_j a_ij (each stage state is consistent with its stage time) -/
theorem rk4_row_sums : Amul rk4 (ones rk4) = rk4.c := by decide +kernel

/-- the classical weights -/
theorem rk4_weights : rk4.b = [1/6, 1/3, 1/3, 1/6] := by decide +kernel

/-- **order conditions**: all 8 conditions up to order 4 hold for the tableau the code implements -/
theorem rk4_order_conditions : OrderConditions4 rk4 := by
  constructor <;> decide +kernel

/-- … and the order is not higher: the bushy-tree condition of order 5 fails -/
theorem rk4_not_order5 : dotL rk4.b (had rk4.c (had rk4.c (had rk4.c rk4.c))) ≠ 1/5 := by
  decide +kernel

/-- Euler: one stage at time t, weight 1; consistent (order 1) … -/
theorem euler_tableau : euler.c = [0] ∧ euler.A = [[]] ∧ euler.b = [1] := by decide +kernel

theorem euler_order1 : dotL euler.b (ones euler) = 1 := by decide +kernel

/-- … and not of order 2 -/
theorem euler_not_order2 : dotL euler.b euler.c ≠ 1/2 := by decide +kernel

theorem euler_row_sums : Amul euler (ones euler) = euler.c := by decide +kernel

/-! ### the glue between iterator and model does not change the method

`rk4_viaModel` / `rk4_viaCoupler` are generated like `rk4`, but the recording callbacks are the
`getdXdt` / `postProcess` of GenericModel subclasses with nested states, and the iterator is
driven by `GenericModel.solve` (DESolver.solve, `_getdXdt`, `_updateX`, flattenX/unflattenX) and by
a `Coupler` of 2 and of 3 differently shaped models (Coupler.getdXdt/getDt/correctdXdt/
flattenX/unflattenX/postProcess): the time and state every (sub-)model receives. -/

/-- a model solved with GenericModel.solve sees exactly the iterator's tableau -/
theorem rk4_viaModel_eq : rk4_viaModel = rk4 := by decide +kernel

theorem euler_viaModel_eq : euler_viaModel = euler := by decide +kernel

/-- every sub-model of a Coupler (2 models, 3 models) sees exactly the iterator's tableau: in
particular its right-hand side is evaluated at t, t+dt/2, t+dt/2, t+dt -/
theorem rk4_viaCoupler_eq : rk4_viaCoupler = [rk4, rk4, rk4, rk4, rk4] := by decide +kernel

theorem euler_viaCoupler_eq : euler_viaCoupler = [euler, euler, euler, euler, euler] := by decide +kernel

/-- hence the order conditions and the documented stage times hold for what every coupled
sub-model is integrated with -/
theorem rk4_viaCoupler_order (T : Tableau ℚ) (h : T ∈ rk4_viaCoupler) :
    OrderConditions4 T ∧ T.c = [0, 1/2, 1/2, 1] := by
  rw [rk4_viaCoupler_eq] at h
  simp only [List.mem_cons, List.mem_nil_iff, or_false, or_self] at h
  subst h
  exact ⟨rk4_order_conditions, rk4_stage_times⟩

theorem rk4_viaModel_order : OrderConditions4 rk4_viaModel ∧ rk4_viaModel.c = [0, 1/2, 1/2, 1] := by
  rw [rk4_viaModel_eq]; exact ⟨rk4_order_conditions, rk4_stage_times⟩

/-! ### what one step computes, over any ordered field -/

variable {α : Type} [Field α] [LinearOrder α] [IsStrictOrderedRing α]

/-- the generated tableau with its entries read in the field α -/
def rk4T : Tableau α := rk4.map (Rat.cast : ℚ → α)
def eulerT : Tableau α := euler.map (Rat.cast : ℚ → α)

theorem rk4T_eq : (rk4T : Tableau α) =
    { c := [0, 1/2, 1/2, 1], A := [[], [1/2], [0, 1/2], [0, 0, 1]], b := [1/6, 1/3, 1/3, 1/6] } := by
  simp [rk4T, rk4, Tableau.map]

theorem eulerT_eq : (eulerT : Tableau α) = { c := [0], A := [[]], b := [1] } := by
  simp [eulerT, euler, Tableau.map]

/-- times at which a step from t with size dt calls the right-hand side -/
theorem rk4_stage_times_field (t dt : α) :
    stageTimes (rk4T : Tableau α) t dt = [t, t + dt / 2, t + dt / 2, t + dt] := by
  simp [stageTimes, rk4T_eq]
  ring

/-- **the iterator code is the Runge-Kutta step of the generated tableau**, for every right-hand
side f (time-dependent or not), every t, x, dt. -/
theorem rk4Iter_eq_rkStep (f : α → α → α) (dt t x : α) :
    (rk4Iter scalarOps f dt t x).xnew = rkStep rk4T f t x dt := by
  have e0 : t + 0 * dt = t := by ring
  have e1 : t + 1 / 2 * dt = t + dt / 2 := by ring
  have e2 : t + 1 * dt = t + dt := by ring
  have r1 : ∀ k : α, x + dt * (1 / 2 * k) = x + dt / 2 * k := by intro k; ring
  have r2 : ∀ k1 k2 : α, x + dt * (0 * k1 + 1 / 2 * k2) = x + dt / 2 * k2 := by intro k1 k2; ring
  have r3 : ∀ k1 k2 k3 : α, x + dt * (0 * k1 + (0 * k2 + 1 * k3)) = x + dt * k3 := by
    intro k1 k2 k3; ring
  simp only [rk4Iter, rkStep, rk4T_eq, rkStages, dotL, updateX, scalarOps, List.nil_append,
    List.cons_append, e0, e1, e2, mul_zero, add_zero, r1, r2, r3]
  generalize f t x = k1
  generalize f (t + dt / 2) (x + dt / 2 * k1) = k2
  generalize f (t + dt / 2) (x + dt / 2 * k2) = k3
  generalize f (t + dt) (x + dt * k3) = k4
  ring

theorem eulerIter_eq_rkStep (f : α → α → α) (dt t x : α) :
    (eulerIter scalarOps f dt t x).xnew = rkStep eulerT f t x dt := by
  have e0 : t + 0 * dt = t := by ring
  simp only [eulerIter, rkStep, eulerT_eq, rkStages, dotL, updateX, scalarOps, List.nil_append, e0,
    mul_zero, add_zero]
  ring

/-- the iterator calls the right-hand side exactly at the documented times, whatever the state
type and the operations on it -/
theorem rk4Iter_call_times {V : Type} (o : VecOps α V) (f : α → V → V) (dt t : α) (x : V) :
    (rk4Iter o f dt t x).calls.map Prod.fst = [t, t + dt / 2, t + dt / 2, t + dt] := rfl

theorem eulerIter_call_times {V : Type} (o : VecOps α V) (f : α → V → V) (dt t : α) (x : V) :
    (eulerIter o f dt t x).calls.map Prod.fst = [t] := rfl

/-- first call is at the given state; **the vector given to the iterator is handed back
untouched** (in the model this is purity; on NumPy arrays the correspondence check and the direct
oracle compare the array before and after, also for right-hand sides returning their argument) -/
theorem rk4Iter_input_untouched {V : Type} (o : VecOps α V) (f : α → V → V) (dt t : α) (x : V) :
    (rk4Iter o f dt t x).xold = x ∧ (rk4Iter o f dt t x).calls.head? = some (t, x) := ⟨rfl, rfl⟩

theorem eulerIter_input_untouched {V : Type} (o : VecOps α V) (f : α → V → V) (dt t : α) (x : V) :
    (eulerIter o f dt t x).xold = x ∧ (eulerIter o f dt t x).calls.head? = some (t, x) := ⟨rfl, rfl⟩

/-! ### exactness on polynomials in t -/

/-- unfolded RK4 step for a right-hand side that depends on time only -/
theorem rk4_quadrature (g : α → α) (t y dt : α) :
    rkStep rk4T (fun s _ => g s) t y dt
      = y + dt * (g t + 4 * g (t + dt / 2) + g (t + dt)) / 6 := by
  have e0 : t + 0 * dt = t := by ring
  have e1 : t + 1 / 2 * dt = t + dt / 2 := by ring
  have e2 : t + 1 * dt = t + dt := by ring
  simp only [rkStep, rk4T_eq, rkStages, dotL, List.nil_append, List.cons_append, e0, e1, e2]
  ring

/-- **y' = const** is integrated exactly -/
theorem rk4_exact_deg0 (c t y dt : α) : rkStep rk4T (fun _ _ => c) t y dt = y + c * dt := by
  rw [rk4_quadrature (fun _ => c)]; ring

/-- **y' = t** is integrated exactly: y + ((t+dt)² − t²)/2 -/
theorem rk4_exact_deg1 (t y dt : α) :
    rkStep rk4T (fun s _ => s) t y dt = y + ((t + dt) ^ 2 - t ^ 2) / 2 := by
  rw [rk4_quadrature (fun s => s)]; ring

/-- **y' = t²** is integrated exactly -/
theorem rk4_exact_deg2 (t y dt : α) :
    rkStep rk4T (fun s _ => s ^ 2) t y dt = y + ((t + dt) ^ 3 - t ^ 3) / 3 := by
  rw [rk4_quadrature (fun s => s ^ 2)]; ring

/-- **y' = t³** is integrated exactly -/
theorem rk4_exact_deg3 (t y dt : α) :
    rkStep rk4T (fun s _ => s ^ 3) t y dt = y + ((t + dt) ^ 4 - t ^ 4) / 4 := by
  rw [rk4_quadrature (fun s => s ^ 3)]; ring

/-- **y' = t⁴**: the error of one step is exactly dt⁵/120 — order 4, not more -/
theorem rk4_error_deg4 (t y dt : α) :
    rkStep rk4T (fun s _ => s ^ 4) t y dt - (y + ((t + dt) ^ 5 - t ^ 5) / 5) = dt ^ 5 / 120 := by
  rw [rk4_quadrature (fun s => s ^ 4)]; ring

/-- the witness of the defect that was repaired (all stages at time t gave 1.5): y' = 2t, y(0) = 1,
two steps of 1/2 arrive at exactly 2 = 1 + 1² -/
theorem rk4_two_steps_2t :
    rkStep rk4T (fun s _ => 2 * s) (1 / 2) (rkStep rk4T (fun s _ => 2 * s) 0 (1 : α) (1 / 2)) (1 / 2) = 2 := by
  rw [rk4_quadrature (fun s => 2 * s), rk4_quadrature (fun s => 2 * s)]; norm_num

/-- Euler integrates constants exactly and has error exactly −dt²/2 on y' = t (order 1, not more) -/
theorem euler_exact_deg0 (c t y dt : α) : rkStep eulerT (fun _ _ => c) t y dt = y + c * dt := by
  simp only [rkStep, eulerT_eq, rkStages, dotL, List.nil_append]; ring

theorem euler_error_deg1 (t y dt : α) :
    rkStep eulerT (fun s _ => s) t y dt - (y + ((t + dt) ^ 2 - t ^ 2) / 2) = - dt ^ 2 / 2 := by
  simp only [rkStep, eulerT_eq, rkStages, dotL, List.nil_append]; ring

/-! ### linear test equation and a right-hand side depending on both t and y -/

/-- **y' = λy**: one RK4 step multiplies by the degree-4 Taylor polynomial of exp at z = λ·dt -/
theorem rk4_linear_test (lam t y dt : α) :
    rkStep rk4T (fun _ u => lam * u) t y dt
      = (1 + lam * dt + (lam * dt) ^ 2 / 2 + (lam * dt) ^ 3 / 6 + (lam * dt) ^ 4 / 24) * y := by
  simp only [rkStep, rk4T_eq, rkStages, dotL, List.nil_append, List.cons_append]
  ring

theorem euler_linear_test (lam t y dt : α) :
    rkStep eulerT (fun _ u => lam * u) t y dt = (1 + lam * dt) * y := by
  simp only [rkStep, eulerT_eq, rkStages, dotL, List.nil_append]; ring

/-- **y' = t·y** from t = 0 (solution y·exp(dt²/2) = y·(1 + dt²/2 + dt⁴/8 + dt⁶/48 + …)): the
step reproduces the series through the dt⁴ term (in fact through dt⁶).  With all stages evaluated
at time t = 0 every stage derivative would be 0 and the step would return y. -/
theorem rk4_time_dependent_ty (y dt : α) :
    rkStep rk4T (fun s u => s * u) 0 y dt = y * (1 + dt ^ 2 / 2 + dt ^ 4 / 8 + dt ^ 6 / 48) := by
  simp only [rkStep, rk4T_eq, rkStages, dotL, List.nil_append, List.cons_append]
  ring

/-- general non-autonomous linear problem y' = a·t·y + b·t + c·y + d: the one-step result agrees
with the Taylor expansion of the exact solution at (t, y) = (0, y) through order dt⁴; stated as:
the RK4 result minus the degree-4 Taylor polynomial is divisible by dt⁵.  Taylor coefficients of
the solution of y' = (a t + c) y + b t + d at t = 0:
  y1 = c y + d,  y2 = a y + c y1 + b,  y3 = 2 a y1 + c y2,  y4 = 3 a y2 + c y3. -/
theorem rk4_local_error_affine (a b c d y dt : α) :
    ∃ r : α, rkStep rk4T (fun s u => a * s * u + b * s + c * u + d) 0 y dt
      - (y + (c * y + d) * dt
           + (a * y + c * (c * y + d) + b) * dt ^ 2 / 2
           + (2 * a * (c * y + d) + c * (a * y + c * (c * y + d) + b)) * dt ^ 3 / 6
           + (3 * a * (a * y + c * (c * y + d) + b)
                + c * (2 * a * (c * y + d) + c * (a * y + c * (c * y + d) + b))) * dt ^ 4 / 24)
      = dt ^ 5 * r := by
  simp only [rkStep, rk4T_eq, rkStages, dotL, List.nil_append, List.cons_append]
  refine ⟨(1 / 96) * a ^ 3 * c * dt ^ 2 * y + (1 / 96) * a ^ 3 * d * dt ^ 2 + (1 / 48) * a ^ 3 * dt * y
    + (1 / 48) * a ^ 2 * b * dt + (5 / 96) * a ^ 2 * c ^ 2 * dt * y + (5 / 96) * a ^ 2 * c * d * dt
    + (1 / 8) * a ^ 2 * c * y + (1 / 16) * a ^ 2 * d + (1 / 16) * a * b * c + (1 / 12) * a * c ^ 3 * y
    + (1 / 12) * a * c ^ 2 * d, ?_⟩
  ring

/-! ### through the solver: exactness at the time the solver reports, for every step sequence

`runX` / `solveX` (KawinV.Solver, Part 3) is the DESolver.solve loop with the state carried along:
in every pass the iterator is given the step `stepDt` and the clock advances by that same step.
If one step of the iterator integrates y' = g(t) exactly (adds G(t+dt) − G(t) for an antiderivative
G), then after ANY run — every proposal function, every min/max step fraction, stop schedule,
number of passes, also when the last step is the short remainder — the state handed to
`postProcess` is exact AT THE TIME handed to `postProcess`: x = x0 + G(currTime) − G(t0). -/

section through
variable (tf dtmin : α) (propose : List α → Dt α) (stopAt : List α → Bool)

theorem stepX_cur (iter : α → α → α → α) (s : St α × α) :
    (stepX tf dtmin propose stopAt iter s).1.cur = s.1.cur + stepDt tf dtmin propose s.1 := rfl

theorem stepX_state (iter : α → α → α → α) (s : St α × α) :
    (stepX tf dtmin propose stopAt iter s).2 = iter (stepDt tf dtmin propose s.1) s.1.cur s.2 := rfl

/-- loop invariant: `x − G(currTime)` never changes -/
theorem runX_telescope (G : α → α) (iter : α → α → α → α)
    (hiter : ∀ dt t x, iter dt t x = x + (G (t + dt) - G t)) (n : Nat) (s : St α × α) :
    (runX tf dtmin propose stopAt iter n s).2 - G (runX tf dtmin propose stopAt iter n s).1.cur
      = s.2 - G s.1.cur := by
  induction n generalizing s with
  | zero => rfl
  | succ n ih =>
    unfold runX
    split_ifs with h
    · rw [ih, stepX_state, stepX_cur, hiter]; ring
    · rfl

/-- **exact at the reported time, through the solver** -/
theorem solveX_telescope (t0 minFrac maxFrac : α) (G : α → α) (iter : α → α → α → α)
    (hiter : ∀ dt t x, iter dt t x = x + (G (t + dt) - G t)) (x0 : α) (fuel : Nat) :
    (solveX t0 tf minFrac maxFrac propose stopAt iter x0 fuel).2
      = x0 + (G (solveX t0 tf minFrac maxFrac propose stopAt iter x0 fuel).1.cur - G t0) := by
  have := runX_telescope tf (minFrac * (tf - t0)) propose stopAt G iter hiter fuel (initSt t0 tf maxFrac, x0)
  unfold solveX
  simp only [initSt] at this ⊢
  linarith

/-- the explicit Euler iterator of the model on y' = c -/
theorem eulerIter_const (c dt t x : α) :
    (eulerIter scalarOps (fun _ _ => c) dt t x).xnew = x + ((fun s => c * s) (t + dt) - (fun s => c * s) t) := by
  simp only [eulerIter, updateX, scalarOps]; ring

/-- the Runge-Kutta iterator of the model on y' = a0 + a1 t + a2 t² + a3 t³ -/
theorem rk4Iter_cubic (a0 a1 a2 a3 dt t x : α) :
    (rk4Iter scalarOps (fun s _ => a0 + a1 * s + a2 * s ^ 2 + a3 * s ^ 3) dt t x).xnew
      = x + ((fun s => a0 * s + a1 * s ^ 2 / 2 + a2 * s ^ 3 / 3 + a3 * s ^ 4 / 4) (t + dt)
             - (fun s => a0 * s + a1 * s ^ 2 / 2 + a2 * s ^ 3 / 3 + a3 * s ^ 4 / 4) t) := by
  rw [rk4Iter_eq_rkStep, rk4_quadrature (fun s => a0 + a1 * s + a2 * s ^ 2 + a3 * s ^ 3)]; ring

/-- **Euler through the solver is exact on constants**: x = x0 + c·(currTime − t0) after any run -/
theorem solve_euler_exact_const (t0 minFrac maxFrac c x0 : α) (fuel : Nat) :
    (solveX t0 tf minFrac maxFrac propose stopAt
        (fun dt t x => (eulerIter scalarOps (fun _ _ => c) dt t x).xnew) x0 fuel).2
      = x0 + c * ((solveX t0 tf minFrac maxFrac propose stopAt
        (fun dt t x => (eulerIter scalarOps (fun _ _ => c) dt t x).xnew) x0 fuel).1.cur - t0) := by
  rw [solveX_telescope tf propose stopAt t0 minFrac maxFrac (fun s => c * s) _ (fun dt t x => eulerIter_const c dt t x)]
  ring

/-- **Runge-Kutta through the solver is exact on polynomials in t up to degree 3** -/
theorem solve_rk4_exact_cubic (t0 minFrac maxFrac a0 a1 a2 a3 x0 : α) (fuel : Nat) :
    let r := solveX t0 tf minFrac maxFrac propose stopAt
        (fun dt t x => (rk4Iter scalarOps (fun s _ => a0 + a1 * s + a2 * s ^ 2 + a3 * s ^ 3) dt t x).xnew) x0 fuel
    r.2 = x0 + (a0 * (r.1.cur - t0) + a1 * (r.1.cur ^ 2 - t0 ^ 2) / 2 + a2 * (r.1.cur ^ 3 - t0 ^ 3) / 3
                + a3 * (r.1.cur ^ 4 - t0 ^ 4) / 4) := by
  intro r
  have := solveX_telescope tf propose stopAt t0 minFrac maxFrac
    (fun s => a0 * s + a1 * s ^ 2 / 2 + a2 * s ^ 3 / 3 + a3 * s ^ 4 / 4) _
    (fun dt t x => rk4Iter_cubic a0 a1 a2 a3 dt t x) x0 fuel
  simp only [r]
  rw [this]; ring

/-- a clock that is moved without the state is not exact: if after a run the clock were set to
another time `t'` while the state stays, exactness at the reported time fails whenever c ≠ 0 -/
theorem moved_clock_not_exact (c x0 t0 cur t' : α) (hc : c ≠ 0) (ht : t' ≠ cur) :
    x0 + c * (cur - t0) ≠ x0 + c * (t' - t0) := by
  intro h
  have h1 : c * (cur - t') = 0 := by linarith
  rcases mul_eq_zero.mp h1 with h2 | h2
  · exact hc h2
  · exact ht (by linarith)

end through

/-! ### who owns the stage derivatives (right-hand sides that reuse one work array)

`rk4IterBuf shared` (KawinV.Solver, Part 4) is RK4Iterator with the reads of k1..k4 resolved for a
right-hand side that evaluates into ONE work array and returns it on every call; `shared` says
whether the flatten function between model and iterator hands that array on (identity flatten of a
bare DESolver, a reshape view) or allocates (np.hstack in GenericModel.flattenX, np.concatenate in
Coupler.flattenX — `Flatten.flattenOwnership = fresh`; measured on the real functions on every
run).  The iterator takes a private copy of k1 before the second call (Iterators.py 71), so the
step is the Runge-Kutta step of the generated tableau for BOTH values of `shared`.
`rk4IterBufNoCopy` is the iterator without that copy (the code before repair be993b1): through a
copying flatten it is still the Runge-Kutta step, with a shared array k1 is read after call 2 and
has the value of k2 — a different, first-order method. -/

section buf

/-- **work-array reuse is invisible**: same result, same calls as the plain iterator, for every
right-hand side, state type, vector operations and for both kinds of flatten function -/
theorem rk4IterBuf_any {V : Type} (sh : Bool) (o : VecOps α V) (f : α → V → V) (dt t : α) (x : V) :
    rk4IterBuf sh o f dt t x = rk4Iter o f dt t x := by
  cases sh <;> rfl

/-- the Euler iterator consumes its single derivative before any other call -/
theorem eulerIterBuf_any {V : Type} (sh : Bool) (o : VecOps α V) (f : α → V → V) (dt t : α) (x : V) :
    eulerIterBuf sh o f dt t x = eulerIter o f dt t x := by
  cases sh <;> rfl

/-- hence a model that reuses its work array is stepped with the generated tableau (all order
conditions), whatever flatten function sits between it and the iterator -/
theorem rk4IterBuf_eq_rkStep (sh : Bool) (f : α → α → α) (dt t x : α) :
    (rk4IterBuf sh scalarOps f dt t x).xnew = rkStep rk4T f t x dt := by
  rw [rk4IterBuf_any, rk4Iter_eq_rkStep]

theorem rk4IterBuf_call_times {V : Type} (sh : Bool) (o : VecOps α V) (f : α → V → V) (dt t : α) (x : V) :
    (rk4IterBuf sh o f dt t x).calls.map Prod.fst = [t, t + dt / 2, t + dt / 2, t + dt] := by
  rw [rk4IterBuf_any]; rfl

theorem rk4IterBuf_input_untouched {V : Type} (sh : Bool) (o : VecOps α V) (f : α → V → V) (dt t : α) (x : V) :
    (rk4IterBuf sh o f dt t x).xold = x := by
  rw [rk4IterBuf_any]; rfl

/-- the iterator WITHOUT the private copy is the Runge-Kutta step when the flatten function copies … -/
theorem rk4IterBufNoCopy_fresh {V : Type} (o : VecOps α V) (f : α → V → V) (dt t : α) (x : V) :
    rk4IterBufNoCopy false o f dt t x = rk4Iter o f dt t x := rfl

/-- … which GenericModel.flattenX (np.hstack — also for a state list that holds a single 1-D array)
and Coupler.flattenX (np.concatenate) do -/
theorem rk4NoCopy_default_flatten {β V : Type} (X : List (Flatten.Item β)) (Xs : List (List (Flatten.Item β)))
    (o : VecOps α V) (f : α → V → V) (dt t : α) (x : V) :
    rk4IterBufNoCopy (Flatten.flattenOwnership X).isShared o f dt t x = rk4Iter o f dt t x ∧
    rk4IterBufNoCopy (Flatten.flattenCOwnership Xs).isShared o f dt t x = rk4Iter o f dt t x := ⟨rfl, rfl⟩

/-- **witness of the unrepaired variant**: without the copy and with a shared work array one step
on y' = λy multiplies by 1 + z + (7/12) z² + z³/6 + z⁴/24 (z = λ·dt) instead of the Taylor
polynomial of exp -/
theorem rk4IterBufNoCopy_shared_linear (lam t y dt : α) :
    (rk4IterBufNoCopy true scalarOps (fun _ u => lam * u) dt t y).xnew
      = (1 + lam * dt + 7 / 12 * (lam * dt) ^ 2 + (lam * dt) ^ 3 / 6 + (lam * dt) ^ 4 / 24) * y := by
  simp only [rk4IterBufNoCopy, readK, updateX, scalarOps, if_true]
  ring

/-- its defect against the Runge-Kutta step is exactly z²·y/12 per step: second order locally,
i.e. the method has dropped to FIRST order -/
theorem rk4IterBufNoCopy_shared_defect (lam t y dt : α) :
    (rk4IterBufNoCopy true scalarOps (fun _ u => lam * u) dt t y).xnew
      - (rk4IterBuf true scalarOps (fun _ u => lam * u) dt t y).xnew = (lam * dt) ^ 2 / 12 * y := by
  rw [rk4IterBufNoCopy_shared_linear, rk4IterBuf_any, rk4Iter_eq_rkStep, rk4_linear_test]; ring

theorem rk4IterBufNoCopy_shared_ne (lam t y dt : α) (hz : lam * dt ≠ 0) (hy : y ≠ 0) :
    (rk4IterBufNoCopy true scalarOps (fun _ u => lam * u) dt t y).xnew
      ≠ (rk4IterBuf true scalarOps (fun _ u => lam * u) dt t y).xnew := by
  intro h
  have := rk4IterBufNoCopy_shared_defect lam t y dt
  rw [h, sub_self] at this
  have h2 : (lam * dt) ^ 2 * y = 0 := by linarith
  rcases mul_eq_zero.mp h2 with h3 | h3
  · exact hz (pow_eq_zero_iff (by norm_num) |>.mp h3)
  · exact hy h3

/-- on a quadrature y' = g(t) it loses the value at the start of the step: weights (0, 5/6, 1/6) on
g(t), g(t+dt/2), g(t+dt) instead of Simpson's (1/6, 4/6, 1/6) -/
theorem rk4IterBufNoCopy_shared_quadrature (g : α → α) (t y dt : α) :
    (rk4IterBufNoCopy true scalarOps (fun s _ => g s) dt t y).xnew
      = y + dt * (5 * g (t + dt / 2) + g (t + dt)) / 6 := by
  simp only [rk4IterBufNoCopy, readK, updateX, scalarOps, if_true]
  ring

/-- … so already y' = 2t, y(0) = 1, one step of 1 does not give 2: not exact on polynomials of degree 1 -/
theorem rk4IterBufNoCopy_shared_not_exact_deg1 :
    (rk4IterBufNoCopy true scalarOps (fun s _ => 2 * s) (1 : α) 0 1).xnew ≠ 2 := by
  rw [rk4IterBufNoCopy_shared_quadrature (fun s => 2 * s)]; norm_num

end buf

/-! ### number formats: the clock is the sum of the steps that advanced the state

`stepXR rnd` / `solveXR rnd` (KawinV.Solver, Part 5): the model answers `getDt` in a number format
with rounding function `rnd`; the solver converts the clamped value to a double once
(`float(dt)`, Solver.py 139) and uses that one number for the clock, the stage times and the state.
All statements hold for EVERY `rnd`. -/

section fmt
variable (rnd : α → α) (tf dtmin : α) (propose : List α → Dt α) (stopAt : List α → Bool)

/-- **one dt**: in one pass with the Runge-Kutta iterator the clock advances by d, the state is
the iterator's result for that same d, the right-hand side is called at t, t+d/2, t+d/2, t+d for
that same d, and d is what is recorded as the accepted step — d the clamped rounded proposal -/
theorem clock_state_same_dt {V : Type} (o : VecOps α V) (f : α → V → V) (s : St α × V) :
    let d := stepDtR rnd tf dtmin propose s.1
    let s' := stepXR rnd tf dtmin propose stopAt (fun dt t x => (rk4Iter o f dt t x).xnew) s
    s'.1.cur = s.1.cur + d ∧ s'.2 = (rk4Iter o f d s.1.cur s.2).xnew ∧
      (rk4Iter o f d s.1.cur s.2).calls.map Prod.fst = [s.1.cur, s.1.cur + d / 2, s.1.cur + d / 2, s.1.cur + d] ∧
      s'.1.steps = (s.1.cur, d) :: s.1.steps := ⟨rfl, rfl, rfl, rfl⟩

theorem clock_state_same_dt_euler {V : Type} (o : VecOps α V) (f : α → V → V) (s : St α × V) :
    let d := stepDtR rnd tf dtmin propose s.1
    let s' := stepXR rnd tf dtmin propose stopAt (fun dt t x => (eulerIter o f dt t x).xnew) s
    s'.1.cur = s.1.cur + d ∧ s'.2 = (eulerIter o f d s.1.cur s.2).xnew ∧
      (eulerIter o f d s.1.cur s.2).calls.map Prod.fst = [s.1.cur] ∧
      s'.1.steps = (s.1.cur, d) :: s.1.steps := ⟨rfl, rfl, rfl, rfl⟩

/-- loop invariant: the clock is the start time plus the sum of the accepted steps -/
theorem runX_clock_sum {V : Type} (t0 : α) (iter : α → α → V → V) (n : Nat) (s : St α × V)
    (h : s.1.cur = t0 + s.1.dts.sum) :
    (runX tf dtmin propose stopAt iter n s).1.cur = t0 + (runX tf dtmin propose stopAt iter n s).1.dts.sum := by
  induction n generalizing s with
  | zero => exact h
  | succ n ih =>
    unfold runX
    split_ifs with hc
    · apply ih
      show s.1.cur + stepDt tf dtmin propose s.1 = t0 + (stepDt tf dtmin propose s.1 :: s.1.dts).sum
      rw [List.sum_cons, h]; ring
    · exact h

/-- **the clock is the sum of the accepted steps**, for every number format of the proposal,
every proposal function, step fractions, stop schedule and iterator -/
theorem solveXR_clock_sum {V : Type} (t0 minFrac maxFrac : α) (iter : α → α → V → V) (x0 : V) (fuel : Nat) :
    (solveXR rnd t0 tf minFrac maxFrac propose stopAt iter x0 fuel).1.cur
      = t0 + (solveXR rnd t0 tf minFrac maxFrac propose stopAt iter x0 fuel).1.dts.sum := by
  unfold solveXR solveX
  apply runX_clock_sum
  simp [initSt, St.dts]

/-- a state component with y' = 1 carried by the Euler iterator is a second clock driven by the
dt of the state update: it agrees with the solver's clock after any run, for every format -/
theorem solveXR_state_clock (t0 minFrac maxFrac x0 : α) (fuel : Nat) :
    (solveXR rnd t0 tf minFrac maxFrac propose stopAt
        (fun dt t x => (eulerIter scalarOps (fun _ _ => (1 : α)) dt t x).xnew) x0 fuel).2 - x0
      = (solveXR rnd t0 tf minFrac maxFrac propose stopAt
        (fun dt t x => (eulerIter scalarOps (fun _ _ => (1 : α)) dt t x).xnew) x0 fuel).1.cur - t0 := by
  unfold solveXR
  rw [solve_euler_exact_const tf (proposeR rnd propose) stopAt t0 minFrac maxFrac 1 x0 fuel]; ring

/-- exactness through the solver for every number format of the proposal -/
theorem solveXR_rk4_exact_cubic (t0 minFrac maxFrac a0 a1 a2 a3 x0 : α) (fuel : Nat) :
    let r := solveXR rnd t0 tf minFrac maxFrac propose stopAt
        (fun dt t x => (rk4Iter scalarOps (fun s _ => a0 + a1 * s + a2 * s ^ 2 + a3 * s ^ 3) dt t x).xnew) x0 fuel
    r.2 = x0 + (a0 * (r.1.cur - t0) + a1 * (r.1.cur ^ 2 - t0 ^ 2) / 2 + a2 * (r.1.cur ^ 3 - t0 ^ 3) / 3
                + a3 * (r.1.cur ^ 4 - t0 ^ 4) / 4) :=
  solve_rk4_exact_cubic tf (proposeR rnd propose) stopAt t0 minFrac maxFrac a0 a1 a2 a3 x0 fuel

/-- the identity format is the plain loop -/
theorem solveXR_id {V : Type} (t0 minFrac maxFrac : α) (iter : α → α → V → V) (x0 : V) (fuel : Nat) :
    solveXR id t0 tf minFrac maxFrac propose stopAt iter x0 fuel
      = solveX t0 tf minFrac maxFrac propose stopAt iter x0 fuel := by
  have : proposeR id propose = propose := by
    funext h; unfold proposeR; cases propose h <;> rfl
  unfold solveXR; rw [this]

/-- the clock kept in a coarser format is the code's loop as long as the format represents every
value the clock takes (the excluding hypothesis, per pass) -/
theorem stepXC_eq_stepX {V : Type} (rndc : α → α) (iter : α → α → V → V) (s : St α × V)
    (h : rndc (s.1.cur + stepDt tf dtmin propose s.1) = s.1.cur + stepDt tf dtmin propose s.1) :
    stepXC rndc tf dtmin propose stopAt iter s = stepX tf dtmin propose stopAt iter s := by
  unfold stepXC stepX
  have hc : (step tf dtmin propose stopAt s.1).cur = s.1.cur + stepDt tf dtmin propose s.1 := rfl
  simp only [hc, h]
  rfl

end fmt

/-- **witness of the broken variant** (ℚ, the coarse format = multiples of 1/4, rounded down): t0 = 0,
tf = 1, proposals 1/3, y' = 1 with Euler.  The clock reads 1/4, 1/2, 3/4, 1 while the state was
advanced by 1/3, 1/3, 1/3, 1/4: at the end the clock says 1, the sum of the accepted steps and the
state say 5/4 — the state is NOT exact at the reported time, and the clock is NOT the sum of the steps. -/
def rndQuarter (q : ℚ) : ℚ := ((q * 4).floor : ℚ) / 4

theorem coarse_clock_drifts :
    let r := solveXC rndQuarter (0 : ℚ) 1 (1/100) 1 (fun _ => .fin (1/3)) (fun _ => false)
      (fun dt t x => (eulerIter scalarOps (fun _ _ => (1 : ℚ)) dt t x).xnew) 0 10
    r.1.cur = 1 ∧ r.1.dts.sum = 5/4 ∧ r.2 = 5/4 ∧ r.2 - 0 ≠ r.1.cur - 0 := by
  decide +kernel

/-- the same run with the clock in full precision (the code): clock = sum of the steps = state = 1 -/
example :
    let r := solveXR id (0 : ℚ) 1 (1/100) 1 (fun _ => .fin (1/3)) (fun _ => false)
      (fun dt t x => (eulerIter scalarOps (fun _ _ => (1 : ℚ)) dt t x).xnew) 0 10
    r.1.cur = 1 ∧ r.1.dts.sum = 1 ∧ r.2 = 1 := by
  decide +kernel

/-- … and with the PROPOSAL in the coarse format (what a float32 `getDt` is): steps 1/4, clock = state -/
example :
    let r := solveXR rndQuarter (0 : ℚ) 1 (1/100) 1 (fun _ => .fin (1/3)) (fun _ => false)
      (fun dt t x => (eulerIter scalarOps (fun _ _ => (1 : ℚ)) dt t x).xnew) 0 10
    r.1.cur = 1 ∧ r.1.dts = [1/4, 1/4, 1/4, 1/4] ∧ r.2 = 1 := by
  decide +kernel

/-- non-vacuity of the hypothesis of `stepXC_eq_stepX`: the quarter format represents 1/4 + 1/4 -/
example : rndQuarter ((1/4 : ℚ) + 1/4) = 1/4 + 1/4 := by decide +kernel

/-- shared work array on concrete numbers: y' = y, y = 1, dt = 1: the code gives 65/24 (Runge-Kutta), the iterator
without the private copy 67/24 -/
example : (rk4IterBufNoCopy true scalarOps (fun _ u => (1 : ℚ) * u) 1 0 1).xnew = 67 / 24 ∧
    (rk4IterBuf true scalarOps (fun _ u => (1 : ℚ) * u) 1 0 1).xnew = 65 / 24 := by
  rw [rk4IterBufNoCopy_shared_linear, rk4IterBuf_any, rk4Iter_eq_rkStep, rk4_linear_test]; norm_num

/-! ### non-vacuity / concrete values -/

example : rkStep (rk4T : Tableau ℚ) (fun s _ => 2 * s) 0 1 (1 / 2) = 5 / 4 := by
  rw [rk4_quadrature (fun s => 2 * s)]; norm_num
example : rkStep (eulerT : Tableau ℚ) (fun _ u => 1 * u) 0 1 (1 / 2) = 3 / 2 := by
  rw [euler_linear_test (1 : ℚ)]; norm_num

/-- through the solver over ℚ: y' = 3t², y(1) = 2, t0 = 1, tf = 3, steps 3/4, 3/4 and the short remainder 1/2
(min fraction 1/4, proposals 3/4): the end state is 2 + 3³ − 1³ = 28 exactly -/
example :
    (solveX (1 : ℚ) 3 (1/4) 1 (fun _ => .fin (3/4)) (fun _ => false)
      (fun dt t x => (rk4Iter scalarOps (fun s _ => 0 + 0 * s + 3 * s ^ 2 + 0 * s ^ 3) dt t x).xnew) 2 10).2 = 28 := by
  decide +kernel

/-! ### histories of solve calls on one model object

`solveCalls` (KawinV.Solver, Part 6) is a history of `GenericModel.solve` calls on ONE model object:
every call names its scheme (`Scheme`: the two built-in iterators or a user-supplied one, as
`DESolver.setIterator` dispatches), its step fractions and simulation time, may be preceded by a
model-level reset, and the model gives its own answers (proposals, stop flags) during it. -/

section calls
variable {V W : Type}

theorem solveCalls_length (step : Scheme α V → α → α → W → W) (init : α × W) (cs : List (Call α V)) (s : α × W) :
    (solveCalls step init cs s).length = cs.length := by
  induction cs generalizing s with
  | nil => rfl
  | cons c cs ih => simp [solveCalls, ih]

/-- the model before call k+1 of `c :: cs` is the model before call k of `cs` started from what call `c` left -/
theorem stateBefore_cons (step : Scheme α V → α → α → W → W) (init : α × W) (c : Call α V) (cs : List (Call α V))
    (s : α × W) (k : Nat) (hk : k < cs.length + 1) :
    stateBefore step init (c :: cs) s (k + 1) = stateBefore step init cs (solveCall step init c s) k := by
  cases k with
  | zero => simp [stateBefore, solveCalls]
  | succ j =>
    have hj : j < (solveCalls step init cs (solveCall step init c s)).length := by
      rw [solveCalls_length]; omega
    simp only [stateBefore, solveCalls, List.getElem?_cons_succ]
    rw [List.getElem?_eq_getElem hj]; rfl

/-- **every call is integrated with the scheme requested IN THAT CALL**: in any history of solve
calls (any schemes, resets, step fractions, simulation times, answers of the model), the model
after call k is the result of ONE run (`solveCall` = `solveX` with the iterator `step cs[k].scheme`)
of the scheme requested in call k, started from what call k-1 left (or from the initial state
after a reset) — nothing else of the earlier calls enters -/
theorem each_call_uses_its_scheme (step : Scheme α V → α → α → W → W) (init : α × W) (cs : List (Call α V))
    (s : α × W) (k : Nat) (hk : k < cs.length) :
    (solveCalls step init cs s)[k]? = some (solveCall step init cs[k] (stateBefore step init cs s k)) := by
  induction cs generalizing s k with
  | nil => simp at hk
  | cons c cs ih =>
    cases k with
    | zero => simp [solveCalls, stateBefore]
    | succ k =>
      have hk' : k < cs.length := by simpa using hk
      simp only [solveCalls, List.getElem?_cons_succ, List.getElem_cons_succ]
      rw [ih (solveCall step init c s) k hk', stateBefore_cons step init c cs s k (by omega)]

/-- … and one call IS a single run of `DESolver.solve` with the iterator of the requested scheme,
from the model's current time over the requested simulation time with the requested step fractions -/
theorem call_is_single_run (step : Scheme α V → α → α → W → W) (init : α × W) (c : Call α V) (s : α × W) :
    solveCall step init c s =
      ((solveX (if c.reset then init else s).1 ((if c.reset then init else s).1 + c.simTime) c.minFrac c.maxFrac
          c.propose c.stopAt (step c.scheme) (if c.reset then init else s).2 c.fuel).1.cur,
       (solveX (if c.reset then init else s).1 ((if c.reset then init else s).1 + c.simTime) c.minFrac c.maxFrac
          c.propose c.stopAt (step c.scheme) (if c.reset then init else s).2 c.fuel).2) := rfl

/-- the iterator a scheme selects (`DESolver.setIterator`) -/
theorem scheme_iter_builtin (o : VecOps α V) (f : α → V → V) :
    (Scheme.euler : Scheme α V).iter o f = eulerIter o f ∧ (Scheme.rk4 : Scheme α V).iter o f = rk4Iter o f ∧
    ∀ it, (Scheme.custom it : Scheme α V).iter o f = it o f := ⟨rfl, rfl, fun _ => rfl⟩

/-- stage pattern of a call: 1 evaluation at t for Euler, 4 at t, t+dt/2, t+dt/2, t+dt for Runge-Kutta,
2 at t, t+dt/2 for the user-supplied midpoint rule -/
theorem scheme_call_times (o : VecOps α V) (f : α → V → V) (dt t : α) (x : V) :
    (((Scheme.euler : Scheme α V).iter o f dt t x).calls.map Prod.fst = [t]) ∧
    (((Scheme.rk4 : Scheme α V).iter o f dt t x).calls.map Prod.fst = [t, t + dt / 2, t + dt / 2, t + dt]) ∧
    (((Scheme.custom midIter : Scheme α V).iter o f dt t x).calls.map Prod.fst = [t, t + dt / 2]) := ⟨rfl, rfl, rfl⟩

/-- **a call that requests Runge-Kutta integrates cubics in t exactly over its own segment**, in any
history, whatever was requested before and whether or not the model was reset -/
theorem call_rk4_exact_cubic (init : α × α) (c : Call α α) (hc : c.scheme = .rk4) (s : α × α) (a0 a1 a2 a3 : α) :
    let s0 := if c.reset then init else s
    let r := solveCall (Scheme.step scalarOps (fun u _ => a0 + a1 * u + a2 * u ^ 2 + a3 * u ^ 3)) init c s
    r.2 = s0.2 + (a0 * (r.1 - s0.1) + a1 * (r.1 ^ 2 - s0.1 ^ 2) / 2 + a2 * (r.1 ^ 3 - s0.1 ^ 3) / 3
                  + a3 * (r.1 ^ 4 - s0.1 ^ 4) / 4) := by
  intro s0 r
  have := solve_rk4_exact_cubic (s0.1 + c.simTime) c.propose c.stopAt s0.1 c.minFrac c.maxFrac a0 a1 a2 a3 s0.2 c.fuel
  simp only [r, solveCall, hc]
  exact this

/-- a call that requests Euler integrates constants exactly over its own segment -/
theorem call_euler_exact_const (init : α × α) (c : Call α α) (hc : c.scheme = .euler) (s : α × α) (k : α) :
    let s0 := if c.reset then init else s
    let r := solveCall (Scheme.step scalarOps (fun _ _ => k)) init c s
    r.2 = s0.2 + k * (r.1 - s0.1) := by
  intro s0 r
  have := solve_euler_exact_const (s0.1 + c.simTime) c.propose c.stopAt s0.1 c.minFrac c.maxFrac k s0.2 c.fuel
  simp only [r, solveCall, hc]
  exact this

/-- the cached-solver variant is the code as long as every later call requests the scheme of the
first (the excluding hypothesis) -/
theorem solveCallsCached_eq_of_same_scheme (step : Scheme α V → α → α → W → W) (init : α × W) (c : Call α V)
    (cs : List (Call α V)) (s : α × W) (h : ∀ d ∈ cs, d.scheme = c.scheme) :
    solveCallsCached step init (c :: cs) s = solveCalls step init (c :: cs) s := by
  have : cs.map (fun d => { d with scheme := c.scheme }) = cs := by
    conv_rhs => rw [← List.map_id cs]
    apply List.map_congr_left
    intro d hd
    have := h d hd
    cases d
    simp only [id] at this ⊢
    simp_all
  simp only [solveCallsCached, this]

/-- counting the right-hand-side evaluations does not change what is integrated -/
theorem runX_stepN_proj (o : VecOps α V) (f : α → V → V) (sc : Scheme α V) (tf dtmin : α) (propose : List α → Dt α)
    (stopAt : List α → Bool) (n : Nat) (s : St α × (V × Nat)) :
    (runX tf dtmin propose stopAt (Scheme.stepN o f sc) n s).1 = (runX tf dtmin propose stopAt (Scheme.step o f sc) n (s.1, s.2.1)).1 ∧
    (runX tf dtmin propose stopAt (Scheme.stepN o f sc) n s).2.1 = (runX tf dtmin propose stopAt (Scheme.step o f sc) n (s.1, s.2.1)).2 := by
  induction n generalizing s with
  | zero => exact ⟨rfl, rfl⟩
  | succ n ih =>
    unfold runX
    by_cases h : s.1.cur < tf ∧ s.1.stop = false
    · rw [if_pos h, if_pos (by exact h)]
      exact ih _
    · rw [if_neg h, if_neg (by exact h)]
      exact ⟨rfl, rfl⟩

end calls

/-- witness history over ℚ: y' = 2t, y(0) = 0; call 1: Euler over 1 with steps 1/2; call 2: after a
reset, Runge-Kutta over 1 with steps 1/2 -/
def histWitness (resetSecond : Bool) : List (Call ℚ ℚ) :=
  [{ scheme := .euler, reset := false, simTime := 1, minFrac := 1/100, maxFrac := 1,
     propose := fun _ => .fin (1/2), stopAt := fun _ => false, fuel := 10 },
   { scheme := .rk4, reset := resetSecond, simTime := 1, minFrac := 1/100, maxFrac := 1,
     propose := fun _ => .fin (1/2), stopAt := fun _ => false, fuel := 10 }]

/-- **witness of the cached-solver variant**: the code integrates the second call with Runge-Kutta
(exact: y(1) = 1), a solver object kept from the first call integrates it with Euler (1/2) -/
theorem cached_solver_ignores_scheme :
    solveCalls (Scheme.step scalarOps (fun u _ => 2 * u)) ((0 : ℚ), (0 : ℚ)) (histWitness true) (0, 0) = [(1, 1/2), (1, 1)] ∧
    solveCallsCached (Scheme.step scalarOps (fun u _ => 2 * u)) ((0 : ℚ), (0 : ℚ)) (histWitness true) (0, 0) = [(1, 1/2), (1, 1/2)] := by
  decide +kernel

/-- the same as a continuation (no reset): from (1, 1/2) Runge-Kutta arrives at 1/2 + 2² − 1² = 7/2, the cached Euler at 3 -/
theorem cached_solver_ignores_scheme_continuation :
    solveCalls (Scheme.step scalarOps (fun u _ => 2 * u)) ((0 : ℚ), (0 : ℚ)) (histWitness false) (0, 0) = [(1, 1/2), (2, 7/2)] ∧
    solveCallsCached (Scheme.step scalarOps (fun u _ => 2 * u)) ((0 : ℚ), (0 : ℚ)) (histWitness false) (0, 0) = [(1, 1/2), (2, 3)] := by
  decide +kernel

/-- non-vacuity of `each_call_uses_its_scheme` (k = 1 < 2) and of the hypothesis of `solveCallsCached_eq_of_same_scheme` -/
example : (1 : Nat) < (histWitness true).length := by decide
example : ∀ d ∈ ([] : List (Call ℚ ℚ)), d.scheme = Scheme.euler := by simp

/-! ### storage type of the model's state arrays

`Flatten.unflattenTyped` is `GenericModel.unflattenX` for a reference state whose items carry the
NumPy type the model chose (int64, int32, float32, float16, float64): the type is not read, the
callbacks receive the VALUES of the flat vector.  `Flatten.deliver X` is one trip through the
nested form (flattenX ∘ unflattenX(·, X)); `rk4IterVia g` / `eulerIterVia g` (KawinV.Solver,
Part 7) are the iterators as the model's callbacks see them through such a trip. -/

section dtype
open KawinV.Flatten
variable {β : Type}

theorem flatten_cons' (it : Item β) (X : List (Item β)) : flatten (it :: X) = it.data ++ flatten X := by
  simp [flatten]

/-- the values handed to the callbacks are the first totalSize entries of the flat vector — for
every reference state, whatever it holds -/
theorem flatten_unflatten_take (ref : List (Item β)) (flat : List β) (Y : List (Item β))
    (h : unflatten flat ref = some Y) : flatten Y = flat.take (totalSize ref) := by
  induction ref generalizing flat Y with
  | nil => simp [unflatten] at h; subst h; simp [flatten, totalSize]
  | cons it ref ih =>
    cases it with
    | scalar x =>
      cases flat with
      | nil => simp [unflatten] at h
      | cons a fs =>
        simp only [unflatten, Option.map_eq_some_iff] at h
        obtain ⟨t, ht, rfl⟩ := h
        rw [flatten_cons', ih fs t ht]
        simp only [Item.data, totalSize, List.map_cons, List.sum_cons, Item.size]
        rw [show 1 + (List.map Item.size ref).sum = (List.map Item.size ref).sum + 1 by omega,
          List.take_succ_cons]
        rfl
    | arr sh d =>
      simp only [unflatten] at h
      split_ifs at h with hlen
      simp only [Option.map_eq_some_iff] at h
      obtain ⟨t, ht, rfl⟩ := h
      rw [flatten_cons', ih _ t ht]
      simp only [Item.data, totalSize, List.map_cons, List.sum_cons, Item.size]
      rw [List.take_add]

/-- **the storage type of the model's arrays does not enter**: one trip through the nested form
returns a flat vector of the state's length unchanged, for every typed reference state -/
theorem deliver_eq (X : TState β) (v : List β) (hv : v.length = totalSize X.items) : deliver X v = v := by
  unfold deliver unflattenTyped
  cases h : unflatten v X.items with
  | none => rfl
  | some Y =>
    simp only
    rw [flatten_unflatten_take _ _ _ h, ← hv, List.take_length]

/-- the casting variant is the code when every array of the state is float64 (the excluding hypothesis) -/
theorem unflattenCast_f64 (cs : Casts β) (X : TState β) (h : ∀ p ∈ X, p.1 = DType.f64) (flat : List β) :
    unflattenCast cs flat X = unflattenTyped flat X := by
  unfold unflattenTyped TState.items
  induction X generalizing flat with
  | nil => rfl
  | cons p X ih =>
    have ih' := fun fl => ih (fun q hq => h q (List.mem_cons_of_mem _ hq)) fl
    obtain ⟨ty, it⟩ := p
    have hty : ty = DType.f64 := h (ty, it) List.mem_cons_self
    subst hty
    cases it with
    | scalar x =>
      cases flat with
      | nil => rfl
      | cons a fs => simp only [unflattenCast, List.map_cons, unflatten, ih']
    | arr sh d =>
      simp only [unflattenCast, List.map_cons, unflatten, ih', DType.cast, List.map_id_fun, id_eq]

theorem deliverCast_f64 (cs : Casts β) (X : TState β) (h : ∀ p ∈ X, p.1 = DType.f64) (v : List β) :
    deliverCast cs X v = deliver X v := by
  unfold deliverCast deliver
  rw [unflattenCast_f64 cs X h]

/-- with the identity trip the iterators seen by the model are the iterators -/
theorem rk4IterVia_id {V : Type} (o : VecOps α V) (f : α → V → V) (dt t : α) (x : V) :
    rk4IterVia id o f dt t x = rk4Iter o f dt t x := rfl

theorem eulerIterVia_id {V : Type} (o : VecOps α V) (f : α → V → V) (dt t : α) (x : V) :
    eulerIterVia id o f dt t x = eulerIter o f dt t x := rfl

theorem listOps_add_length (a b : List α) : (listOps.add a b).length = min a.length b.length := by simp [listOps]
theorem listOps_smul_length (c : α) (a : List α) : (listOps.smul c a).length = a.length := by simp [listOps]
theorem listOps_sdiv_length (a : List α) (c : α) : (listOps.sdiv a c).length = a.length := by simp [listOps]

theorem updateX_length (x k : List α) (dt : α) (hk : k.length = x.length) :
    (updateX listOps x k dt).length = x.length := by
  simp [updateX, listOps, hk]

/-- a trip that fixes the vectors of the state's length is invisible to the Runge-Kutta iterator
(right-hand side that returns as many derivatives as it got state components) -/
theorem rk4IterVia_fixed (g : List α → List α) (f : α → List α → List α) (n : Nat)
    (hg : ∀ v, v.length = n → g v = v) (hf : ∀ t v, v.length = n → (f t v).length = n)
    (dt t : α) (x : List α) (hx : x.length = n) :
    rk4IterVia g listOps f dt t x = rk4Iter listOps f dt t x ∧ (rk4Iter listOps f dt t x).xnew.length = n := by
  have ux : ∀ (k : List α) (d : α), k.length = n → updateXVia g listOps x k d = updateX listOps x k d := by
    intro k d hk; unfold updateXVia updateX; rw [hg k hk]
  have ul : ∀ (k : List α) (d : α), k.length = n → (updateX listOps x k d).length = n := by
    intro k d hk; rw [updateX_length _ _ _ (by rw [hk, hx]), hx]
  have h1 := hf t x hx
  have l1 := ul _ (dt / 2) h1
  have h2 := hf (t + dt / 2) _ l1
  have l2 := ul _ (dt / 2) h2
  have h3 := hf (t + dt / 2) _ l2
  have l3 := ul _ dt h3
  have h4 := hf (t + dt) _ l3
  have hs : (listOps.sdiv (listOps.add (listOps.add (listOps.add (f t x) (listOps.smul 2 (f (t + dt / 2) (updateX listOps x (f t x) (dt / 2)))))
      (listOps.smul 2 (f (t + dt / 2) (updateX listOps x (f (t + dt / 2) (updateX listOps x (f t x) (dt / 2))) (dt / 2)))))
      (f (t + dt) (updateX listOps x (f (t + dt / 2) (updateX listOps x (f (t + dt / 2) (updateX listOps x (f t x) (dt / 2))) (dt / 2))) dt))) (6 : α)).length = n := by
    rw [listOps_sdiv_length, listOps_add_length, listOps_add_length, listOps_add_length, listOps_smul_length, listOps_smul_length,
      h1, h2, h3, h4]
    simp
  constructor
  · simp only [rk4IterVia, rk4Iter]
    rw [hg x hx, ux _ _ h1, hg _ l1, ux _ _ h2, hg _ l2, ux _ _ h3, hg _ l3, ux _ _ hs]
  · simp only [rk4Iter]
    exact ul _ dt hs

theorem eulerIterVia_fixed (g : List α → List α) (f : α → List α → List α) (n : Nat)
    (hg : ∀ v, v.length = n → g v = v) (hf : ∀ t v, v.length = n → (f t v).length = n)
    (dt t : α) (x : List α) (hx : x.length = n) :
    eulerIterVia g listOps f dt t x = eulerIter listOps f dt t x ∧ (eulerIter listOps f dt t x).xnew.length = n := by
  have h1 := hf t x hx
  constructor
  · simp only [eulerIterVia, eulerIter, updateXVia, updateX]
    rw [hg x hx, hg _ h1]
  · simp only [eulerIter]
    rw [updateX_length _ _ _ (by rw [h1, hx]), hx]

/-- **state dtypes**: for EVERY typed reference state X (int64, int32, float32, float16, float64
arrays and scalars in any order), every right-hand side that returns one derivative per state
component, every t, dt and flat state of the state's length: the stage arguments the model's
`getdXdt` receives, the times, and the state handed to `postProcess` are those of the iterator on
the plain values — the trajectory is the float64 trajectory of float(values) -/
theorem iterators_through_typed_state (X : TState α) (f : α → List α → List α)
    (hf : ∀ t v, v.length = totalSize X.items → (f t v).length = totalSize X.items)
    (dt t : α) (x : List α) (hx : x.length = totalSize X.items) :
    rk4IterVia (deliver X) listOps f dt t x = rk4Iter listOps f dt t x ∧
    passVia (deliver X) (rk4IterVia (deliver X) listOps f) dt t x = (rk4Iter listOps f dt t x).xnew ∧
    eulerIterVia (deliver X) listOps f dt t x = eulerIter listOps f dt t x ∧
    passVia (deliver X) (eulerIterVia (deliver X) listOps f) dt t x = (eulerIter listOps f dt t x).xnew := by
  have hg : ∀ v : List α, v.length = totalSize X.items → deliver X v = v := fun v hv => deliver_eq X v hv
  obtain ⟨r1, r2⟩ := rk4IterVia_fixed (deliver X) f _ hg hf dt t x hx
  obtain ⟨e1, e2⟩ := eulerIterVia_fixed (deliver X) f _ hg hf dt t x hx
  refine ⟨r1, ?_, e1, ?_⟩
  · unfold passVia; rw [r1, hg _ r2]
  · unfold passVia; rw [e1, hg _ e2]

end dtype

/-- the conversions of `astype` over ℚ: integer types truncate toward zero (the float formats are not needed for the witness) -/
def truncQ (q : ℚ) : ℚ := ((Int.tdiv q.num q.den : ℤ) : ℚ)
def castsQ : KawinV.Flatten.Casts ℚ := { toF32 := id, toF16 := id, trunc := truncQ }

/-- the oscillator y1' = -y2, y2' = y1 with its state kept as ONE int64 array [1, 0] -/
def oscX : KawinV.Flatten.TState ℚ := [(.i64, .arr [2] [1, 0])]
def oscF : ℚ → List ℚ → List ℚ := fun _ y => match y with | [a, b] => [-b, a] | _ => y

/-- **witness of the casting variant**: with arrays cast back to the storage type of the model's
array every stage state and every accepted state is truncated: from [1, 0] with dt = 1/4 the
Euler pass returns [1, 0] again (the state never moves: order 0) and Runge-Kutta likewise, while
the code moves to [1, 1/4] and [5953/6144, 95/384] -/
theorem casting_unflatten_freezes :
    passVia (KawinV.Flatten.deliverCast castsQ oscX) (eulerIterVia (KawinV.Flatten.deliverCast castsQ oscX) listOps oscF) (1/4) 0 [1, 0] = [1, 0] ∧
    passVia (KawinV.Flatten.deliverCast castsQ oscX) (rk4IterVia (KawinV.Flatten.deliverCast castsQ oscX) listOps oscF) (1/4) 0 [1, 0] = [1, 0] ∧
    passVia (KawinV.Flatten.deliver oscX) (eulerIterVia (KawinV.Flatten.deliver oscX) listOps oscF) (1/4) 0 [1, 0] = [1, 1/4] ∧
    passVia (KawinV.Flatten.deliver oscX) (rk4IterVia (KawinV.Flatten.deliver oscX) listOps oscF) (1/4) 0 [1, 0] = [5953/6144, 95/384] := by
  decide +kernel

/-- the trip itself on concrete numbers -/
example : KawinV.Flatten.deliverCast castsQ oscX [9/10, -7/4] = [0, -1] ∧ KawinV.Flatten.deliver oscX [9/10, -7/4] = [9/10, -7/4] := by
  decide +kernel

/-- non-vacuity of the hypotheses of `iterators_through_typed_state` / `deliverCast_f64` -/
example : ([1, 0] : List ℚ).length = KawinV.Flatten.totalSize oscX.items ∧
    (∀ t v, v.length = KawinV.Flatten.totalSize oscX.items → (oscF t v).length = KawinV.Flatten.totalSize oscX.items) := by
  refine ⟨by decide, ?_⟩
  intro t v hv
  match v, hv with
  | [a, b], _ => rfl
example : ∀ p ∈ ([(.f64, .arr [2] [1, 0])] : KawinV.Flatten.TState ℚ), p.1 = KawinV.Flatten.DType.f64 := by
  intro p hp; simp at hp; subst hp; rfl

end KawinV.Props.C06
