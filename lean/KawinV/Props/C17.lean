/-
C17 — homogenized mobilities respect the classical bounds and address phases by name.
Property theorems about `KawinV.Homog` (hand model of HomogenizationParameters.py, tied to the
source by the correspondence check tools/corr/C17.py).  α is any linearly ordered field; the two
labyrinth statements that need real powers are instantiated on ℝ at the end.
-/
import KawinV.Model.Homog
import Mathlib.Tactic.Ring
import Mathlib.Tactic.Linarith
import Mathlib.Tactic.FieldSimp
import Mathlib.Tactic.NormNum
import Mathlib.Tactic.Positivity
import Mathlib.Algebra.Order.Field.Basic
import Mathlib.Analysis.SpecialFunctions.Pow.Real

set_option linter.unusedSectionVars false
set_option linter.unusedVariables false
set_option linter.unusedSimpArgs false
set_option linter.unnecessarySimpa false

namespace KawinV.Props.C17
open KawinV.Homog

variable {α : Type} [Field α] [LinearOrder α] [IsStrictOrderedRing α]

/-! ### sums over the phase list -/

/-- `Σ_{p ∈ l} g p` -/
def S {β : Type} (g : β → α) (l : List β) : α := (l.map g).sum

@[simp] theorem S_nil {β : Type} (g : β → α) : S g [] = 0 := by simp [S]
@[simp] theorem S_cons {β : Type} (g : β → α) (p : β) (l : List β) : S g (p :: l) = g p + S g l := by
  simp [S]

/-- the code's left-to-right accumulation is the sum -/
theorem sumMap_eq (g : α × α → α) (ps : List (α × α)) : sumMap g ps = S g ps := by
  unfold sumMap
  suffices h : ∀ a, ps.foldl (fun acc p => acc + g p) a = a + S g ps by simpa using h 0
  induction ps with
  | nil => intro a; simp
  | cons p ps ih => intro a; simp [List.foldl_cons, ih, add_assoc]

theorem S_add {β : Type} (g h : β → α) (l : List β) :
    S (fun p => g p + h p) l = S g l + S h l := by
  induction l with
  | nil => simp
  | cons p l ih => simp [ih]; ring

theorem S_mul_left {β : Type} (c : α) (g : β → α) (l : List β) :
    S (fun p => c * g p) l = c * S g l := by
  induction l with
  | nil => simp
  | cons p l ih => simp [ih]; ring

theorem S_mono {β : Type} (g h : β → α) (l : List β) (hgh : ∀ p ∈ l, g p ≤ h p) :
    S g l ≤ S h l := by
  induction l with
  | nil => simp
  | cons p l ih =>
    simp only [S_cons]
    have h1 := hgh p (by simp)
    have h2 := ih (fun q hq => hgh q (by simp [hq]))
    linarith

theorem S_congr {β : Type} (g h : β → α) (l : List β) (hgh : ∀ p ∈ l, g p = h p) :
    S g l = S h l :=
  le_antisymm (S_mono g h l (fun p hp => (hgh p hp).le)) (S_mono h g l (fun p hp => (hgh p hp).ge))

theorem S_nonneg {β : Type} (g : β → α) (l : List β) (hg : ∀ p ∈ l, 0 ≤ g p) : 0 ≤ S g l := by
  have := S_mono (fun _ => (0:α)) g l hg
  have h0 : S (fun _ : β => (0:α)) l = 0 := by
    induction l with
    | nil => simp
    | cons p l ih => simp [ih (fun q hq => hg q (by simp [hq])) (S_mono _ _ _ (fun q hq => hg q (by simp [hq])))]
  linarith

theorem le_S_of_mem {β : Type} (g : β → α) (l : List β) (hg : ∀ p ∈ l, 0 ≤ g p) (p : β) (hp : p ∈ l) :
    g p ≤ S g l := by
  induction l with
  | nil => simp at hp
  | cons q l ih =>
    simp only [S_cons]
    have hl := S_nonneg g l (fun r hr => hg r (by simp [hr]))
    rcases List.mem_cons.mp hp with rfl | h
    · linarith
    · have := ih (fun r hr => hg r (by simp [hr])) h
      have := hg q (by simp)
      linarith

theorem S_perm {β : Type} (g : β → α) (l l' : List β) (h : l.Perm l') : S g l = S g l' := by
  induction h with
  | nil => rfl
  | cons x _ ih => simp [ih]
  | swap x y l => simp; ring
  | trans _ _ ih1 ih2 => exact ih1.trans ih2

/-- a weighted sum of positive terms with non-negative weights of positive total is positive -/
theorem S_weighted_pos (ps : List (α × α)) (g : α × α → α)
    (hf : ∀ p ∈ ps, 0 ≤ p.1) (hg : ∀ p ∈ ps, 0 < g p) (hs : 0 < S Prod.fst ps) :
    0 < S (fun p => p.1 * g p) ps := by
  induction ps with
  | nil => simp at hs
  | cons q l ih =>
    simp only [S_cons] at hs ⊢
    have hq := hf q (by simp)
    have hgq := hg q (by simp)
    have hrest : 0 ≤ S (fun p => p.1 * g p) l :=
      S_nonneg _ l (fun r hr => mul_nonneg (hf r (by simp [hr])) (hg r (by simp [hr])).le)
    rcases hq.lt_or_eq with h | h
    · have := mul_pos h hgq; linarith
    · have h' : 0 < S Prod.fst l := by rw [← h] at hs; simpa using hs
      have := ih (fun r hr => hf r (by simp [hr])) (fun r hr => hg r (by simp [hr])) h'
      rw [← h]; simpa using this

/-- weights times an affine bound, summed -/
theorem S_weighted_le (ps : List (α × α)) (φ ψ : α × α → α) (c0 c1 : α)
    (hf : ∀ p ∈ ps, 0 ≤ p.1) (h : ∀ p ∈ ps, φ p ≤ c0 + c1 * ψ p) :
    S (fun p => p.1 * φ p) ps ≤ c0 * S Prod.fst ps + c1 * S (fun p => p.1 * ψ p) ps := by
  have h1 : S (fun p => p.1 * φ p) ps ≤ S (fun p => c0 * p.1 + c1 * (p.1 * ψ p)) ps := by
    apply S_mono; intro p hp
    have := mul_le_mul_of_nonneg_left (h p hp) (hf p hp)
    have e : p.1 * (c0 + c1 * ψ p) = c0 * p.1 + c1 * (p.1 * ψ p) := by ring
    linarith
  rw [S_add, S_mul_left, S_mul_left] at h1
  exact h1

theorem S_weighted_ge (ps : List (α × α)) (φ ψ : α × α → α) (c0 c1 : α)
    (hf : ∀ p ∈ ps, 0 ≤ p.1) (h : ∀ p ∈ ps, c0 + c1 * ψ p ≤ φ p) :
    c0 * S Prod.fst ps + c1 * S (fun p => p.1 * ψ p) ps ≤ S (fun p => p.1 * φ p) ps := by
  have h1 : S (fun p => c0 * p.1 + c1 * (p.1 * ψ p)) ps ≤ S (fun p => p.1 * φ p) ps := by
    apply S_mono; intro p hp
    have := mul_le_mul_of_nonneg_left (h p hp) (hf p hp)
    have e : p.1 * (c0 + c1 * ψ p) = c0 * p.1 + c1 * (p.1 * ψ p) := by ring
    linarith
  rw [S_add, S_mul_left, S_mul_left] at h1
  exact h1

/-! ### np.amax / np.amin of a column -/

theorem foldl_max_spec (xs : List α) (a : α) :
    a ≤ xs.foldl (fun a b => if a < b then b else a) a ∧
    (∀ x ∈ xs, x ≤ xs.foldl (fun a b => if a < b then b else a) a) ∧
    (xs.foldl (fun a b => if a < b then b else a) a = a ∨
      xs.foldl (fun a b => if a < b then b else a) a ∈ xs) := by
  induction xs generalizing a with
  | nil => simp
  | cons y ys ih =>
    simp only [List.foldl_cons, List.mem_cons]
    obtain ⟨h1, h2, h3⟩ := ih (if a < y then y else a)
    have ha : a ≤ (if a < y then y else a) := by split <;> [exact le_of_lt ‹_›; exact le_refl _]
    have hy : y ≤ (if a < y then y else a) := by split <;> [exact le_refl _; exact not_lt.mp ‹_›]
    refine ⟨ha.trans h1, ?_, ?_⟩
    · intro x hx
      rcases hx with rfl | hx
      · exact hy.trans h1
      · exact h2 x hx
    · rcases h3 with h | h
      · by_cases hay : a < y
        · right; left; rw [h]; simp [hay]
        · left; rw [h]; simp [hay]
      · right; right; exact h

theorem foldl_min_spec (xs : List α) (a : α) :
    xs.foldl (fun a b => if b < a then b else a) a ≤ a ∧
    (∀ x ∈ xs, xs.foldl (fun a b => if b < a then b else a) a ≤ x) ∧
    (xs.foldl (fun a b => if b < a then b else a) a = a ∨
      xs.foldl (fun a b => if b < a then b else a) a ∈ xs) := by
  induction xs generalizing a with
  | nil => simp
  | cons y ys ih =>
    simp only [List.foldl_cons, List.mem_cons]
    obtain ⟨h1, h2, h3⟩ := ih (if y < a then y else a)
    have ha : (if y < a then y else a) ≤ a := by split <;> [exact le_of_lt ‹_›; exact le_refl _]
    have hy : (if y < a then y else a) ≤ y := by split <;> [exact le_refl _; exact not_lt.mp ‹_›]
    refine ⟨h1.trans ha, ?_, ?_⟩
    · intro x hx
      rcases hx with rfl | hx
      · exact h1.trans hy
      · exact h2 x hx
    · rcases h3 with h | h
      · by_cases hay : y < a
        · right; left; rw [h]; simp [hay]
        · left; rw [h]; simp [hay]
      · right; right; exact h

theorem le_maxL (l : List α) (x : α) (hx : x ∈ l) : x ≤ maxL l := by
  cases l with
  | nil => simp at hx
  | cons y ys =>
    obtain ⟨h1, h2, _⟩ := foldl_max_spec ys y
    rcases List.mem_cons.mp hx with rfl | h
    · exact h1
    · exact h2 x h

theorem maxL_mem (l : List α) (hl : l ≠ []) : maxL l ∈ l := by
  cases l with
  | nil => exact absurd rfl hl
  | cons y ys =>
    obtain ⟨_, _, h3⟩ := foldl_max_spec ys y
    show ys.foldl (fun a b => if a < b then b else a) y ∈ y :: ys
    rcases h3 with h | h
    · rw [h]; simp
    · exact List.mem_cons_of_mem _ h

theorem minL_le (l : List α) (x : α) (hx : x ∈ l) : minL l ≤ x := by
  cases l with
  | nil => simp at hx
  | cons y ys =>
    obtain ⟨h1, h2, _⟩ := foldl_min_spec ys y
    rcases List.mem_cons.mp hx with rfl | h
    · exact h1
    · exact h2 x h

theorem minL_mem (l : List α) (hl : l ≠ []) : minL l ∈ l := by
  cases l with
  | nil => exact absurd rfl hl
  | cons y ys =>
    obtain ⟨_, _, h3⟩ := foldl_min_spec ys y
    show ys.foldl (fun a b => if b < a then b else a) y ∈ y :: ys
    rcases h3 with h | h
    · rw [h]; simp
    · exact List.mem_cons_of_mem _ h

theorem maxL_perm (l l' : List α) (h : l.Perm l') : maxL l = maxL l' := by
  by_cases hl : l = []
  · subst hl; rw [(List.nil_perm.mp h)]
  · have hl' : l' ≠ [] := fun e => hl (by subst e; exact List.perm_nil.mp h)
    exact le_antisymm (le_maxL l' _ (h.mem_iff.mp (maxL_mem l hl)))
      (le_maxL l _ (h.mem_iff.mpr (maxL_mem l' hl')))

theorem minL_perm (l l' : List α) (h : l.Perm l') : minL l = minL l' := by
  by_cases hl : l = []
  · subst hl; rw [(List.nil_perm.mp h)]
  · have hl' : l' ≠ [] := fun e => hl (by subst e; exact List.perm_nil.mp h)
    exact le_antisymm (minL_le l _ (h.mem_iff.mpr (minL_mem l' hl')))
      (minL_le l' _ (h.mem_iff.mp (minL_mem l hl)))

/-! ### the harmonic family  T c = Σ f/(M + c),  H γ = 1/T(2γ) − 2γ -/

/-- `Σ fᵢ · 1/(Mᵢ + c)` -/
def T (c : α) (ps : List (α × α)) : α := S (fun p => p.1 * (1 / (p.2 + c))) ps

/-- `H γ = 1/Σ fᵢ/(Mᵢ+2γ) − 2γ`: the Hashin–Shtrikman value with reference mobility γ -/
def H (γ : α) (ps : List (α × α)) : α := 1 / T (2 * γ) ps - 2 * γ

/-- the hypotheses of the property: defined (positive) mobilities, fractions on the simplex -/
structure Valid (ps : List (α × α)) : Prop where
  mob_pos : ∀ p ∈ ps, 0 < p.2
  fr_nonneg : ∀ p ∈ ps, 0 ≤ p.1
  fr_sum : S Prod.fst ps = 1

theorem Valid.ne_nil {ps : List (α × α)} (h : Valid ps) : ps ≠ [] := by
  intro e; have := h.fr_sum; rw [e] at this; simp at this

theorem T_pos {ps : List (α × α)} (h : Valid ps) (c : α) (hc : 0 ≤ c) : 0 < T c ps := by
  apply S_weighted_pos ps (fun p => 1 / (p.2 + c)) h.fr_nonneg
  · intro p hp; have := h.mob_pos p hp; positivity
  · rw [h.fr_sum]; exact one_pos

/-- **tangent-line inequality** for the concave map `u ↦ u/(1+du)` at `u = 1/a`, tangent at `s` -/
theorem tangent (a s d : α) (ha : 0 < a) (hs : 0 < s) (hd : 0 ≤ d) :
    1 / (a + d) ≤ s / (1 + d * s) + (1 / a - s) / (1 + d * s) ^ 2 := by
  have h1 : 0 < 1 + d * s := by positivity
  have h2 : 0 < a + d := by positivity
  have key : s / (1 + d * s) + (1 / a - s) / (1 + d * s) ^ 2 - 1 / (a + d)
      = d * (s * a - 1) ^ 2 / (a * (a + d) * (1 + d * s) ^ 2) := by
    field_simp; ring
  have : 0 ≤ d * (s * a - 1) ^ 2 / (a * (a + d) * (1 + d * s) ^ 2) := by positivity
  linarith

/-- summed with the weights: `Σ f/(a+d) ≤ s/(1+ds)` with `s = Σ f/a`, i.e.
`1/Σ f/(a+d) ≥ 1/Σ f/a + d` -/
theorem T_shift {ps : List (α × α)} (h : Valid ps) (c d : α) (hc : 0 ≤ c) (hd : 0 ≤ d) :
    T (c + d) ps ≤ T c ps / (1 + d * T c ps) := by
  have hs := T_pos h c hc
  set s := T c ps with hsdef
  have h1 : 0 < 1 + d * s := by positivity
  have := S_weighted_le ps (fun p => 1 / (p.2 + (c + d))) (fun p => 1 / (p.2 + c))
    (s / (1 + d * s) - s / (1 + d * s) ^ 2) (1 / (1 + d * s) ^ 2) h.fr_nonneg (by
      intro p hp
      have hp2 := h.mob_pos p hp
      have t := tangent (p.2 + c) s d (by positivity) hs hd
      have e : s / (1 + d * s) - s / (1 + d * s) ^ 2 + 1 / (1 + d * s) ^ 2 * (1 / (p.2 + c))
          = s / (1 + d * s) + (1 / (p.2 + c) - s) / (1 + d * s) ^ 2 := by ring
      have e3 : p.2 + (c + d) = p.2 + c + d := by ring
      rw [e, e3]; exact t)
  rw [h.fr_sum] at this
  have e2 : (s / (1 + d * s) - s / (1 + d * s) ^ 2) * 1 + 1 / (1 + d * s) ^ 2 * s = s / (1 + d * s) := by
    ring
  have hT : T (c + d) ps = S (fun p => p.1 * (1 / (p.2 + (c + d)))) ps := rfl
  have hT' : S (fun p => p.1 * (1 / (p.2 + c))) ps = s := rfl
  rw [hT]; rw [hT'] at this; linarith

theorem inv_T_shift {ps : List (α × α)} (h : Valid ps) (c d : α) (hc : 0 ≤ c) (hd : 0 ≤ d) :
    1 / T c ps + d ≤ 1 / T (c + d) ps := by
  have hs := T_pos h c hc
  have hs' := T_pos h (c + d) (by positivity)
  have h1 : 0 < 1 + d * T c ps := by positivity
  have := one_div_le_one_div_of_le hs' (T_shift h c d hc hd)
  have e : 1 / (T c ps / (1 + d * T c ps)) = 1 / T c ps + d := by field_simp
  rw [e] at this; exact this

/-- **H is non-decreasing in the reference mobility** -/
theorem H_mono {ps : List (α × α)} (h : Valid ps) (γ₁ γ₂ : α) (h1 : 0 ≤ γ₁) (h12 : γ₁ ≤ γ₂) :
    H γ₁ ps ≤ H γ₂ ps := by
  unfold H
  have := inv_T_shift h (2 * γ₁) (2 * (γ₂ - γ₁)) (by positivity) (by linarith)
  have e : 2 * γ₁ + 2 * (γ₂ - γ₁) = 2 * γ₂ := by ring
  rw [e] at this; linarith

/-- weighted arithmetic mean `Σ f M` -/
theorem wienerUpper_eq (ps : List (α × α)) : wienerUpper ps = S (fun p => p.1 * p.2) ps := by
  unfold wienerUpper; exact sumMap_eq _ _

theorem wienerLower_eq (ps : List (α × α)) : wienerLower ps = 1 / T 0 ps := by
  unfold wienerLower T; rw [sumMap_eq]; simp

theorem wienerUpper_pos {ps : List (α × α)} (h : Valid ps) : 0 < wienerUpper ps := by
  rw [wienerUpper_eq]
  exact S_weighted_pos ps Prod.snd h.fr_nonneg h.mob_pos (by rw [h.fr_sum]; exact one_pos)

/-- harmonic ≤ arithmetic, shifted: `1/Σ f/(M+c) ≤ Σ f M + c` -/
theorem inv_T_le {ps : List (α × α)} (h : Valid ps) (c : α) (hc : 0 ≤ c) :
    1 / T c ps ≤ wienerUpper ps + c := by
  have hA := wienerUpper_pos h
  set A := wienerUpper ps + c with hAdef
  have hApos : 0 < A := by positivity
  have hsum : S (fun p => p.1 * (p.2 + c)) ps = A := by
    have : S (fun p => p.1 * (p.2 + c)) ps = S (fun p => p.1 * p.2 + c * p.1) ps :=
      S_congr _ _ _ (fun p _ => by ring)
    rw [this, S_add, S_mul_left, h.fr_sum, ← wienerUpper_eq]; ring
  have := S_weighted_ge ps (fun p => 1 / (p.2 + c)) (fun p => p.2 + c) (2 / A) (-(1 / A ^ 2))
    h.fr_nonneg (by
      intro p hp
      have hp2 := h.mob_pos p hp
      have ha : 0 < p.2 + c := by positivity
      have key : 1 / (p.2 + c) - (2 / A + -(1 / A ^ 2) * (p.2 + c))
          = (A - (p.2 + c)) ^ 2 / ((p.2 + c) * A ^ 2) := by field_simp; ring
      have : 0 ≤ (A - (p.2 + c)) ^ 2 / ((p.2 + c) * A ^ 2) := by positivity
      linarith)
  rw [h.fr_sum, hsum] at this
  have e : 2 / A * 1 + -(1 / A ^ 2) * A = 1 / A := by field_simp; ring
  rw [e] at this
  have hTe : S (fun p => p.1 * (1 / (p.2 + c))) ps = T c ps := rfl
  rw [hTe] at this
  have hT := T_pos h c hc
  have := one_div_le_one_div_of_le (by positivity) this
  simpa using this

theorem H_le_wienerUpper {ps : List (α × α)} (h : Valid ps) (γ : α) (hγ : 0 ≤ γ) :
    H γ ps ≤ wienerUpper ps := by
  unfold H
  have := inv_T_le h (2 * γ) (by positivity)
  linarith

theorem H_zero (ps : List (α × α)) : H 0 ps = wienerLower ps := by
  rw [wienerLower_eq]; unfold H; simp

/-- **the code's `Ak` form is H**: `γ + Ak/(1 − Ak/(3γ))` with
`Ak = Σ f (M−γ)(3γ)/(2γ+M)` equals `1/Σ f/(M+2γ) − 2γ` -/
theorem hsGeneral_eq_H {ps : List (α × α)} (h : Valid ps) (γ : α) (hγ : 0 < γ) :
    hsGeneral ps γ = H γ ps := by
  have hT := T_pos h (2 * γ) (by positivity)
  have hak : sumMap (hsTerm γ) ps = 3 * γ * (1 - 3 * γ * T (2 * γ) ps) := by
    rw [sumMap_eq]
    have : S (hsTerm γ) ps
        = S (fun p => (3 * γ) * p.1 + (-(3 * γ * (3 * γ))) * (p.1 * (1 / (p.2 + 2 * γ)))) ps := by
      apply S_congr; intro p hp
      have hp2 := h.mob_pos p hp
      have : 0 < 2 * γ + p.2 := by positivity
      have : 0 < p.2 + 2 * γ := by positivity
      unfold hsTerm; field_simp; ring
    rw [this, S_add, S_mul_left, S_mul_left, h.fr_sum]
    unfold T; ring
  unfold hsGeneral H
  simp only [hak]
  generalize T (2 * γ) ps = t at hT
  have hT' := hT.ne'
  have hγ' := hγ.ne'
  have e1 : 1 - 3 * γ * (1 - 3 * γ * t) / (3 * γ) = 3 * γ * t := by
    field_simp; ring
  rw [e1]; field_simp; ring


/-! ### ordering and bounds of the four bound rules -/

theorem snd_mem {ps : List (α × α)} {p : α × α} (hp : p ∈ ps) : p.2 ∈ ps.map Prod.snd :=
  List.mem_map.mpr ⟨p, hp, rfl⟩

theorem snd_ne_nil {ps : List (α × α)} (h : Valid ps) : ps.map Prod.snd ≠ [] := by
  intro e; exact h.ne_nil (List.map_eq_nil_iff.mp e)

theorem minL_pos {ps : List (α × α)} (h : Valid ps) : 0 < minL (ps.map Prod.snd) := by
  obtain ⟨p, hp, e⟩ := List.mem_map.mp (minL_mem _ (snd_ne_nil h))
  rw [← e]; exact h.mob_pos p hp

theorem minL_le_maxL {ps : List (α × α)} (h : Valid ps) :
    minL (ps.map Prod.snd) ≤ maxL (ps.map Prod.snd) :=
  minL_le _ _ (maxL_mem _ (snd_ne_nil h))

/-- the code's lower / upper Hashin–Shtrikman functions are H at the smallest / largest mobility -/
theorem hsLower_eq {ps : List (α × α)} (h : Valid ps) : hsLower ps = H (minL (ps.map Prod.snd)) ps :=
  hsGeneral_eq_H h _ (minL_pos h)

theorem hsUpper_eq {ps : List (α × α)} (h : Valid ps) : hsUpper ps = H (maxL (ps.map Prod.snd)) ps :=
  hsGeneral_eq_H h _ (lt_of_lt_of_le (minL_pos h) (minL_le_maxL h))

/-- **lower Wiener ≤ lower Hashin–Shtrikman** -/
theorem wienerLower_le_hsLower {ps : List (α × α)} (h : Valid ps) : wienerLower ps ≤ hsLower ps := by
  rw [hsLower_eq h, ← H_zero]; exact H_mono h 0 _ (le_refl _) (minL_pos h).le

/-- **lower Hashin–Shtrikman ≤ upper Hashin–Shtrikman** -/
theorem hsLower_le_hsUpper {ps : List (α × α)} (h : Valid ps) : hsLower ps ≤ hsUpper ps := by
  rw [hsLower_eq h, hsUpper_eq h]; exact H_mono h _ _ (minL_pos h).le (minL_le_maxL h)

/-- **upper Hashin–Shtrikman ≤ upper Wiener** -/
theorem hsUpper_le_wienerUpper {ps : List (α × α)} (h : Valid ps) : hsUpper ps ≤ wienerUpper ps := by
  rw [hsUpper_eq h]; exact H_le_wienerUpper h _ ((minL_pos h).le.trans (minL_le_maxL h))

/-- **upper Wiener ≤ largest phase mobility** -/
theorem wienerUpper_le_max {ps : List (α × α)} (h : Valid ps) :
    wienerUpper ps ≤ maxL (ps.map Prod.snd) := by
  rw [wienerUpper_eq]
  have := S_mono (fun p => p.1 * p.2) (fun p => maxL (ps.map Prod.snd) * p.1) ps (by
    intro p hp
    have := mul_le_mul_of_nonneg_left (le_maxL _ _ (snd_mem hp)) (h.fr_nonneg p hp)
    linarith [mul_comm p.1 (maxL (ps.map Prod.snd))])
  rw [S_mul_left, h.fr_sum] at this; linarith

/-- **smallest phase mobility ≤ lower Wiener** -/
theorem min_le_wienerLower {ps : List (α × α)} (h : Valid ps) :
    minL (ps.map Prod.snd) ≤ wienerLower ps := by
  rw [wienerLower_eq]
  have hm := minL_pos h
  have hT := T_pos h 0 (le_refl _)
  have : T 0 ps ≤ 1 / minL (ps.map Prod.snd) := by
    have := S_mono (fun p => p.1 * (1 / (p.2 + 0))) (fun p => (1 / minL (ps.map Prod.snd)) * p.1) ps (by
      intro p hp
      have hp2 := h.mob_pos p hp
      have hle := minL_le _ _ (snd_mem hp)
      have : 1 / (p.2 + 0) ≤ 1 / minL (ps.map Prod.snd) := by
        rw [add_zero]; exact one_div_le_one_div_of_le hm hle
      have := mul_le_mul_of_nonneg_left this (h.fr_nonneg p hp)
      linarith [mul_comm p.1 (1 / minL (ps.map Prod.snd))])
    rw [S_mul_left, h.fr_sum] at this
    unfold T; linarith
  have := one_div_le_one_div_of_le hT this
  simpa using this

/-- **the whole chain** for the public functions (`applyRule` = substitute undefined entries, then
average): with defined mobilities the substitution does nothing and
`min M ≤ W_lower ≤ HS_lower ≤ HS_upper ≤ W_upper ≤ max M`. -/
theorem subst_of_pos (sub m : α) (hm : 0 < m) : subst sub m = m := by
  unfold subst isDefined
  have : (-1 : α) < m := by linarith
  simp [this]

theorem prep_of_valid {ps : List (α × α)} (h : Valid ps) (sub : α) : prep sub ps = ps := by
  unfold prep
  conv_rhs => rw [← List.map_id ps]
  apply List.map_congr_left
  intro p hp
  simp [subst_of_pos sub p.2 (h.mob_pos p hp)]

theorem ordering (pw : α → α → α) (tiny big n : α) {ps : List (α × α)} (h : Valid ps) :
    minL (ps.map Prod.snd) ≤ applyRule pw tiny big n .wienerLower ps ∧
    applyRule pw tiny big n .wienerLower ps ≤ applyRule pw tiny big n .hashinLower ps ∧
    applyRule pw tiny big n .hashinLower ps ≤ applyRule pw tiny big n .hashinUpper ps ∧
    applyRule pw tiny big n .hashinUpper ps ≤ applyRule pw tiny big n .wienerUpper ps ∧
    applyRule pw tiny big n .wienerUpper ps ≤ maxL (ps.map Prod.snd) := by
  simp only [applyRule, prep_of_valid h]
  exact ⟨min_le_wienerLower h, wienerLower_le_hsLower h, hsLower_le_hsUpper h,
    hsUpper_le_wienerUpper h, wienerUpper_le_max h⟩

/-- every one of the four bound rules lies between the smallest and the largest phase mobility -/
theorem bounds (pw : α → α → α) (tiny big n : α) {ps : List (α × α)} (h : Valid ps) (r : Rule)
    (hr : r ≠ .labyrinth) :
    minL (ps.map Prod.snd) ≤ applyRule pw tiny big n r ps ∧
    applyRule pw tiny big n r ps ≤ maxL (ps.map Prod.snd) := by
  obtain ⟨h1, h2, h3, h4, h5⟩ := ordering pw tiny big n h
  cases r with
  | wienerUpper => exact ⟨h1.trans (h2.trans (h3.trans h4)), h5⟩
  | wienerLower => exact ⟨h1, h2.trans (h3.trans (h4.trans h5))⟩
  | hashinUpper => exact ⟨h1.trans (h2.trans h3), h4.trans h5⟩
  | hashinLower => exact ⟨h1.trans h2, h3.trans (h4.trans h5)⟩
  | labyrinth => exact absurd rfl hr

/-- undefined entries: after the substitution of any positive value for `-1` the list is again a
valid one, so the two lower rules stay ordered among themselves, and the two upper rules too
(each pair uses its own substitute) -/
theorem prep_valid (sub : α) (hsub : 0 < sub) (ps : List (α × α))
    (hm : ∀ p ∈ ps, 0 < p.2 ∨ p.2 = -1) (hf : ∀ p ∈ ps, 0 ≤ p.1) (hs : S Prod.fst ps = 1) :
    Valid (prep sub ps) := by
  refine ⟨?_, ?_, ?_⟩
  · intro q hq
    obtain ⟨p, hp, rfl⟩ := List.mem_map.mp hq
    rcases hm p hp with h | h
    · simp only; rw [subst_of_pos _ _ h]; exact h
    · simp only [subst, isDefined, h]; simpa using hsub
  · intro q hq
    obtain ⟨p, hp, rfl⟩ := List.mem_map.mp hq
    exact hf p hp
  · have : S Prod.fst (prep sub ps) = S Prod.fst ps := by
      unfold prep S; simp [List.map_map, Function.comp_def]
    rw [this, hs]

theorem ordering_with_undefined (pw : α → α → α) (tiny big n : α) (ht : 0 < tiny) (hb : 0 < big)
    (ps : List (α × α)) (hm : ∀ p ∈ ps, 0 < p.2 ∨ p.2 = -1) (hf : ∀ p ∈ ps, 0 ≤ p.1)
    (hs : S Prod.fst ps = 1) :
    applyRule pw tiny big n .wienerLower ps ≤ applyRule pw tiny big n .hashinLower ps ∧
    applyRule pw tiny big n .hashinUpper ps ≤ applyRule pw tiny big n .wienerUpper ps := by
  simp only [applyRule]
  exact ⟨wienerLower_le_hsLower (prep_valid big hb ps hm hf hs),
    hsUpper_le_wienerUpper (prep_valid tiny ht ps hm hf hs)⟩

/-! ### independence of the order in which the phases are listed -/

theorem sumMap_perm (g : α × α → α) (ps ps' : List (α × α)) (h : ps.Perm ps') :
    sumMap g ps = sumMap g ps' := by
  rw [sumMap_eq, sumMap_eq]; exact S_perm g _ _ h

theorem hsGeneral_perm (ps ps' : List (α × α)) (h : ps.Perm ps') (ext : α) :
    hsGeneral ps ext = hsGeneral ps' ext := by
  unfold hsGeneral; rw [sumMap_perm _ _ _ h]

/-- **permutation invariance**: every rule (labyrinth included) returns the same value for any
reordering of the phase rows -/
theorem applyRule_perm (pw : α → α → α) (tiny big n : α) (r : Rule) (ps ps' : List (α × α))
    (h : ps.Perm ps') : applyRule pw tiny big n r ps = applyRule pw tiny big n r ps' := by
  have hp : ∀ sub, (prep sub ps).Perm (prep sub ps') := fun sub => h.map _
  cases r with
  | wienerUpper => exact sumMap_perm _ _ _ (hp tiny)
  | wienerLower => simp only [applyRule, wienerLower]; rw [sumMap_perm _ _ _ (hp big)]
  | hashinUpper =>
    simp only [applyRule, hsUpper]
    rw [maxL_perm _ _ ((hp tiny).map Prod.snd), hsGeneral_perm _ _ (hp tiny)]
  | hashinLower =>
    simp only [applyRule, hsLower]
    rw [minL_perm _ _ ((hp big).map Prod.snd), hsGeneral_perm _ _ (hp big)]
  | labyrinth => exact sumMap_perm _ _ _ (hp tiny)

/-! ### a single phase -/

/-- **single phase**: with one phase present (fraction 1) every rule returns that phase's mobility
(the labyrinth rule for every factor, given `1ⁿ = 1`) -/
theorem single_phase (pw : α → α → α) (tiny big n M : α) (hM : 0 < M) (hpw : pw 1 n = 1) (r : Rule) :
    applyRule pw tiny big n r [(1, M)] = M := by
  have hM' := hM.ne'
  have hs : ∀ sub, prep sub [((1:α), M)] = [(1, M)] := by
    intro sub; simp [prep, subst_of_pos sub M hM]
  cases r with
  | wienerUpper => simp [applyRule, hs, wienerUpper, sumMap]
  | wienerLower => simp [applyRule, hs, wienerLower, sumMap]
  | hashinUpper => simp [applyRule, hs, hsUpper, hsGeneral, maxL, sumMap, hsTerm]
  | hashinLower => simp [applyRule, hs, hsLower, hsGeneral, minL, sumMap, hsTerm]
  | labyrinth => simp [applyRule, hs, labyrinth, sumMap, hpw]

/-! ### labyrinth rule -/

/-- factor 1 (`x¹ = x`) is the upper Wiener rule -/
theorem labyrinth_one (pw : α → α → α) (hpw : ∀ x, pw x 1 = x) (ps : List (α × α)) :
    labyrinth pw 1 ps = wienerUpper ps := by
  unfold labyrinth wienerUpper; simp [hpw]

/-- whenever `xⁿ ≤ x` on `[0,1]` (true for every factor `n ≥ 1`, see the ℝ instance below) the
labyrinth rule does not exceed the upper Wiener rule -/
theorem labyrinth_le_wienerUpper (pw : α → α → α) (n : α)
    (hpw : ∀ x, 0 ≤ x → x ≤ 1 → pw x n ≤ x) (ps : List (α × α))
    (hM : ∀ p ∈ ps, 0 ≤ p.2) (hf : ∀ p ∈ ps, 0 ≤ p.1) (hs : S Prod.fst ps = 1) :
    labyrinth pw n ps ≤ wienerUpper ps := by
  unfold labyrinth wienerUpper
  rw [sumMap_eq, sumMap_eq]
  apply S_mono; intro p hp
  have h1 : p.1 ≤ 1 := by rw [← hs]; exact le_S_of_mem Prod.fst ps hf p hp
  exact mul_le_mul_of_nonneg_right (hpw p.1 (hf p hp) h1) (hM p hp)

/-- `setLabyrinthFactor` stores a factor in [1, 2] whatever was requested -/
theorem clipFactor_range (n : α) : 1 ≤ clipFactor n ∧ clipFactor n ≤ 2 := by
  unfold clipFactor
  split
  · exact ⟨le_refl _, by norm_num⟩
  · split
    · exact ⟨by norm_num, le_refl _⟩
    · exact ⟨not_lt.mp ‹_›, not_lt.mp ‹_›⟩


/-! ### post-processing addresses phases by their stable-phase name -/

section byname
variable {ι : Type} [DecidableEq ι]

/-- `exclude`: with every name a database phase there is no error, whatever phases are stable
(single-phase regions included); names and mobilities are untouched -/
theorem exclude_ok (db names : List ι) (pt : Point ι α) (h : ∀ p ∈ names, p ∈ db) :
    postExclude db names pt = .ok { pt with
      fr := List.zipWith (fun name f => if name ∈ names then 0 else f) pt.stable pt.fr } := by
  unfold postExclude
  have : names.all (fun p => decide (p ∈ db)) = true := by simpa using h
  simp [this]

/-- **exclude acts by name**: row `k` of the fractions becomes 0 exactly when the name of the
STABLE phase in row `k` is one of the excluded names; otherwise it keeps its value -/
theorem exclude_by_name (db names : List ι) (pt pt' : Point ι α)
    (h : postExclude db names pt = .ok pt') (k : Nat) (hk : k < pt.stable.length)
    (hk' : k < pt.fr.length) :
    pt'.stable = pt.stable ∧ pt'.mob = pt.mob ∧
    pt'.fr[k]? = some (if pt.stable[k] ∈ names then 0 else pt.fr[k]) := by
  unfold postExclude at h
  split at h
  · injection h with h; subst h
    refine ⟨rfl, rfl, ?_⟩
    simp [List.getElem?_zipWith, List.getElem?_eq_getElem hk, List.getElem?_eq_getElem hk']
  · cases h

/-- a name that is not a database phase is reported (ValueError), never silently matched -/
theorem exclude_unknown (db names : List ι) (pt : Point ι α) (p : ι) (hp : p ∈ names) (hdb : p ∉ db) :
    postExclude db names pt = .error "ValueError" := by
  unfold postExclude
  have : ¬ (names.all (fun p => decide (p ∈ db)) = true) := by
    simp only [List.all_eq_true, decide_eq_true_eq, not_forall]
    exact ⟨p, hp, hdb⟩
  simp [this]

theorem fillRow_get (src row : List α) (i : Nat) (hi : i < row.length) (hs : i < src.length) :
    (fillRow src row)[i]? = some (if isDefined row[i] then row[i] else src[i]) := by
  unfold fillRow
  simp [List.getElem?_zipWith, List.getElem?_eq_getElem hi, List.getElem?_eq_getElem hs]

/-- a defined entry is never changed by `predefined` / `majority` -/
theorem fillRow_defined (src row : List α) (i : Nat) (hi : i < row.length) (hs : i < src.length)
    (hd : isDefined row[i] = true) : (fillRow src row)[i]? = some row[i] := by
  rw [fillRow_get src row i hi hs]; simp [hd]

/-- **predefined acts by name**: when the named phase is stable at the point, the source row is a
row whose STABLE-phase name is that name, and every row is filled from it -/
theorem predefined_by_name (db : List ι) (alpha : ι) (pt : Point ι α)
    (hdb : alpha ∈ db) (hst : alpha ∈ pt.stable) :
    pt.stable[pt.stable.idxOf alpha]? = some alpha ∧
    postPredefined db alpha pt = .ok { pt with
      mob := pt.mob.map (fillRow (pt.mob.getD (pt.stable.idxOf alpha) [])) } := by
  refine ⟨?_, ?_⟩
  · have hlt : pt.stable.idxOf alpha < pt.stable.length := List.idxOf_lt_length_iff.mpr hst
    rw [List.getElem?_eq_getElem hlt]; simp
  · unfold postPredefined; simp [hdb, hst]

/-- **single-phase and other regions where the named phase is absent**: no error, nothing changes -/
theorem predefined_not_stable (db : List ι) (alpha : ι) (pt : Point ι α)
    (hdb : alpha ∈ db) (hst : alpha ∉ pt.stable) :
    postPredefined db alpha pt = .ok pt := by
  unfold postPredefined; simp [hdb, hst]

/-- whatever the set of stable phases (one phase or many), post-processing with database-phase
names succeeds -/
theorem postProcess_ok (db : List ι) (post : Post ι) (pt : Point ι α)
    (h : match post with
      | .predefined a => a ∈ db
      | .exclude names => ∀ p ∈ names, p ∈ db
      | _ => True) :
    ∃ pt', postProcess db post pt = .ok pt' ∧ pt'.stable = pt.stable := by
  cases post with
  | none => exact ⟨pt, rfl, rfl⟩
  | majority => exact ⟨_, rfl, rfl⟩
  | predefined a =>
    by_cases hst : a ∈ pt.stable
    · exact ⟨_, (predefined_by_name db a pt h hst).2, rfl⟩
    · exact ⟨_, predefined_not_stable db a pt h hst, rfl⟩
  | exclude names => exact ⟨_, exclude_ok db names pt h, rfl⟩

end byname

/-! ### evaluating twice = evaluating once (the cached record is not modified) -/

section cache
variable {ι : Type} [DecidableEq ι]

theorem evalCached_record (pw : α → α → α) (tiny big : α) (db : List ι) (cfg : Cfg ι α)
    (stored : Point ι α) : (evalCached pw tiny big db cfg stored).2 = stored := rfl

/-- **histories**: under any sequence of configurations evaluated at the same point with the cache
enabled, every answer is the answer on the original record, and the record is unchanged at the end -/
theorem runHistory_evalCached (pw : α → α → α) (tiny big : α) (db : List ι) (cfgs : List (Cfg ι α))
    (stored : Point ι α) :
    runHistory (evalCached pw tiny big db) cfgs stored
      = (cfgs.map (fun c => evalPoint pw tiny big db c stored), stored) := by
  unfold runHistory
  suffices h : ∀ acc : List (Except String (List α)),
      cfgs.foldl (fun (st : List (Except String (List α)) × Point ι α) cfg =>
        let r := evalCached pw tiny big db cfg st.2
        (st.1 ++ [r.1], r.2)) (acc, stored)
      = (acc ++ cfgs.map (fun c => evalPoint pw tiny big db c stored), stored) by
    simpa using h []
  induction cfgs with
  | nil => intro acc; simp
  | cons c cs ih =>
    intro acc
    simp only [List.foldl_cons, List.map_cons]
    have : evalCached pw tiny big db c stored = (evalPoint pw tiny big db c stored, stored) := rfl
    rw [this]; simp only
    rw [ih]; simp

/-- **twice = once** -/
theorem twice_eq_once (pw : α → α → α) (tiny big : α) (db : List ι) (cfg : Cfg ι α)
    (stored : Point ι α) :
    runHistory (evalCached pw tiny big db) [cfg, cfg] stored
      = ([evalPoint pw tiny big db cfg stored, evalPoint pw tiny big db cfg stored], stored) :=
  runHistory_evalCached pw tiny big db [cfg, cfg] stored

/-- the answer to a configuration does not depend on what was evaluated before it -/
theorem answer_independent_of_history (pw : α → α → α) (tiny big : α) (db : List ι)
    (before : List (Cfg ι α)) (cfg : Cfg ι α) (stored : Point ι α) :
    (runHistory (evalCached pw tiny big db) (before ++ [cfg]) stored).1.getLast?
      = some (evalPoint pw tiny big db cfg stored) := by
  rw [runHistory_evalCached]; simp

end cache

/-! ### the code AS FOUND violates both clauses (witnesses; ℤ entries so that `decide` computes)

Database phases [A,B,C] = [0,1,2]; at the point only B and C are stable (rows B, C);
mobilities B = 1, C = 5; fractions B = 3, C = 7 (tenths). -/

def wDb : List Nat := [0, 1, 2]
def wPt : Point Nat Int := { stable := [1, 2], mob := [[1], [5]], fr := [3, 7] }

/-- as found, `exclude B` zeroes the fraction of C (the phase that shares B's database position) -/
theorem old_exclude_hits_other_phase :
    (postExcludeOld wDb [1] wPt).toOption.map (·.fr) = some [3, 0] := by decide

/-- as repaired, `exclude B` zeroes the fraction of B -/
theorem new_exclude_hits_named_phase :
    (postExclude wDb [1] wPt).toOption.map (·.fr) = some [0, 7] := by decide

/-- as found, `predefined B` fills undefined entries from C's row -/
theorem old_predefined_copies_other_phase :
    (postPredefinedOld wDb 1 { wPt with mob := [[1], [5], [-1]], stable := [1, 2, 0], fr := [3, 6, 1] }
      ).toOption.map (·.mob) = some [[1], [5], [5]] := by decide

theorem new_predefined_copies_named_phase :
    (postPredefined wDb 1 { wPt with mob := [[1], [5], [-1]], stable := [1, 2, 0], fr := [3, 6, 1] }
      ).toOption.map (·.mob) = some [[1], [5], [1]] := by decide

/-- as found, a single-phase region (only C stable) raises IndexError for `exclude C` and
`predefined C`; as repaired both succeed -/
theorem old_single_phase_region_fails :
    (postExcludeOld wDb [2] ({ stable := [2], mob := [[5]], fr := [10] } : Point Nat Int)).toOption.isNone = true ∧
    (postPredefinedOld wDb 2 ({ stable := [2], mob := [[5]], fr := [10] } : Point Nat Int)).toOption.isNone = true ∧
    (postExclude wDb [2] ({ stable := [2], mob := [[5]], fr := [10] } : Point Nat Int)).toOption.isSome = true ∧
    (postPredefined wDb 2 ({ stable := [2], mob := [[5]], fr := [10] } : Point Nat Int)).toOption.isSome = true := by
  decide

def wCfg (post : Post Nat) : Cfg Nat Int := { rule := .wienerUpper, n := 1, post := post }

/-- as found, evaluating with `exclude B` changes what a later evaluation without post-processing
returns at the same point (38 on a fresh record, 3 afterwards) -/
theorem old_history_changes_answer :
    (runHistory (evalCachedOld (fun x _ => x) 0 0 wDb) [wCfg .none] wPt).1 = [.ok [38]] ∧
    (runHistory (evalCachedOld (fun x _ => x) 0 0 wDb) [wCfg (.exclude [1]), wCfg .none] wPt).1
      = [.ok [3], .ok [3]] := by
  decide

theorem new_history_keeps_answer :
    (runHistory (evalCached (fun x _ => x) 0 0 wDb) [wCfg (.exclude [1]), wCfg .none] wPt).1
      = [.ok [35], .ok [38]] := by
  decide

/-! ### real powers: the labyrinth rule with `np.power` -/

noncomputable section real
open Real

/-- **factor 1**: the labyrinth rule is the upper Wiener rule -/
theorem labyrinth_one_real (ps : List (ℝ × ℝ)) :
    labyrinth (fun x n => x ^ n) 1 ps = wienerUpper ps :=
  labyrinth_one _ (fun x => Real.rpow_one x) ps

theorem rpow_le_self (n : ℝ) (hn : 1 ≤ n) (x : ℝ) (hx0 : 0 ≤ x) (hx1 : x ≤ 1) : x ^ n ≤ x := by
  rcases hx0.lt_or_eq with h | h
  · have := Real.rpow_le_rpow_of_exponent_ge h hx1 hn
    simpa using this
  · rw [← h, Real.zero_rpow (by linarith)]

/-- **factor ≥ 1**: the labyrinth rule never exceeds the upper Wiener rule -/
theorem labyrinth_le_wienerUpper_real (n : ℝ) (hn : 1 ≤ n) (ps : List (ℝ × ℝ))
    (hM : ∀ p ∈ ps, 0 ≤ p.2) (hf : ∀ p ∈ ps, 0 ≤ p.1) (hs : S Prod.fst ps = 1) :
    labyrinth (fun x n => x ^ n) n ps ≤ wienerUpper ps :=
  labyrinth_le_wienerUpper _ n (rpow_le_self n hn) ps hM hf hs

/-- after `setLabyrinthFactor` (which clips to [1,2]) this holds for every requested factor -/
theorem labyrinth_clipped_le_wienerUpper_real (n : ℝ) (ps : List (ℝ × ℝ))
    (hM : ∀ p ∈ ps, 0 ≤ p.2) (hf : ∀ p ∈ ps, 0 ≤ p.1) (hs : S Prod.fst ps = 1) :
    labyrinth (fun x n => x ^ n) (clipFactor n) ps ≤ wienerUpper ps :=
  labyrinth_le_wienerUpper_real _ (clipFactor_range n).1 ps hM hf hs

/-- single phase, labyrinth rule, any factor -/
theorem single_phase_real (tiny big n M : ℝ) (hM : 0 < M) (r : Rule) :
    applyRule (fun x n => x ^ n) tiny big n r [(1, M)] = M :=
  single_phase _ tiny big n M hM (Real.one_rpow n) r

end real

/-! ### non-vacuity: a concrete two-phase column meets the hypotheses, and the chain is strict there -/

def exPs : List (ℚ × ℚ) := [(1/4, 1), (3/4, 2)]

theorem exPs_valid : Valid exPs := by
  refine ⟨?_, ?_, ?_⟩
  · intro p hp; simp [exPs] at hp; rcases hp with rfl | rfl <;> norm_num
  · intro p hp; simp [exPs] at hp; rcases hp with rfl | rfl <;> norm_num
  · simp [exPs]; norm_num

example : wienerLower exPs = 8/5 ∧ hsLower exPs = 22/13 ∧ hsUpper exPs = 12/7 ∧ wienerUpper exPs = 7/4 := by
  refine ⟨?_, ?_, ?_, ?_⟩ <;>
    norm_num [exPs, wienerLower, wienerUpper, hsLower, hsUpper, hsGeneral, hsTerm, sumMap, minL, maxL]


end KawinV.Props.C17
