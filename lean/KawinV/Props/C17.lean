/-
C17 — homogenized mobilities respect the classical bounds and address phases by name.
Property theorems about `KawinV.Homog` (hand model of HomogenizationParameters.py, tied to the
source by the correspondence check tools/corr/C17.py).  α is any linearly ordered field; the two
labyrinth statements that need real powers are instantiated on ℝ at the end.  The last part is
about MANY points through one shared hash table (`Homog.runPipeline`, composed with the table model
`KawinV.HashCache`): cached = fresh within the resolution of the key, for every history.
-/
import KawinV.Model.Homog
import Mathlib.Tactic.Ring
import Mathlib.Tactic.Linarith
import Mathlib.Tactic.FieldSimp
import Mathlib.Tactic.NormNum
import Mathlib.Tactic.Positivity
import Mathlib.Algebra.Order.Field.Basic
import Mathlib.Analysis.SpecialFunctions.Pow.Real
import Mathlib.Algebra.Order.Floor.Ring
import Mathlib.Data.Rat.Floor
import Mathlib.Data.List.Forall2

set_option linter.unusedSectionVars false
set_option linter.unusedVariables false
set_option linter.unusedSimpArgs false
set_option linter.unnecessarySimpa false

namespace KawinV.Props.C17
open KawinV.Homog

variable {α : Type} [Field α] [LinearOrder α] [IsStrictOrderedRing α]

/-! ### sums over the phase list -/

/-- `Σ_{p ∈ l} g p` -/
def S {β : Type} (g : β → α) (l : List β) : α := (l.map g).sum

@[simp] theorem S_nil {β : Type} (g : β → α) : S g [] = 0 := by simp [S]
@[simp] theorem S_cons {β : Type} (g : β → α) (p : β) (l : List β) : S g (p :: l) = g p + S g l := by
  simp [S]

/-- the code's left-to-right accumulation is the sum -/
theorem sumMap_eq (g : α × α → α) (ps : List (α × α)) : sumMap g ps = S g ps := by
  unfold sumMap
  suffices h : ∀ a, ps.foldl (fun acc p => acc + g p) a = a + S g ps by simpa using h 0
  induction ps with
  | nil => intro a; simp
  | cons p ps ih => intro a; simp [List.foldl_cons, ih, add_assoc]

theorem S_add {β : Type} (g h : β → α) (l : List β) :
    S (fun p => g p + h p) l = S g l + S h l := by
  induction l with
  | nil => simp
  | cons p l ih => simp [ih]; ring

theorem S_mul_left {β : Type} (c : α) (g : β → α) (l : List β) :
    S (fun p => c * g p) l = c * S g l := by
  induction l with
  | nil => simp
  | cons p l ih => simp [ih]; ring

theorem S_mono {β : Type} (g h : β → α) (l : List β) (hgh : ∀ p ∈ l, g p ≤ h p) :
    S g l ≤ S h l := by
  induction l with
  | nil => simp
  | cons p l ih =>
    simp only [S_cons]
    have h1 := hgh p (by simp)
    have h2 := ih (fun q hq => hgh q (by simp [hq]))
    linarith

theorem S_congr {β : Type} (g h : β → α) (l : List β) (hgh : ∀ p ∈ l, g p = h p) :
    S g l = S h l :=
  le_antisymm (S_mono g h l (fun p hp => (hgh p hp).le)) (S_mono h g l (fun p hp => (hgh p hp).ge))

theorem S_nonneg {β : Type} (g : β → α) (l : List β) (hg : ∀ p ∈ l, 0 ≤ g p) : 0 ≤ S g l := by
  have := S_mono (fun _ => (0:α)) g l hg
  have h0 : S (fun _ : β => (0:α)) l = 0 := by
    induction l with
    | nil => simp
    | cons p l ih => simp [ih (fun q hq => hg q (by simp [hq])) (S_mono _ _ _ (fun q hq => hg q (by simp [hq])))]
  linarith

theorem le_S_of_mem {β : Type} (g : β → α) (l : List β) (hg : ∀ p ∈ l, 0 ≤ g p) (p : β) (hp : p ∈ l) :
    g p ≤ S g l := by
  induction l with
  | nil => simp at hp
  | cons q l ih =>
    simp only [S_cons]
    have hl := S_nonneg g l (fun r hr => hg r (by simp [hr]))
    rcases List.mem_cons.mp hp with rfl | h
    · linarith
    · have := ih (fun r hr => hg r (by simp [hr])) h
      have := hg q (by simp)
      linarith

theorem S_perm {β : Type} (g : β → α) (l l' : List β) (h : l.Perm l') : S g l = S g l' := by
  induction h with
  | nil => rfl
  | cons x _ ih => simp [ih]
  | swap x y l => simp; ring
  | trans _ _ ih1 ih2 => exact ih1.trans ih2

/-- a weighted sum of positive terms with non-negative weights of positive total is positive -/
theorem S_weighted_pos (ps : List (α × α)) (g : α × α → α)
    (hf : ∀ p ∈ ps, 0 ≤ p.1) (hg : ∀ p ∈ ps, 0 < g p) (hs : 0 < S Prod.fst ps) :
    0 < S (fun p => p.1 * g p) ps := by
  induction ps with
  | nil => simp at hs
  | cons q l ih =>
    simp only [S_cons] at hs ⊢
    have hq := hf q (by simp)
    have hgq := hg q (by simp)
    have hrest : 0 ≤ S (fun p => p.1 * g p) l :=
      S_nonneg _ l (fun r hr => mul_nonneg (hf r (by simp [hr])) (hg r (by simp [hr])).le)
    rcases hq.lt_or_eq with h | h
    · have := mul_pos h hgq; linarith
    · have h' : 0 < S Prod.fst l := by rw [← h] at hs; simpa using hs
      have := ih (fun r hr => hf r (by simp [hr])) (fun r hr => hg r (by simp [hr])) h'
      rw [← h]; simpa using this

/-- weights times an affine bound, summed -/
theorem S_weighted_le (ps : List (α × α)) (φ ψ : α × α → α) (c0 c1 : α)
    (hf : ∀ p ∈ ps, 0 ≤ p.1) (h : ∀ p ∈ ps, φ p ≤ c0 + c1 * ψ p) :
    S (fun p => p.1 * φ p) ps ≤ c0 * S Prod.fst ps + c1 * S (fun p => p.1 * ψ p) ps := by
  have h1 : S (fun p => p.1 * φ p) ps ≤ S (fun p => c0 * p.1 + c1 * (p.1 * ψ p)) ps := by
    apply S_mono; intro p hp
    have := mul_le_mul_of_nonneg_left (h p hp) (hf p hp)
    have e : p.1 * (c0 + c1 * ψ p) = c0 * p.1 + c1 * (p.1 * ψ p) := by ring
    linarith
  rw [S_add, S_mul_left, S_mul_left] at h1
  exact h1

theorem S_weighted_ge (ps : List (α × α)) (φ ψ : α × α → α) (c0 c1 : α)
    (hf : ∀ p ∈ ps, 0 ≤ p.1) (h : ∀ p ∈ ps, c0 + c1 * ψ p ≤ φ p) :
    c0 * S Prod.fst ps + c1 * S (fun p => p.1 * ψ p) ps ≤ S (fun p => p.1 * φ p) ps := by
  have h1 : S (fun p => c0 * p.1 + c1 * (p.1 * ψ p)) ps ≤ S (fun p => p.1 * φ p) ps := by
    apply S_mono; intro p hp
    have := mul_le_mul_of_nonneg_left (h p hp) (hf p hp)
    have e : p.1 * (c0 + c1 * ψ p) = c0 * p.1 + c1 * (p.1 * ψ p) := by ring
    linarith
  rw [S_add, S_mul_left, S_mul_left] at h1
  exact h1

/-! ### np.amax / np.amin of a column -/

theorem foldl_max_spec (xs : List α) (a : α) :
    a ≤ xs.foldl (fun a b => if a < b then b else a) a ∧
    (∀ x ∈ xs, x ≤ xs.foldl (fun a b => if a < b then b else a) a) ∧
    (xs.foldl (fun a b => if a < b then b else a) a = a ∨
      xs.foldl (fun a b => if a < b then b else a) a ∈ xs) := by
  induction xs generalizing a with
  | nil => simp
  | cons y ys ih =>
    simp only [List.foldl_cons, List.mem_cons]
    obtain ⟨h1, h2, h3⟩ := ih (if a < y then y else a)
    have ha : a ≤ (if a < y then y else a) := by split <;> [exact le_of_lt ‹_›; exact le_refl _]
    have hy : y ≤ (if a < y then y else a) := by split <;> [exact le_refl _; exact not_lt.mp ‹_›]
    refine ⟨ha.trans h1, ?_, ?_⟩
    · intro x hx
      rcases hx with rfl | hx
      · exact hy.trans h1
      · exact h2 x hx
    · rcases h3 with h | h
      · by_cases hay : a < y
        · right; left; rw [h]; simp [hay]
        · left; rw [h]; simp [hay]
      · right; right; exact h

theorem foldl_min_spec (xs : List α) (a : α) :
    xs.foldl (fun a b => if b < a then b else a) a ≤ a ∧
    (∀ x ∈ xs, xs.foldl (fun a b => if b < a then b else a) a ≤ x) ∧
    (xs.foldl (fun a b => if b < a then b else a) a = a ∨
      xs.foldl (fun a b => if b < a then b else a) a ∈ xs) := by
  induction xs generalizing a with
  | nil => simp
  | cons y ys ih =>
    simp only [List.foldl_cons, List.mem_cons]
    obtain ⟨h1, h2, h3⟩ := ih (if y < a then y else a)
    have ha : (if y < a then y else a) ≤ a := by split <;> [exact le_of_lt ‹_›; exact le_refl _]
    have hy : (if y < a then y else a) ≤ y := by split <;> [exact le_refl _; exact not_lt.mp ‹_›]
    refine ⟨h1.trans ha, ?_, ?_⟩
    · intro x hx
      rcases hx with rfl | hx
      · exact h1.trans hy
      · exact h2 x hx
    · rcases h3 with h | h
      · by_cases hay : y < a
        · right; left; rw [h]; simp [hay]
        · left; rw [h]; simp [hay]
      · right; right; exact h

theorem le_maxL (l : List α) (x : α) (hx : x ∈ l) : x ≤ maxL l := by
  cases l with
  | nil => simp at hx
  | cons y ys =>
    obtain ⟨h1, h2, _⟩ := foldl_max_spec ys y
    rcases List.mem_cons.mp hx with rfl | h
    · exact h1
    · exact h2 x h

theorem maxL_mem (l : List α) (hl : l ≠ []) : maxL l ∈ l := by
  cases l with
  | nil => exact absurd rfl hl
  | cons y ys =>
    obtain ⟨_, _, h3⟩ := foldl_max_spec ys y
    show ys.foldl (fun a b => if a < b then b else a) y ∈ y :: ys
    rcases h3 with h | h
    · rw [h]; simp
    · exact List.mem_cons_of_mem _ h

theorem minL_le (l : List α) (x : α) (hx : x ∈ l) : minL l ≤ x := by
  cases l with
  | nil => simp at hx
  | cons y ys =>
    obtain ⟨h1, h2, _⟩ := foldl_min_spec ys y
    rcases List.mem_cons.mp hx with rfl | h
    · exact h1
    · exact h2 x h

theorem minL_mem (l : List α) (hl : l ≠ []) : minL l ∈ l := by
  cases l with
  | nil => exact absurd rfl hl
  | cons y ys =>
    obtain ⟨_, _, h3⟩ := foldl_min_spec ys y
    show ys.foldl (fun a b => if b < a then b else a) y ∈ y :: ys
    rcases h3 with h | h
    · rw [h]; simp
    · exact List.mem_cons_of_mem _ h

theorem maxL_perm (l l' : List α) (h : l.Perm l') : maxL l = maxL l' := by
  by_cases hl : l = []
  · subst hl; rw [(List.nil_perm.mp h)]
  · have hl' : l' ≠ [] := fun e => hl (by subst e; exact List.perm_nil.mp h)
    exact le_antisymm (le_maxL l' _ (h.mem_iff.mp (maxL_mem l hl)))
      (le_maxL l _ (h.mem_iff.mpr (maxL_mem l' hl')))

theorem minL_perm (l l' : List α) (h : l.Perm l') : minL l = minL l' := by
  by_cases hl : l = []
  · subst hl; rw [(List.nil_perm.mp h)]
  · have hl' : l' ≠ [] := fun e => hl (by subst e; exact List.perm_nil.mp h)
    exact le_antisymm (minL_le l _ (h.mem_iff.mpr (minL_mem l' hl')))
      (minL_le l' _ (h.mem_iff.mp (minL_mem l hl)))

/-! ### the harmonic family  T c = Σ f/(M + c),  H γ = 1/T(2γ) − 2γ -/

/-- `Σ fᵢ · 1/(Mᵢ + c)` -/
def T (c : α) (ps : List (α × α)) : α := S (fun p => p.1 * (1 / (p.2 + c))) ps

/-- `H γ = 1/Σ fᵢ/(Mᵢ+2γ) − 2γ`: the Hashin–Shtrikman value with reference mobility γ -/
def H (γ : α) (ps : List (α × α)) : α := 1 / T (2 * γ) ps - 2 * γ

/-- the hypotheses of the property: defined (positive) mobilities, fractions on the simplex -/
structure Valid (ps : List (α × α)) : Prop where
  mob_pos : ∀ p ∈ ps, 0 < p.2
  fr_nonneg : ∀ p ∈ ps, 0 ≤ p.1
  fr_sum : S Prod.fst ps = 1

theorem Valid.ne_nil {ps : List (α × α)} (h : Valid ps) : ps ≠ [] := by
  intro e; have := h.fr_sum; rw [e] at this; simp at this

theorem T_pos {ps : List (α × α)} (h : Valid ps) (c : α) (hc : 0 ≤ c) : 0 < T c ps := by
  apply S_weighted_pos ps (fun p => 1 / (p.2 + c)) h.fr_nonneg
  · intro p hp; have := h.mob_pos p hp; positivity
  · rw [h.fr_sum]; exact one_pos

/-- **tangent-line inequality** for the concave map `u ↦ u/(1+du)` at `u = 1/a`, tangent at `s` -/
theorem tangent (a s d : α) (ha : 0 < a) (hs : 0 < s) (hd : 0 ≤ d) :
    1 / (a + d) ≤ s / (1 + d * s) + (1 / a - s) / (1 + d * s) ^ 2 := by
  have h1 : 0 < 1 + d * s := by positivity
  have h2 : 0 < a + d := by positivity
  have key : s / (1 + d * s) + (1 / a - s) / (1 + d * s) ^ 2 - 1 / (a + d)
      = d * (s * a - 1) ^ 2 / (a * (a + d) * (1 + d * s) ^ 2) := by
    field_simp; ring
  have : 0 ≤ d * (s * a - 1) ^ 2 / (a * (a + d) * (1 + d * s) ^ 2) := by positivity
  linarith

/-- summed with the weights: `Σ f/(a+d) ≤ s/(1+ds)` with `s = Σ f/a`, i.e.
`1/Σ f/(a+d) ≥ 1/Σ f/a + d` -/
theorem T_shift {ps : List (α × α)} (h : Valid ps) (c d : α) (hc : 0 ≤ c) (hd : 0 ≤ d) :
    T (c + d) ps ≤ T c ps / (1 + d * T c ps) := by
  have hs := T_pos h c hc
  set s := T c ps with hsdef
  have h1 : 0 < 1 + d * s := by positivity
  have := S_weighted_le ps (fun p => 1 / (p.2 + (c + d))) (fun p => 1 / (p.2 + c))
    (s / (1 + d * s) - s / (1 + d * s) ^ 2) (1 / (1 + d * s) ^ 2) h.fr_nonneg (by
      intro p hp
      have hp2 := h.mob_pos p hp
      have t := tangent (p.2 + c) s d (by positivity) hs hd
      have e : s / (1 + d * s) - s / (1 + d * s) ^ 2 + 1 / (1 + d * s) ^ 2 * (1 / (p.2 + c))
          = s / (1 + d * s) + (1 / (p.2 + c) - s) / (1 + d * s) ^ 2 := by ring
      have e3 : p.2 + (c + d) = p.2 + c + d := by ring
      rw [e, e3]; exact t)
  rw [h.fr_sum] at this
  have e2 : (s / (1 + d * s) - s / (1 + d * s) ^ 2) * 1 + 1 / (1 + d * s) ^ 2 * s = s / (1 + d * s) := by
    ring
  have hT : T (c + d) ps = S (fun p => p.1 * (1 / (p.2 + (c + d)))) ps := rfl
  have hT' : S (fun p => p.1 * (1 / (p.2 + c))) ps = s := rfl
  rw [hT]; rw [hT'] at this; linarith

theorem inv_T_shift {ps : List (α × α)} (h : Valid ps) (c d : α) (hc : 0 ≤ c) (hd : 0 ≤ d) :
    1 / T c ps + d ≤ 1 / T (c + d) ps := by
  have hs := T_pos h c hc
  have hs' := T_pos h (c + d) (by positivity)
  have h1 : 0 < 1 + d * T c ps := by positivity
  have := one_div_le_one_div_of_le hs' (T_shift h c d hc hd)
  have e : 1 / (T c ps / (1 + d * T c ps)) = 1 / T c ps + d := by field_simp
  rw [e] at this; exact this

/-- **H is non-decreasing in the reference mobility** -/
theorem H_mono {ps : List (α × α)} (h : Valid ps) (γ₁ γ₂ : α) (h1 : 0 ≤ γ₁) (h12 : γ₁ ≤ γ₂) :
    H γ₁ ps ≤ H γ₂ ps := by
  unfold H
  have := inv_T_shift h (2 * γ₁) (2 * (γ₂ - γ₁)) (by positivity) (by linarith)
  have e : 2 * γ₁ + 2 * (γ₂ - γ₁) = 2 * γ₂ := by ring
  rw [e] at this; linarith

/-- weighted arithmetic mean `Σ f M` -/
theorem wienerUpper_eq (ps : List (α × α)) : wienerUpper ps = S (fun p => p.1 * p.2) ps := by
  unfold wienerUpper; exact sumMap_eq _ _

theorem wienerLower_eq (ps : List (α × α)) : wienerLower ps = 1 / T 0 ps := by
  unfold wienerLower T; rw [sumMap_eq]; simp

theorem wienerUpper_pos {ps : List (α × α)} (h : Valid ps) : 0 < wienerUpper ps := by
  rw [wienerUpper_eq]
  exact S_weighted_pos ps Prod.snd h.fr_nonneg h.mob_pos (by rw [h.fr_sum]; exact one_pos)

/-- harmonic ≤ arithmetic, shifted: `1/Σ f/(M+c) ≤ Σ f M + c` -/
theorem inv_T_le {ps : List (α × α)} (h : Valid ps) (c : α) (hc : 0 ≤ c) :
    1 / T c ps ≤ wienerUpper ps + c := by
  have hA := wienerUpper_pos h
  set A := wienerUpper ps + c with hAdef
  have hApos : 0 < A := by positivity
  have hsum : S (fun p => p.1 * (p.2 + c)) ps = A := by
    have : S (fun p => p.1 * (p.2 + c)) ps = S (fun p => p.1 * p.2 + c * p.1) ps :=
      S_congr _ _ _ (fun p _ => by ring)
    rw [this, S_add, S_mul_left, h.fr_sum, ← wienerUpper_eq]; ring
  have := S_weighted_ge ps (fun p => 1 / (p.2 + c)) (fun p => p.2 + c) (2 / A) (-(1 / A ^ 2))
    h.fr_nonneg (by
      intro p hp
      have hp2 := h.mob_pos p hp
      have ha : 0 < p.2 + c := by positivity
      have key : 1 / (p.2 + c) - (2 / A + -(1 / A ^ 2) * (p.2 + c))
          = (A - (p.2 + c)) ^ 2 / ((p.2 + c) * A ^ 2) := by field_simp; ring
      have : 0 ≤ (A - (p.2 + c)) ^ 2 / ((p.2 + c) * A ^ 2) := by positivity
      linarith)
  rw [h.fr_sum, hsum] at this
  have e : 2 / A * 1 + -(1 / A ^ 2) * A = 1 / A := by field_simp; ring
  rw [e] at this
  have hTe : S (fun p => p.1 * (1 / (p.2 + c))) ps = T c ps := rfl
  rw [hTe] at this
  have hT := T_pos h c hc
  have := one_div_le_one_div_of_le (by positivity) this
  simpa using this

theorem H_le_wienerUpper {ps : List (α × α)} (h : Valid ps) (γ : α) (hγ : 0 ≤ γ) :
    H γ ps ≤ wienerUpper ps := by
  unfold H
  have := inv_T_le h (2 * γ) (by positivity)
  linarith

theorem H_zero (ps : List (α × α)) : H 0 ps = wienerLower ps := by
  rw [wienerLower_eq]; unfold H; simp

/-- **the code's `Ak` form is H**: `γ + Ak/(1 − Ak/(3γ))` with
`Ak = Σ f (M−γ)(3γ)/(2γ+M)` equals `1/Σ f/(M+2γ) − 2γ` -/
theorem hsGeneral_eq_H {ps : List (α × α)} (h : Valid ps) (γ : α) (hγ : 0 < γ) :
    hsGeneral ps γ = H γ ps := by
  have hT := T_pos h (2 * γ) (by positivity)
  have hak : sumMap (hsTerm γ) ps = 3 * γ * (1 - 3 * γ * T (2 * γ) ps) := by
    rw [sumMap_eq]
    have : S (hsTerm γ) ps
        = S (fun p => (3 * γ) * p.1 + (-(3 * γ * (3 * γ))) * (p.1 * (1 / (p.2 + 2 * γ)))) ps := by
      apply S_congr; intro p hp
      have hp2 := h.mob_pos p hp
      have : 0 < 2 * γ + p.2 := by positivity
      have : 0 < p.2 + 2 * γ := by positivity
      unfold hsTerm; field_simp; ring
    rw [this, S_add, S_mul_left, S_mul_left, h.fr_sum]
    unfold T; ring
  unfold hsGeneral H
  simp only [hak]
  generalize T (2 * γ) ps = t at hT
  have hT' := hT.ne'
  have hγ' := hγ.ne'
  have e1 : 1 - 3 * γ * (1 - 3 * γ * t) / (3 * γ) = 3 * γ * t := by
    field_simp; ring
  rw [e1]; field_simp; ring


/-! ### ordering and bounds of the four bound rules -/

theorem snd_mem {ps : List (α × α)} {p : α × α} (hp : p ∈ ps) : p.2 ∈ ps.map Prod.snd :=
  List.mem_map.mpr ⟨p, hp, rfl⟩

theorem snd_ne_nil {ps : List (α × α)} (h : Valid ps) : ps.map Prod.snd ≠ [] := by
  intro e; exact h.ne_nil (List.map_eq_nil_iff.mp e)

theorem minL_pos {ps : List (α × α)} (h : Valid ps) : 0 < minL (ps.map Prod.snd) := by
  obtain ⟨p, hp, e⟩ := List.mem_map.mp (minL_mem _ (snd_ne_nil h))
  rw [← e]; exact h.mob_pos p hp

theorem minL_le_maxL {ps : List (α × α)} (h : Valid ps) :
    minL (ps.map Prod.snd) ≤ maxL (ps.map Prod.snd) :=
  minL_le _ _ (maxL_mem _ (snd_ne_nil h))

/-- the code's lower / upper Hashin–Shtrikman functions are H at the smallest / largest mobility -/
theorem hsLower_eq {ps : List (α × α)} (h : Valid ps) : hsLower ps = H (minL (ps.map Prod.snd)) ps :=
  hsGeneral_eq_H h _ (minL_pos h)

theorem hsUpper_eq {ps : List (α × α)} (h : Valid ps) : hsUpper ps = H (maxL (ps.map Prod.snd)) ps :=
  hsGeneral_eq_H h _ (lt_of_lt_of_le (minL_pos h) (minL_le_maxL h))

/-- **lower Wiener ≤ lower Hashin–Shtrikman** -/
theorem wienerLower_le_hsLower {ps : List (α × α)} (h : Valid ps) : wienerLower ps ≤ hsLower ps := by
  rw [hsLower_eq h, ← H_zero]; exact H_mono h 0 _ (le_refl _) (minL_pos h).le

/-- **lower Hashin–Shtrikman ≤ upper Hashin–Shtrikman** -/
theorem hsLower_le_hsUpper {ps : List (α × α)} (h : Valid ps) : hsLower ps ≤ hsUpper ps := by
  rw [hsLower_eq h, hsUpper_eq h]; exact H_mono h _ _ (minL_pos h).le (minL_le_maxL h)

/-- **upper Hashin–Shtrikman ≤ upper Wiener** -/
theorem hsUpper_le_wienerUpper {ps : List (α × α)} (h : Valid ps) : hsUpper ps ≤ wienerUpper ps := by
  rw [hsUpper_eq h]; exact H_le_wienerUpper h _ ((minL_pos h).le.trans (minL_le_maxL h))

/-- **upper Wiener ≤ largest phase mobility** -/
theorem wienerUpper_le_max {ps : List (α × α)} (h : Valid ps) :
    wienerUpper ps ≤ maxL (ps.map Prod.snd) := by
  rw [wienerUpper_eq]
  have := S_mono (fun p => p.1 * p.2) (fun p => maxL (ps.map Prod.snd) * p.1) ps (by
    intro p hp
    have := mul_le_mul_of_nonneg_left (le_maxL _ _ (snd_mem hp)) (h.fr_nonneg p hp)
    linarith [mul_comm p.1 (maxL (ps.map Prod.snd))])
  rw [S_mul_left, h.fr_sum] at this; linarith

/-- **smallest phase mobility ≤ lower Wiener** -/
theorem min_le_wienerLower {ps : List (α × α)} (h : Valid ps) :
    minL (ps.map Prod.snd) ≤ wienerLower ps := by
  rw [wienerLower_eq]
  have hm := minL_pos h
  have hT := T_pos h 0 (le_refl _)
  have : T 0 ps ≤ 1 / minL (ps.map Prod.snd) := by
    have := S_mono (fun p => p.1 * (1 / (p.2 + 0))) (fun p => (1 / minL (ps.map Prod.snd)) * p.1) ps (by
      intro p hp
      have hp2 := h.mob_pos p hp
      have hle := minL_le _ _ (snd_mem hp)
      have : 1 / (p.2 + 0) ≤ 1 / minL (ps.map Prod.snd) := by
        rw [add_zero]; exact one_div_le_one_div_of_le hm hle
      have := mul_le_mul_of_nonneg_left this (h.fr_nonneg p hp)
      linarith [mul_comm p.1 (1 / minL (ps.map Prod.snd))])
    rw [S_mul_left, h.fr_sum] at this
    unfold T; linarith
  have := one_div_le_one_div_of_le hT this
  simpa using this

/-- **the whole chain** for the public functions (`applyRule` = substitute undefined entries, then
average): with defined mobilities the substitution does nothing and
`min M ≤ W_lower ≤ HS_lower ≤ HS_upper ≤ W_upper ≤ max M`. -/
theorem subst_of_pos (sub m : α) (hm : 0 < m) : subst sub m = m := by
  unfold subst isDefined
  have : (-1 : α) < m := by linarith
  simp [this]

theorem prep_of_valid {ps : List (α × α)} (h : Valid ps) (sub : α) : prep sub ps = ps := by
  unfold prep
  conv_rhs => rw [← List.map_id ps]
  apply List.map_congr_left
  intro p hp
  simp [subst_of_pos sub p.2 (h.mob_pos p hp)]

theorem ordering (pw : α → α → α) (tiny big n : α) {ps : List (α × α)} (h : Valid ps) :
    minL (ps.map Prod.snd) ≤ applyRule pw tiny big n .wienerLower ps ∧
    applyRule pw tiny big n .wienerLower ps ≤ applyRule pw tiny big n .hashinLower ps ∧
    applyRule pw tiny big n .hashinLower ps ≤ applyRule pw tiny big n .hashinUpper ps ∧
    applyRule pw tiny big n .hashinUpper ps ≤ applyRule pw tiny big n .wienerUpper ps ∧
    applyRule pw tiny big n .wienerUpper ps ≤ maxL (ps.map Prod.snd) := by
  simp only [applyRule, prep_of_valid h]
  exact ⟨min_le_wienerLower h, wienerLower_le_hsLower h, hsLower_le_hsUpper h,
    hsUpper_le_wienerUpper h, wienerUpper_le_max h⟩

/-- every one of the four bound rules lies between the smallest and the largest phase mobility -/
theorem bounds (pw : α → α → α) (tiny big n : α) {ps : List (α × α)} (h : Valid ps) (r : Rule)
    (hr : r ≠ .labyrinth) :
    minL (ps.map Prod.snd) ≤ applyRule pw tiny big n r ps ∧
    applyRule pw tiny big n r ps ≤ maxL (ps.map Prod.snd) := by
  obtain ⟨h1, h2, h3, h4, h5⟩ := ordering pw tiny big n h
  cases r with
  | wienerUpper => exact ⟨h1.trans (h2.trans (h3.trans h4)), h5⟩
  | wienerLower => exact ⟨h1, h2.trans (h3.trans (h4.trans h5))⟩
  | hashinUpper => exact ⟨h1.trans (h2.trans h3), h4.trans h5⟩
  | hashinLower => exact ⟨h1.trans h2, h3.trans (h4.trans h5)⟩
  | labyrinth => exact absurd rfl hr

/-- undefined entries: after the substitution of any positive value for `-1` the list is again a
valid one, so the two lower rules stay ordered among themselves, and the two upper rules too
(each pair uses its own substitute) -/
theorem prep_valid (sub : α) (hsub : 0 < sub) (ps : List (α × α))
    (hm : ∀ p ∈ ps, 0 < p.2 ∨ p.2 = -1) (hf : ∀ p ∈ ps, 0 ≤ p.1) (hs : S Prod.fst ps = 1) :
    Valid (prep sub ps) := by
  refine ⟨?_, ?_, ?_⟩
  · intro q hq
    obtain ⟨p, hp, rfl⟩ := List.mem_map.mp hq
    rcases hm p hp with h | h
    · simp only; rw [subst_of_pos _ _ h]; exact h
    · simp only [subst, isDefined, h]; simpa using hsub
  · intro q hq
    obtain ⟨p, hp, rfl⟩ := List.mem_map.mp hq
    exact hf p hp
  · have : S Prod.fst (prep sub ps) = S Prod.fst ps := by
      unfold prep S; simp [List.map_map, Function.comp_def]
    rw [this, hs]

theorem ordering_with_undefined (pw : α → α → α) (tiny big n : α) (ht : 0 < tiny) (hb : 0 < big)
    (ps : List (α × α)) (hm : ∀ p ∈ ps, 0 < p.2 ∨ p.2 = -1) (hf : ∀ p ∈ ps, 0 ≤ p.1)
    (hs : S Prod.fst ps = 1) :
    applyRule pw tiny big n .wienerLower ps ≤ applyRule pw tiny big n .hashinLower ps ∧
    applyRule pw tiny big n .hashinUpper ps ≤ applyRule pw tiny big n .wienerUpper ps := by
  simp only [applyRule]
  exact ⟨wienerLower_le_hsLower (prep_valid big hb ps hm hf hs),
    hsUpper_le_wienerUpper (prep_valid tiny ht ps hm hf hs)⟩

/-! ### independence of the order in which the phases are listed -/

theorem sumMap_perm (g : α × α → α) (ps ps' : List (α × α)) (h : ps.Perm ps') :
    sumMap g ps = sumMap g ps' := by
  rw [sumMap_eq, sumMap_eq]; exact S_perm g _ _ h

theorem hsGeneral_perm (ps ps' : List (α × α)) (h : ps.Perm ps') (ext : α) :
    hsGeneral ps ext = hsGeneral ps' ext := by
  unfold hsGeneral; rw [sumMap_perm _ _ _ h]

/-- **permutation invariance**: every rule (labyrinth included) returns the same value for any
reordering of the phase rows -/
theorem applyRule_perm (pw : α → α → α) (tiny big n : α) (r : Rule) (ps ps' : List (α × α))
    (h : ps.Perm ps') : applyRule pw tiny big n r ps = applyRule pw tiny big n r ps' := by
  have hp : ∀ sub, (prep sub ps).Perm (prep sub ps') := fun sub => h.map _
  cases r with
  | wienerUpper => exact sumMap_perm _ _ _ (hp tiny)
  | wienerLower => simp only [applyRule, wienerLower]; rw [sumMap_perm _ _ _ (hp big)]
  | hashinUpper =>
    simp only [applyRule, hsUpper]
    rw [maxL_perm _ _ ((hp tiny).map Prod.snd), hsGeneral_perm _ _ (hp tiny)]
  | hashinLower =>
    simp only [applyRule, hsLower]
    rw [minL_perm _ _ ((hp big).map Prod.snd), hsGeneral_perm _ _ (hp big)]
  | labyrinth => exact sumMap_perm _ _ _ (hp tiny)

/-! ### a single phase -/

/-- **single phase**: with one phase present (fraction 1) every rule returns that phase's mobility
(the labyrinth rule for every factor, given `1ⁿ = 1`) -/
theorem single_phase (pw : α → α → α) (tiny big n M : α) (hM : 0 < M) (hpw : pw 1 n = 1) (r : Rule) :
    applyRule pw tiny big n r [(1, M)] = M := by
  have hM' := hM.ne'
  have hs : ∀ sub, prep sub [((1:α), M)] = [(1, M)] := by
    intro sub; simp [prep, subst_of_pos sub M hM]
  cases r with
  | wienerUpper => simp [applyRule, hs, wienerUpper, sumMap]
  | wienerLower => simp [applyRule, hs, wienerLower, sumMap]
  | hashinUpper => simp [applyRule, hs, hsUpper, hsGeneral, maxL, sumMap, hsTerm]
  | hashinLower => simp [applyRule, hs, hsLower, hsGeneral, minL, sumMap, hsTerm]
  | labyrinth => simp [applyRule, hs, labyrinth, sumMap, hpw]

/-! ### labyrinth rule -/

/-- factor 1 (`x¹ = x`) is the upper Wiener rule -/
theorem labyrinth_one (pw : α → α → α) (hpw : ∀ x, pw x 1 = x) (ps : List (α × α)) :
    labyrinth pw 1 ps = wienerUpper ps := by
  unfold labyrinth wienerUpper; simp [hpw]

/-- whenever `xⁿ ≤ x` on `[0,1]` (true for every factor `n ≥ 1`, see the ℝ instance below) the
labyrinth rule does not exceed the upper Wiener rule -/
theorem labyrinth_le_wienerUpper (pw : α → α → α) (n : α)
    (hpw : ∀ x, 0 ≤ x → x ≤ 1 → pw x n ≤ x) (ps : List (α × α))
    (hM : ∀ p ∈ ps, 0 ≤ p.2) (hf : ∀ p ∈ ps, 0 ≤ p.1) (hs : S Prod.fst ps = 1) :
    labyrinth pw n ps ≤ wienerUpper ps := by
  unfold labyrinth wienerUpper
  rw [sumMap_eq, sumMap_eq]
  apply S_mono; intro p hp
  have h1 : p.1 ≤ 1 := by rw [← hs]; exact le_S_of_mem Prod.fst ps hf p hp
  exact mul_le_mul_of_nonneg_right (hpw p.1 (hf p hp) h1) (hM p hp)

/-- `setLabyrinthFactor` stores a factor in [1, 2] whatever was requested -/
theorem clipFactor_range (n : α) : 1 ≤ clipFactor n ∧ clipFactor n ≤ 2 := by
  unfold clipFactor
  split
  · exact ⟨le_refl _, by norm_num⟩
  · split
    · exact ⟨by norm_num, le_refl _⟩
    · exact ⟨not_lt.mp ‹_›, not_lt.mp ‹_›⟩


/-! ### post-processing addresses phases by their stable-phase name -/

section byname
variable {ι : Type} [DecidableEq ι]

/-- `exclude`: with every name a database phase there is no error, whatever phases are stable
(single-phase regions included); names and mobilities are untouched -/
theorem exclude_ok (db names : List ι) (pt : Point ι α) (h : ∀ p ∈ names, p ∈ db) :
    postExclude db names pt = .ok { pt with
      fr := List.zipWith (fun name f => if name ∈ names then 0 else f) pt.stable pt.fr } := by
  unfold postExclude
  have : names.all (fun p => decide (p ∈ db)) = true := by simpa using h
  simp [this]

/-- **exclude acts by name**: row `k` of the fractions becomes 0 exactly when the name of the
STABLE phase in row `k` is one of the excluded names; otherwise it keeps its value -/
theorem exclude_by_name (db names : List ι) (pt pt' : Point ι α)
    (h : postExclude db names pt = .ok pt') (k : Nat) (hk : k < pt.stable.length)
    (hk' : k < pt.fr.length) :
    pt'.stable = pt.stable ∧ pt'.mob = pt.mob ∧
    pt'.fr[k]? = some (if pt.stable[k] ∈ names then 0 else pt.fr[k]) := by
  unfold postExclude at h
  split at h
  · injection h with h; subst h
    refine ⟨rfl, rfl, ?_⟩
    simp [List.getElem?_zipWith, List.getElem?_eq_getElem hk, List.getElem?_eq_getElem hk']
  · cases h

/-- a name that is not a database phase is reported (ValueError), never silently matched -/
theorem exclude_unknown (db names : List ι) (pt : Point ι α) (p : ι) (hp : p ∈ names) (hdb : p ∉ db) :
    postExclude db names pt = .error "ValueError" := by
  unfold postExclude
  have : ¬ (names.all (fun p => decide (p ∈ db)) = true) := by
    simp only [List.all_eq_true, decide_eq_true_eq, not_forall]
    exact ⟨p, hp, hdb⟩
  simp [this]

theorem fillRow_get (src row : List α) (i : Nat) (hi : i < row.length) (hs : i < src.length) :
    (fillRow src row)[i]? = some (if isDefined row[i] then row[i] else src[i]) := by
  unfold fillRow
  simp [List.getElem?_zipWith, List.getElem?_eq_getElem hi, List.getElem?_eq_getElem hs]

/-- a defined entry is never changed by `predefined` / `majority` -/
theorem fillRow_defined (src row : List α) (i : Nat) (hi : i < row.length) (hs : i < src.length)
    (hd : isDefined row[i] = true) : (fillRow src row)[i]? = some row[i] := by
  rw [fillRow_get src row i hi hs]; simp [hd]

/-- **predefined acts by name**: when the named phase is stable at the point, the source row is a
row whose STABLE-phase name is that name, and every row is filled from it -/
theorem predefined_by_name (db : List ι) (alpha : ι) (pt : Point ι α)
    (hdb : alpha ∈ db) (hst : alpha ∈ pt.stable) :
    pt.stable[pt.stable.idxOf alpha]? = some alpha ∧
    postPredefined db alpha pt = .ok { pt with
      mob := pt.mob.map (fillRow (pt.mob.getD (pt.stable.idxOf alpha) [])) } := by
  refine ⟨?_, ?_⟩
  · have hlt : pt.stable.idxOf alpha < pt.stable.length := List.idxOf_lt_length_iff.mpr hst
    rw [List.getElem?_eq_getElem hlt]; simp
  · unfold postPredefined; simp [hdb, hst]

/-- **single-phase and other regions where the named phase is absent**: no error, nothing changes -/
theorem predefined_not_stable (db : List ι) (alpha : ι) (pt : Point ι α)
    (hdb : alpha ∈ db) (hst : alpha ∉ pt.stable) :
    postPredefined db alpha pt = .ok pt := by
  unfold postPredefined; simp [hdb, hst]

/-- whatever the set of stable phases (one phase or many), post-processing with database-phase
names succeeds -/
theorem postProcess_ok (db : List ι) (post : Post ι) (pt : Point ι α)
    (h : match post with
      | .predefined a => a ∈ db
      | .exclude names => ∀ p ∈ names, p ∈ db
      | _ => True) :
    ∃ pt', postProcess db post pt = .ok pt' ∧ pt'.stable = pt.stable := by
  cases post with
  | none => exact ⟨pt, rfl, rfl⟩
  | majority => exact ⟨_, rfl, rfl⟩
  | predefined a =>
    by_cases hst : a ∈ pt.stable
    · exact ⟨_, (predefined_by_name db a pt h hst).2, rfl⟩
    · exact ⟨_, predefined_not_stable db a pt h hst, rfl⟩
  | exclude names => exact ⟨_, exclude_ok db names pt h, rfl⟩

end byname

/-! ### evaluating twice = evaluating once (the cached record is not modified) -/

section cache
variable {ι : Type} [DecidableEq ι]

theorem evalCached_record (pw : α → α → α) (tiny big : α) (db : List ι) (cfg : Cfg ι α)
    (stored : Point ι α) : (evalCached pw tiny big db cfg stored).2 = stored := rfl

/-- **histories**: under any sequence of configurations evaluated at the same point with the cache
enabled, every answer is the answer on the original record, and the record is unchanged at the end -/
theorem runHistory_evalCached (pw : α → α → α) (tiny big : α) (db : List ι) (cfgs : List (Cfg ι α))
    (stored : Point ι α) :
    runHistory (evalCached pw tiny big db) cfgs stored
      = (cfgs.map (fun c => evalPoint pw tiny big db c stored), stored) := by
  unfold runHistory
  suffices h : ∀ acc : List (Except String (List α)),
      cfgs.foldl (fun (st : List (Except String (List α)) × Point ι α) cfg =>
        let r := evalCached pw tiny big db cfg st.2
        (st.1 ++ [r.1], r.2)) (acc, stored)
      = (acc ++ cfgs.map (fun c => evalPoint pw tiny big db c stored), stored) by
    simpa using h []
  induction cfgs with
  | nil => intro acc; simp
  | cons c cs ih =>
    intro acc
    simp only [List.foldl_cons, List.map_cons]
    have : evalCached pw tiny big db c stored = (evalPoint pw tiny big db c stored, stored) := rfl
    rw [this]; simp only
    rw [ih]; simp

/-- **twice = once** -/
theorem twice_eq_once (pw : α → α → α) (tiny big : α) (db : List ι) (cfg : Cfg ι α)
    (stored : Point ι α) :
    runHistory (evalCached pw tiny big db) [cfg, cfg] stored
      = ([evalPoint pw tiny big db cfg stored, evalPoint pw tiny big db cfg stored], stored) :=
  runHistory_evalCached pw tiny big db [cfg, cfg] stored

/-- the answer to a configuration does not depend on what was evaluated before it -/
theorem answer_independent_of_history (pw : α → α → α) (tiny big : α) (db : List ι)
    (before : List (Cfg ι α)) (cfg : Cfg ι α) (stored : Point ι α) :
    (runHistory (evalCached pw tiny big db) (before ++ [cfg]) stored).1.getLast?
      = some (evalPoint pw tiny big db cfg stored) := by
  rw [runHistory_evalCached]; simp

end cache

/-! ### the code AS FOUND violates both clauses (witnesses; ℤ entries so that `decide` computes)

Database phases [A,B,C] = [0,1,2]; at the point only B and C are stable (rows B, C);
mobilities B = 1, C = 5; fractions B = 3, C = 7 (tenths). -/

def wDb : List Nat := [0, 1, 2]
def wPt : Point Nat Int := { stable := [1, 2], mob := [[1], [5]], fr := [3, 7] }

/-- as found, `exclude B` zeroes the fraction of C (the phase that shares B's database position) -/
theorem old_exclude_hits_other_phase :
    (postExcludeOld wDb [1] wPt).toOption.map (·.fr) = some [3, 0] := by decide

/-- as repaired, `exclude B` zeroes the fraction of B -/
theorem new_exclude_hits_named_phase :
    (postExclude wDb [1] wPt).toOption.map (·.fr) = some [0, 7] := by decide

/-- as found, `predefined B` fills undefined entries from C's row -/
theorem old_predefined_copies_other_phase :
    (postPredefinedOld wDb 1 { wPt with mob := [[1], [5], [-1]], stable := [1, 2, 0], fr := [3, 6, 1] }
      ).toOption.map (·.mob) = some [[1], [5], [5]] := by decide

theorem new_predefined_copies_named_phase :
    (postPredefined wDb 1 { wPt with mob := [[1], [5], [-1]], stable := [1, 2, 0], fr := [3, 6, 1] }
      ).toOption.map (·.mob) = some [[1], [5], [1]] := by decide

/-- as found, a single-phase region (only C stable) raises IndexError for `exclude C` and
`predefined C`; as repaired both succeed -/
theorem old_single_phase_region_fails :
    (postExcludeOld wDb [2] ({ stable := [2], mob := [[5]], fr := [10] } : Point Nat Int)).toOption.isNone = true ∧
    (postPredefinedOld wDb 2 ({ stable := [2], mob := [[5]], fr := [10] } : Point Nat Int)).toOption.isNone = true ∧
    (postExclude wDb [2] ({ stable := [2], mob := [[5]], fr := [10] } : Point Nat Int)).toOption.isSome = true ∧
    (postPredefined wDb 2 ({ stable := [2], mob := [[5]], fr := [10] } : Point Nat Int)).toOption.isSome = true := by
  decide

def wCfg (post : Post Nat) : Cfg Nat Int := { rule := .wienerUpper, n := 1, post := post }

/-- as found, evaluating with `exclude B` changes what a later evaluation without post-processing
returns at the same point (38 on a fresh record, 3 afterwards) -/
theorem old_history_changes_answer :
    (runHistory (evalCachedOld (fun x _ => x) 0 0 wDb) [wCfg .none] wPt).1 = [.ok [38]] ∧
    (runHistory (evalCachedOld (fun x _ => x) 0 0 wDb) [wCfg (.exclude [1]), wCfg .none] wPt).1
      = [.ok [3], .ok [3]] := by
  decide

theorem new_history_keeps_answer :
    (runHistory (evalCached (fun x _ => x) 0 0 wDb) [wCfg (.exclude [1]), wCfg .none] wPt).1
      = [.ok [35], .ok [38]] := by
  decide

/-! ### real powers: the labyrinth rule with `np.power` -/

noncomputable section real
open Real

/-- **factor 1**: the labyrinth rule is the upper Wiener rule -/
theorem labyrinth_one_real (ps : List (ℝ × ℝ)) :
    labyrinth (fun x n => x ^ n) 1 ps = wienerUpper ps :=
  labyrinth_one _ (fun x => Real.rpow_one x) ps

theorem rpow_le_self (n : ℝ) (hn : 1 ≤ n) (x : ℝ) (hx0 : 0 ≤ x) (hx1 : x ≤ 1) : x ^ n ≤ x := by
  rcases hx0.lt_or_eq with h | h
  · have := Real.rpow_le_rpow_of_exponent_ge h hx1 hn
    simpa using this
  · rw [← h, Real.zero_rpow (by linarith)]

/-- **factor ≥ 1**: the labyrinth rule never exceeds the upper Wiener rule -/
theorem labyrinth_le_wienerUpper_real (n : ℝ) (hn : 1 ≤ n) (ps : List (ℝ × ℝ))
    (hM : ∀ p ∈ ps, 0 ≤ p.2) (hf : ∀ p ∈ ps, 0 ≤ p.1) (hs : S Prod.fst ps = 1) :
    labyrinth (fun x n => x ^ n) n ps ≤ wienerUpper ps :=
  labyrinth_le_wienerUpper _ n (rpow_le_self n hn) ps hM hf hs

/-- after `setLabyrinthFactor` (which clips to [1,2]) this holds for every requested factor -/
theorem labyrinth_clipped_le_wienerUpper_real (n : ℝ) (ps : List (ℝ × ℝ))
    (hM : ∀ p ∈ ps, 0 ≤ p.2) (hf : ∀ p ∈ ps, 0 ≤ p.1) (hs : S Prod.fst ps = 1) :
    labyrinth (fun x n => x ^ n) (clipFactor n) ps ≤ wienerUpper ps :=
  labyrinth_le_wienerUpper_real _ (clipFactor_range n).1 ps hM hf hs

/-- single phase, labyrinth rule, any factor -/
theorem single_phase_real (tiny big n M : ℝ) (hM : 0 < M) (r : Rule) :
    applyRule (fun x n => x ^ n) tiny big n r [(1, M)] = M :=
  single_phase _ tiny big n M hM (Real.one_rpow n) r

end real

/-! ### non-vacuity: a concrete two-phase column meets the hypotheses, and the chain is strict there -/

def exPs : List (ℚ × ℚ) := [(1/4, 1), (3/4, 2)]

theorem exPs_valid : Valid exPs := by
  refine ⟨?_, ?_, ?_⟩
  · intro p hp; simp [exPs] at hp; rcases hp with rfl | rfl <;> norm_num
  · intro p hp; simp [exPs] at hp; rcases hp with rfl | rfl <;> norm_num
  · simp [exPs]; norm_num

example : wienerLower exPs = 8/5 ∧ hsLower exPs = 22/13 ∧ hsUpper exPs = 12/7 ∧ wienerUpper exPs = 7/4 := by
  refine ⟨?_, ?_, ?_, ?_⟩ <;>
    norm_num [exPs, wienerLower, wienerUpper, hsLower, hsUpper, hsGeneral, hsTerm, sumMap, minL, maxL]

/-! ### many points through ONE shared hash table: cached = fresh, up to the resolution of the key

`Homog.runPipeline` composes the table machine of `KawinV.HashCache` (the model C09 ties to
`HashTable`) with `evalCached`.  Generic part (any key function, any thermodynamics function
`therm`, any history of control calls and pipeline calls): every answer is `evalPoint` on
`therm x' T'` for a point `(x', T')` that was asked for before (or is the point itself) and has the
SAME KEY as the point asked for; with caching off it is `evalPoint` on `therm x T` itself (the
"fresh" evaluation the oracle compares with); asking again gives the same answer.  Key part: with
the code's key — composition AND temperature multiplied by `10^s`, then truncated — equal keys of
physical points (mole fractions and absolute temperature are non-negative) force
`|xᵢ - x'ᵢ| < 10^-s` and `|T - T'| < 10^-s`.  Witness: a key that leaves the temperature unscaled
merges `T` and `T + 0.8` at EVERY precision, and a table with that key answers a query at 1073.8 K
with the record of 1073.0 K. -/

section shared
open KawinV.HashCache
variable {ι : Type} [DecidableEq ι] {κ : Type} [DecidableEq κ]

theorem lookup_mem {ν : Type} {k : κ} {v : ν} :
    ∀ {l : List (κ × ν)}, lookup k l = some v → (k, v) ∈ l
  | [], h => by simp [lookup] at h
  | (k', v') :: r, h => by
    unfold lookup at h
    split at h
    · next hk => cases h; subst hk; exact List.mem_cons_self
    · exact List.mem_cons_of_mem _ (lookup_mem h)

/-- every stored record is `therm` of an admissible point whose key (at the table's current
precision) is the stored key -/
def SoundT (Adm : List α → α → Prop) (key : Nat → List α → α → κ) (therm : List α → α → Point ι α)
    (t : Table κ (Point ι α)) : Prop :=
  ∀ k v, (k, v) ∈ t.data → ∃ x' T', Adm x' T' ∧ v = therm x' T' ∧ key t.sens x' T' = k

theorem soundT_init (Adm : List α → α → Prop) (key : Nat → List α → α → κ)
    (therm : List α → α → Point ι α) : SoundT Adm key therm (init : Table κ (Point ι α)) := by
  intro k v h; simp [init] at h

theorem cachedQuery_keeps {ν : Type} (key : Nat → List α → α → κ) (f : List α → α → ν)
    (t : Table κ ν) (x : List α) (T : α) :
    (cachedQuery Cfg.fixed key f t x T).2.sens = t.sens ∧
    (cachedQuery Cfg.fixed key f t x T).2.flag = t.flag := by
  unfold cachedQuery
  split
  · exact ⟨rfl, rfl⟩
  · simp only [step]; split <;> exact ⟨rfl, rfl⟩

theorem cachedQuery_off {ν : Type} (key : Nat → List α → α → κ) (f : List α → α → ν)
    (t : Table κ ν) (h : t.flag = false) (x : List α) (T : α) :
    (cachedQuery Cfg.fixed key f t x T).1 = f x T := by
  simp [cachedQuery, retrieve, isOn, Cfg.fixed, h]

/-- one cached query returns `therm` at an admissible point with the same key; the table stays sound -/
theorem cachedQuery_spec (Adm : List α → α → Prop) (key : Nat → List α → α → κ)
    (therm : List α → α → Point ι α) (t : Table κ (Point ι α)) (h : SoundT Adm key therm t)
    (x : List α) (T : α) (hx : Adm x T) :
    (∃ x' T', Adm x' T' ∧ (cachedQuery Cfg.fixed key therm t x T).1 = therm x' T' ∧
        key t.sens x' T' = key t.sens x T) ∧
    SoundT Adm key therm (cachedQuery Cfg.fixed key therm t x T).2 := by
  unfold cachedQuery
  split
  · next v hv =>
    refine ⟨?_, h⟩
    unfold retrieve at hv
    split at hv
    · obtain ⟨x', T', h0, h1, h2⟩ := h _ v (lookup_mem hv)
      exact ⟨x', T', h0, h1, h2⟩
    · cases hv
  · refine ⟨⟨x, T, hx, rfl, rfl⟩, ?_⟩
    simp only [step]
    split
    · intro k v hm
      simp only [List.mem_cons, Prod.mk.injEq] at hm
      rcases hm with ⟨hk, hv⟩ | hm
      · exact ⟨x, T, hx, hv, hk.symm⟩
      · exact h k v hm
    · exact h

/-- asking for the same point again right away: same record, same table -/
theorem cachedQuery_twice {ν : Type} (key : Nat → List α → α → κ) (f : List α → α → ν)
    (t : Table κ ν) (x : List α) (T : α) :
    cachedQuery Cfg.fixed key f (cachedQuery Cfg.fixed key f t x T).2 x T
      = cachedQuery Cfg.fixed key f t x T := by
  cases hr : retrieve Cfg.fixed key t x T with
  | some v => simp [cachedQuery, hr]
  | none =>
    by_cases hon : isOn Cfg.fixed t = true
    · have h1 : cachedQuery Cfg.fixed key f t x T
          = (f x T, { t with data := (key t.sens x T, f x T) :: t.data }) := by
        simp [cachedQuery, hr, step, hon]
      rw [h1]
      simp [cachedQuery, retrieve, isOn, lookup, Cfg.fixed] at hon ⊢
      simp [hon]
    · have h1 : cachedQuery Cfg.fixed key f t x T = (f x T, t) := by
        simp [cachedQuery, hr, step, hon]
      rw [h1]; exact h1

variable (Adm : List α → α → Prop) (key : Nat → List α → α → κ) (therm : List α → α → Point ι α)
  (pw : α → α → α) (tiny big : α) (db : List ι)

/-- the answer `a` for `(x, T)` under `cfg` is the evaluation of the record of an admissible point
with the same key at precision `s` -/
def Served (s : Nat) (cfg : Cfg ι α) (x : List α) (T : α) (a : Except String (List α)) : Prop :=
  ∃ x' T', Adm x' T' ∧ a = evalPoint pw tiny big db cfg (therm x' T') ∧ key s x' T' = key s x T

theorem evalVia_fst (cfg : Cfg ι α) (t : Table κ (Point ι α)) (x : List α) (T : α) :
    (evalVia key therm pw tiny big db cfg t x T).1
      = evalPoint pw tiny big db cfg (cachedQuery Cfg.fixed key therm t x T).1 := rfl

theorem evalVia_snd (cfg : Cfg ι α) (t : Table κ (Point ι α)) (x : List α) (T : α) :
    (evalVia key therm pw tiny big db cfg t x T).2 = (cachedQuery Cfg.fixed key therm t x T).2 := rfl

/-- one point of a call -/
theorem evalVia_spec (cfg : Cfg ι α) (t : Table κ (Point ι α)) (h : SoundT Adm key therm t)
    (x : List α) (T : α) (hx : Adm x T) :
    Served Adm key therm pw tiny big db t.sens cfg x T (evalVia key therm pw tiny big db cfg t x T).1 ∧
    SoundT Adm key therm (evalVia key therm pw tiny big db cfg t x T).2 ∧
    (evalVia key therm pw tiny big db cfg t x T).2.sens = t.sens ∧
    (evalVia key therm pw tiny big db cfg t x T).2.flag = t.flag ∧
    (t.flag = false → (evalVia key therm pw tiny big db cfg t x T).1
        = evalPoint pw tiny big db cfg (therm x T)) := by
  obtain ⟨⟨x', T', h0, h1, h2⟩, hS⟩ := cachedQuery_spec Adm key therm t h x T hx
  refine ⟨⟨x', T', h0, ?_, h2⟩, hS, (cachedQuery_keeps key therm t x T).1,
    (cachedQuery_keeps key therm t x T).2, ?_⟩
  · rw [evalVia_fst, h1]
  · intro hf; rw [evalVia_fst, cachedQuery_off key therm t hf]

/-- **twice = once, rule / post-process switches**: the same point asked again right away — under the
same or ANOTHER configuration — is answered from the very record the first answer was computed from,
and the table is the same -/
theorem evalVia_again (cfg cfg' : Cfg ι α) (t : Table κ (Point ι α)) (x : List α) (T : α) :
    evalVia key therm pw tiny big db cfg' (evalVia key therm pw tiny big db cfg t x T).2 x T
      = (evalPoint pw tiny big db cfg' (cachedQuery Cfg.fixed key therm t x T).1,
         (evalVia key therm pw tiny big db cfg t x T).2) := by
  rw [evalVia_snd]
  show (evalPoint pw tiny big db cfg'
      (cachedQuery Cfg.fixed key therm (cachedQuery Cfg.fixed key therm t x T).2 x T).1,
      (cachedQuery Cfg.fixed key therm (cachedQuery Cfg.fixed key therm t x T).2 x T).2) = _
  rw [cachedQuery_twice]

theorem evalVia_twice (cfg : Cfg ι α) (t : Table κ (Point ι α)) (x : List α) (T : α) :
    evalVia key therm pw tiny big db cfg (evalVia key therm pw tiny big db cfg t x T).2 x T
      = evalVia key therm pw tiny big db cfg t x T := by
  rw [evalVia_again]; rfl

/-- what the oracle checks for one point `p` of a call answered `v` at precision `s`, flag `fl` -/
def PointOK (s : Nat) (fl : Bool) (cfg : Cfg ι α) (p : List α × α) (v : List α) : Prop :=
  Served Adm key therm pw tiny big db s cfg p.1 p.2 (.ok v) ∧
  (fl = false → Except.ok v = evalPoint pw tiny big db cfg (therm p.1 p.2))

/-- one call (array call: several points, in order) -/
theorem callVia_spec (cfg : Cfg ι α) :
    ∀ (pts : List (List α × α)) (t : Table κ (Point ι α)), SoundT Adm key therm t →
      (∀ p ∈ pts, Adm p.1 p.2) →
      SoundT Adm key therm (callVia key therm pw tiny big db cfg t pts).2 ∧
      (callVia key therm pw tiny big db cfg t pts).2.sens = t.sens ∧
      (callVia key therm pw tiny big db cfg t pts).2.flag = t.flag ∧
      ∀ vs, (callVia key therm pw tiny big db cfg t pts).1 = .ok vs →
        List.Forall₂ (PointOK Adm key therm pw tiny big db t.sens t.flag cfg) pts vs
  | [], t, h, _ => by
    refine ⟨h, rfl, rfl, ?_⟩
    intro vs hvs
    simp only [callVia, Except.ok.injEq] at hvs
    subst hvs; exact List.Forall₂.nil
  | p :: r, t, h, hadm => by
    obtain ⟨hs, hsound, hsens, hflag, hoff⟩ :=
      evalVia_spec Adm key therm pw tiny big db cfg t h p.1 p.2 (hadm p (by simp))
    obtain ⟨ihS, ihsens, ihflag, ihF⟩ :=
      callVia_spec cfg r _ hsound (fun q hq => hadm q (by simp [hq]))
    unfold callVia
    simp only []
    split
    · next e he =>
      refine ⟨hsound, hsens, hflag, ?_⟩
      intro vs hvs; cases hvs
    · next v hv =>
      refine ⟨ihS, ihsens.trans hsens, ihflag.trans hflag, ?_⟩
      intro vs hvs
      cases hb : (callVia key therm pw tiny big db cfg
          (evalVia key therm pw tiny big db cfg t p.1 p.2).2 r).1 with
      | error e => rw [hb] at hvs; cases hvs
      | ok ws =>
        rw [hb] at hvs
        simp only [Except.map, Except.ok.injEq] at hvs
        subst hvs
        refine List.Forall₂.cons ⟨?_, ?_⟩ ?_
        · rw [← hv]; exact hs
        · intro hf; rw [← hv]; exact hoff hf
        · have := ihF ws hb
          rw [hsens, hflag] at this
          exact this

/-- all points of all calls of a history are admissible -/
def AdmHist (evs : List (PEv ι α)) : Prop :=
  ∀ cfg pts, PEv.call cfg pts ∈ evs → ∀ p ∈ pts, Adm p.1 p.2

/-- the table stays sound along every history -/
theorem runPipeline_sound :
    ∀ (evs : List (PEv ι α)) (t : Table κ (Point ι α)), SoundT Adm key therm t → AdmHist Adm evs →
      SoundT Adm key therm (runPipeline key therm pw tiny big db t evs).1
  | [], t, h, _ => by simpa [runPipeline] using h
  | .enable b :: r, t, h, ha => by
    simp only [runPipeline]
    refine runPipeline_sound r _ ?_ (fun c ps hm => ha c ps (by simp [hm]))
    simpa [step, SoundT] using h
  | .clear :: r, t, h, ha => by
    simp only [runPipeline]
    refine runPipeline_sound r _ ?_ (fun c ps hm => ha c ps (by simp [hm]))
    intro k v hm; simp [step] at hm
  | .setSens s :: r, t, h, ha => by
    simp only [runPipeline]
    refine runPipeline_sound r _ ?_ (fun c ps hm => ha c ps (by simp [hm]))
    intro k v hm; simp [step, Cfg.fixed] at hm
  | .call cfg pts :: r, t, h, ha => by
    simp only [runPipeline]
    exact runPipeline_sound r _
      (callVia_spec Adm key therm pw tiny big db cfg pts t h (ha cfg pts (by simp))).1
      (fun c ps hm => ha c ps (by simp [hm]))

/-- **cached = fresh at an equal key, for every history**: after any history of control calls
(enable/disable, clear, change of precision) and pipeline calls on a new table, every answer of the
next call is the evaluation — under the call's configuration — of the record of a point with the
same key at the current precision; with caching off, of the point itself. -/
theorem shared_table_answers (evs : List (PEv ι α)) (hev : AdmHist Adm evs) (cfg : Cfg ι α)
    (pts : List (List α × α)) (hp : ∀ p ∈ pts, Adm p.1 p.2) (vs : List (List α)) :
    let t := (runPipeline key therm pw tiny big db (init : Table κ (Point ι α)) evs).1
    (callVia key therm pw tiny big db cfg t pts).1 = .ok vs →
      List.Forall₂ (PointOK Adm key therm pw tiny big db t.sens t.flag cfg) pts vs := by
  intro t hvs
  exact (callVia_spec Adm key therm pw tiny big db cfg pts t
    (runPipeline_sound Adm key therm pw tiny big db evs _ (soundT_init Adm key therm) hev) hp).2.2.2 vs hvs

end shared

/-! #### the key: composition and temperature scaled by `10^s`, truncated toward zero -/

section key
open KawinV.HashCache
variable [FloorRing α]

/-- `astype(int)`: truncation toward zero -/
def truncZ (v : α) : Int := if 0 ≤ v then ⌊v⌋ else ⌈v⌉

/-- the key arithmetic over an ordered field with a floor function -/
@[reducible] def fieldKey : KeyScalar α := ⟨fun n => (n : α), fun a b => a * b, fun v => some (truncZ v)⟩

/-- the code's key (`HashCache.keyExact`) over the field -/
def keyF (s : Nat) (x : List α) (T : α) : List (Option Int) := @keyExact α fieldKey s x T

/-- the key with the temperature left unscaled (`Homog.keyWholeT`) over the field -/
def keyWholeTF (s : Nat) (x : List α) (T : α) : List (Option Int) := @keyWholeT α fieldKey s x T

theorem scaled_eq (s : Nat) (v : α) : @scaled α fieldKey s v = some (truncZ (v * (10:α) ^ s)) := by
  show some (truncZ (v * ((10 ^ s : ℕ) : α))) = _
  rw [Nat.cast_pow]; norm_num

theorem truncZ_close (a b : α) (ha : 0 ≤ a) (hb : 0 ≤ b) (h : truncZ a = truncZ b) : |a - b| < 1 := by
  simp only [truncZ, ha, hb, if_true] at h
  exact Int.abs_sub_lt_one_of_floor_eq_floor h

/-- one coordinate: equal scaled-and-truncated values of non-negative numbers are closer than `10^-s` -/
theorem scaled_close (s : Nat) (v w : α) (hv : 0 ≤ v) (hw : 0 ≤ w)
    (h : @scaled α fieldKey s v = @scaled α fieldKey s w) : |v - w| < 1 / (10:α) ^ s := by
  rw [scaled_eq, scaled_eq] at h
  have hp : (0:α) < (10:α) ^ s := by positivity
  have h1 := truncZ_close _ _ (mul_nonneg hv hp.le) (mul_nonneg hw hp.le) (Option.some.inj h)
  rw [← sub_mul, abs_mul, abs_of_pos hp] at h1
  rw [lt_div_iff₀ hp]; exact h1

/-- mole fractions and the absolute temperature are non-negative -/
def PhysPoint (x : List α) (T : α) : Prop := (∀ a ∈ x, 0 ≤ a) ∧ 0 ≤ T

/-- closer than `10^-s` in every coordinate -/
def Within (s : Nat) (x : List α) (T : α) (x' : List α) (T' : α) : Prop :=
  List.Forall₂ (fun a b => |a - b| < 1 / (10:α) ^ s) x x' ∧ |T - T'| < 1 / (10:α) ^ s

theorem forall₂_of_map_eq {β γ : Type} (f : β → γ) (P : β → Prop) (R : β → β → Prop)
    (hR : ∀ a b, P a → P b → f a = f b → R a b) :
    ∀ (l l' : List β), (∀ a ∈ l, P a) → (∀ b ∈ l', P b) → l.map f = l'.map f → List.Forall₂ R l l'
  | [], [], _, _, _ => List.Forall₂.nil
  | [], _ :: _, _, _, h => by simp at h
  | _ :: _, [], _, _, h => by simp at h
  | a :: l, b :: l', ha, hb, h => by
    simp only [List.map_cons, List.cons.injEq] at h
    exact List.Forall₂.cons (hR a b (ha a (by simp)) (hb b (by simp)) h.1)
      (forall₂_of_map_eq f P R hR l l' (fun c hc => ha c (by simp [hc]))
        (fun c hc => hb c (by simp [hc])) h.2)

theorem keyF_split (s : Nat) (x x' : List α) (T T' : α) (h : keyF s x T = keyF s x' T') :
    x.map (@scaled α fieldKey s) = x'.map (@scaled α fieldKey s) ∧
    @scaled α fieldKey s T = @scaled α fieldKey s T' := by
  unfold keyF keyExact at h
  rw [List.map_append, List.map_append, List.map_singleton, List.map_singleton] at h
  exact List.append_singleton_inj.mp h

/-- **resolution of the key**: two physical points with equal keys at precision `s` differ by less
than `10^-s` in every composition coordinate and in temperature -/
theorem keyF_eq_within (s : Nat) (x x' : List α) (T T' : α) (hp : PhysPoint x T) (hp' : PhysPoint x' T')
    (h : keyF s x T = keyF s x' T') : Within s x T x' T' := by
  obtain ⟨hx, hT⟩ := keyF_split s x x' T T' h
  exact ⟨forall₂_of_map_eq _ (fun a => 0 ≤ a) _ (fun a b ha hb hab => scaled_close s a b ha hb hab)
    x x' hp.1 hp'.1 hx, scaled_close s T T' hp.2 hp'.2 hT⟩

/-- temperatures at least `10^-s` apart never share a key (whatever the compositions) -/
theorem keyF_separates (s : Nat) (x x' : List α) (T T' : α) (hT : 0 ≤ T) (hT' : 0 ≤ T')
    (hd : 1 / (10:α) ^ s ≤ |T - T'|) : keyF s x T ≠ keyF s x' T' := by
  intro h
  exact absurd (scaled_close s T T' hT hT' (keyF_split s x x' T T' h).2) (not_lt.mpr hd)

/-- **witness (temperature left unscaled)**: a whole number of kelvin and anything less than one
kelvin above it get the same key AT EVERY PRECISION `s` -/
theorem wholeT_merges (s : Nat) (x : List α) (n : ℕ) (d : α) (h0 : 0 ≤ d) (h1 : d < 1) :
    keyWholeTF s x (n : α) = keyWholeTF s x ((n : α) + d) := by
  have hn : (0:α) ≤ (n : α) := Nat.cast_nonneg n
  have e1 : truncZ ((n : α)) = (n : ℤ) := by
    simp only [truncZ, hn, if_true]; exact Int.floor_natCast n
  have e2 : truncZ ((n : α) + d) = (n : ℤ) := by
    have : (0:α) ≤ (n : α) + d := add_nonneg hn h0
    simp only [truncZ, this, if_true]
    rw [Int.floor_eq_iff]
    constructor
    · push_cast; linarith
    · push_cast; linarith
  simp only [keyWholeTF, keyWholeT, KeyScalar.trunc, e1, e2]

/-- 1073.0 K and 1073.8 K: merged at every precision by the unscaled-temperature key … -/
theorem wholeT_merges_1073 (s : Nat) (x : List α) :
    keyWholeTF s x (1073 : α) = keyWholeTF s x ((1073 : α) + 4 / 5) := by
  have := wholeT_merges s x 1073 ((4:α) / 5) (by norm_num) (by norm_num)
  simpa using this

/-- … and kept apart by the code's key at every precision of at least one digit -/
theorem keyF_separates_1073 (s : Nat) (hs : 1 ≤ s) (x x' : List α) :
    keyF s x (1073 : α) ≠ keyF s x' ((1073 : α) + 4 / 5) := by
  refine keyF_separates s x x' _ _ (by norm_num) (by norm_num) ?_
  have h10 : (10:α) ^ 1 ≤ (10:α) ^ s := pow_le_pow_right₀ (by norm_num) hs
  have hp : (0:α) < (10:α) ^ s := by positivity
  rw [div_le_iff₀ hp]
  have : |(1073:α) - (1073 + 4 / 5)| = 4 / 5 := by
    rw [show (1073:α) - (1073 + 4 / 5) = -(4 / 5) by ring, abs_neg, abs_of_pos (by norm_num)]
  rw [this]
  nlinarith

end key

/-! #### the pipeline with the code's key: cached = fresh within `10^-s` -/

section resolution
open KawinV.HashCache
variable {ι : Type} [DecidableEq ι] [FloorRing α]

/-- **the statement the cached-vs-fresh oracle relies on.**  For every thermodynamics function, every
history of control calls and pipeline calls at physical points on a new table, and every next call:
each answer equals the FRESH evaluation (no cache) — under the call's rule, labyrinth factor and
post-processing — of a physical point that differs from the point asked for by less than `10^-s` in
every composition coordinate and in temperature (`s` = the table's current precision); with caching
off it equals the fresh evaluation of the point itself. -/
theorem cached_answer_is_fresh_within_resolution (therm : List α → α → Point ι α)
    (pw : α → α → α) (tiny big : α) (db : List ι)
    (evs : List (PEv ι α)) (hev : AdmHist PhysPoint evs) (cfg : Cfg ι α)
    (pts : List (List α × α)) (hp : ∀ p ∈ pts, PhysPoint p.1 p.2) (vs : List (List α)) :
    let t := (runPipeline keyF therm pw tiny big db (init : Table (List (Option Int)) (Point ι α)) evs).1
    (callVia keyF therm pw tiny big db cfg t pts).1 = .ok vs →
      List.Forall₂ (fun p v =>
        (∃ x' T', Within t.sens p.1 p.2 x' T' ∧
          Except.ok v = evalPoint pw tiny big db cfg (therm x' T')) ∧
        (t.flag = false → Except.ok v = evalPoint pw tiny big db cfg (therm p.1 p.2))) pts vs := by
  intro t hvs
  have h := shared_table_answers PhysPoint keyF therm pw tiny big db evs hev cfg pts hp vs hvs
  -- strengthen pointwise
  have key : ∀ (l : List (List α × α)) (ws : List (List α)), (∀ p ∈ l, PhysPoint p.1 p.2) →
      List.Forall₂ (PointOK PhysPoint keyF therm pw tiny big db t.sens t.flag cfg) l ws →
      List.Forall₂ (fun p v =>
        (∃ x' T', Within t.sens p.1 p.2 x' T' ∧
          Except.ok v = evalPoint pw tiny big db cfg (therm x' T')) ∧
        (t.flag = false → Except.ok v = evalPoint pw tiny big db cfg (therm p.1 p.2))) l ws := by
    intro l ws hl hf
    induction hf with
    | nil => exact List.Forall₂.nil
    | cons hpv _ ih =>
      refine List.Forall₂.cons ?_ (ih (fun q hq => hl q (by simp [hq])))
      obtain ⟨⟨x', T', hadm, hval, hkey⟩, hoff⟩ := hpv
      exact ⟨⟨x', T', keyF_eq_within _ _ _ _ _ (hl _ (by simp)) hadm hkey.symm, hval⟩, hoff⟩
  exact key pts vs hp h

end resolution

/-! #### witnesses on exact decimals (`HashCache.Dec`; `decide` computes): the table machine with
the stored value = the temperature the record was computed at -/

section witness
open KawinV.HashCache

/-- x = (0.7, 0.05) -/
def wX : List Dec := [⟨7, 1⟩, ⟨5, 2⟩]

/-- temperature left unscaled: the query at 1073.8 K is answered with the record of 1073.0 K -/
theorem wholeT_table_returns_other_temperature :
    (runEvs Cfg.fixed (keyWholeT (α := Dec)) (fun _ T => T) (init : Table (List (Option Int)) Dec)
      [.query wX ⟨10730, 1⟩, .query wX ⟨10738, 1⟩, .query wX ⟨10730, 1⟩]).2
      = [⟨10730, 1⟩, ⟨10730, 1⟩, ⟨10730, 1⟩] := by decide

/-- the code's key: every query is answered with its own record, the repeated one too -/
theorem scaledT_table_returns_own_temperature :
    (runEvs Cfg.fixed (keyExact (α := Dec)) (fun _ T => T) (init : Table (List (Option Int)) Dec)
      [.query wX ⟨10730, 1⟩, .query wX ⟨10738, 1⟩, .query wX ⟨10730, 1⟩]).2
      = [⟨10730, 1⟩, ⟨10738, 1⟩, ⟨10730, 1⟩] := by decide

/-- the truncation is toward zero: without the sign hypothesis of `keyF_eq_within` two values
`2·10^-s` apart can share a key (−0.00009 and 0.00009 at `s = 4`) -/
example : keyExact (α := Dec) 4 [⟨-9, 5⟩] ⟨10730, 1⟩ = keyExact (α := Dec) 4 [⟨9, 5⟩] ⟨10730, 1⟩ := by decide

end witness

/-! #### non-vacuity of the new hypothesis sets -/

section nonvac
open KawinV.HashCache

/-- two DIFFERENT physical points with equal keys exist (so `keyF_eq_within` is not vacuous) … -/
example : keyF 4 [(7:ℚ) / 10] 1073 = keyF 4 [(7:ℚ) / 10 + 1 / 100000] (1073 + 3 / 100000) ∧
    PhysPoint [(7:ℚ) / 10] 1073 ∧ PhysPoint [(7:ℚ) / 10 + 1 / 100000] (1073 + 3 / 100000) := by
  refine ⟨?_, ⟨?_, by norm_num⟩, ⟨?_, by norm_num⟩⟩
  · have f1 : truncZ ((7:ℚ) / 10 * 10 ^ 4) = 7000 := by
      simp only [truncZ]; norm_num
    have f2 : truncZ (((7:ℚ) / 10 + 1 / 100000) * 10 ^ 4) = 7000 := by
      have : (0:ℚ) ≤ ((7:ℚ) / 10 + 1 / 100000) * 10 ^ 4 := by norm_num
      simp only [truncZ, this, if_true]; rw [Int.floor_eq_iff]; norm_num
    have f3 : truncZ ((1073:ℚ) * 10 ^ 4) = 10730000 := by
      simp only [truncZ]; norm_num
    have f4 : truncZ (((1073:ℚ) + 3 / 100000) * 10 ^ 4) = 10730000 := by
      have : (0:ℚ) ≤ ((1073:ℚ) + 3 / 100000) * 10 ^ 4 := by norm_num
      simp only [truncZ, this, if_true]; rw [Int.floor_eq_iff]; norm_num
    simp only [keyF, keyExact, List.map_append, List.map_cons, List.map_nil, scaled_eq, f1, f2, f3, f4]
  · intro a ha; simp at ha; subst ha; norm_num
  · intro a ha; simp at ha; subst ha; norm_num

/-- … and a history of physical points (a sweep over a temperature gradient, a change of precision,
a second sweep under another rule) meets the hypothesis of `cached_answer_is_fresh_within_resolution` -/
example : AdmHist (ι := Nat) PhysPoint
    [PEv.call ⟨.wienerUpper, 1, .none⟩ [([(7:ℚ) / 10], 1073), ([(7:ℚ) / 10], 1073 + 4 / 5)],
     PEv.setSens 3,
     PEv.call ⟨.hashinLower, 1, .majority⟩ [([(7:ℚ) / 10], 1073 + 4 / 5)]] := by
  intro cfg pts hm p hp
  simp only [List.mem_cons, List.mem_nil_iff, or_false, reduceCtorEq, false_or, PEv.call.injEq] at hm
  rcases hm with ⟨_, rfl⟩ | ⟨_, rfl⟩
  · simp only [List.mem_cons, List.mem_nil_iff, or_false] at hp
    rcases hp with rfl | rfl <;> refine ⟨?_, by norm_num⟩ <;> intro a ha <;> simp at ha <;> subst ha <;> norm_num
  · simp only [List.mem_cons, List.mem_nil_iff, or_false] at hp
    subst hp; refine ⟨?_, by norm_num⟩; intro a ha; simp at ha; subst ha; norm_num

end nonvac

/-! ### several models and their parameter objects: isolation

`Homog.runM … none` is the code (a model built without parameters allocates its own object);
`Homog.runM … (some d)` is the variant with ONE default object made at import time. -/

section objects
variable {ι : Type} [DecidableEq ι]
variable (pw : α → α → α) (tiny big eps0 : α) (db : List ι)

/-- every model holds a reference to an object that exists -/
def WFStore (st : Store ι α) : Prop :=
  ∀ mid pid : Nat, st.models[mid]? = some pid → pid < st.params.length

theorem wf_init : WFStore (initStore eps0 none : Store ι α) := by
  intro mid pid h; simp [initStore] at h

theorem setAt_models (st : Store ι α) (pid : Nat) (s : Setting ι α) :
    (setAt st pid s).models = st.models := by
  unfold setAt; split <;> rfl

theorem setAt_length (st : Store ι α) (pid : Nat) (s : Setting ι α) :
    (setAt st pid s).params.length = st.params.length := by
  unfold setAt; split <;> simp

theorem setAt_get_ne (st : Store ι α) (pid q : Nat) (s : Setting ι α) (h : q ≠ pid) :
    (setAt st pid s).params[q]? = st.params[q]? := by
  unfold setAt; split
  · simp [List.getElem?_set_ne (Ne.symm h)]
  · rfl

theorem setAt_get_self (st : Store ι α) (pid : Nat) (s : Setting ι α) :
    (setAt st pid s).params[pid]? = (st.params[pid]?).map (applySetting s) := by
  unfold setAt; split
  · rename_i p hp
    have hlt : pid < st.params.length := (List.getElem?_eq_some_iff.mp hp).1
    simp [hp, List.getElem?_set_self hlt]
  · rename_i hp; simp [hp]

/-- the setting an operation applies to the parameters object `pid` (through a model that holds it,
or directly), if any -/
def addressed (st : Store ι α) (pid : Nat) : MOp ι α → Option (Setting ι α)
  | .set mid s => if st.models[mid]? = some pid then some s else none
  | .setP q s => if q = pid then some s else none
  | _ => none

/-- the objects and models that exist stay, with their identity -/
theorem step_length_le (st : Store ι α) (op : MOp ι α) :
    st.params.length ≤ (stepM pw tiny big eps0 db none st op).1.params.length ∧
    st.models.length ≤ (stepM pw tiny big eps0 db none st op).1.models.length := by
  cases op with
  | newParams p => simp [stepM]
  | newModel arg =>
    cases arg with
    | none => simp [stepM]
    | some q => simp only [stepM]; split <;> simp
  | set mid s =>
    simp only [stepM]; split <;> simp [setAt_length, setAt_models]
  | setP q s => simp [stepM, setAt_length, setAt_models]
  | eval mid pts => simp [stepM]

theorem step_models (st : Store ι α) (op : MOp ι α) (mid : Nat) (h : mid < st.models.length) :
    (stepM pw tiny big eps0 db none st op).1.models[mid]? = st.models[mid]? := by
  cases op with
  | newParams p => simp [stepM]
  | newModel arg =>
    cases arg with
    | none => simp [stepM, List.getElem?_append_left h]
    | some q => simp only [stepM]; split <;> simp [List.getElem?_append_left h]
  | set m s => simp only [stepM]; split <;> simp [setAt_models]
  | setP q s => simp [stepM, setAt_models]
  | eval m pts => simp [stepM]

/-- **frame**: one operation changes the object `pid` only if it is addressed to it -/
theorem step_params (st : Store ι α) (op : MOp ι α) (pid : Nat) (h : pid < st.params.length) :
    (stepM pw tiny big eps0 db none st op).1.params[pid]?
      = match addressed st pid op with
        | some s => (st.params[pid]?).map (applySetting s)
        | none => st.params[pid]? := by
  cases op with
  | newParams p => simp [stepM, addressed, List.getElem?_append_left h]
  | newModel arg =>
    cases arg with
    | none => simp [stepM, addressed, List.getElem?_append_left h]
    | some q => simp only [stepM, addressed]; split <;> rfl
  | set m s =>
    simp only [stepM, addressed]
    cases hm : st.models[m]? with
    | none => simp
    | some q =>
      by_cases hq : q = pid
      · subst hq; simp [setAt_get_self]
      · have : ¬ (some q = some pid) := by simpa using hq
        simp [this, setAt_get_ne st q pid s (Ne.symm hq)]
  | setP q s =>
    simp only [stepM, addressed]
    by_cases hq : q = pid
    · subst hq; simp [setAt_get_self]
    · simp [hq, setAt_get_ne st q pid s (Ne.symm hq)]
  | eval m pts => simp [stepM, addressed]

theorem run_length_le (st : Store ι α) (ops : List (MOp ι α)) :
    st.params.length ≤ (runM pw tiny big eps0 db none st ops).1.params.length ∧
    st.models.length ≤ (runM pw tiny big eps0 db none st ops).1.models.length := by
  induction ops generalizing st with
  | nil => simp [runM]
  | cons op r ih =>
    simp only [runM]
    have h1 := step_length_le pw tiny big eps0 db st op
    have h2 := ih (stepM pw tiny big eps0 db none st op).1
    exact ⟨le_trans h1.1 h2.1, le_trans h1.2 h2.2⟩

theorem run_models (st : Store ι α) (ops : List (MOp ι α)) (mid : Nat) (h : mid < st.models.length) :
    (runM pw tiny big eps0 db none st ops).1.models[mid]? = st.models[mid]? := by
  induction ops generalizing st with
  | nil => simp [runM]
  | cons op r ih =>
    simp only [runM]
    rw [ih _ (lt_of_lt_of_le h (step_length_le pw tiny big eps0 db st op).2)]
    exact step_models pw tiny big eps0 db st op mid h

/-- the settings a history applies to the object `pid`, in order -/
def settingsFor : Store ι α → Nat → List (MOp ι α) → List (Setting ι α)
  | _, _, [] => []
  | st, pid, op :: r =>
    (addressed st pid op).toList ++ settingsFor (stepM pw tiny big eps0 db none st op).1 pid r

def applyAll (ss : List (Setting ι α)) (p : Params ι α) : Params ι α :=
  ss.foldl (fun p s => applySetting s p) p

theorem run_params (st : Store ι α) (ops : List (MOp ι α)) (pid : Nat) (h : pid < st.params.length) :
    (runM pw tiny big eps0 db none st ops).1.params[pid]?
      = (st.params[pid]?).map (applyAll (settingsFor pw tiny big eps0 db st pid ops)) := by
  induction ops generalizing st with
  | nil =>
    simp only [runM, settingsFor]
    cases hq : st.params[pid]? <;> simp [applyAll]
  | cons op r ih =>
    simp only [runM, settingsFor]
    rw [ih _ (lt_of_lt_of_le h (step_length_le pw tiny big eps0 db st op).1)]
    rw [step_params pw tiny big eps0 db st op pid h]
    cases addressed st pid op with
    | none => simp
    | some s =>
      cases st.params[pid]? with
      | none => simp
      | some p => simp [applyAll]

/-- **isolation** (any history, any aliasing the user set up): what model `A` evaluates after the
history is the evaluation under the state its parameters object had before, changed by exactly the
settings the history addressed to THAT object, in order -/
theorem isolation (st : Store ι α) (ops : List (MOp ι α)) (A pid : Nat) (p : Params ι α)
    (hA : st.models[A]? = some pid) (hp : st.params[pid]? = some p) (pts : List (Point ι α)) :
    evalModel pw tiny big db (runM pw tiny big eps0 db none st ops).1 A pts
      = evalParams pw tiny big db (applyAll (settingsFor pw tiny big eps0 db st pid ops) p) pts := by
  have hAl : A < st.models.length := (List.getElem?_eq_some_iff.mp hA).1
  have hpl : pid < st.params.length := (List.getElem?_eq_some_iff.mp hp).1
  unfold evalModel
  rw [run_models pw tiny big eps0 db st ops A hAl, hA]
  simp only
  rw [run_params pw tiny big eps0 db st ops pid hpl, hp]
  simp

/-- the calls made ON model `A` -/
def ownSettings (A : Nat) : List (MOp ι α) → List (Setting ι α)
  | [] => []
  | .set m s :: r => if m = A then s :: ownSettings A r else ownSettings A r
  | _ :: r => ownSettings A r

/-- the operation does not reach object `pid` from outside a model: nobody calls a setter on the
object itself and nobody hands it to another model -/
def NotHanded (pid : Nat) : MOp ι α → Prop
  | .setP q _ => q ≠ pid
  | .newModel (some q) => q ≠ pid
  | _ => True

/-- `A` is the only model that holds object `pid` -/
def Sole (st : Store ι α) (pid A : Nat) : Prop := ∀ mid : Nat, st.models[mid]? = some pid → mid = A

theorem sole_step (st : Store ι α) (op : MOp ι α) (pid A : Nat) (hs : Sole st pid A)
    (hpl : pid < st.params.length) (hn : NotHanded pid op) :
    Sole (stepM pw tiny big eps0 db none st op).1 pid A := by
  intro mid hm
  cases op with
  | newParams p => exact hs mid (by simpa [stepM] using hm)
  | newModel arg =>
    cases arg with
    | none =>
      simp only [stepM] at hm
      by_cases hlt : mid < st.models.length
      · rw [List.getElem?_append_left hlt] at hm; exact hs mid hm
      · rw [List.getElem?_append_right (not_lt.mp hlt)] at hm
        have : st.params.length = pid := by
          rcases Nat.eq_zero_or_pos (mid - st.models.length) with h0 | h0
          · simpa [h0] using hm
          · have : ([st.params.length] : List Nat)[mid - st.models.length]? = none := by
              apply List.getElem?_eq_none_iff.mpr; simp; omega
            rw [this] at hm; cases hm
        omega
    | some q =>
      simp only [stepM] at hm
      split at hm
      · by_cases hlt : mid < st.models.length
        · rw [List.getElem?_append_left hlt] at hm; exact hs mid hm
        · rw [List.getElem?_append_right (not_lt.mp hlt)] at hm
          have : q = pid := by
            rcases Nat.eq_zero_or_pos (mid - st.models.length) with h0 | h0
            · simpa [h0] using hm
            · have : ([q] : List Nat)[mid - st.models.length]? = none := by
                apply List.getElem?_eq_none_iff.mpr; simp; omega
              rw [this] at hm; cases hm
          exact absurd this hn
      · exact hs mid hm
  | set m s =>
    simp only [stepM] at hm
    split at hm
    · rw [setAt_models] at hm; exact hs mid hm
    · exact hs mid hm
  | setP q s =>
    simp only [stepM, setAt_models] at hm; exact hs mid hm
  | eval m pts => exact hs mid (by simpa [stepM] using hm)

theorem settingsFor_sole (st : Store ι α) (ops : List (MOp ι α)) (pid A : Nat) (hs : Sole st pid A)
    (hA : st.models[A]? = some pid) (hpl : pid < st.params.length)
    (hn : ∀ op ∈ ops, NotHanded pid op) :
    settingsFor pw tiny big eps0 db st pid ops = ownSettings A ops := by
  induction ops generalizing st with
  | nil => simp [settingsFor, ownSettings]
  | cons op r ih =>
    have hAl : A < st.models.length := (List.getElem?_eq_some_iff.mp hA).1
    have hop : NotHanded pid op := hn op (by simp)
    have htail := ih (stepM pw tiny big eps0 db none st op).1
      (sole_step pw tiny big eps0 db st op pid A hs hpl hop)
      (by rw [step_models pw tiny big eps0 db st op A hAl]; exact hA)
      (lt_of_lt_of_le hpl (step_length_le pw tiny big eps0 db st op).1)
      (fun o ho => hn o (by simp [ho]))
    simp only [settingsFor]
    rw [htail]
    cases op with
    | newParams p => simp [addressed, ownSettings]
    | newModel arg => simp [addressed, ownSettings]
    | set m s =>
      simp only [addressed, ownSettings]
      by_cases hm : m = A
      · subst hm; simp [hA]
      · have : ¬ (st.models[m]? = some pid) := fun h => hm (hs m h)
        simp [this, hm]
    | setP q s =>
      have : q ≠ pid := hop
      simp [addressed, ownSettings, this]
    | eval m pts => simp [addressed, ownSettings]

/-- **isolation, by calls on the model**: as long as nobody reaches `A`'s parameters object from
outside (no setter on the object itself, not handed to another model), what `A` evaluates depends
only on the setter calls made ON `A` — whatever was built, configured and evaluated in between -/
theorem isolation_own (st : Store ι α) (ops : List (MOp ι α)) (A pid : Nat) (p : Params ι α)
    (hs : Sole st pid A) (hA : st.models[A]? = some pid) (hp : st.params[pid]? = some p)
    (hn : ∀ op ∈ ops, NotHanded pid op) (pts : List (Point ι α)) :
    evalModel pw tiny big db (runM pw tiny big eps0 db none st ops).1 A pts
      = evalParams pw tiny big db (applyAll (ownSettings A ops) p) pts := by
  rw [isolation pw tiny big eps0 db st ops A pid p hA hp pts,
    settingsFor_sole pw tiny big eps0 db st ops pid A hs hA (List.getElem?_eq_some_iff.mp hp).1 hn]

/-- **a model built without parameters** (in any well-formed store, i.e. at any moment of any
history): its evaluations are those of the documented defaults changed by the calls made on it -/
theorem isolation_default (st : Store ι α) (hwf : WFStore st) (ops : List (MOp ι α))
    (hn : ∀ op ∈ ops, NotHanded st.params.length op) (pts : List (Point ι α)) :
    evalModel pw tiny big db (runM pw tiny big eps0 db none st (.newModel none :: ops)).1 st.models.length pts
      = evalParams pw tiny big db (applyAll (ownSettings st.models.length ops) (defaultParams eps0)) pts := by
  simp only [runM]
  apply isolation_own (pid := st.params.length)
  · intro mid hm
    simp only [stepM] at hm
    by_cases hlt : mid < st.models.length
    · rw [List.getElem?_append_left hlt] at hm
      have := hwf mid _ hm; omega
    · have hle := not_lt.mp hlt
      rcases Nat.eq_or_lt_of_le hle with h0 | h0
      · exact h0.symm
      · rw [List.getElem?_append_right hle] at hm
        have : ([st.params.length] : List Nat)[mid - st.models.length]? = none := by
          apply List.getElem?_eq_none_iff.mpr; simp; omega
        rw [this] at hm; cases hm
  · simp [stepM]
  · simp [stepM]
  · exact hn

/-- two histories with the same calls on `A` give the same answers on `A` -/
theorem isolation_two_histories (st : Store ι α) (hwf : WFStore st) (ops ops' : List (MOp ι α))
    (hn : ∀ op ∈ ops, NotHanded st.params.length op) (hn' : ∀ op ∈ ops', NotHanded st.params.length op)
    (hsame : ownSettings st.models.length ops = ownSettings st.models.length ops') (pts : List (Point ι α)) :
    evalModel pw tiny big db (runM pw tiny big eps0 db none st (.newModel none :: ops)).1 st.models.length pts
      = evalModel pw tiny big db (runM pw tiny big eps0 db none st (.newModel none :: ops')).1 st.models.length pts := by
  rw [isolation_default pw tiny big eps0 db st hwf ops hn, isolation_default pw tiny big eps0 db st hwf ops' hn', hsame]


/-- a history run in two parts -/
theorem runM_append (dflt : Option Nat) (st : Store ι α) (l1 l2 : List (MOp ι α)) :
    runM pw tiny big eps0 db dflt st (l1 ++ l2)
      = ((runM pw tiny big eps0 db dflt (runM pw tiny big eps0 db dflt st l1).1 l2).1,
         (runM pw tiny big eps0 db dflt st l1).2 ++ (runM pw tiny big eps0 db dflt (runM pw tiny big eps0 db dflt st l1).1 l2).2) := by
  induction l1 generalizing st with
  | nil => simp [runM]
  | cons op r ih =>
    simp only [List.cons_append, runM]
    rw [ih]
    cases (stepM pw tiny big eps0 db dflt st op).2 <;> simp

/-- … stated on the ANSWER an evaluation of the model returns at the end of the history -/
theorem isolation_answer (st : Store ι α) (hwf : WFStore st) (ops : List (MOp ι α))
    (hn : ∀ op ∈ ops, NotHanded st.params.length op) (pts : List (Point ι α)) :
    (runM pw tiny big eps0 db none st ((.newModel none :: ops) ++ [.eval st.models.length pts])).2.getLast?
      = some (evalParams pw tiny big db (applyAll (ownSettings st.models.length ops) (defaultParams eps0)) pts) := by
  rw [runM_append]
  simp only [runM, stepM, List.getLast?_append, List.getLast?_singleton, Option.some_or]
  have h := isolation_default pw tiny big eps0 db st hwf ops hn pts
  simp only [runM, stepM] at h
  rw [h]

theorem wf_step (st : Store ι α) (hwf : WFStore st) (op : MOp ι α) :
    WFStore (stepM pw tiny big eps0 db none st op).1 := by
  intro mid pid hm
  have hle := (step_length_le pw tiny big eps0 db st op).1
  by_cases hlt : mid < st.models.length
  · rw [step_models pw tiny big eps0 db st op mid hlt] at hm
    exact lt_of_lt_of_le (hwf mid pid hm) hle
  · cases op with
    | newParams p =>
      simp only [stepM] at hm
      exact absurd (List.getElem?_eq_some_iff.mp hm).1 hlt
    | newModel arg =>
      cases arg with
      | none =>
        simp only [stepM] at hm ⊢
        rw [List.getElem?_append_right (not_lt.mp hlt)] at hm
        have hmem : pid ∈ [st.params.length] := List.mem_of_getElem? hm
        simp at hmem; subst hmem; simp
      | some q =>
        simp only [stepM] at hm ⊢
        split at hm
        · rename_i hq
          rw [List.getElem?_append_right (not_lt.mp hlt)] at hm
          have hmem : pid ∈ [q] := List.mem_of_getElem? hm
          simp at hmem; subst hmem; simp [hq]
        · exact absurd (List.getElem?_eq_some_iff.mp hm).1 hlt
    | set m s =>
      simp only [stepM] at hm
      split at hm
      · rw [setAt_models] at hm; exact absurd (List.getElem?_eq_some_iff.mp hm).1 hlt
      · exact absurd (List.getElem?_eq_some_iff.mp hm).1 hlt
    | setP q s =>
      simp only [stepM, setAt_models] at hm
      exact absurd (List.getElem?_eq_some_iff.mp hm).1 hlt
    | eval m pts =>
      simp only [stepM] at hm
      exact absurd (List.getElem?_eq_some_iff.mp hm).1 hlt

theorem wf_run (st : Store ι α) (hwf : WFStore st) (ops : List (MOp ι α)) :
    WFStore (runM pw tiny big eps0 db none st ops).1 := by
  induction ops generalizing st with
  | nil => simpa [runM] using hwf
  | cons op r ih => simp only [runM]; exact ih _ (wf_step pw tiny big eps0 db st hwf op)

/-- **two models built without parameters never hold the same object**, whatever happens between
the two constructions -/
theorem default_objects_distinct (st : Store ι α) (ops : List (MOp ι α)) :
    let s2 := (runM pw tiny big eps0 db none st (.newModel none :: ops)).1
    let s3 := (stepM pw tiny big eps0 db none s2 (.newModel none)).1
    s3.models[st.models.length]? = some st.params.length ∧
    s3.models[s2.models.length]? = some s2.params.length ∧
    st.params.length ≠ s2.params.length := by
  intro s2 s3
  have hs1 : (stepM pw tiny big eps0 db none st (.newModel none)).1
      = { params := st.params ++ [defaultParams eps0], models := st.models ++ [st.params.length] } := by
    simp [stepM]
  have hlen := run_length_le pw tiny big eps0 db (stepM pw tiny big eps0 db none st (.newModel none)).1 ops
  have hA : s2.models[st.models.length]? = some st.params.length := by
    show (runM pw tiny big eps0 db none st (.newModel none :: ops)).1.models[st.models.length]? = _
    simp only [runM]
    rw [run_models _ _ _ _ _ _ _ _ (by rw [hs1]; simp)]
    rw [hs1]; simp
  have hl2 : st.models.length < s2.models.length ∧ st.params.length < s2.params.length := by
    have : s2 = (runM pw tiny big eps0 db none (stepM pw tiny big eps0 db none st (.newModel none)).1 ops).1 := by
      simp [s2, runM]
    rw [this]; rw [hs1] at hlen ⊢; simp at hlen; omega
  refine ⟨?_, ?_, by omega⟩
  · show (stepM pw tiny big eps0 db none s2 (.newModel none)).1.models[st.models.length]? = _
    rw [step_models pw tiny big eps0 db s2 _ _ hl2.1]; exact hA
  · show (stepM pw tiny big eps0 db none s2 (.newModel none)).1.models[s2.models.length]? = _
    simp [stepM]

end objects

/-! ### witnesses: ONE default object made at import time couples unrelated models; an object the
user hands to two models couples them too (so the hypothesis `NotHanded` is needed) -/

/-- models 0 and 1 are both built without parameters; model 1 is told to exclude phase B -/
def wOps : List (MOp Nat Int) :=
  [.newModel none, .newModel none, .eval 0 [wPt], .set 1 (.post (.exclude [1])), .eval 0 [wPt]]

/-- the code: model 0 answers 38 before and after -/
theorem fresh_default_isolates :
    (runM (fun x _ => x) 0 0 0 wDb none (initStore 0 none) wOps).2 = [.ok [[38]], .ok [[38]]] := by
  decide

/-- the import-time default object: configuring model 1 changes what model 0 returns (38 -> 35) -/
theorem shared_default_couples :
    (runM (fun x _ => x) 0 0 0 wDb (some 0) (initStore 0 (some 0)) wOps).2 = [.ok [[38]], .ok [[35]]] := by
  decide

/-- … and the two models hold the same object there, distinct ones in the code -/
theorem shared_default_same_object :
    (runM (fun x _ => x) 0 0 0 wDb (some 0) (initStore 0 (some 0)) wOps).1.models = [0, 0] ∧
    (runM (fun x _ => x) 0 0 0 wDb none (initStore 0 none) wOps).1.models = [0, 1] := by
  decide

/-- an object the user passes to both models couples them, in the code as well: `NotHanded` is needed -/
theorem user_shared_object_couples :
    (runM (fun x _ => x) 0 0 0 wDb none (initStore 0 none)
      ([.newParams (defaultParams 0), .newModel (some 0), .newModel (some 0), .eval 0 [wPt],
        .set 1 (.post (.exclude [1])), .eval 0 [wPt]] : List (MOp Nat Int))).2 = [.ok [[38]], .ok [[35]]] := by
  decide

/-- non-vacuity: the store of a run from nothing is well formed, and a history in which a second model is
built, configured and evaluated meets the hypothesis of `isolation_default` for the first one -/
example : WFStore (runM (fun x _ => x) 0 0 0 wDb none (initStore (0 : ℚ) none)
    ([.newParams (defaultParams 0), .newModel (some 0)] : List (MOp Nat ℚ))).1 :=
  wf_run _ _ _ _ _ _ (wf_init 0) _

example : ∀ op ∈ ([.newModel none, .set 1 (.rule .hashinLower), .set 1 (.factor 2), .eval 1 [], .eval 0 []] : List (MOp Nat ℚ)),
    NotHanded 0 op := by
  intro op h
  simp only [List.mem_cons, List.mem_nil_iff, or_false] at h
  rcases h with rfl | rfl | rfl | rfl | rfl <;> simp [NotHanded]

end KawinV.Props.C17
