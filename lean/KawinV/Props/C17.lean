/-
C17 — property theorems (stub; nothing proved yet).
-/
namespace KawinV.Props.C17
end KawinV.Props.C17
