/-
Hand-written executable model of the USER-SUPPLIED mobility / diffusivity callable tables of
kawin/thermo/Thermodynamics.py: `GeneralThermodynamics.setMobility` (288-306), `setDiffusivity`
(308-326), `_generateTdependentFunction` (284-286), and of which table
`_tracerDiffusivitySingle` (605-613) / `_interdiffusivitySingle` (528-538) read.  Core Lean only.

`self.mobCallables[phase]` / `self.diffCallables[phase]` are Python dictionaries element ↦ callable, or
`None` when the database has no parameters of that kind for the phase (`_buildMobilityModels` 150-151).
Elements are numbered 0..n-1 (alphabetical order of `phase_record.nonvacant_elements`); a callable is
identified by a FUNCTION ID (a natural number): the harness identifies the real closures by probing them
at two temperatures.  What a function id means as a function of temperature is a parameter `F`.

The three ways of writing (the same code for both tables):
* `setMobility(d, phase)` with a dict `d`:  `{e: gen(d[e]) for e in d}` — a NEW dict with exactly the keys
  of `d`, each element bound to ITS OWN entry (`_generateTdependentFunction` is a function call, so every
  closure gets its own `func`); the previous table is forgotten;
* `setMobility(f, phase)` with one callable: `{e: gen(f) for e in set(self.elements) - {'VA'}}`;
* `setMobility(d, phase, element=e)`: `self.mobCallables[phase][e] = gen(d[e])` — item assignment INTO the
  existing dict; raises `TypeError` when the table is `None` (state unchanged).

Reading (`_tracerDiffusivitySingle`): the mobility table when the phase has one, otherwise the
diffusivity table, `ValueError` when neither; `KeyError` when the element has no entry.
-/
namespace KawinV.MobTable

/-- a Python dict element ↦ function id -/
abbrev Tab := Nat → Option Nat

def emptyTab : Tab := fun _ => none

/-- `t[e] = f` -/
def upd (t : Tab) (e f : Nat) : Tab := fun x => if x = e then some f else t x

/-- `{e: gen(d[e]) for e in d}`: `d` given as its items in insertion order (a later duplicate key
would overwrite, as in a Python dict; a real dict has none) -/
def ofItems (d : List (Nat × Nat)) : Tab := d.foldl (fun t p => upd t p.1 p.2) emptyTab

/-- `{e: gen(f) for e in set(self.elements) - {'VA'}}` -/
def constTab (n f : Nat) : Tab := fun x => if x < n then some f else none

/-- the LATE-BINDING variant of the dict comprehension, `{e: (lambda dof: d[e](dof[i])) for e in d}`:
every closure shares the comprehension's loop variable, which after the comprehension is the LAST key,
so every key of `d` reads the entry of the last key.  NOT the code under test: used for the witness
theorem only. -/
def ofItemsLate (d : List (Nat × Nat)) : Tab :=
  fun x => if d.any (fun p => p.1 == x) then d.getLast?.map (fun p => p.2) else none

inductive Which | mob | diff
deriving DecidableEq, Repr

/-- the two tables of one phase -/
structure St where
  mob : Option Tab
  diff : Option Tab

def St.get (s : St) : Which → Option Tab
  | .mob => s.mob
  | .diff => s.diff

def St.put (s : St) (w : Which) (t : Option Tab) : St :=
  match w with
  | .mob => { s with mob := t }
  | .diff => { s with diff := t }

inductive Op
  | setAll (w : Which) (d : List (Nat × Nat))
  | setSame (w : Which) (f : Nat)
  | setOne (w : Which) (e f : Nat)

/-- one call; the Bool says that the call raised (`TypeError`: item assignment into `None`) -/
def step (n : Nat) (s : St) : Op → St × Bool
  | .setAll w d => (s.put w (some (ofItems d)), false)
  | .setSame w f => (s.put w (some (constTab n f)), false)
  | .setOne w e f =>
    match s.get w with
    | none => (s, true)
    | some t => (s.put w (some (upd t e f)), false)

/-- a whole history of calls (a raising call leaves the state as it was; the user carries on) -/
def run (n : Nat) (s : St) (h : List Op) : St := h.foldl (fun s o => (step n s o).1) s

/-- what the diffusivity functions read for element `e` -/
inductive Read
  | mobility (f : Nat)       -- `tracer_diffusivity` / `inverseMobility` with `mobCallables[phase][e]`
  | diffusivity (f : Nat)    -- `tracer_diffusivity_from_diff` / `inverseMobility_from_diffusivity`
  | keyError                 -- the table in use has no entry for `e`
  | noCallables              -- both tables are `None`: `ValueError('diffusivity_callables is required')`
deriving DecidableEq, Repr

def read (s : St) (e : Nat) : Read :=
  match s.mob with
  | some t => (match t e with | some f => .mobility f | none => .keyError)
  | none =>
    match s.diff with
    | some t => (match t e with | some f => .diffusivity f | none => .keyError)
    | none => .noCallables

/-- the value `getTracerDiffusivity` reports for an element: `R·T·(c·M_f(T))` from a mobility,
`c·D_f(T)` from a diffusivity (`c` the element's mobility correction), nothing when the call raises.
`F f T` is the value of function `f` at temperature `T`. -/
def tracerOf {α : Type} [Mul α] (F : Nat → α → α) (R T c : α) : Read → Option α
  | .mobility f => some (R * T * (c * F f T))
  | .diffusivity f => some (c * F f T)
  | _ => none

/-- the value `mobility_from_composition_set` / `tracer_diffusivity_from_diff` multiply out: `c·F_f(T)` -/
def rawOf {α : Type} [Mul α] (F : Nat → α → α) (T c : α) : Read → Option α
  | .mobility f => some (c * F f T)
  | .diffusivity f => some (c * F f T)
  | _ => none

end KawinV.MobTable
