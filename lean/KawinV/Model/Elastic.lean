/-
Hand-written executable model of kawin/precipitation/parameters/ElasticFactors.py
(tensor utilities 40-175, moduliToC 177-264 via the generated branch formulas, the Eshelby
energy 480-614 over an arbitrary list of quadrature nodes, the StrainEnergy setters and
`update()` 654-1010 as coded after the repairs d378ff8 / 187e553 / 6bb5e9c).  Core Lean only; generic scalar.

Tensors are index functions: a 3x3 array is `Fin 3 → Fin 3 → α`, a 3x3x3x3 array
`Fin 3 → Fin 3 → Fin 3 → Fin 3 → α`, a 6x6 array `Fin 6 → Fin 6 → α`.
-/
import KawinV.Scalar
import KawinV.Gen.C16Elastic

namespace KawinV.Elastic
open KawinV

abbrev T2 (α : Type) := Fin 3 → Fin 3 → α
abbrev T4 (α : Type) := Fin 3 → Fin 3 → Fin 3 → Fin 3 → α
abbrev M6 (α : Type) := Fin 6 → Fin 6 → α
abbrev V6 (α : Type) := Fin 6 → α
abbrev V3 (α : Type) := Fin 3 → α

/-! ### evaluation hooks
A tensor is a function, so a compiled program re-evaluates it at every index access.  Functions that
build one tensor from another pass intermediate results through an `Eval`: semantically the
identity (`Eval.id`, `Eval.Lawful`), in the Float driver "tabulate all entries once".  The boxes
make the hooks strict (they return a structure, not a function).  `np.linalg.inv` of a 6x6 array
is a parameter `inv6 : M6 α → Box6 α` of the functions that use it. -/
structure Box2 (α : Type) where
  f : T2 α
structure Box4 (α : Type) where
  f : T4 α
structure Box6 (α : Type) where
  f : M6 α
structure Eval (α : Type) where
  e2 : T2 α → Box2 α
  e4 : T4 α → Box4 α
  e6 : M6 α → Box6 α
def Eval.id {α : Type} : Eval α := ⟨fun t => ⟨t⟩, fun t => ⟨t⟩, fun t => ⟨t⟩⟩
def Eval.Lawful {α : Type} (ev : Eval α) : Prop :=
  (∀ t, (ev.e2 t).f = t) ∧ (∀ t, (ev.e4 t).f = t) ∧ (∀ t, (ev.e6 t).f = t)

/-! ### index maps of the rank conversions -/

/-- `vMap` of convert2To4rankTensor: frozenset({i,j}) ↦ 6-index (00→0, 11→1, 22→2, 12→3, 02→4, 01→5) -/
def voigt (i j : Fin 3) : Fin 6 :=
  match i.val, j.val with
  | 0, 0 => 0 | 1, 1 => 1 | 2, 2 => 2
  | 1, 2 => 3 | 2, 1 => 3
  | 0, 2 => 4 | 2, 0 => 4
  | 0, 1 => 5 | 1, 0 => 5
  | _, _ => 0

/-- `vMap[i][0]` of convert4To2rankTensor: [[0,0],[1,1],[2,2],[1,2],[0,2],[0,1]] -/
def pairFst (I : Fin 6) : Fin 3 :=
  match I.val with
  | 0 => 0 | 1 => 1 | 2 => 2 | 3 => 1 | 4 => 0 | _ => 0

/-- `vMap[i][1]` of convert4To2rankTensor -/
def pairSnd (I : Fin 6) : Fin 3 :=
  match I.val with
  | 0 => 0 | 1 => 1 | 2 => 2 | 3 => 2 | 4 => 2 | _ => 1

section generic
variable {α : Type} [Add α] [Sub α] [Mul α] [Div α] [Neg α] [Zero α] [One α]
  [OfNat α 2] [OfNat α 3] [OfNat α 4] [OfNat α 8]
  [LT α] [DecidableLT α]

/-- convert2To4rankTensor -/
def convert2To4 (c : M6 α) : T4 α := fun i j k l => c (voigt i j) (voigt k l)

/-- convert4To2rankTensor -/
def convert4To2 (c : T4 α) : M6 α := fun I J => c (pairFst I) (pairSnd I) (pairFst J) (pairSnd J)

/-- convertVecTo2rankTensor: [[v0,v5,v4],[v5,v1,v3],[v4,v3,v2]] -/
def vecTo2 (v : V6 α) : T2 α := fun i j => v (voigt i j)

/-- convert2rankToVec: [c00,c11,c22,c12,c02,c01] -/
def rank2ToVec (c : T2 α) : V6 α := fun I => c (pairFst I) (pairSnd I)

def sum3 (f : Fin 3 → α) : α := f 0 + f 1 + f 2
def sum6 (f : Fin 6 → α) : α := f 0 + f 1 + f 2 + f 3 + f 4 + f 5

/-- `np.tensordot(rot, t, axes=(1,3))`: out[a,i,j,k] = Σ_l rot[a,l] t[i,j,k,l] -/
def tdot13 (r : T2 α) (t : T4 α) : T4 α := fun a i j k => sum3 fun l => r a l * t i j k l

/-- rotateRank4Tensor: four nested tensordots over the last axis;
out[p,q,u,v] = Σ rot[p,i] rot[q,j] rot[u,k] rot[v,l] t[i,j,k,l] -/
def rotate4 (r : T2 α) (t : T4 α) : T4 α := tdot13 r (tdot13 r (tdot13 r (tdot13 r t)))

/-- rotateRank2Tensor: `tensordot(rot, tensordot(rot, t, (1,1)), (1,1))`;
inner[a,i] = Σ_j rot[a,j] t[i,j], out[b,a] = Σ_i rot[b,i] inner[a,i] -/
def rotate2 (r t : T2 α) : T2 α :=
  fun b a => sum3 fun i => r b i * (sum3 fun j => r a j * t i j)

/-- elasticConstantToC -/
def elasticConstantToC (c11 c12 c44 : α) : M6 α := fun I J =>
  if I = J then (if I.val < 3 then c11 else c44)
  else if I.val < 3 ∧ J.val < 3 then c12 else 0

/-- `x.any()` for one entry: non-zero (NaN is outside the model) -/
def nz (x : α) : Bool := decide (x < 0) || decide (0 < x)

def any2 (t : T2 α) : Bool :=
  (List.finRange 3).any fun i => (List.finRange 3).any fun j => nz (t i j)

def any4 (t : T4 α) : Bool :=
  (List.finRange 3).any fun i => (List.finRange 3).any fun j =>
  (List.finRange 3).any fun k => (List.finRange 3).any fun l => nz (t i j k l)

def any6 (t : M6 α) : Bool :=
  (List.finRange 6).any fun i => (List.finRange 6).any fun j => nz (t i j)

/-! ### 3x3 inverse -/

/-- `_ohm_quickInverse` (Cramer's rule) on one 3x3 matrix, written with the code's names:
rows (a b c / d e f / g h i), cofactors A..I, det = aA + bB + cC, result [[A,B,C],[D,E,F],[G,H,I]]/det.
(NB the code's layout of the cofactors is the transpose of the adjugate for a non-symmetric
matrix; see `Props.C16.cramer3_spec`.) -/
def cramer3 (m : T2 α) : T2 α :=
  let a := m 0 0; let b := m 0 1; let c := m 0 2
  let d := m 1 0; let e := m 1 1; let f := m 1 2
  let g := m 2 0; let h := m 2 1; let i := m 2 2
  let A := e*i - f*h; let B := f*g - d*i; let C := d*h - e*g
  let D := c*h - b*i; let E := a*i - c*g; let F := b*g - a*h
  let G := b*f - c*e; let H := c*d - a*f; let I := a*e - b*d
  let det := a*A + b*B + c*C
  fun p q =>
    match p.val, q.val with
    | 0, 0 => A / det | 0, 1 => B / det | 0, 2 => C / det
    | 1, 0 => D / det | 1, 1 => E / det | 1, 2 => F / det
    | 2, 0 => G / det | 2, 1 => H / det | _, _ => I / det

def mul3 (x y : T2 α) : T2 α := fun i j => sum3 fun k => x i k * y k j
def one3 : T2 α := fun i j => if i = j then 1 else 0

/-! ### products of elastic tensors (`_multiply`, `_strainEnergy`) -/

/-- `_multiply` 4th x 2nd: c_ij = a_ijkl b_kl -/
def mult42 (a : T4 α) (b : T2 α) : T2 α := fun i j => sum3 fun k => sum3 fun l => a i j k l * b k l

/-- `_multiply` 4th x 4th: c_ijkl = a_ijmn b_mnkl -/
def mult44 (a b : T4 α) : T4 α := fun i j k l => sum3 fun m => sum3 fun n => a i j m n * b m n k l

/-- `np.sum(stress * strain)` -/
def dot22 (a b : T2 α) : α := sum3 fun i => sum3 fun j => a i j * b i j

/-- `_strainEnergy`: -0.5 * V * sum(stress*strain) -/
def strainEnergy (stress strain : T2 α) (V : α) : α := -(1 / 2) * V * dot22 stress strain

def sub2 (a b : T2 α) : T2 α := fun i j => a i j - b i j
def sub4 (a b : T4 α) : T4 α := fun i j k l => a i j k l - b i j k l
def add4 (a b : T4 α) : T4 α := fun i j k l => a i j k l + b i j k l

/-- `np.prod(radius)` -/
def prod3 (r : V3 α) : α := r 0 * r 1 * r 2

/-! ### Eshelby tensor by quadrature over a node list -/

/-- one quadrature node: unit normal `_n(phi, theta)` and weight -/
structure QNode (α : Type) where
  n : V3 α
  w : α

def lsum : List α → α
  | [] => 0
  | x :: xs => x + lsum xs

/-- `invOhm = tensordot(c4, nProd, axes=[[1,2],[0,1]])`: invOhm_ij = Σ_kl c4[i,k,l,j] n_k n_l -/
def invOhm (c4 : T4 α) (n : V3 α) : T2 α :=
  fun i j => sum3 fun k => sum3 fun l => c4 i k l j * (n k * n l)

/-- the Ohm kernel with the default ('quick') inverse -/
def ohmOf (c4 : T4 α) (n : V3 α) : T2 α := cramer3 (invOhm c4 n)

/-- `sphInt`: 8·dA·Σ_q ohm_q[i,j] · n_k n_l · (endTerm_q · w_q), endTerm = 1/β³.
`ohm` (the kernel as a function of the normal) and `beta` (centre-to-surface distance as a function
of the radii and the normal) are parameters. -/
def sphInt (ohm : V3 α → T2 α) (beta : V3 α → V3 α → α) (nodes : List (QNode α)) (dA : α)
    (r : V3 α) : T4 α :=
  fun i j k l =>
    8 * lsum (nodes.map fun q => ohm q.n i j * (q.n k * q.n l * (1 / npow (beta r q.n) 3 * q.w))) * dA

/-- `Dijkl`: -prod(r)/(4π) · sphInt -/
def Dijkl [Trans α] (ohm : V3 α → T2 α) (beta : V3 α → V3 α → α) (nodes : List (QNode α)) (dA : α)
    (r : V3 α) : T4 α :=
  fun i j k l => -(prod3 r) / (4 * Trans.pi) * sphInt ohm beta nodes dA r i j k l

/-- `Sijmn`: S_ijmn = -0.5 · Σ_lk C_lkmn (D_iklj + D_jkli) -/
def Sijmn (c4 D : T4 α) : T4 α :=
  fun i j m n => -(1 / 2) * sum3 fun l => sum3 fun k => c4 l k m n * (D i k l j + D j k l i)

/-- V = 4π/3 · prod(r) -/
def volume [Trans α] (r : V3 α) : α := 4 * Trans.pi / 3 * prod3 r

/-- `strainEnergyEllipsoid` given the Eshelby tensor S and the volume V -/
def energyEllipsoid (cM S : T4 α) (eig : T2 α) (V : α) : α :=
  strainEnergy (mult42 cM (sub2 (mult42 S eig) eig)) eig V

/-- `strainEnergyBohm` given S, V and the 4th-rank inversion `inv4` -/
def energyBohm (ev : Eval α) (inv4 : T4 α → T4 α) (cM cP S : T4 α) (eig : T2 α) (V : α) : α :=
  let invTerm := (ev.e4 (inv4 (ev.e4 (add4 (mult44 (sub4 cP cM) S) cM)).f)).f
  let multTerm := (ev.e4 (mult44 invTerm cP)).f
  let sm := (ev.e4 (mult44 S multTerm)).f
  let stressC := (ev.e2 (mult42 cM (ev.e2 (mult42 sm eig)).f)).f
  let stress0 := (ev.e2 (mult42 cM (ev.e2 (mult42 multTerm eig)).f)).f
  strainEnergy (sub2 stressC stress0) eig V

/-- weights of the six index pairs in a double contraction (`_pairWeights`) -/
def pairWeight (I : Fin 6) : α := if I.val < 3 then 1 else 2

/-- `invert4rankTensor` (repaired): convert2To4( inv6( c2 ∘ m⊗m ) / m⊗m ), m = `_mandelVec` -/
def invert4 (inv6 : M6 α → Box6 α) (m : V6 α) (c4 : T4 α) : T4 α :=
  let c2 : M6 α := fun I J => convert4To2 c4 I J * (m I * m J)
  let x := (inv6 c2).f
  convert2To4 fun I J => x I J / (m I * m J)

/-- `invert4rankTensor` before the repair: convert2To4(inv6(convert4To2 c4)) -/
def invert4Old (inv6 : M6 α → Box6 α) (c4 : T4 α) : T4 α := convert2To4 (inv6 (convert4To2 c4)).f

/-- `_mandelVec` = sqrt([1,1,1,2,2,2]) -/
def mandelVec [Trans α] : V6 α := fun I => Trans.sqrt (pairWeight I)

/-- the distance `_beta` written with the unit normal: sqrt((a n0)² + (b n1)² + (c n2)²)
(equal to the traced `Gen.C16.beta` at n = `_n(phi, theta)`: `Props.C16.beta_eq_betaN`) -/
def betaN [Trans α] (r n : V3 α) : α :=
  Trans.sqrt (npow (r 0 * n 0) 2 + npow (r 1 * n 1) 2 + npow (r 2 * n 2) 2)

end generic

/-! ### moduliToC -/
section moduli
variable {α : Type} [Add α] [Sub α] [Mul α] [Div α] [Neg α] [Zero α] [One α]
  [OfNat α 2] [OfNat α 3] [OfNat α 4] [OfNat α 6] [OfNat α 8] [OfNat α 9] [OfNat α 10]
  [LT α] [DecidableLT α] [Trans α]
open KawinV.Gen.C16

/-- Python truthiness of an optional float argument: given and non-zero -/
def truthy : Option α → Option α
  | some x => if nz x then some x else none
  | none => none

/-- the if/elif ladder of moduliToC: which pair is used (priority E, nu, G, lam, K, M) and the
compliance entries (s11, s12, s44) the branch hands to `np.linalg.inv`; `none` = no branch taken
(the code then divides by None or by zero and raises). -/
def moduliS (E nu G lam K M : Option α) : Option (α × α × α) :=
  let t (l : List α) : Option (α × α × α) :=
    match l with
    | [a, b, c] => some (a, b, c)
    | _ => none
  match truthy E with
  | some e =>
    match truthy nu, truthy G, truthy lam, truthy K, truthy M with
    | some x, _, _, _, _ => t (moduli_E_nu_all e x)
    | none, some x, _, _, _ => t (moduli_E_G_all e x)
    | none, none, some x, _, _ => t (moduli_E_lam_all e x)
    | none, none, none, some x, _ => t (moduli_E_K_all e x)
    | none, none, none, none, some x => t (moduli_E_M_all e x)
    | none, none, none, none, none => none
  | none =>
  match truthy nu with
  | some v =>
    match truthy G, truthy lam, truthy K, truthy M with
    | some x, _, _, _ => t (moduli_nu_G_all v x)
    | none, some x, _, _ => t (moduli_nu_lam_all v x)
    | none, none, some x, _ => t (moduli_nu_K_all v x)
    | none, none, none, some x => t (moduli_nu_M_all v x)
    | none, none, none, none => none
  | none =>
  match truthy G with
  | some g =>
    match truthy lam, truthy K, truthy M with
    | some x, _, _ => t (moduli_G_lam_all g x)
    | none, some x, _ => t (moduli_G_K_all g x)
    | none, none, some x => t (moduli_G_M_all g x)
    | none, none, none => none
  | none =>
  match truthy lam with
  | some l =>
    match truthy K, truthy M with
    | some x, _ => t (moduli_lam_K_all l x)
    | none, some x => t (moduli_lam_M_all l x)
    | none, none => none
  | none =>
  match truthy K, truthy M with
  | some k, some x => t (moduli_K_M_all k x)
  | _, _ => none

/-- inverse of the isotropic compliance (s11 on the first three diagonal entries, s12 between
them, s44 on the last three) in closed form: (c11, c12, c44) -/
def isoInverse (s11 s12 s44 : α) : α × α × α :=
  let den := (s11 - s12) * (s11 + 2 * s12)
  ((s11 + s12) / den, -s12 / den, 1 / s44)

/-- moduliToC: the 6x6 stiffness, `none` where the code raises -/
def moduliToC (E nu G lam K M : Option α) : Option (M6 α) :=
  match moduliS E nu G lam K M with
  | some (s11, s12, s44) =>
    let c := isoInverse s11 s12 s44
    some (elasticConstantToC c.1 c.2.1 c.2.2)
  | none => none

end moduli

/-! ### the StrainEnergy object -/

inductive Desc where
  | constant | sphere | cube | ellipsoid
  deriving DecidableEq, Repr

/-- the parameters refreshed by `update()` (StrainEnergyParameters without eigenstrain / constantEnergy) -/
structure Params (α : Type) where
  cM4 : T4 α
  cM2 : M6 α
  cP4 : T4 α
  cP2 : M6 α
  stress : T2 α
  strain : T2 α

structure State (α : Type) where
  desc : Desc
  cM : T4 α          -- _unrotated_cMatrix_4th
  cP : T4 α          -- _unrotated_cPrec_4th
  rot : T2 α         -- rotation
  rotP : T2 α        -- rotationPrec
  stress0 : T2 α     -- _unrotated_appliedStress
  eig : T2 α         -- params.eigenstrain
  constE : α         -- params.constantEnergy
  p : Params α

inductive Op (α : Type) where
  | setShape (d : Desc)
  | setConstantEnergy (e : α)
  | setElasticTensor6 (c : M6 α)
  | setElasticTensor4 (c : T4 α)
  | setElasticConstants (c11 c12 c44 : α)
  | setModuli (E nu G lam K M : Option α)
  | setPrecTensor6 (c : M6 α)
  | setPrecTensor4 (c : T4 α)
  | setPrecConstants (c11 c12 c44 : α)
  | setPrecModuli (E nu G lam K M : Option α)
  | setRotation (r : T2 α)
  | setRotationPrec (r : T2 α)
  | setEigScalar (e : α)
  | setEigVec (e : V3 α)
  | setEigMat (e : T2 α)
  | setStressScalar (s : α)
  | setStressVec (s : V3 α)
  | setStressMat (s : T2 α)

section machine
variable {α : Type} [Add α] [Sub α] [Mul α] [Div α] [Neg α] [Zero α] [One α]
  [OfNat α 2] [OfNat α 3] [OfNat α 4] [OfNat α 6] [OfNat α 8] [OfNat α 9] [OfNat α 10]
  [LT α] [DecidableLT α] [Trans α]

def zero2 : T2 α := fun _ _ => 0
def zero4 : T4 α := fun _ _ _ _ => 0
def zero6 : M6 α := fun _ _ => 0
def diag3 (v : V3 α) : T2 α := fun i j => if i = j then v i else 0

/-- `StrainEnergy.__init__` (shape given as a description) -/
def init (d : Desc) : State α :=
  { desc := d, cM := zero4, cP := zero4, rot := one3, rotP := one3, stress0 := zero2,
    eig := zero2, constE := 0,
    p := { cM4 := zero4, cM2 := zero6, cP4 := zero4, cP2 := zero6, stress := zero2, strain := zero2 } }

/-- `_computeAppliedStrain` (repaired: divided by the pair weights) -/
def appliedStrain (inv6 : M6 α → Box6 α) (cM2 : M6 α) (stress : T2 α) : T2 α :=
  if any2 stress && any6 cM2 then
    let x := (inv6 cM2).f
    let fs := rank2ToVec stress
    vecTo2 fun I => (sum6 fun J => x I J * fs J) / pairWeight I
  else zero2

/-- what `update()` writes into the parameters when the matrix tensor is set: a function of the
rotations, the unrotated tensors and the applied stress as supplied -/
def paramsOf (ev : Eval α) (inv6 : M6 α → Box6 α) (rot rotP : T2 α) (cM cP : T4 α) (stress0 : T2 α) :
    Params α :=
  let cM4 := (ev.e4 (rotate4 rot cM)).f
  let cM2 := (ev.e6 (convert4To2 cM4)).f
  let hasP := any4 cP
  let cP4 := (if hasP then ev.e4 (rotate4 rotP cP) else ⟨cM4⟩ : Box4 α).f
  let cP2 := (if hasP then ev.e6 (convert4To2 cP4) else ⟨cM2⟩ : Box6 α).f
  let st := (ev.e2 (rotate2 rot stress0)).f
  { cM4 := cM4, cM2 := cM2, cP4 := cP4, cP2 := cP2, stress := st,
    strain := (ev.e2 (appliedStrain inv6 cM2 st)).f }

/-- `update()` -/
def update (ev : Eval α) (inv6 : M6 α → Box6 α) (s : State α) : State α :=
  if any4 s.cM then
    { s with desc := (if s.desc = Desc.constant then Desc.sphere else s.desc),
             p := paramsOf ev inv6 s.rot s.rotP s.cM s.cP s.stress0 }
  else { s with desc := Desc.constant }

/-- `_updateIfElasticTensorSet()` -/
def updateIfSet (ev : Eval α) (inv6 : M6 α → Box6 α) (s : State α) : State α :=
  if any4 s.cM then update ev inv6 s else s

/-- one setter call; the Boolean is false when the call raises (state unchanged) -/
def step (ev : Eval α) (inv6 : M6 α → Box6 α) (s : State α) : Op α → State α × Bool
  | .setShape d => ({ s with desc := d }, true)
  | .setConstantEnergy e => ({ s with constE := e, desc := Desc.constant }, true)
  | .setElasticTensor6 c => (update ev inv6 { s with cM := convert2To4 c }, true)
  | .setElasticTensor4 c => (update ev inv6 { s with cM := c }, true)
  | .setElasticConstants a b c => (update ev inv6 { s with cM := convert2To4 (elasticConstantToC a b c) }, true)
  | .setModuli E nu G lam K M =>
    match moduliToC E nu G lam K M with
    | some c => (update ev inv6 { s with cM := convert2To4 c }, true)
    | none => (s, false)
  | .setPrecTensor6 c => (updateIfSet ev inv6 { s with cP := convert2To4 c }, true)
  | .setPrecTensor4 c => (updateIfSet ev inv6 { s with cP := c }, true)
  | .setPrecConstants a b c => (updateIfSet ev inv6 { s with cP := convert2To4 (elasticConstantToC a b c) }, true)
  | .setPrecModuli E nu G lam K M =>
    match moduliToC E nu G lam K M with
    | some c => (updateIfSet ev inv6 { s with cP := convert2To4 c }, true)
    | none => (s, false)
  | .setRotation r => (updateIfSet ev inv6 { s with rot := r }, true)
  | .setRotationPrec r => (updateIfSet ev inv6 { s with rotP := r }, true)
  | .setEigScalar e => ({ s with eig := fun i j => e * (if i = j then 1 else 0) }, true)
  | .setEigVec e => ({ s with eig := diag3 e }, true)
  | .setEigMat e => ({ s with eig := e }, true)
  | .setStressScalar x =>
    let m : T2 α := fun i j => x * (if i = j then 1 else 0)
    (updateIfSet ev inv6 { s with stress0 := m, p := { s.p with stress := m } }, true)
  | .setStressVec v =>
    (updateIfSet ev inv6 { s with stress0 := diag3 v, p := { s.p with stress := diag3 v } }, true)
  | .setStressMat m =>
    (updateIfSet ev inv6 { s with stress0 := m, p := { s.p with stress := m } }, true)

def run (ev : Eval α) (inv6 : M6 α → Box6 α) (s : State α) (ops : List (Op α)) : State α :=
  ops.foldl (fun st op => (step ev inv6 st op).1) s

/-! ### several live objects (e.g. one StrainEnergy per precipitate phase) -/

abbrev Family (α : Type) := List (State α)

/-- a setter call on object i of a family: every object owns its fields and parameters
(a list, not a function, so that compiled code keeps evaluated states) -/
def stepAt (ev : Eval α) (inv6 : M6 α → Box6 α) (fam : Family α) (i : Nat) (op : Op α) : Family α :=
  match fam[i]? with
  | some s => fam.set i (step ev inv6 s op).1
  | none => fam

/-- an interleaved sequence of setter calls (object index, call) -/
def runFam (ev : Eval α) (inv6 : M6 α → Box6 α) (fam : Family α) (ops : List (Nat × Op α)) : Family α :=
  ops.foldl (fun f io => stepAt ev inv6 f io.1 io.2) fam

/-! ### the history of ONE object: setters, description-level settings and `compute` calls

`compute(r)` reads the parameters and the description as they are at the moment of the call; the code holds
no table of earlier results of the Eshelby kernel (`Dijkl`), so every result is a function of the settings in
force.  The quadrature of an ellipsoidal description lives in the description OBJECT: `setShape` creates a new
one (default nodes `dq`), `setLebedevIntegration` / `setIntegrationIntervals` replace the nodes. -/

/-- quadrature of an ellipsoidal description: `midPhiGrid/midThetaGrid/midWeights` (as nodes) and `dA` -/
structure Quad (α : Type) where
  nodes : List (QNode α)
  dA : α

/-- one call on the object: a setter of `StrainEnergy`, a quadrature setter of its description, `compute(r)` -/
inductive HOp (α : Type) where
  | setter (op : Op α)
  | setQuad (q : Quad α)
  | compute (r : V3 α)

structure HState (α : Type) where
  st : State α
  quad : Quad α

/-- `compute(r)`: Khachaturyan / constant descriptions through `simple` (the generated formulas, supplied
by the caller), the ellipsoidal one = `strainEnergyBohm` with the Eshelby tensor of the current nodes -/
def computeOf (ev : Eval α) (inv4 : T4 α → T4 α) (simple : State α → V3 α → α) (h : HState α)
    (r : V3 α) : α :=
  match h.st.desc with
  | .ellipsoid =>
    let cM := h.st.p.cM4
    let D := (ev.e4 (Dijkl (ohmOf cM) betaN h.quad.nodes h.quad.dA r)).f
    let S := (ev.e4 (Sijmn cM D)).f
    energyBohm ev inv4 cM h.st.p.cP4 S h.st.eig (volume r)
  | _ => simple h.st r

/-- one call; the output is what a `compute` returns -/
def hstep (ev : Eval α) (inv6 : M6 α → Box6 α) (inv4 : T4 α → T4 α) (simple : State α → V3 α → α)
    (dq : Quad α) (h : HState α) : HOp α → HState α × Option α
  | .setter op =>
    ({ st := (step ev inv6 h.st op).1,
       quad := (match op with
                | .setShape _ => dq
                | _ => h.quad) }, none)
  | .setQuad q => ({ h with quad := (if h.st.desc = Desc.ellipsoid then q else h.quad) }, none)
  | .compute r => (h, some (computeOf ev inv4 simple h r))

/-- a whole history: final state and the results of the `compute` calls in order -/
def hrun (ev : Eval α) (inv6 : M6 α → Box6 α) (inv4 : T4 α → T4 α) (simple : State α → V3 α → α)
    (dq : Quad α) (h : HState α) : List (HOp α) → HState α × List α
  | [] => (h, [])
  | op :: ops =>
    let a := hstep ev inv6 inv4 simple dq h op
    let b := hrun ev inv6 inv4 simple dq a.1 ops
    (b.1, a.2.toList ++ b.2)

def hinit (d : Desc) (dq : Quad α) : HState α := { st := init d, quad := dq }

/-! the setters before the repair 187e553 (kept for the witness that the clause was false) -/

/-- `update()` before the repair: the applied stress held in the parameters is rotated again -/
def updateOld (ev : Eval α) (inv6 : M6 α → Box6 α) (s : State α) : State α :=
  if any4 s.cM then
    let q := paramsOf ev inv6 s.rot s.rotP s.cM s.cP s.stress0
    let st := rotate2 s.rot s.p.stress
    { s with desc := (if s.desc = Desc.constant then Desc.sphere else s.desc),
             p := { q with stress := st, strain := appliedStrain inv6 q.cM2 st } }
  else { s with desc := Desc.constant }

/-- `setRotationMatrix` before the repair: no `update()` -/
def setRotationOld (s : State α) (r : T2 α) : State α := { s with rot := r }

end machine

/-! ### a kernel evaluated through a memo table inside a settings object (abstract)

`σ` = everything the object holds, `inp : σ → ι` = the part of it the kernel reads (for `Dijkl`: the rotated
matrix stiffness, the quadrature nodes, the 3x3 inverse routine), `key` = what a memo table is keyed by,
`kern` = the kernel itself.  A setter replaces the settings and either empties the table or not. -/
namespace Memo

inductive MOp (σ ρ : Type) where
  | set (f : σ → σ) (clears : Bool)
  | compute (r : ρ)

structure MState (σ κ β : Type) where
  s : σ
  memo : List (κ × β)

def lookup {κ β : Type} [DecidableEq κ] (k : κ) : List (κ × β) → Option β
  | [] => none
  | (k', v) :: t => if k' = k then some v else lookup k t

section
variable {σ ι ρ κ β : Type} [DecidableEq κ]

/-- one call on an object WITH a memo table -/
def mstep (inp : σ → ι) (key : ι → ρ → κ) (kern : ι → ρ → β) (st : MState σ κ β) :
    MOp σ ρ → MState σ κ β × Option β
  | .set f c => ({ s := f st.s, memo := if c then [] else st.memo }, none)
  | .compute r =>
    match lookup (key (inp st.s) r) st.memo with
    | some v => (st, some v)
    | none =>
      let v := kern (inp st.s) r
      ({ st with memo := (key (inp st.s) r, v) :: st.memo }, some v)

def mrun (inp : σ → ι) (key : ι → ρ → κ) (kern : ι → ρ → β) (st : MState σ κ β) :
    List (MOp σ ρ) → MState σ κ β × List β
  | [] => (st, [])
  | op :: ops =>
    let a := mstep inp key kern st op
    let b := mrun inp key kern a.1 ops
    (b.1, a.2.toList ++ b.2)

/-- the same call on an object WITHOUT a table (the code as it is) -/
def pstep (inp : σ → ι) (kern : ι → ρ → β) (s : σ) : MOp σ ρ → σ × Option β
  | .set f _ => (f s, none)
  | .compute r => (s, some (kern (inp s) r))

def prun (inp : σ → ι) (kern : ι → ρ → β) (s : σ) : List (MOp σ ρ) → σ × List β
  | [] => (s, [])
  | op :: ops =>
    let a := pstep inp kern s op
    let b := prun inp kern a.1 ops
    (b.1, a.2.toList ++ b.2)

end
end Memo

/-! ### storage of the eigenstrain as laid out by `StrainEnergyParameters`
The arrays of `StrainEnergyParameters` are CLASS attributes: until an object assigns its own array it
reads the one array shared by all objects.  The setters assign (`self.params.eigenstrain = …`), which
is what `State.eig` models; an in-place write (`np.fill_diagonal(self.params.eigenstrain, v)`) would go
into whatever array the object currently reads.  Kept for the negative witness
`Props.C16.fillDiagonal_leaks`. -/
structure SharedEig (α : Type) where
  shared : T2 α
  own : Nat → Option (T2 α)

section shared
variable {α : Type}

def SharedEig.read (m : SharedEig α) (j : Nat) : T2 α :=
  match m.own j with
  | some e => e
  | none => m.shared

/-- `self.params.eigenstrain = e` on object i -/
def SharedEig.assign (m : SharedEig α) (i : Nat) (e : T2 α) : SharedEig α :=
  { m with own := fun j => if j = i then some e else m.own j }

/-- `np.fill_diagonal(self.params.eigenstrain, v)` on object i -/
def SharedEig.fillDiagonal (m : SharedEig α) (i : Nat) (v : V3 α) : SharedEig α :=
  let w (e : T2 α) : T2 α := fun a b => if a = b then v a else e a b
  match m.own i with
  | some e => { m with own := fun j => if j = i then some (w e) else m.own j }
  | none => { m with shared := w m.shared }

end shared

/-! ### axis convention of the ellipsoid: radius function `_beta` against direction function `_n`
`_n(φ,θ) = (sinθ cosφ, sinθ sinφ, cosθ)` attaches cos φ to x and sin φ to y; `_beta(a,b,c,φ,θ)` must attach
the semi-axis a to the SAME factor as x, b to the same factor as y.  The functions below take the sines and
cosines as arguments (they are atoms for the theorems; exact rational values such as 3/5, 4/5 in the witnesses). -/
section orientation
variable {α : Type} [Add α] [Mul α] [One α]

/-- Σᵢ (rᵢ nᵢ)² : the square of the centre-to-surface distance of the ellipsoid with semi-axes r in direction n -/
def quadForm (r n : V3 α) : α := npow (r 0 * n 0) 2 + npow (r 1 * n 1) 2 + npow (r 2 * n 2) 2

/-- relabelling of the coordinate axes: component i of the result is component p i of v -/
def permV3 (p : Fin 3 → Fin 3) (v : V3 α) : V3 α := fun i => v (p i)

/-- the exchange x ↔ y -/
def swap01 : Fin 3 → Fin 3 := fun i => if i = 0 then 1 else if i = 1 then 0 else 2

/-- the six relabellings in the order of Python's `itertools.permutations(range(3))` -/
def perm6 (k : Nat) : Fin 3 → Fin 3 :=
  match k with
  | 0 => fun i => i
  | 1 => fun i => if i = 0 then 0 else if i = 1 then 2 else 1
  | 2 => swap01
  | 3 => fun i => if i = 0 then 1 else if i = 1 then 2 else 0
  | 4 => fun i => if i = 0 then 2 else if i = 1 then 0 else 1
  | _ => fun i => if i = 0 then 2 else if i = 1 then 1 else 0

/-- `_n` as a function of (sin φ, cos φ, sin θ, cos θ) -/
def nSC (sφ cφ sθ cθ : α) : V3 α := fun i => if i = 0 then sθ * cφ else if i = 1 then sθ * sφ else cθ

/-- the radicand of `_beta` as coded, as a function of (sin φ, cos φ, sin θ, cos θ) -/
def betaSqSC (a b c sφ cφ sθ cθ : α) : α :=
  (npow (a * cφ) 2 + npow (b * sφ) 2) * npow sθ 2 + npow (c * cθ) 2

/-- the x ↔ y MIRRORED radicand (sin φ attached to a, cos φ to b) — a variant that does not pair with `_n`;
kept for the negative witness `Props.C16.beta_mirrored_differs` -/
def betaSqMirrored (a b c sφ cφ sθ cθ : α) : α :=
  (npow (a * sφ) 2 + npow (b * cφ) 2) * npow sθ 2 + npow (c * cθ) 2

/-- the node list seen after relabelling the axes by p -/
def permNodes (p : Fin 3 → Fin 3) (nodes : List (QNode α)) : List (QNode α) :=
  nodes.map fun q => { n := permV3 p q.n, w := q.w }

end orientation

/-! ### `StrainEnergy.compute` on an (n × 3) array of semi-axes
`compute(r)`: `r = np.atleast_2d(r); energies = [self.description.computeStrainEnergy(ri) for ri in r]` — the list of
the single-row energies in the order of the rows: no row reads another row or an earlier result.  `f` is the single-row
energy (`computeOf … h` in the history model, any of the description formulas).  `computeRowsReuse` is a VARIANT that is
not the code (kept for the negative witness `Props.C16.computeRowsReuse_witness`): the loop remembers the previous row and
its energy and hands the remembered energy to a row that `same` declares to have the same axis ratios. -/
section rows
variable {α : Type}

/-- the array call: one single-row energy per row, in row order -/
def computeRows (f : V3 α → α) (rows : List (V3 α)) : List α := rows.map f

/-- `xs[idx]` (NumPy fancy indexing by a list of row numbers; `d` for a row number out of range) -/
def takeRows {β : Type} (d : β) (xs : List β) (idx : List Nat) : List β := idx.map fun i => xs.getD i d

/-- the reuse-previous-row loop, started with the remembered (row, energy) pair `prev` -/
def computeRowsReuseFrom (same : V3 α → V3 α → Bool) (f : V3 α → α) :
    Option (V3 α × α) → List (V3 α) → List α
  | _, [] => []
  | none, r :: rs => f r :: computeRowsReuseFrom same f (some (r, f r)) rs
  | some (p, e), r :: rs =>
    (if same p r then e else f r) :: computeRowsReuseFrom same f (some (r, if same p r then e else f r)) rs

/-- the reuse-previous-row variant of the array call -/
def computeRowsReuse (same : V3 α → V3 α → Bool) (f : V3 α → α) (rows : List (V3 α)) : List α :=
  computeRowsReuseFrom same f none rows

/-- "same axis ratios" exactly: r/r₀ = p/p₀ cross-multiplied -/
def sameRatios [Mul α] [DecidableEq α] (p r : V3 α) : Bool :=
  decide (r 1 * p 0 = p 1 * r 0) && decide (r 2 * p 0 = p 2 * r 0)

end rows

end KawinV.Elastic
