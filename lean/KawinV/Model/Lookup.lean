/-
Hand-written executable model of the temperature bookkeeping of a binary KWN run
(kawin/precipitation/KWNEuler.py: `_createLookupBinary` 200-247, `setup` 263-301, `_growthRateBinary`
536-552, the rebuild branches of `_updateParticleSizeDistribution` 630-675; kawin/precipitation/KWNBase.py:
`setup` 483-499, `preProcess` 539-547, `_calculateDependentTerms` 549-572, `postProcess` 595-631;
function names are the anchor, line numbers as of /repo 842c14c).
Core Lean only; generic scalar.

What is tracked is *at which temperature* every piece of tabulated data was computed:
* `tabT`   — one entry per block of `PSDXalpha/PSDXbeta` now in the table (a full build is one
             block; every extension of the size grid appends one block);
* `eqT`    — per recorded slice and per handed-out slice, the temperature the `xEqAlpha/xEqBeta`
             values in it were computed at.
The thermodynamic values themselves are a function of that temperature only, so the temperature is
the whole story.

Two lookup implementations are modelled: `implNew` is the code as it is now (after the repair of
D-C13-dtemp), `implOld` the code as it was before (kept for the `lookup_stale` witness).
-/
namespace KawinV.Lookup

section generic
variable {α : Type} [Add α] [Sub α] [Neg α] [Zero α] [LT α] [DecidableLT α]

/-- `np.abs` -/
def absS (x : α) : α := if x < 0 then -x else x

/-- what one call of `_growthRateBinary` used and handed out -/
structure Obs (α : Type) where
  /-- `Y.temperature[0]`, the temperature of the call -/
  cur : α
  /-- build temperatures of the table blocks read by `_singleGrowthBinary` in this call -/
  tabT : List α
  /-- temperature at which the `xEqAlpha, xEqBeta` written into `Y` were computed -/
  eqT : α
  /-- `_createLookupBinary` ran inside this call -/
  rebuilt : Bool
  /-- `self.dTemp` after the call -/
  dTemp : α

/-- the four places that touch the lookup data -/
structure Impl (α σ : Type) where
  /-- `_createLookupBinary(T)` called from `setup` -/
  build : α → σ
  /-- `_growthRateBinary(Y)`: `T = Y.temperature[0]`, `Trec = pData.temperature[n]`,
      `eqRec` = temperature at which `pData.xEqAlpha[n]` was computed -/
  growth : σ → (T Trec eqRec : α) → σ × Obs α
  /-- size grid re-meshed (`addedIndices is None`) -/
  remesh : σ → (Trec : α) → σ
  /-- size grid extended: only the new classes are computed -/
  extend : σ → (Trec : α) → σ

/-! ### the code as it was (before the repair) -/

structure LOld (α : Type) where
  tabT : List α
  dTemp : α

/-- `_growthRateBinary` as it was (before /repo 842c14c): `dTemp += T - Trec`; `|dTemp| > max` → rebuild at `T` (dTemp KEPT);
else hand out the recorded `xEq` and RESET `dTemp`. -/
def growthOld (max : α) (s : LOld α) (T Trec eqRec : α) : LOld α × Obs α :=
  let d := s.dTemp + (T - Trec)
  if max < absS d then
    ({ tabT := [T], dTemp := d }, { cur := T, tabT := [T], eqT := T, rebuilt := true, dTemp := d })
  else
    ({ tabT := s.tabT, dTemp := 0 }, { cur := T, tabT := s.tabT, eqT := eqRec, rebuilt := false, dTemp := 0 })

def implOld (max : α) : Impl α (LOld α) where
  build T := { tabT := [T], dTemp := 0 }
  growth := growthOld max
  remesh s Trec := { s with tabT := [Trec] }
  extend s Trec := { s with tabT := s.tabT ++ [Trec] }

/-! ### the code as it is -/

structure LNew (α : Type) where
  tabT : List α
  /-- `self._lookupTemperature`: what `_createLookupBinary` was last called with; the cached
      `_lookupXEq` values belong to the same call -/
  Tl : α
  dTemp : α

/-- `_createLookupBinary(T)` records its argument, caches what it returns and zeroes `dTemp` -/
def buildNew (T : α) : LNew α := { tabT := [T], Tl := T, dTemp := 0 }

/-- `dTemp = T - _lookupTemperature`; `|dTemp| > max` → rebuild at `T`; else hand out the cached
`xEq` (computed at `_lookupTemperature`). -/
def growthNew (max : α) (s : LNew α) (T _Trec _eqRec : α) : LNew α × Obs α :=
  let d := T - s.Tl
  if max < absS d then
    (buildNew T, { cur := T, tabT := [T], eqT := T, rebuilt := true, dTemp := 0 })
  else
    ({ s with dTemp := d }, { cur := T, tabT := s.tabT, eqT := s.Tl, rebuilt := false, dTemp := d })

def implNew (max : α) : Impl α (LNew α) where
  build := buildNew
  growth := growthNew max
  /- `_createLookupBinary(pData.temperature[n])` -/
  remesh _ Trec := buildNew Trec
  /- new classes are computed at `_lookupTemperature`, like the rest of the table -/
  extend s _ := { s with tabT := s.tabT ++ [s.Tl] }

/-! ### the run: recorded slices, the cached slice `_currY`, the calls of one `solve` -/

structure Slice (α : Type) where
  time : α
  temp : α
  eqT : α

structure KState (α σ : Type) where
  /-- `pData[n]` -/
  cur : Slice α
  /-- `pData[n-1], pData[n-2], …` -/
  hist : List (Slice α)
  /-- `self._currY` -/
  currY : Option (Slice α)
  lk : σ
  /-- one entry per `_growthRateBinary` call, newest first -/
  obs : List (Obs α)

inductive Op (α : Type) where
  /-- `preProcess()`: drop the cached slice -/
  | pre
  /-- `_calculateDependentTerms(t, x)` from `getdXdt` -/
  | dep (t : α)
  /-- `postProcess(t, x)` up to and including `_appendArrays` -/
  | post (t : α)
  /-- `_updateParticleSizeDistribution`: grid re-meshed → full rebuild, then `_growthRate(copySlice(n))` -/
  | remesh
  /-- `_updateParticleSizeDistribution`: grid extended → new classes only, then `_growthRate(copySlice(n))` -/
  | extend

variable {σ : Type}

/-- `KWNBase.setup` (498) + `PrecipitateModel.setup` (263-301): `time[0] = 0` from
`PrecipitationData.reset`; the lookup is built at `pData.temperature[0]`, its `xEq` stored in slice 0;
then `_growthRate(Y)` with `Y.temperature = schedule(Y.time)`; `setSlice(Y, 0)`. -/
def setup (I : Impl α σ) (sched : α → α) : KState α σ :=
  let t0 : α := 0
  let T0 := sched t0
  let YT := sched t0
  let g := I.growth (I.build T0) YT T0 T0
  { cur := { time := t0, temp := YT, eqT := g.2.eqT }, hist := [], currY := none, lk := g.1, obs := [g.2] }

/-- `_calculateDependentTerms(t, x)`: first call after `preProcess` copies the last recorded slice
(no growth-rate call); later calls set time and temperature and recompute. -/
def depTerms (I : Impl α σ) (sched : α → α) (s : KState α σ) (t : α) : KState α σ :=
  match s.currY with
  | none => { s with currY := some s.cur }
  | some _ =>
    let T := sched t
    let g := I.growth s.lk T s.cur.temp s.cur.eqT
    { s with currY := some { time := t, temp := T, eqT := g.2.eqT }, lk := g.1, obs := g.2 :: s.obs }

/-- growth-rate call on a copy of the last recorded slice (end of the `if change:` branch) -/
def regrow (I : Impl α σ) (s : KState α σ) (lk : σ) : KState α σ :=
  let g := I.growth lk s.cur.temp s.cur.temp s.cur.eqT
  { s with lk := g.1, obs := g.2 :: s.obs }

def step (I : Impl α σ) (sched : α → α) (s : KState α σ) : Op α → KState α σ
  | .pre => { s with currY := none }
  | .dep t => depTerms I sched s t
  | .post t =>
    let s1 := depTerms I sched s t
    match s1.currY with
    | some y => { s1 with cur := y, hist := s1.cur :: s1.hist }
    | none => s1
  | .remesh => regrow I s (I.remesh s.lk s.cur.temp)
  | .extend => regrow I s (I.extend s.lk s.cur.temp)

def run (I : Impl α σ) (sched : α → α) (ops : List (Op α)) : KState α σ :=
  ops.foldl (step I sched) (setup I sched)

/-- all recorded slices, newest first -/
def KState.slices (s : KState α σ) : List (Slice α) := s.cur :: s.hist

end generic

end KawinV.Lookup
