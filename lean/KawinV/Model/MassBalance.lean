/-
Hand-written executable model of `PrecipitateModel._calcMassBalance` (KWNEuler.py 412-479) and the
moment functions it uses (PopulationBalance.py 637-676).  Core Lean only; generic scalar.

Per phase the inputs are what the code reads at the moment of the call: the state vector `N`
(= x[p] after `_processX`), class centres `R`, the per-element class-averaged interfacial precipitate
composition `xb e i = ½(PSDXbeta[i,e] + PSDXbeta[i+1,e])`, Vα/Vβ, the nucleation-site volume factor,
the previously recorded volume fraction (sticky 1), and for the no-diffusion mode the previous
`fconc` and the stored PSD.
-/
import KawinV.Scalar
namespace KawinV.MB

section
variable {α : Type} [Add α] [Sub α] [Mul α] [Div α] [Zero α] [One α]
  [LT α] [DecidableLT α]

/-- `np.sum(N * PSDsize**k)` -/
def moment (k : Nat) (N R : List α) : α :=
  (List.zipWith (fun n r => n * npow r k) N R).sum

/-- `np.sum(N * PSDsize**k * w)` -/
def wmoment (k : Nat) (N R w : List α) : α :=
  (List.zipWith (fun nr wi => nr * wi) (List.zipWith (fun n r => n * npow r k) N R) w).sum

/-- class averages of a boundary table: `0.5*(t[:-1] + t[1:])` -/
def midpoints [OfNat α 2] : List α → List α
  | a :: b :: rest => (a + b) / 2 :: midpoints (b :: rest)
  | _ => []

structure PhaseIn (α : Type) where
  N : List α
  R : List α
  xb : List (List α)        -- xb[e][i]: class-averaged precipitate composition of element e in class i
  volRatio : α
  volumeFactor : α
  prevVolFrac : α
  infinite : Bool
  prevFconc : List α        -- per element
  psdOld : List α           -- PBM.PSD, used by the no-diffusion mode only

structure PhaseOut (α : Type) where
  dens : α
  ravg : α
  volFrac : α
  fconc : List α            -- per element

def isOne (x : α) : Bool := ¬ (x < 1) ∧ ¬ (1 < x)

/-- uncapped volume fraction `volRatio * volumeFactor * M3` -/
def rawVolFrac (p : PhaseIn α) : α := p.volRatio * p.volumeFactor * moment 3 p.N p.R

def fconcE (p : PhaseIn α) (e : Nat) : α :=
  if p.infinite then
    p.volRatio * p.volumeFactor * wmoment 3 p.N p.R (p.xb.getD e [])
  else
    p.prevFconc.getD e 0 +
      p.volRatio * p.volumeFactor *
        (List.zipWith (fun a m => a * m)
          (List.zipWith (fun r d => npow r 3 * d) p.R (List.zipWith (fun n o => n - o) p.N p.psdOld))
          (p.xb.getD e [])).sum

/-- one phase of `_calcMassBalance` (lines 442-473) -/
def phaseBalance (nElem : Nat) (minDens : α) (p : PhaseIn α) : PhaseOut α :=
  let dens := moment 0 p.N p.R
  if dens < minDens then
    { dens := dens, ravg := 0, volFrac := 0, fconc := List.replicate nElem 0 }
  else
    let vf0 := rawVolFrac p
    let vf := if vf0 < 1 then vf0 else 1
    let vf := if isOne p.prevVolFrac then 1 else vf
    { dens := dens, ravg := moment 1 p.N p.R / dens, volFrac := vf,
      fconc := (List.range nElem).map (fconcE p) }

structure Slice (α : Type) where
  phases : List (PhaseOut α)
  comp : List α

def sumVolFrac (ps : List (PhaseOut α)) : α := (ps.map (·.volFrac)).sum
def sumFconc (ps : List (PhaseOut α)) (e : Nat) : α := (ps.map (fun p => p.fconc.getD e 0)).sum

/-- unclamped matrix composition of element e -/
def rawComp (x0 : List α) (ps : List (PhaseOut α)) (e : Nat) : α :=
  (x0.getD e 0 - sumFconc ps e) / (1 - sumVolFrac ps)

/-- lines 475-477: composition only if Σ volFrac < 1, then clamp negatives to minComposition -/
def composition (x0 prevComp : List α) (minComp : α) (ps : List (PhaseOut α)) : List α :=
  if sumVolFrac ps < 1 then
    (List.range x0.length).map (fun e => let c := rawComp x0 ps e; if c < 0 then minComp else c)
  else prevComp

def massBalance (minDens minComp : α) (x0 prevComp : List α) (ins : List (PhaseIn α)) : Slice α :=
  let ps := ins.map (phaseBalance x0.length minDens)
  { phases := ps, comp := composition x0 prevComp minComp ps }

/-- the run as far as the mass balance is concerned: every recorded slice is the mass balance of
the inputs in force at that step — any inputs (any backend, grid, iterator, number of solve calls);
the carried-over composition `prev` is an input of each step as well (for Euler it is the previously
recorded slice, for RK4 the slice of the last stage evaluation). -/
def recordRun (minDens minComp : α) (x0 : List α) : List (List α × List (PhaseIn α)) → List (Slice α)
  | [] => []
  | (prev, ins) :: rest =>
    massBalance minDens minComp x0 prev ins :: recordRun minDens minComp x0 rest

end
end KawinV.MB
