/-
One accepted step of the KWN model as far as the size distribution and the recorded slice are
concerned, composed from the pieces that are individually tied to the code (core Lean only):
  solver update  x' = psd + dt·dXdt(corrected face fluxes)        (KawinV.PSD.eulerUpdate, KawinV.PBM.dXdt)
  _processX      zero the unstable / sub-minimum-radius classes   (KawinV.PSD.processX)
  mass balance   recorded slice from the processed state          (KawinV.MB.massBalance)
  UpdatePBMEuler stored PSD = truncation                          (KawinV.PSD.trunc)
  addSizeClasses optional extension by empty classes
Everything the thermodynamic backend, the nucleation model and the step-size rules produce enters as
the per-step input `StepIn` (universally quantified in the theorems).  Re-mesh steps are not part of
this model (known finding: they do not preserve the number density).
-/
import KawinV.Model.PSDUpdate
namespace KawinV.KWN
open KawinV KawinV.MB KawinV.PBM KawinV.PSD

structure PhaseState (α : Type) where
  psd : List α
  R : List α

/-- what one step feeds into one phase -/
structure StepIn (α : Type) where
  nf : Nat → α            -- corrected face fluxes of the accepted update (any backend / iterator glue)
  nucIdx : Nat
  nucRate : α
  kz : Nat                -- RdrivingForceIndex
  minRadius : α
  xb : List (List α)
  volRatio : α
  volumeFactor : α
  prevVolFrac : α
  infinite : Bool
  prevFconc : List α
  extend : List α         -- centres of classes appended after the update ([] = no extension)

section
variable {α : Type} [Add α] [Sub α] [Mul α] [Div α] [Neg α] [Zero α] [One α]
  [LT α] [DecidableLT α] [LE α] [DecidableLE α]

/-- processed state of one phase after the solver update -/
def processed (dt : α) (s : PhaseState α) (i : StepIn α) : List α :=
  processX i.kz i.minRadius
    ((List.range s.psd.length).map (eulerUpdate (fun j => s.psd.getD j 0) (dXdt i.nf i.nucIdx i.nucRate) dt)) s.R

def massIn (dt : α) (s : PhaseState α) (i : StepIn α) : PhaseIn α :=
  { N := processed dt s i, R := s.R, xb := i.xb, volRatio := i.volRatio, volumeFactor := i.volumeFactor,
    prevVolFrac := i.prevVolFrac, infinite := i.infinite, prevFconc := i.prevFconc, psdOld := s.psd }

def nextPhase (dt : α) (s : PhaseState α) (i : StepIn α) : PhaseState α :=
  { psd := trunc (processed dt s i) ++ List.replicate i.extend.length 0, R := s.R ++ i.extend }

structure State (α : Type) where
  phases : List (PhaseState α)
  comp : List α
  history : List (Slice α)        -- newest first

def step (minDens minComp : α) (x0 : List α) (st : State α) (dt : α) (ins : List (StepIn α)) : State α :=
  let pairs := List.zipWith (fun s i => (s, i)) st.phases ins
  let slice := massBalance minDens minComp x0 st.comp (pairs.map (fun p => massIn dt p.1 p.2))
  { phases := pairs.map (fun p => nextPhase dt p.1 p.2), comp := slice.comp, history := slice :: st.history }

def run (minDens minComp : α) (x0 : List α) : State α → List (α × List (StepIn α)) → State α
  | st, [] => st
  | st, (dt, ins) :: rest => run minDens minComp x0 (step minDens minComp x0 st dt ins) rest

end
end KawinV.KWN
