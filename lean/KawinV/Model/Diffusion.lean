/-
Hand-written executable model of the 1-D diffusion mesh update in
  kawin/diffusion/Diffusion.py            (setup 384-409, getdXdt 429-434, postProcess 439-449)
  kawin/diffusion/DiffusionParameters.py  (BoundaryConditions.applyBoundaryConditionsToInitialProfile 180-197,
                                           applyBoundaryConditionsToFluxes 199-215)
  kawin/solver/Iterators.py               (ExplicitEulerIterator, RK4Iterator)   + Solver._updateX
  kawin/diffusion/Homogenization.py       (volume-fixed frame, line 133)
Core Lean only; generic scalar.

Mesh: nodes 0..N-1, faces 0..N (face i is the left face of node i, face i+1 its right face).
A state is `element → node → α`; a flux table is `element → face → α`.
The interior face fluxes are *not* modelled: they are an arbitrary function `F c x` of a call
counter `c` (the code's fluxes depend on time, temperature field and a composition cache, i.e. on the
call history) and of the state `x` handed to `_getFluxes`.  Only what the code does with them is modelled.
-/
namespace KawinV.Diffusion

/-- BoundaryConditions.FLUX_BC / COMPOSITION_BC -/
inductive BCType where
  | flux
  | comp
deriving DecidableEq, Repr

/-- boundary condition of one element: (type, value) on the left and on the right -/
structure BC (α : Type) where
  ltype : BCType
  lval : α
  rtype : BCType
  rval : α

abbrev State (α : Type) := Nat → Nat → α

inductive Scheme where
  | euler
  | rk4
deriving DecidableEq, Repr

/-- number of `_getFluxes` calls per step -/
def calls : Scheme → Nat
  | .euler => 1
  | .rk4 => 4

structure Cfg (α : Type) where
  N : Nat            -- number of nodes
  E : Nat            -- number of independent elements (rows of x)
  dz : α
  minC : α           -- constraints.minComposition
  nAll : α           -- len(allElements) as a scalar
  bc : Nat → BC α    -- per element

section generic
variable {α : Type} [Add α] [Sub α] [Mul α] [Div α] [Neg α] [Zero α] [One α]
  [OfNat α 2] [OfNat α 6] [LT α] [DecidableLT α]

/-- Diffusion.getdXdt: `-(fluxes[:,1:] - fluxes[:,:-1])/dz` at node i -/
def dXdt (dz : α) (J : Nat → α) (i : Nat) : α := -(J (i+1) - J i) / dz

/-- BoundaryConditions.applyBoundaryConditionsToFluxes for one element row of length N+1.
Two sequential writes, as in the code: first `fluxes[0]`, then `fluxes[-1]` (index N) which, for a
composition condition, reads `fluxes[-2]` (index N-1) *after* the first write. -/
def applyBC (N : Nat) (bc : BC α) (J : Nat → α) : Nat → α :=
  let J1 : Nat → α := fun j =>
    if j = 0 then (match bc.ltype with | .flux => bc.lval | .comp => J 1) else J j
  fun j =>
    if j = N then (match bc.rtype with | .flux => bc.rval | .comp => J1 (N-1)) else J1 j

/-- getdXdt of the whole state from the raw (pre-boundary-condition) flux table -/
def rhs (N : Nat) (dz : α) (bc : Nat → BC α) (Jraw : Nat → Nat → α) : State α :=
  fun e i => dXdt dz (applyBC N (bc e) (Jraw e)) i

/-- Solver._updateX: `x + dxdt*dt` (correctdXdt is a no-op for the diffusion models) -/
def axpy (x k : State α) (h : α) : State α := fun e i => x e i + k e i * h

/-- np.clip(x, lo, hi) = minimum(maximum(x, lo), hi) -/
def clip (lo hi x : α) : α :=
  let y := if x < lo then lo else x
  if hi < y then hi else y

/-- the clip in Diffusion.postProcess -/
def postProcess (cfg : Cfg α) (x : State α) : State α :=
  fun e i => clip cfg.minC (1 - cfg.minC) (x e i)

/-- ExplicitEulerIterator: one flux evaluation (call number c), no clip -/
def eulerRaw (cfg : Cfg α) (F : Nat → State α → Nat → Nat → α) (c : Nat) (x : State α) (dt : α) : State α :=
  axpy x (rhs cfg.N cfg.dz cfg.bc (F c x)) dt

/-- the b-weighted sum formed by RK4Iterator: `((k1 + 2*k2) + 2*k3) + k4`, then `/6` -/
def rk4Comb (k1 k2 k3 k4 : α) : α := (((k1 + 2 * k2) + 2 * k3) + k4) / 6

/-- RK4Iterator: four flux evaluations (calls c..c+3), stage states built from `x` without clipping -/
def rk4Raw (cfg : Cfg α) (F : Nat → State α → Nat → Nat → α) (c : Nat) (x : State α) (dt : α) : State α :=
  let k1 := rhs cfg.N cfg.dz cfg.bc (F c x)
  let x1 := axpy x k1 (dt / 2)
  let k2 := rhs cfg.N cfg.dz cfg.bc (F (c+1) x1)
  let x2 := axpy x k2 (dt / 2)
  let k3 := rhs cfg.N cfg.dz cfg.bc (F (c+2) x2)
  let x3 := axpy x k3 dt
  let k4 := rhs cfg.N cfg.dz cfg.bc (F (c+3) x3)
  axpy x (fun e i => rk4Comb (k1 e i) (k2 e i) (k3 e i) (k4 e i)) dt

def stepRaw (cfg : Cfg α) (sch : Scheme) (F : Nat → State α → Nat → Nat → α) (c : Nat) (x : State α) (dt : α) : State α :=
  match sch with
  | .euler => eulerRaw cfg F c x dt
  | .rk4 => rk4Raw cfg F c x dt

/-- one solver iteration: iterator, then postProcess (clip) -/
def step (cfg : Cfg α) (sch : Scheme) (F : Nat → State α → Nat → Nat → α) (c : Nat) (x : State α) (dt : α) : State α :=
  postProcess cfg (stepRaw cfg sch F c x dt)

/-- the solver loop for a given list of accepted time steps -/
def run (cfg : Cfg α) (sch : Scheme) (F : Nat → State α → Nat → Nat → α) : Nat → State α → List α → State α
  | _, x, [] => x
  | c, x, dt :: r => run cfg sch F (c + calls sch) (step cfg sch F c x dt) r

/-! ### setup -/

/-- BoundaryConditions.applyBoundaryConditionsToInitialProfile: `x[e,0] = leftBC`, then `x[e,-1] = rightBC` -/
def applyBCInit (N : Nat) (bc : Nat → BC α) (x : State α) : State α := fun e i =>
  let v := if i = 0 then (match (bc e).ltype with | .comp => (bc e).lval | .flux => x e i) else x e i
  if i = N - 1 then (match (bc e).rtype with | .comp => (bc e).rval | .flux => v) else v

/-- `x[x > min] = x[x > min] - len(allElements)*min` -/
def shift (minC nAll v : α) : α := if minC < v then v - nAll * minC else v

/-- `x[x < min] = min` -/
def clampLo (minC v : α) : α := if v < minC then minC else v

def shiftClamp (minC nAll v : α) : α := clampLo minC (shift minC nAll v)

/-- `np.sum(x, axis=0)[i]` -/
def sumE (E : Nat) (x : State α) (i : Nat) : α := (List.range E).foldl (fun a e => a + x e i) 0

structure MState (α : Type) where
  x : State α
  isSetup : Bool

/-- `any(np.sum(x, axis=0) > 1)` -/
def sumExceeds (cfg : Cfg α) (x : State α) : Bool :=
  (List.range cfg.N).any (fun i => decide (1 < sumE cfg.E x i))

/-- Diffusion.setup.  `built` is what `buildProfile` writes into the zeroed array (only used by the
first call).  The sum check runs on every call; the shift/clamp to `minComposition` only on the
first one (the repaired code: the two lines are guarded by `if not self.isSetup`). -/
def setup (cfg : Cfg α) (built : State α) (s : MState α) : Except String (MState α) :=
  let x0 := if s.isSetup then s.x else applyBCInit cfg.N cfg.bc built
  if sumExceeds cfg x0 then
    .error "Some compositions sum up to above 1"
  else
    .ok { x := if s.isSetup then x0 else fun e i => shiftClamp cfg.minC cfg.nAll (x0 e i), isSetup := true }

/-- Diffusion.setup as it was before the repair: shift/clamp applied on every call. -/
def setupUnguarded (cfg : Cfg α) (built : State α) (s : MState α) : Except String (MState α) :=
  let x0 := if s.isSetup then s.x else applyBCInit cfg.N cfg.bc built
  if sumExceeds cfg x0 then
    .error "Some compositions sum up to above 1"
  else
    .ok { x := fun e i => shiftClamp cfg.minC cfg.nAll (x0 e i), isSetup := true }

/-- one `solve` call (GenericModel.solve): setup, then the solver loop; `c` counts flux evaluations.
An empty step list is a bare `setup()` call. -/
def solveCall (cfg : Cfg α) (sch : Scheme) (F : Nat → State α → Nat → Nat → α) (built : State α)
    (cs : Nat × MState α) (dts : List α) : Except String (Nat × MState α) :=
  match setup cfg built cs.2 with
  | .error m => .error m
  | .ok s => .ok (cs.1 + calls sch * dts.length, { x := run cfg sch F cs.1 s.x dts, isSetup := true })

/-- a history of consecutive `solve` calls on the same model object -/
def solves (cfg : Cfg α) (sch : Scheme) (F : Nat → State α → Nat → Nat → α) (built : State α) :
    Nat × MState α → List (List α) → Except String (Nat × MState α)
  | cs, [] => .ok cs
  | cs, dts :: r =>
    match solveCall cfg sch F built cs dts with
    | .error m => .error m
    | .ok cs' => solves cfg sch F built cs' r

/-! ### volume-fixed frame (Homogenization._getFluxes) -/

/-- `np.sum([f[i] for i in idx], axis=0)` -/
def sumOver (idx : List Nat) (f : Nat → α) : α := idx.foldl (fun a k => a + f k) 0

/-- `J_k - u_k * sum(J_j for j substitutional)` at one face; `J`, `u` indexed by all elements
(reference element first), `subst` the indices of the substitutional elements -/
def vflux (subst : List Nat) (J u : Nat → α) (k : Nat) : α := J k - u k * sumOver subst J

/-! ### the shift/clamp pair merged into one `np.where` (a WRONG reading of the two lines, kept to
state what the order of the two statements buys) -/

/-- `np.where(x > min, x - len(allElements)*min, min)`: the condition is evaluated on the unshifted
value, nothing clamps after the shift. -/
def shiftClampMerged (minC nAll v : α) : α := if minC < v then v - nAll * minC else minC

/-- Diffusion.setup with the merged line in place of the shift-then-clamp pair -/
def setupMerged (cfg : Cfg α) (built : State α) (s : MState α) : Except String (MState α) :=
  let x0 := if s.isSetup then s.x else applyBCInit cfg.N cfg.bc built
  if sumExceeds cfg x0 then
    .error "Some compositions sum up to above 1"
  else
    .ok { x := if s.isSetup then x0 else fun e i => shiftClampMerged cfg.minC cfg.nAll (x0 e i), isSetup := true }

/-- the dependent (reference) component at node i: `1 - np.sum(x, axis=0)[i]` -/
def dependent (E : Nat) (x : State α) (i : Nat) : α := 1 - sumE E x i

/-! ### entering boundary conditions
  kawin/diffusion/DiffusionParameters.py  BoundaryConditions.__init__ / setBoundaryCondition /
      setLeftBoundaryCondition / setRightBoundaryCondition / _setupBoundary / setupDefaults
  kawin/diffusion/Diffusion.py            DiffusionModel.__init__ (boundaryConditions argument), setBC

The four dictionaries `leftBCtype`, `leftBC`, `rightBCtype`, `rightBC` are keyed by whatever object was
passed as `element`.  Keys are modelled as `Option Nat`: `some e` is the name of the e-th independent element
(names that are not elements of the model get indices ≥ E), `none` is the Python `None`
(the default `element` of `DiffusionModel.setBC`, which the repaired code maps to the first independent element). -/

abbrev Key := Option Nat

/-- the `side` argument: `LEFT`/`'left'`, `RIGHT`/`'right'`, anything else -/
inductive SideArg where
  | left
  | right
  | invalid
deriving DecidableEq, Repr

/-- the `bcType` argument: `FLUX_BC`/`'flux'`, `COMPOSITION_BC`/`'composition'`, any other string -/
inductive TypeArg where
  | flux
  | comp
  | invalid
deriving DecidableEq, Repr

def TypeArg.toBC? : TypeArg → Option BCType
  | .flux => some .flux
  | .comp => some .comp
  | .invalid => none

/-- the four dictionaries of a BoundaryConditions object (`none` = key absent) -/
structure BCStore (α : Type) where
  ltype : Key → Option BCType
  lval : Key → Option α
  rtype : Key → Option BCType
  rval : Key → Option α

/-- BoundaryConditions.__init__ -/
def BCStore.empty : BCStore α := ⟨fun _ => none, fun _ => none, fun _ => none, fun _ => none⟩

/-- `d[k] = v` -/
def dset {β : Type} (d : Key → Option β) (k : Key) (v : β) : Key → Option β :=
  fun j => if j = k then some v else d j

/-- BoundaryConditions.setBoundaryCondition: the string type is validated first (ValueError), then the side
selects the pair of dictionaries (ValueError for any other side).  Result: the object afterwards and whether
the call raised. -/
def setBoundaryCondition (s : BCStore α) (side : SideArg) (t : TypeArg) (v : α) (k : Key) : BCStore α × Bool :=
  match t.toBC? with
  | none => (s, true)
  | some ty =>
    match side with
    | .left => ({ s with ltype := dset s.ltype k ty, lval := dset s.lval k v }, false)
    | .right => ({ s with rtype := dset s.rtype k ty, rval := dset s.rval k v }, false)
    | .invalid => (s, true)

/-- BoundaryConditions.setLeftBoundaryCondition -/
def setLeftBoundaryCondition (s : BCStore α) (t : TypeArg) (v : α) (k : Key) : BCStore α × Bool :=
  setBoundaryCondition s .left t v k

/-- BoundaryConditions.setRightBoundaryCondition -/
def setRightBoundaryCondition (s : BCStore α) (t : TypeArg) (v : α) (k : Key) : BCStore α × Bool :=
  setBoundaryCondition s .right t v k

/-- a helper that forwards the wrong side (WRONG variant of setRightBoundaryCondition, for the witness) -/
def setRightBoundaryConditionSwapped (s : BCStore α) (t : TypeArg) (v : α) (k : Key) : BCStore α × Bool :=
  setBoundaryCondition s .left t v k

/-- `element = self.elements[self._getElementIndex(None)]` when `element is None`: the first independent element -/
def elementKey (k : Key) : Key :=
  match k with
  | none => some 0
  | some e => some e

/-- DiffusionModel.setBC (the repaired code): `element=None` means the first independent element, as for the
composition setters; then the left call, then the right call (not reached when the left call raised). -/
def setBC (s : BCStore α) (lt : TypeArg) (lv : α) (rt : TypeArg) (rv : α) (k : Key) : BCStore α × Bool :=
  let r1 := setBoundaryCondition s .left lt lv (elementKey k)
  if r1.2 then r1 else setBoundaryCondition r1.1 .right rt rv (elementKey k)

/-- DiffusionModel.setBC as it was before the repair: `element` passed on unchanged, `None` included. -/
def setBCUnrepaired (s : BCStore α) (lt : TypeArg) (lv : α) (rt : TypeArg) (rv : α) (k : Key) : BCStore α × Bool :=
  let r1 := setBoundaryCondition s .left lt lv k
  if r1.2 then r1 else setBoundaryCondition r1.1 .right rt rv k

/-- one boundary-condition-entering call -/
inductive BCOp (α : Type) where
  | set (side : SideArg) (t : TypeArg) (v : α) (k : Key)
  | setLeft (t : TypeArg) (v : α) (k : Key)
  | setRight (t : TypeArg) (v : α) (k : Key)
  | setBC (lt : TypeArg) (lv : α) (rt : TypeArg) (rv : α) (k : Key)

def applyOp (s : BCStore α) : BCOp α → BCStore α × Bool
  | .set side t v k => setBoundaryCondition s side t v k
  | .setLeft t v k => setLeftBoundaryCondition s t v k
  | .setRight t v k => setRightBoundaryCondition s t v k
  | .setBC lt lv rt rv k => setBC s lt lv rt rv k

/-- a sequence of entering calls on one object (the caller catches the exceptions and goes on) -/
def applyOps (s : BCStore α) (ops : List (BCOp α)) : BCStore α := ops.foldl (fun s o => (applyOp s o).1) s

/-- does the call write the (side, key) entry?  (valid type, that side, that key) -/
def BCOp.writesLeft (k : Key) : BCOp α → Bool
  | .set side t _ k' => decide (side = .left) && t.toBC?.isSome && decide (k = k')
  | .setLeft t _ k' => t.toBC?.isSome && decide (k = k')
  | .setRight _ _ _ => false
  | .setBC lt _ _ _ k' => lt.toBC?.isSome && decide (k = elementKey k')

def BCOp.writesRight (k : Key) : BCOp α → Bool
  | .set side t _ k' => decide (side = .right) && t.toBC?.isSome && decide (k = k')
  | .setLeft _ _ _ => false
  | .setRight t _ k' => t.toBC?.isSome && decide (k = k')
  | .setBC lt _ rt _ k' => lt.toBC?.isSome && rt.toBC?.isSome && decide (k = elementKey k')

/-- BoundaryConditions._setupBoundary for the keys of the E independent elements: `if element not in d: d[element] = v` -/
def dfill {β : Type} (E : Nat) (d : Key → Option β) (v : β) : Key → Option β := fun j =>
  match j with
  | some e => if e < E then (match d j with | some w => some w | none => some v) else d j
  | none => d j

/-- BoundaryConditions.setupDefaults(elements) for the E independent elements: absent keys get FLUX_BC / 0 -/
def setupDefaults (E : Nat) (s : BCStore α) : BCStore α :=
  ⟨dfill E s.ltype .flux, dfill E s.lval 0, dfill E s.rtype .flux, dfill E s.rval 0⟩

/-- what the mesh code reads for element e after `setupDefaults`: `leftBCtype[e]`, `leftBC[e]`, … -/
def toBC (s : BCStore α) (e : Nat) : BC α :=
  ⟨(s.ltype (some e)).getD .flux, (s.lval (some e)).getD 0, (s.rtype (some e)).getD .flux, (s.rval (some e)).getD 0⟩

/-- DiffusionModel.__init__: `boundaryConditions if boundaryConditions is not None else BoundaryConditions()` -/
def initBC (arg : Option (BCStore α)) : BCStore α :=
  match arg with
  | some s => s
  | none => BCStore.empty

end generic

end KawinV.Diffusion
