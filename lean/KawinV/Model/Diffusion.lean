/-
Hand-written executable model of the 1-D diffusion mesh update in
  kawin/diffusion/Diffusion.py            (setup 384-409, getdXdt 429-434, postProcess 439-449)
  kawin/diffusion/DiffusionParameters.py  (BoundaryConditions.applyBoundaryConditionsToInitialProfile 180-197,
                                           applyBoundaryConditionsToFluxes 199-215)
  kawin/solver/Iterators.py               (ExplicitEulerIterator, RK4Iterator)   + Solver._updateX
  kawin/diffusion/Homogenization.py       (volume-fixed frame, line 133)
Core Lean only; generic scalar.

Mesh: nodes 0..N-1, faces 0..N (face i is the left face of node i, face i+1 its right face).
A state is `element → node → α`; a flux table is `element → face → α`.
The interior face fluxes are *not* modelled: they are an arbitrary function `F c x` of a call
counter `c` (the code's fluxes depend on time, temperature field and a composition cache, i.e. on the
call history) and of the state `x` handed to `_getFluxes`.  Only what the code does with them is modelled.
-/
namespace KawinV.Diffusion

/-- BoundaryConditions.FLUX_BC / COMPOSITION_BC -/
inductive BCType where
  | flux
  | comp
deriving DecidableEq, Repr

/-- boundary condition of one element: (type, value) on the left and on the right -/
structure BC (α : Type) where
  ltype : BCType
  lval : α
  rtype : BCType
  rval : α

abbrev State (α : Type) := Nat → Nat → α

inductive Scheme where
  | euler
  | rk4
deriving DecidableEq, Repr

/-- number of `_getFluxes` calls per step -/
def calls : Scheme → Nat
  | .euler => 1
  | .rk4 => 4

structure Cfg (α : Type) where
  N : Nat            -- number of nodes
  E : Nat            -- number of independent elements (rows of x)
  dz : α
  minC : α           -- constraints.minComposition
  nAll : α           -- len(allElements) as a scalar
  bc : Nat → BC α    -- per element

section generic
variable {α : Type} [Add α] [Sub α] [Mul α] [Div α] [Neg α] [Zero α] [One α]
  [OfNat α 2] [OfNat α 6] [LT α] [DecidableLT α]

/-- Diffusion.getdXdt: `-(fluxes[:,1:] - fluxes[:,:-1])/dz` at node i -/
def dXdt (dz : α) (J : Nat → α) (i : Nat) : α := -(J (i+1) - J i) / dz

/-- BoundaryConditions.applyBoundaryConditionsToFluxes for one element row of length N+1.
Two sequential writes, as in the code: first `fluxes[0]`, then `fluxes[-1]` (index N) which, for a
composition condition, reads `fluxes[-2]` (index N-1) *after* the first write. -/
def applyBC (N : Nat) (bc : BC α) (J : Nat → α) : Nat → α :=
  let J1 : Nat → α := fun j =>
    if j = 0 then (match bc.ltype with | .flux => bc.lval | .comp => J 1) else J j
  fun j =>
    if j = N then (match bc.rtype with | .flux => bc.rval | .comp => J1 (N-1)) else J1 j

/-- getdXdt of the whole state from the raw (pre-boundary-condition) flux table -/
def rhs (N : Nat) (dz : α) (bc : Nat → BC α) (Jraw : Nat → Nat → α) : State α :=
  fun e i => dXdt dz (applyBC N (bc e) (Jraw e)) i

/-- Solver._updateX: `x + dxdt*dt` (correctdXdt is a no-op for the diffusion models) -/
def axpy (x k : State α) (h : α) : State α := fun e i => x e i + k e i * h

/-- np.clip(x, lo, hi) = minimum(maximum(x, lo), hi) -/
def clip (lo hi x : α) : α :=
  let y := if x < lo then lo else x
  if hi < y then hi else y

/-- the clip in Diffusion.postProcess -/
def postProcess (cfg : Cfg α) (x : State α) : State α :=
  fun e i => clip cfg.minC (1 - cfg.minC) (x e i)

/-- ExplicitEulerIterator: one flux evaluation (call number c), no clip -/
def eulerRaw (cfg : Cfg α) (F : Nat → State α → Nat → Nat → α) (c : Nat) (x : State α) (dt : α) : State α :=
  axpy x (rhs cfg.N cfg.dz cfg.bc (F c x)) dt

/-- the b-weighted sum formed by RK4Iterator: `((k1 + 2*k2) + 2*k3) + k4`, then `/6` -/
def rk4Comb (k1 k2 k3 k4 : α) : α := (((k1 + 2 * k2) + 2 * k3) + k4) / 6

/-- RK4Iterator: four flux evaluations (calls c..c+3), stage states built from `x` without clipping -/
def rk4Raw (cfg : Cfg α) (F : Nat → State α → Nat → Nat → α) (c : Nat) (x : State α) (dt : α) : State α :=
  let k1 := rhs cfg.N cfg.dz cfg.bc (F c x)
  let x1 := axpy x k1 (dt / 2)
  let k2 := rhs cfg.N cfg.dz cfg.bc (F (c+1) x1)
  let x2 := axpy x k2 (dt / 2)
  let k3 := rhs cfg.N cfg.dz cfg.bc (F (c+2) x2)
  let x3 := axpy x k3 dt
  let k4 := rhs cfg.N cfg.dz cfg.bc (F (c+3) x3)
  axpy x (fun e i => rk4Comb (k1 e i) (k2 e i) (k3 e i) (k4 e i)) dt

def stepRaw (cfg : Cfg α) (sch : Scheme) (F : Nat → State α → Nat → Nat → α) (c : Nat) (x : State α) (dt : α) : State α :=
  match sch with
  | .euler => eulerRaw cfg F c x dt
  | .rk4 => rk4Raw cfg F c x dt

/-- one solver iteration: iterator, then postProcess (clip) -/
def step (cfg : Cfg α) (sch : Scheme) (F : Nat → State α → Nat → Nat → α) (c : Nat) (x : State α) (dt : α) : State α :=
  postProcess cfg (stepRaw cfg sch F c x dt)

/-- the solver loop for a given list of accepted time steps -/
def run (cfg : Cfg α) (sch : Scheme) (F : Nat → State α → Nat → Nat → α) : Nat → State α → List α → State α
  | _, x, [] => x
  | c, x, dt :: r => run cfg sch F (c + calls sch) (step cfg sch F c x dt) r

/-! ### setup -/

/-- BoundaryConditions.applyBoundaryConditionsToInitialProfile: `x[e,0] = leftBC`, then `x[e,-1] = rightBC` -/
def applyBCInit (N : Nat) (bc : Nat → BC α) (x : State α) : State α := fun e i =>
  let v := if i = 0 then (match (bc e).ltype with | .comp => (bc e).lval | .flux => x e i) else x e i
  if i = N - 1 then (match (bc e).rtype with | .comp => (bc e).rval | .flux => v) else v

/-- `x[x > min] = x[x > min] - len(allElements)*min` -/
def shift (minC nAll v : α) : α := if minC < v then v - nAll * minC else v

/-- `x[x < min] = min` -/
def clampLo (minC v : α) : α := if v < minC then minC else v

def shiftClamp (minC nAll v : α) : α := clampLo minC (shift minC nAll v)

/-- `np.sum(x, axis=0)[i]` -/
def sumE (E : Nat) (x : State α) (i : Nat) : α := (List.range E).foldl (fun a e => a + x e i) 0

structure MState (α : Type) where
  x : State α
  isSetup : Bool

/-- `any(np.sum(x, axis=0) > 1)` -/
def sumExceeds (cfg : Cfg α) (x : State α) : Bool :=
  (List.range cfg.N).any (fun i => decide (1 < sumE cfg.E x i))

/-- Diffusion.setup.  `built` is what `buildProfile` writes into the zeroed array (only used by the
first call).  The sum check runs on every call; the shift/clamp to `minComposition` only on the
first one (the repaired code: the two lines are guarded by `if not self.isSetup`). -/
def setup (cfg : Cfg α) (built : State α) (s : MState α) : Except String (MState α) :=
  let x0 := if s.isSetup then s.x else applyBCInit cfg.N cfg.bc built
  if sumExceeds cfg x0 then
    .error "Some compositions sum up to above 1"
  else
    .ok { x := if s.isSetup then x0 else fun e i => shiftClamp cfg.minC cfg.nAll (x0 e i), isSetup := true }

/-- Diffusion.setup as it was before the repair: shift/clamp applied on every call. -/
def setupUnguarded (cfg : Cfg α) (built : State α) (s : MState α) : Except String (MState α) :=
  let x0 := if s.isSetup then s.x else applyBCInit cfg.N cfg.bc built
  if sumExceeds cfg x0 then
    .error "Some compositions sum up to above 1"
  else
    .ok { x := fun e i => shiftClamp cfg.minC cfg.nAll (x0 e i), isSetup := true }

/-- one `solve` call (GenericModel.solve): setup, then the solver loop; `c` counts flux evaluations.
An empty step list is a bare `setup()` call. -/
def solveCall (cfg : Cfg α) (sch : Scheme) (F : Nat → State α → Nat → Nat → α) (built : State α)
    (cs : Nat × MState α) (dts : List α) : Except String (Nat × MState α) :=
  match setup cfg built cs.2 with
  | .error m => .error m
  | .ok s => .ok (cs.1 + calls sch * dts.length, { x := run cfg sch F cs.1 s.x dts, isSetup := true })

/-- a history of consecutive `solve` calls on the same model object -/
def solves (cfg : Cfg α) (sch : Scheme) (F : Nat → State α → Nat → Nat → α) (built : State α) :
    Nat × MState α → List (List α) → Except String (Nat × MState α)
  | cs, [] => .ok cs
  | cs, dts :: r =>
    match solveCall cfg sch F built cs dts with
    | .error m => .error m
    | .ok cs' => solves cfg sch F built cs' r

/-! ### volume-fixed frame (Homogenization._getFluxes) -/

/-- `np.sum([f[i] for i in idx], axis=0)` -/
def sumOver (idx : List Nat) (f : Nat → α) : α := idx.foldl (fun a k => a + f k) 0

/-- `J_k - u_k * sum(J_j for j substitutional)` at one face; `J`, `u` indexed by all elements
(reference element first), `subst` the indices of the substitutional elements -/
def vflux (subst : List Nat) (J u : Nat → α) (k : Nat) : α := J k - u k * sumOver subst J

end generic

end KawinV.Diffusion
