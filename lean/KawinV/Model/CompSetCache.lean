/-
Hand-written executable model of the cache state machine of kawin's thermodynamics classes
(kawin/thermo/Thermodynamics.py, MultiTherm.py, LocalEquilibrium.py).  Core Lean only.

What is modelled is the code AROUND pycalphad: which composition sets / samples are kept between
queries, when they are handed back to the solver as a starting point, when they are discarded.
pycalphad itself is a parameter: `Env.solve c start` stands for one equilibrium calculation under
conditions `c`; `start = none` means "no composition sets supplied" (the callee builds its own start:
`Workspace` grid minimisation, or the pdens=10 minimum-energy point in `local_equilibrium`),
`start = some sets` means `Solver().solve(sets, c)` (LocalEquilibrium.py 63-65).  The result carries
the solver's numeric output (`out`: chemical potentials, solved state variables, …) and the composition
sets it leaves behind.  A composition set carries the state variables (GE, N, P, T) it was last
updated with (`CompositionSet.dof[:4]`).  The other pycalphad/numeric pieces (`calculate` sampling,
arg-max over samples, post-processing of a result into a diffusivity / driving force / curvature
factors) are parameters as well; nothing is assumed about any of them in this file.

Caches (Thermodynamics.py 101-111, MultiTherm.py 88-92):
  `_compset_cache_df[prec]`, `_matrix_cs`, `_points_cache[prec]` (tagged with the temperature the
  samples were computed at), `sampling_pDens`, `_diffusivity_cache[phase]`,
  `_compset_cache_curvature[prec]`, `_curvature_outputs[prec]`.
Every per-phase cache is a function of the phase key (`Ph → Option …`, updated with `upd`) exactly as the
code's dictionaries are keyed by `phase` / `precPhase`; `_matrix_cs` and the density are shared.
Ghost fields log, in order, every solver call (conditions + start) and every use of sampled
points (tag, temperature of the query) so that theorems can speak about all of them.

Aliasing.  `local_equilibrium` returns the very list it was given, its composition sets updated in
place; a cache slot that was passed in therefore holds the updated sets afterwards even when the
calling method returns early.  The model writes the result back into the slot at those places.

`Cfg.gOffsetFix`: the two-phase equilibrium of `_getCompositionSetsEq` is computed with
GE = gOffset (1 J/mol) on the fresh path (`getEq`, Thermodynamics.py 417) and — in the shipped
code — with GE = 0 on the cached path (`_update_composition_sets`, 986).  The repaired code uses
gOffset on both; `gOffsetFix = false` reproduces the shipped behaviour.

`setMethod`: the repaired `setDrivingForceMethod` empties `_compset_cache_df` (the list cached there
means [prec] to 'tangent' and [matrix, prec] to 'approximate'/'curvature'); the method itself is an
argument of the `df` query in this model.

Not modelled: `computeSearchDir=True` (curvatureFactor calling getDrivingForce itself),
`local_phase_sampling_conditions` (held fixed), BinaryThermodynamics interfacial composition
(stateless: one pycalphad workspace per call), impingementFactor, the switching of
`phase_records.models` in `_setupSubModels`.
-/
namespace KawinV.CompSetCache

/-- a composition set: whatever pycalphad keeps (`body`) + the state variables it was last updated with -/
structure CS (β σ : Type) where
  body : β
  sv : σ

/-- result of one solver call -/
structure Res (ρ β σ : Type) where
  out : ρ
  sets : List (CS β σ)

structure Cfg where
  gOffsetFix : Bool
deriving Repr, DecidableEq

def Cfg.fixed : Cfg := ⟨true⟩
def Cfg.shipped : Cfg := ⟨false⟩

/-- everything that is not kawin's cache logic -/
structure Env (Ph C β σ ρ τ π χ δ V D κ : Type) where
  /-- pycalphad -/
  solve : C → Option (List (CS β σ)) → Res ρ β σ
  /-- `[GE or 0, N, P, T]` of a condition dictionary (LocalEquilibrium.py 33-36) -/
  svOf : C → σ
  /-- matrix phase `self.phases[0]` -/
  matrix : Ph
  /-- `getLocalEq(x, T, 0, [phase])`: single phase, GE = 0 -/
  condLocal : χ → τ → Ph → C
  /-- tangent method: `{T, P, N, MU(e) = matrix chemical potentials}` on `[prec]` (Thermodynamics.py 868-870) -/
  condMu : τ → ρ → Ph → C
  /-- two-phase equilibrium `[matrix, prec]` at (x, T) with GE = gOffset (`true`) or 0 (`false`) -/
  condEq : χ → τ → Ph → Bool → C
  /-- `getEq(x, T, gExtra, prec)` of the multicomponent interfacial composition (GE = gExtra + gOffset) -/
  condIC : χ → τ → τ → Ph → C
  /-- `not any(isnan(chemical_potentials))` -/
  valid : ρ → Bool
  /-- `calculate(..., pdens, T)`: samples of the precipitate phase -/
  sample : τ → Nat → Ph → π
  /-- arg-max of the sampled driving force: value and a composition set at the best sample -/
  pick : π → ρ → τ → δ × CS β σ
  /-- `np.allclose(xb, matrix composition, 1e-6)` (Thermodynamics.py 896-897) -/
  degenerate : List (CS β σ) → List (CS β σ) → Bool
  /-- `_process_composition_sets`: first matrix set, first precipitate set, miscibility gap? -/
  split : List (CS β σ) → Ph → Option (CS β σ) × Option (CS β σ) × Bool
  /-- `0.5*a + 0.5*b` on compositions -/
  mid : χ → χ → χ
  dfOfSample : δ → CS β σ → V
  dfOfTangent : Res ρ β σ → V
  dfOfApprox : CS β σ → ρ → ρ → V
  dfOfCurv : χ → ρ → CS β σ → CS β σ → V
  /-- `_curvatureFactorFromEq`; the last argument is the previous output (its `beta` is reused when the
  impingement sum is exactly 0, MultiTherm.py 262-263) -/
  curvOf : ρ → CS β σ → CS β σ → Option κ → κ

section
variable {Ph C β σ ρ τ π χ δ V D κ : Type} [DecidableEq Ph] [DecidableEq τ]

def upd {γ : Type} (f : Ph → γ) (p : Ph) (v : γ) : Ph → γ := fun q => if q = p then v else f q

structure State (Ph C β σ τ π κ : Type) where
  dfCache : Ph → Option (List (CS β σ))
  matrixCs : Option (List (CS β σ))
  points : Ph → Option (τ × π)
  dens : Nat
  diffCache : Ph → Option (List (CS β σ))
  curvCache : Ph → Option (List (CS β σ))
  curvOut : Ph → Option κ
  /-- ghost: every solver call so far -/
  calls : List (C × Option (List (CS β σ)))
  /-- ghost: every use of sampled points so far: (tag of the samples, temperature of the query) -/
  used : List (τ × τ)
  /-- ghost: every `calculate` sampling so far: (temperature, density) -/
  sampled : List (τ × Nat)

/-- a freshly constructed object with sampling density `d` -/
def fresh (d : Nat) : State Ph C β σ τ π κ :=
  ⟨fun _ => none, none, fun _ => none, d, fun _ => none, fun _ => none, fun _ => none, [], [], []⟩

abbrev St (Ph C β σ τ π κ : Type) := State Ph C β σ τ π κ

variable (E : Env Ph C β σ ρ τ π χ δ V D κ) (cfg : Cfg)

/-- one pycalphad call, logged -/
def callSolve (s : St Ph C β σ τ π κ) (c : C) (start : Option (List (CS β σ))) :
    Res ρ β σ × St Ph C β σ τ π κ :=
  (E.solve c start, { s with calls := s.calls ++ [(c, start)] })

/-- `local_equilibrium(..., conds, composition_sets=cached)`: supplied sets get the state variables
of the current conditions before the solver sees them (LocalEquilibrium.py 55-59) -/
def localEq (s : St Ph C β σ τ π κ) (c : C) (cached : Option (List (CS β σ))) :
    Res ρ β σ × St Ph C β σ τ π κ :=
  callSolve E s c (cached.map (fun sets => sets.map (fun cs => { cs with sv := E.svOf c })))

/-- the sampled points for `prec` at `T` (Thermodynamics.py 1054-1068): reuse only when the tag equals T -/
def getSamples (s : St Ph C β σ τ π κ) (p : Ph) (T : τ) : π × St Ph C β σ τ π κ :=
  match s.points p with
  | some (tag, pts) =>
    if tag = T then (pts, { s with used := s.used ++ [(tag, T)] })
    else
      let pts := E.sample T s.dens p
      (pts, { s with points := upd s.points p (some (T, pts)), used := s.used ++ [(T, T)],
                     sampled := s.sampled ++ [(T, s.dens)] })
  | none =>
    let pts := E.sample T s.dens p
    (pts, { s with points := upd s.points p (some (T, pts)), used := s.used ++ [(T, T)],
                   sampled := s.sampled ++ [(T, s.dens)] })

/-- `_getPrecCompositionSetSamplingDF` -/
def sampleDF (s : St Ph C β σ τ π κ) (p : Ph) (T : τ) (mu : ρ) : (δ × CS β σ) × St Ph C β σ τ π κ :=
  let r := getSamples E s p T
  (E.pick r.1 mu T, r.2)

/-- `_resetDrivingForceCache` -/
def resetDF (s : St Ph C β σ τ π κ) (p : Ph) (rm : Bool) : St Ph C β σ τ π κ :=
  if rm then { s with dfCache := upd s.dfCache p none, matrixCs := none, points := upd s.points p none } else s

/-- matrix-only local equilibrium, kept in `_matrix_cs` (first statement of the driving-force methods) -/
def matrixEq (s : St Ph C β σ τ π κ) (x : χ) (T : τ) : Res ρ β σ × St Ph C β σ τ π κ :=
  let r := localEq E s (E.condLocal x T E.matrix) s.matrixCs
  (r.1, { r.2 with matrixCs := some r.1.sets })

/-- `_getDrivingForceSampling` -/
def dfSampling (s : St Ph C β σ τ π κ) (x : χ) (T : τ) (p : Ph) (rm : Bool) : Option V × St Ph C β σ τ π κ :=
  let r := matrixEq E s x T
  if E.valid r.1.out then
    let q := sampleDF E r.2 p T r.1.out
    (some (E.dfOfSample q.1.1 q.1.2), resetDF q.2 p rm)
  else (none, r.2)

/-- tangent method, Thermodynamics.py 872-875: no precipitate composition set cached for `prec` →
find one by sampling and cache it -/
def ensurePrecSet (s : St Ph C β σ τ π κ) (p : Ph) (T : τ) (mu : ρ) : St Ph C β σ τ π κ :=
  match s.dfCache p with
  | some _ => s
  | none =>
    let q := sampleDF E s p T mu
    { q.2 with dfCache := upd q.2.dfCache p (some [q.1.2]) }

/-- tangent method after a valid matrix equilibrium `r` (Thermodynamics.py 866-908) -/
def dfTangentTail (s : St Ph C β σ τ π κ) (r : Res ρ β σ) (x : χ) (T : τ) (p : Ph) (rm : Bool) :
    Option V × St Ph C β σ τ π κ :=
  let s1 := ensurePrecSet E s p T r.out
  let r2 := localEq E s1 (E.condMu T r.out p) (s1.dfCache p)
  -- aliasing: the cached list was updated in place
  let s2 : St Ph C β σ τ π κ := { r2.2 with dfCache := upd r2.2.dfCache p (some r2.1.sets) }
  if E.valid r2.1.out then
    if E.degenerate r2.1.sets r.sets then
      dfSampling E { s2 with dfCache := upd s2.dfCache p none } x T p rm
    else
      (some (E.dfOfTangent r2.1), resetDF s2 p rm)
  else (none, s2)

/-- `_getDrivingForceTangent` -/
def dfTangent (s : St Ph C β σ τ π κ) (x : χ) (T : τ) (p : Ph) (rm : Bool) : Option V × St Ph C β σ τ π κ :=
  let r := matrixEq E s x T
  if E.valid r.1.out then dfTangentTail E r.2 r.1 x T p rm else (none, r.2)

/-- `_update_composition_sets` inside `_getCompositionSetsEq` -/
def updateSets (s : St Ph C β σ τ π κ) (x : χ) (T : τ) (p : Ph) (sets : List (CS β σ)) :
    Res ρ β σ × St Ph C β σ τ π κ :=
  localEq E s (E.condEq x T p cfg.gOffsetFix) (some sets)

/-- `_getCompositionSetsEq` after its first equilibrium `r` (Thermodynamics.py 1002-1015) -/
def compSetsTail (r : Res ρ β σ) (s : St Ph C β σ τ π κ) (x : χ) (T : τ) (p : Ph) :
    Option (ρ × Option (CS β σ) × Option (CS β σ)) × St Ph C β σ τ π κ :=
  let sp := E.split r.sets p
  if E.valid r.out then
    match sp.1, sp.2.1 with
    | some m, some pr =>
      if sp.2.2 then
        let r' := updateSets E cfg s x T p [m, pr]
        let sp' := E.split r'.1.sets p
        (some (r'.1.out, sp'.1, sp'.2.1), r'.2)
      else (some (r.out, some m, some pr), s)
    | m, pr => (some (r.out, m, pr), s)
  else (none, s)

/-- first equilibrium of `_getCompositionSetsEq`: global (`getEq`, GE = 0 + gOffset) without cached
sets, otherwise the cached sets updated to the new conditions -/
def compSetsHead (s : St Ph C β σ τ π κ) (x : χ) (T : τ) (p : Ph) (cached : Option (List (CS β σ))) :
    Res ρ β σ × St Ph C β σ τ π κ :=
  match cached with
  | none => callSolve E s (E.condEq x T p true) none
  | some sets => updateSets E cfg s x T p sets

/-- `_getCompositionSetsEq(x, T, prec, {prec: cached})`; returns chemical potentials and the matrix /
precipitate sets (either may be missing), `none` for an unconverged equilibrium; third component:
the list the cache slot aliases afterwards (`none` when no cached list was passed in) -/
def compSetsEq (s : St Ph C β σ τ π κ) (x : χ) (T : τ) (p : Ph) (cached : Option (List (CS β σ))) :
    Option (ρ × Option (CS β σ) × Option (CS β σ)) × St Ph C β σ τ π κ × Option (List (CS β σ)) :=
  let r := compSetsHead E cfg s x T p cached
  let t := compSetsTail E cfg r.1 r.2 x T p
  (t.1, t.2, cached.map (fun _ => r.1.sets))

/-- `_searchForTwoPhaseEq` with a search direction: bisect between x and the direction until both
phases are stable (at most `fuel` = 15 equilibria, all computed without cached sets) -/
def search (x : χ) (T : τ) (p : Ph) (dir : χ) :
    Nat → χ → St Ph C β σ τ π κ → Option (ρ × CS β σ × CS β σ) × St Ph C β σ τ π κ
  | 0, _, s => (none, s)
  | n + 1, cur, s =>
    let e := compSetsEq E cfg s cur T p none
    match e.1 with
    | none => (none, e.2.1)
    | some (mu, some m, some pr) => (some (mu, m, pr), e.2.1)
    | some (_, _, none) => search x T p dir n (E.mid cur dir) e.2.1
    | some (_, none, some _) => search x T p dir n (E.mid cur x) e.2.1

/-- `_process_invalid_eq`: nothing usable at (x, T) — fall back on the PREVIOUS output if a cached
equilibrium exists (MultiTherm.py 309-316) -/
def curvInvalid (s : St Ph C β σ τ π κ) (p : Ph) (rm : Bool) : Option κ × St Ph C β σ τ π κ :=
  let s' : St Ph C β σ τ π κ := if rm then { s with curvCache := upd s.curvCache p none } else s
  match s'.curvCache p with
  | none => (none, s')
  | some _ => (s'.curvOut p, s')

/-- MultiTherm.py 341-342 + `_curvatureFactorFromEq` -/
def curvFinish (s : St Ph C β σ τ π κ) (p : Ph) (rm : Bool) (mu : ρ) (m pr : CS β σ) :
    Option κ × St Ph C β σ τ π κ :=
  let k := E.curvOf mu m pr (s.curvOut p)
  (some k, { s with curvCache := upd s.curvCache p (if rm then none else some [m, pr]),
                    curvOut := upd s.curvOut p (some k) })

/-- aliasing: a cached list that was passed to `_getCompositionSetsEq` has been updated in place -/
def aliasCurv (s : St Ph C β σ τ π κ) (p : Ph) (l : Option (List (CS β σ))) : St Ph C β σ τ π κ :=
  match l with
  | some l => { s with curvCache := upd s.curvCache p (some l) }
  | none => s

/-- `curvatureFactor(x, T, prec, removeCache, searchDir)` -/
def curvature (s : St Ph C β σ τ π κ) (x : χ) (T : τ) (p : Ph) (rm : Bool) (dir : Option χ) :
    Option κ × St Ph C β σ τ π κ :=
  let e := compSetsEq E cfg s x T p (s.curvCache p)
  let s1 := aliasCurv e.2.1 p e.2.2
  match e.1 with
  | none => curvInvalid s1 p rm
  | some (mu, some m, some pr) => curvFinish E s1 p rm mu m pr
  | some (_, _, _) =>
    match dir with
    | none => curvInvalid s1 p rm
    | some d =>
      let f := search E cfg x T p d 15 (E.mid x d) s1
      match f.1 with
      | none => curvInvalid f.2 p rm
      | some (mu, m, pr) => curvFinish E f.2 p rm mu m pr

/-- `_getCompositionSetsForDF` + the 'approximate' / 'curvature' driving-force methods -/
def dfEqBased (approx : Bool) (s : St Ph C β σ τ π κ) (x : χ) (T : τ) (p : Ph) (rm : Bool) :
    Option V × St Ph C β σ τ π κ :=
  let e := compSetsEq E cfg s x T p (s.dfCache p)
  match e.1 with
  | some (mu, some m, some pr) =>
    let s1 : St Ph C β σ τ π κ := { e.2.1 with dfCache := upd e.2.1.dfCache p (some [m, pr]) }
    if approx then
      let r := matrixEq E s1 x T
      if E.valid r.1.out then (some (E.dfOfApprox pr r.1.out mu), resetDF r.2 p rm) else (none, r.2)
    else (some (E.dfOfCurv x mu m pr), resetDF s1 p rm)
  | _ => dfSampling E { e.2.1 with dfCache := upd e.2.1.dfCache p none } x T p rm

/-- `_interdiffusivitySingle` / `_tracerDiffusivitySingle` (they share `_diffusivity_cache`) -/
def diffSingle (post : Res ρ β σ → D) (s : St Ph C β σ τ π κ) (x : χ) (T : τ) (ph : Ph) (rm : Bool) :
    D × St Ph C β σ τ π κ :=
  let r := localEq E s (E.condLocal x T ph) (s.diffCache ph)
  (post r.1, { r.2 with diffCache := upd r.2.diffCache ph (if rm then none else some r.1.sets) })

/-- `MulticomponentThermodynamics._interfacialComposition`: a global equilibrium, no cache -/
def interfacialMulti (s : St Ph C β σ τ π κ) (x : χ) (T ge : τ) (p : Ph) : Res ρ β σ × St Ph C β σ τ π κ :=
  callSolve E s (E.condIC x T ge p) none

/-- `setDFSamplingDensity` -/
def setDens (s : St Ph C β σ τ π κ) (d : Nat) : St Ph C β σ τ π κ :=
  { s with points := fun _ => none, dens := d }

/-- `clearCache` (the multicomponent override included; `_curvature_outputs` is NOT reset by it) -/
def clearCache (s : St Ph C β σ τ π κ) : St Ph C β σ τ π κ :=
  { s with dfCache := fun _ => none, matrixCs := none, points := fun _ => none,
           diffCache := fun _ => none, curvCache := fun _ => none }

/-- `setDrivingForceMethod` (repaired code): the list cached in `_compset_cache_df` means different
things to the different methods ([prec] for 'tangent', [matrix, prec] for 'approximate'/'curvature'),
so changing the method empties it.  The method itself is an argument of the `df` query here. -/
def setMethod (s : St Ph C β σ τ π κ) : St Ph C β σ τ π κ :=
  { s with dfCache := fun _ => none }

inductive DFMethod where
  | tangent | sampling | approximate | curvature
deriving Repr, DecidableEq

/-- `self._drivingForce(x, T, prec, removeCache)` for the configured method -/
def drivingForce (m : DFMethod) (s : St Ph C β σ τ π κ) (x : χ) (T : τ) (p : Ph) (rm : Bool) :
    Option V × St Ph C β σ τ π κ :=
  match m with
  | .tangent => dfTangent E s x T p rm
  | .sampling => dfSampling E s x T p rm
  | .approximate => dfEqBased E cfg true s x T p rm
  | .curvature => dfEqBased E cfg false s x T p rm

/-- one public single-point call -/
inductive Query (Ph τ χ : Type) where
  | interdiff (x : χ) (T : τ) (ph : Ph) (rm : Bool)
  | tracer (x : χ) (T : τ) (ph : Ph) (rm : Bool)
  | df (m : DFMethod) (x : χ) (T : τ) (p : Ph) (rm : Bool)
  | curv (x : χ) (T : τ) (p : Ph) (rm : Bool) (dir : Option χ)
  | ic (x : χ) (T ge : τ) (p : Ph)
  | setDens (d : Nat)
  | clear
  | setMethod

/-- what a call returns -/
inductive Ans (ρ β σ V D κ : Type) where
  | diff (d : D)
  | df (v : Option V)
  | curv (k : Option κ)
  | ic (r : Res ρ β σ)
  | unit

/-- run one call (`interPost`/`tracerPost`: the post-processing of the two diffusivity queries) -/
def runQuery (interPost tracerPost : Res ρ β σ → D) (s : St Ph C β σ τ π κ) :
    Query Ph τ χ → Ans ρ β σ V D κ × St Ph C β σ τ π κ
  | .interdiff x T ph rm => let r := diffSingle E interPost s x T ph rm; (.diff r.1, r.2)
  | .tracer x T ph rm => let r := diffSingle E tracerPost s x T ph rm; (.diff r.1, r.2)
  | .df m x T p rm => let r := drivingForce E cfg m s x T p rm; (.df r.1, r.2)
  | .curv x T p rm dir => let r := curvature E cfg s x T p rm dir; (.curv r.1, r.2)
  | .ic x T ge p => let r := interfacialMulti E s x T ge p; (.ic r.1, r.2)
  | .setDens d => (.unit, setDens s d)
  | .clear => (.unit, clearCache s)
  | .setMethod => (.unit, setMethod s)

/-- a whole history -/
def runAll (interPost tracerPost : Res ρ β σ → D) (s : St Ph C β σ τ π κ) :
    List (Query Ph τ χ) → St Ph C β σ τ π κ
  | [] => s
  | q :: r => runAll interPost tracerPost (runQuery E cfg interPost tracerPost s q).2 r

end

end KawinV.CompSetCache
