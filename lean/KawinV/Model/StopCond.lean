/-
Hand-written executable model of kawin's precipitation stopping conditions:

  kawin/precipitation/StoppingConditions.py   PrecipitationStoppingCondition (latch, `_poll`,
                                              `_testCondition`, `testCondition`, `reset`) and the
                                              six concrete conditions (`_getData` / `_poll`)
  kawin/precipitation/KWNBase.py              `phaseIndex` 79-88, `reset` 102-104,
                                              `addStoppingCondition` 458-474, the and/or
                                              combination of `postProcess` 613-629
  kawin/solver/Solver.py                      the `while currTime < tf and not stop` loop 196-217
  kawin/precipitation/TimeTemperaturePrecipitation.py   `_getStopTime` 30-47

Core Lean only; generic scalar `α`.  The model follows the code *after* the two repairs recorded
in known_findings.txt (the conditions read `model.pData.n` / `model.pData.time`; a condition
that already holds on the previous row reports that row's time instead of extrapolating).

`pData` arrays are index functions: row = iteration, column = phase (element for composition).
-/
namespace KawinV.StopCond

/-- the monitored quantity = which `pData` array `_getData` / `_poll` names -/
inductive Quantity where
  | volFrac        -- VolumeFractionCondition      pData.volFrac
  | radius         -- AverageRadiusCondition       pData.Ravg
  | drivingForce   -- DrivingForceCondition        pData.drivingForce
  | nucRate        -- NucleationRateCondition      pData.nucRate
  | density        -- PrecipitateDensityCondition  pData.precipitateDensity
  | composition    -- CompositionCondition         pData.composition  (column = element)
  deriving DecidableEq, Repr

/-- `Inequality.GREATER_THAN` / `Inequality.LESSER_THAN` -/
inductive Dir where
  | gt | lt
  deriving DecidableEq, Repr

/-- what the conditions read of `model.pData` -/
structure PData (α : Type) where
  time : Nat → α
  volFrac : Nat → Nat → α
  Ravg : Nat → Nat → α
  drivingForce : Nat → Nat → α
  nucRate : Nat → Nat → α
  precipitateDensity : Nat → Nat → α
  composition : Nat → Nat → α

/-- `_getData` (and the array named in `CompositionCondition._poll`) -/
def PData.array {α : Type} (d : PData α) : Quantity → Nat → Nat → α
  | .volFrac => d.volFrac
  | .radius => d.Ravg
  | .drivingForce => d.drivingForce
  | .nucRate => d.nucRate
  | .density => d.precipitateDensity
  | .composition => d.composition

/-- first position of a name: `np.where(self.phases == phase)[0][0]`, `model.elements.index(el)`;
`none` = the Python call raises (IndexError / ValueError) -/
def indexOf (s : String) : List String → Option Nat
  | [] => none
  | x :: xs => if x = s then some 0 else (indexOf s xs).map (· + 1)

/-- `phaseIndex(phase)` / `0 if self._element is None else model.elements.index(...)` -/
def column (names : List String) (sel : Option String) : Option Nat :=
  match sel with
  | none => some 0
  | some s => indexOf s names

/-- the five phase conditions look their name up in `model.phases`,
the composition condition looks its name up in `model.elements` -/
def columnOf (phases elements : List String) (q : Quantity) (sel : Option String) : Option Nat :=
  match q with
  | .composition => column elements sel
  | _ => column phases sel

/-- a stopping condition with its selector already resolved to a column -/
structure Cond (α : Type) where
  q : Quantity
  dir : Dir
  value : α
  col : Nat

/-- `_isSatisfied`, `_satisfiedTime` -/
structure Latch (α : Type) where
  sat : Bool
  time : α

section generic
variable {α : Type} [Add α] [Sub α] [Mul α] [Div α] [Neg α] [One α] [LT α] [DecidableLT α]

/-- `reset()` / `__init__`: not satisfied, time −1 -/
def Latch.clear : Latch α := ⟨false, -(1 : α)⟩

/-- `_poll(model, n)`: row n, column phase/element of the named array -/
def poll (d : PData α) (c : Cond α) (n : Nat) : α := d.array c.q n c.col

/-- `_testCondition`: `x > value` for GREATER_THAN, `x < value` otherwise -/
def holds (dir : Dir) (value x : α) : Bool :=
  match dir with
  | .gt => decide (value < x)
  | .lt => decide (x < value)

/-- `(currTime - prevTime) * (value - prevVal) / (currVal - prevVal) + prevTime` -/
def crossTime (tp tc vp vc value : α) : α := (tc - tp) * (value - vp) / (vc - vp) + tp

/-- `testCondition(model)` with `model.pData.n = n`.
A satisfied latch is left alone.  Otherwise the current row is compared with the threshold;
on success the reported time is the linear interpolant between rows n-1 and n when there is a
previous row on which the condition did *not* hold, and the time of the earliest row known to
satisfy it (`time[max(n-1, 0)]`) when there is no crossing to interpolate. -/
def test (d : PData α) (n : Nat) (c : Cond α) (l : Latch α) : Latch α :=
  if l.sat then l
  else if holds c.dir c.value (poll d c n) then
    if 0 < n ∧ holds c.dir c.value (poll d c (n-1)) = false then
      ⟨true, crossTime (d.time (n-1)) (d.time n) (poll d c (n-1)) (poll d c n) c.value⟩
    else
      ⟨true, d.time (n-1)⟩      -- Nat subtraction: row 0 when n = 0
  else ⟨false, l.time⟩

/-- the latch of one condition after `testCondition` at steps 1..k (what a run does) -/
def latchAt (d : PData α) (c : Cond α) (l : Latch α) : Nat → Latch α
  | 0 => l
  | k+1 => test d (k+1) c (latchAt d c l k)

/-- one entry of `_stoppingConditions` / `_stopConditionMode` (True = 'or') with its latch -/
structure Entry (α : Type) where
  c : Cond α
  isOr : Bool
  l : Latch α

/-- the loop body of `postProcess` 617-618: every condition is tested, in order -/
def testAll (d : PData α) (n : Nat) (es : List (Entry α)) : List (Entry α) :=
  es.map (fun e => { e with l := test d n e.c e.l })

/-- the accumulation of `postProcess` 614-623: (orCondition, andCondition, numAndCondition) -/
def accumulate (es : List (Entry α)) : Bool × Bool × Nat :=
  es.foldl (fun acc e =>
      if e.isOr then (acc.1 || e.l.sat, acc.2.1, acc.2.2)
      else (acc.1, acc.2.1 && e.l.sat, acc.2.2 + 1))
    (false, true, 0)

/-- `stop` of `postProcess` 625-629 -/
def stopFlag (es : List (Entry α)) : Bool :=
  let r := accumulate es
  r.1 || (if r.2.2 = 0 then false else r.2.1)

/-- all conditions after steps 1..k with nothing stopping the run -/
def evolve (d : PData α) (es : List (Entry α)) : Nat → List (Entry α)
  | 0 => es
  | k+1 => testAll d (k+1) (evolve d es k)

/-- `DESolver.solve`: `while currTime < tf and not stop` — `d.time k` is the time after k steps
(row k of pData), step k+1 appends row k+1 and `postProcess` tests the conditions on it.
Returns (last row, stopped early, entries).  `fuel` bounds the number of steps. -/
def run (d : PData α) (tf : α) : Nat → Nat → List (Entry α) → Nat × Bool × List (Entry α)
  | 0, k, es => (k, false, es)
  | f+1, k, es =>
    if d.time k < tf then
      let es' := testAll d (k+1) es
      if stopFlag es' then (k+1, true, es') else run d tf f (k+1) es'
    else (k, false, es)

/-- `KWNBase.reset` 102-104: every condition is reset, the list and the modes stay -/
def resetAll (es : List (Entry α)) : List (Entry α) :=
  es.map (fun e => { e with l := Latch.clear })

/-- `TTPCalculator.__init__` registers every condition with mode 'and' -/
def ttpEntries (cs : List (Cond α)) (ls : List (Latch α)) : List (Entry α) :=
  List.zipWith (fun c l => ⟨c, false, l⟩) cs ls

/-- `TTPCalculator._getStopTime`: `reset(); setTemperature(T); solve(maxTime)`, then the
`satisfiedTime()` of every condition.  `d` is the history of the run at that temperature. -/
def ttpTimes (d : PData α) (tf : α) (fuel : Nat) (es : List (Entry α)) : List α :=
  (run d tf fuel 0 (resetAll es)).2.2.map (fun e => e.l.time)

end generic

/-! ### registration state: which conditions one model holds, through any history of
`addStoppingCondition` / `clearStoppingConditions` / `reset` / `solve` / `TTPCalculator(model, conds)`

The condition *objects* live outside the model (the user or the TTP calculator holds them): object
`i` of the pool has the fixed condition `conds i` and the latch `latches i`.  The model holds
references to them in `_stoppingConditions` (here: pool indices) with `_stopConditionMode` side by
side (True = 'or').  KWNBase.py: `addStoppingCondition` 458-474 appends to both lists,
`clearStoppingConditions` 476-481 empties both, `reset` 102-104 resets the latches of the objects
that are registered *now*, `postProcess` 613-629 loops over the registered list only and counts the
and-conditions in that loop; TimeTemperaturePrecipitation.py 24-28: the constructor clears the
model's list and then adds each of its conditions with mode 'and'. -/

/-- what the user configured for one population balance model (PopulationBalance.py 53-69, KWNEuler.py
`setPBMParameters` 71-99, `setPSDrecording` 101-119): `originalMin`, `originalMax`, `originalBins`, `minBins`,
`maxBins`, `_adaptiveBinSize`, `_record` -/
structure PBMCfg (α : Type) where
  cMin : α
  cMax : α
  bins : Nat
  minBins : Nat
  maxBins : Nat
  adaptive : Bool
  record : Bool

/-- one `PopulationBalanceModel`: its configuration and the grid in use (`min`, `max`, `bins`; a run re-meshes it) -/
structure PBMState (α : Type) where
  cfg : PBMCfg α
  gMin : α
  gMax : α
  gBins : Nat

/-- `PopulationBalanceModel(cMin, cMax, bins, minBins, maxBins)`: the grid is the configured one -/
def PBMState.ofCfg {α : Type} (c : PBMCfg α) : PBMState α := ⟨c, c.cMin, c.cMax, c.bins⟩

/-- `PopulationBalanceModel.reset()` 71-92: back to `originalMin`, `originalMax`, `originalBins`; nothing else of the
configuration is touched -/
def PBMState.reset {α : Type} (p : PBMState α) : PBMState α :=
  { p with gMin := p.cfg.cMin, gMax := p.cfg.cMax, gBins := p.cfg.bins }

/-- the run re-meshed the grid of the p-th population balance model -/
def regridAt {α : Type} (mn mx : α) (b : Nat) : Nat → List (PBMState α) → List (PBMState α)
  | _, [] => []
  | 0, x :: xs => { x with gMin := mn, gMax := mx, gBins := b } :: xs
  | p+1, x :: xs => x :: regridAt mn mx b p xs

/-- everything a stopping decision of the model can depend on, and the population balance models (`self.PBM`, one per
phase) that `reset()` must leave configured as they are -/
structure Reg (α : Type) where
  latches : Nat → Latch α        -- latch of pool object i
  reg : List (Nat × Bool)        -- (`_stoppingConditions[j]` as pool index, `_stopConditionMode[j]`)
  pbm : List (PBMState α) := []  -- `self.PBM`

/-- one call made on the model (or the construction of a TTP calculator on it) -/
inductive Op (α : Type) where
  | add (i : Nat) (isOr : Bool)                       -- addStoppingCondition(obj_i, 'or' | 'and')
  | clear                                             -- clearStoppingConditions()
  | reset                                             -- reset()
  | solve (d : PData α) (tf : α) (fuel k0 : Nat)      -- solve(...) entered at row k0, history d, end time tf
  | ttpInit (is : List Nat)                           -- TTPCalculator(model, [obj_i for i in is])
  | setPBM (cfgs : List (PBMCfg α))                   -- setPBMParameters / setPSDrecording: new PBM objects, one per phase
  | regrid (p : Nat) (mn mx : α) (bins : Nat)         -- what a run did to the grid of PBM p (an input, like the history)

section registration
variable {α : Type} [Add α] [Sub α] [Mul α] [Div α] [Neg α] [One α] [LT α] [DecidableLT α]

/-- a new model: nothing registered; new condition objects: clear -/
def Reg.fresh : Reg α := { latches := fun _ => Latch.clear, reg := [] }

def Reg.add (s : Reg α) (i : Nat) (isOr : Bool) : Reg α := { s with reg := s.reg ++ [(i, isOr)] }

def Reg.clear (s : Reg α) : Reg α := { s with reg := [] }

/-- `TTPCalculator.__init__`: `clearStoppingConditions()`, then every condition with mode 'and' -/
def Reg.ttpInit (s : Reg α) (is : List Nat) : Reg α := is.foldl (fun s i => s.add i false) s.clear

/-- what `postProcess` loops over: the registered objects, in order, with their modes and their
current latches -/
def Reg.entries (conds : Nat → Cond α) (s : Reg α) : List (Entry α) :=
  s.reg.map (fun r => ⟨conds r.1, r.2, s.latches r.1⟩)

/-- the objects keep the latches the run gave them (an object registered twice is tested twice per
step; `test` is idempotent on a row, so both entries carry the same latch — the first is taken) -/
def Reg.writeBack (s : Reg α) (es : List (Entry α)) : Reg α :=
  { s with latches := fun i =>
      match (s.reg.zip es).find? (fun p => p.1.1 == i) with
      | some p => p.2.l
      | none => s.latches i }

/-- `PrecipitateModel.reset` (KWNEuler.py 37-48) over `KWNBase.reset` 90-104:
`for sc in self._stoppingConditions: sc.reset()` — only the registered objects — and the configured population balance
models are KEPT (`PBM = self.PBM; super().reset(); self.PBM = PBM`) and each is reset to its own configured grid -/
def Reg.resetModel (s : Reg α) : Reg α :=
  { s with latches := fun i => if s.reg.any (fun r => r.1 == i) then Latch.clear else s.latches i,
           pbm := s.pbm.map PBMState.reset }

/-- `solve`: the loop of `run` over the registered entries; returns (last row, stopped early, state) -/
def Reg.solve (conds : Nat → Cond α) (s : Reg α) (d : PData α) (tf : α) (fuel k0 : Nat) :
    Nat × Bool × Reg α :=
  let r := run d tf fuel k0 (s.entries conds)
  (r.1, r.2.1, s.writeBack r.2.2)

def Reg.step (conds : Nat → Cond α) (s : Reg α) : Op α → Reg α
  | .add i o => s.add i o
  | .clear => s.clear
  | .reset => s.resetModel
  | .solve d tf fuel k0 => (s.solve conds d tf fuel k0).2.2
  | .ttpInit is => s.ttpInit is
  | .setPBM cfgs => { s with pbm := cfgs.map PBMState.ofCfg }
  | .regrid p mn mx b => { s with pbm := regridAt mn mx b p s.pbm }

/-- the state after a whole history of calls -/
def Reg.after (conds : Nat → Cond α) (s : Reg α) (ops : List (Op α)) : Reg α :=
  ops.foldl (Reg.step conds) s

/-- does this call register an and-condition? -/
def Op.addsAnd : Op α → Bool
  | .add _ false => true
  | .ttpInit _ => true
  | _ => false

/-- `TTPCalculator._getStopTime` on the registration state: `reset(); setTemperature(T); solve(maxTime)`
and then `satisfiedTime()` of each of the calculator's own objects `is` -/
def Reg.ttpStopTimes (conds : Nat → Cond α) (s : Reg α) (is : List Nat) (d : PData α) (tf : α) (fuel : Nat) :
    List α × Reg α :=
  let s' := (s.resetModel.solve conds d tf fuel 0).2.2
  (is.map (fun i => (s'.latches i).time), s')

/-! #### two variants that are NOT the code (used for the witness theorems of Props/C19) -/

/-- variant of `stopFlag` that takes the number of and-conditions from a separately kept counter
instead of counting them in the loop -/
def stopFlagCnt (numAnd : Nat) (es : List (Entry α)) : Bool :=
  let r := accumulate es
  r.1 || (if numAnd = 0 then false else r.2.1)

/-- that counter through a history when only the registering calls maintain it (incremented for
every and-condition added, never taken back by `clear`) -/
def staleCount (n : Nat) : List (Op α) → Nat
  | [] => n
  | .add _ false :: ops => staleCount (n + 1) ops
  | .ttpInit is :: ops => staleCount (n + is.length) ops
  | _ :: ops => staleCount n ops

/-- variant of `reset()` in which `_resetArrays` REPLACES every population balance model by a default-constructed one
(what the code did before repair 9231d6f) -/
def Reg.resetModelDefault (dflt : PBMCfg α) (s : Reg α) : Reg α :=
  { s with latches := fun i => if s.reg.any (fun r => r.1 == i) then Latch.clear else s.latches i,
           pbm := s.pbm.map (fun _ => PBMState.ofCfg dflt) }

/-- variant of the TTP constructor that keeps what the model holds and only appends the objects
that are not registered yet -/
def Reg.ttpInitKeep (s : Reg α) (is : List Nat) : Reg α :=
  is.foldl (fun s i => if s.reg.any (fun r => r.1 == i) then s else s.add i false) s

end registration

/-! ### coupled runs: several models solved together through `kawin.GenericModel.Coupler`

GenericModel.py 453-465, `Coupler.postProcess`:

    stop = False
    for m, xsub in zip(self.models, x):
        xnew_sub, s = m.postProcess(time, xsub)
        stop = stop or s
    ...
    return xNew, stop

Every coupled model's `postProcess` is called on every step, in list order; a precipitation model tests
its own registered conditions on its own `pData` row and returns its own stop flag (`stopFlag`), any
other model (GrainGrowthModel, the `GenericModel` default) returns `False`.  The `DESolver` loop sees
the combined flag only. -/
section coupled
variable {α : Type} [Add α] [Sub α] [Mul α] [Div α] [Neg α] [One α] [LT α] [DecidableLT α]

/-- `stop = False; for ...: stop = stop or s` over the flags the coupled models returned, in list order -/
def couplerStop (flags : List Bool) : Bool := flags.foldl (fun stop s => stop || s) false

/-- NOT the code (witness of Props/C19): the flag is unpacked straight into `stop`
(`xnew_sub, stop = m.postProcess(...)`), so every model overwrites the flag of the one before -/
def couplerStopLast (flags : List Bool) : Bool := flags.foldl (fun _ s => s) false

/-- one coupled model, as far as stopping goes -/
inductive CModel (α : Type) where
  | prec (d : PData α) (es : List (Entry α))   -- a precipitation model: its own history and registered conditions
  | other                                       -- a model whose `postProcess` returns `x, False`

/-- `m.postProcess(time, xsub)` on row n: (the model afterwards, the flag it returns) -/
def CModel.post (n : Nat) : CModel α → CModel α × Bool
  | .prec d es => (.prec d (testAll d n es), stopFlag (testAll d n es))
  | .other => (.other, false)

/-- `Coupler.postProcess` on row n with the combination `comb` of the returned flags:
(models afterwards, flags returned in list order, combined flag) -/
def couplerPostWith (comb : List Bool → Bool) (n : Nat) (ms : List (CModel α)) :
    List (CModel α) × List Bool × Bool :=
  ((ms.map (CModel.post n)).map Prod.fst, (ms.map (CModel.post n)).map Prod.snd,
   comb ((ms.map (CModel.post n)).map Prod.snd))

/-- `DESolver.solve` on the coupler: `clock k` = `Coupler.time[k]` (the time handed to every model's
`postProcess` on step k); returns (last row, stopped early, models) -/
def coupledRunWith (comb : List Bool → Bool) (clock : Nat → α) (tf : α) :
    Nat → Nat → List (CModel α) → Nat × Bool × List (CModel α)
  | 0, k, ms => (k, false, ms)
  | f+1, k, ms =>
    if clock k < tf then
      if (couplerPostWith comb (k+1) ms).2.2 then (k+1, true, (couplerPostWith comb (k+1) ms).1)
      else coupledRunWith comb clock tf f (k+1) (couplerPostWith comb (k+1) ms).1
    else (k, false, ms)

/-- the code -/
def couplerPost (n : Nat) (ms : List (CModel α)) : List (CModel α) × List Bool × Bool :=
  couplerPostWith couplerStop n ms

def coupledRun (clock : Nat → α) (tf : α) (fuel k : Nat) (ms : List (CModel α)) :
    Nat × Bool × List (CModel α) :=
  coupledRunWith couplerStop clock tf fuel k ms

/-- a coupled model after steps 1..k with nothing stopping the run -/
def CModel.evolved (k : Nat) : CModel α → CModel α
  | .prec d es => .prec d (evolve d es k)
  | .other => .other

/-- does this model request the stop after step j (its own and/or rule on its own history)? -/
def CModel.requestAt (j : Nat) : CModel α → Bool
  | .prec d es => stopFlag (evolve d es j)
  | .other => false

end coupled

end KawinV.StopCond
