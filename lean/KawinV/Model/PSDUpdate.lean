/-
Hand-written model of what happens to the state vector between the solver update and the stored
PSD (core Lean only):
  * `_processX` (KWNEuler.py 354-365): classes 0..RdrivingForceIndex and classes with centre below
    minRadius are zeroed,
  * `UpdatePBMEuler` (PopulationBalance.py 622-635): entries < 1 are set to 0,
  * the Euler state update x' = x + dt * dXdt,
  * `addSizeClasses`: zeros appended.
-/
import KawinV.Model.PBMTransport
import KawinV.Model.MassBalance
namespace KawinV.PSD

section
variable {α : Type} [Add α] [Sub α] [Mul α] [Div α] [Neg α] [Zero α] [One α]
  [LT α] [DecidableLT α] [LE α] [DecidableLE α]

/-- `PSD[PSD < 1] = 0` -/
def trunc (x : List α) : List α := x.map (fun v => if v < 1 then 0 else v)

/-- `x[:k+1] = 0 ; x[PSDsize < minRadius] = 0` -/
def processX (k : Nat) (minRadius : α) (x R : List α) : List α :=
  (List.zipWith (fun v r => if r < minRadius then 0 else v) x R).mapIdx (fun i v => if i ≤ k then 0 else v)

/-- the solver's update of one phase: `x + dXdt*dt` as an index function -/
def eulerUpdate (x dxdt : Nat → α) (dt : α) (i : Nat) : α := x i + dxdt i * dt

end
end KawinV.PSD
