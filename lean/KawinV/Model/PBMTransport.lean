/-
Hand-written executable model of the Euler transport part of
kawin/precipitation/PopulationBalance.py (getdXdtEuler 531-568, correctdXdtEuler 573-633 (three passes),
getDTEuler 493-529, getDissolutionIndex 466-490).  Core Lean only; generic scalar.

Classes are 0..n-1, faces 0..n.  Arrays are index functions `Nat → α`; the driver wraps lists.
-/
namespace KawinV.PBM

section generic
variable {α : Type} [Add α] [Sub α] [Mul α] [Div α] [Neg α] [Zero α]
  [LT α] [DecidableLT α] [LE α] [DecidableLE α]

/-- number flux across face j (PopulationBalance.py 555-560).
`fluxSign` is 1 for flux > 0 and 0 otherwise, so a face with non-positive growth rate takes
particles from the class on its right (class j) and a face with positive growth rate takes
them from the class on its left (class j-1). -/
def netFlux (n : Nat) (flux psd dR : Nat → α) (j : Nat) : α :=
  (if j < n ∧ ¬ (0 : α) < flux j then flux j * psd j / dR j else 0) +
  (if 1 ≤ j ∧ (0 : α) < flux j then flux j * psd (j-1) / dR (j-1) else 0)

/-- `np.argmax` of a boolean array of length `len`: first index holding `true`, 0 if none. -/
def argmaxFirst (p : Nat → Bool) (len : Nat) : Nat :=
  match (List.range len).find? (fun i => p i) with
  | some i => i
  | none => 0

/-- `np.argmax(PSDbounds > nucRadius) - 1` used as a Python index into an array of length n
(-1, for a radius at or above the last boundary, wraps to the last class); a radius below the
first boundary is put into class 0 (PopulationBalance.py, the guard added by the fix for
F-C07-nuc-below). -/
def nucIndex (n : Nat) (bounds : Nat → α) (r : α) : Nat :=
  if r < bounds 0 then 0 else
  let a := argmaxFirst (fun i => decide (r < bounds i)) (n+1)
  if a = 0 then n - 1 else a - 1

/-- the class of a radius found by SCANNING the classes from the left: the first class `k` whose upper boundary lies
above the radius (`r < bounds (k+1)`), the last class when no upper boundary does.  This is the property-side index
(class `[b_k, b_{k+1})`, lower boundary included, upper excluded; a radius at/below the first boundary → class 0, at/above
the last boundary → last class); `nucIndex` above is what the code computes (`argmax(...) - 1` with Python's index wrap
and the guard).  Props/C07 proves the two equal on every strictly increasing grid (`nucIndex_eq_nucIdx`); the driver
evaluates both (`pbm.nucidx`) against getdXdtEuler AND correctdXdtEuler on boundary-exact radii. -/
def nucIdx (n : Nat) (bounds : Nat → α) (r : α) : Nat :=
  match (List.range n).find? (fun k => decide (r < bounds (k+1))) with
  | some k => k
  | none => n - 1

/-- dXdt[i] = netFlux[i] - netFlux[i+1], plus the nucleation rate in class `nucIdx`. -/
def dXdt (nf : Nat → α) (nucIdx : Nat) (nucRate : α) (i : Nat) : α :=
  (nf i - nf (i+1)) + (if i = nucIdx then nucRate else 0)

/-- first pass of correctdXdtEuler: `indBelow = netFlux[:-1]*dt < -psd; netFlux[:-1][indBelow] = -psd/dt` -/
def limitBelow (n : Nat) (dt : α) (psd nf : Nat → α) (j : Nat) : α :=
  if j < n ∧ nf j * dt < - psd j then - psd j / dt else nf j

/-- second pass: `indAbove = netFlux[1:]*dt > psd; netFlux[1:][indAbove] = psd/dt` -/
def limitAbove (n : Nat) (dt : α) (psd nf : Nat → α) (j : Nat) : α :=
  if 1 ≤ j ∧ j ≤ n ∧ psd (j-1) < nf j * dt then psd (j-1) / dt else nf j

/-- `np.maximum(x, 0)` -/
def pos0 (x : α) : α := if (0 : α) < x then x else 0

/-- total outflow of class i: `outLeft + outRight = np.maximum(-netFlux[:-1], 0) + np.maximum(netFlux[1:], 0)`.
A negative flux at its left face and a positive flux at its right face both carry particles OUT of class i. -/
def outflow (nf : Nat → α) (i : Nat) : α := pos0 (- nf i) + pos0 (nf (i+1))

/-- third pass (commit "fix: correctdXdtEuler also limits the TOTAL outflow of a size class"):
`indOut = outflow*dt > psd; scale = ones; scale[indOut] = psd/(outflow*dt)`;
`netFlux[:-1][outLeft > 0] *= scale[outLeft > 0]` then `netFlux[1:][outRight > 0] *= scale[outRight > 0]`.
Face j is scaled with the factor of class j when it is that class's outflow face (`outLeft[j] > 0`), with the
factor of class j-1 when it is that class's outflow face (`outRight[j-1] > 0`); the two conditions exclude each
other, `outLeft`/`outRight`/`scale` are all computed from the fluxes `nf` left by the first two passes.
A factor of 1 (class not in `indOut`) leaves the flux as it is. -/
def limitOut (n : Nat) (dt : α) (psd nf : Nat → α) (j : Nat) : α :=
  if j < n ∧ (0 : α) < pos0 (- nf j) then
    (if psd j < outflow nf j * dt then nf j * (psd j / (outflow nf j * dt)) else nf j)
  else if 1 ≤ j ∧ j ≤ n ∧ (0 : α) < pos0 (nf j) then
    (if psd (j-1) < outflow nf (j-1) * dt then nf j * (psd (j-1) / (outflow nf (j-1) * dt)) else nf j)
  else nf j

/-- the two face-wise passes alone, in the code's order (all of correctdXdtEuler before the repair) -/
def faceLimited (n : Nat) (dt : α) (psd nf : Nat → α) : Nat → α :=
  limitAbove n dt psd (limitBelow n dt psd nf)

/-- corrected face fluxes (the three passes in the code's order) -/
def correctedFlux (n : Nat) (dt : α) (psd nf : Nat → α) : Nat → α :=
  limitOut n dt psd (faceLimited n dt psd nf)

end generic

section dt
variable {α : Type} [Add α] [Sub α] [Mul α] [Div α] [Neg α] [Zero α]
  [LT α] [DecidableLT α] [LE α] [DecidableLE α]

def absS (x : α) : α := if x < 0 then -x else x

/-- maximum of a list by `if a < b then b else a` folding from the left (np.amax without NaN) -/
def maxList : List α → α
  | [] => 0
  | x :: xs => xs.foldl (fun a b => if a < b then b else a) x

/-- indices j in [dissIdx, n) with psd j > 0 — `growth[dissolutionIndex:-1][PSD[dissolutionIndex:] > 0]` -/
def dtFilter (n dissIdx : Nat) (psd : Nat → α) : List Nat :=
  (List.range n).filter (fun j => dissIdx ≤ j ∧ (0:α) < psd j)

/-- getDTEuler -/
def getDT (n dissIdx : Nat) (currDT ratio : α) (growth psd bounds : Nat → α) : α :=
  let idx := dtFilter n dissIdx psd
  match idx with
  | [] => currDT
  | _ =>
    let m := maxList (idx.map (fun j => absS (growth j)))
    if m < 0 ∨ 0 < m then ratio * (bounds 1 - bounds 0) / m else currDT


/-- `np.cumsum(f)[i]` -/
def cumSum (f : Nat → α) : Nat → α
  | 0 => f 0
  | i+1 => cumSum f i + f (i+1)

/-- getDissolutionIndex (PopulationBalance.py 466-490):
`max(argmax(CumulativeMoment(3) > maxDissolution * ThirdMoment), minIndex)`; `vol i = psd i * size i ^ 3` -/
def dissolutionIndex (n : Nat) (maxDiss : α) (vol : Nat → α) (minIndex : Nat) : Nat :=
  let total := if n = 0 then 0 else cumSum vol (n-1)
  let a := argmaxFirst (fun i => decide (maxDiss * total < cumSum vol i)) n
  if a < minIndex then minIndex else a

end dt

end KawinV.PBM
