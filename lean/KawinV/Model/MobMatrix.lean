/-
Hand-written executable model of the mobility matrix of kawin/thermo/Mobility.py
(x_to_u_frac 15-29, mobility_matrix 346-436) and of the flux it implies.
Core Lean only; generic scalar.

Elements are 0..n-1 in alphabetical order (`phase_record.nonvacant_elements`); `interst a` says
whether element a is in the module-level `interstitials` list; vectors are index functions.

Inputs of the model (captured from the real run): the mole fractions `X` (`composition_set.X`),
the computed mobilities `M` (`mobility_from_composition_set`, already multiplied by the mobility
correction), and for every interstitial a the vacancy site fraction `yVa a` on its sublattice
(`vaTerms.get(interstitialTerms[a], 1)`).
-/
namespace KawinV.Mob

section generic
variable {α : Type} [Add α] [Sub α] [Mul α] [Div α] [Neg α] [Zero α] [One α]

/-- left-to-right sum `f 0 + … + f (n-1)` -/
def sumN (f : Nat → α) : Nat → α
  | 0 => 0
  | n+1 => sumN f n + f n

/-- `Usum = np.sum([x_frac[:,A] for A … if elements[A] not in interstitial_list])` -/
def usum (n : Nat) (interst : Nat → Bool) (X : Nat → α) : α :=
  sumN (fun A => if interst A then 0 else X A) n

/-- `u_frac = x_frac / Usum` (every element, interstitials included, is divided by the
substitutional sum) -/
def ufrac (n : Nat) (interst : Nat → Bool) (X : Nat → α) (A : Nat) : α :=
  X A / usum n interst X

/-- `mob[A] = U[A] * computedMob[A]` -/
def mobU (U M : Nat → α) (A : Nat) : α := U A * M A

/-- `mobility_matrix` (Mobility.py 416-434), entry [a, b]:
* a interstitial: only the diagonal, `yVa·mob[a]` (or `mob[a]` for a vacancy-poor sublattice);
* a substitutional: for substitutional b `(1 − U[a])·mob[b]` on the diagonal, `−U[a]·mob[b]` off it,
  nothing for interstitial b;
* finally the whole matrix is multiplied by `Usum`. -/
def mobMatrix (interst : Nat → Bool) (vacPoor : Bool) (U M yVa : Nat → α) (Usum : α)
    (a b : Nat) : α :=
  (if interst a then
     (if a = b then (if vacPoor then mobU U M a else yVa a * mobU U M a) else 0)
   else if interst b then 0
   else if a = b then (1 - U a) * mobU U M b
   else (- U a) * mobU U M b) * Usum

/-- the mobility matrix as the code computes it from the composition: U and Usum from `x_to_u_frac` -/
def mobMatrixX (n : Nat) (interst : Nat → Bool) (vacPoor : Bool) (X M yVa : Nat → α) : Nat → Nat → α :=
  mobMatrix interst vacPoor (ufrac n interst X) M yVa (usum n interst X)

/-- flux of element a driven by chemical-potential gradients `g`:  J_a = − Σ_b M_ab · g_b -/
def flux (n : Nat) (Mm : Nat → Nat → α) (g : Nat → α) (a : Nat) : α :=
  - sumN (fun b => Mm a b * g b) n

/-- sum of a vector over the substitutional elements -/
def substSum (n : Nat) (interst : Nat → Bool) (J : Nat → α) : α :=
  sumN (fun a => if interst a then 0 else J a) n

/-- sum of column b of a matrix over the substitutional rows -/
def substColSum (n : Nat) (interst : Nat → Bool) (Mm : Nat → Nat → α) (b : Nat) : α :=
  substSum n interst (fun a => Mm a b)

end generic

end KawinV.Mob
